package ngapConvert

import "testing"

// F17: dual-stack transport layer address.
func TestF17(t *testing.T) {
	defer func() {
		if r := recover(); r != nil {
			t.Fatalf("panic: %v", r)
		}
	}()
	a := IPAddressToNgap("10.0.0.1", "2001:db8::1")
	v4, v6 := IPAddressToString(a)
	if v4 != "10.0.0.1" || v6 != "2001:db8::1" {
		t.Fatalf("got %q %q", v4, v6)
	}
}
