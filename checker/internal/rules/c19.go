package rules

import (
	"fmt"
	"go/token"
	"strings"

	"golang.org/x/tools/go/ssa"

	"stgverif/internal/core"
)

func init() { Registry["C19"] = c19 }

// isIOCallee: the calls whose result C19 says must be checked.
func isIOCallee(name string) bool {
	switch name {
	case pSctp + ".SCTPConn.Read", pSctp + ".SCTPConn.Write", pNgap + ".Decoder", pTglib + ".ConnectToAmf":
		return true
	}
	return false
}

// driverFuncs: functions of main and stgutg statically reachable from main.main.
func driverFuncs(c *core.Ctx) []*ssa.Function {
	mainFn := mustFunc(c, pMain, "main")
	var out []*ssa.Function
	for _, f := range sortedFuncs(staticReach(mainFn)) {
		pp := fnPkgPath(f)
		if (pp == pMain || pp == pStg) && len(f.Blocks) > 0 {
			out = append(out, f)
		}
	}
	return out
}

func c19(c *core.Ctx) map[string]interface{} {
	c.Explanation = "Static error-discipline check for fail-stop (C19). Decided: (R19.exit) stgutg.ManageError, on a non-nil error, reaches os.Exit with a non-zero constant on every path and never returns; (R19.check) for every call of (*sctp.SCTPConn).Read/Write, ngap.Decoder and tglib.ConnectToAmf in the functions of main/stgutg reachable from main, every path from the call to the next I/O or decode call, to a use of a co-returned value, or to a return passes through ManageError applied to that call's own error value; (R19.norecover) no recover() in main/stgutg/tglib; (R19.banner) nothing that performs I/O follows the completion banner, and the banner is only reachable after the procedure loops. (R19.oneread) no Read of the signalling procedures (or of a helper they call) is repeated in a loop driven by the received bytes; (components) the rule set of C14 (every read of the NGAP decoder is bounds-checked against the input with a fresh cursor, so truncated or over-announcing input is refused rather than completed from stale buffer contents). (how) R19.check reads the fail-stop variant of the drivers' evaluator model: the error results of Read/Write/ngap.Decoder are left open, every test of one forks the path, os.Exit ends it; on every path the error must have been found nil by the next I/O call or the return (a flag handed to a receive helper folds like any constant). (R4.align) parseAlignBits accepts only all-zero padding. NOT decided: the wall-clock bound of a blocked SCTP read (kernel behaviour)."
	c.Assumptions = []string{
		"os.Exit terminates the process (standard library)",
		"a panic (e.g. nil dereference on an unexpected but decodable message) terminates the process with a non-zero status",
		"SCTP read/write return an error when the association is closed (github.com/ishidawataru/sctp, kernel)",
	}
	r19exit(c)
	r19check(c)
	r19norecover(c)
	r19banner(c)
	r19oneread(c)
	// "bytes that are not a decodable NGAP message" end the run only if the decoder refuses them:
	// the decoder's totality/refusal obligations (C14) are part of this check
	include(c, "C14")
	// … and padding that is not zero is not a PER encoding (X.691 10.1)
	r4align(c)
	return nil
}

// ---------------------------------------------------------------- R19.exit
func r19exit(c *core.Ctx) {
	const R = "R19.exit"
	c.Rule(R, "ManageError: err!=nil ⇒ every path reaches os.Exit(c≠0) before any return; err==nil ⇒ returns")
	fn := mustFunc(c, pStg, "ManageError")
	if len(fn.Params) != 2 {
		c.Fail(R, "stgutg.ManageError:signature", fn.Pos(), "expected (message string, err error), got %d parameters", len(fn.Params))
		return
	}
	errParam := fn.Params[1]
	// find the If whose condition compares errParam with nil
	var theIf *ssa.If
	var neq bool
	for _, b := range fn.Blocks {
		for _, in := range b.Instrs {
			iff, ok := in.(*ssa.If)
			if !ok {
				continue
			}
			bo, ok := iff.Cond.(*ssa.BinOp)
			if !ok || (bo.Op != token.NEQ && bo.Op != token.EQL) {
				continue
			}
			isNil := func(v ssa.Value) bool { k, ok := v.(*ssa.Const); return ok && k.Value == nil }
			if (bo.X == errParam && isNil(bo.Y)) || (bo.Y == errParam && isNil(bo.X)) {
				if theIf == nil {
					theIf = iff
					neq = bo.Op == token.NEQ
				}
			}
		}
	}
	if theIf == nil {
		c.Fail(R, "stgutg.ManageError:nil-test", fn.Pos(), "no branch on `err != nil` of the error parameter found")
		return
	}
	// the nil-test must be reached unconditionally: its block dominates all exits and is the entry or dominated only by straight code
	if theIf.Block() != fn.Blocks[0] {
		c.Fail(R, "stgutg.ManageError:nil-test", theIf.Pos(), "the test of the error parameter is not in the entry block (some path may skip it)")
	} else {
		c.Ok(R, "stgutg.ManageError:nil-test", theIf.Block().Instrs[0].Pos(), "entry block branches on err != nil")
	}
	errSide, nilSide := theIf.Block().Succs[0], theIf.Block().Succs[1]
	if !neq {
		errSide, nilSide = nilSide, errSide
	}
	// error side: every path must hit os.Exit(nonzero) before a return
	bad := ""
	var badPos token.Pos
	exits := 0
	seen := map[*ssa.BasicBlock]bool{}
	var walk func(b *ssa.BasicBlock)
	walk = func(b *ssa.BasicBlock) {
		if bad != "" {
			return
		}
		if seen[b] {
			return
		}
		seen[b] = true
		for _, in := range b.Instrs {
			switch x := in.(type) {
			case *ssa.Call:
				if core.CalleeName(&x.Call) == "os.Exit" {
					v, ok := core.ConstInt(x.Call.Args[0])
					if !ok {
						bad, badPos = "os.Exit status is not a constant", x.Pos()
						return
					}
					if v == 0 {
						bad, badPos = "os.Exit(0): a fault would be reported as success", x.Pos()
						return
					}
					exits++
					return // path ends here
				}
			case *ssa.Return:
				bad, badPos = "a path on the err!=nil side returns without calling os.Exit", x.Pos()
				return
			case *ssa.Defer, *ssa.Go:
				bad, badPos = "defer/go on the error side", in.Pos()
				return
			}
		}
		if b == theIf.Block() {
			bad, badPos = "error side loops back to the test", theIf.Pos()
			return
		}
		for _, s := range b.Succs {
			walk(s)
		}
	}
	walk(errSide)
	if bad != "" {
		if !badPos.IsValid() {
			badPos = fn.Pos()
		}
		c.Fail(R, "stgutg.ManageError:err-side", badPos, "%s", bad)
	} else if exits == 0 {
		c.Fail(R, "stgutg.ManageError:err-side", fn.Pos(), "no os.Exit on the err!=nil side")
	} else {
		c.Ok(R, "stgutg.ManageError:err-side", errSide.Instrs[0].Pos(), "every path reaches os.Exit(non-zero constant)")
	}
	// nil side: must not exit
	exitOnNil := false
	seen = map[*ssa.BasicBlock]bool{}
	var walk2 func(b *ssa.BasicBlock)
	walk2 = func(b *ssa.BasicBlock) {
		if seen[b] {
			return
		}
		seen[b] = true
		for _, in := range b.Instrs {
			if x, ok := in.(*ssa.Call); ok && core.CalleeName(&x.Call) == "os.Exit" {
				exitOnNil = true
			}
		}
		for _, s := range b.Succs {
			walk2(s)
		}
	}
	if nilSide != errSide {
		walk2(nilSide)
	}
	c.Check(!exitOnNil, R, "stgutg.ManageError:nil-side", fn.Pos(), "no exit when err==nil", "os.Exit reachable when err == nil")
}

// ---------------------------------------------------------------- R19.check
func r19check(c *core.Ctx) {
	const R = "R19.check"
	c.Rule(R, "every Read/Write/Decoder/ConnectToAmf result reaches ManageError(its own err) before the next I/O, any use of the co-result, or a return")
	manage := pStg + ".ManageError"
	total := 0
	covered := r19checkX(c, R, &total)
	for _, fn := range driverFuncs(c) {
		if covered[fn] {
			continue
		}
		c.Analysed(core.FuncName(fn))
		ord := ordinals{}
		var ios []*ssa.Call
		for _, ci := range core.Calls(fn) {
			call, ok := ci.(*ssa.Call)
			if !ok {
				if isIOCallee(core.CalleeName(ci.Common())) {
					c.Fail(R, core.FuncName(fn)+":"+shortName(core.CalleeName(ci.Common()))+":deferred", ci.Pos(), "I/O call in defer/go: its error cannot be checked")
				}
				continue
			}
			if isIOCallee(core.CalleeName(&call.Call)) {
				ios = append(ios, call)
			}
		}
		sortCallsByPos(ios)
		for idx, call := range ios {
			total++
			c.Sites(1)
			name := core.CalleeName(&call.Call)
			key := shortFn(fn) + ":" + ord.next(name)
			errV := extractOf(call, 1)
			valV := extractOf(call, 0)
			// the exception the property names: the decode after Registration Complete, results unused
			if name == pNgap+".Decoder" && core.FuncName(fn) == pStg+".RegisterUE" && idx == len(ios)-1 &&
				errV == nil && valV == nil && !writeReachableAfter(call) {
				c.Except(R, key, call.Pos(), "the one message after Registration Complete, whose content the emulator deliberately ignores (named in the property); both results unused and no send follows")
				continue
			}
			if errV == nil {
				c.Fail(R, key, call.Pos(), "error result of %s is discarded", shortName(name))
				continue
			}
			// find ManageError(_, errV)
			var guards []*ssa.Call
			for _, r := range core.Referrers(errV) {
				if mc, ok := r.(*ssa.Call); ok && core.CalleeName(&mc.Call) == manage && len(mc.Call.Args) == 2 && mc.Call.Args[1] == ssa.Value(errV) {
					guards = append(guards, mc)
				}
			}
			if len(guards) == 0 {
				c.Fail(R, key, call.Pos(), "error result of %s never reaches stgutg.ManageError", shortName(name))
				continue
			}
			isGuard := map[ssa.Instruction]bool{}
			for _, g := range guards {
				isGuard[g] = true
			}
			// walk forward from the call; every path must meet a guard before a bad event
			bad, badPos := walkUntilGuard(call, isGuard, valV)
			if bad != "" {
				c.Fail(R, key, badPos, "%s before ManageError checks the error of %s at %s", bad, shortName(name), c.P.Pos(call.Pos()))
			} else {
				c.Ok(R, key, call.Pos(), "ManageError(err) on every path before next I/O/use/return")
			}
		}
	}
	c.Floor(R, total, 35)
}

func shortFn(fn *ssa.Function) string { return shortName(core.FuncName(fn)) }

func sortCallsByPos(cs []*ssa.Call) {
	for i := 1; i < len(cs); i++ {
		for j := i; j > 0 && cs[j].Pos() < cs[j-1].Pos(); j-- {
			cs[j], cs[j-1] = cs[j-1], cs[j]
		}
	}
}

func writeReachableAfter(call *ssa.Call) bool {
	found := false
	forwardWalk(call, func(in ssa.Instruction) bool {
		if ci, ok := in.(ssa.CallInstruction); ok && core.CalleeName(ci.Common()) == pSctp+".SCTPConn.Write" {
			found = true
			return false
		}
		return true
	})
	return found
}

// forwardWalk visits every instruction reachable after `from` (each block once);
// visit returns false to stop exploring the current path.
func forwardWalk(from ssa.Instruction, visit func(ssa.Instruction) bool) {
	seen := map[*ssa.BasicBlock]bool{}
	var walkBlock func(b *ssa.BasicBlock, start int)
	walkBlock = func(b *ssa.BasicBlock, start int) {
		for i := start; i < len(b.Instrs); i++ {
			if !visit(b.Instrs[i]) {
				return
			}
		}
		for _, s := range b.Succs {
			if !seen[s] {
				seen[s] = true
				walkBlock(s, 0)
			}
		}
	}
	walkBlock(from.Block(), core.InstrIndex(from)+1)
}

// walkUntilGuard explores all paths after call; returns a description of the
// first bad event met on a path that has not passed a guard.
func walkUntilGuard(call *ssa.Call, isGuard map[ssa.Instruction]bool, coResult ssa.Value) (string, token.Pos) {
	bad := ""
	var badPos token.Pos
	forwardWalk(call, func(in ssa.Instruction) bool {
		if bad != "" {
			return false
		}
		if isGuard[in] {
			return false
		}
		switch x := in.(type) {
		case *ssa.Return:
			bad, badPos = "the function returns", x.Pos()
			return false
		case ssa.CallInstruction:
			n := core.CalleeName(x.Common())
			if isIOCallee(n) {
				bad, badPos = "another I/O/decode call ("+shortName(n)+")", x.Pos()
				return false
			}
		}
		if coResult != nil {
			for _, op := range in.Operands(nil) {
				if *op == coResult {
					bad, badPos = "the co-returned value is used", in.Pos()
					return false
				}
			}
		}
		return true
	})
	return bad, badPos
}

// ---------------------------------------------------------------- R19.norecover
func r19norecover(c *core.Ctx) {
	const R = "R19.norecover"
	c.Rule(R, "no recover() in main, stgutg, tglib (a recovered fault would let the run continue)")
	nf, ni := 0, 0
	found := false
	for _, pp := range []string{pMain, pStg, pTglib, pBuild} {
		sp := c.P.SSAPkg(pp)
		if sp == nil {
			c.Undecided("package %s not in SSA program", pp)
		}
		for _, f := range allFuncsOf(sp) {
			nf++
			for _, b := range f.Blocks {
				for _, in := range b.Instrs {
					ni++
					if ci, ok := in.(ssa.CallInstruction); ok {
						if bi, ok := ci.Common().Value.(*ssa.Builtin); ok && bi.Name() == "recover" {
							found = true
							c.Fail(R, core.FuncName(f)+":recover", ci.Pos(), "recover() swallows the fault")
						}
					}
				}
			}
		}
	}
	if nf == 0 {
		c.Undecided("R19.norecover scanned zero functions")
	}
	if !found {
		c.Ok(R, "main+stgutg+tglib:no-recover", token.NoPos, strings.TrimSpace(itoa(nf)+" functions, "+itoa(ni)+" instructions scanned, 0 recover calls"))
	}
}

// allFuncsOf lists the source functions (incl. methods and closures) of an SSA package.
func allFuncsOf(sp *ssa.Package) []*ssa.Function {
	seen := map[*ssa.Function]bool{}
	var add func(f *ssa.Function)
	add = func(f *ssa.Function) {
		if f == nil || seen[f] {
			return
		}
		seen[f] = true
		for _, a := range f.AnonFuncs {
			add(a)
		}
	}
	for _, m := range sp.Members {
		switch x := m.(type) {
		case *ssa.Function:
			add(x)
		case *ssa.Type:
			for _, t := range []interface{ NumMethods() int }{} {
				_ = t
			}
			ms := sp.Prog.MethodSets.MethodSet(x.Type())
			for i := 0; i < ms.Len(); i++ {
				add(sp.Prog.MethodValue(ms.At(i)))
			}
			pms := sp.Prog.MethodSets.MethodSet(ptrTo(x.Type()))
			for i := 0; i < pms.Len(); i++ {
				add(sp.Prog.MethodValue(pms.At(i)))
			}
		}
	}
	var out []*ssa.Function
	for f := range seen {
		if f.Synthetic == "" || strings.HasPrefix(f.Synthetic, "package init") {
			if len(f.Blocks) > 0 {
				out = append(out, f)
			}
		}
	}
	return sortedFuncs(toSet(out))
}

func toSet(fs []*ssa.Function) map[*ssa.Function]bool {
	m := map[*ssa.Function]bool{}
	for _, f := range fs {
		m[f] = true
	}
	return m
}

// ---------------------------------------------------------------- R19.banner
func r19banner(c *core.Ctx) {
	const R = "R19.banner"
	c.Rule(R, "the completion banner is printed only after every procedure loop of test mode, and nothing that does I/O follows it")
	mainFn := mustFunc(c, pMain, "main")
	// find Println call with a constant argument containing "All tests finished"
	var banners []*ssa.Call
	for _, ci := range core.Calls(mainFn) {
		call, ok := ci.(*ssa.Call)
		if !ok || !strings.HasPrefix(core.CalleeName(&call.Call), "fmt.Print") {
			continue
		}
		if callHasConstString(call, "All tests finished") {
			banners = append(banners, call)
		}
	}
	if len(banners) == 0 {
		c.Note("R19.banner: no completion banner (\"All tests finished\") in main — nothing to order")
		return
	}
	for bi, banner := range banners {
		r19bannerOne(c, R, mainFn, banner, bi)
	}
}

func r19bannerOne(c *core.Ctx, R string, mainFn *ssa.Function, banner *ssa.Call, bi int) {
	// procedure calls: calls from main into functions (stgutg) that transitively perform I/O
	ioFns := map[*ssa.Function]bool{}
	for _, f := range driverFuncs(c) {
		if fnPkgPath(f) != pStg {
			continue
		}
		for g := range staticReach(f) {
			n := core.FuncName(g)
			if n == pSctp+".SCTPConn.Read" || n == pSctp+".SCTPConn.Write" {
				ioFns[f] = true
			}
		}
	}
	nproc := 0
	for _, ci := range core.Calls(mainFn) {
		g := ci.Common().StaticCallee()
		if g == nil || !ioFns[g] {
			continue
		}
		// only those that can precede or follow the banner matter
		if core.MayPrecede(banner, ci) {
			c.Fail(R, "main:after-banner#"+itoa(bi+1)+":"+shortFn(g), ci.Pos(), "procedure %s can run after the completion banner was printed", shortFn(g))
			continue
		}
		if core.MayPrecede(ci, banner) {
			nproc++
		}
	}
	c.Check(nproc >= 1, R, "main:banner#"+itoa(bi+1)+"-after-procedures", banner.Pos(), itoa(nproc)+" I/O procedures can precede the banner, none can follow",
		"the banner is not preceded by any procedure call")
}

func callHasConstString(call *ssa.Call, sub string) bool {
	var found bool
	var visit func(v ssa.Value, depth int)
	visit = func(v ssa.Value, depth int) {
		if depth > 6 || found {
			return
		}
		if s, ok := core.ConstString(v); ok && strings.Contains(s, sub) {
			found = true
			return
		}
		switch x := v.(type) {
		case *ssa.MakeInterface:
			visit(x.X, depth+1)
		case *ssa.Slice:
			visit(x.X, depth+1)
		case *ssa.Alloc:
			for _, r := range core.Referrers(x) {
				if ia, ok := r.(*ssa.IndexAddr); ok {
					for _, r2 := range core.Referrers(ia) {
						if st, ok := r2.(*ssa.Store); ok {
							visit(st.Val, depth+1)
						}
					}
				}
			}
		}
	}
	for _, a := range call.Call.Args {
		visit(a, 0)
	}
	return found
}

// r19oneread: a reply is consumed by exactly one Read. A Read inside a loop in the
// signalling procedures (or in a helper they call) waits for further data whose
// arrival the peer's bytes decide: an AMF that sends garbage announcing more than it
// delivers, and then stays silent, keeps the emulator blocked for ever instead of
// letting the decode of what arrived fail.
func r19oneread(c *core.Ctx) {
	const R = "R19.oneread"
	c.Rule(R, "no (*SCTPConn).Read of the signalling procedures sits in a loop: each reply is one Read followed by its decode")
	var entries []*ssa.Function
	for _, n := range []string{"ManageNGSetup", "RegisterUE", "DeregisterUE", "EstablishPDU", "ReleasePDU", "ModifyPDU", "ServiceRequest"} {
		if f := c.P.Func(pStg, n); f != nil {
			entries = append(entries, f)
		}
	}
	if len(entries) < 5 {
		c.Undecided("R19.oneread: only %d procedure drivers found", len(entries))
	}
	n := 0
	for _, f := range sortedFuncs(staticReach(entries...)) {
		pp := fnPkgPath(f)
		if pp != pStg && pp != pTglib {
			continue
		}
		ord := ordinals{}
		for _, ci := range core.CallsTo(f, pSctp+".SCTPConn.Read") {
			n++
			key := shortName(core.FuncName(f)) + ":" + ord.next("SCTPConn.Read")
			b := ci.Block()
			inLoop := core.Reaches(b, b)
			c.Check(!inLoop, R, key, ci.Pos(), "read once", "this Read is inside a loop of %s: how often it is repeated depends on the bytes received, so a peer that announces more data than it sends blocks the emulator for ever (no exit, no error)", shortName(core.FuncName(f)))
		}
	}
	if n < 1 {
		c.Undecided("R19.oneread: only %d Read call sites found below the procedure drivers (expected about 17)", n)
	}
}

// r19checkX: R19.check on the fail-stop variant of the evaluator model (drvx.go). Each procedure
// driver is interpreted with the helpers of its package entered and the error results of Read,
// Write and ngap.Decoder left open: a test of one forks the path, os.Exit ends it. On every path
// and for every such call, by the time the next Read/Write/Decoder is made (or the driver
// returns) the path must have found the error nil; a path that goes on with the error non-nil,
// or without having looked, is the violation. Returns the functions decided this way (the
// drivers and the helpers only they call); the SSA rule decides the rest.
func r19checkX(c *core.Ctx, R string, total *int) map[*ssa.Function]bool {
	covered := map[*ssa.Function]bool{}
	var drivers []*ssa.Function
	for _, n := range []string{"ManageNGSetup", "RegisterUE", "DeregisterUE", "EstablishPDU", "ReleasePDU", "ModifyPDU", "ServiceRequest"} {
		if f := c.P.Func(pStg, n); f != nil {
			drivers = append(drivers, f)
		}
	}
	inDrv := map[*ssa.Function]bool{}
	for _, f := range drivers {
		inDrv[f] = true
	}
	a := newAgg(c, R)
	for _, fn := range drivers {
		x := driverModelXE(c, fn, true)
		if x.err != "" || len(x.paths) == 0 {
			if c.Once("xmodel-err-note:" + fn.Name()) {
				c.Note("%s: fail-stop evaluator model not used (%s); R19.check reads the SSA of the function alone", fn.Name(), x.err)
			}
			continue
		}
		c.Analysed(core.FuncName(fn))
		covered[fn] = true
		name := shortFn(fn)
		maxIO := 0
		for _, p := range x.paths {
			ord := ordinals{}
			var ios []*core.AEvent
			for _, e := range p.events {
				switch e.kind {
				case "write", "recv", "decode":
					ios = append(ios, e.ev)
				}
			}
			if len(ios) > maxIO {
				maxIO = len(ios)
			}
			for k, ev := range ios {
				key := name + ":" + ord.next(ev.Callee)
				errName := fmt.Sprintf("err:io#%d", ev.Index)
				if ev.Callee == pNgap+".Decoder" {
					errName = fmt.Sprintf("err:rx#%d", ev.Index)
				}
				var nils map[string]bool
				barrier := "the driver returns"
				switch {
				case k+1 < len(ios):
					nils = ios[k+1].Nils
					barrier = "the next " + shortName(ios[k+1].Callee)
				case p.out.Stopped:
					a.check(true, key, ev.Site.Pos(), "the error is found nil (or the process exits) before the next I/O or the return, on every evaluated path", "")
					continue
				default:
					nils = p.out.Nils
				}
				wasNil, looked := nils[errName]
				switch {
				case looked && wasNil:
					a.check(true, key, ev.Site.Pos(), "the error is found nil (or the process exits) before the next I/O or the return, on every evaluated path", "")
				case looked && !wasNil:
					a.check(false, key, ev.Site.Pos(), "", "%s: a path finds the error of %s non-nil and still reaches %s: the procedure goes on after the fault", name, shortName(ev.Callee), barrier)
				default:
					// the exception the property names: the decode after Registration Complete
					later := false
					for _, e2 := range ios[k+1:] {
						if e2.Callee == fnSctpWrite {
							later = true
						}
					}
					rx := fmt.Sprintf("rx#%d", ev.Index)
					used := false
					for _, r := range p.out.Ret {
						if strings.Contains(nm(r), rx) {
							used = true
						}
					}
					if ev.Callee == pNgap+".Decoder" && fn.Name() == "RegisterUE" && k == len(ios)-1 && !later && !used {
						if _, seen := a.pos[key]; !seen {
							c.Except(R, key, ev.Site.Pos(), "the one message after Registration Complete, whose content the emulator deliberately ignores (named in the property); its result is not used and no send follows")
							a.pos[key] = ev.Site.Pos()
						}
						continue
					}
					a.check(false, key, ev.Site.Pos(), "", "%s: the error of %s is not looked at before %s (on a path of the evaluated driver, helpers entered): a fault at this step goes unnoticed", name, shortName(ev.Callee), barrier)
				}
			}
		}
		*total += maxIO
		c.Sites(maxIO)
	}
	// Except() registers its own obligation: drop those keys from the aggregate before flushing
	var keys []string
	for _, k := range a.keys {
		keys = append(keys, k)
	}
	a.keys = keys
	a.flush()
	// helpers reached only from decided drivers are decided with them
	for _, f := range driverFuncs(c) {
		if covered[f] || fnPkgPath(f) != pStg || inDrv[f] {
			continue
		}
		callers, all := 0, true
		for _, g := range driverFuncs(c) {
			for _, ci := range core.Calls(g) {
				if ci.Common().StaticCallee() == f {
					callers++
					if !covered[g] {
						all = false
					}
				}
			}
		}
		if callers > 0 && all {
			covered[f] = true
		}
	}
	return covered
}
