// Package rules holds the per-property rule sets.
package rules

import "stgverif/internal/core"

// Registry maps a property id to its rule set. The function returns extra
// coverage keys for the evidence.
var Registry = map[string]func(*core.Ctx) map[string]interface{}{}

func IDs() []string {
	var out []string
	for k := range Registry {
		out = append(out, k)
	}
	return out
}
