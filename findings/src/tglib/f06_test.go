package tglib

import (
	"bytes"
	"free5gclib/nas"
	"free5gclib/nas/nasMessage"
	"free5gclib/nas/nasTestpacket"
	"free5gclib/nas/security"
	"testing"
)

func testUE(enc, integ uint8) *RanUeContext {
	ue := NewRanUeContext("imsi-001010000000001", 1, enc, integ)
	for i := range ue.KnasEnc {
		ue.KnasEnc[i] = byte(i)
		ue.KnasInt[i] = byte(0x80 + i)
	}
	return ue
}

// amfProtect is what a conformant AMF does for a downlink message (TS 24.501 4.4).
func amfProtect(ue *RanUeContext, plain []byte, sht uint8, count uint32) []byte {
	p := append([]byte(nil), plain...)
	if sht == nas.SecurityHeaderTypeIntegrityProtectedAndCiphered || sht == nas.SecurityHeaderTypeIntegrityProtectedAndCipheredWithNew5gNasSecurityContext {
		_ = security.NASEncrypt(ue.CipheringAlg, ue.KnasEnc, count, security.Bearer3GPP, security.DirectionDownlink, p)
	}
	p = append([]byte{byte(count)}, p...)
	mac, _ := security.NASMacCalculate(ue.IntegrityAlg, ue.KnasInt, count, security.Bearer3GPP, security.DirectionDownlink, p)
	p = append(mac, p...)
	return append([]byte{nasMessage.Epd5GSMobilityManagementMessage, sht}, p...)
}

// F06: ciphered downlink message under NEA2 is deciphered with the wrong direction.
func TestF06(t *testing.T) {
	ue := testUE(security.AlgCiphering128NEA2, security.AlgIntegrity128NIA2)
	plain := nasTestpacket.GetServiceRequest(nasMessage.ServiceTypeData) // any plain 5GMM message
	wire := amfProtect(ue, plain, nas.SecurityHeaderTypeIntegrityProtectedAndCiphered, 0)
	m, err := NASDecode(ue, nas.SecurityHeaderTypeIntegrityProtectedAndCiphered, wire)
	if err != nil || m == nil || m.GmmMessage == nil || m.GmmMessage.ServiceRequest == nil {
		t.Fatalf("ciphered downlink message not recovered: %v", err)
	}
}

// F07: integrity-protected-only downlink message (sent in clear) is run through the cipher.
func TestF07(t *testing.T) {
	ue := testUE(security.AlgCiphering128NEA2, security.AlgIntegrity128NIA2)
	plain := nasTestpacket.GetServiceRequest(nasMessage.ServiceTypeData)
	wire := amfProtect(ue, plain, nas.SecurityHeaderTypeIntegrityProtected, 0)
	m, err := NASDecode(ue, nas.SecurityHeaderTypeIntegrityProtected, wire)
	if err != nil || m == nil || m.GmmMessage == nil || m.GmmMessage.ServiceRequest == nil {
		t.Fatalf("integrity-only downlink message not recovered: %v", err)
	}
}

// F08: integrity-protected-only uplink message must go out in clear.
func TestF08(t *testing.T) {
	ue := testUE(security.AlgCiphering128NEA2, security.AlgIntegrity128NIA2)
	plain := nasTestpacket.GetServiceRequest(nasMessage.ServiceTypeData)
	out, err := EncodeNasPduWithSecurity(ue, append([]byte(nil), plain...), nas.SecurityHeaderTypeIntegrityProtected, true, false)
	if err != nil {
		t.Fatal(err)
	}
	if !bytes.Equal(out[7:], plain) {
		t.Fatalf("integrity-only message was ciphered: %x vs %x", out[7:], plain)
	}
}
