package rules

import (
	"fmt"
	"go/token"
	"strings"

	"golang.org/x/tools/go/ssa"

	"stgverif/internal/core"
)

func init() { Registry["C10"] = c10 }

func c10(c *core.Ctx) map[string]interface{} {
	c.Explanation = "Static wiring and counter-estimate check of downlink NAS unprotection (C10). Decided for every path of tglib.NASDecode taken with a non-null integrity algorithm: (R10.dir) every NASEncrypt/NASMacCalculate call receives the UE's algorithm/key pair, COUNT = DLCount.Get(), BEARER = 1 and DIRECTION = 1 (downlink); the MAC is computed over sequence-number||message (payload[6:]) and the cipher is applied to payload[7:]; (R10.iff) deciphering happens exactly for header types 2 and 4; (R10.count) the downlink COUNT is reset to (0,0) exactly for header types 3 and 4 and before the estimate, the overflow is incremented exactly when the stored SQN is greater than the received one, then SQN := received octet payload[6]; the uplink COUNT is never touched; the message returned is PlainNasDecode of the deciphered payload; (R10.plain) header type 0 is decoded without touching any state; (R10.ie) GetNasPdu selects the NAS-PDU IE by its id, not its position, and derives the header type from the same buffer. The NASDecode rules are decided on the abstract evaluator's outcomes (helpers, phases and predicate functions are seen through): the DL COUNT stored when the MAC is computed is SQN = payload[6] with overflow 0 after a reset (types 3/4), old+1 exactly on the path that took stored SQN > received SQN (relational branch facts) and unchanged otherwise. (R8.dispatch, shared with C08) the decoded message is the one its type octet names. NOT decided: cipher/MAC values (C07), the AMF's behaviour, and what happens on a MAC mismatch (the code only prints). (components) the rule set of C07 (NEA/NIA algorithms) is run as part of this check: recovery needs the right NEA/NIA."
	c.Assumptions = []string{"the NAS security header is EPD(1) SHT(1) MAC(4) SQN(1) (TS 24.501 9.1.1)", "null integrity (NIA0) is outside the property's quantifier; that branch is not analysed"}
	fn := mustFunc(c, pTglib, "NASDecode")
	r10paths(c, fn)
	r10ie(c)
	r6count(c) // the DL COUNT estimate is only as good as the counter type (shared with C06)
	r8dispatchX(c, buildNasModel(c)) // the recovered message is the one its type octet names (shared with C08)
	include(c, "C07")
	return nil
}

func r10paths(c *core.Ctx, fn *ssa.Function) {
	const RD, RI, RC, RP = "R10.dir", "R10.iff", "R10.count", "R10.plain"
	c.Rule(RD, "NASDecode: algorithm/key/COUNT/BEARER/DIRECTION=downlink and payload offsets of every crypto call")
	c.Rule(RI, "NASDecode: the cipher is applied exactly for security header types 2 and 4")
	c.Rule(RC, "NASDecode: DL COUNT reset iff header type 3/4, overflow+1 iff stored SQN > received SQN, SQN := received; UL COUNT untouched")
	c.Rule(RP, "NASDecode: plain messages are decoded without touching security state")
	if len(fn.Params) != 3 {
		c.Fail(RD, "tglib.NASDecode:signature", fn.Pos(), "expected (ue, securityHeaderType, payload)")
		return
	}
	if r10pathsX(c) {
		return
	}
	c.Note("R10: NASDecode could not be interpreted; falling back to the path enumeration over its SSA form")
	p := core.NewPather(fn)
	// helpers of the same package are seen through: their counter operations and branches belong
	// to the paths of this function (a step moved into a helper is still the same step)
	p.InlineCalls = func(call *ssa.Call) bool {
		callee := call.Call.StaticCallee()
		if callee != nil && isNewCountMethod(callee) {
			return true // a Count method outside the known vocabulary is seen through to the known ones
		}
		return callee != nil && fnPkgPath(callee) == pTglib && callee.Name() != "EncodeNasPduWithSecurity"
	}
	type cryptoCall struct {
		name string
		args []string
	}
	dlGet := "call:" + fnCountGet + "(p0.DLCount)"
	dlSQN := "call:" + fnCountSQN + "(p0.DLCount)"
	dlOvf := "call:" + fnCountOvf + "(p0.DLCount)"
	ev := func(in ssa.Instruction) string {
		if r, ok := in.(*ssa.Return); ok {
			if len(r.Results) == 2 {
				return "ret:" + p.Path(r.Results[0]) + "," + p.Path(r.Results[1])
			}
			return "ret"
		}
		if ci, ok := in.(ssa.CallInstruction); ok {
			n := core.CalleeName(ci.Common())
			if n == fnEncrypt || n == fnMac || n == fnPlainDec {
				var as []string
				for _, a := range ci.Common().Args {
					as = append(as, p.Path(a))
				}
				tag := map[string]string{fnEncrypt: "encrypt", fnMac: "mac", fnPlainDec: "plaindec"}[n]
				return tag + "(" + strings.Join(as, ";") + ")"
			}
		}
		return countEvent(p, in, "p0")
	}
	br := func(cond ssa.Value) string {
		bo, ok := cond.(*ssa.BinOp)
		if !ok {
			return ""
		}
		x, y := p.Path(bo.X), p.Path(bo.Y)
		if k, isK := core.ConstInt(bo.Y); isK && x == "p1" {
			return fmt.Sprintf("sht:%s:%d", bo.Op.String(), k)
		}
		if k, isK := core.ConstInt(bo.X); isK && y == "p1" {
			return fmt.Sprintf("sht:%s:%d", flipOp(bo.Op).String(), k)
		}
		if k, isK := core.ConstInt(bo.Y); isK && x == "p0.IntegrityAlg" {
			return fmt.Sprintf("nia:%s:%d", bo.Op.String(), k)
		}
		if x == dlSQN || y == dlSQN {
			return "sqncmp{" + x + bo.Op.String() + y + "}"
		}
		if k, isNil := bo.Y.(*ssa.Const); isNil && k.Value == nil {
			switch {
			case x == "p0":
				return "uenil:" + bo.Op.String()
			case x == "p2":
				return "payloadnil:" + bo.Op.String()
			case strings.Contains(x, fnEncrypt) || strings.Contains(x, fnMac) || strings.Contains(x, fnPlainDec):
				if bo.Op == token.NEQ {
					return "err(" + errSrc(x) + ")"
				}
				return "noerr(" + errSrc(x) + ")"
			}
		}
		if strings.Contains(x+y, "p1") {
			return "shtcond{" + x + bo.Op.String() + y + "}"
		}
		return ""
	}
	paths, ok := core.EventPathsS(fn, p, ev, br, 1, 20000)
	if !ok {
		c.Undecided("tglib.NASDecode has more than 20000 entry→return paths")
	}
	c.Sites(len(paths))
	nProt, nPlain := 0, 0
	seenKeys := map[string]bool{}
	for _, path := range paths {
		desc := strings.Join(path, " ")
		if has(path, "uenil:===T") || has(path, "payloadnil:===T") || has(path, "errorf") {
			continue // argument validation paths
		}
		if hasPrefix(path, "shtcond{") {
			c.Undecided("NASDecode branches on the header type in a form the rule does not recognise: %s", desc)
		}
		feas := feasibleSHT(path, []int64{0, 1, 2, 3, 4})
		niaFeas := feasibleTagged(path, "nia:", []int64{1, 2})
		if len(feas) == 0 || len(niaFeas) == 0 {
			continue // infeasible for header types 0..4 with NIA1/NIA2
		}
		key := "tglib.NASDecode:path{" + pathKey(path) + "}"
		if seenKeys[key] {
			continue
		}
		seenKeys[key] = true
		pos := fn.Pos()
		isPlain := len(feas) == 1 && feas[0] == 0
		mixes0 := false
		for _, v := range feas {
			if v == 0 {
				mixes0 = true
			}
		}
		if isPlain {
			nPlain++
			bad := ""
			for _, e := range path {
				if strings.HasPrefix(e, "ul.") || strings.HasPrefix(e, "dl.") || strings.HasPrefix(e, "key.") || strings.HasPrefix(e, "encrypt") || strings.HasPrefix(e, "mac") {
					bad = e
				}
			}
			if bad != "" {
				c.Fail(RP, key, pos, "plain path touches security state: %s", bad)
			} else if !has(path, "plaindec(local:*nas.Message#0;local:[]byte#0)") && !hasPrefix(path, "plaindec(") {
				c.Fail(RP, key, pos, "plain path does not call PlainNasDecode: %s", desc)
			} else {
				c.Ok(RP, key, pos, desc)
			}
			continue
		}
		if mixes0 {
			c.Fail(RP, key, pos, "a path is shared by plain (type 0) and protected header types %v: %s", feas, desc)
			continue
		}
		if hasErrTrue(path) {
			continue // crypto error paths: nothing returned
		}
		nProt++
		r10protected(c, RD, RI, RC, key, pos, path, desc, feas, dlGet, dlSQN, dlOvf)
	}
	if nProt == 0 || nPlain == 0 {
		c.Fail(RC, "tglib.NASDecode:shape", fn.Pos(), "expected protected and plain paths, found %d protected and %d plain", nProt, nPlain)
	}
	c.Note("NASDecode: %d entry→return paths enumerated; %d protected success paths (NIA1/NIA2), %d plain", len(paths), nProt, nPlain)
}

func feasibleTagged(path []string, tag string, domain []int64) []int64 {
	var conv []string
	for _, e := range path {
		if strings.HasPrefix(e, tag) {
			conv = append(conv, "sht:"+strings.TrimPrefix(e, tag))
		}
	}
	return feasibleSHT(conv, domain)
}

func r10protected(c *core.Ctx, RD, RI, RC, key string, pos token.Pos, path []string, desc string, feas []int64, dlGet, dlSQN, dlOvf string) {
	// ---- counter estimate
	var errs []string
	wantReset, wantNoReset := true, true
	wantCipher, wantClear := true, true
	for _, v := range feas {
		if v == 3 || v == 4 {
			wantNoReset = false
		} else {
			wantReset = false
		}
		if v == 2 || v == 4 {
			wantClear = false
		} else {
			wantCipher = false
		}
	}
	set0, _ := indexOf(path, func(e string) bool { return e == "dl.Set0" })
	firstRead, _ := indexOf(path, func(e string) bool { return strings.HasPrefix(e, "dl.read:") })
	switch {
	case set0 >= 0 && !wantReset:
		errs = append(errs, fmt.Sprintf("DL COUNT reset on a path taken for header types %v (only 3 and 4 take a new context into use)", feas))
	case set0 < 0 && !wantNoReset:
		errs = append(errs, fmt.Sprintf("DL COUNT not reset on a path taken for header types %v (3 and 4 must reset it)", feas))
	}
	if set0 >= 0 && firstRead >= 0 && set0 > firstRead {
		errs = append(errs, "DL COUNT reset after it was already read")
	}
	if hasPrefix(path, "ul.") {
		errs = append(errs, "uplink COUNT touched while unprotecting a downlink message")
	}
	if has(path, "dl.AddOne") {
		errs = append(errs, "DL COUNT incremented blindly (the estimate must follow the received SQN)")
	}
	// overflow logic
	wrapT, wrapF, wrapOther := false, false, ""
	for _, e := range path {
		if strings.HasPrefix(e, "sqncmp{") {
			body := strings.TrimSuffix(strings.TrimSuffix(e, "=T"), "=F")
			taken := strings.HasSuffix(e, "=T")
			switch body {
			case "sqncmp{" + dlSQN + ">p2[6]}", "sqncmp{p2[6]<" + dlSQN + "}":
				if taken {
					wrapT = true
				} else {
					wrapF = true
				}
			case "sqncmp{" + dlSQN + "<=p2[6]}", "sqncmp{p2[6]>=" + dlSQN + "}":
				if taken {
					wrapF = true
				} else {
					wrapT = true
				}
			default:
				wrapOther = body
			}
		}
	}
	ovfEv, _ := indexOf(path, func(e string) bool { return strings.HasPrefix(e, "dl.mut:SetOverflow(") })
	sqnEv, sqnEvLast := indexOf(path, func(e string) bool { return strings.HasPrefix(e, "dl.mut:SetSQN(") })
	macIdx, _ := indexOf(path, func(e string) bool { return strings.HasPrefix(e, "mac(") })
	if wrapOther != "" {
		errs = append(errs, "SQN wrap test is "+wrapOther+", want stored SQN > received SQN (payload[6])")
	} else if !wrapT && !wrapF {
		errs = append(errs, "no comparison of the stored SQN with the received SQN on this path")
	}
	if wrapT {
		if ovfEv < 0 {
			errs = append(errs, "stored SQN > received SQN but the overflow counter is not incremented")
		} else if path[ovfEv] != "dl.mut:SetOverflow(("+dlOvf+"+1))" {
			errs = append(errs, "overflow update is "+path[ovfEv]+", want SetOverflow(Overflow()+1)")
		}
	}
	if wrapF && ovfEv >= 0 {
		errs = append(errs, "overflow counter changed although the sequence number did not wrap")
	}
	if sqnEv < 0 {
		errs = append(errs, "DL SQN not set from the received sequence number")
	} else {
		if sqnEv != sqnEvLast {
			errs = append(errs, "DL SQN set more than once")
		}
		if path[sqnEv] != "dl.mut:SetSQN(p2[6])" {
			errs = append(errs, "SQN update is "+path[sqnEv]+", want SetSQN(payload[6])")
		}
		if ovfEv > sqnEv {
			errs = append(errs, "overflow updated after the SQN (the comparison must use the previous SQN)")
		}
		if macIdx >= 0 && sqnEv > macIdx {
			errs = append(errs, "COUNT estimate updated after the MAC was computed")
		}
	}
	for _, e := range path {
		if strings.HasPrefix(e, "dl.mut:") && !strings.HasPrefix(e, "dl.mut:SetOverflow(") && !strings.HasPrefix(e, "dl.mut:SetSQN(") {
			errs = append(errs, "unexpected DL COUNT mutation "+e)
		}
	}
	if len(errs) > 0 {
		c.Fail(RC, key, pos, "%s (%s)", strings.Join(errs, "; "), desc)
	} else {
		c.Ok(RC, key, pos, fmt.Sprintf("header types %v: %s", feas, desc))
	}
	// ---- crypto arguments
	var derr []string
	nMac, nEnc := 0, 0
	encArg := ""
	for _, e := range path {
		if strings.HasPrefix(e, "mac(") {
			nMac++
			want := "mac(p0.IntegrityAlg;p0.KnasInt;" + dlGet + ";1;1;p2[6:])"
			if e != want {
				derr = append(derr, "MAC call is "+e+", want "+want)
			}
		}
		if strings.HasPrefix(e, "encrypt(") {
			nEnc++
			want := "encrypt(p0.CipheringAlg;p0.KnasEnc;" + dlGet + ";1;1;p2[7:])"
			if e != want {
				derr = append(derr, "decipher call is "+e+", want "+want)
			}
			encArg = "p2[7:]"
		}
	}
	if nMac != 1 {
		derr = append(derr, fmt.Sprintf("%d MAC computations on a protected path (want 1)", nMac))
	}
	// the message decoded is the payload after the 7-octet security header
	pd, _ := indexOf(path, func(e string) bool { return strings.HasPrefix(e, "plaindec(") })
	if pd < 0 {
		derr = append(derr, "protected path never plain-decodes the message")
	}
	_ = encArg
	if len(derr) > 0 {
		c.Fail(RD, key, pos, "%s", strings.Join(derr, "; "))
	} else {
		c.Ok(RD, key, pos, "alg/key/DLCount.Get()/bearer 1/direction 1; MAC over payload[6:], cipher over payload[7:]")
	}
	// ---- cipher iff 2/4
	switch {
	case nEnc > 0 && !wantCipher:
		c.Fail(RI, key, pos, "message deciphered on a path taken for header types %v (types 1 and 3 are sent in clear)", feas)
	case nEnc == 0 && !wantClear:
		c.Fail(RI, key, pos, "message NOT deciphered on a path taken for header types %v (types 2 and 4 are ciphered)", feas)
	case nEnc > 1:
		c.Fail(RI, key, pos, "message deciphered %d times", nEnc)
	default:
		c.Ok(RI, key, pos, fmt.Sprintf("header types %v deciphered=%v", feas, nEnc == 1))
	}
}

// ---------------------------------------------------------------- R10.ie
func r10ie(c *core.Ctx) {
	const R = "R10.ie"
	c.Rule(R, "GetNasPdu: NAS-PDU IE chosen by Id == ProtocolIEIDNASPDU; header type taken from the same buffer that is decoded")
	fn := mustFunc(c, pTglib, "GetNasPdu")
	p := core.NewPather(fn)
	idNAS := mustConst(c, pNgapT, "ProtocolIEIDNASPDU")
	c.Check(idNAS == 38, R, "ngapType.ProtocolIEIDNASPDU", token.NoPos, "=38", "id-NAS-PDU must be 38 (TS 38.413 9.4.7), is %d", idNAS)
	calls := core.CallsTo(fn, pTglib+".NASDecode")
	if len(calls) != 1 {
		c.Fail(R, "tglib.GetNasPdu:NASDecode", fn.Pos(), "expected one NASDecode call, found %d", len(calls))
		return
	}
	call := calls[0].(*ssa.Call)
	c.Sites(1)
	a := call.Call.Args
	ue, sht, buf := p.Path(a[0]), p.Path(a[1]), p.Path(a[2])
	c.Check(ue == "p0", R, "tglib.GetNasPdu:NASDecode:arg:ue", call.Pos(), ue, "NASDecode is given %s, want the caller's UE", ue)
	wantSht := "call:" + pNas + ".GetSecurityHeaderType(" + buf + ")"
	c.Check(sht == wantSht, R, "tglib.GetNasPdu:NASDecode:arg:securityHeaderType", call.Pos(), sht, "header type is %s, want GetSecurityHeaderType of the decoded buffer %s", sht, buf)
	c.Check(strings.Contains(buf, ".Value.NASPDU.Value"), R, "tglib.GetNasPdu:NASDecode:arg:payload", call.Pos(), buf, "payload is %s, want the NAS-PDU value of the selected IE", buf)
	// control dependence: the call's block is guarded by Id.Value == ProtocolIEIDNASPDU
	guarded := false
	for _, b := range fn.Blocks {
		iff, ok := b.Instrs[len(b.Instrs)-1].(*ssa.If)
		if !ok {
			continue
		}
		bo, ok := iff.Cond.(*ssa.BinOp)
		if !ok || (bo.Op != token.EQL && bo.Op != token.NEQ) {
			continue
		}
		// id == NAS-PDU guards the true side, id != NAS-PDU (continue / skip) the false side
		side := b.Succs[0]
		if bo.Op == token.NEQ {
			side = b.Succs[1]
		}
		idv := bo.X
		k, isK := core.ConstInt(bo.Y)
		if !isK {
			k, isK = core.ConstInt(bo.X)
			idv = bo.Y
		}
		if isK && k == idNAS && strings.HasSuffix(p.Path(idv), ".Id.Value") && side.Dominates(call.Block()) && len(side.Preds) == 1 {
			// the IE whose id is tested is the IE whose value is decoded
			ie := strings.TrimSuffix(p.Path(idv), ".Id.Value")
			if strings.HasPrefix(buf, ie+".") {
				guarded = true
			}
		}
	}
	c.Check(guarded, R, "tglib.GetNasPdu:select-by-id", call.Pos(), "guarded by ie.Id.Value == ProtocolIEIDNASPDU on the same IE", "the NAS-PDU is not selected by comparing the IE id with ProtocolIEIDNASPDU (positional access breaks when the AMF adds optional IEs)")
	// GetSecurityHeaderType: octet 1 low nibble
	g := mustFunc(c, pNas, "GetSecurityHeaderType")
	ba := core.NewBitAnalyzer(g)
	if v := singleReturnAny(g); v != nil {
		b := ba.Bits(v)
		c.Check(b != nil && len(b) == 8 && b.IsCopy(3, 0, "p0[1]", 0) && (b.IsConst(7, 4, 0) || b.IsCopy(7, 4, "p0[1]", 4)), R, "nas.GetSecurityHeaderType", g.Pos(), b.Describe(), "security header type must be (the low nibble of) octet 1, is %s", b.Describe())
	} else {
		c.Fail(R, "nas.GetSecurityHeaderType", g.Pos(), "expected a single return")
	}
}

func singleReturnAny(fn *ssa.Function) ssa.Value {
	var v ssa.Value
	n := 0
	for _, b := range fn.Blocks {
		for _, in := range b.Instrs {
			if r, ok := in.(*ssa.Return); ok && len(r.Results) >= 1 {
				v = r.Results[0]
				n++
			}
		}
	}
	if n != 1 {
		return nil
	}
	return v
}
