package rules

import (
	"fmt"
	"go/token"
	"strings"

	"golang.org/x/tools/go/ssa"

	"stgverif/internal/core"
)

// nasEncodeEval interprets NASEncode abstractly (DESIGN §11.1). Summaries: PlainNasEncode
// returns the slice "plain"; NASEncrypt rewrites the slice it is handed in place (a new
// version of the same object); NASMacCalculate returns the 4-octet slice "mac" (its length
// is what C07 decides). The COUNT methods are entered. What is decided here is independent
// of how the octets are assembled (append chains, make+copy, helpers).
type nasEncOutcome struct {
	o        core.AOutcome
	enc, mac *core.AEvent
}

func nasEncodeEval(c *core.Ctx) ([]nasEncOutcome, bool) {
	fn := mustFunc(c, pTglib, "NASEncode")
	ex := core.NewExec()
	ex.OnCall = func(ev *core.AEvent, m *core.AMem) (core.AVal, bool) {
		switch ev.Callee {
		case fnPlainEnc:
			return core.AVal{K: core.ATuple, Elems: []core.AVal{{K: core.ASlice, Path: "plain", Lo: 0, Len: -1, NonNil: true}, {K: core.AUnknown, Path: "plainerr"}}}, true
		case fnEncrypt:
			if len(ev.Args) == 6 && ev.Args[5].K == core.ASlice {
				m.HavocFrom(ev.Args[5].Path, 0)
			}
			return core.AVal{K: core.AUnknown, Path: "encerr"}, true
		case fnMac:
			mac := core.AVal{K: core.ASlice, Path: "mac", Lo: 0, Len: 4, NonNil: true}
			for i := 0; i < 4; i++ {
				m.Store(fmt.Sprintf("mac[%d]", i), core.ArgBits(fmt.Sprintf("MAC[%d]", i), 8, 8), nil)
			}
			return core.AVal{K: core.ATuple, Elems: []core.AVal{mac, {K: core.AUnknown, Path: "macerr"}}}, true
		}
		return core.AVal{}, false
	}
	args := core.DefaultArgs(fn)
	if len(args) != 4 {
		return nil, false
	}
	args[0], args[1] = core.NonNilArg(args[0]), core.NonNilArg(args[1])
	outs, err := ex.Run(fn, args, nil)
	if err != nil || len(ex.Unsound) > 0 {
		c.SoftUndecided("NASEncode could not be evaluated abstractly (%v %v)", err, ex.Unsound)
		return nil, false
	}
	var res []nasEncOutcome
	for _, o := range outs {
		r := nasEncOutcome{o: o}
		for i := range o.Trace {
			switch o.Trace[i].Callee {
			case fnEncrypt:
				r.enc = &o.Trace[i]
			case fnMac:
				r.mac = &o.Trace[i]
			}
		}
		res = append(res, r)
	}
	return res, true
}

func r6argsX(c *core.Ctx) {
	const R = "R6.args"
	c.Rule(R, "NASEncode: algorithm, key, COUNT, BEARER, DIRECTION and payload arguments of NASEncrypt/NASMacCalculate; MAC input and output layout")
	fn := mustFunc(c, pTglib, "NASEncode")
	outs, ok := nasEncodeEval(c)
	c.Check(mustConst(c, pSec, "Bearer3GPP") == 1, R, "security.Bearer3GPP", token.NoPos, "=1", "Bearer3GPP must be 1 (TS 33.501 6.4.3.1)")
	c.Check(mustConst(c, pSec, "DirectionUplink") == 0, R, "security.DirectionUplink", token.NoPos, "=0", "DirectionUplink must be 0")
	c.Check(mustConst(c, pSec, "DirectionDownlink") == 1, R, "security.DirectionDownlink", token.NoPos, "=1", "DirectionDownlink must be 1")
	if !ok {
		return
	}
	count := "p0.ULCount.count"
	isSrc := func(v core.AVal, name string, w int) bool {
		return v.K == core.AInt && len(v.Bits) == w && v.Bits.IsCopy(w-1, 0, name, 0)
	}
	isKey := func(v core.AVal, name string) bool {
		if v.K != core.AAgg || len(v.Elems) != 16 {
			return false
		}
		for i, e := range v.Elems {
			if !isSrc(e, fmt.Sprintf("%s[%d]", name, i), 8) {
				return false
			}
		}
		return true
	}
	// the COUNT in force on a path: the stored one, or 0 after the reset of a new context
	isCount := func(v core.AVal, reset bool) bool {
		if reset {
			k, ok := v.ConstVal()
			return ok && k == 0
		}
		// Count.Get() hands out the 24 significant bits of the stored field
		return v.K == core.AInt && len(v.Bits) == 32 && v.Bits.IsCopy(23, 0, count, 0) && (v.Bits.IsConst(31, 24, 0) || v.Bits.IsCopy(31, 24, count, 24))
	}
	isConst := func(v core.AVal, k uint64) bool { x, ok := v.ConstVal(); return ok && x == k }
	type verdict struct {
		ok   bool
		got  string
		seen bool
	}
	res := map[string]*verdict{}
	note := func(key string, ok bool, got string) {
		v := res[key]
		if v == nil {
			v = &verdict{ok: true}
			res[key] = v
		}
		v.seen = true
		if !ok {
			v.ok = false
			v.got = got
		}
	}
	nProt := 0
	for _, r := range outs {
		o := r.o
		success := len(o.Ret) == 2 && (o.Ret[1].K == core.ANil || (o.Ret[1].K == core.AUnknown && o.Nils[o.Ret[1].Path]))
		if !success || r.mac == nil || o.Panicked {
			continue
		}
		nProt++
		reset := false
		if k, isK := r.mac.Args[2].ConstVal(); isK && k == 0 {
			reset = true // decided below against the new-context flag by R6.once; here only consistency
		}
		sqnOK := func(b core.BitVec) bool {
			if reset {
				return b != nil && b.IsConst(7, 0, 0)
			}
			return b != nil && len(b) == 8 && b.IsCopy(7, 0, count, 0)
		}
		if r.enc != nil {
			a := r.enc.Args
			note("NASEncrypt:arg:AlgoID", isSrc(a[0], "p0.CipheringAlg", 8), core.ArgName(a[0]))
			note("NASEncrypt:arg:Key", isKey(a[1], "p0.KnasEnc"), core.ArgName(a[1]))
			note("NASEncrypt:arg:Count", isCount(a[2], reset), core.ArgName(a[2]))
			note("NASEncrypt:arg:Bearer", isConst(a[3], 1), core.ArgName(a[3]))
			note("NASEncrypt:arg:Direction", isConst(a[4], 0), core.ArgName(a[4]))
			note("NASEncrypt:arg:payload", a[5].K == core.ASlice && a[5].Path == "plain" && a[5].Lo == 0 && a[5].Len < 0, core.ArgName(a[5]))
		}
		a := r.mac.Args
		note("NASMacCalculate:arg:AlgoID", isSrc(a[0], "p0.IntegrityAlg", 8), core.ArgName(a[0]))
		note("NASMacCalculate:arg:Key", isKey(a[1], "p0.KnasInt"), core.ArgName(a[1]))
		note("NASMacCalculate:arg:Count", isCount(a[2], reset), core.ArgName(a[2]))
		note("NASMacCalculate:arg:Bearer", isConst(a[3], 1), core.ArgName(a[3]))
		note("NASMacCalculate:arg:Direction", isConst(a[4], 0), core.ArgName(a[4]))
		// MAC input = SQN || payload as it is after ciphering
		wantVer := 0
		if r.enc != nil {
			wantVer = 1
		}
		in := a[5]
		inOK := in.K == core.ASlice && in.Lo == 0
		desc := core.ArgName(in)
		if inOK {
			t, has := r.mac.Mem.Tail(in.Path)
			b0 := r.mac.Mem.Load(in.Path+"[0]", nil)
			inOK = has && t.From == 1 && t.Src == "plain" && t.SrcLo == 0 && t.Ver == wantVer && sqnOK(b0.Bits)
			desc = fmt.Sprintf("octet 0 = %s, rest = %+v (payload version wanted %d)", b0, t, wantVer)
		}
		note("NASMacCalculate:arg:payload", inOK, desc)
		// output = EPD || header type || MAC || SQN || payload
		out := o.Ret[0]
		outOK := out.K == core.ASlice && out.Lo == 0
		odesc := core.ArgName(out)
		if outOK {
			cell := func(i int) core.BitVec { return o.Mem.Load(fmt.Sprintf("%s[%d]", out.Path, i), nil).Bits }
			t, has := o.Mem.Tail(out.Path)
			outOK = has && t.From == 7 && t.Src == "plain" && t.SrcLo == 0 && t.Ver == wantVer &&
				cell(0) != nil && cell(0).IsCopy(7, 0, "p1.SecurityHeader.ProtocolDiscriminator", 0) &&
				cell(1) != nil && cell(1).IsCopy(7, 0, "p1.SecurityHeader.SecurityHeaderType", 0) && sqnOK(cell(6))
			for i := 0; i < 4 && outOK; i++ {
				if b := cell(2 + i); b == nil || !b.IsCopy(7, 0, fmt.Sprintf("MAC[%d]", i), 0) {
					outOK = false
				}
			}
			var cs []string
			for i := 0; i < 7; i++ {
				cs = append(cs, cell(i).Describe())
			}
			odesc = fmt.Sprintf("octets 0..6 = %s; rest = %+v", strings.Join(cs, " | "), t)
		}
		note("output-layout", outOK, odesc)
	}
	if nProt == 0 {
		c.Fail(R, "tglib.NASEncode:NASMacCalculate:count", fn.Pos(), "no successful path computes a MAC")
		return
	}
	for _, k := range []string{"NASEncrypt:arg:AlgoID", "NASEncrypt:arg:Key", "NASEncrypt:arg:Count", "NASEncrypt:arg:Bearer", "NASEncrypt:arg:Direction", "NASEncrypt:arg:payload",
		"NASMacCalculate:arg:AlgoID", "NASMacCalculate:arg:Key", "NASMacCalculate:arg:Count", "NASMacCalculate:arg:Bearer", "NASMacCalculate:arg:Direction", "NASMacCalculate:arg:payload", "output-layout"} {
		v := res[k]
		key := "tglib.NASEncode:" + k
		if strings.Contains(k, ":arg:") {
			key = "tglib.NASEncode:security." + k
		}
		if v == nil || !v.seen {
			if strings.HasPrefix(k, "NASEncrypt") {
				c.Fail(R, "tglib.NASEncode:security.NASEncrypt:count", fn.Pos(), "expected exactly one call of security.NASEncrypt, found 0")
				break
			}
			continue
		}
		want := map[string]string{"AlgoID": "the UE's algorithm id", "Key": "the UE's NAS key", "Count": "the uplink COUNT in force", "Bearer": "1", "Direction": "0 (uplink)", "payload": "the encoded message (SQN first for the MAC)"}[k[strings.LastIndexByte(k, ':')+1:]]
		if k == "output-layout" {
			c.Check(v.ok, R, key, fn.Pos(), "EPD || header type || MAC || SQN || payload", "protected output is %s, want EPD || header type || MAC || SQN || payload", v.got)
			continue
		}
		c.Check(v.ok, R, key, fn.Pos(), want, "%s is %s, want %s", k, v.got, want)
	}
}

// countEffectX: the value of receiver.count after a call of a Count method, read off the
// abstract final memory (helpers entered, conditional updates if-converted). The incremented
// counter — a carry chain, not a bit placement — appears as the source "count+1".
func countEffectX(c *core.Ctx, fn *ssa.Function) (core.BitVec, bool) {
	ex := core.NewExec()
	ex.Merge = true
	outs, err := ex.Run(fn, core.DefaultArgs(fn), nil)
	if err != nil || len(outs) != 1 || len(ex.Unsound) > 0 || outs[0].Panicked {
		return countEffect(c, fn, 0)
	}
	v := outs[0].Mem.Load("p0.count", nil)
	if v.K != core.AInt {
		return core.SourceVec("p0.count", 32), true
	}
	out := make(core.BitVec, len(v.Bits))
	for i, b := range v.Bits {
		if b.Kind == core.BSrc && b.More == "" && (b.Src == "(1+p0.count)" || b.Src == "(1+p0.count<23:0>)") {
			b.Src = "count+1"
		}
		if b.Kind == core.BMix {
			return countEffect(c, fn, 0)
		}
		out[i] = b
	}
	return out, true
}

// isNewCountMethod: a method of security.Count that is not one of the accessors the rules
// know by name (a helper added to the type).
func isNewCountMethod(f *ssa.Function) bool {
	n := core.FuncName(f)
	if !strings.HasPrefix(n, pSec+".Count.") || len(f.Blocks) == 0 {
		return false
	}
	switch n {
	case fnCountGet, fnCountSQN, fnCountOvf, fnCountAddOne, fnCountSet, fnCountSetSQN, fnCountSetOvf:
		return false
	}
	return true
}
