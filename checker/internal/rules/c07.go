package rules

import (
	"fmt"
	"go/ast"
	"go/constant"
	"go/token"
	"go/types"
	"strings"

	"golang.org/x/tools/go/ssa"

	"stgverif/internal/core"
)

func init() { Registry["C07"] = c07 }

func c07(c *core.Ctx) map[string]interface{} {
	c.Explanation = "Static table/layout/coverage check of the NAS algorithms (C07). Decided: (R7.sbox) the 2x256 SNOW 3G S-box literals equal the tables the checker generates from their algebraic definitions (Rijndael S-box; Dickson polynomial box of TS 35.216 3.3.2); (R7.const) MULalpha/DIValpha exponents 23,245,48,239 / 16,39,6,64 over 0xA9 in byte positions 3..0, MULx semantics, S1/S2 byte recombination with 0x1B/0x69 as GF(2)-linear forms of the S-box outputs, LFSR feedback taps (s0<<8, MULa(s0>>24), s2, s11>>8, DIVa(s11&0xff) [,F]), FSM update, key/IV loading table of InitSnow3g (TS 35.216 3.4.1), 32 initialisation clocks and one discarded keystream clock; (R7.iv) IV/counter-block bit layouts of NEA1, NIA1, NEA2, NIA2 (TS 35.215, TS 33.401 B.1/B.2) under the BEARER<32/DIRECTION<2 guards, which are checked; dispatch of algorithm ids 0/1/2; NEA0 leaves the payload untouched; ciphertext copied back over the whole payload; CMAC truncated to 4 octets; (R7.shift) no shift in security/snow3g whose count can reach the operand width (keystream truncation covers every octet); (R7.fresh) every call starts from a fully re-initialised generator: InitSnow3g writes all 16 LFSR cells and all 3 FSM registers before anything reads them, and NEA1/NIA1 call it before GenerateKeystream. (R7.gf64) the GF(2^64) helpers of EIA1: MULx tests bit 63, MULxPOW is its i-fold application, MUL xors MULxPOW(V,i,c) for exactly the set bits i = 0..63 of P (indexed or iterative spelling); (R7.nia1-blocks / R7.nia1-horner) for every LENGTH mod 64 the block loop folds the right number of 64-bit blocks at the right offsets and never skips the Horner step Eval := (Eval xor M) * P. NOT decided: bit-exact equality of the complete algorithms with the 3GPP specifications (GF(2^64) evaluation and message-block arithmetic of NIA1, keystream application loops are only checked for the listed structural facts); AES, CTR and CMAC come from crypto/aes, crypto/cipher and github.com/aead/cmac (trusted)."
	c.Assumptions = []string{"crypto/aes, crypto/cipher.NewCTR and github.com/aead/cmac implement AES-128, CTR mode and CMAC",
		"S-box definitions: SR = Rijndael S-box (inverse in GF(2^8) mod 0x11B + affine map); SQ(x) = x + x^9 + x^13 + x^15 + x^33 + x^41 + x^45 + x^47 + x^49 + 0x25 in GF(2^8) mod 0x169 (TS 35.216 3.3.2)"}
	r7sbox(c)
	r7const(c)
	r7lfsrfsm(c)
	r7init(c)
	r7iv(c)
	r7dispatch(c)
	r7gf64(c)
	r7nia1blocks(c)
	r7shift(c, []string{pSec, pSnow})
	return nil
}

// ---------------------------------------------------------------- S-boxes
func gfMul(a, b byte, poly uint16) byte {
	var r uint16
	aa := uint16(a)
	for i := 0; i < 8; i++ {
		if b>>uint(i)&1 == 1 {
			r ^= aa << uint(i)
		}
	}
	for i := 15; i >= 8; i-- {
		if r>>uint(i)&1 == 1 {
			r ^= poly << uint(i-8)
		}
	}
	return byte(r)
}

func gfPow(a byte, e int, poly uint16) byte {
	r := byte(1)
	for i := 0; i < e; i++ {
		r = gfMul(r, a, poly)
	}
	return r
}

func genSR() [256]byte {
	var t [256]byte
	for x := 0; x < 256; x++ {
		inv := byte(0)
		if x != 0 {
			inv = gfPow(byte(x), 254, 0x11b)
		}
		s := inv
		for i := 1; i <= 4; i++ {
			s ^= inv<<uint(i) | inv>>uint(8-i)
		}
		t[x] = s ^ 0x63
	}
	return t
}

func genSQ() [256]byte {
	var t [256]byte
	for x := 0; x < 256; x++ {
		v := byte(0x25)
		for _, e := range []int{1, 9, 13, 15, 33, 41, 45, 47, 49} {
			v ^= gfPow(byte(x), e, 0x169)
		}
		t[x] = v
	}
	return t
}

// arrayLiteralBytes reads the elements of a package-level byte-array literal.
func arrayLiteralBytes(c *core.Ctx, pkg, name string) ([]int64, token.Pos) {
	pk := c.P.Pkg(pkg)
	for _, f := range pk.Syntax {
		for _, d := range f.Decls {
			gd, ok := d.(*ast.GenDecl)
			if !ok || gd.Tok != token.VAR {
				continue
			}
			for _, sp := range gd.Specs {
				vs := sp.(*ast.ValueSpec)
				for i, n := range vs.Names {
					if n.Name != name || i >= len(vs.Values) {
						continue
					}
					cl, ok := vs.Values[i].(*ast.CompositeLit)
					if !ok {
						return nil, n.Pos()
					}
					var out []int64
					for _, e := range cl.Elts {
						if _, isKV := e.(*ast.KeyValueExpr); isKV {
							return nil, n.Pos()
						}
						tv := pk.TypesInfo.Types[e]
						if tv.Value == nil {
							return nil, n.Pos()
						}
						v, ok := constant.Int64Val(constant.ToInt(tv.Value))
						if !ok {
							return nil, n.Pos()
						}
						out = append(out, v)
					}
					return out, n.Pos()
				}
			}
		}
	}
	return nil, token.NoPos
}

func r7sbox(c *core.Ctx) {
	const R = "R7.sbox"
	c.Rule(R, "snow3g S-boxes SR/SQ: all 512 literal entries equal the algebraically generated tables; never written after initialisation")
	for _, tb := range []struct {
		name string
		gen  [256]byte
	}{{"sr", genSR()}, {"sq", genSQ()}} {
		vals, pos := arrayLiteralBytes(c, pSnow, tb.name)
		if vals == nil {
			c.Undecided("snow3g.%s is not a plain array literal of constants (S-box table not found in the recognised form)", tb.name)
		}
		bad := -1
		if len(vals) != 256 {
			c.Fail(R, "snow3g."+tb.name+":length", pos, "S-box has %d entries, want 256", len(vals))
			continue
		}
		nbad := 0
		for i, v := range vals {
			if byte(v) != tb.gen[i] || v > 255 {
				if bad < 0 {
					bad = i
				}
				nbad++
			}
		}
		if bad >= 0 {
			c.Fail(R, "snow3g."+tb.name+":entries", pos, "%d entries differ from the algebraic definition; first: [%#02x] = %#02x, want %#02x", nbad, bad, vals[bad], tb.gen[bad])
		} else {
			c.Ok(R, "snow3g."+tb.name+":entries", pos, "256/256 entries equal the generated table")
		}
		// no stores to the table anywhere
		g, _ := c.P.SSAPkg(pSnow).Members[tb.name].(*ssa.Global)
		if g == nil {
			c.Undecided("snow3g.%s is not a package-level variable", tb.name)
		}
		written := false
		for _, f := range allFuncsOf(c.P.SSAPkg(pSnow)) {
			if strings.HasPrefix(f.Synthetic, "package init") || f.Name() == "init" {
				continue
			}
			for _, b := range f.Blocks {
				for _, in := range b.Instrs {
					if st, ok := in.(*ssa.Store); ok && rootGlobal(st.Addr) == g {
						written = true
						c.Fail(R, "snow3g."+tb.name+":written:"+f.Name(), st.Pos(), "S-box table is written at run time")
					}
				}
			}
		}
		if !written {
			c.Ok(R, "snow3g."+tb.name+":read-only", pos, "no store outside initialisation")
		}
	}
}

func rootGlobal(v ssa.Value) *ssa.Global {
	for i := 0; i < 8; i++ {
		switch x := v.(type) {
		case *ssa.Global:
			return x
		case *ssa.FieldAddr:
			v = x.X
		case *ssa.IndexAddr:
			v = x.X
		case *ssa.Slice:
			v = x.X
		default:
			return nil
		}
	}
	return nil
}

// ---------------------------------------------------------------- constants
func r7const(c *core.Ctx) {
	const R = "R7.const"
	c.Rule(R, "snow3g: MULx, MULxPOW, MULalpha/DIValpha exponents and byte positions, S1/S2 recombination (TS 35.216 3.1-3.3)")
	// mulx(V,c): if V&0x80 != 0 -> (V<<1)^c else V<<1
	{
		fn := mustFunc(c, pSnow, "mulx")
		p := core.NewPather(fn)
		ok := false
		if len(fn.Blocks) >= 3 {
			if iff, isIf := fn.Blocks[0].Instrs[len(fn.Blocks[0].Instrs)-1].(*ssa.If); isIf {
				cond := p.Path(iff.Cond)
				t, e := retPath(p, fn.Blocks[0].Succs[0]), retPath(p, fn.Blocks[0].Succs[1])
				if cond == "((p0&128)!=0)" && (t == "((p0<<1)^p1)" || t == "(p1^(p0<<1))") && e == "(p0<<1)" {
					ok = true
				}
				if cond == "((p0&128)==0)" && (e == "((p0<<1)^p1)" || e == "(p1^(p0<<1))") && t == "(p0<<1)" {
					ok = true
				}
			}
		}
		c.Check(ok, R, "snow3g.mulx", fn.Pos(), "V&0x80 ? (V<<1)^c : V<<1", "MULx must be (V<<1)^c when the top bit of V is set and V<<1 otherwise")
	}
	{
		fn := mustFunc(c, pSnow, "mulxPow")
		p := core.NewPather(fn)
		ok := false
		if len(fn.Blocks) >= 3 {
			if iff, isIf := fn.Blocks[0].Instrs[len(fn.Blocks[0].Instrs)-1].(*ssa.If); isIf {
				cond := p.Path(iff.Cond)
				t, e := retPath(p, fn.Blocks[0].Succs[0]), retPath(p, fn.Blocks[0].Succs[1])
				rec := "call:" + pSnow + ".mulx(call:" + pSnow + ".mulxPow(p0,(p1-1),p2),p2)"
				if cond == "(p1==0)" && t == "p0" && e == rec {
					ok = true
				}
				if cond == "(p1!=0)" && e == "p0" && t == rec {
					ok = true
				}
			}
		}
		c.Check(ok, R, "snow3g.mulxPow", fn.Pos(), "i==0 ? V : MULx(MULxPOW(V,i-1,c),c)", "MULxPOW must be the i-fold application of MULx")
	}
	for _, t := range []struct {
		name string
		exps [4]int64
	}{{"mulAlpha", [4]int64{23, 245, 48, 239}}, {"divAlpha", [4]int64{16, 39, 6, 64}}} {
		fn := mustFunc(c, pSnow, t.name)
		ba := core.NewBitAnalyzer(fn)
		v := singleReturnAny(fn)
		if v == nil {
			c.Fail(R, "snow3g."+t.name, fn.Pos(), "expected a single return")
			continue
		}
		b := ba.Bits(v)
		ok := b != nil && len(b) == 32
		var want []string
		for k := 0; k < 4 && ok; k++ {
			src := fmt.Sprintf("call:%s.mulxPow(p0,%d,169)", pSnow, t.exps[k])
			hi := 31 - 8*k
			want = append(want, fmt.Sprintf("[%d:%d]=MULxPOW(c,%d,0xA9)", hi, hi-7, t.exps[k]))
			if !b.IsCopy(hi, hi-7, src, 0) {
				ok = false
			}
		}
		c.Check(ok, R, "snow3g."+t.name, fn.Pos(), strings.Join(want, " "), "%s must be MULxPOW(c,%v,0xA9) in bytes 3..0, is %s", t.name, t.exps, b.Describe())
	}
	// S1 / S2
	for _, t := range []struct {
		name, box string
		poly      int64
	}{{"s1", "sr", 0x1b}, {"s2", "sq", 0x69}} {
		fn := mustFunc(c, pSnow, t.name)
		ba := core.NewBitAnalyzer(fn)
		v := singleReturnAny(fn)
		if v == nil {
			c.Fail(R, "snow3g."+t.name, fn.Pos(), "expected a single return")
			continue
		}
		b := ba.Bits(v)
		// rename sources: S-box lookups by the byte of w they index
		names := map[string]string{}
		for k, idx := range []string{"((p0>>24)&255)", "((p0>>16)&255)", "((p0>>8)&255)", "(p0&255)"} {
			s := "global:" + pSnow + "." + t.box + "[" + idx + "]"
			names[s] = fmt.Sprintf("S%d", k)
			names[fmt.Sprintf("call:%s.mulx(%s,%d)", pSnow, s, t.poly)] = fmt.Sprintf("M%d", k)
		}
		// alternative index spellings
		for k, idx := range []string{"(p0>>24)", "", "", ""} {
			if idx != "" {
				s := "global:" + pSnow + "." + t.box + "[" + idx + "]"
				names[s] = fmt.Sprintf("S%d", k)
				names[fmt.Sprintf("call:%s.mulx(%s,%d)", pSnow, s, t.poly)] = fmt.Sprintf("M%d", k)
			}
		}
		want := [4][]string{
			{"M0", "S1", "S2", "M3", "S3"},
			{"M0", "S0", "M1", "S2", "S3"},
			{"S0", "M1", "S1", "M2", "S3"},
			{"S0", "S1", "M2", "S2", "M3"},
		}
		ok := b != nil && len(b) == 32
		detail := ""
		for k := 0; k < 4 && ok; k++ {
			hi := 31 - 8*k
			for i := 0; i < 8; i++ {
				got := bitTermsRenamed(b[hi-7+i], names)
				w := map[string]bool{}
				for _, n := range want[k] {
					w[fmt.Sprintf("%s.%d", n, i)] = true
				}
				if len(got) != len(w) {
					ok = false
				}
				for _, g := range got {
					if !w[g] {
						ok = false
					}
				}
				if !ok {
					detail = fmt.Sprintf("byte r%d bit %d is %v, want XOR of %v", k, i, got, want[k])
					break
				}
			}
		}
		c.Check(ok, R, "snow3g."+t.name, fn.Pos(), "r0..r3 = TS 35.216 3.3 combination of "+strings.ToUpper(t.box)+"(w0..w3) and MULx(.,"+fmt.Sprintf("%#x", t.poly)+")", "%s: %s", t.name, detail)
	}
}

func bitTermsRenamed(b core.Bit, names map[string]string) []string {
	if b.Kind != core.BSrc || b.Neg {
		return []string{b.String()}
	}
	var out []string
	ts := []string{fmt.Sprintf("%s.%d", b.Src, b.Idx)}
	if b.More != "" {
		ts = append(ts, strings.Split(b.More, "^")...)
	}
	for _, t := range ts {
		i := strings.LastIndexByte(t, '.')
		src, idx := t[:i], t[i+1:]
		if n, ok := names[src]; ok {
			out = append(out, n+"."+idx)
		} else {
			out = append(out, t)
		}
	}
	return out
}

func retPath(p *core.Pather, b *ssa.BasicBlock) string {
	for _, in := range b.Instrs {
		if r, ok := in.(*ssa.Return); ok && len(r.Results) == 1 {
			return p.Path(r.Results[0])
		}
	}
	return ""
}

// ---------------------------------------------------------------- LFSR / FSM
func r7lfsrfsm(c *core.Ctx) {
	const R = "R7.lfsr"
	c.Rule(R, "snow3g: LFSR feedback taps and shift, FSM update (TS 35.216 3.4.2-3.4.5), keystream = F xor s0 after one discarded clock")
	S := func(i int) string { return fmt.Sprintf("global:%s.lfsr.s[%d]", pSnow, i) }
	for _, t := range []struct {
		name string
		withF bool
	}{{"lfsrInitialisationMode", true}, {"lfsrKeystreamMode", false}} {
		fn := mustFunc(c, pSnow, t.name)
		p := core.NewPather(fn)
		ba := core.NewBitAnalyzer(fn)
		// the value stored into s[15]
		var v ssa.Value
		shiftOK := false
		for _, b := range fn.Blocks {
			for _, in := range b.Instrs {
				if st, ok := in.(*ssa.Store); ok {
					ap := p.Path(st.Addr)
					if ap == S(15) {
						v = st.Val
					}
					if strings.HasPrefix(ap, "global:"+pSnow+".lfsr.s[iv") && p.Path(st.Val) == strings.Replace(ap, "]", "+1)]", 1)[:0]+fmt.Sprintf("global:%s.lfsr.s[(%s+1)]", pSnow, ap[strings.Index(ap, "[")+1:len(ap)-1]) {
						shiftOK = true
					}
				}
			}
		}
		key := "snow3g." + t.name
		if v == nil {
			c.Fail(R, key+":feedback", fn.Pos(), "no store to lfsr.s[15]")
			continue
		}
		b := ba.Bits(v)
		mulA := fmt.Sprintf("call:%s.mulAlpha(((%s>>24)&255))", pSnow, S(0))
		mulA2 := fmt.Sprintf("call:%s.mulAlpha((%s>>24))", pSnow, S(0))
		divA := fmt.Sprintf("call:%s.divAlpha((%s&255))", pSnow, S(11))
		divA2 := fmt.Sprintf("call:%s.divAlpha(%s)", pSnow, S(11))
		names := map[string]string{S(0): "s0", S(2): "s2", S(11): "s11", mulA: "MULa", mulA2: "MULa", divA: "DIVa", divA2: "DIVa", "p0": "F"}
		ok := b != nil && len(b) == 32
		detail := ""
		for i := 0; i < 32 && ok; i++ {
			w := map[string]bool{fmt.Sprintf("MULa.%d", i): true, fmt.Sprintf("s2.%d", i): true, fmt.Sprintf("DIVa.%d", i): true}
			if i >= 8 {
				w[fmt.Sprintf("s0.%d", i-8)] = true
			}
			if i+8 < 32 {
				w[fmt.Sprintf("s11.%d", i+8)] = true
			}
			if t.withF {
				w[fmt.Sprintf("F.%d", i)] = true
			}
			got := bitTermsRenamed(b[i], names)
			if len(got) != len(w) {
				ok = false
			}
			for _, g := range got {
				if !w[g] {
					ok = false
				}
			}
			if !ok {
				detail = fmt.Sprintf("bit %d of the new s15 is %v", i, got)
			}
		}
		want := "v = (s0<<8) ^ MULa(s0>>24) ^ s2 ^ (s11>>8) ^ DIVa(s11&0xff)"
		if t.withF {
			want += " ^ F"
		}
		c.Check(ok, R, key+":feedback", fn.Pos(), want, "LFSR feedback must be %s; %s", want, detail)
		// shift s[i] = s[i+1] for i in 0..14
		lb := loopBounds(fn)
		shift := false
		for _, l := range lb {
			if l.init == 0 && l.step == 1 && l.op == token.LSS && l.limit == 15 {
				shift = true
			}
		}
		_ = shiftOK
		okShift := shift && storeInLoopIs(fn, p, "global:"+pSnow+".lfsr.s[iv1]", "global:"+pSnow+".lfsr.s[(iv1+1)]")
		c.Check(okShift, R, key+":shift", fn.Pos(), "s[i] = s[i+1] for i = 0..14", "LFSR shift must move s[i+1] into s[i] for i = 0..14")
	}
	// clockFsm
	{
		fn := mustFunc(c, pSnow, "clockFsm")
		p := core.NewPather(fn)
		R0, R1, R2 := "global:"+pSnow+".fsm.r[0]", "global:"+pSnow+".fsm.r[1]", "global:"+pSnow+".fsm.r[2]"
		got := map[string]string{}
		var order []string
		for _, b := range fn.Blocks {
			for _, in := range b.Instrs {
				switch x := in.(type) {
				case *ssa.Store:
					got[p.Path(x.Addr)] = p.Path(x.Val)
					order = append(order, p.Path(x.Addr))
				case *ssa.Return:
					got["ret"] = p.Path(x.Results[0])
				}
			}
		}
		okF := commEq(got["ret"], "(("+"p0+"+R0+")^"+R1+")")
		// because loads are rendered by address, the values below denote the registers
		// as they were when loaded; SSA loads precede the stores in this function.
		okR2 := got[R2] == "call:"+pSnow+".s2("+R1+")"
		okR1 := got[R1] == "call:"+pSnow+".s1("+R0+")"
		okR0 := commEq(got[R0], "("+R1+"+("+R2+"^p1))")
		// loads must all happen before the first store (otherwise a register is read after being overwritten)
		loadsBeforeStores := true
		seenStore := false
		for _, b := range fn.Blocks {
			for _, in := range b.Instrs {
				switch x := in.(type) {
				case *ssa.Store:
					if strings.HasPrefix(p.Path(x.Addr), "global:"+pSnow+".fsm.r[") {
						seenStore = true
					}
				case *ssa.UnOp:
					if x.Op == token.MUL && strings.HasPrefix(p.Path(x.X), "global:"+pSnow+".fsm.r[") && seenStore {
						// a load after a store: allowed only if it reads a register not yet overwritten
						for _, o := range order {
							if o == p.Path(x.X) {
								// was this register stored before this load? approximate by order of appearance
							}
						}
						loadsBeforeStores = loadOK(fn, p, x)
					}
				}
			}
		}
		ok := okF && okR0 && okR1 && okR2 && loadsBeforeStores && len(fn.Blocks) == 1
		c.Check(ok, R, "snow3g.clockFsm", fn.Pos(), "F=(s15+R1)^R2; r=R2+(R3^s5); R3=S2(R2); R2=S1(R1); R1=r",
			"FSM clock must be F=(s15+R1)^R2, R1'=R2+(R3^s5), R2'=S1(R1), R3'=S2(R2) with old register values; found F=%s r0'=%s r1'=%s r2'=%s", got["ret"], got[R0], got[R1], got[R2])
	}
	// GenerateKeystream
	{
		fn := mustFunc(c, pSnow, "GenerateKeystream")
		p := core.NewPather(fn)
		clk := "call:" + pSnow + ".clockFsm(" + S(15) + "," + S(5) + ")"
		var seq []string
		for _, b := range fn.Blocks {
			for _, in := range b.Instrs {
				switch x := in.(type) {
				case *ssa.Call:
					n := core.CalleeName(&x.Call)
					if n == pSnow+".clockFsm" {
						if p.Path(x) != clk {
							seq = append(seq, "clock?"+p.Path(x))
						} else {
							seq = append(seq, fmt.Sprintf("b%d:clock", b.Index))
						}
					}
					if n == pSnow+".lfsrKeystreamMode" {
						seq = append(seq, fmt.Sprintf("b%d:lfsr", b.Index))
					}
					if n == pSnow+".lfsrInitialisationMode" {
						seq = append(seq, fmt.Sprintf("b%d:lfsrinit", b.Index))
					}
				case *ssa.Store:
					if strings.HasPrefix(p.Path(x.Addr), "p1[") {
						val := p.Path(x.Val)
						if commEq(val, "("+clk+"^"+S(0)+")") && p.Path(x.Addr) == "p1[iv1]" {
							seq = append(seq, fmt.Sprintf("b%d:ks", b.Index))
						} else {
							seq = append(seq, "ks?"+p.Path(x.Addr)+"="+val)
						}
					}
				}
			}
		}
		got := strings.Join(seq, " ")
		// entry block: clock, lfsr (discarded); loop body: clock, ks, lfsr
		ok := false
		if len(seq) == 5 {
			e0 := strings.SplitN(seq[0], ":", 2)
			b0 := strings.SplitN(seq[2], ":", 2)
			ok = strings.HasSuffix(seq[0], ":clock") && strings.HasSuffix(seq[1], ":lfsr") && strings.HasSuffix(seq[2], ":clock") &&
				strings.HasSuffix(seq[3], ":ks") && strings.HasSuffix(seq[4], ":lfsr") && e0[0] == "b0" && b0[0] != "b0"
		}
		lb := loopBounds(fn)
		okLoop := len(lb) == 1 && lb[0].init == 0 && lb[0].step == 1 && lb[0].op == token.LSS && lb[0].limitPath == "p0"
		c.Check(ok && okLoop, R, "snow3g.GenerateKeystream", fn.Pos(), "one discarded clock, then n times z = F ^ s0 followed by an LFSR clock",
			"GenerateKeystream must discard one clock and then output F^s0 before each LFSR clock for i=0..n-1; found %s", got)
	}
}

func loadOK(fn *ssa.Function, p *core.Pather, ld *ssa.UnOp) bool {
	// a load of a register is fine as long as no earlier store in the block wrote that register
	addr := p.Path(ld.X)
	for _, in := range ld.Block().Instrs {
		if in == ssa.Instruction(ld) {
			return true
		}
		if st, ok := in.(*ssa.Store); ok && p.Path(st.Addr) == addr {
			return false
		}
	}
	return true
}

// commEq compares two rendered expressions modulo commutativity of + ^ | & at every level.
func commEq(a, b string) bool { return canonExpr(a) == canonExpr(b) }

func canonExpr(s string) string {
	s = strings.TrimSpace(s)
	if len(s) < 2 || s[0] != '(' || matchParen(s, 0) != len(s)-1 {
		return s
	}
	inner := s[1 : len(s)-1]
	// find top-level binary operator
	depth := 0
	for i := 0; i < len(inner); i++ {
		ch := inner[i]
		switch ch {
		case '(', '[':
			depth++
		case ')', ']':
			depth--
		}
		if depth == 0 && i > 0 {
			for _, op := range []string{"&^", "<<", ">>", "==", "!=", "<=", ">=", "+", "^", "|", "&", "-", "*", "/", "%", "<", ">"} {
				if strings.HasPrefix(inner[i:], op) {
					l, r := canonExpr(inner[:i]), canonExpr(inner[i+len(op):])
					if op == "+" || op == "^" || op == "|" || op == "&" || op == "*" || op == "==" || op == "!=" {
						if l > r {
							l, r = r, l
						}
					}
					return "(" + l + op + r + ")"
				}
			}
		}
	}
	return s
}

func matchParen(s string, i int) int {
	depth := 0
	for j := i; j < len(s); j++ {
		switch s[j] {
		case '(':
			depth++
		case ')':
			depth--
			if depth == 0 {
				return j
			}
		}
	}
	return -1
}

type loopInfo struct {
	phi       *ssa.Phi
	init      int64
	initOK    bool
	step      int64
	op        token.Token
	limit     int64
	limitOK   bool
	limitPath string
	header    *ssa.BasicBlock
}

// loopBounds recognises counted loops: phi(init const, phi+step const) tested
// against a limit in the header.
func loopBounds(fn *ssa.Function) []loopInfo {
	p := core.NewPather(fn)
	var out []loopInfo
	for _, b := range fn.Blocks {
		for _, in := range b.Instrs {
			ph, ok := in.(*ssa.Phi)
			if !ok {
				break
			}
			if len(ph.Edges) != 2 {
				continue
			}
			li := loopInfo{phi: ph, header: b}
			found := false
			for k := 0; k < 2; k++ {
				bo, isBo := ph.Edges[k].(*ssa.BinOp)
				if isBo && bo.Op == token.ADD && bo.X == ssa.Value(ph) {
					if st, okS := core.ConstInt(bo.Y); okS {
						li.step = st
						li.init, li.initOK = core.ConstInt(ph.Edges[1-k])
						found = true
					}
				}
			}
			if !found {
				continue
			}
			if iff, isIf := b.Instrs[len(b.Instrs)-1].(*ssa.If); isIf {
				if bo, isBo := iff.Cond.(*ssa.BinOp); isBo && bo.X == ssa.Value(ph) {
					li.op = bo.Op
					li.limit, li.limitOK = core.ConstInt(bo.Y)
					li.limitPath = p.Path(bo.Y)
				}
			}
			out = append(out, li)
		}
	}
	return out
}

func storeInLoopIs(fn *ssa.Function, p *core.Pather, addr, val string) bool {
	for _, b := range fn.Blocks {
		for _, in := range b.Instrs {
			if st, ok := in.(*ssa.Store); ok && p.Path(st.Addr) == addr && p.Path(st.Val) == val {
				return true
			}
		}
	}
	return false
}

// ---------------------------------------------------------------- InitSnow3g + freshness
func r7init(c *core.Ctx) {
	const R, RF = "R7.init", "R7.fresh"
	c.Rule(R, "snow3g.InitSnow3g: key/IV loading table of TS 35.216 3.4.1, FSM cleared, 32 initialisation clocks feeding F back")
	c.Rule(RF, "every NEA1/NIA1 call re-initialises all 16 LFSR cells and 3 FSM registers before any of them is read (result independent of earlier calls)")
	fn := mustFunc(c, pSnow, "InitSnow3g")
	p := core.NewPather(fn)
	ba := core.NewBitAnalyzer(fn)
	type load struct {
		k   int
		neg bool
		iv  int // -1 none
	}
	want := []load{{0, true, -1}, {1, true, -1}, {2, true, -1}, {3, true, -1}, {0, false, -1}, {1, false, -1}, {2, false, -1}, {3, false, -1},
		{0, true, -1}, {1, true, 3}, {2, true, 2}, {3, true, -1}, {0, false, 1}, {1, false, -1}, {2, false, -1}, {3, false, 0}}
	stored := map[int]ssa.Value{}
	var firstUse ssa.Instruction // first call that reads the state
	fsmCleared := map[int]bool{}
	entry := fn.Blocks[0]
	for _, b := range fn.Blocks {
		for _, in := range b.Instrs {
			switch x := in.(type) {
			case *ssa.Store:
				ap := p.Path(x.Addr)
				var idx int
				if n, _ := fmt.Sscanf(ap, "global:"+pSnow+".lfsr.s[%d]", &idx); n == 1 && b == entry && firstUse == nil {
					stored[idx] = x.Val
				}
				if strings.HasPrefix(ap, "global:"+pSnow+".fsm.r[") && firstUse == nil {
					if z, okZ := core.ConstInt(x.Val); okZ && z == 0 {
						if n, _ := fmt.Sscanf(ap, "global:"+pSnow+".fsm.r[%d]", &idx); n == 1 {
							fsmCleared[idx] = true
						} else if strings.Contains(ap, "fsm.r[iv") {
							for _, l := range loopBounds(fn) {
								if l.initOK && l.init == 0 && l.step == 1 && l.op == token.LSS && l.limitOK && p.Path(l.phi) == ap[strings.Index(ap, "[iv")+1:len(ap)-1] {
									for k := 0; k < int(l.limit) && k < 3; k++ {
										fsmCleared[k] = true
									}
								}
							}
						}
					}
				}
			case *ssa.Call:
				n := core.CalleeName(&x.Call)
				if firstUse == nil && (n == pSnow+".clockFsm" || strings.HasPrefix(n, pSnow+".lfsr")) {
					firstUse = x
				}
			}
		}
	}
	for i, w := range want {
		key := fmt.Sprintf("snow3g.InitSnow3g:s%d", i)
		v, ok := stored[i]
		if !ok {
			c.Fail(R, key, fn.Pos(), "lfsr.s[%d] is not assigned before the first clock", i)
			continue
		}
		b := ba.Bits(v)
		srcs := []core.SrcRef{{Path: fmt.Sprintf("p0[%d]", w.k)}}
		desc := fmt.Sprintf("k%d", w.k)
		if w.neg {
			desc += "^1s"
		}
		if w.iv >= 0 {
			srcs = append(srcs, core.SrcRef{Path: fmt.Sprintf("p1[%d]", w.iv)})
			desc += fmt.Sprintf("^IV%d", w.iv)
		}
		c.Check(b != nil && len(b) == 32 && b.IsXorOf(31, 0, w.neg, srcs...), R, key, v.Pos(), desc, "s%d must be %s (TS 35.216 3.4.1), is %s", i, desc, b.Describe())
	}
	c.Check(len(stored) == 16, RF, "snow3g.InitSnow3g:lfsr-all-cells", fn.Pos(), "16/16 cells written before the first clock", "only %d of 16 LFSR cells are written before the first clock", len(stored))
	c.Check(fsmCleared[0] && fsmCleared[1] && fsmCleared[2], RF, "snow3g.InitSnow3g:fsm-cleared", fn.Pos(), "R1,R2,R3 := 0 before the first clock", "the FSM registers are not all cleared before the first clock (cleared: %v)", fsmCleared)
	// 32 clocks: loop with bound 32 containing F := clockFsm(s15,s5); lfsrInitialisationMode(F)
	ok32 := false
	for _, l := range loopBounds(fn) {
		if l.initOK && l.init == 0 && l.step == 1 && l.op == token.LSS && l.limitOK && l.limit == 32 {
			ok32 = true
		}
	}
	fb := false
	for _, ci := range core.CallsTo(fn, pSnow+".lfsrInitialisationMode") {
		if p.Path(ci.Common().Args[0]) == fmt.Sprintf("call:%s.clockFsm(global:%s.lfsr.s[15],global:%s.lfsr.s[5])", pSnow, pSnow, pSnow) {
			fb = true
		}
	}
	c.Check(ok32 && fb, R, "snow3g.InitSnow3g:32-clocks", fn.Pos(), "32 x { F = clockFsm(s15,s5); lfsrInitialisationMode(F) }", "initialisation must clock the FSM 32 times feeding F into the LFSR")
	// NEA1 / NIA1: InitSnow3g dominates GenerateKeystream
	for _, name := range []string{"NEA1", "NIA1"} {
		f := mustFunc(c, pSec, name)
		inits := core.CallsTo(f, pSnow+".InitSnow3g")
		gens := core.CallsTo(f, pSnow+".GenerateKeystream")
		ok := len(inits) == 1 && len(gens) >= 1
		for _, g := range gens {
			if len(inits) != 1 || !core.Dominates(inits[0], g) {
				ok = false
			}
		}
		c.Check(ok, RF, "security."+name+":init-before-keystream", f.Pos(), "InitSnow3g dominates GenerateKeystream", "%s must call InitSnow3g before every GenerateKeystream", name)
	}
	// nothing else in the repository writes the generator state between the two calls: writers of lfsr/fsm
	writers := map[string]bool{}
	for _, f := range allFuncsOf(c.P.SSAPkg(pSnow)) {
		for _, b := range f.Blocks {
			for _, in := range b.Instrs {
				if st, ok := in.(*ssa.Store); ok {
					if g := rootGlobal(st.Addr); g != nil && (g.Name() == "lfsr" || g.Name() == "fsm") {
						writers[f.Name()] = true
					}
				}
			}
		}
	}
	allowed := map[string]bool{"InitSnow3g": true, "clockFsm": true, "lfsrInitialisationMode": true, "lfsrKeystreamMode": true}
	okW := true
	for w := range writers {
		if !allowed[w] {
			okW = false
			c.Fail(RF, "snow3g."+w+":writes-generator-state", token.NoPos, "unexpected writer of the generator state")
		}
	}
	if okW {
		c.Ok(RF, "snow3g:state-writers", token.NoPos, fmt.Sprintf("%d writers, all part of init/clock", len(writers)))
	}
}

// ---------------------------------------------------------------- IV layouts
func r7iv(c *core.Ctx) {
	const R = "R7.iv"
	c.Rule(R, "IV / counter block layouts of NEA1, NIA1, NEA2, NIA2; BEARER/DIRECTION range guards; key word order")
	// guards in NASEncrypt / NASMacCalculate
	for _, name := range []string{"NASEncrypt", "NASMacCalculate"} {
		fn := mustFunc(c, pSec, name)
		p := core.NewPather(fn)
		gB, gD := false, false
		for _, b := range fn.Blocks {
			iff, ok := b.Instrs[len(b.Instrs)-1].(*ssa.If)
			if !ok {
				continue
			}
			cond := p.Path(iff.Cond)
			retErr := blockReturnsError(b.Succs[0])
			// every crypto call must be dominated by the false edge
			if cond == "(p3>31)" && retErr && dominatesAllCryptoCalls(fn, b.Succs[1]) {
				gB = true
			}
			if cond == "(p4>1)" && retErr && dominatesAllCryptoCalls(fn, b.Succs[1]) {
				gD = true
			}
		}
		c.Check(gB, R, "security."+name+":bearer-guard", fn.Pos(), "Bearer > 31 refused before any algorithm runs", "no guard refusing BEARER values above 5 bits before the algorithms (the IV layout needs BEARER < 32)")
		c.Check(gD, R, "security."+name+":direction-guard", fn.Pos(), "Direction > 1 refused before any algorithm runs", "no guard refusing DIRECTION values above 1 bit before the algorithms")
	}
	assume := map[string]int{"p2": 5, "p3": 1}
	// NEA1
	{
		fn := mustFunc(c, pSec, "NEA1")
		ba := core.NewBitAnalyzer(fn)
		ba.Assume = assume
		call := onlyCall(c, R, fn, pSnow+".InitSnow3g")
		if call != nil {
			iv := arrayArgElems(call.Call.Args[1])
			if iv == nil || len(iv) != 4 {
				c.Fail(R, "security.NEA1:iv", call.Pos(), "IV argument is not a 4-word array literal")
			} else {
				bd := func(b core.BitVec) bool {
					return b != nil && len(b) == 32 && b.IsCopy(31, 27, "p2", 0) && b.IsCopy(26, 26, "p3", 0) && b.IsConst(25, 0, 0)
				}
				cnt := func(b core.BitVec) bool { return b != nil && len(b) == 32 && b.IsCopy(31, 0, "p1", 0) }
				b0, b1, b2, b3 := ba.Bits(iv[0]), ba.Bits(iv[1]), ba.Bits(iv[2]), ba.Bits(iv[3])
				c.Check(bd(b0) && cnt(b1) && bd(b2) && cnt(b3), R, "security.NEA1:iv", call.Pos(), "IV = {BEARER<<27|DIR<<26, COUNT, BEARER<<27|DIR<<26, COUNT}",
					"128-EEA1 IV must be {BEARER||DIR||0^26, COUNT, BEARER||DIR||0^26, COUNT}; is {%s ; %s ; %s ; %s}", b0.Describe(), b1.Describe(), b2.Describe(), b3.Describe())
			}
			r7keywords(c, R, fn, "NEA1", call)
		}
		// keystream length: l = (length+31)/32 words requested and generated
		p := core.NewPather(fn)
		gk := onlyCall(c, R, fn, pSnow+".GenerateKeystream")
		if gk != nil {
			n := p.Path(gk.Call.Args[0])
			c.Check(n == "((p5+31)/32)", R, "security.NEA1:keystream-words", gk.Pos(), n, "keystream word count is %s, want ceil(length/32)", n)
		}
		r7nea1apply(c, R, fn)
	}
	// NIA1
	{
		fn := mustFunc(c, pSec, "NIA1")
		ba := core.NewBitAnalyzer(fn)
		ba.Assume = map[string]int{"p2": 5, "p3": 1}
		call := onlyCall(c, R, fn, pSnow+".InitSnow3g")
		if call != nil {
			iv := arrayArgElems(call.Call.Args[1])
			if iv == nil || len(iv) != 4 {
				c.Fail(R, "security.NIA1:iv", call.Pos(), "IV argument is not a 4-word array literal")
			} else {
				b0, b1, b2, b3 := ba.Bits(iv[0]), ba.Bits(iv[1]), ba.Bits(iv[2]), ba.Bits(iv[3])
				ok0 := b0 != nil && b0.IsCopy(31, 27, "p2", 0) && b0.IsConst(26, 16, 0) && b0.IsCopy(15, 15, "p3", 0) && b0.IsConst(14, 0, 0)
				ok1 := b1 != nil && b1.IsXorOf(31, 31, false, core.SrcRef{Path: "p1", Lo: 31}, core.SrcRef{Path: "p3", Lo: 0}) && b1.IsCopy(30, 0, "p1", 0)
				ok2 := b2 != nil && b2.IsCopy(31, 27, "p2", 0) && b2.IsConst(26, 0, 0)
				ok3 := b3 != nil && b3.IsCopy(31, 0, "p1", 0)
				c.Check(ok0 && ok1 && ok2 && ok3, R, "security.NIA1:iv", call.Pos(), "IV = {FRESH^DIR<<15, COUNT^DIR<<31, FRESH, COUNT}, FRESH = BEARER<<27",
					"128-EIA1 IV must be {FRESH^DIR<<15, COUNT^DIR<<31, FRESH, COUNT} with FRESH=BEARER<<27; is {%s ; %s ; %s ; %s}", b0.Describe(), b1.Describe(), b2.Describe(), b3.Describe())
			}
			r7keywords(c, R, fn, "NIA1", call)
		}
		p := core.NewPather(fn)
		gk := onlyCall(c, R, fn, pSnow+".GenerateKeystream")
		if gk != nil {
			n, okN := core.ConstInt(gk.Call.Args[0])
			c.Check(okN && n == 5, R, "security.NIA1:keystream-words", gk.Pos(), "5 words z1..z5", "EIA1 needs exactly 5 keystream words, requests %s", p.Path(gk.Call.Args[0]))
		}
		r7nia1eval(c, R, fn)
	}
	// NEA2 / NIA2 counter block
	for _, name := range []string{"NEA2", "NIA2"} {
		fn := mustFunc(c, pSec, name)
		p := core.NewPather(fn)
		ba := core.NewBitAnalyzer(fn)
		ba.Assume = map[string]int{"p2": 5, "p3": 1}
		put := onlyCall(c, R, fn, "encoding/binary.bigEndian.PutUint32")
		var blk string
		if put != nil {
			blk = p.Path(put.Call.Args[1])
			v := p.Path(put.Call.Args[2])
			c.Check(v == "p1", R, "security."+name+":count-octets", put.Pos(), "octets 0..3 = COUNT big-endian", "octets 0..3 of the block must be COUNT (big-endian), value written is %s", v)
		}
		// store to blk[4]
		var st4 *ssa.Store
		others := 0
		for _, b := range fn.Blocks {
			for _, in := range b.Instrs {
				if st, ok := in.(*ssa.Store); ok && blk != "" {
					ap := p.Path(st.Addr)
					if ap == blk+"[4]" {
						st4 = st
					} else if strings.HasPrefix(ap, blk+"[") {
						others++
					}
				}
			}
		}
		if st4 == nil {
			c.Fail(R, "security."+name+":bearer-direction-octet", fn.Pos(), "octet 4 of the block (BEARER||DIRECTION||0) is never written")
		} else {
			b := ba.Bits(st4.Val)
			ok := b != nil && len(b) == 8 && b.IsCopy(7, 3, "p2", 0) && b.IsCopy(2, 2, "p3", 0) && b.IsConst(1, 0, 0)
			c.Check(ok && others == 0, R, "security."+name+":bearer-direction-octet", st4.Pos(), "octet 4 = BEARER<<3 | DIRECTION<<2", "octet 4 must be BEARER(5)||DIRECTION(1)||00, is %s (other literal stores into the block: %d)", b.Describe(), others)
		}
		if name == "NEA2" {
			ctr := onlyCall(c, R, fn, "crypto/cipher.NewCTR")
			okCtr := ctr != nil && p.Path(ctr.Call.Args[1]) == blk && strings.HasPrefix(p.Path(ctr.Call.Args[0]), "call:crypto/aes.NewCipher(") && blockLen(ctr.Call.Args[1]) == 16
			c.Check(okCtr, R, "security.NEA2:ctr", fn.Pos(), "AES-CTR with the 16-octet counter block T1", "NEA2 must run AES in CTR mode from the 16-octet counter block")
			xor := false
			for _, ci := range core.Calls(fn) {
				if core.CalleeName(ci.Common()) == "invoke:(crypto/cipher.Stream).XORKeyStream" {
					a := ci.Common().Args
					if p.Path(a[1]) == "p4" && p.Path(a[0]) == "makeslice(call:builtin.len(p4))" && retIs(fn, p, p.Path(a[0])) {
						xor = true
					}
				}
			}
			c.Check(xor, R, "security.NEA2:whole-message", fn.Pos(), "XORKeyStream(obs[len(ibs)], ibs) and obs returned", "NEA2 must XOR the keystream over the whole input into an output of the same length and return it")
			keyOK := ctr != nil && strings.HasPrefix(p.Path(ctr.Call.Args[0]), "call:crypto/aes.NewCipher(p0")
			c.Check(keyOK, R, "security.NEA2:key", fn.Pos(), "AES key = the 16-octet key argument", "NEA2 must key AES with its key argument")
		} else {
			sum := onlyCall(c, R, fn, "github.com/aead/cmac.Sum")
			if sum != nil {
				m := p.Path(sum.Call.Args[0])
				tag, okT := core.ConstInt(sum.Call.Args[2])
				okM := m == blk && m == "makeslice((call:builtin.len(p4)+8))"
				cp := false
				for _, ci := range core.Calls(fn) {
					if core.CalleeName(ci.Common()) == "builtin.copy" && p.Path(ci.Common().Args[0]) == blk+"[8:]" && p.Path(ci.Common().Args[1]) == "p4" && core.Dominates(ci, sum) {
						cp = true
					}
				}
				trunc := false
				for _, b := range fn.Blocks {
					for _, in := range b.Instrs {
						if r, ok := in.(*ssa.Return); ok && len(r.Results) == 2 {
							if s := p.Path(r.Results[0]); strings.HasPrefix(s, "call:github.com/aead/cmac.Sum(") && strings.HasSuffix(s, "#0[:4]") {
								trunc = true
							}
						}
					}
				}
				c.Check(okM && cp && okT && tag == 16 && trunc, R, "security.NIA2:cmac", sum.Pos(), "CMAC over COUNT||BEARER||DIR||0^26 || message, leftmost 32 bits",
					"NIA2 must be AES-CMAC over the 8-octet header followed by the message, truncated to the 4 most significant octets (input %s, copied=%v, tag=%d, truncated=%v)", m, cp, tag, trunc)
			}
		}
	}
}

func retIs(fn *ssa.Function, p *core.Pather, want string) bool {
	for _, b := range fn.Blocks {
		for _, in := range b.Instrs {
			if r, ok := in.(*ssa.Return); ok && len(r.Results) == 2 {
				if k, isK := r.Results[1].(*ssa.Const); isK && k.Value == nil && p.Path(r.Results[0]) == want {
					return true
				}
			}
		}
	}
	return false
}

func blockLen(v ssa.Value) int64 {
	for i := 0; i < 4; i++ {
		switch x := v.(type) {
		case *ssa.Slice:
			v = x.X
		case *ssa.Alloc:
			if pt, ok := x.Type().Underlying().(*types.Pointer); ok {
				if at, ok := pt.Elem().Underlying().(*types.Array); ok {
					return at.Len()
				}
			}
			return -1
		case *ssa.MakeSlice:
			n, _ := core.ConstInt(x.Len)
			return n
		default:
			return -1
		}
	}
	return -1
}

func blockReturnsError(b *ssa.BasicBlock) bool {
	for _, in := range b.Instrs {
		if r, ok := in.(*ssa.Return); ok && len(r.Results) >= 1 {
			last := r.Results[len(r.Results)-1]
			if k, isK := last.(*ssa.Const); isK && k.Value == nil {
				return false
			}
			return true
		}
	}
	return false
}

func dominatesAllCryptoCalls(fn *ssa.Function, b *ssa.BasicBlock) bool {
	n := 0
	for _, ci := range core.Calls(fn) {
		name := core.CalleeName(ci.Common())
		if strings.HasPrefix(name, pSec+".NEA") || strings.HasPrefix(name, pSec+".NIA") {
			n++
			if !b.Dominates(ci.Block()) {
				return false
			}
		}
	}
	return n > 0
}

func onlyCall(c *core.Ctx, R string, fn *ssa.Function, callee string) *ssa.Call {
	calls := core.CallsTo(fn, callee)
	if len(calls) != 1 {
		c.Fail(R, shortName(core.FuncName(fn))+":"+shortName(callee)+":count", fn.Pos(), "expected exactly one call of %s, found %d", shortName(callee), len(calls))
		return nil
	}
	call, _ := calls[0].(*ssa.Call)
	return call
}

// arrayArgElems returns the elements of an array-literal argument (value of type [N]T loaded from a literal alloc).
func arrayArgElems(v ssa.Value) []ssa.Value {
	if u, ok := v.(*ssa.UnOp); ok && u.Op == token.MUL {
		if a, ok := u.X.(*ssa.Alloc); ok {
			if e, ok := core.ArrayLitElems(a); ok {
				return e
			}
		}
	}
	return nil
}

// key words: k[i] = BigEndian.Uint32(ck[4*(3-i):...]) for i = 0..3
func r7keywords(c *core.Ctx, R string, fn *ssa.Function, name string, initCall *ssa.Call) {
	p := core.NewPather(fn)
	ok := false
	kArg := p.Path(initCall.Call.Args[0])
	for _, l := range loopBounds(fn) {
		if !(l.initOK && l.init == 0 && l.step == 1 && l.op == token.LSS && l.limitOK && l.limit == 4) {
			continue
		}
		iv := p.Path(l.phi)
		for _, b := range fn.Blocks {
			for _, in := range b.Instrs {
				st, isSt := in.(*ssa.Store)
				if !isSt {
					continue
				}
				ap := p.Path(st.Addr)
				if ap != kArg+"["+iv+"]" {
					continue
				}
				val := p.Path(st.Val)
				w1 := fmt.Sprintf("call:encoding/binary.bigEndian.Uint32(global:encoding/binary.BigEndian,p0[(4*(3-%s)):(4*((3-%s)+1))])", iv, iv)
				if val == w1 {
					ok = true
				}
			}
		}
	}
	c.Check(ok, R, "security."+name+":key-words", fn.Pos(), "k[i] = big-endian word 3-i of the key (k3 = first four octets)", "%s must load k[i] from key octets 4*(3-i)..4*(3-i)+3 big-endian (TS 35.215: k3 = CK[0..31])", name)
}

// NEA1 keystream application: full words then the remaining octets; mask guarded.
func r7nea1apply(c *core.Ctx, R string, fn *ssa.Function) {
	p := core.NewPather(fn)
	var stores []string
	for _, b := range fn.Blocks {
		for _, in := range b.Instrs {
			if st, ok := in.(*ssa.Store); ok {
				ap := p.Path(st.Addr)
				if strings.HasPrefix(ap, "makeslice(call:builtin.len(p4))[") {
					stores = append(stores, ap+" := "+p.Path(st.Val))
				}
			}
		}
	}
	good := 0
	for _, s := range stores {
		// obs[4*i+j] = ibs[4*i+j] ^ byte(ks[i] >> (8*(3-j)))
		var i1, j1 string
		if n, _ := fmt.Sscanf(strings.NewReplacer("(", " ", ")", " ", "[", " ", "]", " ", "*", " ", "+", " ").Replace(s), "makeslice call:builtin.len p4    4 %s   %s", &i1, &j1); n == 2 {
			want := fmt.Sprintf("makeslice(call:builtin.len(p4))[((4*%s)+%s)] := (p4[((4*%s)+%s)]^((makeslice(((p5+31)/32))[%s]>>(8*(3-%s)))&255))", i1, j1, i1, j1, i1, j1)
			want2 := fmt.Sprintf("makeslice(call:builtin.len(p4))[((4*%s)+%s)] := (p4[((4*%s)+%s)]^(makeslice(((p5+31)/32))[%s]>>(8*(3-%s))))", i1, j1, i1, j1, i1, j1)
			if s == want || s == want2 {
				good++
			}
		}
	}
	lb := loopBounds(fn)
	full, tail := false, false
	for _, l := range lb {
		if l.limitPath == "(p5/32)" && l.initOK && l.init == 0 && l.step == 1 && l.op == token.LSS {
			full = true
		}
		if l.limitPath == "(((p5%32)+7)/8)" && l.initOK && l.init == 0 && l.step == 1 && l.op == token.LSS {
			tail = true
		}
	}
	c.Check(good == len(stores) && good >= 2 && full && tail, R, "security.NEA1:keystream-application", fn.Pos(),
		"obs[4i+j] = ibs[4i+j] ^ byte j of ks[i] for all full words and ceil(r/8) octets of the last word",
		"NEA1 must XOR octet j of keystream word i onto octet 4i+j for every full word and for the ceil(r/8) remaining octets (recognised %d of %d output stores; full-word loop %v, tail loop %v)", good, len(stores), full, tail)
}

// NIA1: P, Q from z1..z4, message blocks, length block, MAC = top half ^ z5
func r7nia1eval(c *core.Ctx, R string, fn *ssa.Function) {
	p := core.NewPather(fn)
	z := "local:*[5]uint32#0[:5]"
	P := "((" + z + "[0]<<32)|" + z + "[1])"
	Q := "((" + z + "[2]<<32)|" + z + "[3])"
	muls := core.CallsTo(fn, pSec+".mul")
	nP, nQ := 0, 0
	polyOK := true
	for _, m := range muls {
		a := m.Common().Args
		if pv, ok := core.ConstInt(a[2]); !ok || pv != 0x1b {
			polyOK = false
		}
		switch p.Path(a[1]) {
		case P:
			nP++
		case Q:
			nQ++
		}
	}
	// two multiplications by P (block loop + final block) or one (a single loop over all blocks,
	// judged by R7.nia1-blocks), then exactly one by Q
	c.Check((len(muls) == 3 && nP == 2 || len(muls) == 2 && nP == 1) && nQ == 1 && polyOK, R, "security.NIA1:P-Q", fn.Pos(), "P = z1||z2 for the message blocks, Q = z3||z4 for the final multiplication, polynomial 0x1B",
		"EIA1 must multiply by P=z1||z2 (message blocks) and by Q=z3||z4 (after adding LENGTH) modulo x^64+x^4+x^3+x+1; found %d multiplications (%d by P, %d by Q, polynomial ok=%v)", len(muls), nP, nQ, polyOK)
	// final: MAC = uint32(Eval>>32) ^ z[4], Eval = mul(Eval ^ length, Q)
	put := onlyCall(c, R, fn, "encoding/binary.bigEndian.PutUint32")
	if put != nil {
		v := p.Path(put.Call.Args[2])
		ok := strings.HasSuffix(v, ">>32)^"+z+"[4])") && strings.Contains(v, "^p5),"+Q+",27)")
		c.Check(ok, R, "security.NIA1:mac", put.Pos(), "MAC-I = high 32 bits of ((EVAL ^ LENGTH) * Q) ^ z5", "EIA1 MAC must be the high half of ((EVAL^LENGTH)*Q) xor z5; is %s", v)
	}
}

// ---------------------------------------------------------------- dispatch
func r7dispatch(c *core.Ctx) {
	const R = "R7.dispatch"
	c.Rule(R, "NASEncrypt/NASMacCalculate: algorithm ids 0/1/2 select NEA0/1/2 and NIA0/1/2; NEA0 leaves the payload unchanged; results cover the whole payload")
	for _, kv := range [][2]string{{"AlgCiphering128NEA0", "0"}, {"AlgCiphering128NEA1", "1"}, {"AlgCiphering128NEA2", "2"}, {"AlgIntegrity128NIA0", "0"}, {"AlgIntegrity128NIA1", "1"}, {"AlgIntegrity128NIA2", "2"}} {
		v := mustConst(c, pSec, kv[0])
		c.Check(fmt.Sprint(v) == kv[1], R, "security."+kv[0], token.NoPos, "="+kv[1], "%s must be %s (TS 33.501 5.11.1), is %d", kv[0], kv[1], v)
	}
	{
		fn := mustFunc(c, pSec, "NASEncrypt")
		p := core.NewPather(fn)
		// for each call NEA1/NEA2: the block is reached under AlgoID == k
		for _, t := range []struct {
			callee string
			id     int64
			args   string
		}{{"NEA1", 1, "p1,p2,p3,p4,p5,(call:builtin.len(p5)*8)"}, {"NEA2", 2, "p1,p2,p3,p4,p5"}} {
			call := onlyCall(c, R, fn, pSec+"."+t.callee)
			if call == nil {
				continue
			}
			ids := guardingEq(p, call.Block(), "p0")
			okG := len(ids) == 1 && ids[0] == t.id
			var as []string
			for _, a := range call.Call.Args {
				as = append(as, p.Path(a))
			}
			got := strings.Join(as, ",")
			c.Check(okG, R, "security.NASEncrypt:"+t.callee+":selected-by", call.Pos(), fmt.Sprintf("AlgoID == %d", t.id), "%s must run exactly for algorithm id %d, runs for %v", t.callee, t.id, ids)
			c.Check(got == t.args, R, "security.NASEncrypt:"+t.callee+":args", call.Pos(), got, "%s arguments are (%s), want (%s)", t.callee, got, t.args)
			// copy(payload, output) after
			cp := false
			for _, ci := range core.Calls(fn) {
				if core.CalleeName(ci.Common()) == "builtin.copy" && p.Path(ci.Common().Args[0]) == "p5" && p.Path(ci.Common().Args[1]) == p.Path(call)+"#0" && core.Dominates(call, ci) {
					cp = true
				}
			}
			c.Check(cp, R, "security.NASEncrypt:"+t.callee+":in-place", call.Pos(), "copy(payload, output)", "the %s output must be copied back over the payload", t.callee)
		}
		// NEA0: a return nil reached under AlgoID == 0 without any store/copy to payload
		ok0 := false
		for _, b := range fn.Blocks {
			ids := guardingEq(p, b, "p0")
			if len(ids) == 1 && ids[0] == 0 {
				clean := true
				ret := false
				for _, in := range b.Instrs {
					switch x := in.(type) {
					case *ssa.Call:
						n := core.CalleeName(&x.Call)
						if n == "builtin.copy" || strings.HasPrefix(n, pSec+".NEA") {
							clean = false
						}
					case *ssa.Store:
						clean = false
					case *ssa.Return:
						if k, isK := x.Results[0].(*ssa.Const); isK && k.Value == nil {
							ret = true
						}
					}
				}
				if clean && ret {
					ok0 = true
				}
			}
		}
		c.Check(ok0, R, "security.NASEncrypt:NEA0", fn.Pos(), "algorithm 0 returns nil without touching the payload", "NEA0 must leave the message unchanged and succeed")
	}
	{
		fn := mustFunc(c, pSec, "NASMacCalculate")
		p := core.NewPather(fn)
		for _, t := range []struct {
			callee string
			id     int64
			args   string
		}{{"NIA1", 1, "p1,p2,p3,p4,p5,(call:builtin.len(p5)*8)"}, {"NIA2", 2, "p1,p2,p3,p4,p5"}} {
			call := onlyCall(c, R, fn, pSec+"."+t.callee)
			if call == nil {
				continue
			}
			ids := guardingEq(p, call.Block(), "p0")
			var as []string
			for _, a := range call.Call.Args {
				as = append(as, p.Path(a))
			}
			got := strings.Join(as, ",")
			c.Check(len(ids) == 1 && ids[0] == t.id, R, "security.NASMacCalculate:"+t.callee+":selected-by", call.Pos(), fmt.Sprintf("AlgoID == %d", t.id), "%s must run exactly for algorithm id %d, runs for %v", t.callee, t.id, ids)
			c.Check(got == t.args, R, "security.NASMacCalculate:"+t.callee+":args", call.Pos(), got, "%s arguments are (%s), want (%s)", t.callee, got, t.args)
		}
	}
}

// guardingEq returns the constants k such that block b is only reachable through
// "v == k" true edges (switch lowering): collected along the dominator chain.
func guardingEq(p *core.Pather, b *ssa.BasicBlock, v string) []int64 {
	var out []int64
	// a block with several predecessors (merged cases) collects each
	var visit func(blk *ssa.BasicBlock, depth int)
	seen := map[*ssa.BasicBlock]bool{}
	visit = func(blk *ssa.BasicBlock, depth int) {
		if seen[blk] || depth > 6 {
			return
		}
		seen[blk] = true
		for _, pr := range blk.Preds {
			iff, ok := pr.Instrs[len(pr.Instrs)-1].(*ssa.If)
			if ok {
				if bo, isBo := iff.Cond.(*ssa.BinOp); isBo && bo.Op == token.EQL && p.Path(bo.X) == v && pr.Succs[0] == blk {
					if k, isK := core.ConstInt(bo.Y); isK {
						out = append(out, k)
						continue
					}
				}
			}
			if len(pr.Succs) == 1 {
				visit(pr, depth+1)
			} else {
				out = append(out, -1) // reachable through some other edge
			}
		}
	}
	visit(b, 0)
	return out
}

// ---------------------------------------------------------------- R7.shift
// r7shift: for every shift with a non-constant count in the given packages whose
// count interval is derivable, the count must stay below the operand width
// (a Go shift by >= width yields 0 / sign fill: keystream or mask bits are lost).
func r7shift(c *core.Ctx, pkgs []string) {
	const R = "R7.shift"
	c.Rule(R, "no variable shift whose derivable count range reaches the operand width (e.g. keystream truncation mask 1<<(32-r) needs r != 0)")
	n, derivable := 0, 0
	for _, pp := range pkgs {
		for _, f := range allFuncsOf(c.P.SSAPkg(pp)) {
			ia := core.NewIntervalAnalyzer(f)
			ord := 0
			for _, b := range f.Blocks {
				for _, in := range b.Instrs {
					bo, ok := in.(*ssa.BinOp)
					if !ok || (bo.Op != token.SHL && bo.Op != token.SHR) {
						continue
					}
					if _, isC := core.ConstInt(bo.Y); isC {
						continue
					}
					n++
					ord++
					key := fmt.Sprintf("%s:shift#%d", shortName(core.FuncName(f)), ord)
					w := int64(bitWidth(bo.X.Type()))
					iv := ia.At(bo.Y, b)
					if !iv.Known || w == 0 {
						c.Note("%s: shift count not derivable (%s) — no verdict for this shift", key, c.P.Pos(bo.Pos()))
						continue
					}
					derivable++
					if iv.Hi >= w || iv.Lo < 0 {
						c.Fail(R, key, bo.Pos(), "shift count ranges over [%d,%d] on a %d-bit operand: for count %d the result is 0 (bits that should be kept are lost)", iv.Lo, iv.Hi, w, w)
					} else {
						c.Ok(R, key, bo.Pos(), fmt.Sprintf("count in [%d,%d] < %d", iv.Lo, iv.Hi, w))
					}
				}
			}
		}
	}
	c.Sites(n)
	if derivable == 0 {
		c.Undecided("R7.shift found no variable shift with a derivable count in %v (expected several)", pkgs)
	}
}

func bitWidth(t types.Type) int {
	if b, ok := t.Underlying().(*types.Basic); ok {
		switch b.Kind() {
		case types.Int8, types.Uint8:
			return 8
		case types.Int16, types.Uint16:
			return 16
		case types.Int32, types.Uint32:
			return 32
		case types.Int64, types.Uint64, types.Int, types.Uint, types.Uintptr:
			return 64
		}
	}
	return 0
}

// ---------------------------------------------------------------- residue-class evaluation
// linForm is a*q + b where the analysed variable is m*q + r (q >= 1 arbitrary).
type linForm struct {
	a, b int64
	ok   bool
}

// evalResidue evaluates an integer expression over one variable (path `varPath`)
// under the abstraction var = m*q + r: exact for +, -, * by constants and for
// / and % by constants dividing m. Anything else is "unknown".
func evalResidue(p *core.Pather, v ssa.Value, varPath string, m, r int64, depth int) linForm {
	if depth > 16 {
		return linForm{}
	}
	if k, ok := core.ConstInt(v); ok {
		if _, isC := v.(*ssa.Const); isC {
			return linForm{0, k, true}
		}
	}
	if p.Path(v) == varPath {
		return linForm{m, r, true}
	}
	switch x := v.(type) {
	case *ssa.Convert:
		return evalResidue(p, x.X, varPath, m, r, depth+1)
	case *ssa.ChangeType:
		return evalResidue(p, x.X, varPath, m, r, depth+1)
	case *ssa.BinOp:
		l := evalResidue(p, x.X, varPath, m, r, depth+1)
		rr := evalResidue(p, x.Y, varPath, m, r, depth+1)
		if !l.ok || !rr.ok {
			return linForm{}
		}
		switch x.Op {
		case token.ADD:
			return linForm{l.a + rr.a, l.b + rr.b, true}
		case token.SUB:
			return linForm{l.a - rr.a, l.b - rr.b, true}
		case token.MUL:
			if rr.a == 0 {
				return linForm{l.a * rr.b, l.b * rr.b, true}
			}
			if l.a == 0 {
				return linForm{rr.a * l.b, rr.b * l.b, true}
			}
		case token.QUO:
			if rr.a == 0 && rr.b > 0 && l.a%rr.b == 0 && l.b >= 0 {
				return linForm{l.a / rr.b, l.b / rr.b, true}
			}
		case token.REM:
			if rr.a == 0 && rr.b > 0 && l.a%rr.b == 0 && l.b >= 0 {
				return linForm{0, l.b % rr.b, true}
			}
		case token.SHR:
			if rr.a == 0 && rr.b >= 0 && rr.b < 32 && l.a%(1<<uint(rr.b)) == 0 && l.b >= 0 {
				return linForm{l.a >> uint(rr.b), l.b >> uint(rr.b), true}
			}
		case token.SHL:
			if rr.a == 0 && rr.b >= 0 && rr.b < 32 {
				return linForm{l.a << uint(rr.b), l.b << uint(rr.b), true}
			}
		}
	}
	return linForm{}
}

// r7nia1blocks: the number of full 64-bit message blocks folded in the loop must be
// ceil(LENGTH/64)-1 and the last (zero-padded) block must start at octet 8*(ceil(LENGTH/64)-1),
// for every residue of LENGTH modulo 64.
func r7nia1blocks(c *core.Ctx) {
	const R = "R7.nia1-blocks"
	c.Rule(R, "NIA1: for every LENGTH mod 64 the loop folds ceil(LENGTH/64)-1 full blocks and the final block starts at octet 8*(ceil(LENGTH/64)-1)")
	fn := mustFunc(c, pSec, "NIA1")
	p := core.NewPather(fn)
	var limit ssa.Value
	var idxLoop, idxTail ssa.Value
	for _, l := range loopBounds(fn) {
		if l.initOK && l.init == 0 && l.step == 1 && l.op == token.LSS && !l.limitOK && strings.Contains(l.limitPath, "p5") {
			iff := l.header.Instrs[len(l.header.Instrs)-1].(*ssa.If)
			limit = iff.Cond.(*ssa.BinOp).Y
		}
	}
	// offsets: Uint64(msg[8*i:]) in the loop, copy(tmp, msg[8*(D-2):]) after it
	for _, b := range fn.Blocks {
		for _, in := range b.Instrs {
			sl, ok := in.(*ssa.Slice)
			if !ok || p.Path(sl.X) != "p4" || sl.Low == nil {
				continue
			}
			if strings.Contains(p.Path(sl.Low), "iv") {
				idxLoop = sl.Low
			} else {
				idxTail = sl.Low
			}
		}
	}
	r7nia1horner(c, fn, p)
	if limit != nil && idxLoop != nil && idxTail == nil {
		// unified form: one loop over all ceil(LENGTH/64) blocks, the block read being zero-padded
		// when fewer than 8 octets remain (a copy into a fresh 8-octet buffer)
		padded := false
		for _, ci := range core.CallsTo(fn, "builtin.copy") {
			a := ci.Common().Args
			dst := p.Path(a[0])
			fresh8 := strings.HasPrefix(dst, "makeslice(8)") || strings.HasPrefix(dst, "local:*[8]byte#") || strings.HasPrefix(dst, "local:*[8]uint8#")
			if fresh8 && strings.Contains(p.Path(a[1]), "p4[") {
				padded = true
			}
		}
		okIdx := commEq(p.Path(idxLoop), "(8*"+p.Path(loopPhiOf(fn, limit))+")")
		bad := ""
		for r := int64(0); r < 64 && bad == ""; r++ {
			wb := int64(0) // ceil((64q+r)/64) = q + (r>0 ? 1 : 0)
			if r > 0 {
				wb = 1
			}
			lf := evalResidue(p, limit, "p5", 64, r, 0)
			if !lf.ok {
				c.Undecided("NIA1: block-count expression %s is outside the residue-class evaluator", p.Path(limit))
			}
			if lf.a != 1 || lf.b != wb {
				bad = fmt.Sprintf("LENGTH = 64q+%d: the loop folds %dq%+d blocks, want q%+d (expression %s)", r, lf.a, lf.b, wb, p.Path(limit))
			}
		}
		c.Check(bad == "" && okIdx && padded, R, "security.NIA1:block-count", fn.Pos(), "64/64 residues of LENGTH mod 64: ceil(LENGTH/64) blocks at 8*i, the last one zero-padded",
			"EIA1 message splitting is wrong: %s (block index 8*i: %v, short last block zero-padded: %v)", bad, okIdx, padded)
		return
	}
	if limit == nil || idxLoop == nil || idxTail == nil {
		c.Undecided("NIA1: message-block loop not in the recognised form (counted loop over msg[8*i:] followed by a tail block msg[k:])")
	}
	okLoopIdx := commEq(p.Path(idxLoop), "(8*"+p.Path(loopPhiOf(fn, limit))+")")
	bad := ""
	for r := int64(0); r < 64 && bad == ""; r++ {
		want := int64(1) // ceil((64q+r)/64) - 1 = q + (r>0 ? 1 : 0) - 1, as a*q+b with a=1
		wb := int64(-1)
		if r > 0 {
			wb = 0
		}
		lf := evalResidue(p, limit, "p5", 64, r, 0)
		if !lf.ok {
			c.Undecided("NIA1: block-count expression %s is outside the residue-class evaluator", p.Path(limit))
		}
		if lf.a != want || lf.b != wb {
			bad = fmt.Sprintf("LENGTH = 64q+%d: loop folds %dq%+d full blocks, want q%+d (expression %s)", r, lf.a, lf.b, wb, p.Path(limit))
		}
		tf := evalResidue(p, idxTail, "p5", 64, r, 0)
		if !tf.ok {
			c.Undecided("NIA1: tail offset expression %s is outside the residue-class evaluator", p.Path(idxTail))
		}
		if bad == "" && (tf.a != 8 || tf.b != 8*wb) {
			bad = fmt.Sprintf("LENGTH = 64q+%d: final block starts at octet %dq%+d, want 8q%+d (expression %s)", r, tf.a, tf.b, 8*wb, p.Path(idxTail))
		}
	}
	c.Check(bad == "" && okLoopIdx, R, "security.NIA1:block-count", fn.Pos(), "64/64 residues of LENGTH mod 64: ceil(LENGTH/64)-1 full blocks, tail at 8*(ceil(LENGTH/64)-1)",
		"EIA1 message splitting is wrong: %s (loop index ok=%v)", bad, okLoopIdx)
}

func loopPhiOf(fn *ssa.Function, limit ssa.Value) ssa.Value {
	for _, l := range loopBounds(fn) {
		iff, ok := l.header.Instrs[len(l.header.Instrs)-1].(*ssa.If)
		if ok {
			if bo, isBo := iff.Cond.(*ssa.BinOp); isBo && bo.Y == limit {
				return l.phi
			}
		}
	}
	return nil
}

// r7nia1horner: EIA1 evaluates the message polynomial by Horner's rule: for every
// block, without exception, Eval := (Eval xor M_i) * P in GF(2^64). The loop-carried
// Eval must therefore come back to the loop head only as mul(Eval ^ M, P, 0x1b): a
// path on which it comes back unchanged (a skipped block) or changed otherwise drops
// one multiplication by P, and the MAC is no longer the EIA1 MAC.
func r7nia1horner(c *core.Ctx, fn *ssa.Function, p *core.Pather) {
	const R = "R7.nia1-horner"
	c.Rule(R, "NIA1: on every way round the block loop Eval becomes mul(Eval ^ M, P, 0x1b) (Horner step never skipped)")
	n := 0
	for _, l := range allLoopPhis(fn) {
		bt, isBasic := l.phi.Type().Underlying().(*types.Basic)
		if !isBasic || bt.Kind() != types.Uint64 {
			continue
		}
		// the accumulator: some alternative of its back edge is a mul call
		var alts []ssa.Value
		var flat func(v ssa.Value, d int)
		flat = func(v ssa.Value, d int) {
			if ph, isPhi := v.(*ssa.Phi); isPhi && ph != l.phi && d < 5 {
				for _, e := range ph.Edges {
					flat(e, d+1)
				}
				return
			}
			alts = append(alts, v)
		}
		for _, e := range l.backEdges {
			flat(e, 0)
		}
		isAcc := false
		for _, a := range alts {
			if call, ok := a.(*ssa.Call); ok && core.CalleeName(&call.Call) == pSec+".mul" {
				isAcc = true
			}
		}
		if !isAcc {
			continue
		}
		acc := p.Path(l.phi)
		for k, a := range alts {
			n++
			key := fmt.Sprintf("security.NIA1:%s:back-edge#%d", acc, k)
			okStep := false
			if call, isCall := a.(*ssa.Call); isCall && core.CalleeName(&call.Call) == pSec+".mul" && len(call.Call.Args) == 3 {
				x, isXor := call.Call.Args[0].(*ssa.BinOp)
				k1b, _ := core.ConstInt(call.Call.Args[2])
				if isXor && x.Op == token.XOR && (p.Path(x.X) == acc || p.Path(x.Y) == acc) && k1b == 0x1b {
					okStep = true
				}
			}
			c.Check(okStep, R, key, l.phi.Pos(), "mul(Eval ^ M, P, 0x1b)", "Eval returns to the head of the block loop as %s: every block, including an all-zero one, must be folded as mul(Eval ^ M, P, 0x1b) — a skipped or different step loses a multiplication by P", clip(p.Path(a)))
		}
	}
	if n == 0 {
		c.SoftUndecided("NIA1: no loop-carried accumulator updated by security.mul found")
	}
}

// ---------------------------------------------------------------- R7.gf64
// GF(2^64) arithmetic of EIA1 (TS 35.215 4.3): MULx(V,c) = (V<<1) xor c when the
// leftmost bit of V is set, V<<1 otherwise; MUL(V,P,c) = XOR over the set bits i of
// P of MULxPOW(V,i,c). Two spellings of MUL are recognised: indexed (for i < 64:
// bit i of P selects MULxPOW(V,i,c)) and iterative (while P != 0: bit 0 of P selects
// the running V, then V = MULx(V,c), P >>= 1).
func r7gf64(c *core.Ctx) {
	const R = "R7.gf64"
	c.Rule(R, "security.mulx / mulxPow / mul: MULx tests bit 63, MUL xors MULxPOW(V,i,c) for exactly the set bits i = 0..63 of P")
	top := "9223372036854775808"
	{
		fn := mustFunc(c, pSec, "mulx")
		p := core.NewPather(fn)
		ok := false
		if len(fn.Blocks) >= 3 {
			if iff, isIf := fn.Blocks[0].Instrs[len(fn.Blocks[0].Instrs)-1].(*ssa.If); isIf {
				cond := p.Path(iff.Cond)
				t, e := retPath(p, fn.Blocks[0].Succs[0]), retPath(p, fn.Blocks[0].Succs[1])
				sh := func(s string) bool { return s == "((p0<<1)^p1)" || s == "(p1^(p0<<1))" }
				if (cond == "((p0&"+top+")!=0)" || cond == "((p0>>63)!=0)" || cond == "((p0>>63)==1)") && sh(t) && e == "(p0<<1)" {
					ok = true
				}
				if (cond == "((p0&"+top+")==0)" || cond == "((p0>>63)==0)") && sh(e) && t == "(p0<<1)" {
					ok = true
				}
			}
		}
		c.Check(ok, R, "security.mulx", fn.Pos(), "V bit 63 ? (V<<1)^c : V<<1", "MULx over 64 bits must be (V<<1)^c when bit 63 of V is set and V<<1 otherwise")
	}
	powFn := c.P.Func(pSec, "mulxPow")
	if powFn != nil && len(powFn.Blocks) > 0 {
		p := core.NewPather(powFn)
		ok := false
		if len(powFn.Blocks) >= 3 {
			if iff, isIf := powFn.Blocks[0].Instrs[len(powFn.Blocks[0].Instrs)-1].(*ssa.If); isIf {
				cond := p.Path(iff.Cond)
				t, e := retPath(p, powFn.Blocks[0].Succs[0]), retPath(p, powFn.Blocks[0].Succs[1])
				rec := "call:" + pSec + ".mulx(call:" + pSec + ".mulxPow(p0,(p1-1),p2),p2)"
				if cond == "(p1==0)" && t == "p0" && e == rec {
					ok = true
				}
				if cond == "(p1!=0)" && e == "p0" && t == rec {
					ok = true
				}
			}
		}
		c.Check(ok, R, "security.mulxPow", powFn.Pos(), "i==0 ? V : MULx(MULxPOW(V,i-1,c),c)", "MULxPOW must be the i-fold application of MULx")
	}
	fn := mustFunc(c, pSec, "mul")
	p := core.NewPather(fn)
	loops := allLoopPhis(fn)
	// result: returned value is the loop-carried accumulator that starts at 0
	ret := singleReturnAny(fn)
	var acc *loopInfoX
	for i := range loops {
		if ret != nil && (ssa.Value(loops[i].phi) == ret) {
			acc = &loops[i]
		}
	}
	if acc == nil {
		c.SoftUndecided("security.mul: result is not a loop-carried accumulator")
		return
	}
	if k, isK := core.ConstInt(acc.init); !isK || k != 0 {
		c.Fail(R, "security.mul:init", fn.Pos(), "the product accumulator must start at 0")
		return
	}
	// alternatives of the accumulator's back edge with the condition selecting them
	var upd ssa.Value
	var updCond string
	okAlts := true
	for _, e := range acc.backEdges {
		ph, isPhi := e.(*ssa.Phi)
		if !isPhi {
			okAlts = false
			continue
		}
		for i, a := range ph.Edges {
			if a == ssa.Value(acc.phi) {
				continue
			}
			upd = a
			pred := ph.Block().Preds[i]
			// the block computing the update is entered on the true side of the bit test
			for x := pred; x != nil; x = x.Idom() {
				id := x.Idom()
				if id == nil {
					break
				}
				if iff, isIf := id.Instrs[len(id.Instrs)-1].(*ssa.If); isIf && len(x.Preds) == 1 && id.Succs[0] == x {
					updCond = p.Path(iff.Cond)
					break
				}
			}
		}
	}
	if upd == nil || !okAlts {
		c.SoftUndecided("security.mul: accumulator update not in the form `if bit { rst ^= term }`")
		return
	}
	x, isXor := upd.(*ssa.BinOp)
	if !isXor || x.Op != token.XOR {
		c.Fail(R, "security.mul:update", fn.Pos(), "partial products must be combined by XOR (addition in GF(2)); the update is %s", clip(p.Path(upd)))
		return
	}
	term := x.Y
	if x.Y == ssa.Value(acc.phi) {
		term = x.X
	}
	accN := p.Path(acc.phi)
	// indexed form
	for _, l := range loopBounds(fn) {
		iv := p.Path(l.phi)
		if l.initOK && l.init == 0 && l.step == 1 {
			full := l.limitOK && ((l.op == token.LSS && l.limit == 64) || (l.op == token.LEQ && l.limit == 63))
			okBit := updCond == "(((p1>>"+iv+")&1)==1)" || updCond == "(((p1>>"+iv+")&1)!=0)"
			okTerm := p.Path(term) == "call:"+pSec+".mulxPow(p0,"+iv+",p2)"
			c.Check(full && okBit && okTerm, R, "security.mul:indexed", fn.Pos(), "for i in 0..63: bit i of P ⇒ rst ^= MULxPOW(V,i,c)",
				"MUL must xor MULxPOW(V,i,c) into the result for exactly the set bits i = 0..63 of P; loop covers 0..%d (op %s), bit test %s, term %s", l.limit, l.op, updCond, clip(p.Path(term)))
			return
		}
	}
	// iterative form: V' = mulx(V,c) and P' = P>>1 on every way round, bit 0 of the running P selects the running V
	var vPhi, pPhi *loopInfoX
	for i := range loops {
		l := &loops[i]
		if l.phi == acc.phi {
			continue
		}
		switch p.Path(l.init) {
		case "p0":
			vPhi = l
		case "p1":
			pPhi = l
		}
	}
	if vPhi == nil || pPhi == nil {
		c.SoftUndecided("security.mul: neither the indexed nor the iterative form of the GF(2^64) product (accumulator %s)", accN)
		return
	}
	okV, okP := len(vPhi.backEdges) > 0, len(pPhi.backEdges) > 0
	for _, e := range vPhi.backEdges {
		if p.Path(e) != "call:"+pSec+".mulx("+p.Path(vPhi.phi)+",p2)" {
			okV = false
		}
	}
	for _, e := range pPhi.backEdges {
		if p.Path(e) != "("+p.Path(pPhi.phi)+">>1)" {
			okP = false
		}
	}
	pn := p.Path(pPhi.phi)
	okBit := updCond == "(("+pn+"&1)==1)" || updCond == "(("+pn+"&1)!=0)"
	okTerm := term == ssa.Value(vPhi.phi)
	okExit := p.Path(acc.cond) == "("+pn+"!=0)" || p.Path(pPhi.cond) == "("+pn+"!=0)"
	c.Check(okV && okP && okBit && okTerm && okExit, R, "security.mul:iterative", fn.Pos(), "while P != 0: bit 0 of P ⇒ rst ^= V; V = MULx(V,c); P >>= 1",
		"iterative MUL must, on every round, xor the running V into the result when bit 0 of the running P is set, then replace V by MULx(V,c) and shift P right by one, until P is 0 (V update %v, P update %v, bit test %s, term is running V %v, exit on P==0 %v)", okV, okP, updCond, okTerm, okExit)
}
