package rules

import (
	"fmt"
	"go/types"
	"strings"

	"golang.org/x/tools/go/ssa"

	"stgverif/internal/core"
)

// NEA1's keystream application on the evaluator, by a partition on LENGTH: for every bit length of
// 1..160 and a set of larger ones (around 32, 64, 256, 512, 2048 and 4096 octets) NEA1 is interpreted
// with that constant LENGTH, a symbolic input of ceil(LENGTH/8) octets and a symbolic keystream; all
// its loops fold, and the output octet e has to be input octet e xor octet (e mod 4, most significant
// first) of keystream word e div 4, for the first LENGTH bits (the bits after them stay as they are). The generator is modelled by its clock: InitSnow3g restarts it,
// every GenerateKeystream call discards one word and then yields the next n - a second call on the
// same initialisation therefore does not continue where the first stopped (TS 35.216 3.4.5 produces
// the keystream in one run), and the model shows it.

var nea1Lengths = func() []int {
	var ls []int
	for l := 1; l <= 160; l++ {
		ls = append(ls, l)
	}
	return append(ls, 255, 256, 257, 511, 512, 513, 2047, 2048, 2049, 2056, 4096, 4104, 16384, 16392, 32768, 32776)
}()

func r7nea1applyX(c *core.Ctx, R string, fn *ssa.Function) (decided, ok bool, why string) {
	if len(fn.Params) != 6 {
		return false, false, ""
	}
	u8 := types.Typ[types.Uint8]
	for _, L := range nea1Lengths {
		n := (L + 7) / 8
		clock := 0
		ex := core.NewExec()
		ex.MaxSteps = 4000000
		ex.OnCall = func(ev *core.AEvent, m *core.AMem) (core.AVal, bool) {
			switch {
			case ev.Callee == pSnow+".InitSnow3g":
				clock = 0
				return core.AVal{K: core.ATuple}, true
			case ev.Callee == pSnow+".GenerateKeystream":
				clock++ // the discarded word
				if len(ev.Args) == 2 && ev.Args[1].K == core.ASlice && ev.Args[1].Lo >= 0 {
					if k, isK := ev.Args[0].ConstVal(); isK && k <= 1<<16 {
						for i := 0; i < int(k); i++ {
							m.Store(fmt.Sprintf("%s[%d]", ev.Args[1].Path, ev.Args[1].Lo+i), core.ArgBits(fmt.Sprintf("z[%d]", clock-1+i), 32, 32), nil)
						}
						clock += int(k)
						return core.AVal{K: core.ATuple}, true
					}
				}
				return core.AVal{}, false
			case strings.HasPrefix(ev.Callee, "fmt."), strings.HasPrefix(ev.Callee, "log."):
				return core.OpaqueRet(ev), true
			}
			return core.AVal{}, false
		}
		args := core.DefaultArgs(fn)
		args[4] = core.AVal{K: core.ASlice, Path: "p4", Lo: 0, Len: n, NonNil: true}
		args[5] = core.AVal{K: core.AInt, Bits: core.ConstBits(uint64(L), len(args[5].Bits))}
		if len(args[5].Bits) == 0 {
			return false, false, ""
		}
		outs, err := ex.Run(fn, args, nil)
		o, one := oneLive(outs)
		if err != nil || !one || len(ex.Unsound) > 0 || len(o.Ret) == 0 {
			return false, false, fmt.Sprintf("LENGTH %d: not folded to one outcome (%v, %d outcomes, %v)", L, err, len(outs), ex.Unsound)
		}
		res := o.Ret[0]
		if res.K != core.ASlice || res.Lo < 0 || res.Len < n {
			return true, false, fmt.Sprintf("LENGTH %d bits: the output is %s, want %d octets", L, clip(core.ArgName(res)), n)
		}
		for e := 0; e < n; e++ {
			got := o.Mem.Load(fmt.Sprintf("%s[%d]", res.Path, res.Lo+e), u8)
			in := core.ArgBits(fmt.Sprintf("p4[%d]", e), 8, 8).Bits
			ks := make(core.BitVec, 8)
			for b := 0; b < 8; b++ {
				ks[b] = srcBit(fmt.Sprintf("z[%d]", e/4), 8*(3-e%4)+b)
			}
			want := core.XorVec(in, ks)
			for b := 0; b < 8; b++ {
				if 8*e+7-b >= L {
					want[b] = in[b] // keystream bits beyond LENGTH are not applied (TS 35.215: LENGTH bits are processed)
				}
			}
			if got.K != core.AInt || !core.SameVec(got.Bits, want) {
				return true, false, fmt.Sprintf("LENGTH %d bits: output octet %d is %s, want input octet %d xor octet %d of keystream word %d (%s)", L, e, clip(got.String()), e, e%4, e/4, clip(want.Describe()))
			}
		}
	}
	return true, true, ""
}
