#!/usr/bin/env python3
"""Regenerates the seeded-change table of DESIGN.md section 10.5 from seeded/catch_matrix.json and the meta.json files."""
import json, re
cm=json.load(open('/verif/seeded/catch_matrix.json'))
rows=[]
for sid in sorted(cm):
    m=json.load(open(f'/verif/seeded/{sid}/meta.json'))
    o=cm[sid]; v=o['verdict']
    if v=='VIOLATION':
        v='reported'
        if o.get('by_property'): v+=' by '+o['by_property']
    elif v.startswith('MISSED'): v='**missed**'
    elif v=='UNDECIDED': v='undecided (exit 2)'
    elif v.startswith('patch does not apply'): v='superseded (patch no longer applies)'
    rules=', '.join(o.get('rules',[])[:4])
    t=re.sub(r'^C\d\d seed \d+:\s*','',m['title']).replace('|','/')
    if len(t)>110: t=t[:107]+'…'
    rows.append(f"| {sid} | {t} | {v} | {rules} |")
table='| Seed | Change | Verdict | Rules |\n|---|---|---|---|\n'+'\n'.join(rows)+'\n'
s=open('/verif/DESIGN.md').read()
if '<!-- MATRIX BEGIN -->' in s:
    s=re.sub(r'<!-- MATRIX BEGIN -->.*<!-- MATRIX END -->','<!-- MATRIX BEGIN -->\n'+table+'<!-- MATRIX END -->',s,flags=re.S)
else:
    a=s.index('| Seed | Change | Verdict | Rules |')
    b=s.index('\nC05-4 breaks schedule independence only')
    s=s[:a]+'<!-- MATRIX BEGIN -->\n'+table+'<!-- MATRIX END -->\n'+s[b:]
open('/verif/DESIGN.md','w').write(s)
n=len(rows); rep=sum('reported' in r for r in rows)
print(n,'seeds,',rep,'reported')
