#!/usr/bin/env python3
"""mkmut.py <prop> <name> <expect[;expect2]> <repo-relative-file> <old> <new> [nth]
Creates /verif/checker/mutants/<prop>/<name>.diff: a one-instance variant of /repo's
current tree (exact string replacement of the nth occurrence, default 1)."""
import sys, difflib, os
prop, name, expect, rel, old, new = sys.argv[1:7]
nth = int(sys.argv[7]) if len(sys.argv) > 7 else 1
src = open(os.path.join('/repo', rel)).read()
old = old.encode().decode('unicode_escape'); new = new.encode().decode('unicode_escape')
idx = -1
for _ in range(nth):
    idx = src.find(old, idx + 1)
    if idx < 0:
        sys.exit("old text not found (occurrence %d) in %s" % (nth, rel))
dst = src[:idx] + new + src[idx + len(old):]
d = difflib.unified_diff(src.splitlines(True), dst.splitlines(True), 'a/' + rel, 'b/' + rel, n=3)
out = os.path.join('/verif/checker/mutants', prop)
os.makedirs(out, exist_ok=True)
with open(os.path.join(out, name + '.diff'), 'w') as f:
    for e in expect.split(';'):
        f.write('# expect: %s\n' % e.strip())
    f.writelines(d)
print("wrote", os.path.join(out, name + '.diff'))
