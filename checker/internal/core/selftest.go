package core

import (
	"bufio"
	"fmt"
	"os"
	"os/exec"
	"path/filepath"
	"sort"
	"strings"
	"sync"
)

// MutantResult is the outcome of one seeded variant in the checker self-test.
type MutantResult struct {
	Name    string `json:"name"`
	Expect  string `json:"expect"`
	Outcome string `json:"outcome"` // caught | silent-as-expected | MISSED | FALSE-ALARM | skipped(<why>) | ERROR
	Detail  string `json:"detail,omitempty"`
}

// SelfTest applies every seeded variant under checker/mutants/<prop>/ to a scratch
// copy of the repository's *current* tree and re-runs this binary's quick rules on
// it. Variants marked "expect: <rule>[ <key-substring>]" must produce a violation
// of that rule naming that instance; variants marked "expect: silent" (behaviour
// preserving) must pass. It exercises the checker, not the emulator: nothing of
// the repository is run.
func SelfTest(prop string, self string) (results []MutantResult, bad int) {
	dir := filepath.Join(VerifDir(), "checker", "mutants", prop)
	files, _ := filepath.Glob(filepath.Join(dir, "*.diff"))
	sort.Strings(files)
	results = make([]MutantResult, len(files))
	sem := make(chan struct{}, 8)
	var wg sync.WaitGroup
	for i, f := range files {
		wg.Add(1)
		go func(i int, f string) {
			defer wg.Done()
			sem <- struct{}{}
			defer func() { <-sem }()
			results[i] = runMutant(prop, self, f)
		}(i, f)
	}
	wg.Wait()
	for _, r := range results {
		if r.Outcome == "MISSED" || r.Outcome == "FALSE-ALARM" || r.Outcome == "ERROR" {
			bad++
		}
	}
	return results, bad
}

func runMutant(prop, self, file string) MutantResult {
	name := strings.TrimSuffix(filepath.Base(file), ".diff")
	res := MutantResult{Name: name}
	expects := []string{}
	fh, err := os.Open(file)
	if err != nil {
		res.Outcome, res.Detail = "ERROR", err.Error()
		return res
	}
	sc := bufio.NewScanner(fh)
	for sc.Scan() {
		l := sc.Text()
		if strings.HasPrefix(l, "# expect:") {
			expects = append(expects, strings.TrimSpace(strings.TrimPrefix(l, "# expect:")))
		}
		if strings.HasPrefix(l, "--- ") {
			break
		}
	}
	fh.Close()
	if len(expects) == 0 {
		res.Outcome, res.Detail = "ERROR", "no '# expect:' header"
		return res
	}
	res.Expect = strings.Join(expects, " ; ")
	tmp, err := os.MkdirTemp("", "stgverif-mut-")
	if err != nil {
		res.Outcome, res.Detail = "ERROR", err.Error()
		return res
	}
	defer os.RemoveAll(tmp)
	repo := filepath.Join(tmp, "repo")
	if out, err := exec.Command("rsync", "-a", "--exclude", ".git", RepoDir()+"/", repo+"/").CombinedOutput(); err != nil {
		res.Outcome, res.Detail = "ERROR", "rsync: "+string(out)
		return res
	}
	p := exec.Command("patch", "-p1", "--batch", "--no-backup-if-mismatch", "-s", "-F0", "-i", file)
	p.Dir = repo
	if out, err := p.CombinedOutput(); err != nil {
		res.Outcome = "skipped(patch does not apply to the current tree)"
		res.Detail = firstLines(string(out), 2)
		return res
	}
	cmd := exec.Command(self, prop, "quick")
	cmd.Env = append(os.Environ(), "VERIF_REPO="+repo, "VERIF_EVIDENCE_DIR="+filepath.Join(tmp, "ev"), "VERIF_SELFTEST_CHILD=1")
	out, err := cmd.CombinedOutput()
	code := 0
	if ee, ok := err.(*exec.ExitError); ok {
		code = ee.ExitCode()
	} else if err != nil {
		res.Outcome, res.Detail = "ERROR", err.Error()
		return res
	}
	text := string(out)
	// "expect: undecided <substring>": a broken variant whose construct the rules cannot interpret any more
	// must at least not pass: UNDECIDED naming that construct (or a VIOLATION) is what is asked for
	if len(expects) == 1 && strings.HasPrefix(expects[0], "undecided") {
		sub := strings.TrimSpace(strings.TrimPrefix(expects[0], "undecided"))
		switch {
		case code == 0:
			res.Outcome, res.Detail = "MISSED", "exit 0: neither a violation nor undecided"
		case code == 2 && (sub == "" || strings.Contains(text, sub)):
			res.Outcome = "caught"
			res.Detail = "undecided (exit 2): " + firstLines(grepLines(text, "UNDECIDED"), 1)
		case code == 1:
			res.Outcome = "caught"
		default:
			res.Outcome, res.Detail = "MISSED", "undecided, but not about "+sub
		}
		return res
	}
	if code == 2 {
		res.Outcome, res.Detail = "ERROR", "variant undecided: "+firstLines(grepLines(text, "UNDECIDED"), 2)
		return res
	}
	if len(expects) == 1 && expects[0] == "silent" {
		if code == 0 {
			res.Outcome = "silent-as-expected"
		} else {
			res.Outcome, res.Detail = "FALSE-ALARM", firstLines(violationLines(text), 3)
		}
		return res
	}
	if code != 1 || !strings.Contains(text, "VIOLATION property="+prop) {
		res.Outcome, res.Detail = "MISSED", fmt.Sprintf("exit %d, no violation reported", code)
		return res
	}
	vl := violationLines(text)
	for _, e := range expects {
		parts := strings.Fields(e)
		ok := false
		for _, l := range strings.Split(vl, "\n") {
			if !strings.Contains(l, ": "+parts[0]+": ") {
				continue
			}
			all := true
			for _, sub := range parts[1:] {
				if !strings.Contains(l, sub) {
					all = false
				}
			}
			if all {
				ok = true
				break
			}
		}
		if !ok {
			res.Outcome, res.Detail = "MISSED", "violation reported but not "+e+": "+firstLines(vl, 3)
			return res
		}
	}
	res.Outcome = "caught"
	res.Detail = firstLines(vl, 1)
	return res
}

func violationLines(text string) string {
	var out []string
	for _, l := range strings.Split(text, "\n") {
		if strings.Contains(l, ": R") && !strings.HasPrefix(l, "  rule") && !strings.HasPrefix(l, "KNOWN-FINDING") && !strings.HasPrefix(l, "  note") {
			out = append(out, l)
		}
	}
	return strings.Join(out, "\n")
}

func grepLines(text, sub string) string {
	var out []string
	for _, l := range strings.Split(text, "\n") {
		if strings.Contains(l, sub) {
			out = append(out, l)
		}
	}
	return strings.Join(out, "\n")
}

func firstLines(s string, n int) string {
	ls := strings.Split(strings.TrimSpace(s), "\n")
	if len(ls) > n {
		ls = ls[:n]
	}
	return strings.Join(ls, " | ")
}
