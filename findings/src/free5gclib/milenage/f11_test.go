package milenage

import "testing"

// F11: a MAC-A that differs only in its first octet is accepted.
func TestF11(t *testing.T) {
	k := make([]byte, 16)
	opc := make([]byte, 16)
	rnd := make([]byte, 16)
	for i := range k {
		k[i], opc[i], rnd[i] = byte(i), byte(2*i), byte(3*i)
	}
	sqn := []byte{0, 0, 0, 0, 0, 9}
	amf := []byte{0x80, 0}
	autn, ik, ck, res := make([]byte, 16), make([]byte, 16), make([]byte, 16), make([]byte, 8)
	var resLen uint = 8
	MilenageGenerate(opc, amf, k, sqn, rnd, autn, ik, ck, make([]byte, 6), res, &resLen)
	ueSqn := []byte{0, 0, 0, 0, 0, 1}
	auts := make([]byte, 14)
	if r := Milenage_check(opc, k, ueSqn, rnd, autn, ik, ck, res, &resLen, auts); r != 0 {
		t.Fatalf("valid AUTN rejected: %d", r)
	}
	bad := append([]byte(nil), autn...)
	bad[8] ^= 0x01
	if r := Milenage_check(opc, k, ueSqn, rnd, bad, ik, ck, res, &resLen, auts); r == 0 {
		t.Fatalf("AUTN with a corrupted first MAC octet accepted")
	}
}
