package rules

import (
	"fmt"
	"go/ast"
	"go/token"
	"go/types"
	"regexp"
	"sort"
	"strconv"
	"strings"

	"golang.org/x/tools/go/ssa"

	"stgverif/internal/core"
)

// Accessor model of package nasType (DESIGN R9.acc): every Get<F>/Set<F> method of
// the 151 IE value types is summarised, from its SSA form, as a set of *segments*
//
//	getter:  result[rLo .. rLo+n)  <-  store[sLo .. sLo+n)
//	setter:  store[sLo .. sLo+n)   <-  argument[rLo .. rLo+n)      (all other bits of the store kept)
//
// where store is the canonical access path of one octet / field of the receiver
// (p0.Octet[3], p0.Buffer[0], p0.Iei), or — for array- and slice-valued fields —
// an octet range of it. Bit segments come from the bit-provenance domain
// (core.BitAnalyzer); octet ranges from the arguments of the builtin copy.

type accSeg struct {
	store string // p0.Octet[2] (bit segments) or p0.Octet (octet ranges)
	sLo   int    // first bit of the store / first octet of the range
	rLo   int    // first bit of the result or argument / first octet
	n     int    // bits or octets; -1: open-ended octet range
	octet bool
}

func (s accSeg) String() string {
	if s.octet {
		hi := "end"
		if s.n >= 0 {
			hi = strconv.Itoa(s.sLo + s.n)
		}
		return fmt.Sprintf("%s[%d:%s]", s.store, s.sLo, hi)
	}
	return fmt.Sprintf("%s.bits[%d:%d]@%d", s.store, s.sLo+s.n-1, s.sLo, s.rLo)
}

type accessor struct {
	typ, field string // SessionAMBR, UnitForSessionAMBRForDownlink
	get        bool
	fn         *ssa.Function
	segs       []accSeg
	whole      string   // whole-value accessor of this path (non-integer field, or slice)
	clobber    []string // setter: stores whose other bits are not preserved
	altered    []string // setter: a store whose value is a merge (clamped / defaulted), not the argument
	carry      string   // setter: kept bits and new bits overlap in an addition
	lost       []accSeg // setter: bits overwritten that are neither the argument's nor kept
	extra      []string // setter: other effects
	unknown    string   // not summarised: reason
	doc        string
}

func (a *accessor) summary() string {
	if a.unknown != "" {
		return "?" + a.unknown
	}
	var parts []string
	if a.whole != "" {
		parts = append(parts, "whole:"+a.whole)
	}
	for _, s := range a.segs {
		parts = append(parts, s.String())
	}
	sort.Strings(parts)
	return strings.Join(parts, " ")
}

func sortSegs(s []accSeg) {
	sort.Slice(s, func(i, j int) bool {
		if s[i].store != s[j].store {
			return s[i].store < s[j].store
		}
		return s[i].sLo < s[j].sLo
	})
}

// bitSegments splits a bit vector into maximal runs copied from one source.
// Bits that are constant zero are skipped; anything else (Mix, negated, XOR
// combinations, constant one) is reported through bad.
func bitSegments(bv core.BitVec) (segs []accSeg, bad bool) {
	i := 0
	for i < len(bv) {
		b := bv[i]
		switch b.Kind {
		case core.BZero:
			i++
			continue
		case core.BSrc:
			if b.Neg || b.More != "" {
				return nil, true
			}
			j := i + 1
			for j < len(bv) && bv[j].Kind == core.BSrc && !bv[j].Neg && bv[j].More == "" && bv[j].Src == b.Src && bv[j].Idx == b.Idx+(j-i) {
				j++
			}
			segs = append(segs, accSeg{store: b.Src, sLo: b.Idx, rLo: i, n: j - i})
			i = j
		default:
			return nil, true
		}
	}
	return segs, false
}

var sliceRange = regexp.MustCompile(`^(.*)\[(\d*):(\d*)\]$`)

// octetRange parses p0.Octet[1:3] / p0.Buffer[2:] / p0.Octet.
func octetRange(path string) (accSeg, bool) {
	if m := sliceRange.FindStringSubmatch(path); m != nil {
		lo, hi := 0, -1
		if m[2] != "" {
			lo, _ = strconv.Atoi(m[2])
		}
		if m[3] != "" {
			hi, _ = strconv.Atoi(m[3])
		}
		n := -1
		if hi >= 0 {
			n = hi - lo
		}
		return accSeg{store: m[1], sLo: lo, n: n, octet: true}, true
	}
	if strings.HasPrefix(path, "p0.") && !strings.ContainsAny(path, "[(") {
		return accSeg{store: path, sLo: 0, n: -1, octet: true}, true
	}
	return accSeg{}, false
}

func analyseAccessor(fn *ssa.Function, typ, field string, get bool) *accessor {
	a := &accessor{typ: typ, field: field, get: get, fn: fn}
	p := core.NewPather(fn)
	ba := core.NewBitAnalyzer(fn)
	if len(fn.Blocks) != 1 && get {
		a.unknown = "control flow"
		return a
	}
	var copies [][2]string
	var ret *ssa.Return
	var instrs []ssa.Instruction
	for _, b := range fn.Blocks {
		instrs = append(instrs, b.Instrs...)
	}
	for _, in := range instrs {
		switch x := in.(type) {
		case *ssa.Return:
			ret = x
		case *ssa.Call:
			name := core.CalleeName(&x.Call)
			switch {
			case name == "builtin.copy":
				copies = append(copies, [2]string{p.Path(x.Call.Args[0]), p.Path(x.Call.Args[1])})
			case strings.HasSuffix(name, ".GetBitMask"):
			default:
				a.extra = append(a.extra, "call:"+name)
			}
		case *ssa.Store:
			if get {
				if _, isAlloc := x.Addr.(*ssa.Alloc); isAlloc {
					continue // zero-initialisation of the named result
				}
				a.unknown = "getter writes " + p.Path(x.Addr)
				return a
			}
			if al, isAlloc := x.Addr.(*ssa.Alloc); isAlloc && !strings.HasPrefix(p.Path(al), "p0") {
				continue // spill of the parameter
			}
			addr := p.Path(x.Addr)
			if !strings.HasPrefix(addr, "p0.") {
				a.unknown = "setter writes " + addr
				return a
			}
			if ph, isPhi := stripConv(x.Val).(*ssa.Phi); isPhi {
				// the value stored depends on a branch: a clamp or a default instead of the argument
				a.altered = append(a.altered, fmt.Sprintf("%s <- %s", addr, p.Path(ph)))
				continue
			}
			if core.NewBitAnalyzer(fn).Bits(x.Val) == nil {
				// non-integer store: the parameter itself, or something derived
				switch v := p.Path(x.Val); {
				case v == "p1":
					a.whole = addr
				case strings.HasPrefix(v, "makeslice("):
					a.extra = append(a.extra, addr+"="+v)
				default:
					a.unknown = "setter stores " + v + " to " + addr
					return a
				}
				continue
			}
			bv := ba.Bits(x.Val)
			segs, bad := bitSegments(bv)
			if bad {
				// kept bits + new field with a common bit position: the addition carries
				if bo, isOr := x.Val.(*ssa.BinOp); isOr && bo.Op == token.OR {
					l, r := ba.Bits(bo.X), ba.Bits(bo.Y)
					for i := 0; l != nil && r != nil && i < len(l) && i < len(r); i++ {
						if l[i].Kind != core.BZero && r[i].Kind != core.BZero && l[i] != r[i] {
							a.carry = fmt.Sprintf("store to %s ORs the new field onto bit %d without clearing it first (%s | %s): a bit that was 1 stays 1, so setting a second value leaves a mixture of both", addr, i, l.Describe(), r.Describe())
							break
						}
					}
				}
				if bo, isAdd := x.Val.(*ssa.BinOp); isAdd && bo.Op == token.ADD {
					l, r := ba.Bits(bo.X), ba.Bits(bo.Y)
					for i := 0; l != nil && r != nil && i < len(l) && i < len(r); i++ {
						if l[i].Kind != core.BZero && r[i].Kind != core.BZero {
							a.carry = fmt.Sprintf("store to %s adds two operands that both occupy bit %d (%s + %s): the sum carries into the neighbouring field", addr, i, l.Describe(), r.Describe())
							break
						}
					}
				}
				a.unknown = "store to " + addr + " is not a bit placement: " + bv.Describe()
				return a
			}
			fromArg := 0
			for _, s := range segs {
				switch {
				case s.store == "p1":
					// argument bits [sLo..] placed at store bits [rLo..]
					a.segs = append(a.segs, accSeg{store: addr, sLo: s.rLo, rLo: s.sLo, n: s.n})
					fromArg += s.n
				case s.store == addr && s.sLo == s.rLo:
					// kept bits
				default:
					a.clobber = append(a.clobber, fmt.Sprintf("%s bits [%d:%d] <- %s[%d:]", addr, s.rLo+s.n-1, s.rLo, s.store, s.sLo))
				}
			}
			if fromArg == 0 {
				a.clobber = append(a.clobber, addr+" <- "+bv.Describe())
			} else if fromArg == len(bv) {
				// whole-width store of the argument
			} else {
				// every bit that is not the argument's must be kept: constant zeros would clear neighbours
				kept := 0
				covered := make([]bool, len(bv))
				for _, s := range segs {
					if (s.store == addr && s.sLo == s.rLo) || s.store == "p1" {
						if s.store == addr {
							kept += s.n
						}
						for i := s.rLo; i < s.rLo+s.n && i < len(covered); i++ {
							covered[i] = true
						}
					}
				}
				for i := 0; i < len(covered); {
					if covered[i] {
						i++
						continue
					}
					j := i
					for j < len(covered) && !covered[j] {
						j++
					}
					a.lost = append(a.lost, accSeg{store: addr, sLo: i, n: j - i})
					i = j
				}
				if kept+fromArg != len(bv) {
					a.clobber = append(a.clobber, fmt.Sprintf("%s: %d of %d bits neither written from the argument nor kept (%s)", addr, len(bv)-kept-fromArg, len(bv), bv.Describe()))
				}
			}
		}
	}
	if get {
		if ret == nil || len(ret.Results) != 1 {
			a.unknown = "no single result"
			return a
		}
		rv := ret.Results[0]
		if bv := ba.Bits(rv); bv != nil {
			segs, bad := bitSegments(bv)
			if bad || len(segs) == 0 {
				a.unknown = "result is not a bit extraction: " + bv.Describe()
				return a
			}
			a.segs = segs
			return a
		}
		switch rv.Type().Underlying().(type) {
		case *types.Array:
			if len(copies) == 1 {
				if seg, ok := octetRange(copies[0][1]); ok {
					a.segs = []accSeg{seg}
					return a
				}
			}
			if s := p.Path(rv); strings.HasPrefix(s, "p0.") {
				a.whole = s
				return a
			}
			a.unknown = "array result: " + p.Path(rv)
		case *types.Slice:
			s := p.Path(rv)
			if _, fresh := rv.(*ssa.MakeSlice); fresh && len(copies) == 1 && copies[0][0] == s {
				// a fresh copy of the stored octets
				s = copies[0][1]
			}
			if seg, ok := octetRange(s); ok {
				a.segs = []accSeg{seg}
				return a
			}
			a.unknown = "slice result: " + s
		default:
			if s := p.Path(rv); strings.HasPrefix(s, "p0.") {
				a.whole = s
				return a
			}
			a.unknown = "result " + p.Path(rv)
		}
		return a
	}
	for _, cp := range copies {
		seg, ok := octetRange(cp[0])
		if !ok || !(cp[1] == "p1" || strings.HasPrefix(cp[1], "p1[")) {
			a.unknown = "copy(" + cp[0] + ", " + cp[1] + ")"
			return a
		}
		a.segs = append(a.segs, seg)
	}
	if len(a.segs) == 0 && a.whole == "" && a.unknown == "" {
		a.unknown = "no effect found"
	}
	return a
}

// accModel: all accessor pairs of nasType, keyed Type.Field.
type accPair struct {
	typ, field string
	get, set   *accessor
}

func buildAccModel(c *core.Ctx) []*accPair {
	pkg := c.P.SSAPkg(pNasT)
	if pkg == nil {
		c.Undecided("package %s not loaded", pNasT)
	}
	docs := accessorDocs(c)
	m := map[string]*accPair{}
	var names []string
	for _, mem := range pkg.Members {
		t, ok := mem.(*ssa.Type)
		if !ok {
			continue
		}
		named, ok := t.Type().(*types.Named)
		if !ok {
			continue
		}
		if _, isStruct := named.Underlying().(*types.Struct); !isStruct {
			continue
		}
		ms := c.P.SSA.MethodSets.MethodSet(types.NewPointer(named))
		for i := 0; i < ms.Len(); i++ {
			fn := c.P.SSA.MethodValue(ms.At(i))
			if fn == nil || len(fn.Blocks) == 0 || fn.Synthetic != "" {
				continue
			}
			name := fn.Name()
			var get bool
			switch {
			case strings.HasPrefix(name, "Get") && len(fn.Params) == 1 && fn.Signature.Results().Len() == 1:
				get = true
			case strings.HasPrefix(name, "Set") && len(fn.Params) == 2 && fn.Signature.Results().Len() == 0:
			default:
				continue
			}
			field := name[3:]
			key := named.Obj().Name() + "." + field
			pr := m[key]
			if pr == nil {
				pr = &accPair{typ: named.Obj().Name(), field: field}
				m[key] = pr
				names = append(names, key)
			}
			a := analyseAccessor(fn, pr.typ, field, get)
			a.doc = docs[named.Obj().Name()+"."+name]
			if get {
				pr.get = a
			} else {
				pr.set = a
			}
		}
	}
	sort.Strings(names)
	var out []*accPair
	for _, k := range names {
		out = append(out, m[k])
	}
	return out
}

// accessorDocs returns the "Row, sBit, len = [r0, r1], s , l" line of each method's doc comment.
func accessorDocs(c *core.Ctx) map[string]string {
	out := map[string]string{}
	pk := c.P.Pkg(pNasT)
	if pk == nil {
		return out
	}
	for _, f := range pk.Syntax {
		for _, d := range f.Decls {
			fd, ok := d.(*ast.FuncDecl)
			if !ok || fd.Recv == nil || fd.Doc == nil || len(fd.Recv.List) != 1 {
				continue
			}
			recv := ""
			if st, ok := fd.Recv.List[0].Type.(*ast.StarExpr); ok {
				if id, ok := st.X.(*ast.Ident); ok {
					recv = id.Name
				}
			}
			for _, cm := range fd.Doc.List {
				if strings.Contains(cm.Text, "Row, sBit, len") {
					out[recv+"."+fd.Name.Name] = strings.TrimSpace(strings.TrimPrefix(cm.Text, "//"))
				}
			}
		}
	}
	return out
}

// AccDump prints the accessor model (diagnostic subcommand).
func AccDump(c *core.Ctx) {
	for _, pr := range buildAccModel(c) {
		g, s := "-", "-"
		doc := ""
		if pr.get != nil {
			g = pr.get.summary()
			doc = pr.get.doc
		}
		if pr.set != nil {
			s = pr.set.summary()
			if len(pr.set.clobber) > 0 {
				s += " CLOBBER" + fmt.Sprint(pr.set.clobber)
			}
			if len(pr.set.extra) > 0 {
				s += " EXTRA" + fmt.Sprint(pr.set.extra)
			}
		}
		fmt.Printf("%s.%s\tget=%s\tset=%s\tdoc=%s\n", pr.typ, pr.field, g, s, doc)
	}
}

// r9acc: accessor rules (C09; also part of C08's component set through C09? no: C08 runs it directly).
func r9acc(c *core.Ctx) {
	if !c.Once("r9acc") {
		return
	}
	const RP, RL, RK, RN = "R9.acc.pair", "R9.acc.layout", "R9.acc.keep", "R9.acc.len"
	nLen := 0
	c.Rule(RP, "every Get<F>/Set<F> pair of the NAS IE value types reads and writes the same octets and bits (same store, same bit range, same alignment)")
	c.Rule(RL, "the octet/bit position of every IE field (getter and setter) equals the frozen layout table T-24501-IELAYOUT (TS 24.501 9.11 figures)")
	c.Rule(RN, "SetLen stores its argument unchanged and, for variable-length IEs, allocates Buffer with exactly Len octets")
	c.Rule(RK, "no constructor of the emulator calls a setter that destroys neighbouring bits after the field stored in those bits was set on the same value")
	model := buildAccModel(c)
	nPairs, nLayout, nKeep := 0, 0, 0
	var clobbering []*accPair
	seenLayout := map[string]bool{}
	for _, pr := range model {
		key := "nasType." + pr.typ + "." + pr.field
		pos := func(a *accessor) (p token.Pos) {
			if a != nil {
				return a.fn.Pos()
			}
			return token.NoPos
		}
		if pr.typ == "DNN" && pr.field == "DNN" {
			// the one field whose accessors convert (FQDN label encoding through util_3gpp.Dnn)
			c.Except(RP, key, pos(pr.get), "DNN value is converted by util_3gpp.Dnn.MarshalBinary/UnmarshalBinary, not placed bit by bit")
			continue
		}
		for _, a := range []*accessor{pr.get, pr.set} {
			if a != nil {
				c.Analysed(pNasT + "." + pr.typ + "." + a.fn.Name())
			}
		}
		if pr.get == nil || pr.set == nil {
			which := "getter"
			if pr.get == nil {
				which = "setter"
			}
			c.SoftUndecided("nasType.%s.%s has no %s (accessors come in pairs in the pinned tree)", pr.typ, pr.field, which)
			continue
		}
		if pr.set.carry != "" {
			c.Fail(RP, key, pos(pr.set), "%s", pr.set.carry)
			continue
		}
		if len(pr.set.altered) > 0 {
			c.Fail(RP, key, pos(pr.set), "setter does not store its argument: %s (a value that is clamped, defaulted or otherwise replaced is not the value the caller or the decoder supplied)", strings.Join(pr.set.altered, "; "))
			continue
		}
		if pr.field == "Len" {
			// SetLen of a variable-length IE sizes Buffer: exactly Len octets (the codec writes Buffer whole / reads Buffer[:Len])
			nLen++
			okLen := true
			for _, e := range pr.set.extra {
				if strings.HasPrefix(e, "p0.Buffer=") && e != "p0.Buffer=makeslice(p0.Len)" && e != "p0.Buffer=makeslice(p1)" {
					okLen = false
					c.Fail(RN, key, pos(pr.set), "SetLen allocates %s: Buffer must have exactly Len octets (the encoder writes Buffer whole, the decoder fills Buffer[:Len])", e)
				}
			}
			if okLen {
				c.Ok(RN, key, pos(pr.set), "Len := argument; "+strings.Join(pr.set.extra, " "))
			}
		}
		if pr.get.unknown != "" || pr.set.unknown != "" {
			c.SoftUndecided("nasType.%s.%s: accessor not in a recognised form (get: %s; set: %s)", pr.typ, pr.field, pr.get.unknown, pr.set.unknown)
			continue
		}
		nPairs++
		g, s := pr.get.summary(), pr.set.summary()
		c.Check(g == s, RP, key, pos(pr.set), g, "getter reads %s but setter writes %s: a value set is not the value got (one of the two is not the TS 24.501 position)", g, s)
		if want, ok := ieLayout[pr.typ+"."+pr.field]; ok {
			seenLayout[pr.typ+"."+pr.field] = true
			nLayout++
			switch {
			case g != want:
				c.Fail(RL, key, pos(pr.get), "getter reads %s; TS 24.501 layout of %s.%s is %s", g, pr.typ, pr.field, want)
			case s != want:
				c.Fail(RL, key, pos(pr.set), "setter writes %s; TS 24.501 layout of %s.%s is %s", s, pr.typ, pr.field, want)
			default:
				c.Ok(RL, key, pos(pr.get), want)
			}
		}
		if len(pr.set.clobber) > 0 {
			clobbering = append(clobbering, pr)
		}
	}
	// R9.acc.keep: a setter that destroys neighbouring bits is harmless only while no
	// constructor sets the neighbour first. Two cooperating sites: the setter's store
	// and the order of the setter calls in the caller.
	bySetter := map[*ssa.Function]*accPair{}
	for _, pr := range model {
		if pr.set != nil {
			bySetter[pr.set.fn] = pr
		}
	}
	overlaps := func(lost []accSeg, w []accSeg) bool {
		for _, l := range lost {
			for _, s := range w {
				if !s.octet && s.store == l.store && s.sLo < l.sLo+l.n && l.sLo < s.sLo+s.n {
					return true
				}
			}
		}
		return false
	}
	var callers []*ssa.Function
	for _, pk := range []string{pNasTP, pTglib, pStg, pMain} {
		if sp := c.P.SSAPkg(pk); sp != nil {
			for _, mem := range sp.Members {
				if fn, ok := mem.(*ssa.Function); ok {
					callers = append(callers, fn)
				}
				if t, ok := mem.(*ssa.Type); ok {
					ms := c.P.SSA.MethodSets.MethodSet(types.NewPointer(t.Type()))
					for i := 0; i < ms.Len(); i++ {
						if fn := c.P.SSA.MethodValue(ms.At(i)); fn != nil && fn.Synthetic == "" {
							callers = append(callers, fn)
						}
					}
				}
			}
		}
	}
	sort.Slice(callers, func(i, j int) bool { return core.FuncName(callers[i]) < core.FuncName(callers[j]) })
	for _, caller := range callers {
		if len(caller.Blocks) == 0 {
			continue
		}
		cp := core.NewPather(caller)
		calls := core.Calls(caller)
		ord := ordinals{}
		for _, ci := range calls {
			callee := ci.Common().StaticCallee()
			pr := bySetter[callee]
			if pr == nil {
				continue
			}
			nKeep++
			if len(pr.set.lost) == 0 {
				continue
			}
			key := "nasType." + pr.typ + ".Set" + pr.field + "@" + shortName(core.FuncName(caller)) + ":" + ord.next(pr.typ+".Set"+pr.field)
			recv := cp.Path(ci.Common().Args[0])
			victim := ""
			for _, other := range calls {
				o := bySetter[other.Common().StaticCallee()]
				if o == nil || other == ci || o.typ != pr.typ || cp.Path(other.Common().Args[0]) != recv {
					continue
				}
				if overlaps(pr.set.lost, o.set.segs) && core.MayPrecede(other, ci) {
					victim = o.field
				}
			}
			c.Check(victim == "", RK, key, ci.Pos(), "destroys "+fmt.Sprint(pr.set.lost)+" but no field stored there was set before on this receiver",
				"Set%s overwrites %v, which holds %s set earlier on the same value: the constructed IE does not carry the intended %s", pr.field, pr.set.lost, victim, victim)
		}
	}
	for _, pr := range clobbering {
		c.Note("R9.acc.keep: nasType.%s.Set%s does not keep the other bits of what it stores to (%s); harmless only while no caller sets those bits first", pr.typ, pr.field, strings.Join(pr.set.clobber, "; "))
	}
	missing := 0
	for k := range ieLayout {
		if !seenLayout[k] {
			missing++
		}
	}
	c.Floor(RP, nPairs, 735)
	c.Floor(RL, nLayout, 735)
	c.Floor(RN, nLen, 66)
	c.Note("R9.acc: %d accessor pairs summarised, %d compared with the layout table (%d table rows without a pair in the tree), %d setter calls in the emulator's constructors checked for destroying earlier fields", nPairs, nLayout, missing, nKeep)
}
