package rules

import (
	"go/token"
	"go/types"
	"strings"

	"golang.org/x/tools/go/ssa"

	"stgverif/internal/core"
)

// R3.octets: a string of n bits occupies ceil(n/8) octets. Where the encoder cuts the octets of a
// value out of the caller's buffer to append them to the output, an octet count computed from a bit
// count has to round up: (n+7)>>3. A floor (n>>3, n/8) drops the last, partly used octet - while
// the bit offset, set from n&7, claims its bits were written. The rule follows every n>>3 / n/8 of
// the encoder side of package aper whose operand is not of the form x+7 into the bounds of a slice
// of a []byte parameter; such a floor is a violation when the function also sets the output's bit
// offset from the remainder, and undecided otherwise (the remaining bits may be written separately).
func r3octets(c *core.Ctx) {
	const R = "R3.octets"
	c.Rule(R, "encoder: octet counts cut from a value's buffer round the bit count up ((n+7)>>3)")
	entry := c.P.Func(pAper, "MarshalWithParams")
	if entry == nil {
		c.SoftUndecided("%s: aper.MarshalWithParams not found", R)
		return
	}
	n := 0
	for _, f := range sortedFuncs(staticReach(entry)) {
		if fnPkgPath(f) != pAper || len(f.Blocks) == 0 {
			continue
		}
		p := core.NewPather(f)
		claimsRemainder := false
		for _, b := range f.Blocks {
			for _, in := range b.Instrs {
				if st, ok := in.(*ssa.Store); ok && strings.HasSuffix(p.Path(st.Addr), ".bitsOffset") && strings.Contains(p.Path(st.Val), "&7)") {
					claimsRemainder = true
				}
			}
		}
		ord := ordinals{}
		for _, b := range f.Blocks {
			for _, in := range b.Instrs {
				bo, ok := in.(*ssa.BinOp)
				if !ok {
					continue
				}
				k, isK := core.ConstInt(bo.Y)
				if !isK || !(bo.Op == token.SHR && k == 3 || bo.Op == token.QUO && k == 8) {
					continue
				}
				// does it bound a slice of a []byte parameter?
				var target *ssa.Slice
				seen := map[ssa.Value]bool{}
				var follow func(v ssa.Value, d int)
				follow = func(v ssa.Value, d int) {
					if seen[v] || d > 5 || target != nil {
						return
					}
					seen[v] = true
					for _, r := range core.Referrers(v) {
						switch y := r.(type) {
						case *ssa.Slice:
							if (y.Low == v || y.High == v) && byteParamRooted(y.X) {
								target = y
							}
						case *ssa.BinOp:
							if y.Op == token.ADD || y.Op == token.SUB {
								follow(y, d+1)
							}
						case *ssa.Convert:
							follow(y, d+1)
						case *ssa.Phi:
							follow(y, d+1)
						}
					}
				}
				follow(bo, 0)
				if target == nil {
					continue
				}
				n++
				key := shortFn(f) + ":" + ord.next("octets-of-bits")
				ceil := false
				if add, isAdd := bo.X.(*ssa.BinOp); isAdd && add.Op == token.ADD {
					if c7, is7 := core.ConstInt(add.Y); is7 && c7 == 7 {
						ceil = true
					}
					if c7, is7 := core.ConstInt(add.X); is7 && c7 == 7 {
						ceil = true
					}
				}
				switch {
				case ceil:
					c.Ok(R, key, bo.Pos(), "ceil: "+clip(p.Path(bo)))
				case claimsRemainder:
					c.Fail(R, key, bo.Pos(), "%s cuts %s octets out of the value's buffer: the count rounds the bit count down, so the last, partly used octet is not appended, while the bit offset is set from the remainder as if its bits had been written (a BIT STRING whose length is not a multiple of 8 loses its tail)", shortFn(f), clip(p.Path(bo)))
				default:
					c.SoftUndecided("%s: %s cuts %s octets (rounded down) out of the value's buffer; whether the remaining bits are written elsewhere is not decided", R, shortFn(f), clip(p.Path(bo)))
				}
			}
		}
	}
	c.Sites(n)
	c.Floor(R, n, 3)
}

// byteParamRooted: v is (a slice of) a []byte parameter of its function.
func byteParamRooted(v ssa.Value) bool {
	for i := 0; i < 4; i++ {
		switch x := v.(type) {
		case *ssa.Parameter:
			if sl, ok := x.Type().Underlying().(*types.Slice); ok {
				if b, isB := sl.Elem().Underlying().(*types.Basic); isB && b.Kind() == types.Uint8 {
					return true
				}
			}
			return false
		case *ssa.Slice:
			v = x.X
		default:
			return false
		}
	}
	return false
}
