package stgutg

// Demonstrations for the C02 findings, against the real drivers. The N2 association is a
// unix SOCK_SEQPACKET socket pair (message boundaries like SCTP; the sctp binding only
// issues sendmsg/recvmsg on the descriptor), the other end is a scripted AMF.

import (
	"bytes"
	"fmt"
	"os"
	"os/exec"
	"syscall"
	"testing"
	"time"

	"free5gclib/aper"
	"free5gclib/nas/security"
	"free5gclib/ngap"
	"free5gclib/ngap/ngapType"
	"tglib"

	"github.com/ishidawataru/sctp"
)

func n2pair(t *testing.T) (*sctp.SCTPConn, int) {
	fds, err := syscall.Socketpair(syscall.AF_UNIX, syscall.SOCK_SEQPACKET, 0)
	if err != nil {
		t.Fatal(err)
	}
	return sctp.NewSCTPConn(fds[0], nil), fds[1]
}

func amfRecv(fd int, timeout time.Duration) []byte {
	tv := syscall.NsecToTimeval(int64(timeout))
	_ = syscall.SetsockoptTimeval(fd, syscall.SOL_SOCKET, syscall.SO_RCVTIMEO, &tv)
	buf := make([]byte, 8192)
	n, err := syscall.Read(fd, buf)
	if err != nil || n <= 0 {
		return nil
	}
	return buf[:n]
}

func testUE(supi string) *tglib.RanUeContext {
	ue := tglib.NewRanUeContext(supi, 1, security.AlgCiphering128NEA0, security.AlgIntegrity128NIA2)
	ue.AmfUeNgapId = 7
	return ue
}

func idIE(amf, ran int64) []ngapType.PDUSessionResourceSetupRequestIEs {
	a := ngapType.PDUSessionResourceSetupRequestIEs{}
	a.Id.Value = ngapType.ProtocolIEIDAMFUENGAPID
	a.Criticality.Value = ngapType.CriticalityPresentReject
	a.Value.Present = ngapType.PDUSessionResourceSetupRequestIEsPresentAMFUENGAPID
	a.Value.AMFUENGAPID = &ngapType.AMFUENGAPID{Value: amf}
	r := ngapType.PDUSessionResourceSetupRequestIEs{}
	r.Id.Value = ngapType.ProtocolIEIDRANUENGAPID
	r.Criticality.Value = ngapType.CriticalityPresentReject
	r.Value.Present = ngapType.PDUSessionResourceSetupRequestIEsPresentRANUENGAPID
	r.Value.RANUENGAPID = &ngapType.RANUENGAPID{Value: ran}
	return []ngapType.PDUSessionResourceSetupRequestIEs{a, r}
}

// setupRequest is what an AMF sends to set up one PDU session: UE address 10.0.0.1 in the
// NAS accept, uplink tunnel 10.9.8.7 / TEID 0x01020304 in the transfer.
func setupRequest(t *testing.T, withPagingPriority bool) []byte {
	accept := []byte{0x2e, 0x01, 0x00, 0xc2, 0x11,
		0x00, 0x01, 0x00,
		0x06, 0x01, 0x00, 0x01, 0x01, 0x00, 0x01,
		0x29, 0x05, 0x01, 10, 0, 0, 1}
	nasPdu := []byte{0, 0, 0, 0, 0, 0, 0, 0x7e, 0x00, 0x68, 0x01, byte(len(accept) >> 8), byte(len(accept))}
	nasPdu = append(nasPdu, accept...)

	tr := ngapType.PDUSessionResourceSetupRequestTransfer{}
	ie := ngapType.PDUSessionResourceSetupRequestTransferIEs{}
	ie.Id.Value = ngapType.ProtocolIEIDULNGUUPTNLInformation
	ie.Criticality.Value = ngapType.CriticalityPresentReject
	ie.Value.Present = ngapType.PDUSessionResourceSetupRequestTransferIEsPresentULNGUUPTNLInformation
	ie.Value.ULNGUUPTNLInformation = &ngapType.UPTransportLayerInformation{
		Present: ngapType.UPTransportLayerInformationPresentGTPTunnel,
		GTPTunnel: &ngapType.GTPTunnel{
			TransportLayerAddress: ngapType.TransportLayerAddress{Value: aper.BitString{Bytes: []byte{10, 9, 8, 7}, BitLength: 32}},
			GTPTEID:               ngapType.GTPTEID{Value: aper.OctetString{1, 2, 3, 4}},
		},
	}
	tr.ProtocolIEs.List = append(tr.ProtocolIEs.List, ie)
	ie = ngapType.PDUSessionResourceSetupRequestTransferIEs{}
	ie.Id.Value = ngapType.ProtocolIEIDPDUSessionType
	ie.Criticality.Value = ngapType.CriticalityPresentReject
	ie.Value.Present = ngapType.PDUSessionResourceSetupRequestTransferIEsPresentPDUSessionType
	ie.Value.PDUSessionType = &ngapType.PDUSessionType{Value: ngapType.PDUSessionTypePresentIpv4}
	tr.ProtocolIEs.List = append(tr.ProtocolIEs.List, ie)
	trBytes, err := aper.MarshalWithParams(tr, "valueExt")
	if err != nil {
		t.Fatal(err)
	}

	var pdu ngapType.NGAPPDU
	pdu.Present = ngapType.NGAPPDUPresentInitiatingMessage
	pdu.InitiatingMessage = new(ngapType.InitiatingMessage)
	pdu.InitiatingMessage.ProcedureCode.Value = ngapType.ProcedureCodePDUSessionResourceSetup
	pdu.InitiatingMessage.Criticality.Value = ngapType.CriticalityPresentReject
	pdu.InitiatingMessage.Value.Present = ngapType.InitiatingMessagePresentPDUSessionResourceSetupRequest
	req := new(ngapType.PDUSessionResourceSetupRequest)
	pdu.InitiatingMessage.Value.PDUSessionResourceSetupRequest = req
	req.ProtocolIEs.List = idIE(7, 1)
	if withPagingPriority {
		p := ngapType.PDUSessionResourceSetupRequestIEs{}
		p.Id.Value = ngapType.ProtocolIEIDRANPagingPriority
		p.Criticality.Value = ngapType.CriticalityPresentIgnore
		p.Value.Present = ngapType.PDUSessionResourceSetupRequestIEsPresentRANPagingPriority
		p.Value.RANPagingPriority = &ngapType.RANPagingPriority{Value: 5}
		req.ProtocolIEs.List = append(req.ProtocolIEs.List, p)
	}
	l := ngapType.PDUSessionResourceSetupRequestIEs{}
	l.Id.Value = ngapType.ProtocolIEIDPDUSessionResourceSetupListSUReq
	l.Criticality.Value = ngapType.CriticalityPresentReject
	l.Value.Present = ngapType.PDUSessionResourceSetupRequestIEsPresentPDUSessionResourceSetupListSUReq
	l.Value.PDUSessionResourceSetupListSUReq = &ngapType.PDUSessionResourceSetupListSUReq{List: []ngapType.PDUSessionResourceSetupItemSUReq{{
		PDUSessionID:                           ngapType.PDUSessionID{Value: 1},
		PDUSessionNASPDU:                       &ngapType.NASPDU{Value: nasPdu},
		SNSSAI:                                 ngapType.SNSSAI{SST: ngapType.SST{Value: aper.OctetString{1}}},
		PDUSessionResourceSetupRequestTransfer: trBytes,
	}}}
	req.ProtocolIEs.List = append(req.ProtocolIEs.List, l)
	b, err := ngap.Encoder(pdu)
	if err != nil {
		t.Fatal(err)
	}
	return b
}

type estResult struct {
	ip, upf string
	teid    uint32
	panic   interface{}
}

func runEstablish(t *testing.T, withPagingPriority bool) estResult {
	conn, amf := n2pair(t)
	ue := testUE("imsi-001010000000001")
	req := setupRequest(t, withPagingPriority)
	go func() {
		amfRecv(amf, 2*time.Second) // UplinkNASTransport[PDU Session Establishment Request]
		_, _ = syscall.Write(amf, req)
		amfRecv(amf, 2*time.Second) // PDUSessionResourceSetupResponse
	}()
	done := make(chan estResult, 1)
	go func() {
		var r estResult
		defer func() { r.panic = recover(); done <- r }()
		ip, teid, upf := EstablishPDU(1, "010203", ue, conn, "10.0.0.9")
		r.ip, r.teid, r.upf = ip.String(), teid, upf.String()
	}()
	select {
	case r := <-done:
		return r
	case <-time.After(5 * time.Second):
		t.Fatal("EstablishPDU did not return")
	}
	return estResult{}
}

// F20: the setup list is read at the fixed position 2 of the IE list. An AMF that includes
// the optional RAN Paging Priority IE (TS 38.413 9.2.1.1) puts it there.
func TestF20(t *testing.T) {
	r := runEstablish(t, false)
	if r.panic != nil || r.ip != "10.0.0.1" || r.upf != "10.9.8.7" || r.teid != 0x01020304 {
		t.Fatalf("baseline (no optional IE): %+v", r)
	}
	r = runEstablish(t, true)
	if r.panic != nil {
		t.Fatalf("with RAN Paging Priority present EstablishPDU panics: %v", r.panic)
	}
	if r.ip != "10.0.0.1" || r.upf != "10.9.8.7" || r.teid != 0x01020304 {
		t.Fatalf("with RAN Paging Priority present EstablishPDU reports %+v", r)
	}
}

// F21: the PDUSessionResourceReleaseResponse is sent 100 ms after the release request without
// reading the AMF's PDUSessionResourceReleaseCommand: an AMF/SMF that needs longer receives
// the successful outcome of a procedure it has not started.
func TestF21(t *testing.T) {
	conn, amf := n2pair(t)
	ue := testUE("imsi-001010000000001")
	got := make(chan string, 1)
	go func() {
		if m := amfRecv(amf, 2*time.Second); m == nil {
			got <- "no release request"
			return
		}
		// the SMF round trip takes 400 ms; nothing has been sent to the gNB yet
		if m := amfRecv(amf, 400*time.Millisecond); m != nil {
			pdu, err := ngap.Decoder(m)
			if err == nil && pdu.Present == ngapType.NGAPPDUPresentSuccessfulOutcome && pdu.SuccessfulOutcome.ProcedureCode.Value == ngapType.ProcedureCodePDUSessionResourceRelease {
				got <- "PDUSessionResourceReleaseResponse received before the AMF sent PDUSessionResourceReleaseCommand"
				return
			}
			got <- "unexpected message"
			return
		}
		got <- "ok"
	}()
	go ReleasePDU(1, "010203", ue, conn)
	if r := <-got; r != "ok" {
		t.Fatal(r)
	}
}

// initialContextSetupRequest as an AMF sends it in answer to a Service Request that arrived in
// a new InitialUEMessage: the AMF-UE-NGAP-ID of the new UE-associated connection.
func initialContextSetupRequest(t *testing.T, amfID int64) []byte {
	var pdu ngapType.NGAPPDU
	pdu.Present = ngapType.NGAPPDUPresentInitiatingMessage
	pdu.InitiatingMessage = new(ngapType.InitiatingMessage)
	pdu.InitiatingMessage.ProcedureCode.Value = ngapType.ProcedureCodeInitialContextSetup
	pdu.InitiatingMessage.Criticality.Value = ngapType.CriticalityPresentReject
	pdu.InitiatingMessage.Value.Present = ngapType.InitiatingMessagePresentInitialContextSetupRequest
	req := new(ngapType.InitialContextSetupRequest)
	pdu.InitiatingMessage.Value.InitialContextSetupRequest = req
	add := func(id int64, crit aper.Enumerated, present int, set func(v *ngapType.InitialContextSetupRequestIEsValue)) {
		ie := ngapType.InitialContextSetupRequestIEs{}
		ie.Id.Value = id
		ie.Criticality.Value = crit
		ie.Value.Present = present
		set(&ie.Value)
		req.ProtocolIEs.List = append(req.ProtocolIEs.List, ie)
	}
	plmn := ngapType.PLMNIdentity{Value: aper.OctetString{0x00, 0xf1, 0x10}}
	add(ngapType.ProtocolIEIDAMFUENGAPID, ngapType.CriticalityPresentReject, ngapType.InitialContextSetupRequestIEsPresentAMFUENGAPID,
		func(v *ngapType.InitialContextSetupRequestIEsValue) { v.AMFUENGAPID = &ngapType.AMFUENGAPID{Value: amfID} })
	add(ngapType.ProtocolIEIDRANUENGAPID, ngapType.CriticalityPresentReject, ngapType.InitialContextSetupRequestIEsPresentRANUENGAPID,
		func(v *ngapType.InitialContextSetupRequestIEsValue) { v.RANUENGAPID = &ngapType.RANUENGAPID{Value: 1} })
	add(ngapType.ProtocolIEIDGUAMI, ngapType.CriticalityPresentReject, ngapType.InitialContextSetupRequestIEsPresentGUAMI,
		func(v *ngapType.InitialContextSetupRequestIEsValue) {
			v.GUAMI = &ngapType.GUAMI{PLMNIdentity: plmn,
				AMFRegionID: ngapType.AMFRegionID{Value: aper.BitString{Bytes: []byte{0xca}, BitLength: 8}},
				AMFSetID:    ngapType.AMFSetID{Value: aper.BitString{Bytes: []byte{0xfe, 0x00}, BitLength: 10}},
				AMFPointer:  ngapType.AMFPointer{Value: aper.BitString{Bytes: []byte{0x00}, BitLength: 6}}}
		})
	add(ngapType.ProtocolIEIDAllowedNSSAI, ngapType.CriticalityPresentReject, ngapType.InitialContextSetupRequestIEsPresentAllowedNSSAI,
		func(v *ngapType.InitialContextSetupRequestIEsValue) {
			v.AllowedNSSAI = &ngapType.AllowedNSSAI{List: []ngapType.AllowedNSSAIItem{{SNSSAI: ngapType.SNSSAI{SST: ngapType.SST{Value: aper.OctetString{1}}}}}}
		})
	add(ngapType.ProtocolIEIDUESecurityCapabilities, ngapType.CriticalityPresentReject, ngapType.InitialContextSetupRequestIEsPresentUESecurityCapabilities,
		func(v *ngapType.InitialContextSetupRequestIEsValue) {
			bs := func() aper.BitString { return aper.BitString{Bytes: []byte{0x20, 0x00}, BitLength: 16} }
			v.UESecurityCapabilities = &ngapType.UESecurityCapabilities{
				NRencryptionAlgorithms:             ngapType.NRencryptionAlgorithms{Value: bs()},
				NRintegrityProtectionAlgorithms:    ngapType.NRintegrityProtectionAlgorithms{Value: bs()},
				EUTRAencryptionAlgorithms:          ngapType.EUTRAencryptionAlgorithms{Value: bs()},
				EUTRAintegrityProtectionAlgorithms: ngapType.EUTRAintegrityProtectionAlgorithms{Value: bs()}}
		})
	add(ngapType.ProtocolIEIDSecurityKey, ngapType.CriticalityPresentReject, ngapType.InitialContextSetupRequestIEsPresentSecurityKey,
		func(v *ngapType.InitialContextSetupRequestIEsValue) {
			v.SecurityKey = &ngapType.SecurityKey{Value: aper.BitString{Bytes: make([]byte, 32), BitLength: 256}}
		})
	b, err := ngap.Encoder(pdu)
	if err != nil {
		t.Fatal(err)
	}
	return b
}

// F23: ServiceRequest opens a new UE-associated NG connection with InitialUEMessage; the AMF
// assigns that connection's AMF-UE-NGAP-ID in InitialContextSetupRequest. The response must
// carry that id, not the one of the connection used at registration.
func TestF23(t *testing.T) {
	conn, amf := n2pair(t)
	ue := testUE("imsi-001010000000001") // AMF-UE-NGAP-ID 7 from registration
	got := make(chan string, 1)
	go func() {
		if m := amfRecv(amf, 2*time.Second); m == nil {
			got <- "no InitialUEMessage"
			return
		}
		_, _ = syscall.Write(amf, initialContextSetupRequest(t, 99))
		m := amfRecv(amf, 3*time.Second)
		pdu, err := ngap.Decoder(m)
		if err != nil || pdu.SuccessfulOutcome == nil || pdu.SuccessfulOutcome.Value.InitialContextSetupResponse == nil {
			got <- fmt.Sprintf("no InitialContextSetupResponse: %v", err)
			return
		}
		for _, ie := range pdu.SuccessfulOutcome.Value.InitialContextSetupResponse.ProtocolIEs.List {
			if ie.Id.Value == ngapType.ProtocolIEIDAMFUENGAPID {
				if ie.Value.AMFUENGAPID.Value != 99 {
					got <- fmt.Sprintf("InitialContextSetupResponse carries AMF-UE-NGAP-ID %d, the AMF assigned 99 to this connection", ie.Value.AMFUENGAPID.Value)
					return
				}
				got <- "ok"
				return
			}
		}
		got <- "no AMF-UE-NGAP-ID in the response"
	}()
	go ServiceRequest(nil, ue, conn, "10.0.0.9")
	select {
	case r := <-got:
		if r != "ok" {
			t.Fatal(r)
		}
	case <-time.After(6 * time.Second):
		t.Fatal("timeout")
	}
}

// F09: PDU session id = SUPI mod 10000. For a SUPI ending in 0300 the NAS request names session
// 300 mod 256 = 44 while the NGAP response is asked to carry 300, which PDUSessionID (0..255)
// cannot hold: the encoder refuses and the emulator exits. Run in a child process because
// ManageError calls os.Exit.
func TestF09(t *testing.T) {
	if os.Getenv("F09_CHILD") == "1" {
		conn, amf := n2pair(t)
		ue := testUE("imsi-001010000000300")
		req := setupRequest(t, false)
		go func() {
			m := amfRecv(amf, 2*time.Second)
			// UL NAS TRANSPORT (7e 00 67), container type, LV-E payload container: 5GSM EPD 0x2e, PSI
			if i := bytes.Index(m, []byte{0x7e, 0x00, 0x67}); i >= 0 && i+8 < len(m) && m[i+6] == 0x2e {
				fmt.Printf("AMF saw NAS PDU session id %d\n", m[i+7])
			}
			_, _ = syscall.Write(amf, req)
			amfRecv(amf, 2*time.Second)
		}()
		EstablishPDU(1, "010203", ue, conn, "10.0.0.9")
		fmt.Println("EstablishPDU returned")
		return
	}
	cmd := exec.Command(os.Args[0], "-test.run=^TestF09$")
	cmd.Env = append(os.Environ(), "F09_CHILD=1")
	out, err := cmd.CombinedOutput()
	t.Logf("child output:\n%s", out)
	if err != nil || !bytes.Contains(out, []byte("EstablishPDU returned")) {
		t.Fatalf("SUPI ...0300: EstablishPDU does not complete (%v)", err)
	}
	if !bytes.Contains(out, []byte("AMF saw NAS PDU session id 300")) && bytes.Contains(out, []byte("AMF saw NAS PDU session id 44")) {
		t.Fatalf("NAS names PDU session 44, NGAP 300")
	}
}
