package rules

import (
	"fmt"
	"go/constant"
	"go/types"
	"strings"

	"golang.org/x/tools/go/ssa"

	"stgverif/internal/core"
)

// R9.ctor.len (DESIGN §11.9): the constructors of nasTestpacket are interpreted up to the point
// where the message is encoded. Every information element that was handed one of the
// constructor's octet-string arguments must then hold exactly that argument — all of its octets,
// with its Len field equal to the argument's length — whoever allocates the buffer (the
// constructor by SetLen, or the setter itself).
func r9ctorLen(c *core.Ctx) {
	const R = "R9.ctor.len"
	c.Rule(R, "nasTestpacket constructors: an IE given a caller's octet string carries all of it, with Len = its length, when the message is encoded")
	sp := c.P.SSAPkg(pNasTP)
	if sp == nil {
		c.Undecided("package nasTestpacket not loaded")
	}
	n := 0
	for _, fn := range allFuncsOf(sp) {
		if fn.Object() == nil || !fn.Object().Exported() || fn.Signature.Recv() != nil || len(fn.Blocks) == 0 {
			continue
		}
		type given struct{ obj, param, setter string }
		var gs []given
		ex := core.NewExec()
		ex.MaxStates = 3000
		ex.Observe = func(ev *core.AEvent) {
			if !strings.HasPrefix(ev.Callee, pNasT+".") || len(ev.Args) < 2 || ev.Args[0].K != core.APtr {
				return
			}
			short := ev.Callee[strings.LastIndexByte(ev.Callee, '.')+1:]
			if !strings.HasPrefix(short, "Set") {
				return
			}
			if short == "SetDNN" {
				// the DNN value is not the argument's octets: nasType.DNN.SetDNN writes the APN-style label
				// coding of TS 23.003 9.1 (length-prefixed labels) and sets Len itself
				return
			}
			for _, a := range ev.Args[1:] {
				// an octet string of unknown length that exists as a whole: a parameter, or the result of another call
				if a.K == core.ASlice && a.Lo == 0 && a.Len < 0 {
					if _, segs := ev.Mem.Seq(a.Path); segs == nil && !strings.HasPrefix(a.Path, "local:") {
						gs = append(gs, given{ev.Args[0].Path, a.Path, short})
					}
				}
			}
		}
		ex.OnCall = func(ev *core.AEvent, _ *core.AMem) (core.AVal, bool) {
			if strings.HasPrefix(ev.Callee, pNas+".Message.") && strings.Contains(ev.Callee, "Encode") {
				ev.Stop = true
				return core.AVal{}, true
			}
			return core.AVal{}, false
		}
		args := core.DefaultArgs(fn)
		outs, err := ex.Run(fn, args, nil)
		if err != nil {
			c.SoftUndecided("R9.ctor.len: nasTestpacket.%s could not be evaluated (%v)", fn.Name(), err)
			continue
		}
		c.Analysed(pNasTP + "." + fn.Name())
		seen := map[string]bool{}
		for _, o := range outs {
			if !o.Stopped {
				continue
			}
			for _, g := range gs {
				if !o.Mem.IsFresh(g.obj) {
					continue // the IE was not built on this path
				}
				buf := o.Mem.Load(g.obj+".Buffer", types.NewSlice(types.Typ[types.Uint8]))
				if buf.K != core.ASlice && buf.K != core.ANil {
					continue // not a Buffer-carrying IE (fixed-size value)
				}
				// only the IEs that were handed the argument on THIS path have the object allocated here
				ln := o.Mem.Load(g.obj+".Len", types.Typ[types.Uint16])
				if ln.K != core.AInt {
					continue
				}
				key := "nasTestpacket." + fn.Name() + ":" + g.setter + "(" + g.param + ")"
				if seen[key] {
					continue
				}
				// was the setter reached on this path? the nil-ness fact of the parameter tells
				if isNil, known := o.Nils[g.param]; known && isNil {
					continue
				}
				seen[key] = true
				n++
				content := strings.Join(sliceContent(o.Mem, buf), ",")
				if buf.K == core.ANil {
					content = "(no buffer)"
				}
				okContent := content == g.param+"[0:]@0"
				okLen := len(ln.Bits) > 0 && ln.Bits.IsCopy(len(ln.Bits)-1, 0, "len("+g.param+")", 0)
				c.Check(okContent && okLen, R, key, fn.Pos(), "Buffer = the argument, Len = len(argument)",
					"%s hands %s to %s, but when the message is encoded the IE holds %s with Len %s: it must carry all octets of %s with Len = len(%s)",
					fn.Name(), g.param, g.setter, clip(content), ln, g.param, g.param)
			}
		}
	}
	c.Floor(R, n, 10)
	r9handmade(c)
}

// r9handmade: a constructor that puts a message together by hand (octets it writes itself, not the
// message's own encoder) has to produce at least the mandatory part of that message: header and
// every mandatory IE of fixed length. Read from the folded constructor: the octets returned are
// constants where the header is, the message type selects the message, the message's struct says
// which IEs are mandatory (non-pointer fields) and how long they are at least.
func r9handmade(c *core.Ctx) {
	const R = "R9.ctor.len"
	sp := c.P.SSAPkg(pNasTP)
	mp := c.P.Pkg(pNasM)
	np := c.P.Pkg(pNas)
	if sp == nil || mp == nil || np == nil {
		return
	}
	byType := map[uint64]string{}
	for _, nme := range np.Types.Scope().Names() {
		if k, ok := np.Types.Scope().Lookup(nme).(*types.Const); ok && strings.HasPrefix(nme, "MsgType") {
			if v, ok := constant.Uint64Val(constant.ToInt(k.Val())); ok {
				byType[v] = strings.TrimPrefix(nme, "MsgType")
			}
		}
	}
	minLen := func(msg string) (int, bool) {
		obj := mp.Types.Scope().Lookup(msg)
		if obj == nil {
			return 0, false
		}
		st, ok := obj.Type().Underlying().(*types.Struct)
		if !ok {
			return 0, false
		}
		total := 0
		for i := 0; i < st.NumFields(); i++ {
			ft := st.Field(i).Type()
			if _, isPtr := ft.Underlying().(*types.Pointer); isPtr {
				continue // optional
			}
			fs, ok := ft.Underlying().(*types.Struct)
			if !ok {
				return 0, false
			}
			for j := 0; j < fs.NumFields(); j++ {
				if fs.Field(j).Name() == "Iei" {
					continue // a mandatory IE is written without its identifier (format V / LV / LV-E)
				}
				switch u := fs.Field(j).Type().Underlying().(type) {
				case *types.Basic:
					switch u.Kind() {
					case types.Uint8:
						total++
					case types.Uint16:
						total += 2
					default:
						return 0, false
					}
				case *types.Array:
					total += int(u.Len())
				case *types.Slice:
					// a value of variable length: at least nothing
				default:
					return 0, false
				}
			}
		}
		return total, true
	}
	nHand := 0
	for _, fn := range allFuncsOf(sp) {
		if fn.Object() == nil || !fn.Object().Exported() || fn.Signature.Recv() != nil || len(fn.Blocks) == 0 || fn.Signature.Results().Len() != 1 {
			continue
		}
		if sl, ok := fn.Signature.Results().At(0).Type().Underlying().(*types.Slice); !ok || !types.Identical(sl.Elem(), types.Typ[types.Uint8]) {
			continue
		}
		// only constructors that never reach the message encoder
		reach := staticReach(fn)
		usesEncoder := false
		for g := range reach {
			if fnPkgPath(g) == pNas && strings.Contains(g.Name(), "Encode") {
				usesEncoder = true
			}
		}
		if usesEncoder {
			continue
		}
		ex := core.NewExec()
		ex.MaxStates = 256
		outs, err := ex.Run(fn, core.DefaultArgs(fn), nil)
		if err != nil {
			continue
		}
		for _, o := range outs {
			if o.Panicked || len(o.Ret) != 1 || o.Ret[0].K != core.ASlice || o.Ret[0].Lo < 0 || o.Ret[0].Len < 3 || o.Ret[0].Len > 64 {
				continue
			}
			cell := func(i int) (uint64, bool) {
				return o.Mem.Load(fmt.Sprintf("%s[%d]", o.Ret[0].Path, o.Ret[0].Lo+i), types.Typ[types.Uint8]).ConstVal()
			}
			epd, ok := cell(0)
			if !ok {
				continue
			}
			ti := 2
			if epd == 0x2e {
				ti = 3
			} else if epd != 0x7e {
				continue
			}
			if o.Ret[0].Len <= ti {
				continue
			}
			mt, ok := cell(ti)
			if !ok {
				continue
			}
			msg, known := byType[mt]
			if !known {
				continue
			}
			want, ok := minLen(msg)
			if !ok {
				continue
			}
			nHand++
			key := "nasTestpacket." + fn.Name() + ":hand-made:" + msg
			c.Check(o.Ret[0].Len >= want, R, key, fn.Pos(), fmt.Sprintf("%d octets written by hand, the mandatory part of %s takes %d", o.Ret[0].Len, msg, want),
				"%s writes the %s message by hand with %d octets, but its header and mandatory IEs (TS 24.501 8.x, the non-optional fields of nasMessage.%s) take at least %d: a mandatory IE is missing", fn.Name(), msg, o.Ret[0].Len, msg, want)
			break
		}
	}
	c.Note("R9.ctor.len: %d constructors put a message together without the message encoder", nHand)
}

var _ *ssa.Function
