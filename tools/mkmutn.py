#!/usr/bin/env python3
"""mkmutn.py <prop> <name> <expect[;expect2]> (<repo-relative-file> <old> <new>)+
Like mkmut.py, but several exact replacements (first occurrence each), possibly in several files."""
import sys, difflib, os
prop, name, expect = sys.argv[1:4]
rest = sys.argv[4:]
assert len(rest) % 3 == 0
files = {}
for i in range(0, len(rest), 3):
    rel, old, new = rest[i:i+3]
    old = old.encode().decode('unicode_escape'); new = new.encode().decode('unicode_escape')
    src = files.get(rel) or open(os.path.join('/repo', rel)).read()
    if old not in src:
        sys.exit("old text not found in %s: %r" % (rel, old))
    files[rel] = src.replace(old, new, 1)
out = os.path.join('/verif/checker/mutants', prop)
os.makedirs(out, exist_ok=True)
with open(os.path.join(out, name + '.diff'), 'w') as f:
    for e in expect.split(';'):
        f.write('# expect: %s\n' % e.strip())
    for rel, dst in files.items():
        src = open(os.path.join('/repo', rel)).read()
        f.writelines(difflib.unified_diff(src.splitlines(True), dst.splitlines(True), 'a/' + rel, 'b/' + rel, n=3))
print("wrote", os.path.join(out, name + '.diff'))
