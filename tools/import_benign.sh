#!/bin/bash
# import_benign.sh <worktree> <k> <id> : copy a behaviour-preserving change written by an independent sub-agent to
# /verif/benign/<id>/, confirm it (demo passes on the clean and on the patched tree; patched tree builds and passes the 93
# tests), then run all 20 quick checks on the patched copy. Every check must exit 0; prints the ones that do not.
set -u
WT=$1; K=$2; ID=$3
DST=/verif/benign/$ID
rm -rf "$DST"; mkdir -p "$DST"; cp -r "$WT/SEED/$K/." "$DST/"; chmod +x "$DST/run_demo.sh"
[ -d "$WT/SEED/common" ] && mkdir -p /verif/benign/${ID%-*}-common && cp -r "$WT/SEED/common/." /verif/benign/${ID%-*}-common/ 2>/dev/null
export GOPROXY=off GOSUMDB=off GOTOOLCHAIN=local; unset GOFLAGS GOWORK
A=$(mktemp -d /tmp/benA.XXXX); B=$(mktemp -d /tmp/benB.XXXX); trap 'rm -rf $A $B' EXIT
rsync -a --exclude .git /repo/ $A/; rsync -a --exclude .git /repo/ $B/
"$DST/run_demo.sh" $A >$A/.demo.log 2>&1; d0=$?
( cd $B && git init -q && git apply "$DST/patch.diff" ) >/dev/null 2>&1; ap=$?
bo=0; for m in . src/free5gclib src/tglib src/stgutg; do ( cd $B/$m && go build ./... ) >>$B/.build.log 2>&1 || bo=1; done
( cd $B/src/free5gclib && go test -vet=off -count=1 ./... ) >$B/.tests.log 2>&1; t=$?
"$DST/run_demo.sh" $B >$B/.demo.log 2>&1; d1=$?
res=""
for i in $(seq -w 1 20); do
  VERIF_REPO=$B VERIF_EVIDENCE_DIR=$B/.ev ${SV:-/verif/bin/stgverif} C$i quick > $B/.out.txt 2>&1; rc=$?
  if [ $rc -ne 0 ]; then res="$res C$i=$rc"; echo "   [$ID] C$i rc=$rc: $(grep '^UNDECIDED\|: R[0-9]' $B/.out.txt | head -2 | cut -c1-330)"; fi
done
echo "{\"id\":\"$ID\",\"clean_demo_passes\":$([ $d0 -eq 0 ] && echo true || echo false),\"patch_applies\":$([ $ap -eq 0 ] && echo true || echo false),\"patched_builds\":$([ $bo -eq 0 ] && echo true || echo false),\"patched_tests_pass\":$([ $t -eq 0 ] && echo true || echo false),\"patched_demo_passes\":$([ $d1 -eq 0 ] && echo true || echo false),\"checks_not_silent\":\"$res\",\"repo_head\":\"$(git -C /repo rev-parse --short HEAD)\"}" > "$DST/confirm.json"
echo "[$ID] demo clean=$d0 apply=$ap build=$bo tests=$t demo patched=$d1 not-silent:[$res]"
