package rules

import (
	"fmt"
	"go/types"
	"strings"

	"stgverif/internal/core"
)

// The encoder side of the NAS message model on the abstract evaluator. The syntax-tree model
// (nasmodel.go) reads `binary.Write(buffer, binary.BigEndian, <operand>)` statements; an encoder that
// moves the same octets with other statements (buffer.WriteByte of the two length octets,
// buffer.Write of the value, a local holding the length, a helper) is outside its vocabulary. For
// those messages Encode<X> is interpreted with every optional IE present: each write into the buffer
// is classified by what it writes (the IEI, the length, the value of which field), which gives the
// same token sequence whatever the spelling. One further run per optional IE with that IE absent
// shows that its octets - and only they - disappear, i.e. that they are written under its nil test.

type encWrite struct {
	tok  nasTok
	half string // "hi" / "lo": one octet of a two-octet length written by WriteByte
}

func nasEncodeRun(c *core.Ctx, name string, st *types.Struct, absent string) ([]encWrite, string) {
	fn := c.P.Func(pNasM, name+".Encode"+name)
	if fn == nil || len(fn.Params) != 2 {
		return nil, "no Encode method with a buffer parameter"
	}
	mem := core.NewMem()
	for i := 0; i < st.NumFields(); i++ {
		f := st.Field(i)
		if _, isPtr := f.Type().Underlying().(*types.Pointer); !isPtr {
			continue
		}
		if f.Name() == absent {
			mem.Store("p0."+f.Name(), core.NilArg(), nil)
		} else {
			mem.Store("p0."+f.Name(), core.AVal{K: core.APtr, Path: "p0." + f.Name(), NonNil: true}, nil)
		}
	}
	ex := core.NewExec()
	ex.MaxStates = 64
	ex.OnCall = func(ev *core.AEvent, _ *core.AMem) (core.AVal, bool) {
		switch ev.Callee {
		case "encoding/binary.Write", "bytes.Buffer.Write", "bytes.Buffer.WriteByte", "bytes.Buffer.WriteString":
			return core.OpaqueRet(ev), true
		}
		return core.AVal{}, false
	}
	args := core.DefaultArgs(fn)
	args[0] = core.NonNilArg(args[0])
	args[1] = core.NonNilArg(args[1])
	outs, err := ex.Run(fn, args, mem)
	if err != nil || len(ex.Unsound) > 0 {
		return nil, fmt.Sprintf("not interpreted (%v %v)", err, ex.Unsound)
	}
	var live []core.AOutcome
	for _, o := range outs {
		if !o.Panicked {
			live = append(live, o)
		}
	}
	if len(live) != 1 {
		return nil, fmt.Sprintf("%d outcomes with every optional IE fixed (a branch on something else than the presence of an IE)", len(live))
	}
	var out []encWrite
	for _, ev := range live[0].Trace {
		var data core.AVal
		switch ev.Callee {
		case "encoding/binary.Write":
			if len(ev.Args) != 3 || ev.Args[0].Path != "p1" {
				return nil, "binary.Write into something else than the buffer parameter"
			}
			data = ev.Args[2]
		case "bytes.Buffer.Write", "bytes.Buffer.WriteByte", "bytes.Buffer.WriteString":
			if len(ev.Args) != 2 || ev.Args[0].Path != "p1" {
				return nil, "a write into something else than the buffer parameter"
			}
			data = ev.Args[1]
		default:
			continue
		}
		out = append(out, encDescribe(data, ev.Callee == "bytes.Buffer.WriteByte", ev.Mem))
	}
	return out, ""
}

// encFieldOf splits p0.F.m into (F, m).
func encFieldOf(path string) (string, string, bool) {
	if !strings.HasPrefix(path, "p0.") {
		return "", "", false
	}
	rest := path[3:]
	i := strings.IndexByte(rest, '.')
	if i <= 0 {
		return "", "", false
	}
	return rest[:i], rest[i+1:], true
}

func encDescribe(v core.AVal, oneOctet bool, mem *core.AMem) encWrite {
	other := func() encWrite {
		return encWrite{tok: nasTok{Field: "?", Part: "Other", Arg: clip(core.ArgName(v))}}
	}
	part := func(f, m, arg string) (encWrite, bool) {
		switch m {
		case "Iei":
			return encWrite{tok: nasTok{Field: f, Part: "Iei"}}, true
		case "Len":
			return encWrite{tok: nasTok{Field: f, Part: "Len"}}, true
		case "Octet", "Buffer":
			if arg == "" {
				arg = m
			}
			return encWrite{tok: nasTok{Field: f, Part: "Value", Arg: arg}}, true
		}
		return encWrite{}, false
	}
	switch v.K {
	case core.APtr:
		if f, m, ok := encFieldOf(v.Path); ok {
			if w, ok := part(f, m, ""); ok {
				return w
			}
		}
	case core.AInt:
		name := core.NameBits(v.Bits)
		if f, m, ok := encFieldOf(name); ok {
			if w, ok := part(f, m, ""); ok && !(oneOctet && m == "Len" && len(v.Bits) != 8) {
				return w
			}
			// one octet of a two-octet length
			if oneOctet && strings.HasPrefix(m, "Len<") {
				switch m {
				case "Len<15:8>":
					return encWrite{tok: nasTok{Field: f, Part: "Len"}, half: "hi"}
				case "Len<7:0>":
					return encWrite{tok: nasTok{Field: f, Part: "Len"}, half: "lo"}
				}
			}
		}
	case core.ASlice:
		if f, m, ok := encFieldOf(v.Path); ok && v.Lo == 0 && (m == "Octet" || m == "Buffer") {
			arg := m
			switch {
			case v.Len >= 0:
				arg = fmt.Sprintf("%s[:%d]", m, v.Len)
			case v.LenName == "p0."+f+".Len":
				arg = m + "[:Len]"
			case v.LenName == "" || strings.HasPrefix(v.LenName, "len("):
				// the whole slice held by the field
			default:
				arg = m + "[:" + v.LenName + "]"
			}
			if w, ok := part(f, m, arg); ok {
				return w
			}
		}
		// a slice made for the call ([]uint8{x.Octet}): what its cells hold
		if mem != nil && v.Lo >= 0 && v.Len >= 1 && v.Len <= 32 && !strings.HasPrefix(v.Path, "p0.") {
			f0, ok0 := "", true
			for i := 0; i < v.Len && ok0; i++ {
				e := mem.Load(fmt.Sprintf("%s[%d]", v.Path, v.Lo+i), nil)
				if e.K != core.AInt {
					ok0 = false
					break
				}
				f, m, ok := encFieldOf(core.NameBits(e.Bits))
				if !ok || (f0 != "" && f != f0) || !(m == fmt.Sprintf("Octet[%d]", i) || (v.Len == 1 && m == "Octet")) {
					ok0 = false
					break
				}
				f0 = f
			}
			if ok0 && f0 != "" {
				return encWrite{tok: nasTok{Field: f0, Part: "Value", Arg: "Octet"}}
			}
		}
	case core.AAgg:
		f0, ok0 := "", len(v.Elems) > 0
		for i, e := range v.Elems {
			if e.K != core.AInt {
				ok0 = false
				break
			}
			f, m, ok := encFieldOf(core.NameBits(e.Bits))
			if !ok || m != fmt.Sprintf("Octet[%d]", i) || (f0 != "" && f != f0) {
				ok0 = false
				break
			}
			f0 = f
		}
		if ok0 {
			return encWrite{tok: nasTok{Field: f0, Part: "Value", Arg: "Octet"}}
		}
	}
	return other()
}

// encJoin turns the writes into tokens: the two octets of a 16-bit length written high octet first
// are one Len token; any other use of a single length octet stays an unknown write.
func encJoin(ws []encWrite) []nasTok {
	var out []nasTok
	for i := 0; i < len(ws); i++ {
		w := ws[i]
		if w.half == "hi" && i+1 < len(ws) && ws[i+1].half == "lo" && ws[i+1].tok.Field == w.tok.Field {
			out = append(out, w.tok)
			i++
			continue
		}
		if w.half != "" {
			out = append(out, nasTok{Field: w.tok.Field, Part: "Other", Arg: "one octet of the length (" + w.half + ")"})
			continue
		}
		out = append(out, w.tok)
	}
	return out
}

// nasEncodeModelX replaces the encoder side of msg by the evaluator's reading. ok is false (and why
// says so) when the encoder could not be read this way either.
func nasEncodeModelX(c *core.Ctx, m *nasModel, msg *nasMsg) (ok bool, why string) {
	obj := m.pkg.Types.Scope().Lookup(msg.Name)
	if obj == nil {
		return false, "message type not found"
	}
	st, isS := obj.Type().Underlying().(*types.Struct)
	if !isS {
		return false, "message type is not a struct"
	}
	all, bad := nasEncodeRun(c, msg.Name, st, "")
	if bad != "" {
		return false, bad
	}
	toks := encJoin(all)
	byField := map[string]*nasIE{}
	for _, ie := range msg.IEs {
		byField[ie.Field] = ie
	}
	var mand []nasTok
	opt := map[string][]nasTok{}
	var order []string
	for _, t := range toks {
		ie := byField[t.Field]
		if ie != nil && ie.Optional {
			if len(opt[t.Field]) == 0 {
				order = append(order, t.Field)
			} else if order[len(order)-1] != t.Field {
				return false, "the octets of optional IE " + t.Field + " are not written in one run"
			}
			opt[t.Field] = append(opt[t.Field], t)
			continue
		}
		if len(order) > 0 && t.Part != "Other" {
			return false, "mandatory field " + t.Field + " written after an optional IE"
		}
		if len(order) > 0 {
			// an unknown write inside the optional part belongs to the IE being written
			f := order[len(order)-1]
			t.Field = f
			opt[f] = append(opt[f], t)
			continue
		}
		mand = append(mand, t)
	}
	// each optional IE under its own nil test: without it exactly its octets are missing
	render := func(ts []nasTok) string {
		var s []string
		for _, t := range ts {
			s = append(s, t.String())
		}
		return strings.Join(s, " ")
	}
	for _, f := range order {
		without, bad := nasEncodeRun(c, msg.Name, st, f)
		if bad != "" {
			return false, "without " + f + ": " + bad
		}
		var want []nasTok
		for _, t := range toks {
			if ie := byField[t.Field]; ie != nil && ie.Optional && t.Field == f {
				continue
			}
			want = append(want, t)
		}
		// unknown writes attributed to f above carry Field "?" in toks: drop those that sit inside f's run
		var want2 []nasTok
		inRun := false
		for _, t := range toks {
			if t.Field == f {
				inRun = true
				continue
			}
			if t.Field == "?" && inRun {
				continue
			}
			if t.Field != "?" {
				inRun = false
			}
			want2 = append(want2, t)
		}
		got := render(encJoin(without))
		if got != render(want) && got != render(want2) {
			return false, fmt.Sprintf("with %s absent the encoder writes [%s], want the full sequence without that IE's octets", f, clip(got))
		}
	}
	msg.EncMand = mand
	msg.EncOrder = order
	for _, ie := range msg.IEs {
		if ie.Optional {
			ie.Enc = opt[ie.Field]
		}
	}
	var keep []string
	for _, p := range msg.Problems {
		if !strings.HasPrefix(p, "encode:") {
			keep = append(keep, p)
		}
	}
	msg.Problems = keep
	return true, ""
}

// nasEncodeNeedsX: the syntax-tree model did not read the whole encoder.
func nasEncodeNeedsX(msg *nasMsg) bool {
	for _, p := range msg.Problems {
		if strings.HasPrefix(p, "encode:") {
			return true
		}
	}
	for _, t := range msg.EncMand {
		if t.Part == "Other" {
			return true
		}
	}
	for _, ie := range msg.IEs {
		for _, t := range ie.Enc {
			if t.Part == "Other" {
				return true
			}
		}
	}
	return false
}
