package rules

import (
	"fmt"
	"strings"

	"golang.org/x/tools/go/ssa"

	"stgverif/internal/core"
)

// How NEA1 / NIA1 use the SNOW 3G generator, read off the evaluator's traces: the function is
// interpreted with InitSnow3g and GenerateKeystream recorded (helpers of package security entered,
// loops with a symbolic bound iterated once symbolically), so a key/IV set-up or a keystream request
// moved into a helper is the same event in the same place of the trace.

type snowUse struct {
	ok        bool // the function was interpreted
	why       string
	nOuts     int
	initFirst bool       // on every path: exactly one InitSnow3g, before the first GenerateKeystream
	oneGen    bool       // on every path: exactly one GenerateKeystream, none inside a loop
	minGen    int        // fewest GenerateKeystream calls on a path
	genInLoop bool       // a GenerateKeystream inside a symbolically iterated loop
	nWords    []core.AVal // the word count requested on each path (oneGen)
	genPos    ssa.Instruction
}

var snowUseCache = map[*ssa.Function]snowUse{}

func snowUseX(fn *ssa.Function) snowUse {
	if u, ok := snowUseCache[fn]; ok {
		return u
	}
	ex := core.NewExec()
	ex.MaxStates = 512
	// loops whose bound does not fold are followed for no or one iteration: enough to see every call
	// site once, in its place; a generator call that sits inside a loop is recognised by its site
	ex.LoopBound = 1
	ex.OnCall = func(ev *core.AEvent, m *core.AMem) (core.AVal, bool) {
		switch {
		case ev.Callee == pSnow+".InitSnow3g":
			return core.AVal{K: core.ATuple}, true
		case ev.Callee == pSnow+".GenerateKeystream":
			return core.AVal{K: core.ATuple}, true
		case ev.Callee == pSec+".mul":
			return core.OpaqueRet(ev), true
		case strings.HasPrefix(ev.Callee, "fmt."), strings.HasPrefix(ev.Callee, "log."):
			return core.OpaqueRet(ev), true
		}
		return core.AVal{}, false
	}
	outs, err := ex.Run(fn, core.DefaultArgs(fn), nil)
	u := snowUse{}
	if err != nil || len(ex.Unsound) > 0 {
		u.why = fmt.Sprintf("%v %v", err, ex.Unsound)
		snowUseCache[fn] = u
		return u
	}
	u.ok, u.initFirst, u.oneGen, u.minGen = true, true, true, 1<<30
	inLoop := func(in ssa.Instruction) bool {
		b := in.Block()
		for _, s := range b.Succs {
			if core.Reaches(s, b) {
				return true
			}
		}
		return false
	}
	for _, o := range outs {
		if o.Panicked {
			continue
		}
		// paths that return an error before touching the generator (argument checks) owe nothing
		nI, nG, firstG, firstI := 0, 0, -1, -1
		for i := range o.Trace {
			switch o.Trace[i].Callee {
			case pSnow + ".InitSnow3g":
				if firstI < 0 {
					firstI = i
				}
				nI++
			case pSnow + ".GenerateKeystream":
				if firstG < 0 {
					firstG = i
				}
				nG++
				if inLoop(o.Trace[i].Site) {
					u.genInLoop = true
				}
				if len(o.Trace[i].Args) == 2 {
					u.nWords = append(u.nWords, o.Trace[i].Args[0])
				}
				if u.genPos == nil {
					u.genPos = o.Trace[i].Site
				}
			}
		}
		if nI == 0 && nG == 0 {
			continue
		}
		u.nOuts++
		if nI != 1 || firstG < 0 || firstI > firstG {
			u.initFirst = false
		}
		if nG != 1 {
			u.oneGen = false
		}
		if nG < u.minGen {
			u.minGen = nG
		}
	}
	if u.nOuts == 0 {
		u.initFirst, u.oneGen, u.minGen = false, false, 0
	}
	if u.genInLoop {
		u.oneGen = false
	}
	snowUseCache[fn] = u
	return u
}
