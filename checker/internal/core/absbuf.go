package core

import (
	"fmt"
	"go/types"
	"strings"

	"golang.org/x/tools/go/ssa"
)

// bytes.Buffer as an output stream (DESIGN §11.11): the content written so far is an abstract
// slice kept in the cell "<buffer>.$stream"; Write / WriteByte / WriteString and encoding/binary.Write
// append to it (fixed-width integers big- or little-endian, arrays and slices of octets as they
// are), Bytes hands it out. Writing never fails. Reads are not modelled (a buffer that is read
// from stays opaque).

func isBytesBuffer(t types.Type) bool {
	if p, ok := t.Underlying().(*types.Pointer); ok {
		t = p.Elem()
	}
	n, ok := t.(*types.Named)
	return ok && n.Obj().Pkg() != nil && n.Obj().Pkg().Path() == "bytes" && n.Obj().Name() == "Buffer"
}

func (ex *Exec) streamOf(s *astate, buf AVal) (AVal, bool) {
	if buf.K != APtr || buf.Sym {
		return AVal{}, false
	}
	if v, ok := s.mem.cells[buf.Path+".$stream"]; ok {
		return v, true
	}
	if s.mem.isFresh(buf.Path) {
		return AVal{K: ANil}, true // nothing written yet
	}
	return AVal{}, false
}

// streamAppend appends the described content to the buffer's stream.
func (ex *Exec) streamAppend(s *astate, fn string, buf AVal, pre []AVal, segs []ASeg) bool {
	cur, ok := ex.streamOf(s, buf)
	if !ok {
		return false
	}
	u8 := types.Typ[types.Uint8]
	pa, sa, okA := s.mem.describe(cur, u8)
	if !okA {
		return false
	}
	s.serial++
	nm := fmt.Sprintf("local:%s.stream#%d", fn, s.serial)
	s.mem.fresh[nm] = true
	prefix := pa
	var out []ASeg
	if len(sa) == 0 {
		prefix = append(append([]AVal(nil), pa...), pre...)
		out = segs
	} else {
		out = append(out, sa...)
		if len(pre) > 0 {
			out = append(out, ASeg{Cells: pre})
		}
		out = append(out, segs...)
	}
	for i, v := range prefix {
		s.mem.Store(fmt.Sprintf("%s[%d]", nm, i), v, u8)
	}
	nv := AVal{K: ASlice, Path: nm, Lo: 0, Len: len(prefix), NonNil: true}
	if len(out) > 0 {
		s.mem.from[nm] = len(prefix)
		s.mem.Seqs[nm] = out
		nv.Len = -1
	}
	s.mem.cells[buf.Path+".$stream"] = nv
	return true
}

// encodeForStream renders a value written with encoding/binary.Write: the octets of fixed-size data.
func (ex *Exec) encodeForStream(s *astate, data AVal, t types.Type, big bool) ([]AVal, []ASeg, bool) {
	if p, ok := t.Underlying().(*types.Pointer); ok {
		if data.K != APtr || data.Sym {
			return nil, nil, false
		}
		v := s.mem.Load(data.Path, p.Elem())
		registerSources(v)
		return ex.encodeForStream(s, v, p.Elem(), big)
	}
	switch u := t.Underlying().(type) {
	case *types.Basic:
		w := widthOf(t)
		if w == 0 || w%8 != 0 || data.K != AInt || len(data.Bits) != w {
			return nil, nil, false
		}
		n := w / 8
		out := make([]AVal, n)
		for i := 0; i < n; i++ {
			pos := i
			if big {
				pos = n - 1 - i
			}
			out[i] = AVal{K: AInt, Bits: append(BitVec(nil), data.Bits[8*pos:8*pos+8]...)}
		}
		return out, nil, true
	case *types.Array:
		if data.K != AAgg {
			return nil, nil, false
		}
		var out []AVal
		for _, e := range data.Elems {
			p, sg, ok := ex.encodeForStream(s, e, u.Elem(), big)
			if !ok || len(sg) > 0 {
				return nil, nil, false
			}
			out = append(out, p...)
		}
		return out, nil, true
	case *types.Slice:
		if b, ok := u.Elem().Underlying().(*types.Basic); !ok || (b.Kind() != types.Uint8 && b.Kind() != types.Int8) {
			return nil, nil, false
		}
		p, sg, ok := s.mem.describe(data, types.Typ[types.Uint8])
		return p, sg, ok
	}
	return nil, nil, false
}

// bufferIntrinsic handles the bytes.Buffer methods and encoding/binary.Write into a bytes.Buffer.
func (ex *Exec) bufferIntrinsic(s *astate, fr *aframe, name string, args []AVal, x *ssa.Call) (AVal, bool) {
	fn := fr.fn.Name()
	nilErr := AVal{K: ANil}
	switch name {
	case "bytes.Buffer.Write", "bytes.Buffer.WriteString":
		if len(args) == 2 {
			p, sg, ok := s.mem.describe(args[1], types.Typ[types.Uint8])
			if ok && ex.streamAppend(s, fn, args[0], p, sg) {
				n := AVal{K: AInt, Bits: append(mixVec(63), Bit{Kind: BZero})}
				if len(sg) == 0 {
					n = AVal{K: AInt, Bits: constBits(uint64(len(p)), 64)}
				}
				return AVal{K: ATuple, Elems: []AVal{n, nilErr}}, true
			}
		}
	case "bytes.Buffer.WriteByte":
		if len(args) == 2 && args[1].K == AInt && len(args[1].Bits) == 8 {
			if ex.streamAppend(s, fn, args[0], []AVal{args[1]}, nil) {
				return nilErr, true
			}
		}
	case "bytes.Buffer.Bytes":
		if len(args) == 1 {
			if cur, ok := ex.streamOf(s, args[0]); ok {
				return cur, true
			}
		}
	case "bytes.Buffer.Len":
		if len(args) == 1 {
			if cur, ok := ex.streamOf(s, args[0]); ok {
				if cur.K == ANil {
					return AVal{K: AInt, Bits: constBits(0, 64)}, true
				}
				if cur.K == ASlice && cur.Len >= 0 {
					return AVal{K: AInt, Bits: constBits(uint64(cur.Len), 64)}, true
				}
			}
		}
	case "encoding/binary.Write":
		if len(args) == 3 {
			wi, okW := x.Call.Args[0].(*ssa.MakeInterface)
			di, okD := x.Call.Args[2].(*ssa.MakeInterface)
			if okW && okD && isBytesBuffer(wi.X.Type()) {
				big := true
				if oi, ok := x.Call.Args[1].(*ssa.MakeInterface); ok {
					if ld, ok := oi.X.(*ssa.UnOp); ok {
						if g, ok := ld.X.(*ssa.Global); ok && strings.Contains(g.Name(), "Little") {
							big = false
						}
					}
				}
				p, sg, ok := ex.encodeForStream(s, args[2], di.X.Type(), big)
				if ok && ex.streamAppend(s, fn, args[0], p, sg) {
					return nilErr, true
				}
			}
		}
	}
	return AVal{}, false
}
