package rules

import (
	"fmt"
	"go/token"
	"go/types"
	"strings"

	"golang.org/x/tools/go/ssa"

	"stgverif/internal/core"
)

// Evaluator-based rules of C07 (DESIGN §11.1): the functions are interpreted over the
// bit-provenance domain (core.Exec), so the facts below are read off the abstract final
// state / the abstract arguments at a call, whatever statements, loops or helpers produce
// them.

// evalStop interprets fn and ends every path at the first call of one of stopAt; record
// lists callees that are noted in the trace but otherwise stay opaque.
func evalStop(fn *ssa.Function, args []core.AVal, stopAt, record []string) ([]core.AOutcome, *core.Exec, error) {
	ex := core.NewExec()
	ex.OnCall = func(ev *core.AEvent, _ *core.AMem) (core.AVal, bool) {
		for _, s := range stopAt {
			if ev.Callee == s {
				ev.Stop = true
				return core.AVal{}, true
			}
		}
		for _, s := range record {
			if ev.Callee == s {
				return core.OpaqueRet(ev), true
			}
		}
		return core.AVal{}, false
	}
	outs, err := ex.Run(fn, args, nil)
	return outs, ex, err
}

func eventsOf(outs []core.AOutcome, callee string) []core.AEvent {
	var evs []core.AEvent
	for _, o := range outs {
		for _, ev := range o.Trace {
			if ev.Callee == callee {
				evs = append(evs, ev)
			}
		}
	}
	return evs
}

// keepExcept enters every repository function except the named ones.
func keepExcept(names ...string) func(*ssa.Function) bool {
	keep := map[string]bool{}
	for _, n := range names {
		keep[n] = true
	}
	return func(f *ssa.Function) bool { return core.RepoFunc(f) && !keep[f.Name()] }
}

// xorTerms returns the renamed terms of one bit.
func xorTermsOK(b core.Bit, names map[string]string, want map[string]bool) (bool, []string) {
	got := bitTermsRenamed(b, names)
	ok := len(got) == len(want)
	for _, g := range got {
		if !want[g] {
			ok = false
		}
	}
	return ok, got
}

// ---------------------------------------------------------------- MULalpha / DIValpha / S1 / S2
func r7constX(c *core.Ctx) {
	const R = "R7.const"
	for _, t := range []struct {
		name string
		exps [4]int64
	}{{"mulAlpha", [4]int64{23, 245, 48, 239}}, {"divAlpha", [4]int64{16, 39, 6, 64}}} {
		fn := mustFunc(c, pSnow, t.name)
		ex := core.NewExec()
		ex.Enter = keepExcept("mulxPow")
		outs, err := ex.Run(fn, core.DefaultArgs(fn), nil)
		if err != nil || len(outs) != 1 || len(outs[0].Ret) != 1 || outs[0].Ret[0].K != core.AInt {
			if bad, decided := byPartition(fn, 256, nil, func(a []uint64) uint64 {
				var w uint64
				for k := 0; k < 4; k++ {
					w = w<<8 | specMulxPow(a[0], t.exps[k], 0xa9)
				}
				return w
			}); decided {
				c.Check(bad == "", R, "snow3g."+t.name, fn.Pos(), "MULxPOW in bytes 3..0 (each of the 256 arguments folded)", "%s must be MULxPOW(c,%v,0xA9) in bytes 3..0: %s", t.name, t.exps, bad)
				continue
			}
			c.SoftUndecided("R7.const: %s could not be evaluated to one value (%v, %d outcomes)", t.name, err, len(outs))
			continue
		}
		b := outs[0].Ret[0].Bits
		ok := len(b) == 32
		var want []string
		for k := 0; k < 4 && ok; k++ {
			src := fmt.Sprintf("call:%s.mulxPow(p0,%d,169)", pSnow, t.exps[k])
			hi := 31 - 8*k
			want = append(want, fmt.Sprintf("[%d:%d]=MULxPOW(c,%d,0xA9)", hi, hi-7, t.exps[k]))
			if !b.IsCopy(hi, hi-7, src, 0) {
				ok = false
			}
		}
		if !ok {
			// not spelled through mulxPow (a table, a loop): the function has 256 arguments; each is folded
			if bad, decided := byPartition(fn, 256, nil, func(a []uint64) uint64 {
				var w uint64
				for k := 0; k < 4; k++ {
					w = w<<8 | specMulxPow(a[0], t.exps[k], 0xa9)
				}
				return w
			}); decided {
				c.Check(bad == "", R, "snow3g."+t.name, fn.Pos(), strings.Join(want, " ")+" (each of the 256 arguments folded)", "%s must be MULxPOW(c,%v,0xA9) in bytes 3..0: %s", t.name, t.exps, bad)
				continue
			}
		}
		c.Check(ok, R, "snow3g."+t.name, fn.Pos(), strings.Join(want, " "), "%s must be MULxPOW(c,%v,0xA9) in bytes 3..0, is %s", t.name, t.exps, b.Describe())
	}
	for _, t := range []struct {
		name, box string
		poly      int64
	}{{"s1", "sr", 0x1b}, {"s2", "sq", 0x69}} {
		fn := mustFunc(c, pSnow, t.name)
		if r7mixColumnBits(c, R, fn, t.name, t.box, uint64(t.poly)) {
			continue
		}
		ex := core.NewExec()
		ex.Enter = keepExcept("mulx")
		outs, err := ex.Run(fn, core.DefaultArgs(fn), nil)
		if err != nil || len(outs) != 1 || len(outs[0].Ret) != 1 || outs[0].Ret[0].K != core.AInt {
			c.SoftUndecided("R7.const: %s could not be evaluated to one value (%v, %d outcomes)", t.name, err, len(outs))
			continue
		}
		b := outs[0].Ret[0].Bits
		names := map[string]string{}
		for k, idx := range []string{"p0<31:24>", "p0<23:16>", "p0<15:8>", "p0<7:0>"} {
			s := "global:" + pSnow + "." + t.box + "[" + idx + "]"
			names[s] = fmt.Sprintf("S%d", k)
			names[fmt.Sprintf("call:%s.mulx(%s,%d)", pSnow, s, t.poly)] = fmt.Sprintf("M%d", k)
		}
		want := [4][]string{
			{"M0", "S1", "S2", "M3", "S3"},
			{"M0", "S0", "M1", "S2", "S3"},
			{"S0", "M1", "S1", "M2", "S3"},
			{"S0", "S1", "M2", "S2", "M3"},
		}
		ok := len(b) == 32
		detail := ""
		for k := 0; k < 4 && ok; k++ {
			hi := 31 - 8*k
			for i := 0; i < 8 && ok; i++ {
				w := map[string]bool{}
				for _, n := range want[k] {
					w[fmt.Sprintf("%s.%d", n, i)] = true
				}
				good, got := xorTermsOK(b[hi-7+i], names, w)
				if !good {
					ok = false
					detail = fmt.Sprintf("byte r%d bit %d is %v, want XOR of %v", k, i, got, want[k])
				}
			}
		}
		c.Check(ok, R, "snow3g."+t.name, fn.Pos(), "MixColumn of the S-box outputs: r0=2·a0+a1+a2+3·a3, r1=3·a0+2·a1+a2+a3, r2=a0+3·a1+2·a2+a3, r3=a0+a1+3·a2+2·a3",
			"%s: %s", t.name, detail)
	}
}

// r7mixColumnBits: S1/S2 with MULx entered: every result bit is an XOR of S-box output bits, and
// which ones follows from the MixColumn matrix and the reduction constant (2·a has bit i =
// a.(i-1) xor a.7 where the constant has bit i). Whatever spelling of MULx and whatever grouping of
// the sums (mulx(a^b) for mulx(a)^mulx(b)) gives the same sets. Reports true when it decided (ok).
func r7mixColumnBits(c *core.Ctx, R string, fn *ssa.Function, name, box string, poly uint64) bool {
	ex := core.NewExec()
	ex.Merge = true
	outs, err := ex.Run(fn, core.DefaultArgs(fn), nil)
	if err != nil || len(outs) != 1 || len(outs[0].Ret) != 1 || outs[0].Ret[0].K != core.AInt || len(outs[0].Ret[0].Bits) != 32 {
		return false
	}
	b := outs[0].Ret[0].Bits
	names := map[string]string{}
	for k, idx := range []string{"p0<31:24>", "p0<23:16>", "p0<15:8>", "p0<7:0>"} {
		names["global:"+pSnow+"."+box+"["+idx+"]"] = fmt.Sprintf("S%d", k)
	}
	coef := [4][4]int{{2, 1, 1, 3}, {3, 2, 1, 1}, {1, 3, 2, 1}, {1, 1, 3, 2}}
	for k := 0; k < 4; k++ {
		hi := 31 - 8*k
		for i := 0; i < 8; i++ {
			w := map[string]bool{}
			flip := func(t string) {
				if w[t] {
					delete(w, t)
				} else {
					w[t] = true
				}
			}
			for j := 0; j < 4; j++ {
				if coef[k][j]&1 != 0 {
					flip(fmt.Sprintf("S%d.%d", j, i))
				}
				if coef[k][j]&2 != 0 {
					if i >= 1 {
						flip(fmt.Sprintf("S%d.%d", j, i-1))
					}
					if poly>>uint(i)&1 != 0 {
						flip(fmt.Sprintf("S%d.7", j))
					}
				}
			}
			if good, _ := xorTermsOK(b[hi-7+i], names, w); !good {
				return false
			}
		}
	}
	c.Ok(R, "snow3g."+name, fn.Pos(), "MixColumn of the S-box outputs: r0=2·a0+a1+a2+3·a3, r1=3·a0+2·a1+a2+a3, r2=a0+3·a1+2·a2+a3, r3=a0+a1+3·a2+2·a3 (bit by bit, MULx entered)")
	return true
}

// ---------------------------------------------------------------- LFSR modes and FSM
func r7lfsrX(c *core.Ctx) {
	const R = "R7.lfsr"
	S := func(i int) string { return fmt.Sprintf("global:%s.lfsr.s[%d]", pSnow, i) }
	clk := snowClockFns(c)
	for _, t := range []struct {
		name  string
		withF bool
	}{{"lfsrInitialisationMode", true}, {"lfsrKeystreamMode", false}} {
		// the function is found by its role (c07roles.go); the obligation keeps the reference tree's name
		fn := clk.init
		if !t.withF {
			fn = clk.ks
		}
		if fn == nil {
			c.SoftUndecided("R7.lfsr: the %s LFSR clock was not found by its role (the function InitSnow3g / GenerateKeystream calls to step the register)", map[bool]string{true: "initialisation-mode", false: "keystream-mode"}[t.withF])
			continue
		}
		key := "snow3g." + t.name
		ex := core.NewExec()
		ex.Enter = keepExcept("mulAlpha", "divAlpha")
		args := core.DefaultArgs(fn)
		if !t.withF && len(fn.Params) == 1 {
			if !clk.ksZeroArg {
				c.SoftUndecided("R7.lfsr: the keystream-mode clock %s takes a parameter that GenerateKeystream does not set to the constant 0", fn.Name())
				continue
			}
			args[0] = core.AVal{K: core.AInt, Bits: core.ConstBits(0, 32)}
		}
		outs, err := ex.Run(fn, args, nil)
		if err != nil || len(outs) != 1 || len(ex.Unsound) > 0 {
			c.SoftUndecided("R7.lfsr: %s could not be evaluated to one final state (%v, %d outcomes, %v)", t.name, err, len(outs), ex.Unsound)
			continue
		}
		m := outs[0].Mem
		cell := func(i int) core.BitVec {
			v := m.Load(S(i), nil)
			if v.K != core.AInt {
				return nil
			}
			return v.Bits
		}
		b := cell(15)
		mulA := fmt.Sprintf("call:%s.mulAlpha(%s<31:24>)", pSnow, S(0))
		divA := fmt.Sprintf("call:%s.divAlpha(%s<7:0>)", pSnow, S(11))
		names := map[string]string{S(0): "s0", S(2): "s2", S(11): "s11", mulA: "MULa", divA: "DIVa", "p0": "F"}
		ok := b != nil && len(b) == 32
		detail := "lfsr.s[15] is not written"
		for i := 0; i < 32 && ok; i++ {
			w := map[string]bool{fmt.Sprintf("MULa.%d", i): true, fmt.Sprintf("s2.%d", i): true, fmt.Sprintf("DIVa.%d", i): true}
			if i >= 8 {
				w[fmt.Sprintf("s0.%d", i-8)] = true
			}
			if i+8 < 32 {
				w[fmt.Sprintf("s11.%d", i+8)] = true
			}
			if t.withF {
				w[fmt.Sprintf("F.%d", i)] = true
			}
			good, got := xorTermsOK(b[i], names, w)
			if !good {
				ok = false
				detail = fmt.Sprintf("bit %d of the new s15 is %v", i, got)
			}
		}
		want := "v = (s0<<8) ^ MULa(s0>>24) ^ s2 ^ (s11>>8) ^ DIVa(s11&0xff)"
		if t.withF {
			want += " ^ F"
		}
		c.Check(ok, R, key+":feedback", fn.Pos(), want, "LFSR feedback must be %s; %s", want, detail)
		okShift := true
		bad := ""
		for i := 0; i < 15; i++ {
			bi := cell(i)
			if bi == nil || len(bi) != 32 || !bi.IsCopy(31, 0, S(i+1), 0) {
				okShift = false
				bad = fmt.Sprintf("s[%d] becomes %s", i, bi.Describe())
				break
			}
		}
		c.Check(okShift, R, key+":shift", fn.Pos(), "s[i] = s[i+1] for i = 0..14", "LFSR shift must move s[i+1] into s[i] for i = 0..14 (%s)", bad)
	}
	// clockFsm
	{
		fn := mustFunc(c, pSnow, "clockFsm")
		ex := core.NewExec()
		ex.Enter = keepExcept("s1", "s2")
		outs, err := ex.Run(fn, core.DefaultArgs(fn), nil)
		if err != nil || len(outs) != 1 || len(outs[0].Ret) != 1 || len(ex.Unsound) > 0 {
			c.SoftUndecided("R7.lfsr: clockFsm could not be evaluated to one final state (%v, %d outcomes)", err, len(outs))
		} else {
			R0, R1, R2 := "global:"+pSnow+".fsm.r[0]", "global:"+pSnow+".fsm.r[1]", "global:"+pSnow+".fsm.r[2]"
			m := outs[0].Mem
			name := func(v core.AVal) string {
				if v.K != core.AInt {
					return "?"
				}
				return core.NameBits(v.Bits)
			}
			// F = (s15 + R1) ^ R2 ; R1' = R2 + (R3 ^ s5) ; R2' = S1(R1) ; R3' = S2(R2) — all of the old values
			add := func(a, b string) string {
				if b < a {
					a, b = b, a
				}
				return "(" + a + "+" + b + ")"
			}
			xor := func(a, b string) string {
				if b < a {
					a, b = b, a
				}
				return "(" + a + "⊕" + b + ")"
			}
			wantF := xor(add(R0, "p0"), R1)
			wantR0 := add(R1, xor(R2, "p1"))
			wantR1 := "call:" + pSnow + ".s1(" + R0 + ")"
			wantR2 := "call:" + pSnow + ".s2(" + R1 + ")"
			gF, g0, g1, g2 := name(outs[0].Ret[0]), name(m.Load(R0, nil)), name(m.Load(R1, nil)), name(m.Load(R2, nil))
			ok := gF == wantF && g0 == wantR0 && g1 == wantR1 && g2 == wantR2
			c.Check(ok, R, "snow3g.clockFsm", fn.Pos(), "F=(s15+R1)^R2; r=R2+(R3^s5); R3=S2(R2); R2=S1(R1); R1=r",
				"FSM clock must be F=(s15+R1)^R2, R1'=R2+(R3^s5), R2'=S1(R1), R3'=S2(R2) with old register values; found F=%s r0'=%s r1'=%s r2'=%s", gF, g0, g1, g2)
		}
	}
}

// ---------------------------------------------------------------- InitSnow3g
func r7initX(c *core.Ctx) {
	const R, RF = "R7.init", "R7.fresh"
	fn := mustFunc(c, pSnow, "InitSnow3g")
	S := func(i int) string { return fmt.Sprintf("global:%s.lfsr.s[%d]", pSnow, i) }
	RR := func(i int) string { return fmt.Sprintf("global:%s.fsm.r[%d]", pSnow, i) }
	type load struct {
		k   int
		neg bool
		iv  int // -1 none
	}
	want := []load{{0, true, -1}, {1, true, -1}, {2, true, -1}, {3, true, -1}, {0, false, -1}, {1, false, -1}, {2, false, -1}, {3, false, -1},
		{0, true, -1}, {1, true, 3}, {2, true, 2}, {3, true, -1}, {0, false, 1}, {1, false, -1}, {2, false, -1}, {3, false, 0}}
	// the clocks are summarised: clockFsm returns F#n and rewrites the FSM, the LFSR clock rewrites all cells
	ex := core.NewExec()
	nClk, nLfsr := 0, 0
	clkInit, clkKs := pSnow+".lfsrInitialisationMode", pSnow+".lfsrKeystreamMode"
	if ck := snowClockFns(c); ck.init != nil {
		clkInit = core.FuncName(ck.init)
		if ck.ks != nil {
			clkKs = core.FuncName(ck.ks)
		}
	}
	ex.OnCall = func(ev *core.AEvent, m *core.AMem) (core.AVal, bool) {
		switch ev.Callee {
		case pSnow + ".clockFsm":
			nClk++
			for i := 0; i < 3; i++ {
				m.Store(RR(i), core.ArgBits(fmt.Sprintf("R%d@%d", i, nClk), 32, 32), nil)
			}
			return core.ArgBits(fmt.Sprintf("F@%d", nClk), 32, 32), true
		case clkInit, clkKs:
			nLfsr++
			for i := 0; i < 16; i++ {
				m.Store(S(i), core.ArgBits(fmt.Sprintf("s%d@%d", i, nLfsr), 32, 32), nil)
			}
			return core.AVal{K: core.ATuple}, true
		}
		return core.AVal{}, false
	}
	outs, err := ex.Run(fn, core.DefaultArgs(fn), nil)
	if err != nil || len(outs) != 1 || len(ex.Unsound) > 0 {
		c.SoftUndecided("R7.init: InitSnow3g could not be evaluated to one path (%v, %d outcomes, %v)", err, len(outs), ex.Unsound)
		return
	}
	tr := outs[0].Trace
	if len(tr) == 0 {
		c.Fail(R, "snow3g.InitSnow3g:32-clocks", fn.Pos(), "initialisation never clocks the generator")
		return
	}
	first := tr[0].Mem // memory when the first clock is called
	written := 0
	for i, w := range want {
		key := fmt.Sprintf("snow3g.InitSnow3g:s%d", i)
		v := first.Load(S(i), nil)
		if v.K != core.AInt {
			c.Fail(R, key, fn.Pos(), "lfsr.s[%d] is not assigned before the first clock", i)
			continue
		}
		written++
		b := v.Bits
		srcs := []core.SrcRef{{Path: fmt.Sprintf("p0[%d]", w.k)}}
		desc := fmt.Sprintf("k%d", w.k)
		if w.neg {
			desc += "^1s"
		}
		if w.iv >= 0 {
			srcs = append(srcs, core.SrcRef{Path: fmt.Sprintf("p1[%d]", w.iv)})
			desc += fmt.Sprintf("^IV%d", w.iv)
		}
		c.Check(len(b) == 32 && b.IsXorOf(31, 0, w.neg, srcs...), R, key, fn.Pos(), desc, "s%d must be %s (TS 35.216 3.4.1), is %s", i, desc, b.Describe())
	}
	c.Check(written == 16, RF, "snow3g.InitSnow3g:lfsr-all-cells", fn.Pos(), "16/16 cells written before the first clock", "only %d of 16 LFSR cells are written before the first clock", written)
	cleared := map[int]bool{}
	for i := 0; i < 3; i++ {
		if k, ok := first.Load(RR(i), nil).ConstVal(); ok && k == 0 {
			cleared[i] = true
		}
	}
	c.Check(cleared[0] && cleared[1] && cleared[2], RF, "snow3g.InitSnow3g:fsm-cleared", fn.Pos(), "R1,R2,R3 := 0 before the first clock", "the FSM registers are not all cleared before the first clock (cleared: %v)", cleared)
	// 32 x { F = clockFsm(s15, s5) ; lfsrInitialisationMode(F) } with the current s15/s5 and that F
	ok32 := len(tr) == 64
	detail := fmt.Sprintf("%d clock calls", len(tr))
	for k := 0; k < len(tr) && ok32; k += 2 {
		a, b := tr[k], tr[k+1]
		if a.Callee != pSnow+".clockFsm" || b.Callee != clkInit || len(a.Args) != 2 || len(b.Args) != 1 {
			ok32, detail = false, fmt.Sprintf("calls %d/%d are %s, %s", k, k+1, shortName(a.Callee), shortName(b.Callee))
			break
		}
		s15, s5 := a.Mem.Load(S(15), nil), a.Mem.Load(S(5), nil)
		if core.ArgName(a.Args[0]) != core.ArgName(s15) || core.ArgName(a.Args[1]) != core.ArgName(s5) {
			ok32, detail = false, fmt.Sprintf("clock %d is handed (%s, %s) instead of the current (s15, s5)", k/2, core.ArgName(a.Args[0]), core.ArgName(a.Args[1]))
			break
		}
		if core.ArgName(b.Args[0]) != core.ArgName(a.Ret) {
			ok32, detail = false, fmt.Sprintf("LFSR clock %d is fed %s instead of the FSM output of the same round", k/2, core.ArgName(b.Args[0]))
		}
	}
	c.Check(ok32, R, "snow3g.InitSnow3g:32-clocks", fn.Pos(), "32 x { F = clockFsm(s15,s5); lfsrInitialisationMode(F) }", "initialisation must clock the FSM 32 times feeding F into the LFSR (%s)", detail)
}

// ---------------------------------------------------------------- IV layouts via the arguments of InitSnow3g
func r7ivSnow(c *core.Ctx, R string) {
	type spec struct {
		name string
		args func(fn *ssa.Function) []core.AVal
		iv   func(iv []core.BitVec) bool
		want string
	}
	bd := func(b core.BitVec) bool {
		return len(b) == 32 && b.IsCopy(31, 27, "p2", 0) && b.IsCopy(26, 26, "p3", 0) && b.IsConst(25, 0, 0)
	}
	cnt := func(b core.BitVec) bool { return len(b) == 32 && b.IsCopy(31, 0, "p1", 0) }
	specs := []spec{
		{"NEA1", func(fn *ssa.Function) []core.AVal {
			a := core.DefaultArgs(fn)
			a[2] = core.ArgBits("p2", 32, 5)
			a[3] = core.ArgBits("p3", 32, 1)
			return a
		}, func(iv []core.BitVec) bool { return bd(iv[0]) && cnt(iv[1]) && bd(iv[2]) && cnt(iv[3]) },
			"IV = {BEARER<<27|DIR<<26, COUNT, BEARER<<27|DIR<<26, COUNT}"},
		{"NIA1", func(fn *ssa.Function) []core.AVal {
			a := core.DefaultArgs(fn)
			a[2] = core.ArgBits("p2", 8, 5)
			a[3] = core.ArgBits("p3", 32, 1)
			return a
		}, func(iv []core.BitVec) bool {
			b0, b1, b2, b3 := iv[0], iv[1], iv[2], iv[3]
			ok0 := len(b0) == 32 && b0.IsCopy(31, 27, "p2", 0) && b0.IsConst(26, 16, 0) && b0.IsCopy(15, 15, "p3", 0) && b0.IsConst(14, 0, 0)
			ok1 := len(b1) == 32 && b1.IsXorOf(31, 31, false, core.SrcRef{Path: "p1", Lo: 31}, core.SrcRef{Path: "p3", Lo: 0}) && b1.IsCopy(30, 0, "p1", 0)
			ok2 := len(b2) == 32 && b2.IsCopy(31, 27, "p2", 0) && b2.IsConst(26, 0, 0)
			ok3 := len(b3) == 32 && b3.IsCopy(31, 0, "p1", 0)
			return ok0 && ok1 && ok2 && ok3
		}, "IV = {FRESH^DIR<<15, COUNT^DIR<<31, FRESH, COUNT}, FRESH = BEARER<<27"},
	}
	for _, sp := range specs {
		fn := mustFunc(c, pSec, sp.name)
		outs, ex, err := evalStop(fn, sp.args(fn), []string{pSnow + ".InitSnow3g"}, nil)
		evs := eventsOf(outs, pSnow+".InitSnow3g")
		if err != nil || len(ex.Unsound) > 0 {
			c.SoftUndecided("R7.iv: %s could not be evaluated up to InitSnow3g (%v %v)", sp.name, err, ex.Unsound)
			continue
		}
		if len(evs) == 0 {
			c.Fail(R, "security."+sp.name+":snow3g.InitSnow3g:count", fn.Pos(), "expected exactly one call of snow3g.InitSnow3g, found 0")
			continue
		}
		okIV, okK := true, true
		dIV, dK := "", ""
		for _, ev := range evs {
			if len(ev.Args) != 2 || ev.Args[0].K != core.AAgg || ev.Args[1].K != core.AAgg || len(ev.Args[0].Elems) != 4 || len(ev.Args[1].Elems) != 4 {
				okIV, okK = false, false
				dIV, dK = "arguments are not two 4-word arrays", "arguments are not two 4-word arrays"
				continue
			}
			var iv []core.BitVec
			for _, e := range ev.Args[1].Elems {
				iv = append(iv, e.Bits)
			}
			if !sp.iv(iv) {
				okIV = false
				dIV = fmt.Sprintf("{%s ; %s ; %s ; %s}", iv[0].Describe(), iv[1].Describe(), iv[2].Describe(), iv[3].Describe())
			}
			// k[i] = big-endian word 3-i of the key: octet j of word i is key octet 4*(3-i)+j
			for i := 0; i < 4; i++ {
				b := ev.Args[0].Elems[i].Bits
				for j := 0; j < 4; j++ {
					if len(b) != 32 || !b.IsCopy(31-8*j, 24-8*j, fmt.Sprintf("p0[%d]", 4*(3-i)+j), 0) {
						okK = false
						dK = fmt.Sprintf("k[%d] is %s", i, b.Describe())
					}
				}
			}
		}
		c.Check(okIV, R, "security."+sp.name+":iv", evs[0].Site.Pos(), sp.want, "the IV handed to InitSnow3g must be %s; is %s", sp.want, dIV)
		c.Check(okK, R, "security."+sp.name+":key-words", fn.Pos(), "k[i] = big-endian word 3-i of the key (k3 = first four octets)", "%s must load k[i] from key octets 4*(3-i)..4*(3-i)+3 big-endian (TS 35.215: k3 = CK[0..31]); %s", sp.name, dK)
	}
}

// ---------------------------------------------------------------- NEA2 / NIA2 blocks
func r7ivAes(c *core.Ctx, R string) {
	u8cell := func(m *core.AMem, sl core.AVal, i int) core.BitVec {
		if sl.K != core.ASlice || sl.Lo < 0 {
			return nil
		}
		v := m.Load(fmt.Sprintf("%s[%d]", sl.Path, sl.Lo+i), nil)
		if v.K != core.AInt {
			// never written: zero when the object was allocated here
			v = m.Load(fmt.Sprintf("%s[%d]", sl.Path, sl.Lo+i), types8)
		}
		if v.K != core.AInt {
			return nil
		}
		return v.Bits
	}
	header := func(m *core.AMem, sl core.AVal, n int) (okCnt, okBD, okZero bool, desc string) {
		okCnt, okBD, okZero = true, true, true
		for i := 0; i < 4; i++ {
			b := u8cell(m, sl, i)
			if b == nil || len(b) != 8 || !b.IsCopy(7, 0, "p1", 8*(3-i)) {
				okCnt = false
				desc += fmt.Sprintf(" octet %d is %s;", i, b.Describe())
			}
		}
		b := u8cell(m, sl, 4)
		if b == nil || len(b) != 8 || !(b.IsCopy(7, 3, "p2", 0) && b.IsCopy(2, 2, "p3", 0) && b.IsConst(1, 0, 0)) {
			okBD = false
			desc += fmt.Sprintf(" octet 4 is %s;", b.Describe())
		}
		for i := 5; i < n; i++ {
			b := u8cell(m, sl, i)
			if b == nil || !b.IsConst(7, 0, 0) {
				okZero = false
				desc += fmt.Sprintf(" octet %d is %s;", i, b.Describe())
			}
		}
		return
	}
	args := func(fn *ssa.Function) []core.AVal {
		a := core.DefaultArgs(fn)
		a[2] = core.ArgBits("p2", 8, 5)
		a[3] = core.ArgBits("p3", 8, 1)
		return a
	}
	keyOK := func(ev core.AEvent) bool {
		if len(ev.Args) < 1 || ev.Args[0].K != core.ASlice || ev.Args[0].Len != 16 {
			return false
		}
		for i := 0; i < 16; i++ {
			b := u8cell(ev.Mem, ev.Args[0], i)
			if b == nil || !b.IsCopy(7, 0, fmt.Sprintf("p0[%d]", i), 0) {
				return false
			}
		}
		return true
	}
	// NEA2
	{
		fn := mustFunc(c, pSec, "NEA2")
		outs, ex, err := evalStop(fn, args(fn), []string{"crypto/cipher.NewCTR"}, []string{"crypto/aes.NewCipher"})
		ctr := eventsOf(outs, "crypto/cipher.NewCTR")
		aes := eventsOf(outs, "crypto/aes.NewCipher")
		if err != nil || len(ex.Unsound) > 0 {
			c.SoftUndecided("R7.iv: NEA2 could not be evaluated up to cipher.NewCTR (%v %v)", err, ex.Unsound)
		} else if len(ctr) == 0 {
			c.Fail(R, "security.NEA2:ctr", fn.Pos(), "NEA2 must run AES in CTR mode from the 16-octet counter block (no call of cipher.NewCTR)")
		} else {
			okC, okB, okZ, okLen, okBlk := true, true, true, true, true
			desc := ""
			for _, ev := range ctr {
				if len(ev.Args) != 2 || ev.Args[1].K != core.ASlice {
					okLen = false
					continue
				}
				if ev.Args[1].Len != 16 {
					okLen = false
				}
				a, b, z, d := header(ev.Mem, ev.Args[1], 16)
				okC, okB, okZ = okC && a, okB && b, okZ && z
				desc += d
				if !strings.HasPrefix(core.ArgName(ev.Args[0]), "call:crypto/aes.NewCipher(") {
					okBlk = false
				}
			}
			c.Check(okC, R, "security.NEA2:count-octets", ctr[0].Site.Pos(), "octets 0..3 = COUNT big-endian", "octets 0..3 of the counter block must be COUNT (big-endian):%s", desc)
			c.Check(okB && okZ, R, "security.NEA2:bearer-direction-octet", ctr[0].Site.Pos(), "octet 4 = BEARER<<3 | DIRECTION<<2, octets 5..15 zero", "octet 4 must be BEARER(5)||DIRECTION(1)||00 and octets 5..15 zero:%s", desc)
			c.Check(okLen && okBlk, R, "security.NEA2:ctr", fn.Pos(), "AES-CTR with the 16-octet counter block T1", "NEA2 must run AES in CTR mode from the 16-octet counter block")
			kOK := len(aes) > 0
			for _, ev := range aes {
				if !keyOK(ev) {
					kOK = false
				}
			}
			c.Check(kOK, R, "security.NEA2:key", fn.Pos(), "AES key = the 16-octet key argument", "NEA2 must key AES with its key argument")
		}
	}
	// NIA2
	{
		fn := mustFunc(c, pSec, "NIA2")
		const sumName = "github.com/aead/cmac.Sum"
		outs, ex, err := evalStop(fn, args(fn), nil, []string{sumName, "crypto/aes.NewCipher"})
		sums := eventsOf(outs, sumName)
		if err != nil || len(ex.Unsound) > 0 {
			c.SoftUndecided("R7.iv: NIA2 could not be evaluated (%v %v)", err, ex.Unsound)
		} else if len(sums) == 0 {
			c.Fail(R, "security.NIA2:cmac.Sum:count", fn.Pos(), "expected exactly one call of cmac.Sum, found 0")
		} else {
			okC, okB, okZ, okTail, okTag := true, true, true, true, true
			desc := ""
			for _, ev := range sums {
				if len(ev.Args) != 3 || ev.Args[0].K != core.ASlice || ev.Args[0].Lo != 0 {
					okTail = false
					continue
				}
				m := ev.Args[0]
				a, b, z, d := header(ev.Mem, m, 8)
				okC, okB, okZ = okC && a, okB && b, okZ && z
				desc += d
				tail, has := ev.Mem.Tail(m.Path)
				if !has || tail.From != 8 || tail.Src != "p4" || tail.SrcLo != 0 || m.LenName != "(8+len(p4))" {
					okTail = false
					desc += fmt.Sprintf(" message part: %+v of a block of length %q;", tail, m.LenName)
				}
				if k, ok := ev.Args[2].ConstVal(); !ok || k != 16 {
					okTag = false
				}
			}
			// the result: the 4 leading octets of the tag on the success path
			trunc := false
			for _, o := range outs {
				if len(o.Ret) == 2 && o.Ret[1].K == core.ANil && len(o.Trace) > 0 {
					r := o.Ret[0]
					trunc = r.K == core.ASlice && strings.HasPrefix(r.Path, "call:"+sumName+"(") && r.Lo == 0 && r.Len == 4
				}
			}
			c.Check(okC, R, "security.NIA2:count-octets", sums[0].Site.Pos(), "octets 0..3 = COUNT big-endian", "octets 0..3 of the CMAC input must be COUNT (big-endian):%s", desc)
			c.Check(okB && okZ, R, "security.NIA2:bearer-direction-octet", sums[0].Site.Pos(), "octet 4 = BEARER<<3 | DIRECTION<<2, octets 5..7 zero", "octet 4 must be BEARER(5)||DIRECTION(1)||00 and octets 5..7 zero:%s", desc)
			c.Check(okTail && okTag && trunc, R, "security.NIA2:cmac", sums[0].Site.Pos(), "CMAC over COUNT||BEARER||DIR||0^26 || message, leftmost 32 bits",
				"NIA2 must be AES-CMAC over the 8-octet header followed by the message, truncated to the 4 most significant octets (message part ok %v, tag 16 %v, truncated %v;%s)", okTail, okTag, trunc, desc)
		}
	}
}

// ---------------------------------------------------------------- BEARER / DIRECTION guards
func r7guardsX(c *core.Ctx, R string) {
	algos := []string{pSec + ".NEA1", pSec + ".NEA2", pSec + ".NIA1", pSec + ".NIA2"}
	for _, t := range []struct {
		name       string
		bear, dirn string
	}{{"NASEncrypt", "p3", "p4"}, {"NASMacCalculate", "p3", "p4"}} {
		fn := mustFunc(c, pSec, t.name)
		outs, ex, err := evalStop(fn, core.DefaultArgs(fn), nil, algos)
		if err != nil {
			c.SoftUndecided("R7.iv: %s could not be evaluated (%v %v)", t.name, err, ex.Unsound)
			continue
		}
		gB, gD := true, true
		n := 0
		for _, o := range outs {
			for _, ev := range o.Trace {
				n++
				if f, ok := ev.Facts[t.bear]; !ok || f[1] > 31 {
					gB = false
				}
				if f, ok := ev.Facts[t.dirn]; !ok || f[1] > 1 {
					gD = false
				}
			}
		}
		if n == 0 {
			c.SoftUndecided("R7.iv: %s calls none of NEA1/NEA2/NIA1/NIA2 on any evaluated path", t.name)
			continue
		}
		c.Check(gB, R, "security."+t.name+":bearer-guard", fn.Pos(), "Bearer > 31 refused before any algorithm runs", "no guard refusing BEARER values above 5 bits before the algorithms (the IV layout needs BEARER < 32)")
		c.Check(gD, R, "security."+t.name+":direction-guard", fn.Pos(), "Direction > 1 refused before any algorithm runs", "no guard refusing DIRECTION values above 1 bit before the algorithms")
	}
}

var _ = token.NoPos

// ---------------------------------------------------------------- dispatch of the algorithm ids
func r7dispatchX(c *core.Ctx, R string) {
	type alg struct {
		callee string
		id     uint64
		args   func(a []core.AVal) (bool, string)
	}
	key := func(v core.AVal) bool {
		if v.K != core.AAgg || len(v.Elems) != 16 {
			return false
		}
		for i, e := range v.Elems {
			if e.K != core.AInt || !e.Bits.IsCopy(7, 0, fmt.Sprintf("p1[%d]", i), 0) || len(e.Bits) != 8 {
				return false
			}
		}
		return true
	}
	whole := func(v core.AVal, src string, w int) bool { // zero-extension of a whole source
		if v.K != core.AInt || len(v.Bits) < w {
			return false
		}
		return v.Bits.IsCopy(w-1, 0, src, 0) && (len(v.Bits) == w || v.Bits.IsConst(len(v.Bits)-1, w, 0))
	}
	msg := func(v core.AVal) bool { return v.K == core.ASlice && v.Path == "p5" && v.Lo == 0 }
	bitLen := func(v core.AVal, w int) bool { // len(p5)*8 in w bits
		return v.K == core.AInt && len(v.Bits) == w && v.Bits.IsCopy(w-1, 3, "len(p5)", 0) && v.Bits.IsConst(2, 0, 0)
	}
	render := func(a []core.AVal) string {
		var s []string
		for _, x := range a {
			s = append(s, core.ArgName(x))
		}
		return strings.Join(s, ",")
	}
	run := func(fname string, algs []alg, perOutcome func(o core.AOutcome, ev *core.AEvent)) {
		fn := mustFunc(c, pSec, fname)
		var names []string
		for _, a := range algs {
			names = append(names, pSec+"."+a.callee)
		}
		outs, ex, err := evalStop(fn, core.DefaultArgs(fn), nil, names)
		if err != nil {
			c.SoftUndecided("R7.dispatch: %s could not be evaluated (%v %v)", fname, err, ex.Unsound)
			return
		}
		for _, a := range algs {
			n := 0
			okSel, okArgs := true, true
			got, ids := "", ""
			var pos token.Pos = fn.Pos()
			for _, o := range outs {
				for i := range o.Trace {
					ev := &o.Trace[i]
					if ev.Callee != pSec+"."+a.callee {
						continue
					}
					n++
					pos = ev.Site.Pos()
					if f, ok := ev.Facts["p0"]; !ok || f[0] != a.id || f[1] != a.id {
						okSel = false
						ids = fmt.Sprint(ev.Facts["p0"])
					}
					if ok, g := a.args(ev.Args); !ok {
						okArgs = false
						got = g
					}
				}
			}
			if n == 0 {
				c.Fail(R, "security."+fname+":"+a.callee+":count", fn.Pos(), "expected exactly one call of %s, found 0", a.callee)
				continue
			}
			c.Check(okSel, R, "security."+fname+":"+a.callee+":selected-by", pos, fmt.Sprintf("AlgoID == %d", a.id), "%s must run exactly for algorithm id %d, runs for AlgoID in %s", a.callee, a.id, ids)
			c.Check(okArgs, R, "security."+fname+":"+a.callee+":args", pos, "key, COUNT, BEARER, DIRECTION, message[, 8*len(message)]", "%s arguments are (%s), want (key, COUNT, BEARER, DIRECTION, message[, 8*len(message)])", a.callee, got)
		}
		for _, o := range outs {
			var ev *core.AEvent
			for i := range o.Trace {
				ev = &o.Trace[i]
			}
			perOutcome(o, ev)
		}
	}
	// NASEncrypt
	inPlace := map[string]bool{}
	inPlaceSeen := map[string]bool{}
	nea0, nea0seen := true, false
	run("NASEncrypt", []alg{
		{"NEA1", 1, func(a []core.AVal) (bool, string) {
			return len(a) == 6 && key(a[0]) && whole(a[1], "p2", 32) && whole(a[2], "p3", 8) && whole(a[3], "p4", 8) && msg(a[4]) && bitLen(a[5], 32), render(a)
		}},
		{"NEA2", 2, func(a []core.AVal) (bool, string) {
			return len(a) == 5 && key(a[0]) && whole(a[1], "p2", 32) && whole(a[2], "p3", 8) && whole(a[3], "p4", 8) && msg(a[4]), render(a)
		}},
	}, func(o core.AOutcome, ev *core.AEvent) {
		success := len(o.Ret) == 1 && o.Ret[0].K == core.ANil
		if !success {
			return
		}
		if ev == nil {
			// success without any algorithm: must be NEA0 and leave the payload alone
			if f, ok := o.Facts["p0"]; ok && f[0] == 0 && f[1] == 0 {
				nea0seen = true
				if !o.Mem.Untouched("p5") {
					nea0 = false
				}
			} else {
				nea0 = false
			}
			return
		}
		name := shortName(ev.Callee)
		name = name[strings.LastIndexByte(name, '.')+1:]
		inPlaceSeen[name] = true
		t, has := o.Mem.Tail("p5")
		out := ""
		if ev.Ret.K == core.ATuple && len(ev.Ret.Elems) == 2 {
			out = ev.Ret.Elems[0].Path
		}
		if has && t.From == 0 && t.SrcLo == 0 && t.Src == out && out != "" {
			if _, dup := inPlace[name]; !dup {
				inPlace[name] = true
			}
		} else {
			inPlace[name] = false
		}
	})
	fnE := mustFunc(c, pSec, "NASEncrypt")
	for _, n := range []string{"NEA1", "NEA2"} {
		if !inPlaceSeen[n] {
			continue
		}
		c.Check(inPlace[n], R, "security.NASEncrypt:"+n+":in-place", fnE.Pos(), "copy(payload, output)", "the %s output must be copied back over the payload", n)
	}
	c.Check(nea0 && nea0seen, R, "security.NASEncrypt:NEA0", fnE.Pos(), "algorithm 0 returns nil without touching the payload", "NEA0 must leave the message unchanged and succeed")
	// NASMacCalculate
	retOK := true
	run("NASMacCalculate", []alg{
		{"NIA1", 1, func(a []core.AVal) (bool, string) {
			return len(a) == 6 && key(a[0]) && whole(a[1], "p2", 32) && whole(a[2], "p3", 8) && whole(a[3], "p4", 8) && msg(a[4]) && bitLen(a[5], 64), render(a)
		}},
		{"NIA2", 2, func(a []core.AVal) (bool, string) {
			return len(a) == 5 && key(a[0]) && whole(a[1], "p2", 32) && whole(a[2], "p3", 8) && whole(a[3], "p4", 8) && msg(a[4]), render(a)
		}},
	}, func(o core.AOutcome, ev *core.AEvent) {
		if ev == nil || len(o.Ret) != 2 || ev.Ret.K != core.ATuple || len(ev.Ret.Elems) != 2 {
			return
		}
		// whenever the algorithm ran and no error is reported, its MAC is what is returned
		if o.Ret[1].K == core.ANil || o.Ret[1].Path == ev.Ret.Elems[1].Path {
			if o.Ret[0].K != core.ASlice || o.Ret[0].Path != ev.Ret.Elems[0].Path || o.Ret[0].Lo != 0 {
				retOK = false
			}
		}
	})
	c.Check(retOK, R, "security.NASMacCalculate:returns-mac", mustFunc(c, pSec, "NASMacCalculate").Pos(), "the MAC of the selected algorithm is returned", "NASMacCalculate must return the MAC computed by the selected algorithm")
}

// ---------------------------------------------------------------- MULx / MULxPOW / MUL (8-bit: snow3g; 64-bit: security)
// nestMulx is the canonical name of MULx applied n times to v with constant cName.
func nestMulx(pkg, v, cName string, n int) string {
	s := v
	for i := 0; i < n; i++ {
		s = "call:" + pkg + ".mulx(" + s + "," + cName + ")"
	}
	return s
}

// r7mulx decides MULx over w bits: V<<1, xor c when the top bit of V is set (if-converted:
// bit j is V.(j-1) xor (V.top and c.j)).
func r7mulx(c *core.Ctx, R, pkg, key string, w int) {
	fn := mustFunc(c, pkg, "mulx")
	ex := core.NewExec()
	ex.Merge = true
	outs, err := ex.Run(fn, core.DefaultArgs(fn), nil)
	if err != nil || len(outs) != 1 || len(outs[0].Ret) != 1 || outs[0].Ret[0].K != core.AInt || len(outs[0].Ret[0].Bits) != w {
		if w == 8 {
			if bad, decided := mulx8ByPartition(fn); decided {
				c.Check(bad == "", R, key, fn.Pos(), "V bit 7 ? (V<<1)^c : V<<1 (each V folded for the three reduction constants in use)", "MULx must be (V<<1)^c when the top bit of V is set and V<<1 otherwise: %s", bad)
				return
			}
		}
		c.SoftUndecided("%s: %s.mulx could not be evaluated to one value (%v, %d outcomes)", R, shortName(pkg), err, len(outs))
		return
	}
	b := outs[0].Ret[0].Bits
	ok := true
	detail := ""
	for j := 0; j < w && ok; j++ {
		want := map[string]bool{fmt.Sprintf("and(p0.%d,p1.%d).0", w-1, j): true}
		if j >= 1 {
			want[fmt.Sprintf("p0.%d", j-1)] = true
		}
		good, got := xorTermsOK(b[j], nil, want)
		if !good {
			ok = false
			detail = fmt.Sprintf("bit %d is %v", j, got)
		}
	}
	if !ok && w == 8 {
		if bad, decided := mulx8ByPartition(fn); decided {
			c.Check(bad == "", R, key, fn.Pos(), "V bit 7 ? (V<<1)^c : V<<1 (each V folded for the three reduction constants in use)", "MULx must be (V<<1)^c when the top bit of V is set and V<<1 otherwise: %s", bad)
			return
		}
	}
	c.Check(ok, R, key, fn.Pos(), fmt.Sprintf("V bit %d ? (V<<1)^c : V<<1", w-1), "MULx must be (V<<1)^c when the top bit of V is set and V<<1 otherwise (%s)", detail)
}

func specMulx(v, c uint64) uint64 {
	if v&0x80 != 0 {
		return ((v << 1) ^ c) & 0xff
	}
	return (v << 1) & 0xff
}

func specMulxPow(v uint64, e int64, c uint64) uint64 {
	for ; e > 0; e-- {
		v = specMulx(v, c)
	}
	return v
}

// foldCall interprets fn on constant arguments; ok when it has one outcome that returns one constant.
func foldCall(fn *ssa.Function, consts []uint64) (uint64, bool) {
	ex := core.NewExec()
	ex.MaxRecursion, ex.MaxDepth = 300, 320
	var args []core.AVal
	for i, p := range fn.Params {
		bt, isB := p.Type().Underlying().(*types.Basic)
		if !isB || i >= len(consts) {
			return 0, false
		}
		w := widthOfBasic(bt)
		if w <= 0 {
			return 0, false
		}
		args = append(args, core.AVal{K: core.AInt, Bits: core.ConstBits(consts[i], w)})
	}
	outs, err := ex.Run(fn, args, nil)
	if err != nil || len(outs) != 1 || outs[0].Panicked || len(outs[0].Ret) != 1 || len(ex.Unsound) > 0 {
		return 0, false
	}
	k, isK := outs[0].Ret[0].ConstVal()
	return uint64(k), isK
}

// byPartition decides a function of one small argument (first parameter, n values; the other
// parameters fixed to rest) by folding it for every value and comparing with want. decided is
// false when some value does not fold to a constant (the function is then not of a kind this can
// judge); bad names the first disagreeing argument.
func byPartition(fn *ssa.Function, n int, rest []uint64, want func(args []uint64) uint64) (bad string, decided bool) {
	for v := 0; v < n; v++ {
		args := append([]uint64{uint64(v)}, rest...)
		got, ok := foldCall(fn, args)
		if !ok {
			return "", false
		}
		if w := want(args); got != w && bad == "" {
			bad = fmt.Sprintf("%s(%v) is %#x, want %#x", fn.Name(), args, got, w)
		}
	}
	return bad, true
}

func mulx8ByPartition(fn *ssa.Function) (string, bool) {
	for _, c := range []uint64{0x1b, 0x69, 0xa9} {
		bad, decided := byPartition(fn, 256, []uint64{c}, func(a []uint64) uint64 { return specMulx(a[0], a[1]) })
		if !decided || bad != "" {
			return bad, decided
		}
	}
	return "", true
}

// r7mulxPowAt decides MULxPOW(V,e,c) = MULx applied e times, for the exponents that are used.
func r7mulxPowAt(c *core.Ctx, R, pkg, key string, w int, exps []int) {
	fn := mustFunc(c, pkg, "mulxPow")
	ok := true
	detail := ""
	for _, e := range exps {
		ex := core.NewExec()
		ex.Enter = keepExcept("mulx")
		ex.MaxRecursion, ex.MaxDepth = 300, 320
		args := core.DefaultArgs(fn)
		args[1] = core.AVal{K: core.AInt, Bits: core.ConstBits(uint64(e), w)}
		outs, err := ex.Run(fn, args, nil)
		if err != nil || len(outs) != 1 || len(outs[0].Ret) != 1 || outs[0].Ret[0].K != core.AInt {
			if w == 8 {
				if bad, decided := mulxPow8ByPartition(fn, exps); decided {
					c.Check(bad == "", R, key, fn.Pos(), fmt.Sprintf("MULxPOW(V,i,0xA9) = MULx applied i times, for the %d exponents in use (each V folded)", len(exps)), "MULxPOW must be the i-fold application of MULx: %s", bad)
					return
				}
			}
			c.SoftUndecided("%s: %s.mulxPow(V,%d,c) could not be evaluated to one value (%v, %d outcomes)", R, shortName(pkg), e, err, len(outs))
			return
		}
		if got := core.NameBits(outs[0].Ret[0].Bits); got != nestMulx(pkg, "p0", "p2", e) {
			ok = false
			if len(got) > 160 {
				got = got[:160] + "…"
			}
			detail = fmt.Sprintf("MULxPOW(V,%d,c) is %s", e, got)
		}
	}
	if !ok && w == 8 {
		if bad, decided := mulxPow8ByPartition(fn, exps); decided {
			c.Check(bad == "", R, key, fn.Pos(), fmt.Sprintf("MULxPOW(V,i,0xA9) = MULx applied i times, for the %d exponents in use (each V folded)", len(exps)), "MULxPOW must be the i-fold application of MULx: %s", bad)
			return
		}
	}
	c.Check(ok, R, key, fn.Pos(), fmt.Sprintf("MULxPOW(V,i,c) = MULx applied i times, for the %d exponents in use", len(exps)), "MULxPOW must be the i-fold application of MULx (%s)", detail)
}

func mulxPow8ByPartition(fn *ssa.Function, exps []int) (string, bool) {
	for _, e := range exps {
		bad, decided := byPartition(fn, 256, []uint64{uint64(e), 0xa9}, func(a []uint64) uint64 { return specMulxPow(a[0], int64(a[1]), a[2]) })
		if !decided || bad != "" {
			return bad, decided
		}
	}
	return "", true
}

// r7mul64 decides MUL(V,P,c) over GF(2^64): bit j of the result is the XOR over i = 0..63 of
// P.i and bit j of MULx^i(V).
func r7mul64(c *core.Ctx, R string) {
	fn := mustFunc(c, pSec, "mul")
	saved := core.MaxXorTerms
	core.MaxXorTerms = 200
	defer func() { core.MaxXorTerms = saved }()
	ex := core.NewExec()
	ex.Merge = true
	ex.Enter = keepExcept("mulx")
	ex.MaxRecursion, ex.MaxDepth = 80, 100
	outs, err := ex.Run(fn, core.DefaultArgs(fn), nil)
	if err != nil || len(outs) == 0 {
		c.SoftUndecided("R7.gf64: security.mul could not be evaluated (%v, %d outcomes)", err, len(outs))
		return
	}
	names := map[string]string{}
	for i := 0; i < 64; i++ {
		names[nestMulx(pSec, "p0", "p2", i)] = fmt.Sprintf("T%d", i)
	}
	ok := true
	detail := ""
	// a loop that stops as soon as the rest of P is zero gives one outcome per stopping point; on
	// each the branch facts say which bits of P can still be set, and only those products are owed
	for _, o := range outs {
		if len(o.Ret) != 1 || o.Ret[0].K != core.AInt || len(o.Ret[0].Bits) != 64 || o.Panicked {
			c.SoftUndecided("R7.gf64: security.mul does not return one 64-bit value on every path")
			return
		}
		b := o.Ret[0].Bits
		live := 64
		if f, has := o.Facts["p1"]; has {
			live = 0
			for x := f[1]; x > 0; x >>= 1 {
				live++
			}
		}
		for j := 0; j < 64 && ok; j++ {
			if live == 0 {
				if b[j].Kind != core.BZero {
					ok, detail = false, fmt.Sprintf("bit %d is %s when P is 0", j, b[j])
				}
				continue
			}
			if b[j].Kind != core.BSrc || b[j].Neg {
				ok, detail = false, fmt.Sprintf("bit %d is %s", j, b[j])
				break
			}
			seen := map[int]bool{}
			for _, t := range bitTermsRenamed(b[j], nil) {
				// and(<T_i>.j,p1.i).0
				bad := true
				if strings.HasPrefix(t, "and(") && strings.HasSuffix(t, ").0") {
					in := t[4 : len(t)-3]
					if k := strings.LastIndex(in, ",p1."); k > 0 {
						var i int
						if n, _ := fmt.Sscanf(in[k+4:], "%d", &i); n == 1 {
							x := in[:k]
							d := strings.LastIndexByte(x, '.')
							if d > 0 && names[x[:d]] == fmt.Sprintf("T%d", i) && x[d+1:] == fmt.Sprint(j) && !seen[i] {
								seen[i] = true
								bad = false
							}
						}
					}
				}
				if bad {
					ok = false
					if len(t) > 120 {
						t = t[:120] + "…"
					}
					detail = fmt.Sprintf("bit %d has the term %s", j, t)
				}
			}
			for i := range seen {
				if i >= live {
					ok, detail = false, fmt.Sprintf("bit %d contains the product for bit %d of P on a path where P < 2^%d", j, i, live)
				}
			}
			if ok && len(seen) != live {
				ok, detail = false, fmt.Sprintf("bit %d sums %d of the %d products P.i·(V·x^i).%d", j, len(seen), live, j)
			}
		}
	}
	c.Check(ok, R, "security.mul:product", fn.Pos(), "rst.j = XOR over i=0..63 of P.i and (MULx^i(V)).j", "MUL must xor MULxPOW(V,i,c) into the result for exactly the set bits i = 0..63 of P (%s)", detail)
}

var types8 = types.Typ[types.Uint8]
