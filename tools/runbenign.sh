#!/bin/bash
# runbenign.sh <python-edit-script> : apply a battery of behaviour-preserving edits (tools/benign/*.py) to a scratch copy of /repo, build it, run all 20 quick checks; every check must stay at exit 0 (prints only the ones that do not)
T=$(mktemp -d /tmp/ben.XXXX); rsync -a --exclude .git /repo/ $T/repo/; (cd $T/repo && python3 $1) || { echo EDIT FAILED; rm -rf $T; exit 1; }
for m in . src/free5gclib src/tglib src/stgutg; do (cd $T/repo/$m && GOPROXY=off GOSUMDB=off GOTOOLCHAIN=local go build ./... 2>&1 | head -5); done
cd /verif; /verif/check list quick >/dev/null
for i in $(seq -w 1 20); do VERIF_REPO=$T/repo VERIF_EVIDENCE_DIR=$T/ev bin/stgverif C$i quick > $T/out.txt 2>&1; rc=$?; [ $rc -ne 0 ] && echo "C$i rc=$rc $(grep '^UNDECIDED\|: R[0-9]' $T/out.txt | head -4 | cut -c1-260)"; done; echo "done"; rm -rf $T
