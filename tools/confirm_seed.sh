#!/bin/bash
# confirm_seed.sh <seed-dir> : independent confirmation of one seeded change.
#   1. the demonstration passes on an unpatched scratch copy of /repo's current tree
#   2. the patch applies, every module builds, the 93 pinned tests pass, test binaries of the other modules build
#   3. the demonstration fails on the patched copy
# Prints one JSON object (the "confirmed" block of meta.json) on stdout; exit 0 iff all four hold.
set -u
S=$(cd "$1" && pwd)
export GOPROXY=off GOSUMDB=off GOTOOLCHAIN=local
unset GOFLAGS GOWORK
A=$(mktemp -d /tmp/seedA.XXXX); B=$(mktemp -d /tmp/seedB.XXXX)
trap 'rm -rf $A $B' EXIT
rsync -a --exclude .git /repo/ $A/; rsync -a --exclude .git /repo/ $B/
"$S/run_demo.sh" $A >$A/.demo.log 2>&1; d0=$?
( cd $B && patch -p1 --batch -s < "$S/patch.diff" ) >/dev/null 2>&1; ap=$?
bo=0
for m in . src/free5gclib src/tglib src/stgutg; do ( cd $B/$m && go build ./... ) >>$B/.build.log 2>&1 || bo=1; done
for m in . src/tglib src/stgutg; do ( cd $B/$m && go test -vet=off -count=1 -run '^$' ./... ) >>$B/.build.log 2>&1 || bo=1; done
( cd $B/src/free5gclib && go test -vet=off -count=1 -v ./... ) >$B/.tests.log 2>&1; t=$?
np=$(grep -c '^--- PASS\|^    --- PASS' $B/.tests.log); nf=$(grep -c -- '--- FAIL' $B/.tests.log)
"$S/run_demo.sh" $B >$B/.demo.log 2>&1; d1=$?
ok=0; [ $d0 -eq 0 ] && [ $ap -eq 0 ] && [ $bo -eq 0 ] && [ $t -eq 0 ] && [ $nf -eq 0 ] && [ $d1 -ne 0 ] || ok=1
tailf() { tail -n 12 "$1" | python3 -c 'import sys,json; print(json.dumps(sys.stdin.read()[-1500:]))'; }
cat <<E
{"unpatched_demo_passes": $([ $d0 -eq 0 ] && echo true || echo false),
 "patch_applies": $([ $ap -eq 0 ] && echo true || echo false),
 "patched_builds": $([ $bo -eq 0 ] && echo true || echo false),
 "patched_tests_pass": $([ $t -eq 0 ] && [ $nf -eq 0 ] && echo true || echo false), "tests_passed": $np, "tests_failed": $nf,
 "patched_demo_fails": $([ $d1 -ne 0 ] && echo true || echo false), "patched_demo_exit": $d1,
 "repo_head": "$(git -C /repo rev-parse --short HEAD)",
 "patched_demo_tail": $(tailf $B/.demo.log),
 "how": "tools/confirm_seed.sh: scratch copies of /repo under /tmp (removed afterwards); run_demo.sh on the unpatched copy; patch -p1; go build ./... in the 4 modules; go test -run '^$' in ., src/tglib, src/stgutg; go test -v ./... in src/free5gclib (the pinned 93 tests); run_demo.sh on the patched copy"}
E
exit $ok
