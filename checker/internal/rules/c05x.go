package rules

import (
	"fmt"
	"regexp"
	"strings"

	"golang.org/x/tools/go/ssa"

	"stgverif/internal/core"
)

// Evaluator-based key-derivation rules (DESIGN §11.1).

// segName renders a segment list for messages and comparisons: known octets as values, references
// as "<object>[lo:]@version".
func segNames(prefix []core.AVal, segs []core.ASeg) []string {
	var out []string
	for _, v := range prefix {
		out = append(out, core.ArgName(v))
	}
	for _, sg := range segs {
		if sg.Cells != nil {
			for _, v := range sg.Cells {
				out = append(out, core.ArgName(v))
			}
			continue
		}
		out = append(out, fmt.Sprintf("%s[%d:]@%d", sg.Src, sg.SrcLo, sg.Ver))
	}
	return out
}

// sliceContent describes what a slice value holds at the time of mem.
func sliceContent(mem *core.AMem, v core.AVal) []string {
	if v.K != core.ASlice || v.Lo < 0 {
		return []string{"?" + core.ArgName(v)}
	}
	if v.Len >= 0 {
		var out []string
		for i := 0; i < v.Len; i++ {
			out = append(out, core.ArgName(mem.Load(fmt.Sprintf("%s[%d]", v.Path, v.Lo+i), types8)))
		}
		return out
	}
	from, segs := mem.Seq(v.Path)
	if segs == nil {
		return []string{fmt.Sprintf("%s[%d:]@%d", v.Path, v.Lo, mem.Version(v.Path))}
	}
	var pre []core.AVal
	for i := v.Lo; i < from; i++ {
		pre = append(pre, mem.Load(fmt.Sprintf("%s[%d]", v.Path, i), types8))
	}
	return segNames(pre, segs)
}

func r5kdfX(c *core.Ctx) {
	const R = "R5.kdf"
	c.Rule(R, "GetKDFValue = HMAC-SHA-256(key, FC || params in order); KDFLen = 2-octet big-endian len")
	{
		fn := mustFunc(c, pUeau, "KDFLen")
		ex := core.NewExec()
		outs, err := ex.Run(fn, core.DefaultArgs(fn), nil)
		ok := err == nil && len(outs) == 1 && len(outs[0].Ret) == 1 && len(ex.Unsound) == 0
		got := ""
		if ok {
			r := outs[0].Ret[0]
			ok = r.K == core.ASlice && r.Lo >= 0 && r.Len == 2
			if ok {
				hi := outs[0].Mem.Load(fmt.Sprintf("%s[%d]", r.Path, r.Lo), types8)
				lo := outs[0].Mem.Load(fmt.Sprintf("%s[%d]", r.Path, r.Lo+1), types8)
				ok = hi.K == core.AInt && lo.K == core.AInt && hi.Bits.IsCopy(7, 0, "len(p0)", 8) && lo.Bits.IsCopy(7, 0, "len(p0)", 0)
				got = hi.String() + " | " + lo.String()
			}
		} else if err != nil {
			c.SoftUndecided("R5.kdf: KDFLen could not be evaluated (%v)", err)
		}
		c.Check(ok, R, "UeauCommon.KDFLen", fn.Pos(), "2 octets: len(input) big-endian", "KDFLen must be the 2-octet big-endian length of its input (%s)", got)
	}
	fn := mustFunc(c, pUeau, "GetKDFValue")
	if len(fn.Params) != 3 {
		c.SoftUndecided("R5.kdf: GetKDFValue does not have the (key, FC, param...) signature")
		return
	}
	ex := core.NewExec()
	type call struct {
		name string
		ev   core.AEvent
	}
	var calls []call
	ex.OnCall = func(ev *core.AEvent, m *core.AMem) (core.AVal, bool) {
		n := ev.Callee
		switch {
		case n == "crypto/hmac.New", strings.HasSuffix(n, ").Write"), strings.HasSuffix(n, ").Sum"), n == "encoding/hex.DecodeString":
			calls = append(calls, call{n, *ev})
			return core.OpaqueRet(ev), true
		}
		return core.AVal{}, false
	}
	mem := core.NewMem()
	const nParam = 4
	for i := 0; i < nParam; i++ {
		mem.Store(fmt.Sprintf("params[%d]", i), core.AVal{K: core.ASlice, Path: fmt.Sprintf("P%d", i), Lo: 0, Len: -1, NonNil: true}, nil)
	}
	args := []core.AVal{core.NonNilArg(core.ArgNamed("p0", fn.Params[0].Type())), core.ArgNamed("p1", fn.Params[1].Type()), {K: core.ASlice, Path: "params", Lo: 0, Len: nParam, NonNil: true}}
	outs, err := ex.Run(fn, args, mem)
	if err != nil || len(ex.Unsound) > 0 {
		c.SoftUndecided("R5.kdf: GetKDFValue could not be evaluated (%v %v)", err, ex.Unsound)
		return
	}
	okH, okFC, okApp, okSum := true, true, true, true
	nGood := 0
	detail := ""
	for _, o := range outs {
		// the path on which the FC decodes and nothing fails
		bad := false
		for name, isNil := range o.Nils {
			if strings.Contains(name, "#1") && !isNil {
				bad = true
			}
		}
		if bad || o.Panicked {
			continue
		}
		nGood++
		var hm, wr, sum, dec *core.AEvent
		for i := range o.Trace {
			ev := &o.Trace[i]
			switch {
			case ev.Callee == "crypto/hmac.New":
				hm = ev
			case strings.HasSuffix(ev.Callee, ").Write"):
				wr = ev
			case strings.HasSuffix(ev.Callee, ").Sum"):
				sum = ev
			case ev.Callee == "encoding/hex.DecodeString":
				dec = ev
			}
		}
		if hm == nil || len(hm.Args) != 2 || core.ArgName(hm.Args[0]) != "func:crypto/sha256.New" || hm.Args[1].K != core.ASlice || hm.Args[1].Path != "p0" || hm.Args[1].Lo != 0 {
			okH = false
		}
		if dec == nil || len(dec.Args) != 1 || core.ArgName(dec.Args[0]) != "p1" {
			okFC = false
		}
		if wr == nil || len(wr.Args) < 1 {
			okApp = false
			continue
		}
		got := sliceContent(wr.Mem, wr.Args[len(wr.Args)-1])
		want := []string{}
		if dec != nil {
			want = append(want, core.OpaqueRet(dec).Elems[0].Path+"[0:]@0")
		}
		for i := 0; i < nParam; i++ {
			want = append(want, fmt.Sprintf("P%d[0:]@0", i))
		}
		if len(got) == 0 || (dec != nil && got[0] != want[0]) {
			okFC = false
			detail = strings.Join(got, " || ")
		}
		if strings.Join(got, "|") != strings.Join(want, "|") {
			okApp = false
			detail = strings.Join(got, " || ")
		}
		if sum == nil || len(o.Ret) != 1 || o.Ret[0].K != core.ASlice || o.Ret[0].Path != core.OpaqueRet(sum).Path || o.Ret[0].Lo != 0 || len(sum.Args) != 1 || sum.Args[0].K != core.ANil {
			okSum = false
		}
		// the digest is taken after the input was written
		if sum != nil && wr != nil {
			wi, si := -1, -1
			for i := range o.Trace {
				if &o.Trace[i] == wr {
					wi = i
				}
				if &o.Trace[i] == sum {
					si = i
				}
			}
			if wi > si {
				okSum = false
			}
		}
	}
	if nGood == 0 {
		c.SoftUndecided("R5.kdf: GetKDFValue has no path on which the FC decodes and the MAC is written")
		return
	}
	c.Check(okH, R, "UeauCommon.GetKDFValue:hmac", fn.Pos(), "hmac.New(sha256.New, key)", "the KDF must be HMAC-SHA-256 keyed with its first argument")
	c.Check(okFC, R, "UeauCommon.GetKDFValue:fc", fn.Pos(), "S = hex(FC) || ...", "S must start with the hex-decoded FC (S is %s)", detail)
	c.Check(okApp, R, "UeauCommon.GetKDFValue:params", fn.Pos(), "S = hex(FC) || P0 || L0 || P1 || L1 …, in argument order", "every parameter must be appended to S in argument order (S is %s)", detail)
	c.Check(okSum, R, "UeauCommon.GetKDFValue:sum", fn.Pos(), "kdf.Write(S); return kdf.Sum(nil)", "the KDF must MAC S and return the 32-octet digest")
}

// kdfModel summarises GetKDFValue: call n returns the 32 octets KDF<n>[i]; key, FC and the
// parameter octets are recorded.
type kdfCall struct {
	n      int
	key    []string
	fc     string
	params [][]string
	site   *ssa.Call
}

type kdfModel struct{}

func (m *kdfModel) install(ex *core.Exec) {
	ex.OnCall = func(ev *core.AEvent, mem *core.AMem) (core.AVal, bool) {
		if ev.Callee != fnKDF || len(ev.Args) != 3 {
			return core.AVal{}, false
		}
		name := fmt.Sprintf("KDF%d", ev.Index+1)
		for i := 0; i < 32; i++ {
			mem.Store(fmt.Sprintf("%s[%d]", name, i), core.ArgBits(fmt.Sprintf("%s[%d]", name, i), 8, 8), nil)
		}
		return core.AVal{K: core.ASlice, Path: name, Lo: 0, Len: 32, NonNil: true}, true
	}
}

// callsOf lists the derivations of one path.
func (m *kdfModel) callsOf(o core.AOutcome) []*kdfCall {
	var out []*kdfCall
	for i := range o.Trace {
		ev := &o.Trace[i]
		if ev.Callee != fnKDF {
			continue
		}
		kc := &kdfCall{n: ev.Index + 1, site: ev.Site}
		kc.key = sliceContent(ev.Mem, ev.Args[0])
		if ev.Args[1].K == core.AStr && ev.Args[1].IsConst {
			kc.fc = ev.Args[1].Const
		} else {
			kc.fc = "?" + core.ArgName(ev.Args[1])
		}
		if ps := ev.Args[2]; ps.K == core.ASlice && ps.Len >= 0 && ps.Lo >= 0 {
			for j := 0; j < ps.Len; j++ {
				kc.params = append(kc.params, sliceContent(ev.Mem, ev.Mem.Load(fmt.Sprintf("%s[%d]", ps.Path, ps.Lo+j), nil)))
			}
		}
		out = append(out, kc)
	}
	return out
}

func kdfOut(n int) []string {
	var out []string
	for i := 0; i < 32; i++ {
		out = append(out, fmt.Sprintf("KDF%d[%d]", n, i))
	}
	return out
}

// lenOf: the two octets KDFLen must produce for a parameter with the given content.
func lenOf(content []string) []string {
	if len(content) == 1 && strings.Contains(content[0], "[0:]@") {
		obj := content[0][:strings.Index(content[0], "[0:]@")]
		return []string{"len(" + obj + ")<15:8>", "len(" + obj + ")<7:0>"}
	}
	return []string{fmt.Sprint(len(content) >> 8), fmt.Sprint(len(content) & 255)}
}

func (kc *kdfCall) check(c *core.Ctx, key string, wantKey []string, keyDesc, wantFC string, wantParams []func([]string) bool, paramDesc []string) {
	const RF, RP, RC = "R5.fc", "R5.pl", "R5.chain"
	c.Sites(1)
	pos := kc.site.Pos()
	c.Check(strings.EqualFold(kc.fc, wantFC), RF, key+":fc", pos, kc.fc, "FC is %s, want %s", kc.fc, wantFC)
	c.Check(strings.Join(kc.key, ",") == strings.Join(wantKey, ","), RC, key+":key", pos, keyDesc, "KDF key is %s, want %s", clip(strings.Join(kc.key, ",")), keyDesc)
	if len(kc.params) != 2*len(wantParams) {
		c.Fail(RP, key+":params", pos, "expected %d (P,L) pairs, found %d parameters", len(wantParams), len(kc.params))
		return
	}
	for i, w := range wantParams {
		pv, lv := kc.params[2*i], kc.params[2*i+1]
		c.Check(w(pv), RP, fmt.Sprintf("%s:P%d", key, i), pos, paramDesc[i], "P%d is %s, want %s", i, clip(strings.Join(pv, ",")), paramDesc[i])
		c.Check(strings.Join(lv, ",") == strings.Join(lenOf(pv), ","), RP, fmt.Sprintf("%s:L%d", key, i), pos, "L = KDFLen(P)", "L%d is %s, want the length of P%d (%s)", i, clip(strings.Join(lv, ",")), i, clip(strings.Join(lenOf(pv), ",")))
	}
}

func isContent(want ...string) func([]string) bool {
	return func(got []string) bool { return strings.Join(got, ",") == strings.Join(want, ",") }
}

func r5kamfX(c *core.Ctx) {
	fn := mustFunc(c, pTglib, "RanUeContext.DerivateKamf")
	var m kdfModel
	ex := core.NewExec()
	m.install(ex)
	args := core.DefaultArgs(fn)
	for i := range args {
		args[i] = core.NonNilArg(args[i])
	}
	outs, err := ex.Run(fn, args, nil)
	if err != nil || len(outs) == 0 {
		c.SoftUndecided("R5.chain: DerivateKamf could not be evaluated (%v)", err)
		return
	}
	// every path performs the derivations (the branch on the regexp error does not skip any): the last
	// path is checked, the others must have the same number
	calls := m.callsOf(outs[len(outs)-1])
	for _, o := range outs {
		if len(m.callsOf(o)) != len(calls) {
			c.SoftUndecided("R5.chain: DerivateKamf performs a different number of derivations on different paths")
			return
		}
	}
	if len(calls) != 3 {
		c.Fail("R5.chain", "tglib.DerivateKamf:kdf-calls", fn.Pos(), "expected 3 KDF calls (K_AUSF, K_SEAF, K_AMF), found %d", len(calls))
		return
	}
	o := outs[len(outs)-1]
	// DerivateKamf(ue, key, snName, SQN, AK)
	calls[0].check(c, "tglib.DerivateKamf:K_AUSF", []string{"p1[0:]@0"}, "CK||IK (the key argument)", "6A",
		[]func([]string) bool{isContent("p2[0:]@0"), isContent("p3[0:]@0")}, []string{"serving network name", "SQN xor AK"})
	calls[1].check(c, "tglib.DerivateKamf:K_SEAF", kdfOut(calls[0].n), "K_AUSF (output of the first derivation)", "6C",
		[]func([]string) bool{isContent("p2[0:]@0")}, []string{"serving network name"})
	pattern := ""
	isSupiDigits := func(got []string) bool {
		if len(got) != 1 {
			return false
		}
		s := got[0]
		const pre = "call:regexp.Regexp.FindStringSubmatch("
		if !strings.HasPrefix(s, pre) || !strings.HasSuffix(s, ",p0.Supi)[1][0:]@0") {
			return false
		}
		re := s[len(pre) : len(s)-len(",p0.Supi)[1][0:]@0")]
		switch {
		case strings.HasPrefix(re, "call:regexp.Compile(") || strings.HasPrefix(re, "call:regexp.MustCompile("):
			if i, j := strings.Index(re, "(\""), strings.LastIndex(re, "\")"); i >= 0 && j > i {
				pattern = re[i+2 : j]
			}
			return true
		case strings.HasPrefix(re, "global:"+pTglib+"."):
			// a package-level compiled pattern: its initialiser decides
			pattern = globalRegexpPattern(c, strings.TrimPrefix(re, "global:"+pTglib+"."))
			return pattern != ""
		}
		return false
	}
	calls[2].check(c, "tglib.DerivateKamf:K_AMF", kdfOut(calls[1].n), "K_SEAF (output of the second derivation)", "6D",
		[]func([]string) bool{isSupiDigits, isContent("0", "0")}, []string{"SUPI digits (regexp group 1 of ue.Supi)", "ABBA 00 00"})
	if pattern != "" {
		re := strings.ReplaceAll(pattern, `\\`, `\`)
		ok := false
		if rx, err := regexp.Compile(re); err == nil {
			m1 := rx.FindStringSubmatch("imsi-001010000000001")
			ok = len(m1) == 2 && m1[1] == "001010000000001"
			m2 := rx.FindStringSubmatch("imsi-310410123456789")
			ok = ok && len(m2) == 2 && m2[1] == "310410123456789"
		}
		c.Check(ok, "R5.pl", "tglib.DerivateKamf:supi-regexp", fn.Pos(), re, "the SUPI pattern %q does not capture the IMSI digits as group 1", re)
	}
	k := o.Mem.Load("p0.Kamf", nil)
	stored := k.K == core.ASlice && k.Path == fmt.Sprintf("KDF%d", calls[2].n) && k.Lo == 0 && k.Len == 32
	c.Check(stored, "R5.chain", "tglib.DerivateKamf:store-Kamf", fn.Pos(), "ue.Kamf = K_AMF", "the K_AMF derivation result is not what is stored in ue.Kamf (stored: %s)", core.ArgName(k))
}

// globalRegexpPattern returns the constant pattern a package-level *regexp.Regexp of tglib is
// compiled from in the package initialiser (and nowhere else assigned), or "".
func globalRegexpPattern(c *core.Ctx, name string) string {
	pkg := c.P.SSAPkg(pTglib)
	if pkg == nil {
		return ""
	}
	g, _ := pkg.Members[name].(*ssa.Global)
	if g == nil {
		return ""
	}
	pat := ""
	n := 0
	for _, f := range allFuncsOf(pkg) {
		for _, b := range f.Blocks {
			for _, in := range b.Instrs {
				st, ok := in.(*ssa.Store)
				if !ok || st.Addr != ssa.Value(g) {
					continue
				}
				n++
				if f.Name() != "init" {
					return ""
				}
				if call, ok := st.Val.(*ssa.Call); ok {
					cn := core.CalleeName(&call.Call)
					if (cn == "regexp.MustCompile" || cn == "regexp.Compile") && len(call.Call.Args) == 1 {
						pat, _ = core.ConstString(call.Call.Args[0])
					}
				}
				if ex, ok := st.Val.(*ssa.Extract); ok {
					if call, ok := ex.Tuple.(*ssa.Call); ok && core.CalleeName(&call.Call) == "regexp.Compile" {
						pat, _ = core.ConstString(call.Call.Args[0])
					}
				}
			}
		}
	}
	if n != 1 {
		return ""
	}
	return pat
}

func r5algX(c *core.Ctx) {
	fn := mustFunc(c, pTglib, "RanUeContext.DerivateAlgKey")
	var m kdfModel
	ex := core.NewExec()
	m.install(ex)
	args := core.DefaultArgs(fn)
	args[0] = core.NonNilArg(args[0])
	outs, err := ex.Run(fn, args, nil)
	if err != nil || len(outs) != 1 || len(ex.Unsound) > 0 {
		c.SoftUndecided("R5.chain: DerivateAlgKey could not be evaluated to one path (%v, %d outcomes, %v)", err, len(outs), ex.Unsound)
		return
	}
	calls := m.callsOf(outs[0])
	if len(calls) != 2 {
		c.Fail("R5.chain", "tglib.DerivateAlgKey:kdf-calls", fn.Pos(), "expected 2 KDF calls (K_NASenc, K_NASint), found %d", len(calls))
		return
	}
	mem := outs[0].Mem
	for _, t := range []struct {
		name, typ, alg, dst string
	}{{"K_NASenc", "1", "p0.CipheringAlg", "p0.KnasEnc"}, {"K_NASint", "2", "p0.IntegrityAlg", "p0.KnasInt"}} {
		var kc *kdfCall
		for _, x := range calls {
			if len(x.params) >= 1 && len(x.params[0]) == 1 && x.params[0][0] == t.typ {
				kc = x
			}
		}
		key := "tglib.DerivateAlgKey:" + t.name
		if kc == nil {
			c.Fail("R5.pl", key+":P0", fn.Pos(), "no derivation uses the algorithm type distinguisher %s", t.typ)
			continue
		}
		kc.check(c, key, []string{"p0.Kamf[0:]@0"}, "K_AMF (ue.Kamf)", "69",
			[]func([]string) bool{isContent(t.typ), isContent(t.alg)}, []string{"algorithm type distinguisher " + t.typ, "algorithm identity " + t.alg})
		ok := true
		bad := ""
		for i := 0; i < 16; i++ {
			v := mem.Load(fmt.Sprintf("%s[%d]", t.dst, i), nil)
			if v.K != core.AInt || !v.Bits.IsCopy(7, 0, fmt.Sprintf("KDF%d[%d]", kc.n, 16+i), 0) {
				ok = false
				bad = fmt.Sprintf("%s[%d] = %s", t.dst, i, v)
			}
		}
		c.Check(ok, "R5.chain", key+":low-128-bits", kc.site.Pos(), t.dst+" = out[16:32]", "%s must receive octets 16..31 of the %s derivation output (%s)", t.dst, t.name, bad)
	}
}

// r5deriveX: DeriveRESstarAndSetKey evaluated abstractly with the Milenage library, the hex
// decoder, the two key derivation methods and the fatal exits summarised.
func r5deriveX(c *core.Ctx) {
	const R, RO = "R5.chain", "R5.op"
	c.Rule("R5.fc", "each derivation uses the FC of its role")
	c.Rule("R5.pl", "KDF parameters come in (P, 2-octet length of the same P) pairs with the roles of TS 33.501 Annex A")
	c.Rule(R, "key chain CK||IK → K_AUSF → K_SEAF → K_AMF → K_NASenc/K_NASint; 128-bit keys = out[16:32]; inputs taken from one f2345 run")
	c.Rule(RO, "milenage.New(OP) exactly when OPc is empty, NewWithOPc otherwise; RES* = ComputeRESStar(mcc, mnc) of the same instance")
	fn := mustFunc(c, pTglib, "RanUeContext.DeriveRESstarAndSetKey")
	if len(fn.Params) != 7 {
		c.Fail(R, "tglib.DeriveRESstarAndSetKey:signature", fn.Pos(), "expected (ue, authSubs, autn, rand, snName, mnc, mcc)")
		return
	}
	const (
		nNew    = pMilW + ".New"
		nNewC   = pMilW + ".NewWithOPc"
		nF2345  = pMilW + ".Milenage.F2345"
		nRes    = pMilW + ".Milenage.ComputeRESStar"
		nKamf   = pTglib + ".RanUeContext.DerivateKamf"
		nAlg    = pTglib + ".RanUeContext.DerivateAlgKey"
		nHex    = "encoding/hex.DecodeString"
		milPath = "mil@"
	)
	ex := core.NewExec()
	ex.OnCall = func(ev *core.AEvent, m *core.AMem) (core.AVal, bool) {
		n := ev.Callee
		switch {
		case strings.HasSuffix(n, "/fatal.Fatalf") || strings.HasSuffix(n, "/fatal.Fatal") || strings.HasPrefix(n, "log.Fatal") || n == "os.Exit":
			ev.Stop = true
			return core.AVal{}, true
		case n == nNew || n == nNewC:
			return core.AVal{K: core.APtr, Path: fmt.Sprintf("%s%d", milPath, ev.Index), NonNil: true}, true
		case n == nF2345:
			mk := func(s string) core.AVal {
				return core.AVal{K: core.ASlice, Path: "F2345." + s, Lo: 0, Len: -1, NonNil: true}
			}
			return core.AVal{K: core.ATuple, Elems: []core.AVal{mk("res"), mk("ck"), mk("ik"), mk("ak"), {K: core.AUnknown, Path: "F2345.err"}}}, true
		case n == nRes:
			return core.AVal{K: core.ATuple, Elems: []core.AVal{{K: core.ASlice, Path: "RES*", Lo: 0, Len: -1, NonNil: true}, {K: core.AUnknown, Path: "RES*.err"}}}, true
		case n == nKamf || n == nAlg:
			return core.AVal{K: core.ATuple}, true
		case n == nHex || strings.HasPrefix(n, pMilW+".Milenage."):
			return core.OpaqueRet(ev), true
		}
		return core.AVal{}, false
	}
	args := core.DefaultArgs(fn)
	args[0] = core.NonNilArg(args[0])
	outs, err := ex.Run(fn, args, nil)
	if err != nil {
		c.SoftUndecided("R5.chain: DeriveRESstarAndSetKey could not be evaluated (%v)", err)
		return
	}
	hexOf := func(field string) string { return "call:" + nHex + "(" + field + ")#0" }
	isHex := func(v core.AVal, field string) bool {
		return v.K == core.ASlice && v.Path == hexOf(field) && v.Lo == 0 && v.Len < 0
	}
	type acc struct {
		ok   bool
		got  string
		seen bool
	}
	res := map[string]*acc{}
	note := func(key string, ok bool, got string) {
		a := res[key]
		if a == nil {
			a = &acc{ok: true}
			res[key] = a
		}
		a.seen = true
		if !ok {
			a.ok, a.got = false, got
		}
	}
	nSuccess, nNewSeen, nNewCSeen := 0, 0, 0
	okCalls := true
	callDetail := ""
	for _, o := range outs {
		if o.Stopped || o.Panicked || len(o.Ret) != 1 {
			continue
		}
		nSuccess++
		var ctor, f2345, kamf, alg, rstar []*core.AEvent
		for i := range o.Trace {
			ev := &o.Trace[i]
			switch ev.Callee {
			case nNew, nNewC:
				ctor = append(ctor, ev)
			case nF2345:
				f2345 = append(f2345, ev)
			case nKamf:
				kamf = append(kamf, ev)
			case nAlg:
				alg = append(alg, ev)
			case nRes:
				rstar = append(rstar, ev)
			}
		}
		if len(ctor) != 1 {
			note("constructors", false, fmt.Sprintf("%d constructor calls on one path", len(ctor)))
			continue
		}
		note("constructors", true, "")
		ct := ctor[0]
		a := ct.Args
		empty, known := o.Nils["empty:p1.Opc.OpcValue"]
		if ct.Callee == nNew {
			nNewSeen++
			note("New:args", len(a) >= 3 && isHex(a[0], "p1.PermanentKey.PermanentKeyValue") && isHex(a[1], "p1.Milenage.Op.OpValue") && a[2].K == core.ASlice && a[2].Path == "p3" && a[2].Lo == 0,
				fmt.Sprintf("(%s, %s, %s)", clip(core.ArgName(a[0])), clip(core.ArgName(a[1])), core.ArgName(a[2])))
			note("op-opc-branch", known && empty, "milenage.New(OP) is used on a path where OpcValue is not known to be empty")
		} else {
			nNewCSeen++
			note("NewWithOPc:args", len(a) >= 3 && isHex(a[0], "p1.PermanentKey.PermanentKeyValue") && isHex(a[1], "p1.Opc.OpcValue") && a[2].K == core.ASlice && a[2].Path == "p3" && a[2].Lo == 0,
				fmt.Sprintf("(%s, %s, %s)", clip(core.ArgName(a[0])), clip(core.ArgName(a[1])), core.ArgName(a[2])))
			note("op-opc-branch", known && !empty, "milenage.NewWithOPc(OPc) is used on a path where OpcValue may be empty")
		}
		if len(f2345) != 1 || len(kamf) != 1 || len(alg) != 1 || len(rstar) != 1 {
			okCalls = false
			callDetail = fmt.Sprintf("found %d, %d, %d, %d", len(f2345), len(kamf), len(alg), len(rstar))
			continue
		}
		mil := core.ArgName(ct.Ret)
		note("f2345:instance", len(f2345[0].Args) == 1 && core.ArgName(f2345[0].Args[0]) == mil, core.ArgName(f2345[0].Args[0]))
		ka := kamf[0].Args
		keyC := strings.Join(sliceContent(kamf[0].Mem, ka[1]), " || ")
		note("CK||IK", keyC == "F2345.ck[0:]@0 || F2345.ik[0:]@0" && f2345[0].Index < kamf[0].Index, keyC)
		note("snn", ka[0].K == core.APtr && ka[0].Path == "p0" && ka[2].K == core.AStr && ka[2].Path == "p4" && ka[2].Lo == 0, core.ArgName(ka[0])+", "+core.ArgName(ka[2]))
		sq := strings.Join(sliceContent(kamf[0].Mem, ka[3]), ",")
		note("sqn-xor-ak", sq == "p2[0],p2[1],p2[2],p2[3],p2[4],p2[5]", sq)
		note("alg-keys-after-kamf", kamf[0].Index < alg[0].Index && alg[0].Args[0].K == core.APtr && alg[0].Args[0].Path == "p0", "")
		ra := rstar[0].Args
		note("res-star:instance", core.ArgName(ra[0]) == mil, core.ArgName(ra[0]))
		note("res-star:mcc-mnc", ra[1].K == core.AStr && ra[1].Path == "p6" && ra[2].K == core.AStr && ra[2].Path == "p5", core.ArgName(ra[1])+", "+core.ArgName(ra[2]))
		note("res-after-f2345", f2345[0].Index < rstar[0].Index, "")
		note("returns-res-star", o.Ret[0].K == core.ASlice && o.Ret[0].Path == "RES*" && o.Ret[0].Lo == 0, core.ArgName(o.Ret[0]))
	}
	if nSuccess == 0 {
		c.SoftUndecided("R5.chain: DeriveRESstarAndSetKey has no path that returns (every path ends in a fatal exit?)")
		return
	}
	pos := fn.Pos()
	if nNewSeen == 0 && nNewCSeen == 0 && res["constructors"] != nil && strings.HasPrefix(res["constructors"].got, "0 constructor calls") {
		// no path builds a github.com/wmnsk/milenage object at all: the derivation runs on another Milenage
		// implementation, which this rule does not model (unrecognised, not wrong)
		c.SoftUndecided("R5.op/R5.chain: DeriveRESstarAndSetKey does not build the Milenage object of github.com/wmnsk/milenage the rule models; the OP/OPc selection and the f2345/RES* wiring are not decided")
		return
	}
	if nNewSeen == 0 || nNewCSeen == 0 || (res["constructors"] != nil && !res["constructors"].ok) {
		c.Fail(RO, "tglib.DeriveRESstarAndSetKey:constructors", pos, "expected one milenage.New (OP) and one milenage.NewWithOPc (OPc) call, found them on %d and %d returning paths", nNewSeen, nNewCSeen)
	} else {
		for _, k := range []struct{ key, okd, fail string }{
			{"New:args", "New(K, OP, RAND)", "milenage.New must receive (K, OP, RAND), gets %s"},
			{"NewWithOPc:args", "NewWithOPc(K, OPc, RAND)", "milenage.NewWithOPc must receive (K, OPc, RAND), gets %s"},
			{"op-opc-branch", "OPc empty ⇒ New(OP); otherwise NewWithOPc(OPc)", "the OP/OPc constructors are not selected by `OpcValue == \"\"` (OP-only and OPc configurations must give the same keys): %s"},
		} {
			if a := res[k.key]; a != nil {
				c.Check(a.ok, RO, "tglib.DeriveRESstarAndSetKey:"+k.key, pos, k.okd, k.fail, a.got)
			}
		}
	}
	if !okCalls {
		c.Fail(R, "tglib.DeriveRESstarAndSetKey:calls", pos, "expected exactly one F2345, DerivateKamf, DerivateAlgKey and ComputeRESStar call on every returning path (%s)", callDetail)
		return
	}
	c.Sites(4)
	for _, k := range []struct{ rule, key, okd, fail string }{
		{R, "CK||IK", "key = append(CK, IK)", "the K_AUSF key must be CK||IK of the f2345 run, is %s"},
		{R, "snn", "DerivateKamf(ue, key, snName, …)", "DerivateKamf must receive the UE and the serving network name (gets %s)"},
		{R, "sqn-xor-ak", "SQN xor AK = AUTN[0:6]", "SQN xor AK must be octets 0..5 of AUTN, is %s"},
		{R, "alg-keys-after-kamf", "DerivateAlgKey(ue) after DerivateKamf", "the algorithm keys must be derived after K_AMF on the same UE%s"},
		{RO, "res-star:instance", "same Milenage instance as f2345", "RES* must be computed on the instance that ran f2345 (%s)"},
		{RO, "res-star:mcc-mnc", "ComputeRESStar(mcc, mnc)", "ComputeRESStar takes (mcc, mnc); it is given (%s) where mnc=p5, mcc=p6"},
		{RO, "res-after-f2345", "f2345 before RES*", "RES must be computed (f2345) before RES*%s"},
		{RO, "returns-res-star", "returns RES*", "the function must return the RES* it computed (returns %s)"},
	} {
		if a := res[k.key]; a != nil {
			c.Check(a.ok, k.rule, "tglib.DeriveRESstarAndSetKey:"+k.key, pos, k.okd, k.fail, a.got)
		}
	}
}
