#!/usr/bin/env python3
import json, jsonschema, glob, sys
ok = True
jsonschema.validate(json.load(open('/verif/MANIFEST.json')), json.load(open('/root/.vp/MANIFEST.schema.json')))
es = json.load(open('/root/.vp/EVIDENCE.schema.json'))
m = json.load(open('/verif/MANIFEST.json'))
for c in m['checks']:
    try:
        jsonschema.validate(json.load(open(c['evidence_file'])), es)
    except Exception as e:
        ok = False; print("BAD", c['evidence_file'], str(e)[:200])
print("valid" if ok else "INVALID", len(m['checks']), "checks")
sys.exit(0 if ok else 1)
