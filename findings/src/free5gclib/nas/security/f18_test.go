package security

import (
	"bytes"
	"sync"
	"testing"
)

// F18: NEA1/NIA1 share the package-level SNOW 3G state (snow3g.lfsr / snow3g.fsm):
// concurrent calls for different UEs corrupt each other's keystream.
// Run: go test -race -run TestF18 ./nas/security   (in src/free5gclib)
func TestF18(t *testing.T) {
	const G = 16
	keys := make([][16]byte, G)
	want := make([][]byte, G)
	for g := 0; g < G; g++ {
		for i := range keys[g] {
			keys[g][i] = byte(17*g + i)
		}
		buf := bytes.Repeat([]byte{byte(g)}, 61)
		if err := NASEncrypt(AlgCiphering128NEA1, keys[g], uint32(g), 1, 0, buf); err != nil {
			t.Fatal(err)
		}
		want[g] = buf
	}
	var wg sync.WaitGroup
	bad := make([]int, G)
	for g := 0; g < G; g++ {
		wg.Add(1)
		go func(g int) {
			defer wg.Done()
			for r := 0; r < 300; r++ {
				buf := bytes.Repeat([]byte{byte(g)}, 61)
				_ = NASEncrypt(AlgCiphering128NEA1, keys[g], uint32(g), 1, 0, buf)
				if !bytes.Equal(buf, want[g]) {
					bad[g]++
				}
			}
		}(g)
	}
	wg.Wait()
	n := 0
	for _, b := range bad {
		n += b
	}
	if n > 0 {
		t.Fatalf("%d of %d concurrent NEA1 results differ from the sequential ones", n, G*300)
	}
}
