package rules

import (
	"fmt"
	"go/token"
	"strings"

	"golang.org/x/tools/go/ssa"

	"stgverif/internal/core"
)

func init() { Registry["C17"] = c17 }

func c17(c *core.Ctx) map[string]interface{} {
	c.Explanation = "Static placement/partition/size check of the identifier conversion helpers (C17). Decided: (R11.sib, shared) PlmnIDToNas digit placement incl. filler F iff the MNC has not 3 digits; (R17.snssai) SnssaiToNas emits length 1 then SST when SD is empty, length 4 then SST then the decoded SD otherwise, on every path; (R17.amf) AmfIdToNas: region = octet 0, set = octet1<<2 | octet2[7:6], pointer = octet2[5:0] - the three results partition the 24 bits; (R17.ip) IPAddressToNgap produces BIT STRINGs of exactly 32/128/160 bits holding 4/16/20 octets (IPv4 first) selected by which addresses are given, IPAddressToString has exactly the cases 32/128/160, reads the IPv4 part from octets 0..3 and the IPv6 part from octets 4..19 resp. 0..15, and every index into the address octets is either a constant below the case's octet count or dominated by `index < len(octets)`; (R17.pco) Marshal writes the 0x80 header and then, per container, ID, length, contents from the same three fields UnMarshal fills; each Add* helper appends one container with the identifier of its option, LengthOfContents equal to the octets it carries, and holding its own copy of them (not a slice of the caller's address); UnMarshal's state machine reads ID (2 octets) / length (1) / contents (length) in that order, accounts 2/1/length consumed octets, appends each container exactly once - in the length state when the length is 0 (the input may end there), in the content state otherwise; the Add* helpers set LengthOfContents to the number of octets they append. (R17.snssai-ctor) the emulator's own S-NSSAI IEs are built with length 4 and the SD octets (or length 1 exactly when the SD string is empty); (R9.acc.*) the bit-field accessors of the NAS IE value types (GUTI/TMSI AMF-ID fields among them) as in C09. (R17.pco layouts) PCO.UnMarshal is folded for eight unit layouts (none; empty; with contents; mixed orders; three units; 255 content octets) with symbolic IDs and contents: the decoded list holds exactly the layout's units. NOT decided: the inverse laws as value equalities (net.IP formatting, hex decoding are trusted)."
	c.Assumptions = []string{"net.ParseIP/To4/To16, net.IP.String and encoding/hex are correct", "a BIT STRING value of n bits carries ceil(n/8) octets (guaranteed by the decoder, C14/C03)"}
	r11sibX(c)
	r17snssaiX(c)
	r17amf(c)
	r17ipX(c)
	r17pco(c)
	r17pcoid(c)
	r17snssaiCtor(c)
	r9acc(c)
	return nil
}

func r17snssai(c *core.Ctx) {
	const R = "R17.snssai"
	c.Rule(R, "SnssaiToNas: SD empty ⇒ [1, SST]; otherwise [4, SST, SD octets]")
	fn := mustFunc(c, pNasC, "SnssaiToNas")
	p := core.NewPather(fn)
	ev := func(in ssa.Instruction) string {
		if r, ok := in.(*ssa.Return); ok && len(r.Results) == 1 {
			return "ret"
		}
		return ""
	}
	br := func(cond ssa.Value) string {
		switch p.Path(cond) {
		case "(p0.Sd==\"\")":
			return "sdEmpty"
		case "(p0.Sd!=\"\")":
			return "sdPresent"
		}
		if strings.Contains(p.Path(cond), "hex.DecodeString") {
			if bo, ok := cond.(*ssa.BinOp); ok && bo.Op == token.NEQ {
				return "hexErr"
			}
			return "hexOk"
		}
		return "cond?{" + p.Path(cond) + "}"
	}
	// the returned value per predecessor path: evaluate the phi edge-wise
	var ret *ssa.Return
	for _, b := range fn.Blocks {
		for _, in := range b.Instrs {
			if r, ok := in.(*ssa.Return); ok {
				ret = r
			}
		}
	}
	_ = ev
	_ = br
	if ret == nil || len(ret.Results) != 1 {
		c.SoftUndecided("SnssaiToNas: single return not found")
		return
	}
	alts := map[string]bool{}
	if ph, ok := ret.Results[0].(*ssa.Phi); ok {
		for _, e := range ph.Edges {
			alts[p.Path(e)] = true
		}
	} else {
		alts[p.Path(ret.Results[0])] = true
	}
	sst := "[p0.Sst]"
	wantEmpty := "call:builtin.append(call:builtin.append(nil,[1])," + sst + ")"
	wantFull := "call:builtin.append(call:builtin.append(call:builtin.append(nil,[4])," + sst + "),call:encoding/hex.DecodeString(p0.Sd)#0)"
	errOnly := "call:builtin.append(call:builtin.append(nil,[4])," + sst + ")" // SD not hex: warning path
	c.Check(alts[wantEmpty], R, "nasConvert.SnssaiToNas:sd-empty", fn.Pos(), "[1, SST]", "with an empty SD the result must be length 1 followed by SST; alternatives are %v", keys(alts))
	c.Check(alts[wantFull], R, "nasConvert.SnssaiToNas:sd-present", fn.Pos(), "[4, SST, SD...]", "with an SD the result must be length 4, SST, then the SD octets; alternatives are %v", keys(alts))
	for a := range alts {
		if a != wantEmpty && a != wantFull && a != errOnly {
			c.Fail(R, "nasConvert.SnssaiToNas:other-result", fn.Pos(), "unexpected result form %s", clip(a))
		}
	}
	// the empty form is selected by Sd == ""
	okSel := false
	for _, b := range fn.Blocks {
		if iff, ok := b.Instrs[len(b.Instrs)-1].(*ssa.If); ok {
			cs := p.Path(iff.Cond)
			var emptySide *ssa.BasicBlock
			if cs == "(p0.Sd==\"\")" {
				emptySide = b.Succs[0]
			} else if cs == "(p0.Sd!=\"\")" {
				emptySide = b.Succs[1]
			}
			if emptySide != nil {
				for _, ci := range core.CallsTo(fn, "builtin.append") {
					if p.Path(ci.(*ssa.Call)) == wantEmpty && emptySide.Dominates(ci.Block()) {
						okSel = true
					}
				}
			}
		}
	}
	c.Check(okSel, R, "nasConvert.SnssaiToNas:selected-by-empty-sd", fn.Pos(), "short form iff Sd == \"\"", "the 1-octet-length form must be chosen exactly when the SD is empty")
}

func keys(m map[string]bool) []string {
	var out []string
	for k := range m {
		out = append(out, clip(k))
	}
	return out
}

func r17amf(c *core.Ctx) {
	const R = "R17.amf"
	c.Rule(R, "AmfIdToNas: region = octet 0; set = octet1<<2 | octet2>>6; pointer = octet2 & 0x3f (partition of 24 bits)")
	fn := mustFunc(c, pNasC, "AmfIdToNas")
	ba := core.NewBitAnalyzer(fn)
	var ret *ssa.Return
	for _, b := range fn.Blocks {
		for _, in := range b.Instrs {
			if r, ok := in.(*ssa.Return); ok && len(r.Results) == 3 {
				ret = r
			}
		}
	}
	if ret == nil {
		c.SoftUndecided("AmfIdToNas: return of (region, set, pointer) not found")
		return
	}
	o := func(i int) string { return fmt.Sprintf("call:encoding/hex.DecodeString(p0)#0[%d]", i) }
	rg, st, pt := ba.Bits(ret.Results[0]), ba.Bits(ret.Results[1]), ba.Bits(ret.Results[2])
	c.Check(rg != nil && len(rg) == 8 && rg.IsCopy(7, 0, o(0), 0), R, "nasConvert.AmfIdToNas:region", ret.Pos(), "octet 0", "AMF region id must be octet 0, is %s", rg.Describe())
	c.Check(st != nil && len(st) == 16 && st.IsCopy(9, 2, o(1), 0) && st.IsCopy(1, 0, o(2), 6) && st.IsConst(15, 10, 0), R, "nasConvert.AmfIdToNas:set", ret.Pos(), "octet1<<2 | octet2[7:6]", "AMF set id (10 bits) must be octet 1 followed by the two top bits of octet 2, is %s", st.Describe())
	c.Check(pt != nil && len(pt) == 8 && pt.IsCopy(5, 0, o(2), 0) && pt.IsConst(7, 6, 0), R, "nasConvert.AmfIdToNas:pointer", ret.Pos(), "octet2[5:0]", "AMF pointer (6 bits) must be the low six bits of octet 2, is %s", pt.Describe())
}

func r17ip(c *core.Ctx) {
	const R = "R17.ip"
	c.Rule(R, "IPAddressToNgap: 32/128/160 bits with 4/16/20 octets, IPv4 first; IPAddressToString: same three cases, in-range indexing, IPv6 part from octet 4")
	// ---- IPAddressToString
	fn := mustFunc(c, pNgapC, "IPAddressToString")
	p := core.NewPather(fn)
	base := "p0.Value.Bytes"
	cases := map[int64]bool{}
	nIdx := 0
	for _, b := range fn.Blocks {
		if iff, ok := b.Instrs[len(b.Instrs)-1].(*ssa.If); ok {
			if bo, isBo := iff.Cond.(*ssa.BinOp); isBo && bo.Op == token.EQL && p.Path(bo.X) == "p0.Value.BitLength" {
				if k, isK := core.ConstInt(bo.Y); isK {
					cases[k] = true
				}
			}
		}
		for _, in := range b.Instrs {
			ia, ok := in.(*ssa.IndexAddr)
			if !ok || p.Path(ia.X) != base {
				continue
			}
			nIdx++
			ids := guardingEq(p, dominatingCase(p, b, "p0.Value.BitLength"), "p0.Value.BitLength")
			bits := int64(-1)
			if len(ids) == 1 {
				bits = ids[0]
			}
			key := fmt.Sprintf("ngapConvert.IPAddressToString:case%d:index(%s)", bits, p.Path(ia.Index))
			if k, isK := core.ConstInt(ia.Index); isK {
				c.Check(bits > 0 && k >= 0 && k < bits/8, R, key, ia.Pos(), fmt.Sprintf("constant %d < %d octets", k, bits/8), "constant index %d is outside the %d octets of a %d-bit address", k, bits/8, bits)
				continue
			}
			// variable index: needs a dominating `index < len(Bytes)`
			idx := p.Path(ia.Index)
			okG := false
			for x := b; x != nil; x = x.Idom() {
				id := x.Idom()
				if id == nil {
					break
				}
				if iff, isIf := id.Instrs[len(id.Instrs)-1].(*ssa.If); isIf && id.Succs[0] == x && len(x.Preds) == 1 {
					if p.Path(iff.Cond) == "("+idx+"<call:builtin.len("+base+"))" {
						okG = true
					}
				}
			}
			c.Check(okG, R, key, ia.Pos(), "guarded by index < len(Bytes)", "index %s into the address octets is not bounded by len(Bytes): it runs past the end (panic) for every address of this form", idx)
		}
	}
	c.Sites(nIdx)
	c.Check(len(cases) == 3 && cases[32] && cases[128] && cases[160], R, "ngapConvert.IPAddressToString:cases", fn.Pos(), "32 / 128 / 160", "IPAddressToString must distinguish exactly the bit lengths 32, 128 and 160 (TS 38.414); cases found: %v", cases)
	// IPv6 part of the dual-stack case starts at octet 4: loop init 4 in the 160 case
	ok160 := false
	for _, l := range loopBounds(fn) {
		ids := guardingEq(p, dominatingCase(p, l.header, "p0.Value.BitLength"), "p0.Value.BitLength")
		if len(ids) == 1 && ids[0] == 160 && l.initOK && l.init == 4 && l.step == 1 && l.limitPath == "call:builtin.len("+base+")" {
			// and the appended element is Bytes[iv]
			for _, b := range fn.Blocks {
				for _, in := range b.Instrs {
					if ia, isIA := in.(*ssa.IndexAddr); isIA && p.Path(ia.X) == base && ia.Index == ssa.Value(l.phi) {
						ok160 = true
					}
				}
			}
		}
	}
	c.Check(ok160, R, "ngapConvert.IPAddressToString:dual-stack-ipv6-part", fn.Pos(), "IPv6 = octets 4..len-1", "in the 160-bit case the IPv6 address must be octets 4..19 (the IPv4 address occupies octets 0..3)")
	// ---- IPAddressToNgap
	g := mustFunc(c, pNgapC, "IPAddressToNgap")
	gp := core.NewPather(g)
	type form struct {
		bits  int64
		bytes string
		blk   *ssa.BasicBlock
	}
	var forms []form
	for _, b := range g.Blocks {
		var bl int64 = -1
		by := ""
		for _, in := range b.Instrs {
			st, ok := in.(*ssa.Store)
			if !ok {
				continue
			}
			ap := gp.Path(st.Addr)
			if strings.HasSuffix(ap, ".BitLength") {
				bl, _ = core.ConstInt(st.Val)
			}
			if strings.HasSuffix(ap, ".Bytes") {
				by = gp.Path(st.Val)
			}
		}
		if bl >= 0 {
			forms = append(forms, form{bl, by, b})
		}
	}
	v4 := "call:net.IP.To4(call:net.ParseIP(p0))"
	v4lit := "[" + v4 + "[0]," + v4 + "[1]," + v4 + "[2]," + v4 + "[3]]"
	seen := map[int64]bool{}
	for _, f := range forms {
		seen[f.bits] = true
		key := fmt.Sprintf("ngapConvert.IPAddressToNgap:%d-bit", f.bits)
		switch f.bits {
		case 32:
			c.Check(f.bytes == v4lit, R, key, f.blk.Instrs[0].Pos(), "4 octets of the IPv4 address", "a 32-bit address must carry the 4 IPv4 octets, carries %s", clip(f.bytes))
		case 128, 160:
			// Bytes is a loop-carried append of ipv6[i], i = 0..15, starting from [] (128) or the IPv4 literal (160)
			okL := false
			for _, l := range loopBounds(g) {
				if !(l.initOK && l.init == 0 && l.step == 1 && l.limitOK && l.limit == 16) || !l.header.Dominates(f.blk) {
					continue
				}
				for _, in := range l.header.Instrs {
					ph, isPhi := in.(*ssa.Phi)
					if !isPhi || gp.Path(ph) != f.bytes {
						continue
					}
					for _, e := range ph.Edges {
						s := gp.Path(e)
						if f.bits == 160 && s == v4lit {
							okL = true
						}
						if f.bits == 128 && (s == "[]" || s == "nil" || strings.HasPrefix(s, "makeslice(0") || s == "local:*[0]byte#0") {
							okL = true
						}
					}
				}
			}
			c.Check(okL, R, key, f.blk.Instrs[0].Pos(), map[int64]string{128: "16 IPv6 octets", 160: "4 IPv4 octets then 16 IPv6 octets"}[f.bits], "a %d-bit address must carry %d octets (%s); Bytes is %s", f.bits, f.bits/8, map[int64]string{128: "the IPv6 address", 160: "IPv4 first, then IPv6"}[f.bits], clip(f.bytes))
		default:
			c.Fail(R, key, f.blk.Instrs[0].Pos(), "transport layer addresses have 32, 128 or 160 bits (TS 38.414), not %d", f.bits)
		}
	}
	c.Check(seen[32] && seen[128] && seen[160], R, "ngapConvert.IPAddressToNgap:forms", g.Pos(), "32 / 128 / 160", "IPAddressToNgap must produce the three forms 32, 128 and 160 bits; produces %v", seen)
}

// dominatingCase walks up to the switch.body block that the case test leads to.
func dominatingCase(p *core.Pather, b *ssa.BasicBlock, v string) *ssa.BasicBlock {
	for x := b; x != nil; x = x.Idom() {
		if ids := guardingEq(p, x, v); len(ids) == 1 && ids[0] >= 0 {
			return x
		}
	}
	return b
}

func r17pco(c *core.Ctx) {
	const R = "R17.pco"
	c.Rule(R, "PCO Marshal/UnMarshal move ID(2) / length(1) / contents through the same fields in the same order; each container appended exactly once; Add* helpers' lengths match")
	r17pcoMarshalX(c, R)
	// UnMarshal: the layouts folded on the evaluator first (a wrong result there is a counterexample);
	// then the state machine's shape, which - when the decoder is one - extends it to every input
	decidedX, okX, whyX := r17pcoUnmarshalX(c, R)
	if decidedX && !okX {
		c.Fail(R, "nasConvert.PCO.UnMarshal:layouts", mustFunc(c, pNasC, "ProtocolConfigurationOptions.UnMarshal").Pos(), "PCO.UnMarshal must decode ID(2) LEN(1) CONTENTS(LEN) units into the list: %s", whyX)
		r17pcoAddX(c, R)
		return
	}
	if decidedX {
		c.Ok(R, "nasConvert.PCO.UnMarshal:layouts", mustFunc(c, pNasC, "ProtocolConfigurationOptions.UnMarshal").Pos(), "8 unit layouts folded with symbolic IDs and contents")
	}
	u := mustFunc(c, pNasC, "ProtocolConfigurationOptions.UnMarshal")
	up := core.NewPather(u)
	// state variable: the phi compared with 0,1,2
	type st struct {
		reads   []string
		appends int
		appCond []string
		dec     []string
		next    []int64
	}
	states := map[int64]*st{}
	var statePhi string
	for _, b := range u.Blocks {
		if iff, ok := b.Instrs[len(b.Instrs)-1].(*ssa.If); ok {
			if bo, isBo := iff.Cond.(*ssa.BinOp); isBo && bo.Op == token.EQL {
				if k, isK := core.ConstInt(bo.Y); isK && k >= 0 && k <= 2 && isIvName(up.Path(bo.X)) {
					statePhi = up.Path(bo.X)
				}
			}
		}
	}
	if statePhi == "" {
		if decidedX {
			c.Note("R17.pco: PCO.UnMarshal is not a state machine over a loop-carried state; it is decided for the folded layouts only")
			r17pcoAddX(c, R)
			return
		}
		c.SoftUndecided("PCO.UnMarshal: state machine (switch on a loop-carried state) not found (%s)", whyX)
		return
	}
	for _, b := range u.Blocks {
		ids := guardingEq(up, dominatingCase(up, b, statePhi), statePhi)
		if len(ids) != 1 || ids[0] < 0 {
			continue
		}
		s := states[ids[0]]
		if s == nil {
			s = &st{}
			states[ids[0]] = s
		}
		for _, in := range b.Instrs {
			switch x := in.(type) {
			case *ssa.Call:
				n := core.CalleeName(&x.Call)
				if n == "encoding/binary.Read" {
					s.reads = append(s.reads, up.Path(x.Call.Args[2]))
				}
				if n == "builtin.append" && strings.HasSuffix(up.Path(x.Call.Args[0]), ".ProtocolOrContainerList") {
					s.appends++
					s.appCond = append(s.appCond, innerCond(up, b, "LengthOfContents"))
				}
			case *ssa.BinOp:
				if x.Op == token.SUB && isIvName(up.Path(x.X)) && up.Path(x.X) != statePhi {
					s.dec = append(s.dec, up.Path(x.Y))
				}
			}
		}
	}
	// next-state: phi edges of the state variable
	for _, b := range u.Blocks {
		for _, in := range b.Instrs {
			ph, ok := in.(*ssa.Phi)
			if !ok || up.Path(ph) != statePhi {
				continue
			}
			for i, e := range ph.Edges {
				k, isK := core.ConstInt(e)
				if !isK {
					continue
				}
				pred := b.Preds[i]
				ids := guardingEq(up, dominatingCase(up, pred, statePhi), statePhi)
				if len(ids) == 1 && ids[0] >= 0 && states[ids[0]] != nil {
					states[ids[0]].next = append(states[ids[0]].next, k)
				}
			}
		}
	}
	get := func(k int64) *st {
		if states[k] == nil {
			return &st{}
		}
		return states[k]
	}
	s0, s1, s2 := get(0), get(1), get(2)
	ok0 := len(s0.reads) == 1 && strings.HasSuffix(s0.reads[0], ".ProtocolOrContainerID") && s0.appends == 0 && onlyVal(s0.dec, "2") && onlyInt(s0.next, 1)
	c.Check(ok0, R, "nasConvert.PCO.UnMarshal:state-id", u.Pos(), "read ID (2 octets) → length state", "ID state must read ProtocolOrContainerID, account 2 octets, append nothing and go to the length state; reads=%v consumed=%v appends=%d next=%v", s0.reads, s0.dec, s0.appends, s0.next)
	ok1 := len(s1.reads) == 1 && strings.HasSuffix(s1.reads[0], ".LengthOfContents") && onlyVal(s1.dec, "1") && onlyInt(s1.next, 2) && s1.appends == 1 && len(s1.appCond) == 1 && s1.appCond[0] == "==0"
	c.Check(ok1, R, "nasConvert.PCO.UnMarshal:state-length", u.Pos(), "read length (1 octet); append the container here iff its length is 0", "length state must read LengthOfContents, account 1 octet, go to the content state and append the container exactly when its length is 0 (the list may end right after an empty container); reads=%v consumed=%v appends=%d under %v next=%v", s1.reads, s1.dec, s1.appends, s1.appCond, s1.next)
	ok2 := len(s2.reads) == 1 && strings.HasSuffix(s2.reads[0], ".Contents") && onlyInt(s2.next, 0) && s2.appends == 1 && len(s2.appCond) == 1 && s2.appCond[0] == ">0" && len(s2.dec) == 1 && strings.HasSuffix(s2.dec[0], ".LengthOfContents")
	c.Check(ok2, R, "nasConvert.PCO.UnMarshal:state-content", u.Pos(), "read contents (length octets); append iff length > 0; back to ID state", "content state must read LengthOfContents octets into Contents, account them, append the container exactly when its length is > 0 and return to the ID state; reads=%v consumed=%v appends=%d under %v next=%v", s2.reads, s2.dec, s2.appends, s2.appCond, s2.next)
	r17pcoAddX(c, R)
}

func isIvName(s string) bool {
	if !strings.HasPrefix(s, "iv") || len(s) < 3 {
		return false
	}
	for _, r := range s[2:] {
		if r < '0' || r > '9' {
			return false
		}
	}
	return true
}

func widthIs(v ssa.Value, w int) bool { return bitWidth(v.Type()) == w }

func onlyVal(xs []string, v string) bool {
	if len(xs) == 0 {
		return false
	}
	for _, x := range xs {
		if x != v {
			return false
		}
	}
	return true
}

func onlyInt(xs []int64, v int64) bool {
	if len(xs) == 0 {
		return false
	}
	for _, x := range xs {
		if x != v {
			return false
		}
	}
	return true
}

// innerCond describes the nearest dominating test on <field> within the state: "==0", ">0", or "".
func innerCond(p *core.Pather, b *ssa.BasicBlock, field string) string {
	for x := b; x != nil; x = x.Idom() {
		id := x.Idom()
		if id == nil {
			break
		}
		iff, ok := id.Instrs[len(id.Instrs)-1].(*ssa.If)
		if !ok || len(x.Preds) != 1 {
			continue
		}
		bo, isBo := iff.Cond.(*ssa.BinOp)
		if !isBo || !strings.HasSuffix(p.Path(bo.X), "."+field) {
			continue
		}
		k, isK := core.ConstInt(bo.Y)
		if !isK || k != 0 {
			continue
		}
		taken := id.Succs[0] == x
		switch bo.Op {
		case token.EQL:
			if taken {
				return "==0"
			}
			return ">0"
		case token.GTR, token.NEQ:
			if taken {
				return ">0"
			}
			return "==0"
		}
	}
	return ""
}

// r17snssaiCtor: the emulator's own S-NSSAI IEs (UL NAS TRANSPORT constructors of
// nasTestpacket). TS 24.501 9.11.2.8: length 1 = SST only, length 4 = SST and SD.
// Whether an SD is present is a property of the model value (its SD string is
// empty or not), never of the SD's numeric value: SD 000000 is a slice
// differentiator like any other and must be sent with length 4.
func r17snssaiCtor(c *core.Ctx) {
	const R = "R17.snssai-ctor"
	c.Rule(R, "nasTestpacket: every S-NSSAI IE is built with length 4 and the SD octets, or with length 1 exactly when the model's SD string is empty")
	sp := c.P.SSAPkg(pNasTP)
	if sp == nil {
		c.Undecided("package %s not loaded", pNasTP)
	}
	n := 0
	fs := allFuncsOf(sp)
	if cp := c.P.SSAPkg(pNasC); cp != nil {
		fs = append(fs, allFuncsOf(cp)...) // a constructor may delegate the IE to a conversion helper
	}
	for _, f := range fs {
		p := core.NewPather(f)
		calls := core.CallsTo(f, pNasT+".SNSSAI.SetLen")
		ord := ordinals{}
		for _, ci := range calls {
			n++
			key := shortName(core.FuncName(f)) + ":" + ord.next("SNSSAI.SetLen")
			k, isK := core.ConstInt(ci.Common().Args[1])
			if !isK {
				c.SoftUndecided("%s: S-NSSAI length is not a constant (%s)", f.Name(), clip(p.Path(ci.Common().Args[1])))
				continue
			}
			var sdConds []string
			for _, cnd := range dominatingConds(p, ci.Block()) {
				if strings.Contains(cnd, "!=nil)") || strings.Contains(cnd, "==nil)") {
					continue
				}
				sdConds = append(sdConds, cnd)
			}
			emptyT := func(s string) bool {
				return strings.HasSuffix(s, `.Sd=="")=T`) || strings.HasSuffix(s, `.Sd!="")=F`) || strings.HasSuffix(s, `.Sd)==0)=T`) || strings.HasSuffix(s, `.Sd)!=0)=F`) || strings.HasSuffix(s, `.Sd)>0)=F`)
			}
			emptyF := func(s string) bool {
				return strings.HasSuffix(s, `.Sd=="")=F`) || strings.HasSuffix(s, `.Sd!="")=T`) || strings.HasSuffix(s, `.Sd)==0)=F`) || strings.HasSuffix(s, `.Sd)!=0)=T`) || strings.HasSuffix(s, `.Sd)>0)=T`)
			}
			hasSD := false
			recv := p.Path(ci.Common().Args[0])
			for _, o := range core.CallsTo(f, pNasT+".SNSSAI.SetSD") {
				if p.Path(o.Common().Args[0]) == recv && (o.Block() == ci.Block() || ci.Block().Dominates(o.Block()) || o.Block().Dominates(ci.Block())) {
					hasSD = true
				}
			}
			switch {
			case k == 4 && hasSD && len(sdConds) == 0:
				c.Ok(R, key, ci.Pos(), "length 4 with SD, unconditionally")
			case k == 4 && hasSD && len(sdConds) == 1 && emptyF(sdConds[0]):
				c.Ok(R, key, ci.Pos(), "length 4 with SD when the SD string is not empty")
			case k == 1 && !hasSD && len(sdConds) == 1 && emptyT(sdConds[0]):
				c.Ok(R, key, ci.Pos(), "length 1 when the SD string is empty")
			case k != 1 && k != 4:
				c.Fail(R, key, ci.Pos(), "S-NSSAI length %d: the emulator's S-NSSAI is SST (1) or SST+SD (4)", k)
			case k == 4 && !hasSD:
				c.Fail(R, key, ci.Pos(), "S-NSSAI announced with length 4 but the SD octets are not set on this path")
			default:
				c.Fail(R, key, ci.Pos(), "S-NSSAI length %d is chosen under %v: the presence of an SD must be decided on the model's SD string being empty, not on its value (SD 000000 would be sent as SST-only and no longer decodes to the configured slice)", k, sdConds)
			}
		}
	}
	if n < 1 {
		c.Undecided("R17.snssai-ctor: no S-NSSAI construction found in nasTestpacket (expected 3)")
	}
}
