package rules

import (
	"fmt"
	"strings"

	"golang.org/x/tools/go/ssa"

	"stgverif/internal/core"
)

// Evaluator-based Milenage rules (DESIGN §11.1). AES is summarised: NewCipher succeeds,
// BlockSize is 16, Encrypt number n writes the 16 sources "E<n>[i]" into its destination
// and its input octets are recorded. Everything else (rotations, constants, OPc, output
// slices) is read off the abstract memory, whatever loops, copies or helpers compute it.

type aesEvent struct {
	n   int
	in  [16]core.BitVec
	key core.AVal
}

type aesModel struct {
	evs  []*aesEvent
	keys []core.AVal
}

func (m *aesModel) install(ex *core.Exec) {
	ex.OnCall = func(ev *core.AEvent, mem *core.AMem) (core.AVal, bool) {
		switch ev.Callee {
		case "crypto/aes.NewCipher":
			if len(ev.Args) == 1 {
				m.keys = append(m.keys, ev.Args[0])
			}
			return core.AVal{K: core.ATuple, Elems: []core.AVal{{K: core.AUnknown, Path: fmt.Sprintf("aes#%d", len(m.keys)), NonNil: true}, core.NilArg()}}, true
		case "invoke:(crypto/cipher.Block).BlockSize":
			return core.AVal{K: core.AInt, Bits: core.ConstBits(16, 64)}, true
		case "invoke:(crypto/cipher.Block).Encrypt":
			if len(ev.Args) != 2 || ev.Args[0].K != core.ASlice || ev.Args[1].K != core.ASlice || ev.Args[0].Lo < 0 || ev.Args[1].Lo < 0 {
				return core.AVal{}, false
			}
			e := &aesEvent{n: len(m.evs) + 1}
			if len(m.keys) > 0 {
				e.key = m.keys[len(m.keys)-1]
			}
			for i := 0; i < 16; i++ {
				v := mem.Load(fmt.Sprintf("%s[%d]", ev.Args[1].Path, ev.Args[1].Lo+i), types8)
				if v.K == core.AInt {
					e.in[i] = v.Bits
				}
			}
			for i := 0; i < 16; i++ {
				mem.Store(fmt.Sprintf("%s[%d]", ev.Args[0].Path, ev.Args[0].Lo+i), core.ArgBits(fmt.Sprintf("E%d[%d]", e.n, i), 8, 8), nil)
			}
			m.evs = append(m.evs, e)
			return core.AVal{K: core.ATuple}, true
		}
		return core.AVal{}, false
	}
}

func srcByte(name string, i int) core.BitVec {
	return core.SourceVec(fmt.Sprintf("%s[%d]", name, i), 8)
}

// encOf returns the number n when v is E<n>[idx] xor with[idx] (idx given), else 0.
func encOf(v core.BitVec, idx int, with string) int {
	if len(v) != 8 || v[0].Kind != core.BSrc {
		return 0
	}
	for _, t := range strings.Split(strings.TrimSuffix(v[0].String(), ")"), "^") {
		t = strings.TrimPrefix(strings.TrimPrefix(t, "~"), "(")
		var n, i, b int
		if k, _ := fmt.Sscanf(t, "E%d[%d].%d", &n, &i, &b); k == 3 && i == idx {
			want := core.XorVec(srcByte(fmt.Sprintf("E%d", n), idx), srcByte(with, idx))
			if core.SameVec(v, want) {
				return n
			}
		}
	}
	return 0
}

func cell8(m *core.AMem, base string, i int) core.BitVec {
	v := m.Load(fmt.Sprintf("%s[%d]", base, i), nil)
	if v.K != core.AInt {
		return nil
	}
	return v.Bits
}

func milArgs(fn *ssa.Function, nilFrom int) []core.AVal {
	a := core.DefaultArgs(fn)
	for i := range a {
		if nilFrom >= 0 && i >= nilFrom {
			a[i] = core.NilArg()
		} else {
			a[i] = core.NonNilArg(a[i])
		}
	}
	return a
}

func r15f2345X(c *core.Ctx) {
	const R = "R15.const"
	fn := mustFunc(c, pMil, "milenageF2345")
	var m aesModel
	ex := core.NewExec()
	m.install(ex)
	outs, err := ex.Run(fn, milArgs(fn, -1), nil)
	var good *core.AOutcome
	for i := range outs {
		if !outs[i].Panicked && len(outs[i].Ret) == 1 && outs[i].Ret[0].K == core.ANil {
			if good != nil {
				good = nil
				break
			}
			good = &outs[i]
		}
	}
	if err != nil || good == nil || len(ex.Unsound) > 0 {
		c.SoftUndecided("R15.const: milenageF2345 could not be evaluated to one successful path (%v, %d outcomes, %v)", err, len(outs), ex.Unsound)
		return
	}
	mem := good.Mem
	// TEMP = E_K(RAND xor OPc)
	temp := 0
	for _, e := range m.evs {
		ok := true
		for j := 0; j < 16; j++ {
			if !core.SameVec(e.in[j], core.XorVec(srcByte("p2", j), srcByte("p0", j))) {
				ok = false
			}
		}
		if ok && temp == 0 {
			temp = e.n
		}
	}
	keyOK := len(m.keys) >= 1
	for _, k := range m.keys {
		if k.K != core.ASlice || k.Path != "p1" || k.Lo != 0 {
			keyOK = false
		}
	}
	c.Check(keyOK, R, "milenage.milenageF2345:aes-key", fn.Pos(), "AES keyed with K", "the block cipher must be keyed with K (parameter 1)")
	if temp == 0 {
		c.Fail(R, "milenage.milenageF2345:TEMP", fn.Pos(), "no AES encryption of RAND xor OPc (TEMP) on the successful path")
		return
	}
	c.Ok(R, "milenage.milenageF2345:TEMP", fn.Pos(), "TEMP = E_K(RAND xor OPc)")
	tempName := fmt.Sprintf("E%d", temp)
	// input of OUTk: rot(TEMP xor OPc, r) xor c, as octets: in[j] = (TEMP xor OPc)[(j+rot)%16], octet 15 xor c
	inputOK := func(n int, rot int, cst uint64) (bool, string) {
		if n <= 0 || n > len(m.evs) {
			return false, "no encryption feeds this output"
		}
		e := m.evs[n-1]
		for j := 0; j < 16; j++ {
			want := core.XorVec(srcByte(tempName, (j+rot)%16), srcByte("p0", (j+rot)%16))
			if j == 15 {
				want = core.XorVec(want, core.ConstBits(cst, 8))
			}
			if !core.SameVec(e.in[j], want) {
				return false, fmt.Sprintf("octet %d of the cipher input is %s", j, e.in[j].Describe())
			}
		}
		return true, ""
	}
	outOK := func(param string, from, n int) (int, string) {
		enc := 0
		for i := 0; i < n; i++ {
			v := cell8(mem, param, i)
			k := encOf(v, from+i, "p0")
			if k == 0 || (enc != 0 && k != enc) {
				return 0, fmt.Sprintf("%s[%d] is %s", param, i, v.Describe())
			}
			enc = k
		}
		return enc, ""
	}
	// with every optional output nil nothing may be written or dereferenced
	var m2 aesModel
	ex2 := core.NewExec()
	m2.install(ex2)
	outs2, err2 := ex2.Run(fn, milArgs(fn, 3), nil)
	nilOK := err2 == nil && len(ex2.Unsound) == 0
	for _, o := range outs2 {
		if o.Panicked {
			nilOK = false
		}
	}
	type spec struct {
		key, param string
		from, n    int
		rot        int
		cst        uint64
		want       string
	}
	e2, d2 := outOK("p3", 8, 8)
	ok2, why2 := inputOK(e2, 0, 1)
	c.Check(e2 != 0 && ok2, R, "milenage.milenageF2345:f2f5", fn.Pos(), "rot 0, c2=1, OUT2 = E_K(.) xor OPc",
		"f2/f5 must use rotation 0 and constant 1 and xor OPc over all 16 octets (%s %s)", d2, why2)
	c.Check(e2 != 0 && nilOK, R, "milenage.milenageF2345:RES", fn.Pos(), "RES = OUT2[8:16]", "RES must be octets 8..15 of OUT2 and written only when a buffer is given (%s; nil buffers tolerated %v)", d2, nilOK)
	eA, dA := outOK("p6", 0, 6)
	c.Check(eA != 0 && eA == e2 && nilOK, R, "milenage.milenageF2345:AK", fn.Pos(), "AK = OUT2[0:6]", "AK must be octets 0..5 of OUT2 and written only when a buffer is given (%s)", dA)
	for _, t := range []spec{
		{"f3/CK", "p4", 0, 16, 4, 2, "rot 4 octets (r3 = 32 bits), c3=2, E_K into the output, xor OPc"},
		{"f4/IK", "p5", 0, 16, 8, 4, "rot 8 octets (r4 = 64 bits), c4=4, E_K into the output, xor OPc"},
		{"f5*/AK*", "p7", 0, 6, 12, 8, "rot 12 octets (r5 = 96 bits), c5=8, AK* = (E_K(.) xor OPc)[0:6]"},
	} {
		e, d := outOK(t.param, t.from, t.n)
		ok, why := inputOK(e, t.rot, t.cst)
		c.Check(e != 0 && ok && nilOK, R, "milenage.milenageF2345:"+t.key, fn.Pos(), t.want,
			"%s must be E_K(rot(TEMP xor OPc, %d octets) xor %d) xor OPc, written only when a buffer is given (%s %s; nil buffers tolerated %v)", t.key, t.rot, t.cst, d, why, nilOK)
	}
	// every output on its own: the callers ask for subsets (Milenage_auts wants AK* alone, f5 alone is legal)
	for _, t := range []struct {
		name, param      string
		idx, from, n, rot int
		cst              uint64
	}{{"RES", "p3", 3, 8, 8, 0, 1}, {"CK", "p4", 4, 0, 16, 4, 2}, {"IK", "p5", 5, 0, 16, 8, 4}, {"AK", "p6", 6, 0, 6, 0, 1}, {"AK*", "p7", 7, 0, 6, 12, 8}} {
		okA, whyA := f2345Alone(fn, t.idx, t.param, t.from, t.n, t.rot, t.cst)
		c.Check(okA, R, "milenage.milenageF2345:"+t.name+":alone", fn.Pos(), t.name+" requested alone (other buffers nil) is the same function of (OPc, K, RAND)", "with only %s requested the output is wrong: %s", t.name, whyA)
	}
}

// f2345Alone: milenageF2345 with only the output buffer at parameter index keep given (the others
// nil): that output must still be the one its definition gives - E_K(rot(TEMP xor OPc, rot octets)
// xor cst) xor OPc, octets from.. - however the function shares work between the outputs.
func f2345Alone(fn *ssa.Function, keep int, param string, from, n, rot int, cst uint64) (bool, string) {
	var m aesModel
	ex := core.NewExec()
	m.install(ex)
	a := core.DefaultArgs(fn)
	for i := range a {
		if i >= 3 && i != keep {
			a[i] = core.NilArg()
		} else {
			a[i] = core.NonNilArg(a[i])
		}
	}
	outs, err := ex.Run(fn, a, nil)
	var good *core.AOutcome
	for i := range outs {
		if outs[i].Panicked {
			return false, "a path panics"
		}
		if len(outs[i].Ret) == 1 && outs[i].Ret[0].K == core.ANil {
			if good != nil {
				return true, "" // not one successful path: not judged here
			}
			good = &outs[i]
		}
	}
	if err != nil || good == nil || len(ex.Unsound) > 0 {
		return true, ""
	}
	temp := 0
	for _, e := range m.evs {
		ok := true
		for j := 0; j < 16; j++ {
			if !core.SameVec(e.in[j], core.XorVec(srcByte("p2", j), srcByte("p0", j))) {
				ok = false
			}
		}
		if ok && temp == 0 {
			temp = e.n
		}
	}
	if temp == 0 {
		return false, "TEMP is not computed"
	}
	tempName := fmt.Sprintf("E%d", temp)
	enc := 0
	for i := 0; i < n; i++ {
		v := cell8(good.Mem, param, i)
		k := encOf(v, from+i, "p0")
		if k == 0 || (enc != 0 && k != enc) {
			return false, fmt.Sprintf("%s[%d] is %s", param, i, v.Describe())
		}
		enc = k
	}
	if enc <= 0 || enc > len(m.evs) {
		return false, "no encryption feeds the output"
	}
	e := m.evs[enc-1]
	for j := 0; j < 16; j++ {
		want := core.XorVec(srcByte(tempName, (j+rot)%16), srcByte("p0", (j+rot)%16))
		if j == 15 {
			want = core.XorVec(want, core.ConstBits(cst, 8))
		}
		if !core.SameVec(e.in[j], want) {
			return false, fmt.Sprintf("octet %d of the cipher input is %s", j, e.in[j].Describe())
		}
	}
	return true, ""
}

func r15f1X(c *core.Ctx) {
	const R = "R15.const"
	fn := mustFunc(c, pMil, "milenageF1")
	var m aesModel
	ex := core.NewExec()
	m.install(ex)
	outs, err := ex.Run(fn, milArgs(fn, -1), nil)
	var good *core.AOutcome
	for i := range outs {
		if !outs[i].Panicked && len(outs[i].Ret) == 1 && outs[i].Ret[0].K == core.ANil {
			if good != nil {
				good = nil
				break
			}
			good = &outs[i]
		}
	}
	if err != nil || good == nil || len(ex.Unsound) > 0 {
		c.SoftUndecided("R15.const: milenageF1 could not be evaluated to one successful path (%v, %d outcomes, %v)", err, len(outs), ex.Unsound)
		return
	}
	mem := good.Mem
	temp := 0
	for _, e := range m.evs {
		ok := true
		for j := 0; j < 16; j++ {
			if !core.SameVec(e.in[j], core.XorVec(srcByte("p2", j), srcByte("p0", j))) {
				ok = false
			}
		}
		if ok && temp == 0 {
			temp = e.n
		}
	}
	// OUT1: mac_a = OUT1[0:8], mac_s = OUT1[8:16], OUT1 = E_K(.) xor OPc
	encA, encS := 0, 0
	okA, okS := true, true
	for i := 0; i < 8; i++ {
		kA := encOf(cell8(mem, "p5", i), i, "p0")
		kS := encOf(cell8(mem, "p6", i), 8+i, "p0")
		if kA == 0 || (encA != 0 && kA != encA) {
			okA = false
		}
		if kS == 0 || (encS != 0 && kS != encS) {
			okS = false
		}
		encA, encS = kA, kS
	}
	var m2 aesModel
	ex2 := core.NewExec()
	m2.install(ex2)
	outs2, err2 := ex2.Run(fn, milArgs(fn, 5), nil)
	nilOK := err2 == nil && len(ex2.Unsound) == 0
	for _, o := range outs2 {
		if o.Panicked {
			nilOK = false
		}
	}
	c.Check(okA && okS && encA == encS && nilOK, R, "milenage.milenageF1:MAC-A/MAC-S", fn.Pos(), "MAC-A = OUT1[0:8], MAC-S = OUT1[8:16]", "MAC-A must be octets 0..7 and MAC-S octets 8..15 of OUT1, each written under its own nil test (MAC-A ok=%v, MAC-S ok=%v, nil buffers tolerated %v)", okA, okS, nilOK)
	if !okA || temp == 0 {
		if temp == 0 {
			c.Fail(R, "milenage.milenageF1:r1-c1", fn.Pos(), "no AES encryption of RAND xor OPc (TEMP) on the successful path")
		}
		return
	}
	// input of OUT1: TEMP xor rot(IN1 xor OPc, 8 octets) xor c1 (= 0); IN1 = SQN(6) AMF(2) SQN AMF
	in1 := func(j int) core.BitVec {
		j %= 8
		if j < 6 {
			return srcByte("p3", j)
		}
		return srcByte("p4", j-6)
	}
	e := m.evs[encA-1]
	tempName := fmt.Sprintf("E%d", temp)
	okIn, okRot := true, true
	detail := ""
	for j := 0; j < 16; j++ {
		want := core.XorVec(srcByte(tempName, j), core.XorVec(in1((j+8)%16), srcByte("p0", (j+8)%16)))
		if !core.SameVec(e.in[j], want) {
			okRot = false
			detail = fmt.Sprintf("octet %d of the cipher input is %s", j, e.in[j].Describe())
			// is it at least built from the right IN1 octets at some rotation? (tells IN1 errors from rotation errors)
			for r := 0; r < 16; r++ {
				alt := core.XorVec(srcByte(tempName, j), core.XorVec(in1((j+r)%16), srcByte("p0", (j+r)%16)))
				if core.SameVec(e.in[j], alt) {
					okIn = okIn && true
				}
			}
		}
	}
	_ = okIn
	c.Check(okRot, R, "milenage.milenageF1:IN1", fn.Pos(), "IN1 = SQN || AMF || SQN || AMF", "the f1 cipher input must be TEMP xor rot(IN1 xor OPc, 8 octets) with IN1 = SQN(6)||AMF(2) twice (%s)", detail)
	c.Check(okRot, R, "milenage.milenageF1:r1-c1", fn.Pos(), "rot 8 octets (r1 = 64 bits), c1 = 0", "f1 must rotate IN1 xor OPc by 8 octets and use no constant (%s)", detail)
}

func r15opcX(c *core.Ctx) {
	const R = "R15.const"
	fn := mustFunc(c, pMil, "GenerateOPC")
	var m aesModel
	ex := core.NewExec()
	m.install(ex)
	outs, err := ex.Run(fn, milArgs(fn, -1), nil)
	var good *core.AOutcome
	for i := range outs {
		if !outs[i].Panicked && len(outs[i].Ret) == 2 && outs[i].Ret[1].K == core.ANil {
			good = &outs[i]
		}
	}
	if err != nil || good == nil || len(ex.Unsound) > 0 {
		c.SoftUndecided("R15.const: GenerateOPC could not be evaluated to a successful path (%v, %d outcomes, %v)", err, len(outs), ex.Unsound)
		return
	}
	okK := len(m.keys) == 1 && m.keys[0].K == core.ASlice && m.keys[0].Path == "p0" && m.keys[0].Lo == 0
	okE := false
	enc := 0
	for _, e := range m.evs {
		all := true
		for j := 0; j < 16; j++ {
			if !core.SameVec(e.in[j], srcByte("p1", j)) {
				all = false
			}
		}
		if all {
			okE, enc = true, e.n
		}
	}
	okX := false
	if r := good.Ret[0]; r.K == core.ASlice && r.Lo >= 0 && enc != 0 {
		okX = true
		for j := 0; j < 16; j++ {
			v := cell8(good.Mem, r.Path, r.Lo+j)
			if !core.SameVec(v, core.XorVec(srcByte(fmt.Sprintf("E%d", enc), j), srcByte("p1", j))) {
				okX = false
			}
		}
	}
	c.Check(okE && okX && okK, R, "milenage.GenerateOPC", fn.Pos(), "OPc = E_K(OP) xor OP", "OPc must be E_K(OP) xor OP (key=K ok %v, encrypt OP ok %v, xor OP ok %v)", okK, okE, okX)
}

// ---------------------------------------------------------------- R15.flow on the evaluator
// Milenage_check / Milenage_auts are interpreted with f1, f2345, os_memcmp and the slice-equality
// predicates summarised: f2345 writes the named octets RES/CK/IK/AK/AK* of its (OPc, K, RAND)
// into the buffers it is given, f1 number n writes MACA<n>/MACS<n> and records the SQN and AMF
// octets it was handed, os_memcmp number n returns the signed source cmp<n>, an equality
// predicate the boolean eq<n>. The flow is then read off the outcomes: which comparison
// results lead to which return value, and what the compared and produced octets are.

type milF1 struct {
	n          int
	sqn, amf   []string
	triple     string
	macA, macS bool
}

type milCmp struct {
	n    int
	a, b []string
	len  int
	kind string // memcmp | equal
}

type milFlow struct {
	f1    map[int]*milF1
	cmps  map[int]*milCmp
	f2345 map[int][]string // index -> outputs requested ("RES","CK",...), with the triple first
}

func (mf *milFlow) install(ex *core.Exec) {
	mf.f1, mf.cmps, mf.f2345 = map[int]*milF1{}, map[int]*milCmp{}, map[int][]string{}
	cells := func(m *core.AMem, v core.AVal, n int) []string {
		var out []string
		if v.K != core.ASlice || v.Lo < 0 {
			return []string{"?" + core.ArgName(v)}
		}
		for i := 0; i < n; i++ {
			out = append(out, core.ArgName(m.Load(fmt.Sprintf("%s[%d]", v.Path, v.Lo+i), types8)))
		}
		return out
	}
	fill := func(m *core.AMem, v core.AVal, name string, n int) bool {
		if v.K != core.ASlice || v.Lo < 0 {
			return false
		}
		for i := 0; i < n; i++ {
			m.Store(fmt.Sprintf("%s[%d]", v.Path, v.Lo+i), core.ArgBits(fmt.Sprintf("%s[%d]", name, i), 8, 8), nil)
		}
		return true
	}
	ex.OnCall = func(ev *core.AEvent, m *core.AMem) (core.AVal, bool) {
		a := ev.Args
		switch ev.Callee {
		case pMil + ".milenageF2345":
			if len(a) != 8 {
				return core.AVal{}, false
			}
			t := core.ArgName(a[0]) + "," + core.ArgName(a[1]) + "," + core.ArgName(a[2])
			outs := []string{t}
			for i, o := range []struct {
				name string
				n    int
			}{{"RES", 8}, {"CK", 16}, {"IK", 16}, {"AK", 6}, {"AK*", 6}} {
				if fill(m, a[3+i], o.name+"("+t+")", o.n) {
					outs = append(outs, o.name)
				}
			}
			mf.f2345[ev.Index] = outs
			return core.NilArg(), true
		case pMil + ".milenageF1":
			if len(a) != 7 {
				return core.AVal{}, false
			}
			f := &milF1{n: ev.Index, sqn: cells(m, a[3], 6), amf: cells(m, a[4], 2), triple: core.ArgName(a[0]) + "," + core.ArgName(a[1]) + "," + core.ArgName(a[2])}
			f.macA = fill(m, a[5], fmt.Sprintf("MACA%d", ev.Index), 8)
			f.macS = fill(m, a[6], fmt.Sprintf("MACS%d", ev.Index), 8)
			mf.f1[ev.Index] = f
			return core.NilArg(), true
		case pMil + ".os_memcmp":
			if len(a) == 3 {
				if n, ok := a[2].ConstVal(); ok && n <= 64 {
					mf.cmps[ev.Index] = &milCmp{n: ev.Index, a: cells(m, a[0], int(n)), b: cells(m, a[1], int(n)), len: int(n), kind: "memcmp"}
					return core.ArgNamed(fmt.Sprintf("cmp%d", ev.Index), ev.Site.Type()), true
				}
			}
		case "reflect.DeepEqual", "bytes.Equal":
			if len(a) == 2 && a[0].K == core.ASlice && a[1].K == core.ASlice && a[0].Len >= 0 && a[0].Len == a[1].Len {
				mf.cmps[ev.Index] = &milCmp{n: ev.Index, a: cells(m, a[0], a[0].Len), b: cells(m, a[1], a[1].Len), len: a[0].Len, kind: "equal"}
				return core.ArgBits(fmt.Sprintf("eq%d", ev.Index), 1, 1), true
			}
		}
		return core.AVal{}, false
	}
}

func xorNames(x, y string, n, off int) []string {
	var out []string
	for i := 0; i < n; i++ {
		a, b := fmt.Sprintf("%s[%d]", x, off+i), fmt.Sprintf("%s[%d]", y, i)
		if b < a {
			a, b = b, a
		}
		out = append(out, "("+a+"⊕"+b+")")
	}
	return out
}

func sameStrs(a, b []string) bool { return strings.Join(a, ",") == strings.Join(b, ",") }

func retInt(o core.AOutcome) (int64, bool) {
	if len(o.Ret) != 1 {
		return 0, false
	}
	k, ok := o.Ret[0].ConstVal()
	return int64(k), ok
}

func r15checkX(c *core.Ctx) {
	const R = "R15.flow"
	c.Rule(R, "Milenage_check / Milenage_auts: SQN recovery, resync iff memcmp(rxSQN, SQN, 6) <= 0, accept iff MAC-A equal over 8 octets; AUTS built/verified with AMF 00 00 over the UE's SQN")
	fn := mustFunc(c, pMil, "Milenage_check")
	// Milenage_check(opc, k, sqn, _rand, autn, ik, ck, res, res_len, auts)
	if len(fn.Params) != 10 {
		c.SoftUndecided("R15.flow: Milenage_check does not have its ten parameters")
		return
	}
	var mf milFlow
	ex := core.NewExec()
	mf.install(ex)
	args := core.DefaultArgs(fn)
	for i := range args {
		args[i] = core.NonNilArg(args[i])
	}
	outs, err := ex.Run(fn, args, nil)
	if err != nil || len(ex.Unsound) > 0 {
		c.SoftUndecided("R15.flow: Milenage_check could not be evaluated (%v %v)", err, ex.Unsound)
		return
	}
	const T = "p0,p1,p3"
	ak := "AK(" + T + ")"
	akStar := "AK*(" + T + ")"
	rx := xorNames("p4", ak, 6, 0) // autn[i] ^ AK[i]; names sorted inside
	for i := range rx {
		a, b := fmt.Sprintf("%s[%d]", ak, i), fmt.Sprintf("p4[%d]", i)
		if b < a {
			a, b = b, a
		}
		rx[i] = "(" + a + "⊕" + b + ")"
	}
	okFirst, okRx, okFresh, okGuard, okResync, okMac := true, true, true, true, true, true
	sawAccept, sawResync := false, false
	why := map[string]string{}
	for _, o := range outs {
		if o.Panicked {
			continue
		}
		rv, isK := retInt(o)
		if !isK {
			continue
		}
		// events of this path, in order
		var f2, f1s, cms []int
		for _, ev := range o.Trace {
			switch {
			case ev.Callee == pMil+".milenageF2345":
				f2 = append(f2, ev.Index)
			case ev.Callee == pMil+".milenageF1":
				f1s = append(f1s, ev.Index)
			case mf.cmps[ev.Index] != nil && (ev.Callee == pMil+".os_memcmp" || ev.Callee == "reflect.DeepEqual" || ev.Callee == "bytes.Equal"):
				cms = append(cms, ev.Index)
			}
		}
		if len(f2) == 0 {
			continue
		}
		// first f2345: RES, CK, IK, AK of (OPc, K, RAND) into the caller's buffers and a local AK
		first := mf.f2345[f2[0]]
		if !(len(first) == 5 && first[0] == T && first[1] == "RES" && first[2] == "CK" && first[3] == "IK" && first[4] == "AK") {
			okFirst = false
			why["f2345"] = fmt.Sprint(first)
		}
		if len(cms) == 0 {
			continue
		}
		fresh := mf.cmps[cms[0]]
		ueSqn := []string{"p2[0]", "p2[1]", "p2[2]", "p2[3]", "p2[4]", "p2[5]"}
		if fresh.kind != "memcmp" || fresh.len != 6 || !sameStrs(fresh.b, ueSqn) {
			okFresh = false
			why["freshness"] = fmt.Sprintf("compares %v with %v over %d octets", fresh.a, fresh.b, fresh.len)
		}
		if !sameStrs(fresh.a, rx) {
			okRx = false
			why["rx-sqn"] = fmt.Sprint(fresh.a)
		}
		sf, hasSign := o.SFacts[fmt.Sprintf("cmp%d", fresh.n)]
		older := hasSign && sf[1] <= 0 // memcmp(rx, ue) <= 0
		newer := hasSign && sf[0] >= 1
		switch rv {
		case -2:
			sawResync = true
			if !older {
				okFresh = false
				why["freshness"] = "resynchronisation is answered on a path where memcmp(rxSQN, ueSQN, 6) <= 0 is not established"
			}
			// AK* requested alone, AUTS = (SQN_ue xor AK*) || f1*(SQN_ue, 00 00)
			good := len(f2) == 2 && len(f1s) == 1
			if good {
				second := mf.f2345[f2[1]]
				good = len(second) == 2 && second[0] == T && second[1] == "AK*"
				f := mf.f1[f1s[0]]
				good = good && f.triple == T && sameStrs(f.sqn, ueSqn) && sameStrs(f.amf, []string{"0", "0"}) && !f.macA && f.macS
				var auts []string
				for i := 0; i < 14; i++ {
					auts = append(auts, core.ArgName(o.Mem.Load(fmt.Sprintf("p9[%d]", i), types8)))
				}
				var want []string
				for i := 0; i < 6; i++ {
					a, b := fmt.Sprintf("%s[%d]", akStar, i), fmt.Sprintf("p2[%d]", i)
					if b < a {
						a, b = b, a
					}
					want = append(want, "("+a+"⊕"+b+")")
				}
				for i := 0; i < 8; i++ {
					want = append(want, fmt.Sprintf("MACS%d[%d]", f.n, i))
				}
				if !sameStrs(auts, want) {
					good = false
					why["resync"] = fmt.Sprintf("AUTS is %v", auts)
				}
			}
			if !good {
				okResync = false
			}
		case 0:
			sawAccept = true
			if !newer {
				okGuard = false
			}
			good := len(f1s) == 1 && len(cms) == 2
			if good {
				f := mf.f1[f1s[0]]
				mc := mf.cmps[cms[1]]
				var macA, autnMac []string
				for i := 0; i < 8; i++ {
					macA = append(macA, fmt.Sprintf("MACA%d[%d]", f.n, i))
					autnMac = append(autnMac, fmt.Sprintf("p4[%d]", 8+i))
				}
				good = f.triple == T && sameStrs(f.sqn, rx) && sameStrs(f.amf, []string{"p4[6]", "p4[7]"}) && f.macA && !f.macS &&
					mc.len == 8 && ((sameStrs(mc.a, macA) && sameStrs(mc.b, autnMac)) || (sameStrs(mc.b, macA) && sameStrs(mc.a, autnMac)))
				// accepted only when the comparison says equal
				if mc.kind == "memcmp" {
					sf2, has2 := o.SFacts[fmt.Sprintf("cmp%d", mc.n)]
					good = good && has2 && sf2[0] == 0 && sf2[1] == 0
				} else {
					f2v, has2 := o.Facts[fmt.Sprintf("eq%d", mc.n)]
					good = good && has2 && f2v[0] == 1
				}
				if !good {
					why["mac"] = fmt.Sprintf("f1 over sqn %v amf %v; compares %v with %v over %d", f.sqn, f.amf, mc.a, mc.b, mc.len)
				}
			}
			if !good {
				okMac = false
			}
		}
	}
	pos := fn.Pos()
	c.Check(okFirst, R, "milenage.Milenage_check:f2345", pos, "f2345(OPc,K,RAND → RES,CK,IK,AK)", "first f2345 call must produce RES, CK, IK and AK; produces %s", why["f2345"])
	c.Check(okRx, R, "milenage.Milenage_check:rx-sqn", pos, "rxSQN = AUTN[0:6] xor AK", "the received SQN must be AUTN[i] xor AK[i]; the freshness test compares %s", why["rx-sqn"])
	c.Check(okFresh && sawResync, R, "milenage.Milenage_check:freshness", pos, "resync iff memcmp(rxSQN, SQN, 6) <= 0", "freshness test must be memcmp(rxSQN, ueSQN, 6) <= 0 (all 6 octets): %s", why["freshness"])
	c.Check(okGuard && sawAccept, R, "milenage.Milenage_check:freshness-guards-accept", pos, "MAC-A is verified only after SQN was found greater than the UE's",
		"acceptance (return 0) can be reached without the freshness test memcmp(rxSQN, ueSQN, 6) <= 0 having been evaluated and found false: an AUTN whose SQN is not greater than the UE's (a replay) is accepted on that path")
	c.Check(okResync && sawResync, R, "milenage.Milenage_check:resync", pos, "AUTS = (SQN_ue xor AK*) || f1*(SQN_ue, AMF 00 00)", "resynchronisation must compute AK* (f5*), AUTS[0:6] = SQN_ue xor AK*, AUTS[6:14] = f1*(SQN_ue, AMF=0000): %s", why["resync"])
	c.Check(okMac && sawAccept, R, "milenage.Milenage_check:mac", pos, "accept iff memcmp(f1(rxSQN, AUTN.AMF), AUTN[8:], 8) == 0", "acceptance must compare MAC-A = f1(rxSQN, AMF of AUTN) with AUTN[8:16] over all 8 octets and reject on any difference: %s", why["mac"])
}

func r15autsX(c *core.Ctx) {
	const R = "R15.flow"
	fn := mustFunc(c, pMil, "Milenage_auts")
	// Milenage_auts(opc, k, _rand, auts, sqn)
	if len(fn.Params) != 5 {
		c.SoftUndecided("R15.flow: Milenage_auts does not have its five parameters")
		return
	}
	var mf milFlow
	ex := core.NewExec()
	mf.install(ex)
	args := core.DefaultArgs(fn)
	for i := range args {
		args[i] = core.NonNilArg(args[i])
	}
	outs, err := ex.Run(fn, args, nil)
	if err != nil || len(ex.Unsound) > 0 {
		c.SoftUndecided("R15.flow: Milenage_auts could not be evaluated (%v %v)", err, ex.Unsound)
		return
	}
	const T = "p0,p1,p2"
	akStar := "AK*(" + T + ")"
	var sqn []string
	for i := 0; i < 6; i++ {
		a, b := fmt.Sprintf("%s[%d]", akStar, i), fmt.Sprintf("p3[%d]", i)
		if b < a {
			a, b = b, a
		}
		sqn = append(sqn, "("+a+"⊕"+b+")")
	}
	okRec, okCmp, sawOK := true, true, false
	whyR, whyC := "", "none"
	for _, o := range outs {
		rv, isK := retInt(o)
		if !isK || o.Panicked {
			continue
		}
		var f2, f1s, cms []int
		for _, ev := range o.Trace {
			switch {
			case ev.Callee == pMil+".milenageF2345":
				f2 = append(f2, ev.Index)
			case ev.Callee == pMil+".milenageF1":
				f1s = append(f1s, ev.Index)
			case mf.cmps[ev.Index] != nil:
				cms = append(cms, ev.Index)
			}
		}
		if rv != 0 {
			continue
		}
		sawOK = true
		good := len(f2) == 1 && len(f1s) == 1
		if good {
			second := mf.f2345[f2[0]]
			f := mf.f1[f1s[0]]
			good = len(second) == 2 && second[0] == T && second[1] == "AK*" && f.triple == T && sameStrs(f.sqn, sqn) && sameStrs(f.amf, []string{"0", "0"}) && !f.macA && f.macS
			var out []string
			for i := 0; i < 6; i++ {
				out = append(out, core.ArgName(o.Mem.Load(fmt.Sprintf("p4[%d]", i), types8)))
			}
			good = good && sameStrs(out, sqn)
			if !good {
				whyR = fmt.Sprintf("f5* outputs %v; f1* over sqn %v amf %v; sqn out %v", second, f.sqn, f.amf, out)
			}
		}
		if !good {
			okRec = false
		}
		goodC := len(cms) == 1 && len(f1s) == 1
		if goodC {
			mc := mf.cmps[cms[0]]
			var macS, autsMac []string
			for i := 0; i < 8; i++ {
				macS = append(macS, fmt.Sprintf("MACS%d[%d]", f1s[0], i))
				autsMac = append(autsMac, fmt.Sprintf("p3[%d]", 6+i))
			}
			goodC = mc.len == 8 && ((sameStrs(mc.a, macS) && sameStrs(mc.b, autsMac)) || (sameStrs(mc.b, macS) && sameStrs(mc.a, autsMac)))
			if mc.kind == "memcmp" {
				sf, has := o.SFacts[fmt.Sprintf("cmp%d", mc.n)]
				goodC = goodC && has && sf[0] == 0 && sf[1] == 0
			} else {
				fv, has := o.Facts[fmt.Sprintf("eq%d", mc.n)]
				goodC = goodC && has && fv[0] == 1
			}
			whyC = fmt.Sprintf("%s(%v, %v) over %d octets", mc.kind, mc.a, mc.b, mc.len)
		}
		if !goodC {
			okCmp = false
		}
	}
	c.Check(okRec && sawOK, R, "milenage.Milenage_auts:recompute", fn.Pos(), "SQN = AUTS[0:6] xor AK*; MAC-S = f1*(SQN, AMF 00 00)", "AUTS validation must recover SQN with AK* and recompute f1* over it with AMF 0000 (%s)", whyR)
	c.Check(okCmp && sawOK, R, "milenage.Milenage_auts:mac-s-compare", fn.Pos(), "all 8 octets of MAC-S compared with AUTS[6:14]", "MAC-S must be compared with AUTS[6:14] over all 8 octets and only equality accepted; comparison found: %s", whyC)
}
