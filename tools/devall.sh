#!/bin/bash
# devall.sh [props...] : run quick checks of the pinned tree with the development binary ($SV, default /tmp/svdev); print exit codes
SV=${SV:-/tmp/svdev}
P=${@:-C01 C02 C03 C04 C05 C06 C07 C08 C09 C10 C11 C12 C13 C14 C15 C16 C17 C18 C19 C20}
for p in $P; do ( VERIF_DIR=/verif VERIF_EVIDENCE_DIR=/tmp/evdev $SV $p quick > /tmp/devall.$p.txt 2>&1; echo "$p exit=$?" ) & done; wait
