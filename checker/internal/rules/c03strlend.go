package rules

import (
	"fmt"
	"go/types"
	"os"
	"strings"

	"stgverif/internal/core"
)

// R3.strlen, decoder side, on the evaluator: parseBitString / parseOctetString are interpreted with
// parseLength summarised (it returns the named value LEN and announces no further fragment), helpers
// of the package entered. Each successful outcome that read a length says which range it handed to
// parseLength and how many bits / octets it then took: LEN + lb with the constrained range
// ub-lb+1 (both bounds present, ub <= 65535), LEN itself with the general determinant (range -1).
// The count is read off the result (BitString.BitLength) resp. the cursor (octets consumed).
func r3strlenDecX(c *core.Ctx, R, fnName string) bool {
	fn := mustFunc(c, pAper, fnName)
	if len(fn.Params) != 4 {
		return false
	}
	isBit := strings.HasSuffix(fnName, "parseBitString")
	ex := core.NewExec()
	ex.MaxStates = 4096
	ex.LoopBound = 1
	nLen := 0
	ex.OnCall = func(ev *core.AEvent, m *core.AMem) (core.AVal, bool) {
		n := ev.Callee
		switch {
		case n == pAper+".perBitData.parseLength":
			nLen++
			if len(ev.Args) == 3 && ev.Args[2].K == core.APtr {
				m.Store(ev.Args[2].Path, core.AVal{K: core.AInt, Bits: core.ConstBits(0, 1)}, types.Typ[types.Bool])
			}
			return core.AVal{K: core.ATuple, Elems: []core.AVal{core.ArgBits("LEN", 64, 64), core.NilArg()}}, true
		case n == pAper+".perBitData.parseAlignBits":
			return core.NilArg(), true
		case n == pAper+".perBitData.getBitString":
			return core.AVal{K: core.ATuple, Elems: []core.AVal{{K: core.ASlice, Path: "bits", Lo: 0, Len: -1, NonNil: true}, core.NilArg()}}, true
		case strings.HasSuffix(n, ".perTrace"), strings.HasSuffix(n, ".perBitLog"), strings.HasPrefix(n, "fmt."), strings.HasPrefix(n, "log."), strings.Contains(n, "logrus"), strings.Contains(n, "logger"):
			return core.OpaqueRet(ev), true
		}
		return core.AVal{}, false
	}
	args := core.DefaultArgs(fn)
	args[0] = core.NonNilArg(args[0])
	outs, err := ex.Run(fn, args, nil)
	if err != nil || len(ex.Unsound) > 0 {
		c.Note("R3.strlen: evaluator model of %s not used (%v %v)", fnName, err, ex.Unsound)
		return false
	}
	lb, ub := "p2", "p3"
	ok, why := true, ""
	sawCon, sawGen, nProbe := false, false, 0
	for _, o := range outs {
		if o.Panicked || len(o.Ret) != 2 || o.Ret[1].K != core.ANil {
			continue
		}
		var lenEv *core.AEvent
		for i := range o.Trace {
			if o.Trace[i].Callee == pAper+".perBitData.parseLength" {
				if lenEv != nil {
					lenEv = nil
					break
				}
				lenEv = &o.Trace[i]
			}
		}
		if os.Getenv("VERIF_DEBUG") != "" {
			n := 0
			for i := range o.Trace {
				if o.Trace[i].Callee == pAper+".perBitData.parseLength" {
					n++
				}
			}
			fmt.Printf("DEBUG strlenD %s: %d parseLength events, conds=%v\n", fnName, n, o.Conds)
		}
		if lenEv == nil || len(lenEv.Args) != 3 {
			continue
		}
		// the count taken after the length
		var count core.AVal
		if isBit {
			if os.Getenv("VERIF_DEBUG") != "" {
				fmt.Printf("DEBUG strlenD bit ret0=%s K=%d elems=%d\n", clip(o.Ret[0].String()), o.Ret[0].K, len(o.Ret[0].Elems))
			}
			if o.Ret[0].K != core.AAgg || len(o.Ret[0].Elems) != 2 {
				continue
			}
			count = o.Ret[0].Elems[1]
		} else {
			end := o.Mem.Load("p0.byteOffset", types.Typ[types.Uint64])
			count = end
		}
		if count.K != core.AInt {
			continue
		}
		cc, terms, okL := core.LinForm(count.Bits)
		if !okL {
			if os.Getenv("VERIF_DEBUG") != "" {
				fmt.Printf("DEBUG strlenD %s count not linear: %s\n", fnName, count)
			}
			continue
		}
		if !isBit {
			if terms["p0.byteOffset"] != 1 {
				continue
			}
			delete(terms, "p0.byteOffset")
		}
		if terms["LEN"] != 1 {
			if os.Getenv("VERIF_DEBUG") != "" {
				fmt.Printf("DEBUG strlenD %s: no LEN term: cc=%d terms=%v count=%s\n", fnName, cc, terms, count)
			}
			continue // the path took nothing that depends on the length (an empty string)
		}
		nProbe++
		rng := lenEv.Args[1]
		lbNil, lbKnown := o.Nils[lb]
		ubNil, ubKnown := o.Nils[ub]
		hasBoth := lbKnown && !lbNil && ubKnown && !ubNil
		ubSmall := false
		if f, has := o.SFacts[ub]; has && f[1] <= 65535 {
			ubSmall = true
		}
		other := 0
		for t := range terms {
			if t != "LEN" && t != lb {
				other++
			}
		}
		addsLB := terms[lb] == 1
		desc := fmt.Sprintf("range %s, count LEN%+d%s", clip(nm(rng)), cc, map[bool]string{true: "+lb", false: ""}[addsLB])
		if os.Getenv("VERIF_DEBUG") != "" {
			fmt.Printf("DEBUG strlenD %s: %s nils=%v sfacts=%v terms=%v\n", fnName, desc, o.Nils, o.SFacts, terms)
		}
		if other > 0 || cc != 0 || (terms[lb] != 0 && terms[lb] != 1) {
			ok, why = false, "after the length the decoder takes "+clip(nm(count))+", not LEN or LEN + lb"
			continue
		}
		if k, isK := rng.ConstVal(); isK && int64(k) == -1 {
			sawGen = true
			if addsLB && ubKnown && ubNil {
				if c.Once("strlen-semi:" + fnName) {
					c.Except(R, "aper."+fnName+":semi-constrained", fn.Pos(), "semi-constrained size (lower bound without upper bound): the decoder adds lb to a general length, mirroring the encoder; no NGAP type has such a constraint (R3.schema)")
				}
				continue
			}
			if addsLB {
				ok, why = false, "with the general length determinant the count is LEN + lb, want the length itself (X.691 10.9.3.5: the count is sent as it is)"
			}
			continue
		}
		wantR := "(1+(" + ub + "-" + lb + "))"
		wantLB := true
		if lbKnown && lbNil {
			// no lower bound given: it is 0, the range is ub+1 and nothing is added
			wantR, wantLB = "(1+"+ub+")", false
		}
		if f, has := core.FactOf(o.SFacts, o.Facts, wantR, 64); has && f[1] < 1 {
			continue
		}
		sawCon = true
		if nm(rng) != wantR || addsLB != wantLB {
			ok, why = false, fmt.Sprintf("with a constrained size the decoder reads the length with range %s and takes %s; want range ub-lb+1 and LEN + lb", clip(nm(rng)), desc)
		}
		_ = hasBoth
		if !(ubKnown && !ubNil) || !lbKnown || !ubSmall {
			ok, why = false, fmt.Sprintf("the constrained form (range %s) is used on a path that has not established the upper bound with ub <= 65535", clip(nm(rng)))
		}
	}
	if nProbe == 0 || !sawCon || !sawGen {
		c.Note("R3.strlen: evaluator model of %s not used (%d probes, constrained seen %v, general seen %v)", fnName, nProbe, sawCon, sawGen)
		return false
	}
	if strlenEncDecided[c] == nil {
		strlenEncDecided[c] = map[string]bool{}
	}
	strlenEncDecided[c][fnName] = true
	short := strings.TrimPrefix(fnName, "perBitData.")
	c.Check(ok, R, "aper."+short+":length-offset", fn.Pos(), fmt.Sprintf("constrained: range ub-lb+1, count LEN+lb (both bounds, ub <= 65535); otherwise range -1, count LEN (%d evaluated outcomes)", nProbe),
		"%s: %s (X.691 10.9.3.3 / 10.9.3.5)", short, why)
	return true
}
