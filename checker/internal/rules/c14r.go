package rules

import (
	"fmt"
	"go/token"
	"go/types"
	"strings"

	"golang.org/x/tools/go/ssa"

	"stgverif/internal/core"
)

// R14.reflect: the codec's trace helpers take a value as interface{} and look at it through
// reflection (perBitLog: Uint() when the kind is Uint64, Bytes() otherwise). reflect.Value
// methods panic on a value of the wrong kind, so the static type of what every call site boxes
// decides whether the helper can panic: for each call site the helper's control flow is walked
// with the kind tests folded for that type, and every reflect.Value method reached has to be
// defined for it. The helpers are found (any function of package aper that hands an interface
// parameter to reflect.ValueOf / reflect.TypeOf), not named.

var reflectValid = map[string]func(t types.Type) bool{
	"Uint":  func(t types.Type) bool { return basicInfo(t)&types.IsUnsigned != 0 },
	"Int":   func(t types.Type) bool { b := basicInfo(t); return b&types.IsInteger != 0 && b&types.IsUnsigned == 0 },
	"Float": func(t types.Type) bool { return basicInfo(t)&types.IsFloat != 0 },
	"Bool":  func(t types.Type) bool { return basicInfo(t)&types.IsBoolean != 0 },
	"Bytes": func(t types.Type) bool {
		s, ok := t.Underlying().(*types.Slice)
		if !ok {
			return false
		}
		b, isB := s.Elem().Underlying().(*types.Basic)
		return isB && b.Kind() == types.Uint8
	},
	"Len": func(t types.Type) bool {
		switch u := t.Underlying().(type) {
		case *types.Slice, *types.Array, *types.Map, *types.Chan:
			return true
		case *types.Basic:
			return u.Info()&types.IsString != 0
		}
		return false
	},
	"Index": func(t types.Type) bool {
		switch u := t.Underlying().(type) {
		case *types.Slice, *types.Array:
			return true
		case *types.Basic:
			return u.Info()&types.IsString != 0
		}
		return false
	},
	"Elem": func(t types.Type) bool {
		switch t.Underlying().(type) {
		case *types.Pointer, *types.Interface:
			return true
		}
		return false
	},
	"NumField": func(t types.Type) bool { _, ok := t.Underlying().(*types.Struct); return ok },
	"Field":    func(t types.Type) bool { _, ok := t.Underlying().(*types.Struct); return ok },
	"IsNil": func(t types.Type) bool {
		switch t.Underlying().(type) {
		case *types.Pointer, *types.Interface, *types.Slice, *types.Map, *types.Chan, *types.Signature:
			return true
		}
		return false
	},
}

func basicInfo(t types.Type) types.BasicInfo {
	if b, ok := t.Underlying().(*types.Basic); ok {
		return b.Info()
	}
	return 0
}

// reflectKindOf: the reflect.Kind number of a static type (reflect's enumeration).
func reflectKindOf(t types.Type) int64 {
	switch u := t.Underlying().(type) {
	case *types.Basic:
		switch u.Kind() {
		case types.Bool:
			return 1
		case types.Int:
			return 2
		case types.Int8:
			return 3
		case types.Int16:
			return 4
		case types.Int32:
			return 5
		case types.Int64:
			return 6
		case types.Uint:
			return 7
		case types.Uint8:
			return 8
		case types.Uint16:
			return 9
		case types.Uint32:
			return 10
		case types.Uint64:
			return 11
		case types.Uintptr:
			return 12
		case types.Float32:
			return 13
		case types.Float64:
			return 14
		case types.String:
			return 24
		}
	case *types.Array:
		return 17
	case *types.Chan:
		return 18
	case *types.Signature:
		return 19
	case *types.Interface:
		return 20
	case *types.Map:
		return 21
	case *types.Pointer:
		return 22
	case *types.Slice:
		return 23
	case *types.Struct:
		return 25
	}
	return -1
}

type reflectHelper struct {
	fn    *ssa.Function
	param int
}

func reflectHelpers(c *core.Ctx) []reflectHelper {
	var out []reflectHelper
	sp := c.P.SSAPkg(pAper)
	if sp == nil {
		return nil
	}
	for _, f := range allFuncsOf(sp) {
		for i, p := range f.Params {
			if _, isI := p.Type().Underlying().(*types.Interface); !isI {
				continue
			}
			// the parameter is looked at through reflection only, and the reflect.Value stays in
			// the helper (a codec entry point that walks its argument is R3/R14.guard's business)
			uses, local := false, true
			for _, r := range core.Referrers(p) {
				call, ok := r.(*ssa.Call)
				if !ok {
					if _, isDbg := r.(*ssa.DebugRef); !isDbg {
						local = false
					}
					continue
				}
				switch core.CalleeName(call.Common()) {
				case "reflect.ValueOf":
					uses = true
					for _, r2 := range core.Referrers(call) {
						c2, isCall := r2.(*ssa.Call)
						if _, isDbg := r2.(*ssa.DebugRef); isDbg {
							continue
						}
						if !isCall || !strings.HasPrefix(core.CalleeName(c2.Common()), "reflect.Value.") || len(c2.Call.Args) == 0 || c2.Call.Args[0] != ssa.Value(call) {
							local = false
							continue
						}
						// a method that hands out another reflect.Value (Elem, Field, Index, …) lets it travel on
						if named, isN := c2.Type().(*types.Named); isN && named.Obj().Pkg() != nil && named.Obj().Pkg().Path() == "reflect" && named.Obj().Name() == "Value" {
							local = false
						}
					}
				case "reflect.TypeOf":
					uses = true
				default:
					local = false
				}
			}
			if uses && local {
				out = append(out, reflectHelper{f, i})
			}
		}
	}
	return out
}

// reflectPanicsFor walks h for a boxed value of static type t; it returns the reflect.Value
// method that would panic ("" when none is reached) and whether the walk understood the helper.
func reflectPanicsFor(h reflectHelper, t types.Type) (bad string, understood bool) {
	p := h.fn.Params[h.param]
	isOf := func(v ssa.Value, callee string) bool {
		call, ok := v.(*ssa.Call)
		return ok && core.CalleeName(call.Common()) == callee && len(call.Call.Args) == 1 && call.Call.Args[0] == ssa.Value(p)
	}
	isKind := func(v ssa.Value) bool {
		call, ok := v.(*ssa.Call)
		if !ok {
			return false
		}
		if call.Call.IsInvoke() && call.Call.Method.Name() == "Kind" && isOf(call.Call.Value, "reflect.TypeOf") {
			return true
		}
		return core.CalleeName(call.Common()) == "reflect.Value.Kind" && len(call.Call.Args) == 1 && isOf(call.Call.Args[0], "reflect.ValueOf")
	}
	kind := reflectKindOf(t)
	if kind < 0 {
		return "", false
	}
	understood = true
	seen := map[*ssa.BasicBlock]bool{}
	var walk func(b *ssa.BasicBlock)
	walk = func(b *ssa.BasicBlock) {
		if seen[b] || bad != "" {
			return
		}
		seen[b] = true
		for _, in := range b.Instrs {
			switch x := in.(type) {
			case *ssa.Call:
				name := core.CalleeName(x.Common())
				if strings.HasPrefix(name, "reflect.Value.") && len(x.Call.Args) >= 1 && isOf(x.Call.Args[0], "reflect.ValueOf") {
					m := strings.TrimPrefix(name, "reflect.Value.")
					switch m {
					case "Kind", "Type", "IsValid", "Interface", "String", "CanInterface":
						continue
					}
					valid, known := reflectValid[m]
					if !known {
						understood = false
						continue
					}
					if !valid(t) {
						bad = m
						return
					}
				}
			case *ssa.If:
				if bo, ok := x.Cond.(*ssa.BinOp); ok && (bo.Op == token.EQL || bo.Op == token.NEQ) {
					var k int64
					var isK, lhs bool
					if isKind(bo.X) {
						k, isK = core.ConstInt(bo.Y)
						lhs = true
					} else if isKind(bo.Y) {
						k, isK = core.ConstInt(bo.X)
						lhs = true
					}
					if lhs && isK {
						taken := (k == kind) == (bo.Op == token.EQL)
						if taken {
							walk(b.Succs[0])
						} else {
							walk(b.Succs[1])
						}
						return
					}
				}
			}
		}
		for _, s := range b.Succs {
			walk(s)
		}
	}
	walk(h.fn.Blocks[0])
	return bad, understood
}

func r14reflect(c *core.Ctx) {
	const R = "R14.reflect"
	c.Rule(R, "what the codec boxes for its reflection-based trace helpers has a kind for which every reflect.Value method the helper reaches is defined (a wrong kind panics)")
	hs := reflectHelpers(c)
	if len(hs) == 0 {
		c.SoftUndecided("%s: no reflection-based helper found in package aper (the trace helpers were confirmed by hand)", R)
		return
	}
	n := 0
	sp := c.P.SSAPkg(pAper)
	ord := ordinals{}
	for _, h := range hs {
		c.Analysed(core.FuncName(h.fn))
		for _, f := range allFuncsOf(sp) {
			for _, ci := range core.CallsTo(f, core.FuncName(h.fn)) {
				args := ci.Common().Args
				if h.param >= len(args) {
					continue
				}
				n++
				key := ord.next(shortFn(f) + ":" + h.fn.Name())
				mi, isMI := args[h.param].(*ssa.MakeInterface)
				if !isMI {
					if k, isK := args[h.param].(*ssa.Const); isK && k.IsNil() {
						c.Fail(R, key, ci.Pos(), "%s hands a nil interface to %s, whose reflect.TypeOf(value).Kind() panics on it", shortFn(f), h.fn.Name())
						continue
					}
					c.SoftUndecided("%s: %s passes %s a value whose dynamic type is not visible at the call", R, shortFn(f), h.fn.Name())
					continue
				}
				t := mi.X.Type()
				bad, understood := reflectPanicsFor(h, t)
				if !understood {
					c.SoftUndecided("%s: the reflection in %s is not of a form the rule follows (for %s)", R, h.fn.Name(), t.String())
					continue
				}
				c.Check(bad == "", R, key, ci.Pos(), fmt.Sprintf("boxes a %s: every reflect.Value method %s reaches for this kind is defined", t.String(), h.fn.Name()),
					"%s hands %s a %s: for this kind the helper reaches reflect.Value.%s, which panics (the decoder dies on the input that takes this path)", shortFn(f), h.fn.Name(), t.String(), bad)
			}
		}
	}
	c.Sites(n)
	c.Floor(R, n, 9)
}
