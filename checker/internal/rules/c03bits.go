package rules

import (
	"fmt"
	"go/types"

	"golang.org/x/tools/go/ssa"

	"stgverif/internal/core"
)

// R3.bits / R4.bits: where the bits go. The bit writer (putBitString) and the bit readers
// (GetBitString, GetBitsValue) are interpreted for every bit offset 0..7 and every length of 1..33
// bits (up to five octets: all alignments of head, middle and tail octets occur) with symbolic octets;
// the bit-provenance of every output octet has to be the one the bit stream defines: output stream
// position p holds input stream position p - offset, nothing else is set. Each (offset, length) pair
// is one case of a finite partition of the primitive's control flow - the loops have constant bounds
// in each - and the data stay symbolic, so a case covers all 2^length contents.

const bitsMaxLen = 33

func srcBit(name string, idx int) core.Bit { return core.Bit{Kind: core.BSrc, Src: name, Idx: idx} }

// streamByte: octet j of a stream whose position p carries at(p) (nil: a zero bit).
func streamByte(j int, at func(p int) *core.Bit) core.BitVec {
	out := make(core.BitVec, 8)
	for k := 0; k < 8; k++ {
		out[7-k] = core.Bit{Kind: core.BZero}
		if b := at(8*j + k); b != nil {
			out[7-k] = *b
		}
	}
	return out
}

func symOctets(m *core.AMem, obj string, n int, lastBits int) {
	for i := 0; i < n; i++ {
		bv := make(core.BitVec, 8)
		for b := 0; b < 8; b++ {
			bv[b] = srcBit(fmt.Sprintf("%s[%d]", obj, i), b)
			if i == n-1 && lastBits > 0 && b < 8-lastBits {
				bv[b] = core.Bit{Kind: core.BZero} // padding bits of the last octet are clear (R3.mask / the callers' contract)
			}
		}
		m.Store(fmt.Sprintf("%s[%d]", obj, i), core.AVal{K: core.AInt, Bits: bv}, nil)
	}
}

// traceOpaque: the codec's trace output has no effect on the encoding.
func traceOpaque(ev *core.AEvent, _ *core.AMem) (core.AVal, bool) {
	switch ev.Callee {
	case pAper + ".perTrace", pAper + ".perRawBitLog", pAper + ".perBitLog", "fmt.Sprintf":
		return core.OpaqueRet(ev), true
	}
	return core.AVal{}, false
}

func allPanicked(outs []core.AOutcome) bool {
	for _, o := range outs {
		if !o.Panicked {
			return false
		}
	}
	return len(outs) > 0
}

func lastCond(o core.AOutcome) string {
	if len(o.Conds) == 0 {
		return ""
	}
	return o.Conds[len(o.Conds)-1]
}

func oneLive(outs []core.AOutcome) (core.AOutcome, bool) {
	var live []core.AOutcome
	for _, o := range outs {
		if !o.Panicked {
			live = append(live, o)
		}
	}
	if len(live) != 1 {
		return core.AOutcome{}, false
	}
	return live[0], true
}

func r3bits(c *core.Ctx) {
	if !c.Once("r3bits") {
		return
	}
	const R = "R3.bits"
	c.Rule(R, "putBitString: for every bit offset and every length of 1..33 bits the string's bits follow the bits already written, in order, and nothing else is set; the offset advances by the length")
	fn := mustFunc(c, pAper, "perRawBitData.putBitString")
	if len(fn.Params) != 3 {
		c.SoftUndecided("%s: putBitString does not have the (pd, bytes, numBits) signature", R)
		return
	}
	u8 := types.Typ[types.Uint8]
	bad := ""
	cases := 0
	for off := 0; off < 8 && bad == ""; off++ {
		for n := 1; n <= bitsMaxLen && bad == ""; n++ {
			used := off
			if off == 0 {
				used = 8
			}
			mem := core.NewMem()
			// the octet in progress: its first `used` bits are written, the rest is clear
			cur := make(core.BitVec, 8)
			for b := 0; b < 8; b++ {
				cur[b] = core.Bit{Kind: core.BZero}
				if b >= 8-used {
					cur[b] = srcBit("out[0]", b)
				}
			}
			mem.Store("out[0]", core.AVal{K: core.AInt, Bits: cur}, nil)
			mem.Store("p0.bytes", core.AVal{K: core.ASlice, Path: "out", Lo: 0, Len: 1, NonNil: true}, nil)
			mem.Store("p0.bitsOffset", core.AVal{K: core.AInt, Bits: core.ConstBits(uint64(off), 64)}, nil)
			nIn := (n + 7) / 8
			symOctets(mem, "in", nIn, n%8)
			ex := core.NewExec()
			ex.OnCall = traceOpaque
			ex.Bounds = true
			args := []core.AVal{{K: core.APtr, Path: "p0", NonNil: true}, {K: core.ASlice, Path: "in", Lo: 0, Len: nIn, NonNil: true}, {K: core.AInt, Bits: core.ConstBits(uint64(n), 64)}}
			outs, err := ex.Run(fn, args, mem)
			o, one := oneLive(outs)
			if err == nil && len(outs) > 0 && allPanicked(outs) {
				bad = fmt.Sprintf("offset %d, %d bits: putBitString panics (%s)", off, n, lastCond(outs[0]))
				break
			}
			if err != nil || !one || len(ex.Unsound) > 0 {
				c.SoftUndecided("%s: putBitString could not be folded for offset %d, %d bits (%v, %d outcomes, %v)", R, off, n, err, len(outs), ex.Unsound)
				return
			}
			cases++
			if len(o.Ret) == 1 && o.Ret[0].NonNil {
				bad = fmt.Sprintf("offset %d, %d bits: an error is returned", off, n)
				break
			}
			res := o.Mem.Load("p0.bytes", nil)
			wantLen := (used + n + 7) / 8
			if res.K != core.ASlice || res.Lo < 0 || res.Len != wantLen {
				bad = fmt.Sprintf("offset %d, %d bits: the output has %s octets, want %d", off, n, core.ArgName(res), wantLen)
				break
			}
			for j := 0; j < wantLen && bad == ""; j++ {
				got := o.Mem.Load(fmt.Sprintf("%s[%d]", res.Path, res.Lo+j), u8)
				want := streamByte(j, func(p int) *core.Bit {
					switch {
					case p < used:
						b := srcBit("out[0]", 7-p)
						return &b
					case p < used+n:
						q := p - used
						b := srcBit(fmt.Sprintf("in[%d]", q/8), 7-q%8)
						return &b
					}
					return nil
				})
				if got.K != core.AInt || !core.SameVec(got.Bits, want) {
					bad = fmt.Sprintf("offset %d, %d bits: output octet %d is %s, want %s", off, n, j, got, want.Describe())
				}
			}
			if bad != "" {
				break
			}
			bo := o.Mem.Load("p0.bitsOffset", types.Typ[types.Uint])
			if k, isK := bo.ConstVal(); !isK || int(k) != (off+n)%8 {
				bad = fmt.Sprintf("offset %d, %d bits: the bit offset becomes %s, want %d", off, n, bo, (off+n)%8)
			}
		}
	}
	c.Sites(cases)
	c.Check(bad == "", R, "aper.putBitString:bit-placement", fn.Pos(), fmt.Sprintf("%d (offset, length) cases, symbolic octets", cases), "putBitString misplaces bits: %s", bad)
	r3bitsValue(c)
}

// r3bitsValue: putBitsValue(value, n) writes the n low bits of value, most significant first, after
// the bits already written - for every offset and every n of 1..64, value symbolic below 2^n. The
// loop that stores the octets stops when the rest of the value is zero: on such a path the facts say
// which high bits are zero, and the octets it left alone are those bits.
func r3bitsValue(c *core.Ctx) {
	const R = "R3.bits"
	fn := mustFunc(c, pAper, "perRawBitData.putBitsValue")
	if len(fn.Params) != 3 {
		c.SoftUndecided("%s: putBitsValue does not have the (pd, value, numBits) signature", R)
		return
	}
	u8 := types.Typ[types.Uint8]
	bad := ""
	cases := 0
	for off := 0; off < 8 && bad == ""; off++ {
		for n := 1; n <= 64 && bad == ""; n++ {
			used := off
			if off == 0 {
				used = 8
			}
			mem := core.NewMem()
			cur := make(core.BitVec, 8)
			for b := 0; b < 8; b++ {
				cur[b] = core.Bit{Kind: core.BZero}
				if b >= 8-used {
					cur[b] = srcBit("out[0]", b)
				}
			}
			mem.Store("out[0]", core.AVal{K: core.AInt, Bits: cur}, nil)
			mem.Store("p0.bytes", core.AVal{K: core.ASlice, Path: "out", Lo: 0, Len: 1, NonNil: true}, nil)
			mem.Store("p0.bitsOffset", core.AVal{K: core.AInt, Bits: core.ConstBits(uint64(off), 64)}, nil)
			ex := core.NewExec()
			ex.OnCall = traceOpaque
			ex.Bounds = true
			val := core.ArgBits("p1", 64, n)
			args := []core.AVal{{K: core.APtr, Path: "p0", NonNil: true}, val, {K: core.AInt, Bits: core.ConstBits(uint64(n), 64)}}
			outs, err := ex.Run(fn, args, mem)
			if err != nil || len(ex.Unsound) > 0 || len(outs) == 0 {
				c.SoftUndecided("%s: putBitsValue could not be folded for offset %d, %d bits (%v, %d outcomes, %v)", R, off, n, err, len(outs), ex.Unsound)
				return
			}
			cases++
			for _, o := range outs {
				if o.Panicked {
					bad = fmt.Sprintf("offset %d, %d bits: a path panics", off, n)
					break
				}
				if len(o.Ret) == 1 && o.Ret[0].NonNil {
					bad = fmt.Sprintf("offset %d, %d bits: a value below 2^%d is refused", off, n, n)
					break
				}
				zero := func(b core.Bit) bool {
					if b.Kind != core.BSrc || b.Src != "p1" {
						return false
					}
					for k, f := range o.Facts {
						if f[0] != 0 || f[1] != 0 {
							continue
						}
						if k == "p1" {
							return true
						}
						var h, l int
						if nn, _ := fmt.Sscanf(k, "p1<%d:%d>", &h, &l); nn == 2 && l <= b.Idx && b.Idx <= h {
							return true
						}
					}
					return false
				}
				res := o.Mem.Load("p0.bytes", nil)
				wantLen := (used + n + 7) / 8
				if res.K != core.ASlice || res.Lo < 0 || res.Len != wantLen {
					bad = fmt.Sprintf("offset %d, %d bits: the output has %s octets, want %d", off, n, core.ArgName(res), wantLen)
					break
				}
				for j := 0; j < wantLen && bad == ""; j++ {
					got := o.Mem.Load(fmt.Sprintf("%s[%d]", res.Path, res.Lo+j), u8)
					want := streamByte(j, func(p int) *core.Bit {
						switch {
						case p < used:
							b := srcBit("out[0]", 7-p)
							return &b
						case p < used+n:
							b := srcBit("p1", n-1-(p-used))
							if zero(b) {
								return nil
							}
							return &b
						}
						return nil
					})
					gb := got.Bits
					if got.K == core.AInt {
						gb = make(core.BitVec, len(got.Bits))
						for i, b := range got.Bits {
							gb[i] = b
							if zero(b) && b.More == "" && !b.Neg {
								gb[i] = core.Bit{Kind: core.BZero}
							}
						}
					}
					if got.K != core.AInt || !core.SameVec(gb, want) {
						bad = fmt.Sprintf("offset %d, %d bits: output octet %d is %s, want %s", off, n, j, got, want.Describe())
					}
				}
				if bad != "" {
					break
				}
				bo := o.Mem.Load("p0.bitsOffset", types.Typ[types.Uint])
				if k, isK := bo.ConstVal(); !isK || int(k) != (off+n)%8 {
					bad = fmt.Sprintf("offset %d, %d bits: the bit offset becomes %s, want %d", off, n, bo, (off+n)%8)
				}
			}
		}
	}
	c.Sites(cases)
	c.Check(bad == "", R, "aper.putBitsValue:bit-placement", fn.Pos(), fmt.Sprintf("%d (offset, length) cases, symbolic value", cases), "putBitsValue misplaces bits: %s", bad)
}

var r4bitsResult = map[*core.Ctx]bool{}

// r4bitsHolds runs R4.bits (once) and reports whether both bit readers passed.
func r4bitsHolds(c *core.Ctx) bool {
	r4bits(c)
	return r4bitsResult[c]
}

func r4bits(c *core.Ctx) {
	if !c.Once("r4bits") {
		return
	}
	r4bitsResult[c] = true
	const R = "R4.bits"
	c.Rule(R, "GetBitString / GetBitsValue: for every bit offset and every length of 1..33 (64) bits the result is the source's bits offset..offset+length-1 in order, left-aligned resp. as a big-endian number, nothing else set; a source one octet too short is refused without reading past its end")
	u8 := types.Typ[types.Uint8]
	for _, name := range []string{"GetBitString", "GetBitsValue"} {
		fn := mustFunc(c, pAper, name)
		if len(fn.Params) != 3 {
			c.SoftUndecided("%s: %s does not have the (src, bitsOffset, numBits) signature", R, name)
			continue
		}
		bad := ""
		cases := 0
		maxN := bitsMaxLen
		if name == "GetBitsValue" {
			maxN = 64
		}
	outer:
		for off := 0; off < 8; off++ {
			for n := 1; n <= maxN; n++ {
				mem := core.NewMem()
				nSrc := (off + n + 7) / 8
				symOctets(mem, "src", nSrc, 0)
				ex := core.NewExec()
				ex.OnCall = traceOpaque
				ex.Bounds = true
				args := []core.AVal{{K: core.ASlice, Path: "src", Lo: 0, Len: nSrc, NonNil: true}, {K: core.AInt, Bits: core.ConstBits(uint64(off), 64)}, {K: core.AInt, Bits: core.ConstBits(uint64(n), 64)}}
				// a source one octet short of what offset+length needs is refused, not read past its end
				// (at least one octet: with an empty source and a non-zero offset the offset itself is outside
				// the source, which the reader never produces - its offset is always inside the octet in progress)
				if nSrc >= 2 {
					exS := core.NewExec()
					exS.OnCall = traceOpaque
					exS.Bounds = true
					argsS := []core.AVal{{K: core.ASlice, Path: "src", Lo: 0, Len: nSrc - 1, NonNil: true}, args[1], args[2]}
					outsS, errS := exS.Run(fn, argsS, mem)
					if errS == nil && len(exS.Unsound) == 0 {
						for _, oS := range outsS {
							if oS.Panicked {
								bad = fmt.Sprintf("offset %d, %d bits from a source of %d octets: %s panics (%s) instead of refusing", off, n, nSrc-1, name, lastCond(oS))
								break outer
							}
							if len(oS.Ret) == 2 && !oS.Ret[1].NonNil {
								bad = fmt.Sprintf("offset %d, %d bits from a source of %d octets: no error is returned", off, n, nSrc-1)
								break outer
							}
						}
					}
				}
				outs, err := ex.Run(fn, args, mem)
				o, one := oneLive(outs)
				if err == nil && len(outs) > 0 && allPanicked(outs) {
					bad = fmt.Sprintf("offset %d, %d bits inside the source: %s panics (%s)", off, n, name, lastCond(outs[0]))
					break outer
				}
				if err != nil || !one || len(ex.Unsound) > 0 || len(o.Ret) != 2 {
					c.SoftUndecided("%s: %s could not be folded for offset %d, %d bits (%v, %d outcomes, %v)", R, name, off, n, err, len(outs), ex.Unsound)
					bad = "-"
					break outer
				}
				cases++
				if o.Ret[1].NonNil {
					bad = fmt.Sprintf("offset %d, %d bits inside the source: an error is returned", off, n)
					break outer
				}
				in := func(q int) *core.Bit {
					p := off + q
					b := srcBit(fmt.Sprintf("src[%d]", p/8), 7-p%8)
					return &b
				}
				if name == "GetBitString" {
					res := o.Ret[0]
					wantLen := (n + 7) / 8
					if res.K != core.ASlice || res.Lo < 0 || res.Len != wantLen {
						bad = fmt.Sprintf("offset %d, %d bits: the result has %s octets, want %d", off, n, core.ArgName(res), wantLen)
						break outer
					}
					for j := 0; j < wantLen; j++ {
						got := o.Mem.Load(fmt.Sprintf("%s[%d]", res.Path, res.Lo+j), u8)
						want := streamByte(j, func(p int) *core.Bit {
							if p < n {
								return in(p)
							}
							return nil
						})
						if got.K != core.AInt || !core.SameVec(got.Bits, want) {
							bad = fmt.Sprintf("offset %d, %d bits: result octet %d is %s, want %s", off, n, j, got, want.Describe())
							break outer
						}
					}
				} else {
					got := o.Ret[0]
					want := make(core.BitVec, 64)
					for i := range want {
						want[i] = core.Bit{Kind: core.BZero}
						if i < n {
							want[i] = *in(n - 1 - i)
						}
					}
					if got.K != core.AInt || !core.SameVec(got.Bits, want) {
						bad = fmt.Sprintf("offset %d, %d bits: the value is %s, want %s", off, n, got, want.Describe())
						break outer
					}
				}
			}
		}
		// widths beyond a machine word: parseInteger hands getBitsValue 8*n bits for a length octet n up to
		// 255 taken from the input; whatever the value then is, the reader must not panic
		if bad == "" {
		wide:
			for _, off := range []int{0, 3, 7} {
				for _, n := range []int{65, 72, 80, 128, 256, 1024, 2040} {
					if name == "GetBitString" && n > 256 {
						continue
					}
					mem := core.NewMem()
					nSrc := (off + n + 7) / 8
					symOctets(mem, "src", nSrc, 0)
					ex := core.NewExec()
					ex.OnCall = traceOpaque
					ex.Bounds = true
					ex.MaxSteps = 4000000
					args := []core.AVal{{K: core.ASlice, Path: "src", Lo: 0, Len: nSrc, NonNil: true}, {K: core.AInt, Bits: core.ConstBits(uint64(off), 64)}, {K: core.AInt, Bits: core.ConstBits(uint64(n), 64)}}
					outs, err := ex.Run(fn, args, mem)
					if err != nil || len(ex.Unsound) > 0 {
						c.SoftUndecided("%s: %s could not be folded for offset %d, %d bits (%v %v)", R, name, off, n, err, ex.Unsound)
						bad = "-"
						break wide
					}
					cases++
					for _, o := range outs {
						if o.Panicked {
							bad = fmt.Sprintf("offset %d, %d bits (a length octet of %d from the input): %s panics (%s)", off, n, n/8, name, lastCond(o))
							break wide
						}
					}
				}
			}
		}
		if bad == "-" {
			r4bitsResult[c] = false
			continue
		}
		if bad != "" {
			r4bitsResult[c] = false
		}
		c.Sites(cases)
		c.Check(bad == "", R, "aper."+name+":bit-selection", fn.Pos(), fmt.Sprintf("%d (offset, length) cases, symbolic octets", cases), "%s selects the wrong bits: %s", name, bad)
	}
}

var _ = ssa.Value(nil)

// R3.content: whatever length determinant precedes them, the octets of an OCTET STRING all reach the
// wire, in order, octet-aligned: appendOctetString is folded for a set of (lower bound, upper bound,
// length) cases - among them a length equal to a non-zero lower bound, the longest and the shortest
// string of a constrained size, a fixed size, no bounds - with symbolic octets; the output has to end
// with exactly those octets. (The length field itself is R3.strlen's and R3.len's.)
func r3content(c *core.Ctx) {
	if !c.Once("r3content") {
		return
	}
	const R = "R3.content"
	c.Rule(R, "appendOctetString: for a set of size constraints and lengths (a length equal to a non-zero lower bound among them) the string's octets end the output in order, octet-aligned")
	fn := mustFunc(c, pAper, "perRawBitData.appendOctetString")
	if len(fn.Params) != 5 {
		c.SoftUndecided("%s: appendOctetString does not have the (pd, bytes, extensive, lb, ub) signature", R)
		return
	}
	type cs struct{ lb, ub, n int64 } // lb/ub -1: absent
	cases := []cs{{1, 150, 1}, {1, 150, 2}, {1, 150, 150}, {0, 150, 1}, {0, 255, 3}, {3, 3, 3}, {8, 8, 8}, {-1, -1, 5}, {0, 65535, 4}, {4, 4000, 4}, {2, 300, 300}}
	u8 := types.Typ[types.Uint8]
	bad := ""
	done := 0
	for _, k := range cases {
		mem := core.NewMem()
		mem.Store("p0.bytes", core.AVal{K: core.ASlice, Path: "out", Lo: 0, Len: 0, NonNil: true}, nil)
		mem.Store("p0.bitsOffset", core.AVal{K: core.AInt, Bits: core.ConstBits(0, 64)}, nil)
		symOctets(mem, "in", int(k.n), 0)
		args := []core.AVal{{K: core.APtr, Path: "p0", NonNil: true}, {K: core.ASlice, Path: "in", Lo: 0, Len: int(k.n), NonNil: true}, {K: core.AInt, Bits: core.ConstBits(0, 1)}, core.NilArg(), core.NilArg()}
		if k.lb >= 0 {
			mem.Store("lbcell", core.AVal{K: core.AInt, Bits: core.ConstBits(uint64(k.lb), 64)}, nil)
			args[3] = core.AVal{K: core.APtr, Path: "lbcell", NonNil: true}
		}
		if k.ub >= 0 {
			mem.Store("ubcell", core.AVal{K: core.AInt, Bits: core.ConstBits(uint64(k.ub), 64)}, nil)
			args[4] = core.AVal{K: core.APtr, Path: "ubcell", NonNil: true}
		}
		ex := core.NewExec()
		ex.OnCall = traceOpaque
		ex.Bounds = true
		ex.MaxSteps = 4000000
		outs, err := ex.Run(fn, args, mem)
		o, one := oneLive(outs)
		what := fmt.Sprintf("SIZE(%d..%d), %d octets", k.lb, k.ub, k.n)
		if k.lb < 0 {
			what = fmt.Sprintf("no size constraint, %d octets", k.n)
		}
		if err == nil && len(outs) > 0 && allPanicked(outs) {
			bad = what + ": appendOctetString panics (" + lastCond(outs[0]) + ")"
			break
		}
		if err != nil || !one || len(ex.Unsound) > 0 {
			c.SoftUndecided("%s: appendOctetString could not be folded for %s (%v, %d outcomes, %v)", R, what, err, len(outs), ex.Unsound)
			return
		}
		done++
		if len(o.Ret) == 1 && o.Ret[0].NonNil {
			bad = what + ": a string inside its size constraint is refused"
			break
		}
		res := o.Mem.Load("p0.bytes", nil)
		if res.K != core.ASlice || res.Lo < 0 || res.Len < int(k.n) {
			bad = fmt.Sprintf("%s: the output has %s octets, fewer than the string", what, core.ArgName(res))
			break
		}
		for i := 0; i < int(k.n); i++ {
			got := o.Mem.Load(fmt.Sprintf("%s[%d]", res.Path, res.Lo+res.Len-int(k.n)+i), u8)
			if got.K != core.AInt || !got.Bits.IsCopy(7, 0, fmt.Sprintf("in[%d]", i), 0) {
				bad = fmt.Sprintf("%s: octet %d from the end of the output is %s, want octet %d of the string (the contents must close the encoding, in order)", what, int(k.n)-i, got, i)
				break
			}
		}
		if bad != "" {
			break
		}
		if k.n > 2 || k.lb != k.ub {
			bo := o.Mem.Load("p0.bitsOffset", types.Typ[types.Uint])
			if kk, isK := bo.ConstVal(); !isK || kk != 0 {
				bad = fmt.Sprintf("%s: the encoding does not end octet-aligned (bit offset %s)", what, bo)
				break
			}
		}
	}
	c.Sites(done)
	c.Check(bad == "", R, "aper.appendOctetString:contents", fn.Pos(), fmt.Sprintf("%d (constraint, length) cases, symbolic octets", done), "appendOctetString loses or misplaces the contents: %s", bad)
}
