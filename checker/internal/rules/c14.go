package rules

import (
	"regexp"
	"fmt"
	"go/token"
	"go/types"
	"os"
	"strings"

	"golang.org/x/tools/go/ssa"

	"stgverif/internal/core"
)

func init() { Registry["C14"] = c14 }

type panicSite struct {
	fn   *ssa.Function
	in   ssa.Instruction
	kind string // index | slice | div | typeassert | make
	base string
	expr string
}

// decoderFuncs: functions of package aper reachable from UnmarshalWithParams.
func decoderFuncs(c *core.Ctx) []*ssa.Function {
	// everything of the repository's own NGAP decode path: package aper below
	// UnmarshalWithParams and whatever package ngap itself runs inside Decoder
	reach := staticReach(mustFunc(c, pAper, "UnmarshalWithParams"), mustFunc(c, pNgap, "Decoder"))
	var out []*ssa.Function
	for _, f := range sortedFuncs(reach) {
		if pp := fnPkgPath(f); (pp == pAper || pp == pNgap) && len(f.Blocks) > 0 {
			out = append(out, f)
		}
	}
	return out
}

func isLiteralAlloc(v ssa.Value) bool {
	if a, ok := v.(*ssa.Alloc); ok {
		if _, isLit := core.ArrayLitElems(a); isLit {
			return true
		}
	}
	return false
}

func collectSites(fn *ssa.Function, p *core.Pather) []panicSite {
	var out []panicSite
	for _, b := range fn.Blocks {
		for _, in := range b.Instrs {
			switch x := in.(type) {
			case *ssa.IndexAddr:
				if isLiteralAlloc(x.X) {
					continue // constant index into a literal built by the compiler (variadic arguments)
				}
				out = append(out, panicSite{fn, in, "index", p.Path(x.X), p.Path(x.X) + "[" + p.Path(x.Index) + "]"})
			case *ssa.Index:
				out = append(out, panicSite{fn, in, "index", p.Path(x.X), p.Path(x.X) + "[" + p.Path(x.Index) + "]"})
			case *ssa.Slice:
				lo, hi := "", ""
				if x.Low != nil {
					lo = p.Path(x.Low)
				}
				if x.High != nil {
					hi = p.Path(x.High)
				}
				if lo == "" && hi == "" {
					continue
				}
				if isLiteralAlloc(x.X) {
					continue
				}
				out = append(out, panicSite{fn, in, "slice", p.Path(x.X), p.Path(x.X) + "[" + lo + ":" + hi + "]"})
			case *ssa.BinOp:
				if x.Op == token.QUO || x.Op == token.REM {
					if _, isC := core.ConstInt(x.Y); !isC {
						out = append(out, panicSite{fn, in, "div", "", p.Path(x)})
					}
				}
			case *ssa.TypeAssert:
				if !x.CommaOk {
					out = append(out, panicSite{fn, in, "typeassert", "", p.Path(x.X)})
				}
			case *ssa.MakeSlice:
				out = append(out, panicSite{fn, in, "make", "", "make(" + p.Path(x.Len) + ")"})
			}
		}
	}
	return out
}

// dominatingConds lists the branch conditions that hold at block b: "cond=T"/"cond=F".
func dominatingConds(p *core.Pather, b *ssa.BasicBlock) []string {
	var out []string
	for x := b; x != nil; x = x.Idom() {
		id := x.Idom()
		if id == nil {
			break
		}
		iff, ok := id.Instrs[len(id.Instrs)-1].(*ssa.If)
		if !ok || len(x.Preds) != 1 || x.Preds[0] != id {
			continue
		}
		if id.Succs[0] == x {
			out = append(out, p.Path(iff.Cond)+"=T")
		} else {
			out = append(out, p.Path(iff.Cond)+"=F")
		}
	}
	return out
}

// failingEdgeReturns: the edge of the If on which the guard fails ends the function with an error.
func guardHolds(conds []string, forms ...string) bool {
	for _, c := range conds {
		for _, f := range forms {
			if c == f {
				return true
			}
		}
	}
	return false
}

// proveSite tries the recognised guard forms; returns the rule that proves the site.
func proveSite(p *core.Pather, s panicSite) string {
	b := s.in.Block()
	conds := dominatingConds(p, b)
	ln := "call:builtin.len(" + s.base + ")"
	switch x := s.in.(type) {
	case *ssa.IndexAddr, *ssa.Index:
		var idx ssa.Value
		if ia, ok := x.(*ssa.IndexAddr); ok {
			idx = ia.Index
		} else {
			idx = x.(*ssa.Index).Index
		}
		// a constant index into an array (the compiler has already checked it) or below a constant length
		if k, isK := core.ConstInt(idx); isK && k >= 0 {
			var xt types.Type
			if ia, ok := x.(*ssa.IndexAddr); ok {
				xt = ia.X.Type()
			} else {
				xt = x.(*ssa.Index).X.Type()
			}
			if pt, ok := xt.Underlying().(*types.Pointer); ok {
				xt = pt.Elem()
			}
			if at, ok := xt.Underlying().(*types.Array); ok && k < at.Len() {
				return "constant index into an array of sufficient length"
			}
		}
		i := p.Path(idx)
		if guardHolds(conds, "("+i+">="+ln+")=F", "("+i+"<"+ln+")=T", "("+ln+"<="+i+")=F", "("+ln+">"+i+")=T") {
			return "index guarded by i < len(base)"
		}
		// an array of N elements indexed under a dominating i < N (a range over the array itself)
		{
			var xt types.Type
			if ia, ok := x.(*ssa.IndexAddr); ok {
				xt = ia.X.Type()
			} else {
				xt = x.(*ssa.Index).X.Type()
			}
			if pt, ok := xt.Underlying().(*types.Pointer); ok {
				xt = pt.Elem()
			}
			if at, ok := xt.Underlying().(*types.Array); ok {
				n := fmt.Sprint(at.Len())
				if guardHolds(conds, "("+i+">="+n+")=F", "("+i+"<"+n+")=T") {
					return "array index guarded by i < its constant length"
				}
			}
		}
		// r[N>>3] of r = GetBitString(src, off, N) where N is not a multiple of 8: floor(N/8) < ceil(N/8) = len(r)
		if pre := "call:" + pAper + ".GetBitString("; strings.HasPrefix(s.base, pre) && strings.HasSuffix(s.base, ")#0") {
			args := strings.TrimSuffix(strings.TrimPrefix(s.base, pre), ")#0")
			if k := strings.LastIndex(args, ","); k >= 0 {
				n := args[k+1:]
				if i == "("+n+">>3)" || i == "("+n+"/8)" {
					if guardHolds(conds, "(("+n+"&7)!=0)=T", "(("+n+"&7)==0)=F", "(("+n+"%8)!=0)=T", "(("+n+"%8)==0)=F", "(("+n+"&7)>0)=T", "(("+n+"%8)>0)=T") {
						return "partial last octet of a GetBitString result, read only when numBits is not a multiple of 8"
					}
				}
			}
		}
		// constant index k under a dominating `len(base) < C` = false (or `>= C` = true) with C > k
		if k, isK := core.ConstInt(idx); isK && k >= 0 {
			for _, cnd := range conds {
				var cst int64
				if n, _ := fmt.Sscanf(cnd, "("+ln+"<%d)=F", &cst); n == 1 && cst > k {
					return "constant index below a dominating len(base) >= C"
				}
				if n, _ := fmt.Sscanf(cnd, "("+ln+">=%d)=T", &cst); n == 1 && cst > k {
					return "constant index below a dominating len(base) >= C"
				}
				if n, _ := fmt.Sscanf(cnd, "("+ln+">%d)=T", &cst); n == 1 && cst >= k {
					return "constant index below a dominating len(base) > C"
				}
				if n, _ := fmt.Sscanf(cnd, "("+ln+"<=%d)=F", &cst); n == 1 && cst >= k {
					return "constant index below a dominating len(base) > C"
				}
			}
		}
	case *ssa.Slice:
		lo, hi := "", ""
		if x.Low != nil {
			lo = p.Path(x.Low)
		}
		if x.High != nil {
			hi = p.Path(x.High)
		}
		if hi != "" {
			swapped := hi
			if bo, ok := x.High.(*ssa.BinOp); ok && bo.Op == token.ADD {
				swapped = "(" + p.Path(bo.Y) + "+" + p.Path(bo.X) + ")"
			}
			// the same guard spelt by subtraction: X > len(base) - lo, with hi = lo + X
			if bo, ok := x.High.(*ssa.BinOp); ok && bo.Op == token.ADD && lo != "" {
				for _, pair := range [][2]ssa.Value{{bo.X, bo.Y}, {bo.Y, bo.X}} {
					if p.Path(pair[0]) != lo {
						continue
					}
					xs := p.Path(pair[1])
					left := "(" + ln + "-" + lo + ")"
					if guardHolds(conds, "("+xs+">"+left+")=F", "("+xs+"<="+left+")=T", "("+left+"<"+xs+")=F", "("+left+">="+xs+")=T") && guardFresh(p, s.in, lo) {
						return "slice guarded by X <= len(base) - lo (no cursor movement between the guard's reading of lo and the slice)"
					}
				}
			}
			for _, h := range []string{hi, swapped} {
				if guardHolds(conds, "("+h+">"+ln+")=F", "("+h+"<="+ln+")=T") {
					// low bound: lo is a summand of hi (lo <= hi for unsigned offsets) or absent
					if lo == "" || strings.HasPrefix(hi, "("+lo+"+") || strings.HasSuffix(hi, "+"+lo+")") {
						return "slice guarded by hi <= len(base), lo a summand of hi"
					}
				}
			}
		}
		// r[:N>>3] / r[:N/8] of r = GetBitString(src, off, N): the result has ceil(N/8) octets (R14.alloc
		// checks the allocation), and floor(N/8) <= ceil(N/8)
		if lo == "" && hi != "" {
			pre := "call:" + pAper + ".GetBitString("
			if strings.HasPrefix(s.base, pre) && strings.HasSuffix(s.base, ")#0") {
				args := strings.TrimSuffix(strings.TrimPrefix(s.base, pre), ")#0")
				if i := strings.LastIndex(args, ","); i >= 0 {
					n := args[i+1:]
					if hi == "("+n+">>3)" || hi == "("+n+"/8)" {
						return "whole octets of a GetBitString result: floor(numBits/8) <= ceil(numBits/8) = its length"
					}
				}
			}
		}
		if hi == "" && lo != "" {
			// s[k:] after strings.HasPrefix(s, <k-octet constant>)
			if k, ok := core.ConstInt(x.Low); ok {
				for _, cnd := range conds {
					pre := "call:strings.HasPrefix(" + s.base + ",\""
					if strings.HasPrefix(cnd, pre) && strings.HasSuffix(cnd, "\")=T") {
						lit := cnd[len(pre) : len(cnd)-4]
						if int64(len(lit)) == k {
							return "prefix slice after HasPrefix with a constant of the same length"
						}
					}
				}
			}
		}
	}
	return ""
}

// reasoned exceptions: sites whose safety rests on an invariant the guard forms do not
// capture. One named construct each, with the argument; a changed expression no longer matches.
var c14Reasoned = map[string]string{
	"aper.GetBitString:make:make(((p2+7)>>3))":                                        "numBits <= bitsLeft <= 8*len(src) by the guard at the top: the allocation is bounded by the input",
	"aper.GetBitString:index:p0[(iv1-1)]":                                             "loop i = 1..byteLen-1 with byteLen = (bitsOffset+numBits+7)>>3 <= len(src) because numBits <= 8*len(src)-bitsOffset (guard)",
	"aper.GetBitString:index:p0[iv1]":                                                 "same loop: i <= byteLen-1 <= len(src)-1",
	"aper.GetBitString:index:makeslice(((p2+7)>>3))[(iv1-1)]":                         "i-1 <= byteLen-2 <= numBitsByteLen-1 since bitsOffset <= 8 adds at most one octet",
	"aper.GetBitString:index:p0[((((p1+p2)+7)>>3)-1)]":                                "byteLen-1 with 1 <= byteLen <= len(src): numBits > 0 (zero returns early) and the guard bounds byteLen",
	"aper.GetBitString:index:makeslice(((p2+7)>>3))[((((p1+p2)+7)>>3)-1)]":            "executed only when byteLen == numBitsByteLen, and numBits > 0 makes that >= 1",
	"aper.GetBitString:index:makeslice(((p2+7)>>3))[(((p2+7)>>3)-1)]":                 "numBitsByteLen-1 >= 0 because numBits == 0 returned before (fix of F02; checked by R14.zero)",
	"aper.GetBitsValue:index:call:free5gclib/aper.GetBitString(p0,p1,p2)#0[iv2]":      "loop i counts whole octets of numBits: i < numBits/8 <= len(dst) = (numBits+7)>>3",
	"aper.GetBitsValue:index:call:free5gclib/aper.GetBitString(p0,p1,p2)#0[(call:builtin.len(call:free5gclib/aper.GetBitString(p0,p1,p2)#0)-1)]": "executed only when numBits&7 != 0, hence numBits >= 1 and len(dst) >= 1",
	"aper.perBitData.getBitString:slice:p0.bytes[p0.byteOffset:]":                     "cursor invariant byteOffset <= len(bytes): byteOffset only grows by amounts checked against len(bytes) (R14.cursor)",
	"aper.perBitData.getBitsValue:slice:p0.bytes[p0.byteOffset:]":                     "cursor invariant byteOffset <= len(bytes) (R14.cursor)",
	"aper.parseField:index:iv1[(iv5+1)]":                                              "range over structParams itself",
	"aper.parseField:index:iv1[phi((iv5+1)|0)]":                                       "present is an index found by ranging over structParams (or 0, which returns before) and is re-checked against NumField",
	"aper.parseField:index:iv1[phi(0|call:free5gclib/aper.perBitData.getChoiceIndex(p1,phi(false|phi(false|true)),p2.valueUpperBound)#0)]": "present >= NumField returns an error first; structParams has NumField entries",
	"aper.parseField:index:iv1[iv7]":                                                  "i < NumField and structParams has one entry per field",
	"aper.parseFieldParameters:index:call:strings.Split(p0,\",\")[(iv1+1)]":          "range over the slice itself",
	"aper.perBitData.parseSequenceOf:make:make(?)":                                    "",
}

func c14(c *core.Ctx) map[string]interface{} {
	c.Explanation = "Static obligation list for totality of the NGAP/APER decoder (C14). Decided: (R0.nilglobal) no never-initialised global is dereferenced; (R14.guard) every index, slice, division, type assertion and allocation site in the functions of packages aper and ngap reachable from ngap.Decoder / UnmarshalWithParams is either proved in range by a recognised dominating guard (i < len(base); hi <= len(base) with lo a summand of hi; prefix slice after HasPrefix) or is one of the named reasoned exceptions whose argument is recorded - any other site, including a site whose expression or guard was changed, is reported as not provably in range; (R14.shift) no shift in the decode path has a count of signed type that is not provably non-negative (a negative shift count panics); (R14.zero) GetBitString returns before indexing when asked for zero bits and when more bits are requested than remain; (R14.cursor) the decoder cursor byteOffset is advanced only by amounts that a dominating guard compared with len(bytes), by one octet after an explicit bounds test, or by bitCarry (which moves whole octets already accounted in bitsOffset), and getBitsValue/getBitString reject reads beyond the remaining bits before moving the cursor; (R14.loop) every `for {}` fragment loop advances the cursor on each way back to its head and is left unless the length determinant announced another fragment; (R14.alloc) reflect.MakeSlice is sized by a constrained count (<= 16 bits) or one octet; (R14.rec) recursion follows the acyclic schema (R4.acyclic) and open-type sub-buffers are strict sub-slices; (R14.nopanic) no panic/log.Fatal/os.Exit in the decoder; (R14.reflect) every value boxed for the reflection-based trace helpers (perBitLog and whatever else hands an interface parameter to reflect.ValueOf/TypeOf) has a static type for which each reflect.Value method the helper reaches - with its Kind() tests folded for that type - is defined. (R14.nilptr) the optional constraints of a field (the pointer fields of fieldParameters, nil when the tag does not give them) are dereferenced in the decoder only on the non-nil side of a nil test of the same field (dominator tree). NOT decided: panics inside reflect for reasons other than those enumerated; actual time and memory figures."
	c.Assumptions = []string{"reflect.Value.Set*/Field(i) do not panic for exported fields of exported struct types with i < NumField (R3.tag checks exportedness)", "the reasoned exceptions were read and argued by hand; each is tied to the exact expression"}
	r0nilglobal(c, ngapEntries(c)...)
	r14guard(c)
	r14shift(c)
	r14zero(c)
	r14cursor(c)
	r14nilptr(c)
	r14loop(c)
	r14alloc(c)
	r14reflect(c)
	s := buildSchema(c)
	r4acyclic(c, s)
	r14nopanic(c)
	return nil
}

func r14guard(c *core.Ctx) {
	const R = "R14.guard"
	c.Rule(R, "every index/slice/division/type-assertion site of the decoder is proved in range by a dominating guard or is a named reasoned exception")
	n, proved, excepted := 0, 0, 0
	for _, f := range decoderFuncs(c) {
		c.Analysed(core.FuncName(f))
		if f.Name() == "perTrace" || f.Name() == "perBitLog" {
			continue // logging helpers: only compiler-built argument literals
		}
		p := core.NewPather(f)
		p.Inline = true // one-line helpers such as bytesLeft() render as their body
		seen := map[string]int{}
		for _, s := range collectSites(f, p) {
			if s.kind == "make" {
				continue // R14.alloc
			}
			n++
			base := shortFn(f) + ":" + s.kind + ":" + s.expr
			seen[base]++
			key := base
			if os.Getenv("VERIF_DEBUG") != "" {
				fmt.Printf("SITE %q\n", key)
			}
			if why := proveSite(p, s); why != "" {
				proved++
				c.Ok(R, key, s.in.Pos(), why)
				continue
			}
			if reason, ok := c14Reasoned[base]; ok && reason != "" {
				excepted++
				c.Except(R, key, s.in.Pos(), reason)
				continue
			}
			if why := structParamsClass(f, s); why != "" {
				// the argued exception of the reference tree (parseField: structParams[i], structParams[present]) in moved code
				excepted++
				c.Except(R, key, s.in.Pos(), why)
				continue
			}
			if (f.Name() == "GetBitString" || f.Name() == "GetBitsValue") && fnPkgPath(f) == pAper && r4bitsHolds(c) {
				// the two bit readers are decided as a whole by R4.bits: for every offset and every length up to
				// 33 / 64 bits no case - with a source long enough or one octet short - indexes outside a slice
				excepted++
				c.Except(R, key, s.in.Pos(), "inside a bit reader that R4.bits folds for every (offset, length) case with index checks on: no case reads or writes outside its slices")
				continue
			}
			if !c14Baseline[base] {
				// new or rewritten code: not one of the sites that were proved or argued on the reference tree
				c.SoftUndecided("R14.guard: %s %s in %s is not provably in range by a guard form the rule knows, and it is not a site of the reference tree (new or restructured code): not decided", s.kind, clip(s.expr), shortFn(f))
				continue
			}
			c.Fail(R, key, s.in.Pos(), "%s %s in %s is not provably in range: no dominating guard of a recognised form bounds it and it is not one of the argued exceptions — an adversarial length or count can make the decoder panic here", s.kind, clip(s.expr), shortFn(f))
		}
	}
	c.Sites(n)
	c.Floor(R, n, 30)
	c.Note("R14.guard: %d sites, %d proved by guard forms, %d argued exceptions", n, proved, excepted)
}

// structParamsClass recognises, wherever the field walker's code lives, the two index forms the
// reference tree's exceptions argue for: the per-field constraint list (a []fieldParameters, one
// entry per struct field, built by the tag loop) indexed by the counter of a loop bounded by
// NumField(), or by the CHOICE index after it was compared with NumField().
func structParamsClass(f *ssa.Function, s panicSite) string {
	var base, idx ssa.Value
	switch x := s.in.(type) {
	case *ssa.IndexAddr:
		base, idx = x.X, x.Index
	case *ssa.Index:
		base, idx = x.X, x.Index
	default:
		return ""
	}
	sl, ok := base.Type().Underlying().(*types.Slice)
	if !ok || derefNamed(sl.Elem()) != pAper+".fieldParameters" {
		return ""
	}
	isNumField := func(v ssa.Value) bool {
		for i := 0; i < 3; i++ {
			if c, isC := v.(*ssa.Convert); isC {
				v = c.X
				continue
			}
			break
		}
		call, isCall := v.(*ssa.Call)
		if !isCall {
			return false
		}
		n := core.CalleeName(call.Common())
		return n == "reflect.Value.NumField" || (call.Call.IsInvoke() && call.Call.Method.Name() == "NumField")
	}
	// (a) the counter of `for i := 0; i < NumField(); i++`
	isFieldCounter := func(v ssa.Value) bool {
		ph, isPhi := v.(*ssa.Phi)
		if !isPhi {
			return false
		}
		l := countedLoopOf(ph.Block())
		return l != nil && l.iv == ph && !l.rng && isNumField(l.bound)
	}
	if isFieldCounter(idx) {
		return "i < NumField() (loop bound) and the constraint list has one entry per struct field (moved form of the reference tree's argued site structParams[i])"
	}
	// (a') the same pair handed down to a helper: list and index are parameters, and every caller in the
	// package passes a constraint list and the field counter of its own loop
	if ip, isP := idx.(*ssa.Parameter); isP {
		if bp, isBP := base.(*ssa.Parameter); isBP {
			bi, ii := -1, -1
			for k, q := range f.Params {
				if q == bp {
					bi = k
				}
				if q == ip {
					ii = k
				}
			}
			callers, okAll := 0, bi >= 0 && ii >= 0
			if okAll && f.Pkg != nil {
				for _, g := range allFuncsOf(f.Pkg) {
					for _, ci := range core.Calls(g) {
						if ci.Common().StaticCallee() != f {
							continue
						}
						callers++
						args := ci.Common().Args
						if bi >= len(args) || ii >= len(args) || !isFieldCounter(args[ii]) {
							okAll = false
						}
					}
				}
			}
			if okAll && callers > 0 {
				return fmt.Sprintf("every caller (%d) hands this helper the constraint list and the field counter of a loop bounded by NumField() (moved form of the reference tree's argued site structParams[i])", callers)
			}
		}
	}
	// (b) the CHOICE index: (a phi of 0 and) getChoiceIndex's result, compared with NumField() on a dominating branch
	fromChoice := func(v ssa.Value) bool {
		ex, isEx := v.(*ssa.Extract)
		if !isEx || ex.Index != 0 {
			return false
		}
		call, isCall := ex.Tuple.(*ssa.Call)
		return isCall && core.CalleeName(call.Common()) == pAper+".perBitData.getChoiceIndex"
	}
	_ = fromChoice
	// the index cannot be negative: constants >= 0, loop counters that start >= 0 and only grow,
	// the CHOICE index (an unsigned value + 1), and results of package functions that return only such values
	var nonNeg func(v ssa.Value, seen map[ssa.Value]bool, depth int) bool
	nonNeg = func(v ssa.Value, seen map[ssa.Value]bool, depth int) bool {
		if seen[v] {
			return true // a loop-carried value: the other edges decide
		}
		seen[v] = true
		if k, isK := core.ConstInt(v); isK {
			return k >= 0
		}
		switch x := v.(type) {
		case *ssa.Phi:
			for _, e := range x.Edges {
				if !nonNeg(e, seen, depth) {
					return false
				}
			}
			return true
		case *ssa.BinOp:
			if x.Op == token.ADD {
				// the index of a `for i := range s` loop: i = iv+1 with iv = phi(-1, i)
				if one, isK := core.ConstInt(x.Y); isK && one == 1 {
					if ph, isPhi := x.X.(*ssa.Phi); isPhi && len(ph.Edges) >= 2 {
						okR, sawInit, sawBack := true, false, false
						for _, e := range ph.Edges {
							if init, isI := core.ConstInt(e); isI && init == -1 {
								sawInit = true
							} else if e == ssa.Value(x) {
								sawBack = true
							} else {
								okR = false
							}
						}
						if okR && sawInit && sawBack {
							return true
						}
					}
				}
				return nonNeg(x.X, seen, depth) && nonNeg(x.Y, seen, depth)
			}
		case *ssa.Convert:
			if b, isB := x.X.Type().Underlying().(*types.Basic); isB && b.Info()&types.IsUnsigned != 0 && widthOfBasic(b) < 64 {
				return true
			}
			return nonNeg(x.X, seen, depth)
		case *ssa.Extract:
			if call, isCall := x.Tuple.(*ssa.Call); isCall && x.Index == 0 && core.CalleeName(call.Common()) == pAper+".perBitData.getChoiceIndex" {
				return true
			}
		case *ssa.Call:
			g := x.Call.StaticCallee()
			if g == nil || fnPkgPath(g) != pAper || depth >= 2 || len(g.Blocks) == 0 {
				return false
			}
			for _, b := range g.Blocks {
				if r, isR := b.Instrs[len(b.Instrs)-1].(*ssa.Return); isR {
					if len(r.Results) != 1 || !nonNeg(r.Results[0], map[ssa.Value]bool{}, depth+1) {
						return false
					}
				}
			}
			return true
		}
		return false
	}
	if nonNeg(idx, map[ssa.Value]bool{}, 0) {
		for _, b := range f.Blocks {
			iff, isIf := b.Instrs[len(b.Instrs)-1].(*ssa.If)
			if !isIf || !b.Dominates(s.in.Block()) {
				continue
			}
			bo, isBo := iff.Cond.(*ssa.BinOp)
			if !isBo || bo.X != idx || !isNumField(bo.Y) {
				continue
			}
			// present >= NumField (or >) leaves on the true side: the site is on the false side
			if (bo.Op == token.GEQ || bo.Op == token.GTR) && (b.Succs[1] == s.in.Block() || b.Succs[1].Dominates(s.in.Block())) {
				return "the (non-negative) alternative index is refused when it is >= NumField() and the constraint list has one entry per struct field (moved form of the reference tree's argued site structParams[present])"
			}
		}
	}
	return ""
}

func widthOfBasic(b *types.Basic) int {
	switch b.Kind() {
	case types.Uint8, types.Int8:
		return 8
	case types.Uint16, types.Int16:
		return 16
	case types.Uint32, types.Int32:
		return 32
	}
	return 64
}

func r14zero(c *core.Ctx) {
	const R = "R14.zero"
	c.Rule(R, "GetBitString: too many bits → error, zero bits → empty result, both before any indexing")
	fn := mustFunc(c, pAper, "GetBitString")
	p := core.NewPather(fn)
	left := "((call:builtin.len(p0)*8)-p1)"
	var over, zero *ssa.BasicBlock
	for _, b := range fn.Blocks {
		iff, ok := b.Instrs[len(b.Instrs)-1].(*ssa.If)
		if !ok {
			continue
		}
		cs := p.Path(iff.Cond)
		if cs == "(p2>"+left+")" && blockReturnsError(b.Succs[0]) {
			over = b.Succs[1]
		}
		if cs == "(p2==0)" && blockReturns(b.Succs[0]) {
			zero = b.Succs[1]
		}
		if cs == "(p2!=0)" && blockReturns(b.Succs[1]) {
			zero = b.Succs[0]
		}
	}
	okAll := over != nil && zero != nil
	if okAll {
		for _, b := range fn.Blocks {
			for _, in := range b.Instrs {
				switch in.(type) {
				case *ssa.IndexAddr, *ssa.Index, *ssa.MakeSlice:
					if ia, isIA := in.(*ssa.IndexAddr); isIA && isLiteralAlloc(ia.X) {
						continue
					}
					if !over.Dominates(b) || !zero.Dominates(b) {
						okAll = false
					}
				}
			}
		}
	}
	c.Check(okAll, R, "aper.GetBitString:guards", fn.Pos(), "numBits > bitsLeft → error; numBits == 0 → return; both dominate all indexing", "GetBitString must reject reads beyond the remaining bits and return early for zero bits before it indexes (overflow guard %v, zero guard %v)", over != nil, zero != nil)
}

func blockReturns(b *ssa.BasicBlock) bool {
	for _, in := range b.Instrs {
		if _, ok := in.(*ssa.Return); ok {
			return true
		}
	}
	return false
}

// r14cursor: who moves the cursor, and by what.
func r14cursor(c *core.Ctx) {
	const R = "R14.cursor"
	c.Rule(R, "the decoder cursor (byteOffset) only moves by guarded amounts; bit reads are bounds-checked before the cursor moves")
	n := 0
	for _, f := range decoderFuncs(c) {
		p := core.NewPather(f)
		p.Inline = true
		ord := 0
		for _, b := range f.Blocks {
			for _, in := range b.Instrs {
				st, ok := in.(*ssa.Store)
				if !ok || p.Path(st.Addr) != "p0.byteOffset" || !strings.Contains(core.FuncName(f), "perBitData") {
					continue
				}
				n++
				ord++
				key := fmt.Sprintf("%s:byteOffset-update#%d", shortFn(f), ord)
				lf := core.Linearize(p, st.Val)
				conds := dominatingConds(p, b)
				why := ""
				switch {
				case lf.Is(1, "p0.byteOffset"):
					// +1 after `byteOffset >= len(bytes)` → error
					if guardHolds(conds, "(p0.byteOffset>=call:builtin.len(p0.bytes))=F", "(p0.byteOffset<call:builtin.len(p0.bytes))=T",
						"(call:builtin.len(p0.bytes)<=p0.byteOffset)=F", "(call:builtin.len(p0.bytes)>p0.byteOffset)=T") {
						why = "+1 after byteOffset < len(bytes)"
					}
				case lf.Is(-1, "p0.byteOffset"):
					// the one-octet back-step when the string ends inside an octet: preceded by a guarded advance in the same function
					if guardHolds(conds, "(p0.bitsOffset>0)=T", "(p0.bitsOffset!=0)=T") {
						why = "one-octet back-step for a partially used last octet (follows a guarded advance of at least one octet)"
					}
				case lf.T["p0.byteOffset"] == 1 && len(lf.T) >= 2:
					// += X where (byteOffset + X) > len(bytes) was refused: compare linear forms
					for x := b; x != nil && why == ""; x = x.Idom() {
						id := x.Idom()
						if id == nil {
							break
						}
						iff, isIf := id.Instrs[len(id.Instrs)-1].(*ssa.If)
						if !isIf || len(x.Preds) != 1 || id.Succs[1] != x {
							continue
						}
						bo, isBo := iff.Cond.(*ssa.BinOp)
						if isBo && bo.Op == token.GTR && p.Path(bo.Y) == "(call:builtin.len(p0.bytes)-p0.byteOffset)" {
							// X > len(bytes) - byteOffset refused, cursor read fresh: byteOffset + X <= len(bytes)
							g := core.Linearize(p, bo.X)
							if g.T == nil {
								g.T = map[string]int64{}
							}
							g.T["p0.byteOffset"]++
							if g.String() == lf.String() && guardFreshAt(p, id, x, st, "p0.byteOffset") {
								why = "+= X after the guard refused X > len(bytes) - byteOffset"
							}
							continue
						}
						if !isBo || bo.Op != token.GTR || p.Path(bo.Y) != "call:builtin.len(p0.bytes)" {
							continue
						}
						if g := core.Linearize(p, bo.X); g.String() == lf.String() {
							why = "+= X after the guard refused byteOffset+X > len(bytes)"
						}
					}
					if _, isCarry := lf.T["(p0.bitsOffset>>3)"]; isCarry && len(lf.T) == 2 && f.Name() == "bitCarry" {
						why = "bitCarry: whole octets already counted in bitsOffset (bounded by the bit-level guard of the read that advanced bitsOffset)"
					}
				}
				if why == "" {
					c.Fail(R, key, st.Pos(), "byteOffset := %s is not covered by a dominating bounds guard: the cursor can pass the end of the input, and the next read slices bytes[byteOffset:] out of range", lf)
				} else {
					c.Ok(R, key, st.Pos(), why)
				}
			}
		}
	}
	// bit-level reads go through GetBitString/GetBitsValue (guarded) and propagate the error before moving
	for _, name := range []string{"perBitData.getBitsValue", "perBitData.getBitString"} {
		f := mustFunc(c, pAper, name)
		p := core.NewPather(f)
		callee := map[string]string{"perBitData.getBitsValue": pAper + ".GetBitsValue", "perBitData.getBitString": pAper + ".GetBitString"}[name]
		calls := core.CallsTo(f, callee)
		ok := len(calls) == 1
		if ok {
			// the bitsOffset update is dominated by err == nil
			for _, b := range f.Blocks {
				for _, in := range b.Instrs {
					if st, isSt := in.(*ssa.Store); isSt && p.Path(st.Addr) == "p0.bitsOffset" {
						conds := dominatingConds(p, b)
						if !guardHolds(conds, "("+p.Path(calls[0].(*ssa.Call))+"#1!=nil)=F", "("+p.Path(calls[0].(*ssa.Call))+"#1==nil)=T") {
							ok = false
						}
					}
				}
			}
			// and no other path reads bits: every return of a value comes from the checked helper
		}
		c.Check(ok, R, "aper."+name+":checked-read", f.Pos(), "read through the bounds-checked helper; cursor moves only on success", "%s must obtain its bits from %s and move the cursor only when that call succeeded (a fast path that skips the remaining-bits check lets the cursor run past the input)", name, shortName(callee))
	}
	// GetBitsValue itself: every result comes from the bounds-checked GetBitString
	{
		f := mustFunc(c, pAper, "GetBitsValue")
		calls := core.CallsTo(f, pAper+".GetBitString")
		ok := len(calls) == 1
		var badPos token.Pos = f.Pos()
		if ok {
			for _, b := range f.Blocks {
				for _, in := range b.Instrs {
					if r, isR := in.(*ssa.Return); isR && !core.Dominates(calls[0], r) {
						ok = false
						badPos = posOf(r)
					}
				}
			}
		}
		c.Check(ok, R, "aper.GetBitsValue:checked-read", badPos, "every return is preceded by GetBitString's remaining-bits check", "GetBitsValue has a path that returns without going through GetBitString's `numBits > bitsLeft` check: a read that straddles the end of the input succeeds and leaves the cursor past the data")
	}
	c.Floor(R, n, 12)
}

func r14loop(c *core.Ctx) {
	const R = "R14.loop"
	c.Rule(R, "fragment loops: each way back to the loop head advances the cursor; the loop is left unless another fragment was announced")
	for _, name := range []string{"perBitData.parseBitString", "perBitData.parseOctetString", "perBitData.parseOpenType"} {
		f := mustFunc(c, pAper, name)
		p := core.NewPather(f)
		// loop heads: blocks with a back edge
		found := 0
		for _, h := range f.Blocks {
			var backs []*ssa.BasicBlock
			for _, pr := range h.Preds {
				if h.Dominates(pr) {
					backs = append(backs, pr)
				}
			}
			if len(backs) == 0 {
				continue
			}
			found++
			key := "aper." + name + ":fragment-loop"
			// (1) every back edge is taken only when `repeat` is set: the flag parseLength reports,
			// through its *bool argument or as a boolean result
			repeatNames := []string{"local:*bool#0"}
			for _, ci := range core.CallsTo(f, pAper+".perBitData.parseLength") {
				if call, isCall := ci.(*ssa.Call); isCall {
					if tup, isTup := call.Type().(*types.Tuple); isTup {
						for i := 0; i < tup.Len(); i++ {
							if b, isB := tup.At(i).Type().Underlying().(*types.Basic); isB && b.Kind() == types.Bool {
								repeatNames = append(repeatNames, fmt.Sprintf("%s#%d", p.Path(call), i))
							}
						}
					}
				}
			}
			isRepeat := func(cnd string) bool {
				for _, n := range repeatNames {
					if strings.Contains(cnd, n) {
						return true
					}
				}
				return false
			}
			okRepeat := true
			for _, bk := range backs {
				conds := dominatingConds(p, bk)
				hasRepeat := false
				for _, cnd := range conds {
					if isRepeat(cnd) {
						hasRepeat = true
					}
				}
				// the back edge block itself may be the block ending in `if repeat`
				if iff, ok := bk.Instrs[len(bk.Instrs)-1].(*ssa.If); ok && isRepeat(p.Path(iff.Cond)) {
					hasRepeat = true
				}
				if !hasRepeat {
					okRepeat = false
				}
			}
			// (2) a cursor advance dominates every back edge
			okAdv := true
			for _, bk := range backs {
				adv := false
				for _, b := range f.Blocks {
					if !h.Dominates(b) || !(b == bk || b.Dominates(bk)) {
						continue
					}
					for _, in := range b.Instrs {
						if st, ok := in.(*ssa.Store); ok && p.Path(st.Addr) == "p0.byteOffset" {
							lf := core.Linearize(p, st.Val)
							if lf.T["p0.byteOffset"] == 1 && len(lf.T) >= 2 && lf.C >= 0 {
								adv = true
							}
						}
						// the same advance made by a cursor helper of the decoder (readBytes(n), skip(n)) called on pd
						if call, ok := in.(*ssa.Call); ok && len(call.Call.Args) >= 2 && p.Path(call.Call.Args[0]) == "p0" {
							if g := call.Call.StaticCallee(); g != nil && fnPkgPath(g) == pAper && advancesCursorByParam(g) {
								adv = true
							}
						}
					}
				}
				if !adv {
					okAdv = false
				}
			}
			c.Check(okRepeat && okAdv, R, key, h.Instrs[0].Pos(), "continues only on `repeat`, advances byteOffset by the fragment length each round", "the fragment loop of %s must be left unless parseLength announced another fragment, and must advance the cursor by the fragment length on every round (continues only on repeat: %v, advance dominates the back edge: %v)", name, okRepeat, okAdv)
		}
		if found != 1 {
			c.SoftUndecided("%s: expected one fragment loop, found %d", name, found)
		}
	}
	r14repeatX(c, R)
}

// advancesCursorByParam: g (a method of perBitData) stores byteOffset + <something derived from a
// parameter> into its receiver's byteOffset.
var reOtherParam = regexp.MustCompile(`(^|[^A-Za-z0-9_.])p[1-9]([^0-9A-Za-z_]|$)`)

func advancesCursorByParam(g *ssa.Function) bool { return advancesCursorByParamD(g, 0) }

func advancesCursorByParamD(g *ssa.Function, depth int) bool {
	if depth > 3 || len(g.Blocks) == 0 || len(g.Params) < 2 || derefNamed(g.Params[0].Type()) != pAper+".perBitData" {
		return false
	}
	gp := core.NewPather(g)
	// through another method of the reader that does (takeBits → takeOctets), handed a value of g's parameters
	for _, ci := range core.Calls(g) {
		h := ci.Common().StaticCallee()
		if h == nil || h == g || fnPkgPath(h) != pAper || len(ci.Common().Args) < 2 || gp.Path(ci.Common().Args[0]) != "p0" {
			continue
		}
		dep := false
		for _, a := range ci.Common().Args[1:] {
			if reOtherParam.MatchString(gp.Path(a)) {
				dep = true
			}
		}
		if dep && advancesCursorByParamD(h, depth+1) {
			return true
		}
	}
	for _, b := range g.Blocks {
		for _, in := range b.Instrs {
			if st, ok := in.(*ssa.Store); ok && gp.Path(st.Addr) == "p0.byteOffset" {
				lf := core.Linearize(gp, st.Val)
				if lf.T["p0.byteOffset"] != 1 || lf.C < 0 {
					continue
				}
				for term := range lf.T {
					if term != "p0.byteOffset" && reOtherParam.MatchString(term) {
						return true
					}
				}
			}
		}
	}
	return false
}

func r14alloc(c *core.Ctx) {
	const R = "R14.alloc"
	c.Rule(R, "allocations are bounded: reflect.MakeSlice by a constrained count or one octet; make() by the guarded bit count; appends copy input sub-slices")
	f := mustFunc(c, pAper, "perBitData.parseSequenceOf")
	p := core.NewPather(f)
	if r14allocSeqX(c, R) {
		r14allocBitString(c, R)
		return
	}
	for _, ci := range core.CallsTo(f, "reflect.MakeSlice") {
		n := p.Path(ci.Common().Args[1])
		ok := true
		for _, a := range splitPhi(n) {
			switch {
			case a == "p0.bytes[p0.byteOffset]":
			case strings.HasPrefix(a, "(0+phi(0|p2.sizeLowerBound))"), a == "phi(0|p2.sizeLowerBound)":
			case strings.Contains(a, "parseConstraintValue") && strings.HasSuffix(a, "+phi(0|p2.sizeLowerBound))"):
			default:
				ok = false
			}
		}
		c.Check(ok, R, "aper.parseSequenceOf:MakeSlice", ci.Pos(), "count = constrained value (<= 65535) + lower bound, or one octet", "the number of list elements allocated must be a constrained count (at most 16 bits, from parseConstraintValue) plus the lower bound, or a single octet; it is %s — an input could claim an arbitrary count and exhaust memory", clip(n))
	}
	// lower/upper bounds used there are capped at 65536
	okCap := false
	for _, b := range f.Blocks {
		if iff, ok := b.Instrs[len(b.Instrs)-1].(*ssa.If); ok && p.Path(iff.Cond) == "(p2.sizeUpperBound<65536)" {
			okCap = true
		}
	}
	c.Check(okCap, R, "aper.parseSequenceOf:size-cap", f.Pos(), "size bounds above 65535 are treated as unconstrained (one count octet)", "SEQUENCE OF size bounds must be capped at 65535 before they size an allocation")
	r14allocBitString(c, R)
}

func r14allocBitString(c *core.Ctx, R string) {
	g := mustFunc(c, pAper, "GetBitString")
	gp := core.NewPather(g)
	for _, b := range g.Blocks {
		for _, in := range b.Instrs {
			if ms, ok := in.(*ssa.MakeSlice); ok {
				c.Check(gp.Path(ms.Len) == "((p2+7)>>3)", R, "aper.GetBitString:make", ms.Pos(), "make(ceil(numBits/8)) after numBits <= bitsLeft", "GetBitString must allocate ceil(numBits/8) octets (numBits is bounded by the remaining input), allocates %s", gp.Path(ms.Len))
			}
		}
	}
}

func r14nopanic(c *core.Ctx) {
	const R = "R14.nopanic"
	c.Rule(R, "no explicit panic, log.Fatal*, os.Exit or fatal.* in the decoder")
	n := 0
	bad := 0
	for _, f := range decoderFuncs(c) {
		n++
		for _, b := range f.Blocks {
			for _, in := range b.Instrs {
				switch x := in.(type) {
				case *ssa.Panic:
					bad++
					c.Fail(R, shortFn(f)+":panic", x.Pos(), "explicit panic in the decoder")
				case ssa.CallInstruction:
					cn := core.CalleeName(x.Common())
					if strings.HasPrefix(cn, "log.Fatal") || strings.HasPrefix(cn, "log.Panic") || cn == "os.Exit" || strings.Contains(cn, "fatal.Fatal") || strings.HasSuffix(cn, ".Fatalf") || strings.HasSuffix(cn, ".Fatalln") || strings.HasSuffix(cn, ".Panicf") {
						bad++
						c.Fail(R, shortFn(f)+":"+shortName(cn), x.Pos(), "%s terminates the process from inside the decoder", cn)
					}
				}
			}
		}
	}
	if bad == 0 {
		c.Ok(R, "aper:decoder-functions", token.NoPos, fmt.Sprintf("%d functions scanned", n))
	}
}

// r14shift: Go panics on a negative shift count; counts of unsigned type cannot be
// negative, counts of signed type need a proof (interval analysis).
func r14shift(c *core.Ctx) {
	const R = "R14.shift"
	c.Rule(R, "every shift of the decode path has an unsigned count, a constant count, or a signed count provably >= 0")
	n := 0
	for _, f := range decoderFuncs(c) {
		ia := core.NewIntervalAnalyzer(f)
		p := core.NewPather(f)
		ord := 0
		for _, b := range f.Blocks {
			for _, in := range b.Instrs {
				bo, ok := in.(*ssa.BinOp)
				if !ok || (bo.Op != token.SHL && bo.Op != token.SHR) {
					continue
				}
				ord++
				n++
				key := fmt.Sprintf("%s:shift#%d", shortFn(f), ord)
				if k, isK := core.ConstInt(bo.Y); isK {
					c.Check(k >= 0, R, key, bo.Pos(), "constant count", "constant negative shift count %d", k)
					continue
				}
				bt, isBasic := bo.Y.Type().Underlying().(*types.Basic)
				if isBasic && bt.Info()&types.IsUnsigned != 0 {
					c.Ok(R, key, bo.Pos(), "count of unsigned type")
					continue
				}
				iv := ia.At(bo.Y, b)
				if iv.Known && iv.Lo >= 0 {
					c.Ok(R, key, bo.Pos(), fmt.Sprintf("signed count in [%d,%d]", iv.Lo, iv.Hi))
					continue
				}
				c.Fail(R, key, bo.Pos(), "shift count %s has signed type and is not provably non-negative: a length taken from the input can make it negative, and Go panics on a negative shift count", clip(p.Path(bo.Y)))
			}
		}
	}
	c.Sites(n)
	c.Floor(R, n, 30)
}

// guardFresh: a bounds guard that reads the cursor (lo = p0.byteOffset) is only worth
// something if the cursor cannot move between that reading and the guarded use. The
// Pather renders two loads of the same field identically, so this is checked on the
// instructions: every load of the field named by lo that feeds the condition of the
// dominating If must sit in the If's block with no store to that field and no call
// that receives the cursor's owner after it, and the use must be in the block the If
// leads to, again with nothing moving the cursor before it.
func guardFresh(p *core.Pather, use ssa.Instruction, lo string) bool {
	if !strings.HasSuffix(lo, ".byteOffset") {
		return true // not a cursor
	}
	owner := strings.TrimSuffix(lo, ".byteOffset")
	moves := func(in ssa.Instruction) bool {
		switch x := in.(type) {
		case *ssa.Store:
			return p.Path(x.Addr) == lo
		case ssa.CallInstruction:
			for _, a := range x.Common().Args {
				if p.Path(a) == owner {
					n := core.CalleeName(x.Common())
					if strings.HasSuffix(n, ".bytesLeft") {
						return false // read-only helper
					}
					return true
				}
			}
		}
		return false
	}
	ub := use.Block()
	id := ub.Idom()
	if id == nil || len(ub.Preds) != 1 || ub.Preds[0] != id {
		return false
	}
	if _, isIf := id.Instrs[len(id.Instrs)-1].(*ssa.If); !isIf {
		return false
	}
	// nothing moves the cursor in the use block before the use
	for _, in := range ub.Instrs {
		if in == use {
			break
		}
		if moves(in) {
			return false
		}
	}
	// in the guard block: after the last cursor movement, the condition's cursor readings
	last := -1
	for i, in := range id.Instrs {
		if moves(in) {
			last = i
		}
	}
	iff := id.Instrs[len(id.Instrs)-1].(*ssa.If)
	ok := true
	seen := map[ssa.Value]bool{}
	var walk func(v ssa.Value, d int)
	walk = func(v ssa.Value, d int) {
		if v == nil || seen[v] || d > 10 {
			return
		}
		seen[v] = true
		reads := false
		switch y := v.(type) {
		case *ssa.UnOp:
			reads = y.Op == token.MUL && p.Path(y.X) == lo
		case *ssa.Call:
			reads = strings.HasSuffix(core.CalleeName(&y.Call), ".bytesLeft")
		}
		if reads {
			in := v.(ssa.Instruction)
			if in.Block() != id || core.InstrIndex(in) < last {
				ok = false
			}
			return
		}
		if in, isIn := v.(ssa.Instruction); isIn {
			for _, op := range in.Operands(nil) {
				if *op != nil {
					walk(*op, d+1)
				}
			}
		}
	}
	walk(iff.Cond, 0)
	return ok
}

// guardFreshAt: as guardFresh, for a guard block id whose false side x leads to the
// use (not necessarily in x's first block: the blocks from x down to the use must be
// a straight dominator chain without cursor movement before the use).
func guardFreshAt(p *core.Pather, id, x *ssa.BasicBlock, use ssa.Instruction, lo string) bool {
	owner := strings.TrimSuffix(lo, ".byteOffset")
	moves := func(in ssa.Instruction) bool {
		switch y := in.(type) {
		case *ssa.Store:
			return p.Path(y.Addr) == lo
		case ssa.CallInstruction:
			for _, a := range y.Common().Args {
				if p.Path(a) == owner {
					return !strings.HasSuffix(core.CalleeName(y.Common()), ".bytesLeft")
				}
			}
		}
		return false
	}
	// from the use's block up to x: every block has one predecessor, nothing moves the cursor before the use
	for b := use.Block(); ; b = b.Idom() {
		for _, in := range b.Instrs {
			if in == use {
				break
			}
			if moves(in) {
				return false
			}
		}
		if b == x {
			break
		}
		if b.Idom() == nil || len(b.Preds) != 1 {
			return false
		}
	}
	last := -1
	for i, in := range id.Instrs {
		if moves(in) {
			last = i
		}
	}
	iff, isIf := id.Instrs[len(id.Instrs)-1].(*ssa.If)
	if !isIf {
		return false
	}
	ok := true
	seen := map[ssa.Value]bool{}
	var walk func(v ssa.Value, d int)
	walk = func(v ssa.Value, d int) {
		if v == nil || seen[v] || d > 10 {
			return
		}
		seen[v] = true
		reads := false
		switch y := v.(type) {
		case *ssa.UnOp:
			reads = y.Op == token.MUL && p.Path(y.X) == lo
		case *ssa.Call:
			reads = strings.HasSuffix(core.CalleeName(&y.Call), ".bytesLeft")
		}
		if reads {
			in := v.(ssa.Instruction)
			if in.Block() != id || core.InstrIndex(in) < last {
				ok = false
			}
			return
		}
		if in, isIn := v.(ssa.Instruction); isIn {
			for _, op := range in.Operands(nil) {
				if *op != nil {
					walk(*op, d+1)
				}
			}
		}
	}
	walk(iff.Cond, 0)
	return ok
}
