package stgutg

import (
	"fmt"
	"testing"
	"time"
)

// F03: an optional IEI that is in neither table makes DecodePDUSessionNASPDU spin forever.
func TestF03(t *testing.T) {
	// 7 octets security header, DL NAS TRANSPORT header (EPD, SHT, MT, container type), LV-E container
	accept := []byte{0x2e, 0x01, 0x00, 0xc2, 0x11, // EPD, PSI, PTI, MT, type|SSC
		0x00, 0x01, 0x00, // QoS rules LV-E, length 1
		0x06, 0x01, 0x00, 0x01, 0x01, 0x00, 0x01, // session AMBR LV (7 octets)
		0x6e, 0x00, // unknown IEI 0x6E
		0x29, 0x05, 0x01, 10, 0, 0, 1}
	msg := []byte{0, 0, 0, 0, 0, 0, 0, 0x7e, 0x00, 0x68, 0x01, byte(len(accept) >> 8), byte(len(accept))}
	msg = append(msg, accept...)
	done := make(chan string, 1)
	go func() { done <- fmt.Sprint(DecodePDUSessionNASPDU(msg)) }()
	select {
	case r := <-done:
		t.Logf("returned %s", r)
	case <-time.After(2 * time.Second):
		t.Fatal("DecodePDUSessionNASPDU does not terminate on an unknown optional IEI")
	}
}

// F10: 3-digit MNC: PLMN octets of the SUCI.
func TestF10(t *testing.T) {
	s := EncodeSuci([]byte("310410123456789"), 3)
	want := []byte{0x13, 0x00, 0x14} // MCC2|MCC1, MNC3|MCC3, MNC2|MNC1
	got := s.Buffer[1:4]
	if got[0] != want[0] || got[1] != want[1] || got[2] != want[2] {
		t.Fatalf("PLMN octets %x, want %x", got, want)
	}
}

// F12: two UEs created from one IMSI must have different SUPIs.
func TestF12(t *testing.T) {
	a := CreateUE("001010000000001", 0, "k", "opc", "op")
	b := CreateUE("001010000000001", 1, "k", "opc", "op")
	if a.Supi == b.Supi {
		t.Fatalf("UE 0 and UE 1 share SUPI %s", a.Supi)
	}
}
