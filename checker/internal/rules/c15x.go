package rules

import (
	"fmt"
	"strings"

	"golang.org/x/tools/go/ssa"

	"stgverif/internal/core"
)

// Evaluator-based Milenage rules (DESIGN §11.1). AES is summarised: NewCipher succeeds,
// BlockSize is 16, Encrypt number n writes the 16 sources "E<n>[i]" into its destination
// and its input octets are recorded. Everything else (rotations, constants, OPc, output
// slices) is read off the abstract memory, whatever loops, copies or helpers compute it.

type aesEvent struct {
	n   int
	in  [16]core.BitVec
	key core.AVal
}

type aesModel struct {
	evs  []*aesEvent
	keys []core.AVal
}

func (m *aesModel) install(ex *core.Exec) {
	ex.OnCall = func(ev *core.AEvent, mem *core.AMem) (core.AVal, bool) {
		switch ev.Callee {
		case "crypto/aes.NewCipher":
			if len(ev.Args) == 1 {
				m.keys = append(m.keys, ev.Args[0])
			}
			return core.AVal{K: core.ATuple, Elems: []core.AVal{{K: core.AUnknown, Path: fmt.Sprintf("aes#%d", len(m.keys)), NonNil: true}, core.NilArg()}}, true
		case "invoke:(crypto/cipher.Block).BlockSize":
			return core.AVal{K: core.AInt, Bits: core.ConstBits(16, 64)}, true
		case "invoke:(crypto/cipher.Block).Encrypt":
			if len(ev.Args) != 2 || ev.Args[0].K != core.ASlice || ev.Args[1].K != core.ASlice || ev.Args[0].Lo < 0 || ev.Args[1].Lo < 0 {
				return core.AVal{}, false
			}
			e := &aesEvent{n: len(m.evs) + 1}
			if len(m.keys) > 0 {
				e.key = m.keys[len(m.keys)-1]
			}
			for i := 0; i < 16; i++ {
				v := mem.Load(fmt.Sprintf("%s[%d]", ev.Args[1].Path, ev.Args[1].Lo+i), types8)
				if v.K == core.AInt {
					e.in[i] = v.Bits
				}
			}
			for i := 0; i < 16; i++ {
				mem.Store(fmt.Sprintf("%s[%d]", ev.Args[0].Path, ev.Args[0].Lo+i), core.ArgBits(fmt.Sprintf("E%d[%d]", e.n, i), 8, 8), nil)
			}
			m.evs = append(m.evs, e)
			return core.AVal{K: core.ATuple}, true
		}
		return core.AVal{}, false
	}
}

func srcByte(name string, i int) core.BitVec { return core.SourceVec(fmt.Sprintf("%s[%d]", name, i), 8) }

// encOf returns the number n when v is E<n>[idx] xor with[idx] (idx given), else 0.
func encOf(v core.BitVec, idx int, with string) int {
	if len(v) != 8 || v[0].Kind != core.BSrc {
		return 0
	}
	for _, t := range strings.Split(strings.TrimSuffix(v[0].String(), ")"), "^") {
		t = strings.TrimPrefix(strings.TrimPrefix(t, "~"), "(")
		var n, i, b int
		if k, _ := fmt.Sscanf(t, "E%d[%d].%d", &n, &i, &b); k == 3 && i == idx {
			want := core.XorVec(srcByte(fmt.Sprintf("E%d", n), idx), srcByte(with, idx))
			if core.SameVec(v, want) {
				return n
			}
		}
	}
	return 0
}

func cell8(m *core.AMem, base string, i int) core.BitVec {
	v := m.Load(fmt.Sprintf("%s[%d]", base, i), nil)
	if v.K != core.AInt {
		return nil
	}
	return v.Bits
}

func milArgs(fn *ssa.Function, nilFrom int) []core.AVal {
	a := core.DefaultArgs(fn)
	for i := range a {
		if nilFrom >= 0 && i >= nilFrom {
			a[i] = core.NilArg()
		} else {
			a[i] = core.NonNilArg(a[i])
		}
	}
	return a
}

func r15f2345X(c *core.Ctx) {
	const R = "R15.const"
	fn := mustFunc(c, pMil, "milenageF2345")
	var m aesModel
	ex := core.NewExec()
	m.install(ex)
	outs, err := ex.Run(fn, milArgs(fn, -1), nil)
	var good *core.AOutcome
	for i := range outs {
		if !outs[i].Panicked && len(outs[i].Ret) == 1 && outs[i].Ret[0].K == core.ANil {
			if good != nil {
				good = nil
				break
			}
			good = &outs[i]
		}
	}
	if err != nil || good == nil || len(ex.Unsound) > 0 {
		c.SoftUndecided("R15.const: milenageF2345 could not be evaluated to one successful path (%v, %d outcomes, %v)", err, len(outs), ex.Unsound)
		return
	}
	mem := good.Mem
	// TEMP = E_K(RAND xor OPc)
	temp := 0
	for _, e := range m.evs {
		ok := true
		for j := 0; j < 16; j++ {
			if !core.SameVec(e.in[j], core.XorVec(srcByte("p2", j), srcByte("p0", j))) {
				ok = false
			}
		}
		if ok && temp == 0 {
			temp = e.n
		}
	}
	keyOK := len(m.keys) >= 1
	for _, k := range m.keys {
		if k.K != core.ASlice || k.Path != "p1" || k.Lo != 0 {
			keyOK = false
		}
	}
	c.Check(keyOK, R, "milenage.milenageF2345:aes-key", fn.Pos(), "AES keyed with K", "the block cipher must be keyed with K (parameter 1)")
	if temp == 0 {
		c.Fail(R, "milenage.milenageF2345:TEMP", fn.Pos(), "no AES encryption of RAND xor OPc (TEMP) on the successful path")
		return
	}
	c.Ok(R, "milenage.milenageF2345:TEMP", fn.Pos(), "TEMP = E_K(RAND xor OPc)")
	tempName := fmt.Sprintf("E%d", temp)
	// input of OUTk: rot(TEMP xor OPc, r) xor c, as octets: in[j] = (TEMP xor OPc)[(j+rot)%16], octet 15 xor c
	inputOK := func(n int, rot int, cst uint64) (bool, string) {
		if n <= 0 || n > len(m.evs) {
			return false, "no encryption feeds this output"
		}
		e := m.evs[n-1]
		for j := 0; j < 16; j++ {
			want := core.XorVec(srcByte(tempName, (j+rot)%16), srcByte("p0", (j+rot)%16))
			if j == 15 {
				want = core.XorVec(want, core.ConstBits(cst, 8))
			}
			if !core.SameVec(e.in[j], want) {
				return false, fmt.Sprintf("octet %d of the cipher input is %s", j, e.in[j].Describe())
			}
		}
		return true, ""
	}
	outOK := func(param string, from, n int) (int, string) {
		enc := 0
		for i := 0; i < n; i++ {
			v := cell8(mem, param, i)
			k := encOf(v, from+i, "p0")
			if k == 0 || (enc != 0 && k != enc) {
				return 0, fmt.Sprintf("%s[%d] is %s", param, i, v.Describe())
			}
			enc = k
		}
		return enc, ""
	}
	// with every optional output nil nothing may be written or dereferenced
	var m2 aesModel
	ex2 := core.NewExec()
	m2.install(ex2)
	outs2, err2 := ex2.Run(fn, milArgs(fn, 3), nil)
	nilOK := err2 == nil && len(ex2.Unsound) == 0
	for _, o := range outs2 {
		if o.Panicked {
			nilOK = false
		}
	}
	type spec struct {
		key, param string
		from, n    int
		rot        int
		cst        uint64
		want       string
	}
	e2, d2 := outOK("p3", 8, 8)
	ok2, why2 := inputOK(e2, 0, 1)
	c.Check(e2 != 0 && ok2, R, "milenage.milenageF2345:f2f5", fn.Pos(), "rot 0, c2=1, OUT2 = E_K(.) xor OPc",
		"f2/f5 must use rotation 0 and constant 1 and xor OPc over all 16 octets (%s %s)", d2, why2)
	c.Check(e2 != 0 && nilOK, R, "milenage.milenageF2345:RES", fn.Pos(), "RES = OUT2[8:16]", "RES must be octets 8..15 of OUT2 and written only when a buffer is given (%s; nil buffers tolerated %v)", d2, nilOK)
	eA, dA := outOK("p6", 0, 6)
	c.Check(eA != 0 && eA == e2 && nilOK, R, "milenage.milenageF2345:AK", fn.Pos(), "AK = OUT2[0:6]", "AK must be octets 0..5 of OUT2 and written only when a buffer is given (%s)", dA)
	for _, t := range []spec{
		{"f3/CK", "p4", 0, 16, 4, 2, "rot 4 octets (r3 = 32 bits), c3=2, E_K into the output, xor OPc"},
		{"f4/IK", "p5", 0, 16, 8, 4, "rot 8 octets (r4 = 64 bits), c4=4, E_K into the output, xor OPc"},
		{"f5*/AK*", "p7", 0, 6, 12, 8, "rot 12 octets (r5 = 96 bits), c5=8, AK* = (E_K(.) xor OPc)[0:6]"},
	} {
		e, d := outOK(t.param, t.from, t.n)
		ok, why := inputOK(e, t.rot, t.cst)
		c.Check(e != 0 && ok && nilOK, R, "milenage.milenageF2345:"+t.key, fn.Pos(), t.want,
			"%s must be E_K(rot(TEMP xor OPc, %d octets) xor %d) xor OPc, written only when a buffer is given (%s %s; nil buffers tolerated %v)", t.key, t.rot, t.cst, d, why, nilOK)
	}
}

func r15f1X(c *core.Ctx) {
	const R = "R15.const"
	fn := mustFunc(c, pMil, "milenageF1")
	var m aesModel
	ex := core.NewExec()
	m.install(ex)
	outs, err := ex.Run(fn, milArgs(fn, -1), nil)
	var good *core.AOutcome
	for i := range outs {
		if !outs[i].Panicked && len(outs[i].Ret) == 1 && outs[i].Ret[0].K == core.ANil {
			if good != nil {
				good = nil
				break
			}
			good = &outs[i]
		}
	}
	if err != nil || good == nil || len(ex.Unsound) > 0 {
		c.SoftUndecided("R15.const: milenageF1 could not be evaluated to one successful path (%v, %d outcomes, %v)", err, len(outs), ex.Unsound)
		return
	}
	mem := good.Mem
	temp := 0
	for _, e := range m.evs {
		ok := true
		for j := 0; j < 16; j++ {
			if !core.SameVec(e.in[j], core.XorVec(srcByte("p2", j), srcByte("p0", j))) {
				ok = false
			}
		}
		if ok && temp == 0 {
			temp = e.n
		}
	}
	// OUT1: mac_a = OUT1[0:8], mac_s = OUT1[8:16], OUT1 = E_K(.) xor OPc
	encA, encS := 0, 0
	okA, okS := true, true
	for i := 0; i < 8; i++ {
		kA := encOf(cell8(mem, "p5", i), i, "p0")
		kS := encOf(cell8(mem, "p6", i), 8+i, "p0")
		if kA == 0 || (encA != 0 && kA != encA) {
			okA = false
		}
		if kS == 0 || (encS != 0 && kS != encS) {
			okS = false
		}
		encA, encS = kA, kS
	}
	var m2 aesModel
	ex2 := core.NewExec()
	m2.install(ex2)
	outs2, err2 := ex2.Run(fn, milArgs(fn, 5), nil)
	nilOK := err2 == nil && len(ex2.Unsound) == 0
	for _, o := range outs2 {
		if o.Panicked {
			nilOK = false
		}
	}
	c.Check(okA && okS && encA == encS && nilOK, R, "milenage.milenageF1:MAC-A/MAC-S", fn.Pos(), "MAC-A = OUT1[0:8], MAC-S = OUT1[8:16]", "MAC-A must be octets 0..7 and MAC-S octets 8..15 of OUT1, each written under its own nil test (MAC-A ok=%v, MAC-S ok=%v, nil buffers tolerated %v)", okA, okS, nilOK)
	if !okA || temp == 0 {
		if temp == 0 {
			c.Fail(R, "milenage.milenageF1:r1-c1", fn.Pos(), "no AES encryption of RAND xor OPc (TEMP) on the successful path")
		}
		return
	}
	// input of OUT1: TEMP xor rot(IN1 xor OPc, 8 octets) xor c1 (= 0); IN1 = SQN(6) AMF(2) SQN AMF
	in1 := func(j int) core.BitVec {
		j %= 8
		if j < 6 {
			return srcByte("p3", j)
		}
		return srcByte("p4", j-6)
	}
	e := m.evs[encA-1]
	tempName := fmt.Sprintf("E%d", temp)
	okIn, okRot := true, true
	detail := ""
	for j := 0; j < 16; j++ {
		want := core.XorVec(srcByte(tempName, j), core.XorVec(in1((j+8)%16), srcByte("p0", (j+8)%16)))
		if !core.SameVec(e.in[j], want) {
			okRot = false
			detail = fmt.Sprintf("octet %d of the cipher input is %s", j, e.in[j].Describe())
			// is it at least built from the right IN1 octets at some rotation? (tells IN1 errors from rotation errors)
			for r := 0; r < 16; r++ {
				alt := core.XorVec(srcByte(tempName, j), core.XorVec(in1((j+r)%16), srcByte("p0", (j+r)%16)))
				if core.SameVec(e.in[j], alt) {
					okIn = okIn && true
				}
			}
		}
	}
	_ = okIn
	c.Check(okRot, R, "milenage.milenageF1:IN1", fn.Pos(), "IN1 = SQN || AMF || SQN || AMF", "the f1 cipher input must be TEMP xor rot(IN1 xor OPc, 8 octets) with IN1 = SQN(6)||AMF(2) twice (%s)", detail)
	c.Check(okRot, R, "milenage.milenageF1:r1-c1", fn.Pos(), "rot 8 octets (r1 = 64 bits), c1 = 0", "f1 must rotate IN1 xor OPc by 8 octets and use no constant (%s)", detail)
}

func r15opcX(c *core.Ctx) {
	const R = "R15.const"
	fn := mustFunc(c, pMil, "GenerateOPC")
	var m aesModel
	ex := core.NewExec()
	m.install(ex)
	outs, err := ex.Run(fn, milArgs(fn, -1), nil)
	var good *core.AOutcome
	for i := range outs {
		if !outs[i].Panicked && len(outs[i].Ret) == 2 && outs[i].Ret[1].K == core.ANil {
			good = &outs[i]
		}
	}
	if err != nil || good == nil || len(ex.Unsound) > 0 {
		c.SoftUndecided("R15.const: GenerateOPC could not be evaluated to a successful path (%v, %d outcomes, %v)", err, len(outs), ex.Unsound)
		return
	}
	okK := len(m.keys) == 1 && m.keys[0].K == core.ASlice && m.keys[0].Path == "p0" && m.keys[0].Lo == 0
	okE := false
	enc := 0
	for _, e := range m.evs {
		all := true
		for j := 0; j < 16; j++ {
			if !core.SameVec(e.in[j], srcByte("p1", j)) {
				all = false
			}
		}
		if all {
			okE, enc = true, e.n
		}
	}
	okX := false
	if r := good.Ret[0]; r.K == core.ASlice && r.Lo >= 0 && enc != 0 {
		okX = true
		for j := 0; j < 16; j++ {
			v := cell8(good.Mem, r.Path, r.Lo+j)
			if !core.SameVec(v, core.XorVec(srcByte(fmt.Sprintf("E%d", enc), j), srcByte("p1", j))) {
				okX = false
			}
		}
	}
	c.Check(okE && okX && okK, R, "milenage.GenerateOPC", fn.Pos(), "OPc = E_K(OP) xor OP", "OPc must be E_K(OP) xor OP (key=K ok %v, encrypt OP ok %v, xor OP ok %v)", okK, okE, okX)
}
