#!/usr/bin/env python3
"""Regenerates /verif/MANIFEST.json from the table below (one entry per claimed
property). Properties without an entry are listed under not_applicable with the
reason given in NA."""
import json, os, subprocess

V = '/verif'
BASE = json.load(open('/root/.vp/BASELINE.json'))

# property -> (technique, level text, level note, design ref)
CLAIMED = {}
NA = {}

def claim(pid, technique, text, note, ref):
    CLAIMED[pid] = (technique, text, note, ref)

exec(open(os.path.join(V, 'tools', 'manifest_table.py')).read())

props = [json.loads(l)['id'] for l in open(os.path.join(V, 'properties.jsonl'))]
checks = []
for pid in props:
    if pid not in CLAIMED:
        continue
    tech, text, note, ref = CLAIMED[pid]
    checks.append({
        "property_id": pid,
        "quick_cmd": "./check %s quick" % pid,
        "thorough_cmd": "./check %s thorough" % pid,
        "evidence_file": "/verif/evidence/%s.json" % pid,
        "replay_cmd_template": "./check %s quick --replay {path}" % pid,
        "engine": "stgverif",
        "level_claimed": {"category": "other", "text": text, "design_ref": ref},
        "level_note": note,
        "technique": tech,
    })
na = []
for pid in props:
    if pid not in CLAIMED:
        na.append({"property_id": pid, "reason": NA.get(pid, "no sound static rule registered for this property in this commit; see DESIGN.md section 7")})

m = {
    "version": 1,
    "setup_cmd": "cd /verif/checker && env -u GOROOT GOFLAGS=-mod=mod GOWORK=off GOPROXY=off GOSUMDB=off GOTOOLCHAIN=local go build -o /verif/bin/stgverif ./cmd/stgverif",
    "hooks": {
        "guard": "verif",
        "enable": "none needed: the checks are static (go/packages + go/ssa over /repo's working tree); nothing in /repo is built with a tag or executed",
        "baseline_off_cmd": BASE["cmd"],
        "source_commits": [],
        "add_only": True,
    },
    "engines": [{
        "name": "stgverif",
        "path": "/verif/checker",
        "serves_properties": [c["property_id"] for c in checks],
        "kind_free_text": "repository-specific static analyser (Go, golang.org/x/tools v0.29.0: go/packages type-checked load of the whole go.work workspace, go/ssa, dominators, path enumeration, access-path value identification, struct-tag/constant tables); rules per property in checker/internal/rules; obligations keyed rule:function:construct; known findings in /verif/known_findings.json; thorough tier adds the seeded-variant self-test of the checker (checker/mutants)",
    }],
    "checks": checks,
    "not_applicable": na,
    "notes": "Technique family: static analysis only. Every claimed check is level 'other': it decides structural necessary conditions of the property for all inputs at once and states in level_note / evidence.explanation which part of the behaviour it does not decide. See DESIGN.md.",
}
json.dump(m, open(os.path.join(V, 'MANIFEST.json'), 'w'), indent=1)
print("claimed", len(checks), "not_applicable", len(na))
