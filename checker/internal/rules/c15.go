package rules

import (
	"fmt"
	"go/token"
	"go/types"
	"regexp"
	"strings"

	"golang.org/x/tools/go/ssa"

	"stgverif/internal/core"
)

func init() { Registry["C15"] = c15 }

func c15(c *core.Ctx) map[string]interface{} {
	c.Explanation = "Static constant/offset/contract check of the Milenage library (C15). Decided: (R15.const) milenageF2345: TEMP = E_K(RAND xor OPc); for f2/f5, f3, f4, f5* the rotation offsets are 0, 12, 8, 4 octets (r2..r5 = 0, 32, 64, 96 bits), the constants 1, 2, 4, 8 are xored into octet 15, each output is E_K(...) xor OPc, RES = OUT2[8:16], AK = OUT2[0:6], AK* = OUT5[0:6], and each optional output is written exactly under its own nil test; milenageF1: IN1 = SQN||AMF||SQN||AMF (copy offsets 0, 6, 8), rotation 8 octets, no constant, MAC-A = OUT1[0:8], MAC-S = OUT1[8:16]; GenerateOPC = E_K(OP) xor OP; MilenageGenerate: AUTN = (SQN xor AK) || AMF@6 || MAC-A@8; (R15.cmp) the comparison helper returns a negative constant inside its a<b branch, a positive constant inside its a>b branch and 0 only after all octets compared equal; (R15.flow) Milenage_check recovers SQN with f5's AK, takes the resynchronisation branch exactly when memcmp(rxSQN, ueSQN, 6) <= 0 (AUTS = (SQN_ue xor AK*) || f1*(SQN_ue, AMF 00 00)), otherwise accepts exactly when memcmp(MAC-A over (rxSQN, AUTN's AMF), AUTN[8:], 8) == 0; Milenage_auts recomputes AK*, SQN and f1* with AMF 00 00 and compares all 8 octets of MAC-S. (R15.pure) no package-level cache or scratch state is reachable from F1, F2345, GenerateOPC, MilenageGenerate, Milenage_check, Milenage_auts: every output is a function of the call's own K, OP/OPc, RAND, SQN, AMF. NOT decided: AES itself (crypto/aes) and numerical equality with TS 35.206 test data."
	c.Assumptions = []string{"crypto/aes implements AES-128", "reflect.DeepEqual on two []uint8 compares length and every octet"}
	r15cmp(c)
	r15f2345X(c)
	r15f1X(c)
	r15opcX(c)
	r15generate(c)
	r15checkX(c)
	r15autsX(c)
	r15pure(c)
	return nil
}

// ---------------------------------------------------------------- R15.cmp
func r15cmp(c *core.Ctx) {
	const R = "R15.cmp"
	c.Rule(R, "os_memcmp: negative constant when a[i]<b[i], positive when a[i]>b[i], 0 only when the first num octets are equal")
	fn := mustFunc(c, pMil, "os_memcmp")
	p := core.NewPather(fn)
	ia := core.NewIntervalAnalyzer(fn)
	// the loop: i from 0 step 1 while i < num
	okLoop := false
	var iv string
	for _, l := range loopBounds(fn) {
		if l.initOK && l.init == 0 && l.step == 1 && l.op == token.LSS && l.limitPath == "p2" {
			okLoop = true
			iv = p.Path(l.phi)
		}
	}
	c.Check(okLoop, R, "milenage.os_memcmp:loop", fn.Pos(), "i = 0 .. num-1", "the comparison must visit octets 0..num-1 in order")
	if !okLoop {
		return
	}
	lt, gt := "(p0["+iv+"]<p1["+iv+"])", "(p0["+iv+"]>p1["+iv+"])"
	ltAlt, gtAlt := "(p1["+iv+"]>p0["+iv+"])", "(p1["+iv+"]<p0["+iv+"])"
	nRet := 0
	sawLt, sawGt, sawEq := false, false, false
	for _, b := range fn.Blocks {
		for _, in := range b.Instrs {
			r, ok := in.(*ssa.Return)
			if !ok || len(r.Results) != 1 {
				continue
			}
			nRet++
			// which inequality branch is this return in?
			branch := ""
			for x := b; x != nil; x = x.Idom() {
				id := x.Idom()
				if id == nil {
					break
				}
				if iff, isIf := id.Instrs[len(id.Instrs)-1].(*ssa.If); isIf && len(x.Preds) == 1 && id.Succs[0] == x {
					switch p.Path(iff.Cond) {
					case lt, ltAlt:
						branch = "lt"
					case gt, gtAlt:
						branch = "gt"
					}
				}
				if branch != "" {
					break
				}
			}
			k, isK := core.ConstInt(r.Results[0])
			key := fmt.Sprintf("milenage.os_memcmp:return#%d", nRet)
			// known-bad idiom: an unsigned difference reinterpreted as a signed value of the same width
			if w, bad := signedReinterpretedUnsignedDiff(r.Results[0]); bad {
				c.Fail(R, key, r.Pos(), "the result is the %d-bit unsigned difference a[i]-b[i] reinterpreted as signed: its sign is wrong whenever the octets differ by %d or more (a fresh SQN is judged stale and vice versa)", w, 1<<uint(w-1))
				continue
			}
			if !isK && branch != "" {
				iv := ia.At(r.Results[0], b)
				if iv.Known {
					okSign := (branch == "lt" && iv.Hi < 0) || (branch == "gt" && iv.Lo > 0)
					if branch == "lt" {
						sawLt = true
					} else {
						sawGt = true
					}
					c.Check(okSign, R, key, r.Pos(), fmt.Sprintf("%s → [%d,%d]", branch, iv.Lo, iv.Hi), "in the a[i]%sb[i] branch the result %s ranges over [%d,%d]: it can be 0 or of the wrong sign (buffers that differ are reported equal)", map[string]string{"lt": "<", "gt": ">"}[branch], p.Path(r.Results[0]), iv.Lo, iv.Hi)
					continue
				}
			}
			switch branch {
			case "lt":
				sawLt = true
				if !isK {
					c.SoftUndecided("os_memcmp: the value returned for a[i] < b[i] (%s) is not a constant; its sign is not established", p.Path(r.Results[0]))
				} else {
					c.Check(k < 0, R, key, r.Pos(), fmt.Sprintf("a<b → %d", k), "for a[i] < b[i] the result must be negative, is %d", k)
				}
			case "gt":
				sawGt = true
				if !isK {
					c.SoftUndecided("os_memcmp: the value returned for a[i] > b[i] (%s) is not a constant; its sign is not established", p.Path(r.Results[0]))
				} else {
					c.Check(k > 0, R, key, r.Pos(), fmt.Sprintf("a>b → %d", k), "for a[i] > b[i] the result must be positive, is %d", k)
				}
			default:
				// must be after the loop (all equal) and 0
				if isK && k == 0 {
					sawEq = true
					c.Ok(R, key, r.Pos(), "all equal → 0")
				} else if isK {
					c.Fail(R, key, r.Pos(), "a return outside the inequality branches yields %d; only 0 (all octets equal) is allowed there", k)
				} else {
					// an equality-only comparison (xor/or accumulation, difference of unsigned octets
					// widened to int, …): its result is never negative, but Milenage_check decides SQN
					// freshness on the sign (memcmp(rxSQN, ueSQN, 6) <= 0)
					v := r.Results[0]
					nonNeg := false
					if cv, isConv := v.(*ssa.Convert); isConv {
						if bt, isB := cv.X.Type().Underlying().(*types.Basic); isB && bt.Info()&types.IsUnsigned != 0 {
							nonNeg = true // conversion of an unsigned value to a wider signed type
						}
					}
					if iv := ia.At(v, b); iv.Known && iv.Lo >= 0 {
						nonNeg = true
					}
					if nonNeg {
						c.Fail(R, key, r.Pos(), "the result %s can never be negative: an equality-only comparison cannot tell 'less' from 'greater', yet Milenage_check takes the resynchronisation branch exactly when memcmp(rxSQN, ueSQN, 6) <= 0 — an AUTN whose SQN is lower than the UE's is accepted", clip(p.Path(v)))
					} else {
						c.SoftUndecided("os_memcmp: return value %s outside the recognised a<b / a>b branches", p.Path(v))
					}
				}
			}
		}
	}
	if !(sawLt && sawGt && sawEq) && len(c.Soft) == 0 {
		c.Fail(R, "milenage.os_memcmp:branches", fn.Pos(), "expected a return in the a[i]<b[i] branch, one in the a[i]>b[i] branch and a final return 0 (found lt=%v gt=%v eq=%v)", sawLt, sawGt, sawEq)
	}
}

// ---------------------------------------------------------------- R15.const
var rotRe = regexp.MustCompile(`^(.*)\[\(\((iv\d+)\+(\d+)\)%16\)\]$`)

type milBlock struct {
	guard   string // "" or "pN"
	rot     int64
	xorC    int64
	encDst  string
	encSrc  string
	postXor map[string]string // dst -> "dst[iv]^p0[iv]" limit
	copies  []string
}

func guardParam(p *core.Pather, b *ssa.BasicBlock) string {
	for x := b; x != nil; x = x.Idom() {
		id := x.Idom()
		if id == nil {
			break
		}
		if iff, ok := id.Instrs[len(id.Instrs)-1].(*ssa.If); ok && len(x.Preds) == 1 && id.Succs[0] == x {
			cs := p.Path(iff.Cond)
			if strings.HasPrefix(cs, "(p") && strings.HasSuffix(cs, "!=nil)") {
				return cs[1 : len(cs)-6]
			}
		}
	}
	return ""
}

func r15f2345(c *core.Ctx) {
	const R = "R15.const"
	c.Rule(R, "Milenage f1..f5*: rotation offsets, XOR constants, output slices, IN1 layout, OPc, AUTN layout (TS 35.206)")
	fn := mustFunc(c, pMil, "milenageF2345")
	p := core.NewPather(fn)
	loopLimit := map[string]int64{}
	for _, l := range loopBounds(fn) {
		if l.initOK && l.init == 0 && l.step == 1 && l.op == token.LSS && l.limitOK {
			loopLimit[p.Path(l.phi)] = l.limit
		}
	}
	type rec struct {
		rot  map[string]int64 // guard -> rot
		c    map[string]int64
		enc  map[string]string
		post map[string]string
	}
	R5 := rec{map[string]int64{}, map[string]int64{}, map[string]string{}, map[string]string{}}
	var temp, t1 string
	copies := map[string]string{}
	for _, b := range fn.Blocks {
		g := guardParam(p, b)
		for _, in := range b.Instrs {
			switch x := in.(type) {
			case *ssa.Store:
				ap, vp := p.Path(x.Addr), p.Path(x.Val)
				if m := rotRe.FindStringSubmatch(ap); m != nil {
					var k int64
					fmt.Sscanf(m[3], "%d", &k)
					if loopLimit[m[2]] == 16 && commEq(vp, "("+temp+"["+m[2]+"]^p0["+m[2]+"])") {
						R5.rot[g] = k
					}
				} else if strings.HasSuffix(ap, "[15]") && strings.HasPrefix(vp, "("+ap+"^") {
					var k int64
					fmt.Sscanf(vp[len(ap)+2:], "%d", &k)
					R5.c[g] = k
				} else if i := strings.LastIndex(ap, "[iv"); i >= 0 {
					iv := ap[i+1 : len(ap)-1]
					base := ap[:i]
					switch {
					case commEq(vp, "(p2["+iv+"]^p0["+iv+"])") && loopLimit[iv] == 16:
						t1 = base // RAND xor OPc
					case temp != "" && commEq(vp, "("+temp+"["+iv+"]^p0["+iv+"])") && loopLimit[iv] == 16 && base == t1:
						R5.rot[g] = 0
					case commEq(vp, "("+base+"["+iv+"]^p0["+iv+"])"):
						R5.post[g] = fmt.Sprintf("%s:%d", base, loopLimit[iv])
					case strings.HasPrefix(base, "p") && commEq(vp, "("+t1+"["+iv+"]^p0["+iv+"])"):
						R5.post[g] = fmt.Sprintf("%s<-T1:%d", base, loopLimit[iv])
					}
				}
			case *ssa.Call:
				n := core.CalleeName(&x.Call)
				if n == "invoke:(crypto/cipher.Block).Encrypt" {
					dst, src := p.Path(x.Call.Args[0]), p.Path(x.Call.Args[1])
					if temp == "" && src == t1 {
						temp = dst
					} else {
						R5.enc[g] = dst + "<-" + src
					}
				}
				if n == "builtin.copy" {
					copies[g] = p.Path(x.Call.Args[0]) + "<-" + p.Path(x.Call.Args[1])
				}
			}
		}
	}
	if temp == "" || t1 == "" {
		c.SoftUndecided("milenageF2345: TEMP = E_K(RAND xor OPc) not found in the recognised form")
		return
	}
	// key of AES = p1
	nc := core.CallsTo(fn, "crypto/aes.NewCipher")
	c.Check(len(nc) == 1 && p.Path(nc[0].Common().Args[0]) == "p1", R, "milenage.milenageF2345:aes-key", fn.Pos(), "AES keyed with K", "the block cipher must be keyed with K (parameter 1)")
	c.Ok(R, "milenage.milenageF2345:TEMP", fn.Pos(), "TEMP = E_K(RAND xor OPc)")
	out2 := ""
	if e := R5.enc[""]; strings.HasSuffix(e, "<-"+t1) {
		out2 = strings.TrimSuffix(e, "<-"+t1)
	}
	c.Check(R5.rot[""] == 0 && R5.c[""] == 1 && out2 != "" && R5.post[""] == out2+":16", R, "milenage.milenageF2345:f2f5", fn.Pos(), "rot 0, c2=1, OUT2 = E_K(.) xor OPc",
		"f2/f5 must use rotation 0 and constant 1 and xor OPc over all 16 octets (rot=%d c=%d enc=%s post=%s)", R5.rot[""], R5.c[""], R5.enc[""], R5.post[""])
	c.Check(copies["p3"] == "p3[0:]<-"+out2+"[8:16]", R, "milenage.milenageF2345:RES", fn.Pos(), "RES = OUT2[8:16]", "RES must be octets 8..15 of OUT2 and written only when a buffer is given; copy is %s", copies["p3"])
	c.Check(copies["p6"] == "p6[0:]<-"+out2+"[0:6]", R, "milenage.milenageF2345:AK", fn.Pos(), "AK = OUT2[0:6]", "AK must be octets 0..5 of OUT2 and written only when a buffer is given; copy is %s", copies["p6"])
	for _, t := range []struct {
		g, name string
		rot, k  int64
	}{{"p4", "f3/CK", 12, 2}, {"p5", "f4/IK", 8, 4}} {
		ok := R5.rot[t.g] == t.rot && R5.c[t.g] == t.k && R5.enc[t.g] == t.g+"<-"+t1 && R5.post[t.g] == t.g+":16"
		c.Check(ok, R, "milenage.milenageF2345:"+t.name, fn.Pos(), fmt.Sprintf("rot %d octets, c=%d, E_K into the output, xor OPc", t.rot, t.k),
			"%s must rotate by %d octets (index (i+%d)%%16), xor constant %d into octet 15, encrypt into its own buffer and xor OPc over 16 octets; found rot=%d c=%d enc=%s post=%s", t.name, 16-t.rot, t.rot, t.k, R5.rot[t.g], R5.c[t.g], R5.enc[t.g], R5.post[t.g])
	}
	ok5 := R5.rot["p7"] == 4 && R5.c["p7"] == 8 && R5.enc["p7"] == t1+"<-"+t1 && R5.post["p7"] == "p7<-T1:6"
	c.Check(ok5, R, "milenage.milenageF2345:f5*/AK*", fn.Pos(), "rot 4 octets, c5=8, AK* = (E_K(.) xor OPc)[0:6]", "f5* must rotate by 12 octets (index (i+4)%%16), xor constant 8, and output octets 0..5 xor OPc; found rot=%d c=%d enc=%s post=%s", R5.rot["p7"], R5.c["p7"], R5.enc["p7"], R5.post["p7"])
}

func r15f1(c *core.Ctx) {
	const R = "R15.const"
	fn := mustFunc(c, pMil, "milenageF1")
	p := core.NewPather(fn)
	var cps []string
	for _, ci := range core.CallsTo(fn, "builtin.copy") {
		cps = append(cps, p.Path(ci.Common().Args[0])+"<-"+p.Path(ci.Common().Args[1]))
	}
	// IN1: three copies into the same buffer
	in1 := ""
	okIn := false
	if len(cps) >= 3 {
		if i := strings.Index(cps[0], "[0:]<-p3[0:6]"); i > 0 {
			in1 = cps[0][:i]
			okIn = cps[1] == in1+"[6:]<-p4[0:2]" && cps[2] == in1+"[8:]<-"+in1+"[0:8]"
		}
	}
	c.Check(okIn, R, "milenage.milenageF1:IN1", fn.Pos(), "IN1 = SQN || AMF || SQN || AMF", "IN1 must be SQN(6)||AMF(2) repeated twice (copies at offsets 0, 6, 8); copies are %v", cps)
	// rotation 8, xor TEMP, no constant
	rot := int64(-1)
	constXor := false
	for _, b := range fn.Blocks {
		for _, in := range b.Instrs {
			if st, ok := in.(*ssa.Store); ok {
				ap, vp := p.Path(st.Addr), p.Path(st.Val)
				if m := rotRe.FindStringSubmatch(ap); m != nil && in1 != "" && commEq(vp, "("+in1+"["+m[2]+"]^p0["+m[2]+"])") {
					fmt.Sscanf(m[3], "%d", &rot)
				}
				if strings.HasSuffix(ap, "[15]") && strings.HasPrefix(vp, "("+ap+"^") {
					constXor = true
				}
			}
		}
	}
	c.Check(rot == 8 && !constXor, R, "milenage.milenageF1:r1-c1", fn.Pos(), "rot 8 octets (r1 = 64 bits), c1 = 0", "f1 must rotate IN1 xor OPc by 8 octets and use no constant; found rotation index offset %d, constant xor %v", rot, constXor)
	okA, okS := false, false
	for _, cp := range cps {
		if strings.HasPrefix(cp, "p5[0:]<-") && strings.HasSuffix(cp, "[0:8]") && guardOfCopy(fn, p, cp) == "p5" {
			okA = true
		}
		if strings.HasPrefix(cp, "p6[0:]<-") && strings.HasSuffix(cp, "[8:16]") && guardOfCopy(fn, p, cp) == "p6" {
			okS = true
		}
	}
	c.Check(okA && okS, R, "milenage.milenageF1:MAC-A/MAC-S", fn.Pos(), "MAC-A = OUT1[0:8], MAC-S = OUT1[8:16]", "MAC-A must be octets 0..7 and MAC-S octets 8..15 of OUT1, each written under its own nil test (MAC-A ok=%v, MAC-S ok=%v)", okA, okS)
}

func guardOfCopy(fn *ssa.Function, p *core.Pather, want string) string {
	for _, ci := range core.CallsTo(fn, "builtin.copy") {
		if p.Path(ci.Common().Args[0])+"<-"+p.Path(ci.Common().Args[1]) == want {
			return guardParam(p, ci.Block())
		}
	}
	return ""
}

func r15opc(c *core.Ctx) {
	const R = "R15.const"
	fn := mustFunc(c, pMil, "GenerateOPC")
	p := core.NewPather(fn)
	enc := core.Calls(fn)
	okE, okX, okK := false, false, false
	var out string
	for _, ci := range enc {
		n := core.CalleeName(ci.Common())
		if n == "invoke:(crypto/cipher.Block).Encrypt" && p.Path(ci.Common().Args[1]) == "p1" {
			okE = true
			out = p.Path(ci.Common().Args[0])
		}
		if n == "crypto/aes.NewCipher" && p.Path(ci.Common().Args[0]) == "p0" {
			okK = true
		}
	}
	for _, b := range fn.Blocks {
		for _, in := range b.Instrs {
			if st, ok := in.(*ssa.Store); ok && out != "" {
				ap, vp := p.Path(st.Addr), p.Path(st.Val)
				if i := strings.LastIndex(ap, "[iv"); i >= 0 && ap[:i] == out {
					iv := ap[i+1 : len(ap)-1]
					if commEq(vp, "("+out+"["+iv+"]^p1["+iv+"])") {
						okX = true
					}
				}
			}
		}
	}
	c.Check(okE && okX && okK && retPathIs(fn, p, out), R, "milenage.GenerateOPC", fn.Pos(), "OPc = E_K(OP) xor OP", "OPc must be E_K(OP) xor OP (key=K ok %v, encrypt OP ok %v, xor OP ok %v)", okK, okE, okX)
}

func callArgPaths(fn *ssa.Function, callee string) [][]string {
	p := core.NewPather(fn)
	var out [][]string
	for _, ci := range core.CallsTo(fn, callee) {
		var as []string
		for _, a := range ci.Common().Args {
			as = append(as, p.Path(a))
		}
		out = append(out, as)
	}
	return out
}

func r15generate(c *core.Ctx) {
	const R = "R15.const"
	fn := mustFunc(c, pMil, "MilenageGenerate")
	p := core.NewPather(fn)
	// MilenageGenerate(opc, amf, k, sqn, _rand, autn, ik, ck, ak, res, res_len)
	f1 := callArgPaths(fn, pMil+".milenageF1")
	f2 := callArgPaths(fn, pMil+".milenageF2345")
	okF := len(f1) == 1 && len(f2) == 1 && len(f1[0]) == 7 && len(f2[0]) == 8
	var macA string
	if okF {
		a := f1[0]
		macA = a[5]
		okF = a[0] == "p0" && a[1] == "p2" && a[2] == "p4" && a[3] == "p3" && a[4] == "p1" && a[6] == "nil"
		b := f2[0]
		okF = okF && b[0] == "p0" && b[1] == "p2" && b[2] == "p4" && b[3] == "p9" && b[4] == "p7" && b[5] == "p6" && b[6] == "p8" && b[7] == "nil"
	}
	c.Check(okF, R, "milenage.MilenageGenerate:calls", fn.Pos(), "f1(OPc,K,RAND,SQN,AMF→MAC-A), f2345(OPc,K,RAND→RES,CK,IK,AK)", "MilenageGenerate must call f1 and f2345 with (OPc,K,RAND,SQN,AMF) and its own output buffers; f1 args %v, f2345 args %v", f1, f2)
	okX := false
	for _, b := range fn.Blocks {
		for _, in := range b.Instrs {
			if st, ok := in.(*ssa.Store); ok {
				ap, vp := p.Path(st.Addr), p.Path(st.Val)
				if strings.HasPrefix(ap, "p5[iv") {
					iv := ap[3 : len(ap)-1]
					if commEq(vp, "(p3["+iv+"]^p8["+iv+"])") {
						for _, l := range loopBounds(fn) {
							if p.Path(l.phi) == iv && l.limitOK && l.limit == 6 && l.initOK && l.init == 0 {
								okX = true
							}
						}
					}
				}
			}
		}
	}
	var cps []string
	for _, ci := range core.CallsTo(fn, "builtin.copy") {
		cps = append(cps, p.Path(ci.Common().Args[0])+"<-"+p.Path(ci.Common().Args[1]))
	}
	okAmf, okMac := false, false
	for _, cp := range cps {
		if cp == "p5[6:]<-p1[0:2]" {
			okAmf = true
		}
		if cp == "p5[8:]<-"+macA+"[0:8]" {
			okMac = true
		}
	}
	c.Check(okX && okAmf && okMac, R, "milenage.MilenageGenerate:AUTN", fn.Pos(), "AUTN = (SQN xor AK) || AMF || MAC-A", "AUTN must be (SQN xor AK)[0:6] || AMF at 6 || MAC-A at 8 (sqn^ak %v, amf %v, mac %v)", okX, okAmf, okMac)
}

// ---------------------------------------------------------------- R15.flow
func r15check(c *core.Ctx) {
	const R = "R15.flow"
	c.Rule(R, "Milenage_check / Milenage_auts: SQN recovery, resync iff memcmp(rxSQN, SQN, 6) <= 0, accept iff MAC-A equal over 8 octets; AUTS built/verified with AMF 00 00 over the UE's SQN")
	fn := mustFunc(c, pMil, "Milenage_check")
	p := core.NewPather(fn)
	// Milenage_check(opc, k, sqn, _rand, autn, ik, ck, res, res_len, auts)
	f2 := callArgPaths(fn, pMil+".milenageF2345")
	f1 := callArgPaths(fn, pMil+".milenageF1")
	cm := core.CallsTo(fn, pMil+".os_memcmp")
	if len(f2) != 2 || len(f1) != 2 || len(cm) != 2 {
		c.Fail(R, "milenage.Milenage_check:calls", fn.Pos(), "expected 2 f2345, 2 f1 and 2 memcmp calls, found %d, %d, %d", len(f2), len(f1), len(cm))
		return
	}
	ak := f2[0][6]
	ok1 := f2[0][0] == "p0" && f2[0][1] == "p1" && f2[0][2] == "p3" && f2[0][3] == "p7" && f2[0][4] == "p6" && f2[0][5] == "p5" && f2[0][7] == "nil"
	c.Check(ok1, R, "milenage.Milenage_check:f2345", fn.Pos(), "f2345(OPc,K,RAND → RES,CK,IK,AK)", "first f2345 call must produce RES, CK, IK and AK; args %v", f2[0])
	// rx_sqn = autn ^ ak over 6
	rx := ""
	for _, b := range fn.Blocks {
		for _, in := range b.Instrs {
			if st, ok := in.(*ssa.Store); ok {
				ap, vp := p.Path(st.Addr), p.Path(st.Val)
				if i := strings.LastIndex(ap, "[iv"); i >= 0 {
					iv := ap[i+1 : len(ap)-1]
					if commEq(vp, "(p4["+iv+"]^"+ak+"["+iv+"])") {
						rx = ap[:i]
					}
				}
			}
		}
	}
	c.Check(rx != "", R, "milenage.Milenage_check:rx-sqn", fn.Pos(), "rxSQN = AUTN[0:6] xor AK", "the received SQN must be AUTN[i] xor AK[i]")
	// first memcmp: (rx, sqn, 6) <= 0 → resync
	a0 := cm[0].Common().Args
	c0 := p.Path(a0[0]) == rx && p.Path(a0[1]) == "p2"
	n0, _ := core.ConstInt(a0[2])
	var resyncEdge *ssa.BasicBlock
	for _, b := range fn.Blocks {
		if iff, ok := b.Instrs[len(b.Instrs)-1].(*ssa.If); ok {
			cs := p.Path(iff.Cond)
			if cs == "("+p.Path(cm[0].(*ssa.Call))+"<=0)" {
				resyncEdge = b.Succs[0]
			}
		}
	}
	// the freshness test guards acceptance: MAC verification (and with it `return 0`) is reached
	// only through the "SQN is greater" side of that very test, whatever the other arguments are
	if resyncEdge != nil {
		var ifB *ssa.BasicBlock
		for _, b := range fn.Blocks {
			if len(b.Succs) == 2 && b.Succs[0] == resyncEdge {
				if iff, ok := b.Instrs[len(b.Instrs)-1].(*ssa.If); ok && p.Path(iff.Cond) == "("+p.Path(cm[0].(*ssa.Call))+"<=0)" {
					ifB = b
				}
			}
		}
		accB := cm[1].Block()
		guarded := ifB != nil && ifB.Dominates(accB) && (ifB.Succs[1] == accB || (len(ifB.Succs[1].Preds) == 1 && ifB.Succs[1].Dominates(accB)))
		c.Check(guarded, R, "milenage.Milenage_check:freshness-guards-accept", cm[1].Pos(), "MAC-A is verified only after SQN was found greater than the UE's",
			"the MAC-A verification (and acceptance) can be reached without the freshness test memcmp(rxSQN, ueSQN, 6) <= 0 having been evaluated and found false: an AUTN whose SQN is not greater than the UE's (a replay) is accepted on that path")
	}
	c.Check(c0 && n0 == 6 && resyncEdge != nil, R, "milenage.Milenage_check:freshness", cm[0].Pos(), "resync iff memcmp(rxSQN, SQN, 6) <= 0", "freshness test must be memcmp(rxSQN, ueSQN, 6) <= 0 (all 6 octets); is memcmp(%s, %s, %d)", p.Path(a0[0]), p.Path(a0[1]), n0)
	// resync branch: f2345(..., nil x4, ak) ; auts[i] = sqn[i]^ak[i]; f1(opc,k,rand,sqn,[0,0],nil,auts[6:]); return -2
	okR := f2[1][3] == "nil" && f2[1][4] == "nil" && f2[1][5] == "nil" && f2[1][6] == "nil" && f2[1][7] != "nil" && f2[1][2] == "p3"
	akStar := f2[1][7]
	var resF1, accF1 []string
	for _, a := range f1 {
		if a[4] == "[0,0]" {
			resF1 = a
		} else {
			accF1 = a
		}
	}
	okA := false
	for _, b := range fn.Blocks {
		for _, in := range b.Instrs {
			if st, ok := in.(*ssa.Store); ok {
				ap, vp := p.Path(st.Addr), p.Path(st.Val)
				if strings.HasPrefix(ap, "p9[iv") {
					iv := ap[3 : len(ap)-1]
					if commEq(vp, "(p2["+iv+"]^"+akStar+"["+iv+"])") {
						okA = true
					}
				}
			}
		}
	}
	okF1 := resF1 != nil && resF1[0] == "p0" && resF1[1] == "p1" && resF1[2] == "p3" && resF1[3] == "p2" && resF1[5] == "nil" && resF1[6] == "p9[6:]"
	c.Check(okR && okA && okF1, R, "milenage.Milenage_check:resync", fn.Pos(), "AUTS = (SQN_ue xor AK*) || f1*(SQN_ue, AMF 00 00)", "resynchronisation must compute AK* (f5*), AUTS[0:6] = SQN_ue xor AK*, AUTS[6:14] = f1*(SQN_ue, AMF=0000) (f5* %v, xor %v, f1* %v)", okR, okA, okF1)
	// accept branch
	mac := ""
	okAcc := false
	if accF1 != nil {
		mac = accF1[5]
		okAcc = accF1[0] == "p0" && accF1[1] == "p1" && accF1[2] == "p3" && accF1[3] == rx && accF1[4] == "p4[6:]" && accF1[6] == "nil"
	}
	a1 := cm[1].Common().Args
	n1, _ := core.ConstInt(a1[2])
	okCmp := p.Path(a1[0]) == mac && p.Path(a1[1]) == "p4[8:]" && n1 == 8
	// != 0 → -1 ; else 0
	okRet := false
	for _, b := range fn.Blocks {
		if iff, ok := b.Instrs[len(b.Instrs)-1].(*ssa.If); ok && p.Path(iff.Cond) == "("+p.Path(cm[1].(*ssa.Call))+"!=0)" {
			r1 := retConst(b.Succs[0])
			r0 := retConst(b.Succs[1])
			if r1 != nil && *r1 < 0 && r0 != nil && *r0 == 0 {
				okRet = true
			}
		}
	}
	c.Check(okAcc && okCmp && okRet, R, "milenage.Milenage_check:mac", cm[1].Pos(), "accept iff memcmp(f1(rxSQN, AUTN.AMF), AUTN[8:], 8) == 0", "acceptance must compare MAC-A = f1(rxSQN, AMF of AUTN) with AUTN[8:16] over all 8 octets and reject on any difference (f1 ok %v, memcmp(%s,%s,%d) ok %v, result mapping ok %v)", okAcc, p.Path(a1[0]), p.Path(a1[1]), n1, okCmp, okRet)
}

func retConst(b *ssa.BasicBlock) *int64 {
	for _, in := range b.Instrs {
		if r, ok := in.(*ssa.Return); ok && len(r.Results) == 1 {
			if k, isK := core.ConstInt(r.Results[0]); isK {
				return &k
			}
		}
	}
	return nil
}

func r15auts(c *core.Ctx) {
	const R = "R15.flow"
	fn := mustFunc(c, pMil, "Milenage_auts")
	p := core.NewPather(fn)
	// Milenage_auts(opc, k, _rand, auts, sqn)
	f2 := callArgPaths(fn, pMil+".milenageF2345")
	f1 := callArgPaths(fn, pMil+".milenageF1")
	if len(f2) != 1 || len(f1) != 1 {
		c.Fail(R, "milenage.Milenage_auts:calls", fn.Pos(), "expected one f2345 and one f1 call")
		return
	}
	ak := f2[0][7]
	ok2 := f2[0][3] == "nil" && f2[0][6] == "nil" && ak != "nil" && f2[0][0] == "p0" && f2[0][1] == "p1" && f2[0][2] == "p2"
	okS := false
	for _, b := range fn.Blocks {
		for _, in := range b.Instrs {
			if st, ok := in.(*ssa.Store); ok {
				ap, vp := p.Path(st.Addr), p.Path(st.Val)
				if strings.HasPrefix(ap, "p4[iv") {
					iv := ap[3 : len(ap)-1]
					if commEq(vp, "(p3["+iv+"]^"+ak+"["+iv+"])") {
						okS = true
					}
				}
			}
		}
	}
	macS := f1[0][6]
	ok1 := f1[0][0] == "p0" && f1[0][1] == "p1" && f1[0][2] == "p2" && f1[0][3] == "p4" && f1[0][4] == "[0,0]" && f1[0][5] == "nil" && macS != "nil"
	c.Check(ok2 && okS && ok1, R, "milenage.Milenage_auts:recompute", fn.Pos(), "SQN = AUTS[0:6] xor AK*; MAC-S = f1*(SQN, AMF 00 00)", "AUTS validation must recover SQN with AK* and recompute f1* over it with AMF 0000 (f5* %v, sqn %v, f1* %v)", ok2, okS, ok1)
	// comparison over all 8 octets
	okC := false
	desc := "none"
	for _, ci := range core.Calls(fn) {
		n := core.CalleeName(ci.Common())
		a := ci.Common().Args
		if n == "reflect.DeepEqual" && len(a) == 2 {
			x, y := p.Path(a[0]), p.Path(a[1])
			desc = "DeepEqual(" + x + "," + y + ")"
			if (x == macS && y == "p3[6:14]") || (y == macS && x == "p3[6:14]") {
				okC = true
			}
		}
		if n == pMil+".os_memcmp" && len(a) == 3 {
			k, _ := core.ConstInt(a[2])
			x, y := p.Path(a[0]), p.Path(a[1])
			desc = fmt.Sprintf("memcmp(%s,%s,%d)", x, y, k)
			if k == 8 && ((x == macS && strings.HasPrefix(y, "p3[6:")) || (y == macS && strings.HasPrefix(x, "p3[6:"))) {
				okC = true
			}
		}
		if n == "bytes.Equal" && len(a) == 2 {
			x, y := p.Path(a[0]), p.Path(a[1])
			desc = "bytes.Equal(" + x + "," + y + ")"
			if (x == macS && y == "p3[6:14]") || (y == macS && x == "p3[6:14]") {
				okC = true
			}
		}
	}
	c.Check(okC, R, "milenage.Milenage_auts:mac-s-compare", fn.Pos(), "all 8 octets of MAC-S compared with AUTS[6:14]", "MAC-S must be compared with AUTS[6:14] over all 8 octets; comparison found: %s", desc)
}

// signedReinterpretedUnsignedDiff recognises conv<intN>(x - y) with x, y unsigned
// N-bit (possibly widened afterwards).
func signedReinterpretedUnsignedDiff(v ssa.Value) (int, bool) {
	for depth := 0; depth < 4; depth++ {
		cv, ok := v.(*ssa.Convert)
		if !ok {
			return 0, false
		}
		if bo, isBo := cv.X.(*ssa.BinOp); isBo && bo.Op == token.SUB {
			wt, ws := bitWidth(cv.Type()), bitWidth(bo.X.Type())
			if wt == ws && wt > 0 && !isUnsignedType(cv.Type()) && isUnsignedType(bo.X.Type()) {
				return wt, true
			}
		}
		v = cv.X
	}
	return 0, false
}

func isUnsignedType(t types.Type) bool {
	b, ok := t.Underlying().(*types.Basic)
	return ok && b.Info()&types.IsUnsigned != 0
}

func r15pure(c *core.Ctx) {
	if !c.Once("r15pure") {
		return
	}
	entries := exportedFuncs(c, pMil, func(n string) bool { return n != "" && n[0] >= 'A' && n[0] <= 'Z' })
	if len(entries) < 5 {
		c.Undecided("R15.pure: only %d exported milenage functions found", len(entries))
	}
	pureState(c, "R15.pure", "Milenage (F1, F2345, GenerateOPC, MilenageGenerate, Milenage_check, Milenage_auts)", entries, nil)
}
