package core

import (
	"fmt"
	"go/token"
	"sort"
	"strings"

	"golang.org/x/tools/go/ssa"
)

// Lin is a linear form C + Σ coef·term over opaque terms named by their canonical
// access path. It makes offset arithmetic independent of how the source groups
// its constants (5+2+L+7 ≡ L+14).
type Lin struct {
	C int64
	T map[string]int64
}

func (l Lin) String() string {
	var ks []string
	for k := range l.T {
		ks = append(ks, k)
	}
	sort.Strings(ks)
	var parts []string
	for _, k := range ks {
		if l.T[k] == 1 {
			parts = append(parts, k)
		} else {
			parts = append(parts, fmt.Sprintf("%d*%s", l.T[k], k))
		}
	}
	parts = append(parts, fmt.Sprint(l.C))
	return strings.Join(parts, " + ")
}

// Is reports whether the form is exactly c + Σ terms (each with coefficient 1).
func (l Lin) Is(c int64, terms ...string) bool {
	if l.C != c || len(l.T) != len(terms) {
		return false
	}
	for _, t := range terms {
		if l.T[t] != 1 {
			return false
		}
	}
	return true
}

func Linearize(p *Pather, v ssa.Value) Lin {
	out := Lin{T: map[string]int64{}}
	linAdd(p, v, 1, &out, 0)
	for k, c := range out.T {
		if c == 0 {
			delete(out.T, k)
		}
	}
	return out
}

func linAdd(p *Pather, v ssa.Value, coef int64, out *Lin, depth int) {
	if k, ok := ConstInt(v); ok {
		if _, isC := v.(*ssa.Const); isC {
			out.C += coef * k
			return
		}
	}
	if depth < 12 {
		switch x := v.(type) {
		case *ssa.Convert:
			linAdd(p, x.X, coef, out, depth+1)
			return
		case *ssa.ChangeType:
			linAdd(p, x.X, coef, out, depth+1)
			return
		case *ssa.BinOp:
			switch x.Op {
			case token.ADD:
				linAdd(p, x.X, coef, out, depth+1)
				linAdd(p, x.Y, coef, out, depth+1)
				return
			case token.SUB:
				linAdd(p, x.X, coef, out, depth+1)
				linAdd(p, x.Y, -coef, out, depth+1)
				return
			case token.MUL:
				if k, ok := ConstInt(x.Y); ok {
					linAdd(p, x.X, coef*k, out, depth+1)
					return
				}
				if k, ok := ConstInt(x.X); ok {
					linAdd(p, x.Y, coef*k, out, depth+1)
					return
				}
			}
		}
	}
	out.T[p.Path(v)] += coef
}
