package rules

import (
	"fmt"
	"strings"

	"golang.org/x/tools/go/ssa"

	"stgverif/internal/core"
)

func init() { Registry["C01"] = c01 }

func c01(c *core.Ctx) map[string]interface{} {
	c.Explanation = "Static check of the NG Setup and initial-registration procedure script (C01): the structural part of 'the exchange is accepted by a conformant AMF'. Decided: (R0.nilglobal) as for C03; (R1.order) on every path of ManageNGSetup and RegisterUE the N2 sends are exactly NGSetupRequest / InitialUEMessage[RegistrationRequest], UplinkNASTransport[AuthenticationResponse], UplinkNASTransport[SecurityModeComplete], InitialContextSetupResponse, UplinkNASTransport[RegistrationComplete], in this order, each answer preceded by a receive, each sent buffer being the direct result of the build-and-encode wrapper of that message; (R1.sec) SecurityModeComplete is protected with header type 4 and newSecurityContext=true and is the first protected message after the key derivation, RegistrationComplete with header type 2 and newSecurityContext=false, Registration Request and Authentication Response go out plain; (R1.ids) every wrapper receives the AmfUeNgapId/RanUeNgapId of the UE being registered in the parameter of that role, AmfUeNgapId is assigned, before its first use, from IE 0 (AMF-UE-NGAP-ID, mandatory and first by TS 38.413 9.2.5.2) of the same decoded DownlinkNASTransport that delivered the Authentication Request, RAND and AUTN handed to the key derivation are the ones of that Authentication Request, RES* returned by the derivation is the argument of the Authentication Response, the Registration Request carries the SUCI of the UE's own SUPI and its security capability; (R1.naspdu) GetNasPdu selects the NAS-PDU IE by its id (optional IEs before it do not matter) and hands it to NASDecode with the header type read from it; (R1.snn) the serving network name is 5G:mnc<3 digits>.mcc<mcc>.3gppnetwork.org with a zero pad exactly for a 2-digit MNC; (R1.plmn = R11.plmn) the announced PLMN is octets 1..3 of the SUCI encoding; (R1.main) main hands the configured gNB id/bit length/name, MNC, MCC, K, OP, OPc to the drivers unchanged and connects, sets up NG and registers in this order; (R1.ppid) the association's default PPID is 60 (NGAP, TS 38.412) in network byte order. (components) the rule sets of C03 (canonical APER inputs and error discipline), C05 (5G-AKA derivation), C06 (uplink NAS protection and COUNT), C07 (NEA/NIA), C11 (SUCI/PLMN) and C13 (NGAP builders) are run as part of this check, because the registration is accepted only if each of them holds. (R9.mt/R9.ctor/R9.acc) message-type constants, the emulator's NAS constructors and the bit layout of the IE accessors they use are checked as in C09. (how) R1.order, R1.ids, R1.snn and R11.plmn read the evaluator model of the drivers: each driver is interpreted abstractly with the helpers of package stgutg (and forwarding layers of tglib) entered and every library boundary replaced by a named result, so a step moved into a helper is the same step; argument roles are checked as value-at-the-call = content of the UE field at the call; the SSA def-use form of these rules is the fallback when a driver cannot be evaluated (noted). (R0.swap, via C05) no call of the emulator packages passes two same-typed variables each named after the other's parameter. NOT decided: that the bytes are accepted by a real AMF for every runtime value (no AMF model is executed); that the AMF's answers are the expected message types; the NAS wire layout (C09, checked separately because it carries listed findings on messages this exchange does not use)."
	c.Assumptions = []string{"ManageError terminates the process when its error argument is non-nil (C19)", "a conformant AMF sends the IEs of a message in the order of TS 38.413 9.2 (clause 10.3.6)"}
	r0nilglobal(c, ngapEntries(c)...)
	r1order(c)
	r1ids(c)
	r1naspdu(c)
	r1snn(c)
	r11plmn(c)
	r1main(c)
	r1ppid(c)
	// the exchange is accepted only if, in addition to the script, every layer underneath is
	// right: the rule sets of the component properties are part of this check
	include(c, "C03", "C05", "C06", "C07", "C11", "C13")
	// NAS messages of the exchange: message types, constructor discipline and IE accessor layout
	// (the part of C09 that concerns what the emulator sends; R9.tab with its listed findings on
	// messages this exchange does not use stays with C09)
	r9mt(c)
	r9ctor(c)
	r9acc(c)
	return nil
}

var scriptNGSetup = []expectedSend{{"send:NGSetupRequest", 0, "NG Setup, TS 38.413 8.7.1"}}

var scriptRegister = []expectedSend{
	{"send:InitialUEMessage[plain:GetRegistrationRequest]", 0, "initial NAS message, no security context yet"},
	{"send:UplinkNASTransport[plain:GetAuthenticationResponse]", 1, "answer to the Authentication Request; no NAS security context is in use before Security Mode Command"},
	{"send:UplinkNASTransport[prot(4,T,T):GetSecurityModeComplete]", 1, "TS 24.501 4.4.4.3/5.4.2.4: integrity protected and ciphered with the new context, COUNT restarts at 0"},
	{"send:InitialContextSetupResponse", 1, "answer to InitialContextSetupRequest"},
	{"send:UplinkNASTransport[prot(2,T,F):GetRegistrationComplete]", 0, "integrity protected and ciphered under the context taken into use by Security Mode Complete"},
}

func r1order(c *core.Ctx) {
	const R = "R1.order"
	c.Rule(R, "ManageNGSetup and RegisterUE send exactly the scripted messages in order on every path, answers after a receive, with the scripted NAS security envelope")
	ngFn, regFn := mustFunc(c, pStg, "ManageNGSetup"), mustFunc(c, pStg, "RegisterUE")
	if xn, xr := driverModelX(c, ngFn), driverModelX(c, regFn); xUsable(c, xn) && xUsable(c, xr) {
		checkScriptX(c, R, xn, scriptNGSetup)
		r1orderNGX(c, R, xn)
		checkScriptX(c, R, xr, scriptRegister)
		r1orderDeriveX(c, R, xr)
		return
	}
	ng := driverModel(c, ngFn)
	checkScript(c, R, ng, scriptNGSetup)
	// the NG Setup response is read (and decoded) before the driver returns
	okRecv := ng.ok && len(ng.paths) > 0
	for _, path := range ng.paths {
		seenSend, recvAfter := false, false
		for _, e := range path {
			if strings.HasPrefix(e, "send:") {
				seenSend = true
			}
			if e == "recv" && seenSend {
				recvAfter = true
			}
		}
		okRecv = okRecv && recvAfter
	}
	c.Check(okRecv, R, "ManageNGSetup:waits-for-response", ng.fn.Pos(), "a receive follows the NG Setup Request on every path", "ManageNGSetup must wait for the NG Setup Response before UEs are registered")
	reg := driverModel(c, regFn)
	checkScript(c, R, reg, scriptRegister)
	// key derivation and AMF id assignment sit between the first receive and the second send
	okDerive := reg.ok && len(reg.paths) > 0
	why := ""
	for _, path := range reg.paths {
		sends, recvs, derive, setamf := 0, 0, -1, -1
		for _, e := range path {
			switch {
			case strings.HasPrefix(e, "send:"):
				sends++
			case e == "recv":
				recvs++
			case e == "derive":
				if derive >= 0 {
					okDerive, why = false, "the key derivation runs twice"
				}
				derive = sends
				if recvs < 1 {
					okDerive, why = false, "the key derivation runs before the Authentication Request is received"
				}
			case e == "setamf":
				setamf = sends
			}
		}
		if derive != 1 {
			okDerive = false
			if why == "" {
				why = "the key derivation is not between Registration Request and Authentication Response"
			}
		}
		if setamf != 1 {
			okDerive = false
			if why == "" {
				why = "AmfUeNgapId is not assigned between the first receive and the Authentication Response"
			}
		}
	}
	c.Check(okDerive, R, "RegisterUE:derive-and-learn-amf-id-before-answer", reg.fn.Pos(), "DeriveRESstarAndSetKey once and AmfUeNgapId assigned after the first receive, before the second send", "RegisterUE: %s", why)
}

func r1ids(c *core.Ctx) {
	const R = "R1.ids"
	c.Rule(R, "identifier and parameter flow of RegisterUE: own ids in their roles, AMF id from IE 0 of the decoded DownlinkNASTransport, RAND/AUTN of that message into the derivation, RES* into the response, own SUCI and capabilities into the request")
	fn := mustFunc(c, pStg, "RegisterUE")
	m := driverModel(c, fn)
	if x := driverModelX(c, fn); xUsable(c, x) {
		checkIDsX(c, R, x)
		r1idsX(c, R, x)
		checkPositional(c, R, m)
		r1idsNG(c, R)
		return
	}
	checkIDs(c, R, m)
	p := m.p
	// the decoded first downlink message
	var naspdu *ssa.Call
	for _, ci := range core.CallsTo(fn, pTglib+".GetNasPdu") {
		if naspdu != nil {
			c.SoftUndecided("RegisterUE calls GetNasPdu more than once")
		}
		naspdu, _ = ci.(*ssa.Call)
	}
	if naspdu == nil {
		c.Fail(R, "RegisterUE:GetNasPdu", fn.Pos(), "RegisterUE must decode the Authentication Request with tglib.GetNasPdu")
		return
	}
	msgPath := p.Path(naspdu.Common().Args[1])
	dec := "call:" + pNgap + ".Decoder("
	okMsg := strings.HasPrefix(msgPath, dec) && strings.HasSuffix(msgPath, "#0.InitiatingMessage.Value.DownlinkNASTransport") && p.Path(naspdu.Common().Args[0]) == m.ue
	c.Check(okMsg, R, "RegisterUE:GetNasPdu:args", naspdu.Pos(), "GetNasPdu(ue, decoded.InitiatingMessage.Value.DownlinkNASTransport)", "GetNasPdu must receive the UE and the DownlinkNASTransport of the decoded message, gets %s", clip(msgPath))
	// AMF id: same decoded message, IE 0, AMFUENGAPID.Value
	for _, b := range fn.Blocks {
		for _, in := range b.Instrs {
			st, ok := in.(*ssa.Store)
			if !ok || !isFieldOfUE(st.Addr, "AmfUeNgapId") {
				continue
			}
			vp := p.Path(st.Val)
			want := msgPath + ".ProtocolIEs.List[0].Value.AMFUENGAPID.Value"
			c.Check(vp == want && p.Path(st.Addr) == m.ue+".AmfUeNgapId", R, "RegisterUE:AmfUeNgapId:source", st.Pos(), "IE 0 (AMF-UE-NGAP-ID) of the decoded DownlinkNASTransport", "AmfUeNgapId must be the AMF-UE-NGAP-ID (IE 0) of the DownlinkNASTransport that carried the Authentication Request; is %s", clip(vp))
			// dominates every use
			okDom := true
			for _, s := range m.sends {
				if s.WCall == nil {
					continue
				}
				for i, r := range s.Roles {
					if r == "amf" && i < len(s.WCall.Common().Args) && !core.Dominates(st, s.WCall) {
						okDom = false
					}
				}
			}
			c.Check(okDom, R, "RegisterUE:AmfUeNgapId:before-first-use", st.Pos(), "assignment dominates every use", "AmfUeNgapId is used in a message before it is learned from the AMF")
		}
	}
	checkPositional(c, R, m)
	r1idsNG(c, R)
	// key derivation arguments
	ds := core.CallsTo(fn, pTglib+".RanUeContext.DeriveRESstarAndSetKey")
	if len(ds) != 1 {
		c.Fail(R, "RegisterUE:derive", fn.Pos(), "expected exactly one DeriveRESstarAndSetKey call, found %d", len(ds))
		return
	}
	d := ds[0].(*ssa.Call)
	a := d.Common().Args
	np := p.Path(naspdu)
	autnWant := "call:" + pNasT + ".AuthenticationParameterAUTN.GetAUTN(" + np + ".GmmMessage.AuthenticationRequest.AuthenticationParameterAUTN)"
	randWant := "call:" + pNasT + ".AuthenticationParameterRAND.GetRANDValue(" + np + ".GmmMessage.AuthenticationRequest.AuthenticationParameterRAND)"
	autn, rnd := p.Path(a[2]), p.Path(a[3])
	// rand[:] of a local array: the array's only store
	if sl, isSl := a[3].(*ssa.Slice); isSl && sl.Low == nil && sl.High == nil {
		if al, isAl := sl.X.(*ssa.Alloc); isAl {
			var stores []*ssa.Store
			other := false
			for _, r := range core.Referrers(al) {
				switch x := r.(type) {
				case *ssa.Store:
					if x.Addr == ssa.Value(al) {
						stores = append(stores, x)
					}
				case *ssa.Slice, *ssa.DebugRef:
				default:
					other = true
				}
			}
			if len(stores) == 1 && !other && core.Dominates(stores[0], d) {
				rnd = p.Path(stores[0].Val)
			}
		}
	}
	c.Check(p.Path(a[0]) == m.ue && p.Path(a[1]) == m.ue+".AuthenticationSubs", R, "RegisterUE:derive:subscription", d.Pos(), "(ue, ue.AuthenticationSubs, …)", "the key derivation must use the UE's own subscription data")
	c.Check(autn == autnWant, R, "RegisterUE:derive:autn", d.Pos(), "AUTN of the decoded Authentication Request", "AUTN argument must be GetAUTN() of the decoded Authentication Request, is %s", clip(autn))
	c.Check(rnd == randWant || rnd == randWant+"[:]" || strings.HasPrefix(rnd, randWant), R, "RegisterUE:derive:rand", d.Pos(), "RAND of the decoded Authentication Request", "RAND argument must be GetRANDValue() of the decoded Authentication Request, is %s", clip(rnd))
	c.Check(p.Path(a[5]) == "p1" && p.Path(a[6]) == "p2", R, "RegisterUE:derive:mnc-mcc", d.Pos(), "(…, mnc, mcc)", "the derivation must receive (mnc, mcc) in this order, gets (%s, %s)", p.Path(a[5]), p.Path(a[6]))
	// RES* → Authentication Response
	for _, s := range m.sends {
		if s.NAS == nil || s.NAS.CtorCall == nil {
			continue
		}
		switch s.NAS.Ctor {
		case "GetAuthenticationResponse":
			got := s.NAS.CtorCall.Common().Args[0]
			c.Check(got == ssa.Value(d), R, "RegisterUE:AuthenticationResponse:res-star", s.NAS.CtorCall.Pos(), "RES* = result of DeriveRESstarAndSetKey", "the Authentication Response must carry the RES* returned by DeriveRESstarAndSetKey, carries %s", clip(p.Path(got)))
		case "GetRegistrationRequest":
			ca := s.NAS.CtorCall.Common().Args
			k, isK := core.ConstInt(ca[0])
			suci := p.Path(ca[1])
			okSuci := strings.HasPrefix(suci, "call:"+pStg+".EncodeSuci(") && strings.Contains(suci, m.ue+".Supi") && strings.HasSuffix(suci, ",call:builtin.len(p1))")
			c.Check(isK && k == 1 && okSuci && p.Path(ca[3]) == "call:"+pTglib+".RanUeContext.GetUESecurityCapability("+m.ue+")", R, "RegisterUE:RegistrationRequest:args", s.NAS.CtorCall.Pos(), "initial registration, SUCI of the UE's SUPI, the UE's security capability", "the Registration Request must be an initial registration (1) with the SUCI of the UE's own SUPI (MNC length of the configuration) and the UE's security capability; gets type %d, identity %s", k, clip(suci))
		}
	}
}

// r1idsNG: gNB id, bit length and name of the caller reach the NG Setup wrapper unchanged.
func r1idsNG(c *core.Ctx, R string) {
	ng := mustFunc(c, pStg, "ManageNGSetup")
	if x := driverModelX(c, ng); xUsable(c, x) {
		okNG := true
		for _, p := range x.paths {
			ws := p.all("wrap")
			if len(ws) != 1 || len(ws[0].Args) < 4 || nm(ws[0].Args[0]) != "p1" || nm(ws[0].Args[2]) != "p4" || nm(ws[0].Args[3]) != "p5" {
				okNG = false
			}
		}
		c.Check(okNG, R, "ManageNGSetup:GetNGSetupRequest:args", ng.Pos(), "([]byte(gnbId), plmn, bitlength, name)", "ManageNGSetup must hand its gNB id, bit length and name to GetNGSetupRequest unchanged")
		return
	}
	np := core.NewPather(ng)
	gs := core.CallsTo(ng, pTglib+".GetNGSetupRequest")
	okNG := len(gs) == 1
	if okNG {
		ga := gs[0].Common().Args
		okNG = np.Path(ga[0]) == "p1" && np.Path(ga[2]) == "p4" && np.Path(ga[3]) == "p5"
	}
	c.Check(okNG, R, "ManageNGSetup:GetNGSetupRequest:args", ng.Pos(), "([]byte(gnbId), plmn, bitlength, name)", "ManageNGSetup must hand its gNB id, bit length and name to GetNGSetupRequest unchanged")
}

func r1naspdu(c *core.Ctx) {
	const R = "R1.naspdu"
	c.Rule(R, "GetNasPdu finds the NAS-PDU IE by id and decodes it with the header type read from the message")
	fn := mustFunc(c, pTglib, "GetNasPdu")
	c.Analysed(core.FuncName(fn))
	p := core.NewPather(fn)
	ds := core.CallsTo(fn, pTglib+".NASDecode")
	if len(ds) != 1 {
		c.Fail(R, "tglib.GetNasPdu:NASDecode", fn.Pos(), "expected one NASDecode call, found %d", len(ds))
		return
	}
	d := ds[0].(*ssa.Call)
	a := d.Common().Args
	pkg := p.Path(a[2])
	okArgs := p.Path(a[0]) == "p0" && strings.HasPrefix(pkg, "p1.ProtocolIEs.List[") && strings.HasSuffix(pkg, "].Value.NASPDU.Value") && p.Path(a[1]) == "call:"+pNas+".GetSecurityHeaderType("+pkg+")"
	c.Check(okArgs, R, "tglib.GetNasPdu:NASDecode:args", d.Pos(), "NASDecode(ue, GetSecurityHeaderType(pdu), pdu) with pdu = ie.Value.NASPDU.Value", "GetNasPdu must decode the NAS-PDU IE's octets with the header type read from them; decodes %s", clip(pkg))
	// guarded by ie.Id.Value == ProtocolIEIDNASPDU (38)
	okGuard := false
	idNAS := mustConst(c, pNgapT, "ProtocolIEIDNASPDU")
	for _, b := range fn.Blocks {
		iff, ok := b.Instrs[len(b.Instrs)-1].(*ssa.If)
		if !ok {
			continue
		}
		bo, ok := iff.Cond.(*ssa.BinOp)
		if !ok {
			continue
		}
		k, isK := core.ConstInt(bo.Y)
		lhs := p.Path(bo.X)
		if !isK || k != idNAS || !strings.HasSuffix(lhs, "].Id.Value") || !strings.HasPrefix(pkg, strings.TrimSuffix(lhs, ".Id.Value")) {
			continue
		}
		var t *ssa.BasicBlock
		switch bo.Op.String() {
		case "==":
			t = b.Succs[0]
		case "!=":
			t = b.Succs[1]
		}
		if t != nil && len(t.Preds) == 1 && t.Dominates(d.Block()) {
			okGuard = true
		}
	}
	c.Check(okGuard, R, "tglib.GetNasPdu:select-by-id", fn.Pos(), fmt.Sprintf("ie.Id.Value == %d (id-NAS-PDU) dominates the read", idNAS), "GetNasPdu must read the NASPDU alternative only of the IE whose id is id-NAS-PDU (optional IEs may precede it)")
}

func r1snn(c *core.Ctx) {
	const R = "R1.snn"
	c.Rule(R, "serving network name = 5G:mnc<mnc padded to 3 digits>.mcc<mcc>.3gppnetwork.org")
	fn := mustFunc(c, pStg, "RegisterUE")
	if x := driverModelX(c, fn); xUsable(c, x) && r1snnX(c, R, x) {
		return
	}
	p := core.NewPather(fn)
	ds := core.CallsTo(fn, pTglib+".RanUeContext.DeriveRESstarAndSetKey")
	if len(ds) != 1 {
		c.SoftUndecided("RegisterUE: the serving network name handed to the key derivation could not be followed")
		return
	}
	sn := ds[0].Common().Args[4]
	phi, ok := sn.(*ssa.Phi)
	pad := `((((` + `"5G:mnc0"+p1)+".mcc")+p2)+".3gppnetwork.org")`
	nopad := `((((` + `"5G:mnc"+p1)+".mcc")+p2)+".3gppnetwork.org")`
	if !ok {
		// one expression for both MNC lengths: "…" + x + "…", fmt.Sprintf, or a helper returning one
		if t := strTemplate(p, sn, 0, nil); t != nil {
			good := len(t) == 5 && t[0].arg == "" && t[0].lit == "5G:mnc" && t[1].arg == "p1" && t[1].pad0 == 3 && t[1].pad == 0 &&
				t[2].arg == "" && t[2].lit == ".mcc" && t[3].arg == "p2" && t[3].pad == 0 && (t[3].pad0 == 0 || t[3].pad0 == 3) &&
				t[4].arg == "" && t[4].lit == ".3gppnetwork.org"
			c.Check(good, R, "RegisterUE:serving-network-name", ds[0].Pos(), tmplString(t), "the serving network name must be 5G:mnc<MNC, zero-padded to 3 digits>.mcc<MCC>.3gppnetwork.org (TS 24.501 9.12.1) with p1 = mnc and p2 = mcc of RegisterUE; it is %s", tmplString(t))
			return
		}
	}
	if !ok || len(phi.Edges) != 2 {
		c.SoftUndecided("RegisterUE: serving network name is not a two-way choice (%s)", clip(p.Path(sn)))
		return
	}
	okAll := true
	why := ""
	for i, e := range phi.Edges {
		pred := phi.Block().Preds[i]
		// walk up to the deciding If on len(mnc)==2
		var taken string
		cur := pred
		for steps := 0; steps < 4 && taken == ""; steps++ {
			if len(cur.Preds) != 1 && cur != pred {
				break
			}
			var up *ssa.BasicBlock
			if iff, isIf := cur.Instrs[len(cur.Instrs)-1].(*ssa.If); isIf && cur == pred {
				// the phi's block is a direct successor of the If
				cp := p.Path(iff.Cond)
				idx := 1
				if cur.Succs[0] == phi.Block() {
					idx = 0
				}
				taken = edgeMeaning(cp, idx)
				break
			}
			if len(cur.Preds) == 1 {
				up = cur.Preds[0]
				if iff, isIf := up.Instrs[len(up.Instrs)-1].(*ssa.If); isIf {
					cp := p.Path(iff.Cond)
					idx := 1
					if up.Succs[0] == cur {
						idx = 0
					}
					taken = edgeMeaning(cp, idx)
				}
				cur = up
			} else {
				break
			}
		}
		v := p.Path(e)
		switch taken {
		case "len2":
			if v != pad {
				okAll, why = false, "for a 2-digit MNC the name is "+clip(v)
			}
		case "notlen2":
			if v != nopad {
				okAll, why = false, "for a 3-digit MNC the name is "+clip(v)
			}
		default:
			okAll, why = false, "the choice is not made on len(mnc) == 2"
		}
	}
	c.Check(okAll, R, "RegisterUE:serving-network-name", ds[0].Pos(), "zero pad exactly when len(mnc) == 2", "the serving network name must be 5G:mnc<3 digits>.mcc<mcc>.3gppnetwork.org (TS 24.501 9.12.1): %s", why)
}

func edgeMeaning(cond string, succ int) string {
	switch cond {
	case "(call:builtin.len(p1)==2)":
		if succ == 0 {
			return "len2"
		}
		return "notlen2"
	case "(call:builtin.len(p1)!=2)", "(call:builtin.len(p1)==3)":
		if succ == 0 {
			return "notlen2"
		}
		return "len2"
	}
	return ""
}

func r1main(c *core.Ctx) {
	const R = "R1.main"
	c.Rule(R, "main connects, sets up NG and registers in this order (both modes) and hands the configuration to the drivers unchanged")

	cfg := func(s string) bool { return strings.HasPrefix(s, "local:*stgutg.Conf#0.Configuration.") }
	field := func(s string) string { return strings.TrimPrefix(s, "local:*stgutg.Conf#0.Configuration.") }
	if mainUnreadable(c, R) {
		return
	}
	total := 0
	for _, body := range modeBodies(c) {
		total += body.modes
	}
	if total != 2 {
		c.Fail(R, "main:calls", mustFunc(c, pMain, "main").Pos(), "expected ConnectToAmf, ManageNGSetup, CreateUE and RegisterUE once per mode (2 modes), found %d ConnectToAmf calls in main and the functions it hands the modes to", total)
		return
	}
	for _, body := range modeBodies(c) {
		r1mainBody(c, R, body, cfg, field)
	}
}

func r1mainBody(c *core.Ctx, R string, body *mainBody, cfg func(string) bool, field func(string) string) {
	fn, p := body.fn, body.p
	c.Analysed(core.FuncName(fn))
	conns := core.CallsTo(fn, pTglib+".ConnectToAmf")
	ngs := core.CallsTo(fn, pStg+".ManageNGSetup")
	regs := core.CallsTo(fn, pStg+".RegisterUE")
	cres := core.CallsTo(fn, pStg+".CreateUE")
	if len(conns) != body.modes || len(ngs) != body.modes || len(regs) != body.modes || len(cres) != body.modes {
		c.Fail(R, "main:calls", fn.Pos(), "expected ConnectToAmf, ManageNGSetup, CreateUE and RegisterUE once per mode (%d each in %s), found %d, %d, %d, %d", body.modes, fn.Name(), len(conns), len(ngs), len(cres), len(regs))
		return
	}
	for i := 0; i < body.modes; i++ {
		mode := fmt.Sprintf("mode%d", body.first+i+1)
		co, ng, rg, cr := conns[i].(*ssa.Call), ngs[i].(*ssa.Call), regs[i].(*ssa.Call), cres[i].(*ssa.Call)
		c.Check(core.Dominates(co, ng) && core.Dominates(ng, rg) && core.Dominates(cr, rg), R, "main:"+mode+":connect<ngsetup<register", ng.Pos(), "dominance order", "main must connect, complete NG Setup, then create and register UEs")
		a := co.Common().Args
		got := []string{p.Path(a[0]), p.Path(a[1]), p.Path(a[2]), p.Path(a[3])}
		okC := cfg(got[0]) && field(got[0]) == "AmfNgapIP" && field(got[1]) == "StgNgapIP" && field(got[2]) == "AmfNgapPort" && field(got[3]) == "StgNgapPort"
		c.Check(okC, R, "main:"+mode+":ConnectToAmf:args", co.Pos(), "(AmfNgapIP, StgNgapIP, AmfNgapPort, StgNgapPort)", "ConnectToAmf must receive the configured AMF and own address/port in this order, gets %v", got)
		a = ng.Common().Args
		conn := p.Path(co) + "#0"
		got = nil
		for _, x := range a {
			got = append(got, p.Path(x))
		}
		okN := got[0] == conn && field(got[1]) == "Gnb_id" && field(got[2]) == "Initial_imsi" && field(got[3]) == "Mnc" && field(got[4]) == "Gnb_bitlength" && field(got[5]) == "Gnb_name"
		c.Check(okN, R, "main:"+mode+":ManageNGSetup:args", ng.Pos(), "(conn, Gnb_id, Initial_imsi, Mnc, Gnb_bitlength, Gnb_name)", "ManageNGSetup must receive the connection and the configured gNB id, IMSI, MNC, bit length and name, gets %v", clipAll(got))
		a = rg.Common().Args
		okR := p.Path(a[0]) == p.Path(cr) && field(p.Path(a[1])) == "Mnc" && field(p.Path(a[2])) == "Mcc" && p.Path(a[3]) == conn
		c.Check(okR, R, "main:"+mode+":RegisterUE:args", rg.Pos(), "(CreateUE(...), Mnc, Mcc, conn)", "RegisterUE must receive the UE just created, the configured MNC and MCC and the connection")
		a = cr.Common().Args
		okU := field(p.Path(a[0])) == "Initial_imsi" && strings.HasPrefix(p.Path(a[1]), "iv") && field(p.Path(a[2])) == "K" && field(p.Path(a[3])) == "OPC" && field(p.Path(a[4])) == "OP"
		c.Check(okU, R, "main:"+mode+":CreateUE:args", cr.Pos(), "(Initial_imsi, i, K, OPC, OP)", "CreateUE must receive the configured IMSI, the loop index and K, OPC, OP in this order")
	}
}

func clipAll(s []string) []string {
	var o []string
	for _, x := range s {
		o = append(o, clip(x))
	}
	return o
}

func r1ppid(c *core.Ctx) {
	const R = "R1.ppid"
	c.Rule(R, "ConnectToAmf sets the default payload protocol identifier of the association to 60 (NGAP) in network byte order and returns that association")
	fn := mustFunc(c, pTglib, "ConnectToAmf")
	c.Analysed(core.FuncName(fn))
	p := core.NewPather(fn)
	okStore, okSet := false, false
	var conn string
	for _, ci := range core.Calls(fn) {
		if core.CalleeName(ci.Common()) == "github.com/ishidawataru/sctp.DialSCTP" {
			conn = p.Path(ci.(*ssa.Call)) + "#0"
		}
	}
	for _, b := range fn.Blocks {
		for _, in := range b.Instrs {
			switch x := in.(type) {
			case *ssa.Store:
				if k, isK := core.ConstInt(x.Val); isK && strings.HasSuffix(p.Path(x.Addr), ".PPID") {
					okStore = k == 0x3c000000
				}
			case ssa.CallInstruction:
				if core.CalleeName(x.Common()) == "github.com/ishidawataru/sctp.SCTPConn.SetDefaultSentParam" && p.Path(x.Common().Args[0]) == conn {
					okSet = true
				}
			}
		}
	}
	okRet := false
	for _, b := range fn.Blocks {
		if r, ok := b.Instrs[len(b.Instrs)-1].(*ssa.Return); ok && len(r.Results) == 2 {
			if k, isK := r.Results[1].(*ssa.Const); isK && k.IsNil() && p.Path(r.Results[0]) == conn {
				okRet = true
			}
		}
	}
	c.Check(okStore && okSet && okRet && conn != "", R, "tglib.ConnectToAmf:ppid", fn.Pos(), "info.PPID = 0x3c000000; SetDefaultSentParam; return conn", "ConnectToAmf must set PPID 60 (0x3c000000 as stored by this sctp binding) on the dialled association and return it (store %v, set %v, returned %v)", okStore, okSet, okRet)
}
