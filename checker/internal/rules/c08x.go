package rules

import (
	"fmt"
	"go/constant"
	"go/token"
	"go/types"
	"sort"
	"strings"

	"golang.org/x/tools/go/ssa"

	"stgverif/internal/core"
)

// R8.dispatch on the abstract evaluator (DESIGN §11.6): the family decoders/encoders of nas.go are
// interpreted with the per-message constructors and codecs summarised; every path is identified by
// the fact it establishes about the message-type octet (or the EPD), whatever switch / if chain /
// local aliases select it.

func nasDispatchEval(fn *ssa.Function, msgLen int) ([]core.AOutcome, *core.Exec, error) {
	ex := core.NewExec()
	ex.MaxStates = 2000
	ex.OnCall = func(ev *core.AEvent, m *core.AMem) (core.AVal, bool) {
		n := ev.Callee
		if ev.Fn != nil && ev.Fn.Synthetic != "" && len(ev.Fn.Blocks) > 0 {
			// a method expression of a promoted method ((*GmmMessage).EncodeX in a table of codecs) is a
			// thunk that loads the embedded message and calls its method: entered, the real call is seen
			return core.AVal{}, false
		}
		if strings.HasPrefix(n, pNasM+".New") {
			return core.AVal{K: core.APtr, Path: "new:" + n[len(pNasM)+4:], NonNil: true}, true
		}
		if strings.HasPrefix(n, pNasM+".") {
			short := n[strings.LastIndexByte(n, '.')+1:]
			if strings.HasPrefix(short, "Decode") || strings.HasPrefix(short, "Encode") {
				return core.OpaqueRet(ev), true
			}
		}
		if strings.HasPrefix(n, pNas+".Message.") {
			short := n[len(pNas)+9:]
			switch short {
			case "GmmMessageDecode", "GsmMessageDecode", "GmmMessageEncode", "GsmMessageEncode":
				if ev.Fn != nil && ev.Site.Parent() != ev.Fn {
					return core.AVal{K: core.AUnknown, Path: "result:" + short}, true
				}
			}
		}
		return core.AVal{}, false
	}
	ex.Observe = func(ev *core.AEvent) {
		// a call through a function value the path did not pin down: a dispatch form the rule cannot read
		if ev.Fn == nil && ev.Site != nil && !ev.Site.Common().IsInvoke() && ev.Site.Common().StaticCallee() == nil {
			if _, isB := ev.Site.Common().Value.(*ssa.Builtin); !isB {
				nasDispatchDynamic[ex] = true
			}
		}
	}
	args := core.DefaultArgs(fn)
	for i := range args {
		args[i] = core.NonNilArg(args[i])
	}
	var mem *core.AMem
	if msgLen > 0 && len(args) == 2 && args[1].K == core.APtr {
		// the message handed in has exactly msgLen octets
		mem = core.NewMem()
		mem.Store(args[1].Path, core.AVal{K: core.ASlice, Path: "nasmsg", Lo: 0, Len: msgLen, NonNil: true}, nil)
	}
	outs, err := ex.Run(fn, args, mem)
	return outs, ex, err
}

var nasDispatchDynamic = map[*core.Exec]bool{}

// factOn returns the single value the path has established for a source whose name contains part.
func factOn(o core.AOutcome, parts ...string) (uint64, bool) {
	var v uint64
	n := 0
	for src, f := range o.Facts {
		all := true
		for _, p := range parts {
			if !strings.Contains(src, p) {
				all = false
			}
		}
		if all && f[0] == f[1] {
			v = f[0]
			n++
		}
	}
	return v, n == 1
}

func r8dispatchX(c *core.Ctx, m *nasModel) {
	const R = "R8.dispatch"
	c.Rule(R, "nas.go: every MsgType constant ↔ one decode case (New<X>, field <X>, Decode<X>) and one encode case (Encode<X>); error defaults; EPD dispatch")
	pk := c.P.Pkg(pNas)
	mt := map[string]int64{}
	byVal := map[int64]string{}
	for _, n := range pk.Types.Scope().Names() {
		if k, ok := pk.Types.Scope().Lookup(n).(*types.Const); ok && strings.HasPrefix(n, "MsgType") {
			if v, ok := constant.Int64Val(constant.ToInt(k.Val())); ok {
				mt[n] = v
				if p, dup := byVal[v]; dup {
					c.Fail(R, "nas:"+n+":value", token.NoPos, "%s and %s share the value %d", n, p, v)
				}
				byVal[v] = n
			}
		}
	}
	if len(mt) < 40 {
		c.Undecided("only %d MsgType constants found in package nas", len(mt))
	}
	covered := map[string]bool{}
	anyUnread := false
	fams := []struct{ fam, dec, enc, field string }{{"Gmm", "GmmMessageDecode", "GmmMessageEncode", "GmmMessage"}, {"Gsm", "GsmMessageDecode", "GsmMessageEncode", "GsmMessage"}}
	for _, f := range fams {
		for _, dir := range []string{"decode", "encode"} {
			name := f.dec
			if dir == "encode" {
				name = f.enc
			}
			fn := mustFunc(c, pNas, "Message."+name)
			c.Analysed(pNas + ".Message." + name)
			outs, ex, err := nasDispatchEval(fn, 0)
			if err != nil || len(ex.Unsound) > 0 {
				c.SoftUndecided("R8.dispatch: nas.%s could not be evaluated (%v %v)", name, err, ex.Unsound)
				continue
			}
			okDef, nDef := true, 0
			unread := nasDispatchDynamic[ex]
			seen := map[string]bool{}
			for _, o := range outs {
				if o.Panicked {
					continue
				}
				var evs []core.AEvent
				for _, ev := range o.Trace {
					if strings.HasPrefix(ev.Callee, pNasM+".") {
						evs = append(evs, ev)
					}
				}
				// the octet the path was selected by: the one source pinned to a single value
				v, has := factOn(o)
				k, known := byVal[int64(v)]
				if !has && len(evs) > 0 {
					// a codec is called on a path that no single message type selects (a dispatch through a
					// table the evaluator did not follow): the form is not one the rule reads
					unread = true
					continue
				}
				if !has || !known {
					// no (known) message type selected: must report an error and touch no message
					nDef++
					if len(evs) > 0 || len(o.Ret) != 1 || !o.Ret[0].NonNil {
						okDef = false
					}
					continue
				}
				key := "nas." + f.fam + ":" + k
				X := strings.TrimPrefix(k, "MsgType")
				if seen[k] {
					c.Fail(R, key+":duplicate", fn.Pos(), "message type handled on two paths")
					continue
				}
				seen[k] = true
				if m.Msgs[X] == nil {
					c.Fail(R, key, fn.Pos(), "message type %s has no message %s with Encode/Decode methods", k, X)
					continue
				}
				if dir == "decode" {
					covered[k] = true
				}
				var got []string
				for _, ev := range evs {
					var as []string
					for _, a := range ev.Args {
						as = append(as, core.ArgName(a))
					}
					got = append(got, shortName(ev.Callee)+"("+strings.Join(as, ",")+")")
				}
				pos := fn.Pos()
				if len(evs) > 0 {
					pos = evs[0].Site.Pos()
				}
				if dir == "decode" {
					ok := len(evs) == 2 && evs[0].Callee == pNasM+".New"+X && len(evs[0].Args) == 1 && evs[1].Callee == pNasM+"."+X+".Decode"+X &&
						len(evs[1].Args) == 2 && evs[1].Args[0].K == core.APtr && evs[1].Args[0].Path == "new:"+X && evs[1].Args[1].K == core.APtr && evs[1].Args[1].Path == "p1"
					if ok {
						if a, isK := evs[0].Args[0].ConstVal(); !isK || int64(a) != mt[k] {
							ok = false
						}
					}
					// the new message hangs in field X of the family message the Message points to
					stored := false
					fam := o.Mem.Load("p0."+f.field, nil)
					if ok && fam.K == core.APtr {
						fld := o.Mem.Load(fam.Path+"."+X, nil)
						stored = fld.K == core.APtr && fld.Path == "new:"+X
					}
					want := fmt.Sprintf("a.%s.%s = nasMessage.New%s(%s); a.%s.Decode%s(byteArray)", f.field, X, X, k, f.field, X)
					c.Check(ok && stored, R, key+":decode", pos, want, "decode case must be [%s], is %v (stored in field %s: %v)", want, got, X, stored)
				} else {
					ok := len(evs) == 1 && evs[0].Callee == pNasM+"."+X+".Encode"+X && len(evs[0].Args) == 2 &&
						evs[0].Args[0].K == core.APtr && evs[0].Args[0].Path == "p0."+f.field+"."+X && evs[0].Args[1].K == core.APtr && evs[0].Args[1].Path == "p1"
					want := fmt.Sprintf("a.%s.Encode%s(buffer)", f.field, X)
					c.Check(ok, R, key+":encode", pos, want, "encode case must be [%s], is %v", want, got)
				}
			}
			if unread {
				c.SoftUndecided("R8.dispatch: nas.%s selects its codec in a form the rule does not follow (a call is made on a path no single message type selects)", name)
				anyUnread = true
				continue
			}
			c.Check(okDef && nDef > 0, R, "nas."+name+":default", fn.Pos(), "default: return error", "unknown message types must be reported as an error by the default case")
			if dir == "decode" {
				// a message that ends with its header (REGISTRATION COMPLETE, DEREGISTRATION ACCEPT, PDU SESSION
				// RELEASE COMPLETE ...) is a whole message: with exactly the header's octets the codecs are still reached
				hl := 3
				if f.fam == "Gsm" {
					hl = 4
				}
				houts, hex, herr := nasDispatchEval(fn, hl)
				if herr != nil || len(hex.Unsound) > 0 || nasDispatchDynamic[hex] {
					c.SoftUndecided("R8.dispatch: nas.%s could not be evaluated for a header-only message (%v %v)", name, herr, hex.Unsound)
				} else {
					reached := 0
					for _, o := range houts {
						if o.Panicked {
							continue
						}
						for _, ev := range o.Trace {
							short := ev.Callee[strings.LastIndexByte(ev.Callee, '.')+1:]
							if strings.HasPrefix(ev.Callee, pNasM+".") && strings.HasPrefix(short, "Decode") {
								reached++
								break
							}
						}
					}
					c.Check(reached >= len(seen) && reached > 0, R, "nas."+name+":header-only", fn.Pos(), fmt.Sprintf("a message of %d octets (its header alone) reaches the codec of each of the %d message types", hl, len(seen)),
						"a message that consists of its %d header octets alone is a whole message (one without further mandatory IEs): it must be dispatched like any other, but only %d of %d message types reach their codec", hl, reached, len(seen))
				}
			}
		}
	}
	var missing []string
	for k := range mt {
		if !covered[k] {
			missing = append(missing, k)
		}
	}
	sort.Strings(missing)
	if anyUnread {
		missing = nil
	}
	c.Check(len(missing) == 0, R, "nas:all-message-types-dispatched", token.NoPos, fmt.Sprintf("%d message types", len(mt)), "message types without a dispatch case: %v", missing)
	// EPD dispatch
	epdM, epdS := mustConst(c, pNasM, "Epd5GSMobilityManagementMessage"), mustConst(c, pNasM, "Epd5GSSessionManagementMessage")
	c.Check(epdM == 0x7e && epdS == 0x2e, R, "nasMessage.Epd", token.NoPos, "0x7E / 0x2E", "EPD values must be 0x7E (5GMM) and 0x2E (5GSM), are %#x / %#x", epdM, epdS)
	{
		fn := mustFunc(c, pNas, "Message.PlainNasDecode")
		outs, ex, err := nasDispatchEval(fn, 0)
		if err != nil || len(ex.Unsound) > 0 {
			c.SoftUndecided("R8.dispatch: nas.PlainNasDecode could not be evaluated (%v %v)", err, ex.Unsound)
		} else {
			ok, okErr := true, true
			saw := map[string]bool{}
			var got []string
			for _, o := range outs {
				if o.Panicked {
					continue
				}
				var fam []string
				for _, ev := range o.Trace {
					if strings.HasSuffix(ev.Callee, "MessageDecode") {
						fam = append(fam, shortName(ev.Callee))
						if len(ev.Args) != 2 || ev.Args[0].Path != "p0" || ev.Args[1].Path != "p1" {
							ok = false
						}
					}
				}
				v, has := factOn(o)
				got = append(got, fmt.Sprintf("EPD=%v(%v)→%v", v, has, fam))
				switch {
				case has && int64(v) == epdM:
					saw["m"] = true
					if len(fam) != 1 || !strings.HasSuffix(fam[0], "GmmMessageDecode") || len(o.Ret) != 1 || o.Ret[0].Path != "result:GmmMessageDecode" {
						ok = false
					}
				case has && int64(v) == epdS:
					saw["s"] = true
					if len(fam) != 1 || !strings.HasSuffix(fam[0], "GsmMessageDecode") || len(o.Ret) != 1 || o.Ret[0].Path != "result:GsmMessageDecode" {
						ok = false
					}
				default:
					if len(fam) != 0 || len(o.Ret) != 1 || !o.Ret[0].NonNil {
						okErr = false
					}
				}
			}
			sort.Strings(got)
			c.Check(ok && okErr && saw["m"] && saw["s"], R, "nas.PlainNasDecode:epd", fn.Pos(), "EPD 0x7E → 5GMM, 0x2E → 5GSM, anything else → error", "PlainNasDecode must dispatch on the EPD to the two families and fail for any other value; paths %v, final error %v", got, okErr)
		}
	}
	{
		fn := mustFunc(c, pNas, "Message.PlainNasEncode")
		outs, ex, err := nasDispatchEval(fn, 0)
		if err != nil || len(ex.Unsound) > 0 {
			c.SoftUndecided("R8.dispatch: nas.PlainNasEncode could not be evaluated (%v %v)", err, ex.Unsound)
		} else {
			okEmpty, sawEmpty, okFam := true, false, true
			for _, o := range outs {
				if o.Panicked || len(o.Ret) != 2 {
					continue
				}
				var fam []string
				for _, ev := range o.Trace {
					if strings.HasSuffix(ev.Callee, "MessageEncode") {
						fam = append(fam, shortName(ev.Callee))
					}
				}
				gm, gmK := o.Nils["p0.GmmMessage"]
				gs, gsK := o.Nils["p0.GsmMessage"]
				switch {
				case gmK && gm && gsK && gs:
					sawEmpty = true
					if len(fam) != 0 || !o.Ret[1].NonNil {
						okEmpty = false
					}
				case gmK && !gm:
					if len(fam) != 1 || !strings.HasSuffix(fam[0], "GmmMessageEncode") {
						okFam = false
					}
				case gsK && !gs:
					if len(fam) != 1 || !strings.HasSuffix(fam[0], "GsmMessageEncode") {
						okFam = false
					}
				}
			}
			c.Check(okEmpty && sawEmpty, R, "nas.PlainNasEncode:empty", fn.Pos(), "neither family set → error", "PlainNasEncode must fail when neither a 5GMM nor a 5GSM message is set")
			c.Check(okFam, R, "nas.PlainNasEncode:family", fn.Pos(), "5GMM message → GmmMessageEncode, else 5GSM message → GsmMessageEncode", "PlainNasEncode must hand a 5GMM message to GmmMessageEncode and a 5GSM message to GsmMessageEncode")
		}
	}
}
