package rules

import (
	"fmt"
	"go/types"
	"strings"

	"golang.org/x/tools/go/ssa"

	"stgverif/internal/core"
)

// R2.min on the evaluator: stgutg.Min (two arguments, or one and a variadic rest of 0..3 elements)
// returns one of its arguments, and the comparisons the path branched on (relational facts, their
// transitive closure) establish that it is <= every argument. Whatever the spelling: if/else, a
// loop over the rest, a running candidate.
func r2minX(c *core.Ctx, R string, fn *ssa.Function) (decided bool) {
	sig := fn.Signature
	variadic := sig.Variadic()
	np := len(fn.Params)
	isInt := func(t types.Type) bool {
		b, ok := t.Underlying().(*types.Basic)
		return ok && b.Info()&types.IsInteger != 0
	}
	for i, p := range fn.Params {
		if variadic && i == np-1 {
			sl, ok := p.Type().Underlying().(*types.Slice)
			if !ok || !isInt(sl.Elem()) {
				return false
			}
			continue
		}
		if !isInt(p.Type()) {
			return false
		}
	}
	if np < 2 && !variadic {
		return false
	}
	rests := []int{-1}
	if variadic {
		rests = []int{0, 1, 2, 3}
	}
	bad := ""
	nOuts := 0
	for _, nr := range rests {
		ex := core.NewExec()
		args := core.DefaultArgs(fn)
		var names []string
		for i := range fn.Params {
			if variadic && i == np-1 {
				args[i] = core.AVal{K: core.ASlice, Path: fmt.Sprintf("p%d", i), Lo: 0, Len: nr, NonNil: nr > 0}
				if nr == 0 {
					args[i] = core.NilArg()
				}
				for k := 0; k < nr; k++ {
					names = append(names, fmt.Sprintf("p%d[%d]", i, k))
				}
				continue
			}
			names = append(names, fmt.Sprintf("p%d", i))
		}
		outs, err := ex.Run(fn, args, nil)
		if err != nil || len(ex.Unsound) > 0 || len(outs) == 0 {
			return false
		}
		for _, o := range outs {
			if o.Panicked {
				bad = "a path panics"
				continue
			}
			if len(o.Ret) != 1 || o.Ret[0].K != core.AInt {
				return false
			}
			nOuts++
			ret := core.NameBits(o.Ret[0].Bits)
			isArg := false
			for _, n := range names {
				if n == ret {
					isArg = true
				}
			}
			if !isArg {
				bad = fmt.Sprintf("with %d arguments a path returns %s, not one of the arguments", len(names), clip(ret))
				continue
			}
			// a <= b facts of the path, closed under transitivity
			le := map[string]map[string]bool{}
			add := func(a, b string) {
				if le[a] == nil {
					le[a] = map[string]bool{}
				}
				le[a][b] = true
			}
			for _, r := range o.Rels {
				if !r.Signed {
					continue
				}
				op := r.Op.String()
				if !r.Taken {
					op = map[string]string{"<": ">=", "<=": ">", ">": "<=", ">=": "<", "==": "!=", "!=": "=="}[op]
				}
				switch op {
				case "<", "<=":
					add(r.L, r.R)
				case ">", ">=":
					add(r.R, r.L)
				case "==":
					add(r.L, r.R)
					add(r.R, r.L)
				}
			}
			for changed := true; changed; {
				changed = false
				for a, bs := range le {
					for b := range bs {
						for cc := range le[b] {
							if !le[a][cc] {
								le[a][cc] = true
								changed = true
							}
						}
					}
				}
			}
			for _, n := range names {
				if n != ret && !le[ret][n] {
					bad = fmt.Sprintf("with %d arguments a path returns %s without having established that it is <= %s (comparisons of the path: %s)", len(names), ret, n, clip(relsString(o.Rels)))
				}
			}
		}
	}
	c.Check(bad == "", R, "stgutg.Min:returns-the-smaller", fn.Pos(), fmt.Sprintf("%d outcomes, each returns an argument the path's comparisons prove <= all others", nOuts), "stgutg.Min is the clamp of the test-mode loops and must return the smallest of its arguments: %s", bad)
	return true
}

func relsString(rs []core.ARel) string {
	var s []string
	for _, r := range rs {
		s = append(s, fmt.Sprintf("(%s%s%s)=%v", r.L, r.Op, r.R, r.Taken))
	}
	return strings.Join(s, " ")
}
