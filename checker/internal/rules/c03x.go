package rules

import (
	"fmt"
	"math"
	"sort"
	"strings"

	"golang.org/x/tools/go/ssa"

	"stgverif/internal/core"
)

// R3.agree (DESIGN §11.5): encoder and decoder primitives of the aligned-PER codec are
// interpreted abstractly with the bit-level accessors summarised as wire operations
// (align, bits(n), cv(range) = a constrained whole number). For every value of the
// controlling quantity (the value range) the two sides must start with the same wire
// operation — whatever loops, helpers or math/bits formulas compute the field widths.

type wireCase struct {
	lo, hi int64
	op     string // first wire operation of a successful path, "" when none, "!" for a refusal
}

// wireCases evaluates fn and returns, per outcome, the interval of the source vr the outcome
// is valid for and the wire operations it starts with (all of them when whole is set).
func wireCases(fn *ssa.Function, args []core.AVal, vr string, whole bool) ([]wireCase, error) {
	ex := core.NewExec()
	ex.MaxStates = 6000
	// field widths are case-split when they derive from the controlling quantity only
	core0 := strings.Trim(vr, "()")
	if i := strings.Index(core0, ")"); i > 0 {
		core0 = core0[:i]
	}
	ex.ForkLen = func(arg string) bool { return strings.Contains(arg, core0) }
	opName := func(ev *core.AEvent) string {
		n := ev.Callee
		short := n[strings.LastIndexByte(n, '.')+1:]
		switch short {
		case "putBitsValue":
			if len(ev.Args) == 3 {
				return "bits(" + core.ArgName(ev.Args[2]) + ")"
			}
		case "getBitsValue":
			if len(ev.Args) == 2 {
				return "bits(" + core.ArgName(ev.Args[1]) + ")"
			}
		case "appendAlignBits", "parseAlignBits":
			return "align"
		case "appendConstraintValue", "parseConstraintValue":
			if len(ev.Args) >= 2 {
				return "cv(" + core.ArgName(ev.Args[1]) + ")"
			}
		}
		return ""
	}
	self := fn.Name()
	ex.OnCall = func(ev *core.AEvent, m *core.AMem) (core.AVal, bool) {
		n := ev.Callee
		if !strings.HasPrefix(n, pAper+".") {
			return core.AVal{}, false
		}
		short := n[strings.LastIndexByte(n, '.')+1:]
		switch short {
		case "perTrace", "perBitLog", "perRawBitLog":
			return core.AVal{K: core.ATuple}, true
		case "putBitsValue", "parseAlignBits":
			return core.NilArg(), true
		case "appendAlignBits":
			return core.AVal{K: core.ATuple}, true
		case "getBitsValue":
			r := core.OpaqueRet(ev)
			if r.K == core.ATuple && len(r.Elems) == 2 {
				r.Elems[1] = core.NilArg()
			}
			return r, true
		case "appendConstraintValue", "parseConstraintValue":
			if short == self {
				return core.AVal{}, false
			}
			r := core.OpaqueRet(ev)
			if r.K == core.ATuple && len(r.Elems) == 2 {
				r.Elems[1] = core.NilArg()
				return r, true
			}
			return core.NilArg(), true
		}
		return core.AVal{}, false
	}
	outs, err := ex.Run(fn, args, nil)
	if err != nil {
		return nil, err
	}
	var cases []wireCase
	for _, o := range outs {
		wc := wireCase{lo: math.MinInt64, hi: math.MaxInt64}
		if f, ok := o.SFacts[vr]; ok {
			wc.lo, wc.hi = f[0], f[1]
		} else if f, ok := o.Facts[vr]; ok && f[1] <= math.MaxInt64 {
			wc.lo, wc.hi = int64(f[0]), int64(f[1])
		}
		// refusal: the error result is known to be non-nil
		if n := len(o.Ret); n > 0 && o.Ret[n-1].NonNil && o.Ret[n-1].K == core.AUnknown {
			wc.op = "!"
		} else if o.Panicked {
			wc.op = "!panic"
		} else {
			var ops []string
			for i := range o.Trace {
				if s := opName(&o.Trace[i]); s != "" {
					ops = append(ops, s)
					if !whole {
						break
					}
				}
			}
			wc.op = strings.Join(ops, " ")
		}
		cases = append(cases, wc)
	}
	return cases, nil
}

// opAt returns the operations the cases prescribe for the value v ("?" when they disagree).
func opAt(cases []wireCase, v int64) string {
	got := map[string]bool{}
	for _, c := range cases {
		if c.lo <= v && v <= c.hi {
			got[c.op] = true
		}
	}
	var ks []string
	for k := range got {
		ks = append(ks, k)
	}
	sort.Strings(ks)
	return strings.Join(ks, " | ")
}

// agree compares two piecewise descriptions at every interval end point (and its neighbours).
func agree(a, b []wireCase, lo, hi int64) (bool, string) {
	pts := map[int64]bool{lo: true, hi: true}
	for _, cs := range [][]wireCase{a, b} {
		for _, c := range cs {
			for _, v := range []int64{c.lo, c.hi} {
				for _, d := range []int64{-1, 0, 1} {
					if (d < 0 && v == math.MinInt64) || (d > 0 && v == math.MaxInt64) {
						continue
					}
					if x := v + d; x >= lo && x <= hi {
						pts[x] = true
					}
				}
			}
		}
	}
	var xs []int64
	for v := range pts {
		xs = append(xs, v)
	}
	sort.Slice(xs, func(i, j int) bool { return xs[i] < xs[j] })
	for _, v := range xs {
		x, y := opAt(a, v), opAt(b, v)
		if x != y {
			return false, fmt.Sprintf("for a range of %d the encoder does [%s] and the decoder [%s]", v, x, y)
		}
		if strings.Contains(x, " | ") {
			return false, fmt.Sprintf("for a range of %d the operation depends on more than the range: %s", v, x)
		}
	}
	return true, fmt.Sprintf("%d boundary points compared", len(xs))
}

func r3agree(c *core.Ctx) (cvDecided, intDecided bool) {
	const R = "R3.agree"
	c.Rule(R, "encoder and decoder primitives start with the same wire operation (alignment, bit-field of the same width, constrained whole number of the same range) for every value range")
	// constrained whole number
	{
		enc, dec := mustFunc(c, pAper, "perRawBitData.appendConstraintValue"), mustFunc(c, pAper, "perBitData.parseConstraintValue")
		ea, da := core.DefaultArgs(enc), core.DefaultArgs(dec)
		ea[0], da[0] = core.NonNilArg(ea[0]), core.NonNilArg(da[0])
		ea[1] = core.ArgNamed("vr", enc.Params[1].Type())
		da[1] = core.ArgNamed("vr", dec.Params[1].Type())
		ec, err1 := wireCases(enc, ea, "vr", true)
		dc, err2 := wireCases(dec, da, "vr", true)
		if err1 != nil || err2 != nil {
			c.SoftUndecided("R3.agree: the constrained-whole-number primitives could not be evaluated (%v / %v)", err1, err2)
		} else {
			ok, why := agree(ec, dc, math.MinInt64, math.MaxInt64)
			cvDecided = true
			c.Check(ok, R, "aper:constraint-value", enc.Pos(), why, "appendConstraintValue and parseConstraintValue disagree: %s", why)
			// X.691 10.5.7: ranges 2..255 take the minimal bit-field, 256 one aligned octet, up to 64K two aligned octets
			spec := func(v int64) string {
				switch {
				case v < 0, v > 65536:
					return "!"
				case v <= 255:
					w := 1
					for (int64(1) << uint(w)) < v {
						w++
					}
					return fmt.Sprintf("bits(%d)", w)
				case v == 256:
					return "align bits(8)"
				}
				return "align bits(16)"
			}
			okS, bad := true, ""
			for _, v := range []int64{-1, 0, 1, 2, 3, 4, 5, 8, 9, 16, 17, 32, 33, 64, 65, 128, 129, 255, 256, 257, 65535, 65536, 65537} {
				if got := opAt(ec, v); got != spec(v) {
					okS, bad = false, fmt.Sprintf("range %d: encoder does [%s], X.691 10.5.7 asks for [%s]", v, got, spec(v))
				}
			}
			c.Check(okS, R, "aper:constraint-value:x691", enc.Pos(), "minimal bit-field up to 255, one aligned octet for 256, two up to 65536", "constrained whole number: %s", bad)
		}
	}
	// INTEGER: first field as a function of the value range (both bounds present, not extensible)
	{
		enc, dec := mustFunc(c, pAper, "perRawBitData.appendInteger"), mustFunc(c, pAper, "perBitData.parseInteger")
		if len(enc.Params) != 5 || len(dec.Params) != 4 {
			c.SoftUndecided("R3.agree: appendInteger/parseInteger do not have the expected parameters")
			return cvDecided, false
		}
		mk := func(fn *ssa.Function, extIdx, lbIdx, ubIdx int) []core.AVal {
			a := core.DefaultArgs(fn)
			a[0] = core.NonNilArg(a[0])
			a[extIdx] = core.AVal{K: core.AInt, Bits: core.ConstBits(0, 1)}
			a[lbIdx] = core.NonNilArg(core.AVal{K: core.APtr, Path: "lb"})
			a[ubIdx] = core.NonNilArg(core.AVal{K: core.APtr, Path: "ub"})
			return a
		}
		const vr = "((ub-lb)+1)"
		ec, err1 := wireCases(enc, mk(enc, 2, 3, 4), vr, false)
		dc, err2 := wireCases(dec, mk(dec, 1, 2, 3), vr, false)
		if err1 != nil || err2 != nil {
			c.SoftUndecided("R3.agree: the INTEGER primitives could not be evaluated (%v / %v)", err1, err2)
			return cvDecided, false
		}
		// the encoder also refuses values outside the bounds: those paths say nothing about the range
		var ec2 []wireCase
		for _, x := range ec {
			if x.op != "!" {
				ec2 = append(ec2, x)
			}
		}
		ok, why := agree(ec2, dc, 1, math.MaxInt64)
		intDecided = true
		// X.691 12.2.6 / 10.9: range 1 nothing; 2..64K a constrained whole number of that range; above, the length
		// (in octets, 1..octets(range-1)) as a constrained whole number, i.e. a bit-field of ceil(log2(octets)) bits
		specI := func(v int64) string {
			switch {
			case v == 1:
				return ""
			case v <= 65536:
				return "cv(" + vr + ")"
			}
			oct := 0
			for x := uint64(v - 1); x > 0; x >>= 8 {
				oct++
			}
			w := 1
			for (1 << uint(w)) < oct {
				w++
			}
			return fmt.Sprintf("bits(%d)", w)
		}
		okS, bad := true, ""
		for _, v := range []int64{1, 2, 255, 256, 65536, 65537, 1 << 24, 1<<24 + 1, 1 << 32, 1<<32 + 1, 1 << 40, 1<<40 + 1, 1 << 48, 1<<48 + 1, 1 << 56, 1<<56 + 1, math.MaxInt64} {
			if got := opAt(dc, v); got != specI(v) {
				okS, bad = false, fmt.Sprintf("range %d: decoder starts with [%s], X.691 12.2.6 asks for [%s]", v, got, specI(v))
			}
		}
		c.Check(okS, R, "aper:integer-first-field:x691", dec.Pos(), "nothing for range 1, constrained whole number up to 64K, ceil(log2(octets(range-1)))-bit length above", "constrained INTEGER: %s", bad)
		c.Check(ok, R, "aper:integer-first-field", enc.Pos(), why, "appendInteger and parseInteger disagree on the first field of a constrained INTEGER: %s", why)
	}
	return cvDecided, intDecided
}

// DumpWire prints the wire cases of the INTEGER primitives (developer aid).
func DumpWire(c *core.Ctx) {
	dec := mustFunc(c, pAper, "perBitData.parseInteger")
	a := core.DefaultArgs(dec)
	a[0] = core.NonNilArg(a[0])
	a[1] = core.AVal{K: core.AInt, Bits: core.ConstBits(0, 1)}
	a[2] = core.NonNilArg(core.AVal{K: core.APtr, Path: "lb"})
	a[3] = core.NonNilArg(core.AVal{K: core.APtr, Path: "ub"})
	cs, err := wireCases(dec, a, "((ub-lb)+1)", false)
	fmt.Println(err)
	for _, x := range cs {
		fmt.Printf("%d..%d %q\n", x.lo, x.hi, x.op)
	}
}
