// stgverif decides the STGUTG properties from the type-checked source of /repo's
// current working tree. Nothing of the repository is executed.
package main

import (
	"fmt"
	"os"
	"runtime/debug"
	"sort"
	"strings"

	"golang.org/x/tools/go/ssa"

	"stgverif/internal/core"
	"stgverif/internal/rules"
)

func main() {
	if len(os.Args) < 3 {
		fmt.Println("usage: stgverif <property-id|all|selftest> <quick|thorough> [--only rule:key]")
		os.Exit(2)
	}
	prop, tier := os.Args[1], os.Args[2]
	if prop == "paths" {
		// developer aid: print canonical access paths and bit vectors of a function
		prog, err := core.Load(core.RepoDir(), "")
		if err != nil {
			fmt.Println(err)
			os.Exit(2)
		}
		fn := prog.Func(os.Args[2], os.Args[3])
		if fn == nil {
			fmt.Println("no such function")
			os.Exit(2)
		}
		p := core.NewPather(fn)
		ba := core.NewBitAnalyzer(fn)
		for _, b := range fn.Blocks {
			fmt.Printf("block %d (%s) preds=%d succs=%v\n", b.Index, b.Comment, len(b.Preds), succIdx(b))
			for _, in := range b.Instrs {
				switch x := in.(type) {
				case *ssa.Store:
					fmt.Printf("   store %s := %s   bits: %s\n", p.Path(x.Addr), p.Path(x.Val), ba.Bits(x.Val).Describe())
				case *ssa.Return:
					for _, r := range x.Results {
						fmt.Printf("   return %s   bits: %s\n", p.Path(r), ba.Bits(r).Describe())
					}
				case *ssa.If:
					fmt.Printf("   if %s\n", p.Path(x.Cond))
				case ssa.CallInstruction:
					if v, ok := in.(ssa.Value); ok {
						fmt.Printf("   %s\n", p.Path(v))
					} else {
						fmt.Printf("   %s (defer/go)\n", core.CalleeName(x.Common()))
					}
				case *ssa.Phi:
					fmt.Printf("   %s = %s\n", x.Name(), p.Path(x))
				}
			}
		}
		return
	}
	if prop == "nasdump" {
		prog, err := core.Load(core.RepoDir(), "")
		if err != nil {
			fmt.Println(err)
			os.Exit(2)
		}
		if tier == "gen" {
			rules.GenStdTable(core.NewCtx("C09", "quick", prog))
			return
		}
		if tier == "schema" {
			rules.SchemaDump(core.NewCtx("C03", "quick", prog))
			return
		}
		if tier == "wire" {
			rules.DumpWire(core.NewCtx("C03", "quick", prog))
			return
		}
		if tier == "acc" {
			rules.AccDump(core.NewCtx("C09", "quick", prog))
			return
		}
		rules.DumpNasModel(core.NewCtx("C08", "quick", prog))
		return
	}
	if prop == "absloop" {
		// developer entry: stgverif absloop <pkgpath> <func>: one symbolic iteration of the function's (outermost) loops
		prog, err := core.Load(core.RepoDir(), "")
		if err != nil {
			fmt.Println(err)
			os.Exit(2)
		}
		fn := prog.Func(os.Args[2], os.Args[3])
		if fn == nil {
			fmt.Println("no such function")
			os.Exit(2)
		}
		ex := core.NewExec()
		ex.SymLoop = func(f *ssa.Function, h *ssa.BasicBlock) bool { return f == fn }
		outs, err := ex.Run(fn, core.DefaultArgs(fn), nil)
		if err != nil {
			fmt.Println("error:", err)
		}
		for i, it := range ex.Iters {
			fmt.Printf("--- iteration path %d conds=%v\n", i, it.Conds)
			for k, v := range it.Next {
				fmt.Printf("  %s: init %s, next %s\n", k, core.ArgName(it.Init[k]), core.ArgName(v))
			}
			for k, v := range it.Facts {
				fmt.Printf("  fact %s = %v\n", k, v)
			}
			for _, ev := range it.Trace {
				fmt.Printf("  event %s\n", ev.Callee)
			}
		}
		for i, o := range outs {
			fmt.Printf("--- outcome %d panicked=%v conds=%v\n", i, o.Panicked, o.Conds)
			for j, r := range o.Ret {
				fmt.Printf("  ret%d = %s\n", j, core.ArgName(r))
			}
			for k, v := range o.Facts {
				fmt.Printf("  fact %s = %v\n", k, v)
			}
		}
		fmt.Println("unsound:", ex.Unsound)
		return
	}
	if prop == "drvdump" {
		prog, err := core.Load(core.RepoDir(), "")
		if err != nil {
			fmt.Println(err)
			os.Exit(2)
		}
		rules.DumpDriver(core.NewCtx("C01", "quick", prog), tier)
		return
	}
	if prop == "absexec" {
		// developer entry: stgverif absexec <pkgpath> <func> [keep,keep,...]: print the abstract outcomes of a function
		prog, err := core.Load(core.RepoDir(), "")
		if err != nil {
			fmt.Println(err)
			os.Exit(2)
		}
		fn := prog.Func(os.Args[2], os.Args[3])
		if fn == nil {
			fmt.Println("no such function")
			os.Exit(2)
		}
		ex := core.NewExec()
		if os.Getenv("VERIF_MERGE") != "" {
			ex.Merge = true
			core.MaxXorTerms = 200
		}
		keep := map[string]bool{}
		if len(os.Args) > 4 {
			for _, k := range strings.Split(os.Args[4], ",") {
				keep[k] = true
			}
			ex.Enter = func(f *ssa.Function) bool { return !keep[f.Name()] && core.RepoFunc(f) }
		}
		args := core.DefaultArgs(fn)
		if n := os.Getenv("VERIF_ARG0LEN"); n != "" {
			var k int
			fmt.Sscanf(n, "%d", &k)
			args[0] = core.AVal{K: core.ASlice, Path: "p0", Lo: 0, Len: k, NonNil: true}
		}
		if n := os.Getenv("VERIF_LOOPBOUND"); n != "" {
			fmt.Sscanf(n, "%d", &ex.LoopBound)
		}
		if os.Getenv("VERIF_RECORD") != "" {
			pre := os.Getenv("VERIF_RECORD")
			ex.OnCall = func(ev *core.AEvent, _ *core.AMem) (core.AVal, bool) {
				if strings.HasPrefix(ev.Callee, pre) {
					return core.OpaqueRet(ev), true
				}
				return core.AVal{}, false
			}
		}
		outs, err := ex.Run(fn, args, nil)
		if err != nil {
			fmt.Println("error:", err)
		}
		for i, o := range outs {
			fmt.Printf("--- outcome %d panicked=%v conds=%v\n", i, o.Panicked, o.Conds)
			for j, r := range o.Ret {
				fmt.Printf("  ret%d = %s\n", j, r)
			}
			for _, k := range o.Mem.Cells("") {
				fmt.Printf("  %s = %s\n", k, o.Mem.Load(k, nil))
			}
			for _, ev := range o.Trace {
				var as []string
				for _, a := range ev.Args {
					as = append(as, fmt.Sprintf("%s{K=%d path=%q lo=%d len=%d lenname=%q}", core.ArgName(a), a.K, a.Path, a.Lo, a.Len, a.LenName))
				}
				fmt.Printf("  event %s(%s)\n", ev.Callee, strings.Join(as, "; "))
			}
		}
		fmt.Println("unsound:", ex.Unsound)
		return
	}
	if prop == "mutants" {
		// developer entry: run only the checker self-test of one property
		self, _ := os.Executable()
		res, bad := core.SelfTest(os.Args[2], self)
		for _, r := range res {
			fmt.Printf("%-14s %-40s expect=%-40s %s\n", r.Outcome, r.Name, r.Expect, r.Detail)
		}
		fmt.Printf("selftest %s: %d variants, %d bad\n", os.Args[2], len(res), bad)
		if bad > 0 {
			os.Exit(2)
		}
		return
	}
	only := ""
	for i := 3; i+1 < len(os.Args); i++ {
		if os.Args[i] == "--only" {
			only = os.Args[i+1]
		}
	}
	if tier != "quick" && tier != "thorough" {
		fmt.Println("UNDECIDED: tier must be quick or thorough")
		os.Exit(2)
	}
	if prop == "list" {
		ids := rules.IDs()
		sort.Strings(ids)
		for _, id := range ids {
			fmt.Println(id)
		}
		return
	}
	os.Exit(run(prop, tier, only))
}

func run(prop, tier, only string) (code int) {
	r, ok := rules.Registry[prop]
	if !ok {
		fmt.Printf("UNDECIDED: property=%s has no registered rules\n", prop)
		return 2
	}
	prog, err := core.Load(core.RepoDir(), "")
	if err != nil {
		fmt.Printf("UNDECIDED: property=%s %v\n", prop, err)
		return 2
	}
	ctx := core.NewCtx(prop, tier, prog)
	ctx.Only = only
	defer func() {
		if e := recover(); e != nil {
			if u, ok := e.(core.Undecided); ok {
				fmt.Printf("UNDECIDED: property=%s %s\n", prop, u.Msg)
			} else {
				fmt.Printf("UNDECIDED: property=%s checker panic: %v\n%s\n", prop, e, debug.Stack())
			}
			code = 2
		}
	}()
	extra := r(ctx)
	if tier == "thorough" && os.Getenv("VERIF_SELFTEST_CHILD") == "" {
		self, _ := os.Executable()
		res, bad := core.SelfTest(prop, self)
		if extra == nil {
			extra = map[string]interface{}{}
		}
		caught, silent, skipped := 0, 0, 0
		for _, r := range res {
			switch {
			case r.Outcome == "caught":
				caught++
			case r.Outcome == "silent-as-expected":
				silent++
			case len(r.Outcome) > 7 && r.Outcome[:7] == "skipped":
				skipped++
			}
		}
		extra["selftest"] = map[string]interface{}{"variants": len(res), "mutants_caught": caught,
			"behaviour_preserving_silent": silent, "skipped": skipped, "bad": bad, "results": res}
		fmt.Printf("selftest: %d variants: %d mutants caught, %d behaviour-preserving variants silent, %d skipped, %d bad\n",
			len(res), caught, silent, skipped, bad)
		if bad > 0 {
			for _, r := range res {
				if r.Outcome == "MISSED" || r.Outcome == "FALSE-ALARM" || r.Outcome == "ERROR" {
					fmt.Printf("  selftest %s: %s (expect %s) %s\n", r.Outcome, r.Name, r.Expect, r.Detail)
				}
			}
			code := ctx.Finish(extra)
			if code == 0 {
				fmt.Printf("UNDECIDED: property=%s checker self-test failed (%d variants); the verdict of a checker that misses its own seeded mutants is not reported as a pass\n", prop, bad)
				return 2
			}
			return code
		}
	}
	return ctx.Finish(extra)
}

func succIdx(b *ssa.BasicBlock) []int {
	var o []int
	for _, s := range b.Succs {
		o = append(o, s.Index)
	}
	return o
}
