package security

import (
	"bytes"
	"testing"
)

// F01: NEA1 leaves the last keystream word zero when the bit length is a multiple of 32.
func TestF01(t *testing.T) {
	var key [16]byte
	for i := range key {
		key[i] = byte(i + 1)
	}
	plain := []byte{1, 2, 3, 4, 5, 6, 7, 8}
	buf := append([]byte(nil), plain...)
	if err := NASEncrypt(AlgCiphering128NEA1, key, 5, 1, 0, buf); err != nil {
		t.Fatal(err)
	}
	if bytes.Equal(buf[4:], plain[4:]) {
		t.Fatalf("last four octets sent in clear: %x", buf)
	}
	// the first 8 keystream octets of a 9-octet message must equal those of the 8-octet one
	buf9 := append(append([]byte(nil), plain...), 9)
	_ = NASEncrypt(AlgCiphering128NEA1, key, 5, 1, 0, buf9)
	if !bytes.Equal(buf9[:8], buf) {
		t.Fatalf("keystream prefix differs: %x vs %x", buf9[:8], buf)
	}
}
