package core

import (
	"os"
	"sort"
	"fmt"
	"go/token"
	"go/types"
	"math"
	"strings"

	"golang.org/x/tools/go/ssa"
)

// Interval side of the abstract evaluator: signed range facts, ranges of derived values,
// backward narrowing through +/- constants, and the math/bits.Len* family as a case split.

// opaqueDefs remembers how a named opaque arithmetic source was formed, so that its range can be
// derived from (and narrowed back to) its operands.
type opaqueDef struct {
	op   token.Token
	l, r BitVec
}

var opaqueDefs = map[string]opaqueDef{}

// srange is an inclusive interval of mathematical integers that fit int64.
type srange struct{ lo, hi int64 }

// rangeOf derives the interval of an integer value from the facts of the state.
func (s *astate) rangeOf(b BitVec, signed bool) (srange, bool) {
	if k, ok := constOfBits(b); ok {
		v := int64(k)
		if signed {
			v = signExt(k, len(b))
		}
		if !signed && k > math.MaxInt64 {
			return srange{}, false
		}
		return srange{v, v}, true
	}
	if src, ok := plainSource(b); ok {
		if f, has := s.sfacts[src]; has {
			r := srange{f[0], f[1]}
			if u, hasU := s.facts[src]; hasU && r.lo >= 0 {
				if int64(u[0]) > r.lo && u[0] <= math.MaxInt64 {
					r.lo = int64(u[0])
				}
				if u[1] <= math.MaxInt64 && int64(u[1]) < r.hi {
					r.hi = int64(u[1])
				}
			}
			return r, true
		}
		if f, has := s.facts[src]; has && f[1] <= math.MaxInt64 {
			return srange{int64(f[0]), int64(f[1])}, true
		}
		if d, has := opaqueDefs[src]; has {
			lr, okL := s.rangeOf(d.l, signed)
			rr, okR := s.rangeOf(d.r, signed)
			if okL && okR {
				// the machine result is the mathematical one only while it fits the operand width
				fits := func(lo, hi int64) bool { return fitsWidth(lo, hi, len(d.l), signed) }
				switch d.op {
				case token.ADD:
					if lo, ok1 := addOK(lr.lo, rr.lo); ok1 {
						if hi, ok2 := addOK(lr.hi, rr.hi); ok2 && fits(lo, hi) {
							return srange{lo, hi}, true
						}
					}
				case token.SUB:
					if lo, ok1 := addOK(lr.lo, -rr.hi); ok1 {
						if hi, ok2 := addOK(lr.hi, -rr.lo); ok2 && fits(lo, hi) {
							if signed || lo >= 0 {
								return srange{lo, hi}, true
							}
						}
					}
				}
			}
		}
		// a source about which the path knows nothing directly may differ by a constant from one it
		// has bounded: x = y - k with y ∈ [lo,hi] and [lo-k,hi-k] representable
		if r, ok := s.siblingRange(src, len(b), signed); ok {
			return r, true
		}
		w := srcWidths[src]
		if !signed && w > 0 && w < 63 {
			return srange{0, int64(1)<<uint(w) - 1}, true
		}
		if !signed && w == 63 {
			return srange{0, math.MaxInt64}, true
		}
	}
	// zero-extended narrower value: at most its width
	n := len(b)
	for n > 0 && b[n-1].Kind == BZero {
		n--
	}
	if n < 63 && n < len(b) {
		return srange{0, int64(1)<<uint(n) - 1}, true
	}
	return srange{}, false
}

// satAdd adds with saturation at the ends of int64 (an end that is "unbounded" stays so).
func satAddR(a, b int64) int64 {
	if a == math.MinInt64 || a == math.MaxInt64 {
		return a
	}
	c, ok := addOK(a, b)
	if !ok {
		if b > 0 {
			return math.MaxInt64
		}
		return math.MinInt64
	}
	return c
}

func addOK(a, b int64) (int64, bool) {
	c := a + b
	if (b > 0 && c < a) || (b < 0 && c > a) {
		return 0, false
	}
	return c, true
}

// narrow records that the value b lies in [lo, hi], pushing the knowledge back to the source it is
// derived from (through x+c, x-c, c+x).
func (s *astate) narrow(b BitVec, signed bool, lo, hi int64) {
	src, ok := plainSource(b)
	if !ok {
		return
	}
	if d, has := opaqueDefs[src]; has {
		// y = x+c ∈ [lo,hi] gives x ∈ [lo-c,hi-c] exactly when that interval is representable at the
		// operand width (then no reduction mod 2^w separates x from y-c); an unbounded end says nothing
		noWrap := func(x BitVec, c int64) bool {
			if lo == math.MinInt64 || hi == math.MaxInt64 {
				return false
			}
			lo2, ok1 := addOK(lo, -c)
			hi2, ok2 := addOK(hi, -c)
			return ok1 && ok2 && fitsWidth(lo2, hi2, len(x), signed)
		}
		if k, isK := constOfBits(d.r); isK {
			c := int64(k)
			if signed {
				c = signExt(k, len(d.r))
			}
			switch d.op {
			case token.ADD:
				if noWrap(d.l, c) {
					s.narrow(d.l, signed, satAddR(lo, -c), satAddR(hi, -c))
				}
			case token.SUB:
				if noWrap(d.l, -c) {
					s.narrow(d.l, signed, satAddR(lo, c), satAddR(hi, c))
				}
			}
		} else if k, isK := constOfBits(d.l); isK && d.op == token.ADD {
			c := int64(k)
			if signed {
				c = signExt(k, len(d.l))
			}
			if noWrap(d.r, c) {
				s.narrow(d.r, signed, satAddR(lo, -c), satAddR(hi, -c))
			}
		}
	}
	s.setRange(src, signed, lo, hi)
}

// exclude records src != v (used to trim interval ends now and later).
func (s *astate) exclude(src string, v int64) {
	ex := make(map[string][]int64, len(s.excl)+1)
	for k, x := range s.excl {
		ex[k] = x
	}
	ex[src] = append(append([]int64(nil), ex[src]...), v)
	s.excl = ex
}

func (s *astate) setRange(src string, signed bool, lo, hi int64) {
	w := srcWidths[src]
	if signed || s.hasSigned(src) {
		cur, ok := s.sfacts[src]
		if !ok {
			cur = [2]int64{math.MinInt64, math.MaxInt64}
		}
		if lo > cur[0] {
			cur[0] = lo
		}
		if hi < cur[1] {
			cur[1] = hi
		}
		for changed := true; changed; {
			changed = false
			for _, x := range s.excl[src] {
				if x == cur[0] && cur[0] < cur[1] {
					cur[0]++
					changed = true
				}
				if x == cur[1] && cur[0] < cur[1] {
					cur[1]--
					changed = true
				}
			}
		}
		s.sfacts[src] = cur
		if cur[0] >= 0 {
			s.facts[src] = [2]uint64{uint64(cur[0]), uint64(cur[1])}
		}
		return
	}
	if lo < 0 {
		lo = 0
	}
	if hi < 0 {
		return
	}
	cur, ok := s.facts[src]
	if !ok {
		cur = [2]uint64{0, ^uint64(0)}
		if w > 0 && w < 64 {
			cur[1] = uint64(1)<<uint(w) - 1
		}
	}
	if uint64(lo) > cur[0] {
		cur[0] = uint64(lo)
	}
	// math.MaxInt64 stands for "no upper bound" (an unsigned 64-bit source can be larger)
	if hi != math.MaxInt64 && uint64(hi) < cur[1] {
		cur[1] = uint64(hi)
	}
	s.facts[src] = cur
}

func (s *astate) hasSigned(src string) bool { _, ok := s.sfacts[src]; return ok }

// signedSources: sources known to be of a signed integer type.
var signedSources = map[string]bool{}

// refineSigned handles a comparison of a signed whole source (or x±c of one) with a constant.
// It returns true when it applied.
func (ex *Exec) refineSigned(t, f *astate, op token.Token, l, r BitVec) bool {
	k, isK := constOfBits(r)
	x := l
	if !isK {
		k, isK = constOfBits(l)
		x = r
		if !isK {
			return false
		}
		switch op {
		case token.LSS:
			op = token.GTR
		case token.LEQ:
			op = token.GEQ
		case token.GTR:
			op = token.LSS
		case token.GEQ:
			op = token.LEQ
		}
	}
	if _, ok := plainSource(x); !ok {
		return false
	}
	c := signExt(k, len(r))
	const mn, mx = math.MinInt64, math.MaxInt64
	switch op {
	case token.LSS:
		if c > mn {
			t.narrow(x, true, mn, c-1)
		}
		f.narrow(x, true, c, mx)
	case token.LEQ:
		t.narrow(x, true, mn, c)
		if c < mx {
			f.narrow(x, true, c+1, mx)
		}
	case token.GTR:
		if c < mx {
			t.narrow(x, true, c+1, mx)
		}
		f.narrow(x, true, mn, c)
	case token.GEQ:
		t.narrow(x, true, c, mx)
		if c > mn {
			f.narrow(x, true, mn, c-1)
		}
	case token.EQL:
		t.narrow(x, true, c, c)
		// x != c: remembered; it trims the range whenever c is one of its ends
		if src, ok := plainSource(x); ok {
			f.exclude(src, c)
			f.narrow(x, true, mn, mx)
		}
	case token.NEQ:
		f.narrow(x, true, c, c)
		if src, ok := plainSource(x); ok {
			t.exclude(src, c)
			t.narrow(x, true, mn, mx)
		}
	default:
		return false
	}
	return true
}

// bitsLenWidth: the math/bits functions that are split into cases, with their operand width.
func bitsLenWidth(name string) int {
	switch name {
	case "math/bits.Len", "math/bits.Len64":
		return 64
	case "math/bits.Len32":
		return 32
	case "math/bits.Len16":
		return 16
	case "math/bits.Len8":
		return 8
	}
	return 0
}

// forkIntrinsic splits a call of math/bits.Len* whose argument has a known small range into one
// state per possible result k, each knowing 2^(k-1) <= arg < 2^k.
func (ex *Exec) forkIntrinsic(s *astate, fr *aframe, x *ssa.Call) []*astate {
	name := CalleeName(&x.Call)
	if name == "bytes.IndexByte" && len(x.Call.Args) == 2 {
		return ex.forkIndexByte(s, fr, x)
	}
	if bitsLenWidth(name) == 0 || len(x.Call.Args) != 1 {
		return nil
	}
	a := ex.val(s, fr, x.Call.Args[0])
	if a.K != AInt {
		return nil
	}
	rg, ok := s.rangeOf(a.Bits, false)
	if os.Getenv("VERIF_DEBUG_IB") != "" {
		fmt.Printf("DEBUG forkLen %s arg=%s range=%v ok=%v\n", name, NameBits(a.Bits), rg, ok)
	}
	if !ok || rg.lo < 0 {
		return nil
	}
	lenOf := func(v int64) int {
		n := 0
		for ; v > 0; v >>= 1 {
			n++
		}
		return n
	}
	k0, k1 := lenOf(rg.lo), lenOf(rg.hi)
	if k0 == k1 {
		// one possible result: fold
	} else if ex.ForkLen != nil {
		if !ex.ForkLen(NameBits(a.Bits)) {
			return nil
		}
	} else if k1-k0 > 12 {
		return nil
	}
	w := widthOf(x.Type())
	if w == 0 {
		return nil
	}
	var out []*astate
	for k := k1; k >= k0; k-- {
		c := s
		if k != k0 {
			c = s.clone()
		}
		cf := c.frames[len(c.frames)-1]
		lo, hi := int64(0), int64(0)
		if k > 0 {
			lo = int64(1) << uint(k-1)
			hi = lo<<1 - 1
			if k >= 63 {
				hi = math.MaxInt64
			}
		}
		if lo < rg.lo {
			lo = rg.lo
		}
		if hi > rg.hi {
			hi = rg.hi
		}
		// values the path has excluded at the lower end (v != 0 tested before) cannot take this length
		if src, plain := plainSource(a.Bits); plain {
			for again := true; again && lo <= hi; {
				again = false
				for _, e := range s.excl[src] {
					if e == lo {
						lo++
						again = true
					}
				}
			}
		}
		if lo > hi {
			continue
		}
		c.narrow(a.Bits, false, lo, hi)
		cf.env[x] = AVal{K: AInt, Bits: constBits(uint64(k), w)}
		cf.pc++
		out = append(out, c)
	}
	return out
}

func isSignedInt(t types.Type) bool { return isSigned(t) }

var _ = strings.HasPrefix

// ---------------------------------------------------------------------------------------
// Constant package-level maps: a map variable that is built once by the package initialiser
// from constant keys and values and never written elsewhere is a finite function. A lookup
// with an unknown integer key is split into one state per key (key pinned, value and ok
// known) plus one state for "any other key" (keys excluded, zero value, ok false).

type constMapEntry struct {
	key uint64
	val ssa.Value // *ssa.Const or *ssa.Function
}

var constMapCache = map[*ssa.Global][]constMapEntry{}
var constMapBad = map[*ssa.Global]bool{}

func constMapOf(g *ssa.Global) ([]constMapEntry, bool) {
	if e, ok := constMapCache[g]; ok {
		return e, true
	}
	if constMapBad[g] {
		return nil, false
	}
	bad := func() ([]constMapEntry, bool) { constMapBad[g] = true; return nil, false }
	if g.Pkg == nil {
		return bad()
	}
	var made ssa.Value
	// exactly one store to g in the whole package, in init, of a map made there
	for _, mem := range g.Pkg.Members {
		fn, ok := mem.(*ssa.Function)
		if !ok {
			continue
		}
		fns := append([]*ssa.Function{fn}, fn.AnonFuncs...)
		for _, f := range fns {
			for _, b := range f.Blocks {
				for _, in := range b.Instrs {
					switch x := in.(type) {
					case *ssa.Store:
						if x.Addr == ssa.Value(g) {
							if f.Name() != "init" || made != nil {
								return bad()
							}
							made = x.Val
						}
					case *ssa.MapUpdate:
						if ld, ok := x.Map.(*ssa.UnOp); ok && ld.X == ssa.Value(g) {
							return bad() // updated through the variable
						}
					}
				}
			}
		}
	}
	// methods of the package's types may also touch g
	for _, mem := range g.Pkg.Members {
		if t, ok := mem.(*ssa.Type); ok {
			for _, ms := range []*types.MethodSet{g.Pkg.Prog.MethodSets.MethodSet(t.Type()), g.Pkg.Prog.MethodSets.MethodSet(types.NewPointer(t.Type()))} {
				for i := 0; i < ms.Len(); i++ {
					f := g.Pkg.Prog.MethodValue(ms.At(i))
					if f == nil {
						continue
					}
					for _, b := range f.Blocks {
						for _, in := range b.Instrs {
							switch x := in.(type) {
							case *ssa.Store:
								if x.Addr == ssa.Value(g) {
									return bad()
								}
							case *ssa.MapUpdate:
								if ld, ok := x.Map.(*ssa.UnOp); ok && ld.X == ssa.Value(g) {
									return bad()
								}
							}
						}
					}
				}
			}
		}
	}
	mk, ok := made.(*ssa.MakeMap)
	if !ok {
		return bad()
	}
	var out []constMapEntry
	for _, r := range *mk.Referrers() {
		switch x := r.(type) {
		case *ssa.MapUpdate:
			k, okK := x.Key.(*ssa.Const)
			var v ssa.Value
			switch y := x.Value.(type) {
			case *ssa.Const:
				v = y
			case *ssa.Function:
				v = y
			case *ssa.ChangeType:
				if f, isF := y.X.(*ssa.Function); isF {
					v = f
				}
			}
			if !okK || v == nil || x.Map != ssa.Value(mk) {
				return bad()
			}
			kv, okI := ConstInt(k)
			if !okI || kv < 0 {
				return bad()
			}
			out = append(out, constMapEntry{uint64(kv), v})
		case *ssa.Store:
			if x.Val != ssa.Value(mk) || x.Addr != ssa.Value(g) {
				return bad()
			}
		case *ssa.DebugRef:
		default:
			return bad()
		}
	}
	if len(out) == 0 || len(out) > 256 {
		return bad()
	}
	constMapCache[g] = out
	return out, true
}

// forkLookup handles m[k] / v, ok := m[k] on a constant package-level map with an integer key.
func (ex *Exec) forkLookup(s *astate, fr *aframe, x *ssa.Lookup) []*astate {
	if _, isMap := x.X.Type().Underlying().(*types.Map); !isMap {
		return nil
	}
	ld, ok := x.X.(*ssa.UnOp)
	if !ok || ld.Op != token.MUL {
		return nil
	}
	g, ok := ld.X.(*ssa.Global)
	if !ok {
		return nil
	}
	entries, ok := constMapOf(g)
	if !ok {
		return nil
	}
	key := ex.val(s, fr, x.Index)
	if key.K != AInt {
		return nil
	}
	vt := x.X.Type().Underlying().(*types.Map).Elem()
	result := func(v AVal, found bool) AVal {
		if x.CommaOk {
			return AVal{K: ATuple, Elems: []AVal{v, boolVal(found)}}
		}
		return v
	}
	if k, isK := key.ConstVal(); isK {
		for _, e := range entries {
			if e.key == k {
				fr.env[x] = result(ex.val(s, fr, e.val), true)
				fr.pc++
				return []*astate{s}
			}
		}
		fr.env[x] = result(zeroOf(vt), false)
		fr.pc++
		return []*astate{s}
	}
	src, plain := plainSource(key.Bits)
	if !plain {
		return nil
	}
	signed := isSigned(x.Index.Type())
	var out []*astate
	// any other key
	other := s.clone()
	for _, e := range entries {
		other.exclude(src, int64(e.key))
	}
	of := other.frames[len(other.frames)-1]
	of.env[x] = result(zeroOf(vt), false)
	of.pc++
	out = append(out, other)
	for i, e := range entries {
		c := s
		if i != len(entries)-1 {
			c = s.clone()
		}
		excluded := false
		for _, x := range s.excl[src] {
			if x == int64(e.key) {
				excluded = true
			}
		}
		if excluded {
			continue // the path already knows the key is not this one
		}
		if rg, okR := c.rangeOf(key.Bits, signed); okR && (int64(e.key) < rg.lo || int64(e.key) > rg.hi) {
			if c == s {
				// keep s alive for the caller's bookkeeping: mark infeasible by an empty step
				continue
			}
			continue
		}
		c.narrow(key.Bits, signed, int64(e.key), int64(e.key))
		cf := c.frames[len(c.frames)-1]
		cf.env[x] = result(ex.val(c, cf, e.val), true)
		cf.pc++
		out = append(out, c)
	}
	return out
}

// EvalBits folds an abstract integer to a number under an assignment of its leaf sources (the
// named inputs that are not themselves arithmetic over other sources). It is constant folding
// inside the checker's own domain: the rules use it to tell two different-looking expressions
// apart by a witness. Unsigned arithmetic at the width of the operands; ok is false when the
// value has bits the domain cannot name (Mix, XOR terms) or an operator it does not fold.
func EvalBits(b BitVec, leaf func(src string) (uint64, bool)) (uint64, bool) {
	return evalBits(b, leaf, 0)
}

func evalBits(b BitVec, leaf func(src string) (uint64, bool), depth int) (uint64, bool) {
	if depth > 40 {
		return 0, false
	}
	var out uint64
	memo := map[string]uint64{}
	for i, x := range b {
		switch x.Kind {
		case BZero:
		case BOne:
			out |= 1 << uint(i)
		case BSrc:
			if x.More != "" {
				return 0, false
			}
			v, have := memo[x.Src]
			if !have {
				var ok bool
				v, ok = evalSrc(x.Src, leaf, depth+1)
				if !ok {
					return 0, false
				}
				memo[x.Src] = v
			}
			bit := (v >> uint(x.Idx)) & 1
			if x.Neg {
				bit ^= 1
			}
			out |= bit << uint(i)
		default:
			return 0, false
		}
	}
	return out, true
}

func evalSrc(src string, leaf func(src string) (uint64, bool), depth int) (uint64, bool) {
	// a field of a source: "name<hi:lo>"
	if strings.HasSuffix(src, ">") {
		if i := strings.LastIndex(src, "<"); i > 0 {
			var hi, lo int
			if n, _ := fmtSscanf(src[i:], &hi, &lo); n == 2 {
				v, ok := evalSrc(src[:i], leaf, depth+1)
				if !ok {
					return 0, false
				}
				return (v >> uint(lo)) & (1<<uint(hi-lo+1) - 1), true
			}
		}
	}
	d, has := opaqueDefs[src]
	if !has {
		return leaf(src)
	}
	l, okL := evalBits(d.l, leaf, depth)
	r, okR := evalBits(d.r, leaf, depth)
	if !okL || !okR {
		return 0, false
	}
	w := len(d.l)
	mask := uint64(math.MaxUint64)
	if w < 64 {
		mask = 1<<uint(w) - 1
	}
	switch d.op {
	case token.ADD:
		return (l + r) & mask, true
	case token.SUB:
		return (l - r) & mask, true
	case token.MUL:
		return (l * r) & mask, true
	case token.QUO:
		if r == 0 {
			return 0, false
		}
		return l / r, true
	case token.REM:
		if r == 0 {
			return 0, false
		}
		return l % r, true
	case token.SHL:
		if r >= 64 {
			return 0, true
		}
		return (l << r) & mask, true
	case token.SHR:
		if r >= 64 {
			return 0, true
		}
		return (l & mask) >> r, true
	case token.AND:
		return l & r, true
	case token.OR:
		return l | r, true
	case token.XOR:
		return l ^ r, true
	}
	return 0, false
}

func fmtSscanf(s string, hi, lo *int) (int, error) {
	// "<hi:lo>"
	s = strings.TrimSuffix(strings.TrimPrefix(s, "<"), ">")
	parts := strings.Split(s, ":")
	if len(parts) != 2 {
		return 0, nil
	}
	n := 0
	for i, p := range parts {
		v := 0
		if p == "" {
			return n, nil
		}
		for _, c := range p {
			if c < '0' || c > '9' {
				return n, nil
			}
			v = v*10 + int(c-'0')
		}
		if i == 0 {
			*hi = v
		} else {
			*lo = v
		}
		n++
	}
	return n, nil
}

// fitsWidth: every integer of [lo, hi] is representable in w bits (unsigned, or two's complement).
func fitsWidth(lo, hi int64, w int, signed bool) bool {
	if w <= 0 || w >= 64 {
		return w >= 64 && (signed || lo >= 0)
	}
	if signed {
		return lo >= -(int64(1)<<uint(w-1)) && hi <= int64(1)<<uint(w-1)-1
	}
	return lo >= 0 && hi <= int64(1)<<uint(w)-1
}

// affineKeyOf: the non-constant part of the affine normal form of a named source (as a string)
// and its constant; cached.
type affKey struct {
	key string
	c   int64
	ok  bool
}

var affKeys = map[string]affKey{}

func affineKeyOf(name string, w int) affKey {
	ck := fmt.Sprintf("%s/%d", name, w)
	if k, has := affKeys[ck]; has {
		return k
	}
	c, ts, ok := affineOf(srcBitsNoReg(name, w), 0)
	k := affKey{ok: ok, c: c}
	if ok {
		m := map[string]int64{}
		var names []string
		for _, t := range ts {
			if _, seen := m[t.name]; !seen {
				names = append(names, t.name)
			}
			m[t.name] += t.coef
		}
		sort.Strings(names)
		var parts []string
		for _, n := range names {
			if m[n] != 0 {
				parts = append(parts, fmt.Sprintf("%d*%s", m[n], n))
			}
		}
		k.key = strings.Join(parts, " ")
		if k.key == "" {
			k.ok = false
		}
	}
	affKeys[ck] = k
	return k
}

func (s *astate) siblingRange(src string, w int, signed bool) (srange, bool) {
	if w <= 0 {
		return srange{}, false
	}
	me := affineKeyOf(src, w)
	if !me.ok {
		return srange{}, false
	}
	try := func(other string, lo, hi int64) (srange, bool) {
		if other == src || srcWidths[other] != w {
			return srange{}, false
		}
		o := affineKeyOf(other, w)
		if !o.ok || o.key != me.key {
			return srange{}, false
		}
		// src = other - (o.c - me.c); an end at the limit of int64 stands for "unbounded" and stays so
		// (intervals saturate there: a quantity of 2^63 is not told apart from an unbounded one)
		k := o.c - me.c
		lo2, hi2 := satAddR(lo, -k), satAddR(hi, -k)
		flo, fhi := lo2, hi2
		if flo == math.MinInt64 {
			flo = fhi
		}
		if fhi == math.MaxInt64 {
			fhi = flo
		}
		if (lo2 != math.MinInt64 || hi2 != math.MaxInt64) && fitsWidth(flo, fhi, w, signed) {
			return srange{lo2, hi2}, true
		}
		return srange{}, false
	}
	out, found := srange{math.MinInt64, math.MaxInt64}, false
	meet := func(r srange) {
		found = true
		if r.lo > out.lo {
			out.lo = r.lo
		}
		if r.hi < out.hi {
			out.hi = r.hi
		}
	}
	for other, f := range s.sfacts {
		if r, ok := try(other, f[0], f[1]); ok {
			meet(r)
		}
	}
	for other, f := range s.facts {
		if _, both := s.sfacts[other]; both {
			continue
		}
		hi := int64(math.MaxInt64)
		if f[1] <= math.MaxInt64 {
			hi = int64(f[1])
		}
		if f[0] > math.MaxInt64 {
			continue
		}
		if r, ok := try(other, int64(f[0]), hi); ok {
			meet(r)
		}
	}
	return out, found && out.lo <= out.hi
}

// FactOf answers "what does a path know about the named w-bit source": its own signed or
// unsigned fact, or the fact of a source that differs from it by a constant (the affine normal
// form makes x+1 and x two names for one unknown), shifted — when the shifted interval is
// representable. Rules use it instead of indexing AOutcome.Facts with a derived name.
func FactOf(sfacts map[string][2]int64, facts map[string][2]uint64, name string, w int) ([2]int64, bool) {
	out, found := [2]int64{math.MinInt64, math.MaxInt64}, false
	if f, ok := sfacts[name]; ok {
		out, found = f, true
	} else if f, ok := facts[name]; ok && f[1] <= math.MaxInt64 {
		out, found = [2]int64{int64(f[0]), int64(f[1])}, true
	}
	st := &astate{facts: facts, sfacts: sfacts}
	if r, ok := st.siblingRange(name, w, true); ok {
		found = true
		if r.lo > out[0] {
			out[0] = r.lo
		}
		if r.hi < out[1] {
			out[1] = r.hi
		}
	}
	return out, found
}

// srcBitsNoReg: the bits of a named w-bit source, without touching the width registry.
func srcBitsNoReg(name string, w int) BitVec {
	out := make(BitVec, w)
	for i := range out {
		out[i] = Bit{Kind: BSrc, Src: name, Idx: i}
	}
	return out
}

// constSliceOf: the elements of a package-level slice variable that is assigned exactly once, in
// init, a composite literal of constants, and through which nothing in its package writes.
var constSliceCache = map[*ssa.Global][]ssa.Value{}
var constSliceBad = map[*ssa.Global]bool{}

func constSliceOf(g *ssa.Global) ([]ssa.Value, bool) {
	if e, ok := constSliceCache[g]; ok {
		return e, true
	}
	if constSliceBad[g] || g.Pkg == nil {
		return nil, false
	}
	bad := func() ([]ssa.Value, bool) { constSliceBad[g] = true; return nil, false }
	var made ssa.Value
	var fns []*ssa.Function
	for _, mem := range g.Pkg.Members {
		switch m := mem.(type) {
		case *ssa.Function:
			fns = append(append(fns, m), m.AnonFuncs...)
		case *ssa.Type:
			for _, ms := range []*types.MethodSet{g.Pkg.Prog.MethodSets.MethodSet(m.Type()), g.Pkg.Prog.MethodSets.MethodSet(types.NewPointer(m.Type()))} {
				for i := 0; i < ms.Len(); i++ {
					if f := g.Pkg.Prog.MethodValue(ms.At(i)); f != nil {
						fns = append(fns, f)
					}
				}
			}
		}
	}
	for _, f := range fns {
		for _, b := range f.Blocks {
			for _, in := range b.Instrs {
				switch x := in.(type) {
				case *ssa.Store:
					if x.Addr == ssa.Value(g) {
						if f.Name() != "init" || made != nil {
							return bad()
						}
						made = x.Val
					}
				case *ssa.UnOp:
					// a load of g: its elements may be read, not addressed for writing
					if x.Op == token.MUL && x.X == ssa.Value(g) {
						for _, r := range Referrers(x) {
							switch y := r.(type) {
							case *ssa.IndexAddr:
								for _, r2 := range Referrers(y) {
									if st, isSt := r2.(*ssa.Store); isSt && st.Addr == ssa.Value(y) {
										return bad()
									}
									if _, isCall := r2.(ssa.CallInstruction); isCall {
										return bad()
									}
								}
							case *ssa.Call, *ssa.Go, *ssa.Defer:
								// handed to a callee: only builtins (len, cap) and known readers
								if c, isC := y.(*ssa.Call); !isC || !(isBuiltinCall(c, "len", "cap") || pureSliceReader(CalleeName(&c.Call))) {
									return bad()
								}
							}
						}
					}
				}
			}
		}
	}
	sl, ok := made.(*ssa.Slice)
	if !ok || sl.Low != nil || sl.High != nil {
		return bad()
	}
	al, ok := sl.X.(*ssa.Alloc)
	if !ok {
		return bad()
	}
	elems, ok := ArrayLitElems(al)
	if !ok {
		return bad()
	}
	for i, e := range elems {
		if e == nil {
			continue // zero
		}
		v, isK := constElem(e)
		if !isK {
			return bad()
		}
		elems[i] = v
	}
	constSliceCache[g] = elems
	return elems, true
}

// ConstTable: g is an array or slice variable that holds its literal of constants / plain functions
// from initialisation on.
func ConstTable(g *ssa.Global) bool {
	if _, ok := constArrayOf(g); ok {
		return true
	}
	_, ok := constSliceOf(g)
	return ok
}

// constElem: a table element that is the same value wherever it is read: a constant, or a function
// (a method expression or a named function, possibly converted to a named function type).
func constElem(v ssa.Value) (ssa.Value, bool) {
	for {
		switch x := v.(type) {
		case *ssa.Const:
			return x, true
		case *ssa.Function:
			return x, len(x.FreeVars) == 0
		case *ssa.ChangeType:
			if _, isSig := x.Type().Underlying().(*types.Signature); !isSig {
				return nil, false
			}
			v = x.X
		default:
			return nil, false
		}
	}
}

// pureSliceReader: standard-library functions that only read the slices they are handed.
func pureSliceReader(name string) bool {
	for _, p := range []string{"bytes.Index", "bytes.LastIndex", "bytes.Contains", "bytes.Equal", "bytes.Compare", "bytes.HasPrefix", "bytes.HasSuffix", "bytes.Count", "slices.Index", "slices.Contains", "encoding/hex.EncodeToString", "encoding/binary.bigEndian.Uint", "encoding/binary.littleEndian.Uint"} {
		if strings.HasPrefix(name, p) {
			return true
		}
	}
	return false
}

func isBuiltinCall(c *ssa.Call, names ...string) bool {
	b, ok := c.Call.Value.(*ssa.Builtin)
	if !ok {
		return false
	}
	for _, n := range names {
		if b.Name() == n {
			return true
		}
	}
	return false
}

// constArrayOf: the elements of a package-level array variable whose initialiser is a literal of
// constants (stored element by element in init) and that nothing else in its package stores to.
var constArrayCache = map[*ssa.Global][]ssa.Value{}
var constArrayBad = map[*ssa.Global]bool{}

func constArrayOf(g *ssa.Global) ([]ssa.Value, bool) {
	if e, ok := constArrayCache[g]; ok {
		return e, true
	}
	if constArrayBad[g] || g.Pkg == nil {
		return nil, false
	}
	bad := func() ([]ssa.Value, bool) { constArrayBad[g] = true; return nil, false }
	pt, ok := g.Type().Underlying().(*types.Pointer)
	if !ok {
		return bad()
	}
	at, ok := pt.Elem().Underlying().(*types.Array)
	if !ok || at.Len() > 256 {
		return bad()
	}
	elems := make([]ssa.Value, at.Len())
	stores := 0
	var fns []*ssa.Function
	for _, mem := range g.Pkg.Members {
		switch m := mem.(type) {
		case *ssa.Function:
			fns = append(append(fns, m), m.AnonFuncs...)
		case *ssa.Type:
			for _, ms := range []*types.MethodSet{g.Pkg.Prog.MethodSets.MethodSet(m.Type()), g.Pkg.Prog.MethodSets.MethodSet(types.NewPointer(m.Type()))} {
				for i := 0; i < ms.Len(); i++ {
					if f := g.Pkg.Prog.MethodValue(ms.At(i)); f != nil {
						fns = append(fns, f)
					}
				}
			}
		}
	}
	for _, f := range fns {
		for _, b := range f.Blocks {
			for _, in := range b.Instrs {
				switch x := in.(type) {
				case *ssa.Store:
					if x.Addr == ssa.Value(g) {
						return bad() // assigned as a whole
					}
					if ia, isIA := x.Addr.(*ssa.IndexAddr); isIA && ia.X == ssa.Value(g) {
						k, isK := ConstInt(ia.Index)
						val, isC := constElem(x.Val)
						if f.Name() != "init" || !isK || !isC || k < 0 || k >= at.Len() || elems[k] != nil {
							return bad()
						}
						elems[k] = val
						stores++
					}
				case *ssa.IndexAddr:
					// an element address is loaded from or (in init) stored to, nothing else: it does not travel
					if x.X == ssa.Value(g) {
						for _, r := range Referrers(x) {
							switch y := r.(type) {
							case *ssa.UnOp:
							case *ssa.Store:
								if y.Addr != ssa.Value(x) {
									return bad()
								}
							case *ssa.DebugRef:
							default:
								return bad()
							}
						}
					}
				case *ssa.Slice:
					if x.X == ssa.Value(g) {
						return bad() // g[:] hands out writable storage
					}
				}
			}
		}
	}
	if stores == 0 {
		return bad()
	}
	constArrayCache[g] = elems
	return elems, true
}

// globalOfPath finds the package-level variable a cell path "global:<pkg>.<name>" names.
func globalOfPath(prog *ssa.Program, path string) *ssa.Global {
	if !strings.HasPrefix(path, "global:") {
		return nil
	}
	rest := strings.TrimPrefix(path, "global:")
	i := strings.LastIndexByte(rest, '.')
	if i < 0 {
		return nil
	}
	for _, p := range prog.AllPackages() {
		if p.Pkg.Path() == rest[:i] {
			if g, ok := p.Members[rest[i+1:]].(*ssa.Global); ok {
				return g
			}
		}
	}
	return nil
}

// forkTableIndex: tab[i] on a constant table (a package-level array or slice that only holds its
// literal) with an index the path has bounded inside the table: one state per index value, as for
// constant maps. Returns nil when the instruction is not of that kind.
func (ex *Exec) forkTableIndex(s *astate, fr *aframe, x *ssa.IndexAddr) []*astate {
	b := ex.val(s, fr, x.X)
	idx := ex.val(s, fr, x.Index)
	if idx.K != AInt {
		return nil
	}
	if _, isK := idx.ConstVal(); isK {
		return nil
	}
	base, lo, n := "", 0, -1
	switch {
	case b.K == APtr && strings.HasPrefix(b.Path, "global:") && !b.Sym:
		base = b.Path
	case b.K == ASlice && b.Lo >= 0 && b.Len >= 0 && (strings.HasPrefix(b.Path, "global:")):
		base, lo, n = b.Path, b.Lo, b.Len
	default:
		return nil
	}
	if !strings.HasSuffix(base, "$lit") {
		g := globalOfPath(fr.fn.Prog, base)
		if g == nil {
			return nil
		}
		elems, ok := constArrayOf(g)
		if !ok {
			// not a literal of constants: what the initialiser left in it, when nothing can write it later
			at, isArr := g.Type().Underlying().(*types.Pointer).Elem().Underlying().(*types.Array)
			if !isArr || at.Len() > 256 || !ex.seedGlobal(s, g) {
				return nil
			}
			elems = nil
			if n < 0 {
				n = int(at.Len())
			}
		}
		if n < 0 {
			n = len(elems)
		}
		et := g.Type().Underlying().(*types.Pointer).Elem().Underlying().(*types.Array).Elem()
		for i, e := range elems {
			cell := fmt.Sprintf("%s[%d]", base, i)
			if _, has := s.mem.cells[cell]; has || s.mem.isHavoc(cell) {
				continue
			}
			v := zeroOf(et)
			if e != nil {
				v = ex.val(s, fr, e)
			}
			s.mem.cells[cell] = v
		}
	}
	if n < 0 || n > 64 {
		return nil
	}
	src, plain := plainSource(idx.Bits)
	if !plain {
		return nil
	}
	signed := isSigned(x.Index.Type())
	rg, okR := s.rangeOf(idx.Bits, signed)
	if !okR || rg.lo < 0 || rg.hi >= int64(n) {
		return nil // not bounded inside the table on this path: the ordinary (symbolic) element
	}
	var out []*astate
	for k := rg.lo; k <= rg.hi; k++ {
		skip := false
		for _, e := range s.excl[src] {
			if e == k {
				skip = true
			}
		}
		if skip {
			continue
		}
		c := s.clone()
		c.narrow(idx.Bits, signed, k, k)
		cf := c.frames[len(c.frames)-1]
		cf.env[x] = AVal{K: APtr, Path: fmt.Sprintf("%s[%d]", base, lo+int(k))}
		cf.pc++
		out = append(out, c)
	}
	return out
}

// assumeEqParts records val == kc on st: every run of bits that is a field of one source gets its share
// of the constant; constant bits of val have to agree with kc (false: the equality cannot hold).
// names lists the fields that were pinned.
func (st *astate) assumeEqParts(val BitVec, kc uint64) (feasible bool, names []string, shares []uint64) {
	for i := 0; i < len(val); {
		x := val[i]
		want := (kc >> uint(i)) & 1
		switch x.Kind {
		case BZero:
			if want != 0 {
				return false, nil, nil
			}
			i++
		case BOne:
			if want != 1 {
				return false, nil, nil
			}
			i++
		case BSrc:
			if x.More != "" || x.Neg {
				return true, nil, nil // not a shape this records; nothing learnt
			}
			n := 0
			for i+n < len(val) && val[i+n].Kind == BSrc && val[i+n].More == "" && !val[i+n].Neg && val[i+n].Src == x.Src && val[i+n].Idx == x.Idx+n {
				n++
			}
			name, okN := plainSource(append(append(BitVec(nil), val[i:i+n]...), Bit{Kind: BZero}))
			if !okN || n >= 63 {
				return true, nil, nil
			}
			names = append(names, name)
			shares = append(shares, (kc>>uint(i))&(1<<uint(n)-1))
			i += n
		default:
			return true, nil, nil
		}
	}
	for i, n := range names {
		if f, has := st.facts[n]; has && (shares[i] < f[0] || shares[i] > f[1]) {
			return false, nil, nil
		}
		for _, e := range st.excl[n] {
			if uint64(e) == shares[i] {
				return false, nil, nil
			}
		}
	}
	for i, n := range names {
		st.setRange(n, false, int64(shares[i]), int64(shares[i]))
	}
	return true, names, shares
}

// forkIndexByte: bytes.IndexByte(table, c) over a table whose octets are all known (a constant
// table) and a symbolic c: one state per distinct octet of the table (c is that octet, the result its
// first index) and one for "not in the table" (-1), as a loop over the table comparing c would give.
func (ex *Exec) forkIndexByte(s *astate, fr *aframe, x *ssa.Call) []*astate {
	tab := ex.val(s, fr, x.Call.Args[0])
	c := ex.val(s, fr, x.Call.Args[1])
	if os.Getenv("VERIF_DEBUG_IB") != "" {
		fmt.Printf("DEBUG IndexByte tab=%s{K=%d lo=%d len=%d} c=%s\n", argName(tab), tab.K, tab.Lo, tab.Len, c)
	}
	if tab.K != ASlice || tab.Lo < 0 || tab.Len < 0 || tab.Len > 64 || c.K != AInt || hasMixBits(c.Bits) {
		return nil
	}
	if _, isK := c.ConstVal(); isK {
		return nil
	}
	var vals []uint64
	first := map[uint64]int{}
	for i := 0; i < tab.Len; i++ {
		cell, has := s.mem.cells[fmt.Sprintf("%s[%d]", tab.Path, tab.Lo+i)]
		if !has {
			return nil
		}
		k, isK := cell.ConstVal()
		if !isK {
			return nil
		}
		if _, seen := first[k]; !seen {
			first[k] = i
			vals = append(vals, k)
		}
	}
	w := widthOf(x.Type())
	if w == 0 {
		return nil
	}
	var out []*astate
	other := s.clone()
	single := ""
	for _, v := range vals {
		st := s.clone()
		ok, names, shares := st.assumeEqParts(c.Bits, v)
		if !ok {
			continue
		}
		if names == nil {
			return nil // the comparison is not of a recordable shape: leave the call opaque
		}
		if len(names) == 1 {
			single = names[0]
			other.exclude(names[0], int64(shares[0]))
		}
		sf := st.frames[len(st.frames)-1]
		sf.env[x] = AVal{K: AInt, Bits: constBits(uint64(first[v]), w)}
		sf.pc++
		out = append(out, st)
	}
	_ = single
	of := other.frames[len(other.frames)-1]
	of.env[x] = AVal{K: AInt, Bits: constBits(truncTo(^uint64(0), w), w)}
	of.pc++
	out = append(out, other)
	return out
}
