package rules

import (
	"fmt"
	"go/types"
	"os"

	"stgverif/internal/core"
)

// PCO.UnMarshal on the evaluator, by a partition on the layout of the input: the configuration
// octet followed by container units ID(2) LEN(1) CONTENTS(LEN). For each layout of a small set (no
// unit; one empty unit; one unit with contents; an empty unit after one with contents and the other
// way round; three units) the length octets are constants, every other octet is symbolic, all loops
// fold, and the decoded list has to hold exactly the units of the layout: ID = the two ID octets
// big-endian, LengthOfContents = the length octet, Contents = the content octets in order.

type pcoUnit struct{ n int }

func r17pcoUnmarshalX(c *core.Ctx, R string) (decided, ok bool, why string) {
	fn := c.P.Func(pNasC, "ProtocolConfigurationOptions.UnMarshal")
	if fn == nil || len(fn.Params) != 2 {
		return false, false, ""
	}
	layouts := [][]pcoUnit{{}, {{0}}, {{2}}, {{1}, {0}}, {{0}, {3}}, {{4}, {0}, {1}}, {{0}, {0}}, {{255}}}
	u8 := types.Typ[types.Uint8]
	for li, lay := range layouts {
		mem := core.NewMem()
		// the input octets
		var cells []core.AVal
		cells = append(cells, core.ArgBits("d[0]", 8, 8))
		type exp struct{ idAt, n, contAt int }
		var want []exp
		for _, u := range lay {
			at := len(cells)
			cells = append(cells, core.ArgBits(fmt.Sprintf("d[%d]", at), 8, 8), core.ArgBits(fmt.Sprintf("d[%d]", at+1), 8, 8))
			cells = append(cells, core.AVal{K: core.AInt, Bits: core.ConstBits(uint64(u.n), 8)})
			want = append(want, exp{at, u.n, at + 3})
			for k := 0; k < u.n; k++ {
				cells = append(cells, core.ArgBits(fmt.Sprintf("d[%d]", at+3+k), 8, 8))
			}
		}
		for i, v := range cells {
			mem.Store(fmt.Sprintf("d[%d]", i), v, nil)
		}
		mem.Store("p0.ProtocolOrContainerList", core.AVal{K: core.ASlice, Path: "list0", Lo: 0, Len: 0, NonNil: true}, nil)
		ex := core.NewExec()
		ex.MaxSteps = 2000000
		ex.OnCall = func(ev *core.AEvent, _ *core.AMem) (core.AVal, bool) {
			if len(ev.Callee) > 7 && (ev.Callee[:7] == "strconv" || containsAny(ev.Callee, "logrus", "/logger.", "fmt.")) {
				return core.OpaqueRet(ev), true
			}
			return core.AVal{}, false
		}
		args := []core.AVal{{K: core.APtr, Path: "p0", NonNil: true}, {K: core.ASlice, Path: "d", Lo: 0, Len: len(cells), NonNil: true}}
		outs, err := ex.Run(fn, args, mem)
		o, one := oneLive(outs)
		if os.Getenv("VERIF_DEBUG") != "" {
			fmt.Printf("DEBUG pco layout %d: err=%v outs=%d unsound=%v\n", li, err, len(outs), ex.Unsound)
			for _, oo := range outs {
				fmt.Printf("   outcome panicked=%v conds=%v ret=%v\n", oo.Panicked, oo.Conds, oo.Ret)
			}
			if one {
				for _, k := range o.Mem.Cells("") {
					fmt.Printf("   %s = %s\n", k, clip(o.Mem.Load(k, nil).String()))
				}
			}
		}
		if err != nil || !one || len(ex.Unsound) > 0 {
			return false, false, fmt.Sprintf("layout %d not folded to one outcome (%v, %d outcomes, %v)", li, err, len(outs), ex.Unsound)
		}
		if len(o.Ret) == 1 && o.Ret[0].NonNil {
			return true, false, fmt.Sprintf("a well-formed option list with units %v is refused", lay)
		}
		lst := o.Mem.Load("p0.ProtocolOrContainerList", nil)
		if lst.K != core.ASlice || lst.Lo < 0 || lst.Len != len(lay) {
			return true, false, fmt.Sprintf("units %v: the decoded list is %s, want %d units", lay, clip(core.ArgName(lst)), len(lay))
		}
		for i, w := range want {
			up := o.Mem.Load(fmt.Sprintf("%s[%d]", lst.Path, lst.Lo+i), nil)
			if up.K != core.APtr {
				return true, false, fmt.Sprintf("units %v: list element %d is %s", lay, i, clip(core.ArgName(up)))
			}
			id := o.Mem.Load(up.Path+".ProtocolOrContainerID", types.Typ[types.Uint16])
			if id.K != core.AInt || len(id.Bits) != 16 || !id.Bits.IsCopy(15, 8, fmt.Sprintf("d[%d]", w.idAt), 0) || !id.Bits.IsCopy(7, 0, fmt.Sprintf("d[%d]", w.idAt+1), 0) {
				return true, false, fmt.Sprintf("units %v: the ID of unit %d is %s, want octets %d and %d of the input big-endian", lay, i, clip(id.String()), w.idAt, w.idAt+1)
			}
			ln := o.Mem.Load(up.Path+".LengthOfContents", u8)
			if k, isK := ln.ConstVal(); !isK || int(k) != w.n {
				return true, false, fmt.Sprintf("units %v: LengthOfContents of unit %d is %s, want %d", lay, i, clip(ln.String()), w.n)
			}
			ct := o.Mem.Load(up.Path+".Contents", nil)
			if w.n == 0 {
				if ct.K == core.ASlice && ct.Len > 0 {
					return true, false, fmt.Sprintf("units %v: the empty unit %d has contents %s", lay, i, clip(core.ArgName(ct)))
				}
				continue
			}
			if ct.K != core.ASlice || ct.Lo < 0 || ct.Len != w.n {
				return true, false, fmt.Sprintf("units %v: Contents of unit %d is %s, want %d octets", lay, i, clip(core.ArgName(ct)), w.n)
			}
			for k := 0; k < w.n; k++ {
				v := o.Mem.Load(fmt.Sprintf("%s[%d]", ct.Path, ct.Lo+k), u8)
				if v.K != core.AInt || !v.Bits.IsCopy(7, 0, fmt.Sprintf("d[%d]", w.contAt+k), 0) {
					return true, false, fmt.Sprintf("units %v: content octet %d of unit %d is %s, want input octet %d", lay, k, i, clip(v.String()), w.contAt+k)
				}
			}
		}
	}
	return true, true, ""
}

func containsAny(s string, subs ...string) bool {
	for _, x := range subs {
		for i := 0; i+len(x) <= len(s); i++ {
			if s[i:i+len(x)] == x {
				return true
			}
		}
	}
	return false
}
