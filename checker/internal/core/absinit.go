package core

import (
	"go/token"
	"go/types"
	"strings"

	"golang.org/x/tools/go/ssa"
)

// Package-level tables: a variable whose value is what its package's initialiser leaves in it
// (a literal, or a table computed by a loop in init / by a function the initialiser calls) and that
// nothing can write afterwards has the same contents wherever it is read. The initialiser is
// interpreted once per package (its own functions entered, calls into other packages opaque); when
// an analysed function first touches such a variable its cells - and the objects they point to - are
// copied into the path's memory, so tab[c], codecs[t].decode(…) or a table of functions read like
// the literal they stand for.

var initMemCache = map[*ssa.Package]*AMem{}

func initMemOf(pkg *ssa.Package) *AMem {
	if m, ok := initMemCache[pkg]; ok {
		return m
	}
	initMemCache[pkg] = nil // also the answer while the initialiser itself is being interpreted
	initFn := pkg.Func("init")
	if initFn == nil || len(initFn.Blocks) == 0 {
		return nil
	}
	ex := NewExec()
	ex.MaxStates = 64
	ex.MaxSteps = 6000000
	ex.MaxDepth = 12
	ex.Enter = func(f *ssa.Function) bool { return f.Pkg == pkg || (f.Pkg == nil && repoFunc(f)) }
	ex.OnCall = func(ev *AEvent, m *AMem) (AVal, bool) {
		if ev.Fn != nil && (ev.Fn.Pkg == pkg || ev.Fn.Pkg == nil) {
			return AVal{}, false
		}
		return OpaqueRet(ev), true // the initialisers of other packages, library constructors
	}
	mem := newMem()
	base := "global:" + pkg.Pkg.Path() + "."
	mem.Store(base+"init$guard", AVal{K: AInt, Bits: ConstBits(0, 1)}, types.Typ[types.Bool])
	for _, m := range pkg.Members {
		if g, ok := m.(*ssa.Global); ok {
			mem.fresh[base+g.Name()] = true // package-level variables start zeroed
		}
	}
	outs, err := ex.Run(initFn, nil, mem)
	if err != nil || len(outs) != 1 || outs[0].Panicked || len(ex.Unsound) > 0 {
		return nil
	}
	initMemCache[pkg] = outs[0].Mem
	return outs[0].Mem
}

var immutableGlobalCache = map[*ssa.Global]bool{}

// refFree: values of type t hold no reference through which memory could be written (functions are
// references to code only).
func refFree(t types.Type, depth int) bool {
	if depth > 6 {
		return false
	}
	switch u := t.Underlying().(type) {
	case *types.Basic:
		return u.Kind() != types.UnsafePointer
	case *types.Signature:
		return true
	case *types.Array:
		return refFree(u.Elem(), depth+1)
	case *types.Struct:
		for i := 0; i < u.NumFields(); i++ {
			if !refFree(u.Field(i).Type(), depth+1) {
				return false
			}
		}
		return true
	}
	return false
}

// immutableGlobal: outside its package's initialiser nothing stores through an address derived from
// g, and neither such an address nor a reference loaded from g (a slice, a map, a pointer) reaches
// anything but reads.
func immutableGlobal(g *ssa.Global) bool {
	if r, ok := immutableGlobalCache[g]; ok {
		return r
	}
	immutableGlobalCache[g] = false
	if g.Pkg == nil || g.Object() == nil || g.Object().Exported() {
		return false // an exported variable can be assigned by any importer: only unexported tables are taken
	}
	ok := true
	var addr, ref func(v ssa.Value, depth int)
	seen := map[ssa.Value]bool{}
	inInit := func(in ssa.Instruction) bool {
		f := in.Parent()
		for f != nil && f.Parent() != nil {
			f = f.Parent()
		}
		return f != nil && f.Name() == "init" && f.Pkg == g.Pkg
	}
	// v is an address inside g
	addr = func(v ssa.Value, depth int) {
		if !ok || seen[v] {
			return
		}
		seen[v] = true
		if depth > 8 {
			ok = false
			return
		}
		var users []ssa.Instruction
		if v == ssa.Value(g) {
			users = globalUsers(g) // a Global keeps no referrer list
		} else if refs := v.Referrers(); refs != nil {
			users = *refs
		}
		for _, r := range users {
			if inInit(r) {
				continue
			}
			switch x := r.(type) {
			case *ssa.DebugRef:
			case *ssa.IndexAddr:
				if x.X == v {
					addr(x, depth+1)
				}
			case *ssa.FieldAddr:
				addr(x, depth+1)
			case *ssa.UnOp:
				if x.Op != token.MUL {
					ok = false
					return
				}
				if !refFree(x.Type(), 0) {
					ref(x, depth+1)
				}
			case *ssa.Store:
				ok = false // written (x.Addr == v) or handed on (x.Val == v)
				return
			case *ssa.Slice:
				ref(x, depth+1) // g[:] - a slice over the variable
			default:
				ok = false
				return
			}
		}
	}
	// v is a reference (slice, map, pointer, aggregate holding one) loaded from g
	ref = func(v ssa.Value, depth int) {
		if !ok || seen[v] {
			return
		}
		seen[v] = true
		if depth > 8 {
			ok = false
			return
		}
		refs := v.Referrers()
		if refs == nil {
			return
		}
		for _, r := range *refs {
			if inInit(r) {
				continue
			}
			switch x := r.(type) {
			case *ssa.DebugRef:
			case *ssa.IndexAddr:
				if x.X == v {
					addr(x, depth+1)
				}
			case *ssa.FieldAddr:
				addr(x, depth+1)
			case *ssa.Index, *ssa.Field, *ssa.Extract:
				if val := x.(ssa.Value); !refFree(val.Type(), 0) {
					ref(val, depth+1)
				}
			case *ssa.Lookup:
				if x.X == v && !refFree(x.Type(), 0) {
					// a tuple (v, ok) of reference-free v is reference-free for our purposes
					if tup, isT := x.Type().(*types.Tuple); !isT || !refFree(tup.At(0).Type(), 0) {
						ref(x, depth+1)
					}
				}
			case *ssa.Slice:
				if x.X == v {
					ref(x, depth+1)
				}
			case *ssa.UnOp:
				if x.Op == token.MUL && !refFree(x.Type(), 0) {
					ref(x, depth+1)
				}
			case *ssa.Range:
			case *ssa.BinOp:
				// compared with nil
			case *ssa.If:
			case *ssa.Call:
				if b, isB := x.Call.Value.(*ssa.Builtin); isB && (b.Name() == "len" || b.Name() == "cap") {
					continue
				}
				if pureSliceReader(CalleeName(&x.Call)) {
					continue
				}
				// handed to a function of the same package: what that function does with its parameter counts
				if callee := x.Call.StaticCallee(); callee != nil && callee.Pkg == g.Pkg && len(callee.Blocks) > 0 && x.Call.Value != v {
					for i, a := range x.Call.Args {
						if a == v && i < len(callee.Params) {
							ref(callee.Params[i], depth+1)
						}
					}
					continue
				}
				// a function value loaded from the table and called: the call is a read of the table
				if x.Call.Value == v && !x.Call.IsInvoke() {
					used := false
					for _, a := range x.Call.Args {
						if a == v {
							used = true
						}
					}
					if !used {
						continue
					}
				}
				ok = false
				return
			default:
				ok = false
				return
			}
		}
	}
	addr(g, 0)
	immutableGlobalCache[g] = ok
	return ok
}

var globalUsersCache = map[*ssa.Package]map[*ssa.Global][]ssa.Instruction{}

// globalUsers: the instructions of g's package that have g as an operand.
func globalUsers(g *ssa.Global) []ssa.Instruction {
	idx, ok := globalUsersCache[g.Pkg]
	if !ok {
		idx = map[*ssa.Global][]ssa.Instruction{}
		var fns []*ssa.Function
		var add func(f *ssa.Function)
		add = func(f *ssa.Function) {
			fns = append(fns, f)
			for _, a := range f.AnonFuncs {
				add(a)
			}
		}
		for _, mem := range g.Pkg.Members {
			switch m := mem.(type) {
			case *ssa.Function:
				add(m)
			case *ssa.Type:
				for _, ms := range []*types.MethodSet{g.Pkg.Prog.MethodSets.MethodSet(m.Type()), g.Pkg.Prog.MethodSets.MethodSet(types.NewPointer(m.Type()))} {
					for i := 0; i < ms.Len(); i++ {
						if f := g.Pkg.Prog.MethodValue(ms.At(i)); f != nil && f.Pkg == g.Pkg {
							add(f)
						}
					}
				}
			}
		}
		var ops []*ssa.Value
		seenFn := map[*ssa.Function]bool{}
		for _, f := range fns {
			if seenFn[f] {
				continue
			}
			seenFn[f] = true
			for _, b := range f.Blocks {
				for _, in := range b.Instrs {
					ops = in.Operands(ops[:0])
					for _, op := range ops {
						if op == nil || *op == nil {
							continue
						}
						if gg, isG := (*op).(*ssa.Global); isG {
							idx[gg] = append(idx[gg], in)
						}
					}
				}
			}
		}
		globalUsersCache[g.Pkg] = idx
	}
	return idx[g]
}

// seedGlobal copies what the initialiser left in g (and what that points to) into the path's memory
// the first time the path touches g. Reports whether g is an initialiser-only variable.
func (ex *Exec) seedGlobal(s *astate, g *ssa.Global) bool {
	if g.Pkg == nil {
		return false
	}
	base := "global:" + g.Pkg.Pkg.Path() + "." + g.Name()
	marker := base + "$seeded"
	if v, done := s.mem.cells[marker]; done {
		return v.IsConst
	}
	no := func() bool { s.mem.cells[marker] = AVal{K: AUnknown}; return false }
	if !repoPkgPath(g.Pkg.Pkg.Path()) || !immutableGlobal(g) {
		return no()
	}
	im := initMemOf(g.Pkg)
	if im == nil {
		return no()
	}
	if im.isHavoc(base) || im.isHavoc(base+"[") || im.isHavoc(base+".") {
		return no()
	}
	// cells of g, and of the objects reachable from them
	todo := []string{base}
	seenObj := map[string]bool{base: true}
	type kv struct {
		k string
		v AVal
	}
	var copyCells []kv
	var fresh []string
	var visit func(v AVal)
	visit = func(v AVal) {
		switch v.K {
		case APtr, ASlice:
			if v.Path != "" && !v.Sym {
				obj := v.Path
				if i := strings.IndexAny(obj, "[."); i > 0 && !strings.HasPrefix(obj, "global:") {
					obj = obj[:i]
				}
				if strings.HasPrefix(obj, "global:") {
					// another variable (or part of one): its own seeding decides
					return
				}
				if !seenObj[obj] {
					seenObj[obj] = true
					todo = append(todo, obj)
				}
			}
		}
		for _, e := range v.Elems {
			visit(e)
		}
	}
	for len(todo) > 0 {
		obj := todo[len(todo)-1]
		todo = todo[:len(todo)-1]
		if im.isHavoc(obj) || im.isHavoc(obj+"[") {
			return no()
		}
		if _, hasSeq := im.Seqs[obj]; hasSeq {
			return no()
		}
		if _, hasFrom := im.from[obj]; hasFrom {
			return no()
		}
		for k, v := range im.cells {
			if k == obj || strings.HasPrefix(k, obj+"[") || strings.HasPrefix(k, obj+".") {
				if v.K == AUnknown && v.Fn == nil {
					return no() // something the initialiser's interpretation did not follow
				}
				copyCells = append(copyCells, kv{k, v})
				visit(v)
			}
		}
		if im.fresh[obj] {
			fresh = append(fresh, obj)
		}
	}
	for _, c := range copyCells {
		if _, has := s.mem.cells[c.k]; !has {
			s.mem.cells[c.k] = c.v
		}
	}
	for _, f := range fresh {
		s.mem.fresh[f] = true
	}
	s.mem.fresh[base] = true
	s.mem.cells[marker] = AVal{K: AUnknown, IsConst: true}
	return true
}
