#!/usr/bin/env python3
"""mktask.py <benign|seed> <prefix> <test-tag> <props...> : create a scratch worktree /tmp/<prefix>-<prop> of /repo per property
with a TASK.md made from the template (only the property text goes in; nothing from /verif)."""
import json,subprocess,sys,os
kind,prefix,tag=sys.argv[1:4]
props={json.loads(l)['id']:json.loads(l) for l in open('/verif/properties.jsonl')}
tpl=open('/verif/tools/%s_task_template.md'%kind).read()
for pid in sys.argv[4:]:
    p=props[pid]; wt='/tmp/%s-%s'%(prefix,pid)
    subprocess.run(['git','-C','/repo','worktree','add','--detach','-f',wt,'HEAD'],check=True,stdout=subprocess.DEVNULL,stderr=subprocess.DEVNULL)
    a=p['anchors']
    mech='; '.join('%s (%s)'%(m['name'],m['where']) for m in a.get('mechanism',[]))
    t=tpl.replace('{WT}',wt).replace('{ID}',pid).replace('{TITLE}',p['title']).replace('{STATEMENT}',p['statement']).replace('{FILES}',', '.join(a.get('files',[]))).replace('{MECH}',mech)
    t=t.replace('TestBenign2','TestBenign'+tag).replace('TestSeed5','TestSeed'+tag)
    open(wt+'/TASK.md','w').write(t)
    print(wt)
