package rules

import (
	"fmt"
	"go/ast"
	"go/token"
	"sort"
	"strings"

	"stgverif/internal/core"
)

// T-24501-MT: message type octets, TS 24.501 tables 9.7.1 (5GMM) and 9.7.2 (5GSM).
var t24501MT = map[string]int64{
	"RegistrationRequest": 0x41, "RegistrationAccept": 0x42, "RegistrationComplete": 0x43, "RegistrationReject": 0x44,
	"DeregistrationRequestUEOriginatingDeregistration": 0x45, "DeregistrationAcceptUEOriginatingDeregistration": 0x46,
	"DeregistrationRequestUETerminatedDeregistration": 0x47, "DeregistrationAcceptUETerminatedDeregistration": 0x48,
	"ServiceRequest": 0x4c, "ServiceReject": 0x4d, "ServiceAccept": 0x4e,
	"ConfigurationUpdateCommand": 0x54, "ConfigurationUpdateComplete": 0x55,
	"AuthenticationRequest": 0x56, "AuthenticationResponse": 0x57, "AuthenticationReject": 0x58, "AuthenticationFailure": 0x59, "AuthenticationResult": 0x5a,
	"IdentityRequest": 0x5b, "IdentityResponse": 0x5c,
	"SecurityModeCommand": 0x5d, "SecurityModeComplete": 0x5e, "SecurityModeReject": 0x5f,
	"Status5GMM": 0x64, "Notification": 0x65, "NotificationResponse": 0x66, "ULNASTransport": 0x67, "DLNASTransport": 0x68,
	"PDUSessionEstablishmentRequest": 0xc1, "PDUSessionEstablishmentAccept": 0xc2, "PDUSessionEstablishmentReject": 0xc3,
	"PDUSessionAuthenticationCommand": 0xc5, "PDUSessionAuthenticationComplete": 0xc6, "PDUSessionAuthenticationResult": 0xc7,
	"PDUSessionModificationRequest": 0xc9, "PDUSessionModificationReject": 0xca, "PDUSessionModificationCommand": 0xcb,
	"PDUSessionModificationComplete": 0xcc, "PDUSessionModificationCommandReject": 0xcd,
	"PDUSessionReleaseRequest": 0xd1, "PDUSessionReleaseReject": 0xd2, "PDUSessionReleaseCommand": 0xd3, "PDUSessionReleaseComplete": 0xd4,
	"Status5GSM": 0xd6,
}

func c09(c *core.Ctx) map[string]interface{} {
	c.Explanation = "Static table comparison of the NAS wire layout with TS 24.501 (C09). Decided: (R9.mt) the 44 message-type constants, the two EPD values and the five security header types equal tables 9.7.1/9.7.2, 9.2, 9.3; (R9.tab) for all 45 messages the code-side table extracted from Encode<X>/the IE types - order and width of the mandatory fields, and IEI, format (half-octet TV, TV, TLV, TLV-E) and length-field width / fixed size of every optional IE - equals the table of clauses 8.2/8.3 compiled into the checker (T-24501-MSG, 204 mandatory + 159 optional rows); an IE of the standard's table that the code no longer handles is a violation; (R9.ctor) in the emulator's message constructors (nasTestpacket) the message type put in the header and in the body is the constant of the struct being filled, the EPD matches the family, the struct is stored in the field of its own name, every IEI given to New<IE>/SetIei is the constant <ThisMessage><ThisIE>Type, and a length set from len(x) is followed by storing the same x. (R9.ctor.len) an IE handed a caller's octet string carries all of it with Len = its length when the message is encoded (the DNN, which nasType.DNN.SetDNN label-codes, is not an instance); a constructor that writes a message by hand instead of through the message encoder returns at least the header and the fixed-length mandatory IEs of the message its type octet names (no such constructor in the tree today). (R9.acc.pair/.layout/.keep) for the 735 Get/Set accessor pairs of the 151 IE value types, summarised from their SSA form in a bit-provenance domain: getter and setter address the same octets and bits, these equal the frozen TS 24.501 9.11 layout table (T-24501-IELAYOUT), and bit-field setters the emulator's constructors call keep all other bits of the octet. (R8.dispatch/R8.mand/R8.opt/R8.loop, R17.snssai-ctor) the codec pairing rules of C08 and the S-NSSAI constructor rule of C17 are run here too: a message an independent TS 24.501 encoder built is decoded to the intended values only if the decode loops and cases are intact. Two known findings of the pinned library are listed (F13, F14). NOT decided: the meaning of IE values (code points); IEs the library does not model at all."
	c.Assumptions = []string{"T-24501-MSG was transcribed from TS 24.501 (Rel-15) and vetted against the library row by row; MappedEPSBearerContexts in the modification messages follows the library's release of the specification (IEI 0x7F)"}
	m := buildNasModel(c)
	if len(m.Msgs) < 40 {
		c.Undecided("NAS model found only %d message types (expected 45)", len(m.Msgs))
	}
	r9mt(c)
	r9tab(c, m)
	r9ctor(c)
	r9ctorLen(c)
	r9acc(c)
	// decoding what an independent encoder built needs the codec's own structure to be right
	// (dispatch and Encode/Decode pairing rules of C08); the emulator's S-NSSAI IE (C17)
	r8dispatchX(c, m)
	r8pairs(c, m)
	r17snssaiCtor(c)
	return map[string]interface{}{"messages_modelled": len(m.Msgs)}
}

func r9mt(c *core.Ctx) {
	const R = "R9.mt"
	c.Rule(R, "message type octets, EPDs and security header types equal TS 24.501 9.7 / 9.2 / 9.3")
	var names []string
	for n := range t24501MT {
		names = append(names, n)
	}
	sort.Strings(names)
	for _, n := range names {
		v, ok := constOfObj(c, pNas, "MsgType"+n)
		if !ok {
			c.Fail(R, "nas.MsgType"+n, token.NoPos, "message type constant missing")
			continue
		}
		c.Check(v == t24501MT[n], R, "nas.MsgType"+n, token.NoPos, fmt.Sprintf("%#02x", v), "message type of %s must be %#02x (TS 24.501 table 9.7), is %#02x", n, t24501MT[n], v)
	}
	for _, kv := range []struct {
		pkg, name string
		v         int64
	}{{pNasM, "Epd5GSMobilityManagementMessage", 0x7e}, {pNasM, "Epd5GSSessionManagementMessage", 0x2e},
		{pNas, "SecurityHeaderTypePlainNas", 0}, {pNas, "SecurityHeaderTypeIntegrityProtected", 1}, {pNas, "SecurityHeaderTypeIntegrityProtectedAndCiphered", 2},
		{pNas, "SecurityHeaderTypeIntegrityProtectedWithNew5gNasSecurityContext", 3}, {pNas, "SecurityHeaderTypeIntegrityProtectedAndCipheredWithNew5gNasSecurityContext", 4}} {
		v := mustConst(c, kv.pkg, kv.name)
		c.Check(v == kv.v, R, shortName(kv.pkg)+"."+kv.name, token.NoPos, fmt.Sprintf("%#x", v), "%s must be %#x, is %#x", kv.name, kv.v, v)
	}
}

func r9tab(c *core.Ctx, m *nasModel) {
	const R = "R9.tab"
	c.Rule(R, "per message: mandatory fields (order, format, size) and optional IEs (IEI, format, length width, fixed size) equal T-24501-MSG")
	var names []string
	for n := range t24501Msg {
		names = append(names, n)
	}
	sort.Strings(names)
	rows := 0
	for _, n := range names {
		msg := m.Msgs[n]
		if msg == nil {
			c.Fail(R, "nasMessage."+n, token.NoPos, "message %s of TS 24.501 is not implemented (no Encode/Decode pair)", n)
			continue
		}
		if un := msg.uninterpreted(); len(un) > 0 && n != "SecurityProtected5GSNASMessage" {
			c.SoftUndecided("nasMessage.%s: the codec moves octets with statements the model does not interpret (%s); its layout is not decided", n, clip(strings.Join(un, "; ")))
			continue
		}
		mand := map[string][]nasTok{}
		for _, t := range msg.EncMand {
			mand[t.Field] = append(mand[t.Field], t)
		}
		byField := map[string]*nasIE{}
		for _, ie := range msg.IEs {
			byField[ie.Field] = ie
		}
		// mandatory order
		var wantMand, gotMand []string
		for _, s := range t24501Msg[n] {
			if !s.Optional {
				wantMand = append(wantMand, s.Field)
			}
		}
		for _, ie := range msg.IEs {
			if !ie.Optional {
				gotMand = append(gotMand, ie.Field)
			}
		}
		c.Check(strings.Join(wantMand, ",") == strings.Join(gotMand, ","), R, "nasMessage."+n+":mandatory-order", msg.Pos, strings.Join(wantMand, ","), "mandatory part of %s must be [%s] in this order, is [%s]", n, strings.Join(wantMand, ","), strings.Join(gotMand, ","))
		for _, s := range t24501Msg[n] {
			rows++
			key := "nasMessage." + n + ":" + s.Field
			ie := byField[s.Field]
			if ie == nil {
				c.Fail(R, key, msg.Pos, "IE %s of the %s table (IEI %#02x, %s) is not handled by the message", s.Field, n, s.IEI, s.Wire)
				continue
			}
			if ie.Optional != s.Optional {
				c.Fail(R, key, ie.Pos, "IE %s is %s in the code but %s in TS 24.501", s.Field, presence(ie.Optional), presence(s.Optional))
				continue
			}
			var wire string
			if ie.Optional {
				wire = ie.wire(ie.Enc)
			} else {
				wire = ie.wire(mand[ie.Field])
				if s.Wire == "V*" {
					wire = "V*"
				}
			}
			okIEI := !s.Optional || ie.IEI == s.IEI
			if !okIEI {
				c.Fail(R, key, ie.Pos, "IEI of %s in %s must be %#02x, is %#02x", s.Field, n, s.IEI, ie.IEI)
				continue
			}
			c.Check(wire == s.Wire, R, key, ie.Pos, s.Wire, "%s in %s must be encoded as %s (TS 24.501), the code encodes it as %s", s.Field, n, s.Wire, wire)
		}
		// extra IEs in the code
		std := map[string]bool{}
		for _, s := range t24501Msg[n] {
			std[s.Field] = true
		}
		for _, ie := range msg.IEs {
			if !std[ie.Field] {
				c.Fail(R, "nasMessage."+n+":"+ie.Field+":unknown", ie.Pos, "the code handles an IE %s (IEI %#02x) that the %s table of TS 24.501 does not contain", ie.Field, ie.IEI, n)
			}
		}
	}
	c.Floor(R, rows, 360)
}

func presence(opt bool) string {
	if opt {
		return "optional"
	}
	return "mandatory"
}

// ---------------------------------------------------------------- R9.ctor
func r9ctor(c *core.Ctx) {
	const R = "R9.ctor"
	c.Rule(R, "nasTestpacket constructors: header/body message type = the struct's own constant, EPD of the family, stored in its own field, IEI constants <Msg><IE>Type, SetLen(len(x)) followed by storing x")
	pk := c.P.Pkg(pNasTP)
	if pk == nil {
		c.Undecided("package nasTestpacket not loaded")
	}
	nFuncs, nIEI := 0, 0
	for _, f := range pk.Syntax {
		for _, d := range f.Decls {
			fd, ok := d.(*ast.FuncDecl)
			if !ok || fd.Body == nil || fd.Recv != nil {
				continue
			}
			// message variables: v := nasMessage.NewX(0)
			vars := map[string]string{}
			var hdrType, family string
			stored := map[string]string{}
			var bodyTypes []string
			var epds []string
			ast.Inspect(fd.Body, func(n ast.Node) bool {
				switch x := n.(type) {
				case *ast.AssignStmt:
					if len(x.Lhs) == 1 && len(x.Rhs) == 1 {
						if call, ok := x.Rhs[0].(*ast.CallExpr); ok {
							fn := exprStr(call.Fun)
							if strings.HasPrefix(fn, "nasMessage.New") {
								if id, ok := x.Lhs[0].(*ast.Ident); ok {
									vars[id.Name] = strings.TrimPrefix(fn, "nasMessage.New")
								}
							}
						}
						// m.GmmMessage.X = v
						lhs := exprStr(x.Lhs[0])
						if strings.HasPrefix(lhs, "m.GmmMessage.") || strings.HasPrefix(lhs, "m.GsmMessage.") {
							if id, ok := x.Rhs[0].(*ast.Ident); ok {
								stored[id.Name] = lhs[strings.LastIndex(lhs, ".")+1:]
							}
						}
					}
				case *ast.CallExpr:
					fn := exprStr(x.Fun)
					if (fn == "m.GmmHeader.SetMessageType" || fn == "m.GsmHeader.SetMessageType") && len(x.Args) == 1 {
						hdrType = exprStr(x.Args[0])
						family = fn[2:5]
					}
					if strings.HasSuffix(fn, ".SetMessageType") && !strings.HasPrefix(fn, "m.") && len(x.Args) == 1 {
						bodyTypes = append(bodyTypes, strings.Split(fn, ".")[0]+"="+exprStr(x.Args[0]))
					}
					if strings.HasSuffix(fn, ".SetExtendedProtocolDiscriminator") && len(x.Args) == 1 {
						epds = append(epds, strings.Split(fn, ".")[0]+"="+exprStr(x.Args[0]))
					}
				}
				return true
			})
			if len(vars) == 0 || hdrType == "" {
				continue
			}
			nFuncs++
			c.Analysed(pNasTP + "." + fd.Name.Name)
			key := "nasTestpacket." + fd.Name.Name
			// the message variable that is stored
			for v, X := range vars {
				fieldName, isStored := stored[v]
				if !isStored {
					continue
				}
				want := "nas.MsgType" + X
				okHdr := hdrType == want
				okField := fieldName == X
				okBody := false
				for _, bt := range bodyTypes {
					if bt == v+"="+want {
						okBody = true
					}
				}
				wantEpd := map[string]string{"Gmm": "nasMessage.Epd5GSMobilityManagementMessage", "Gsm": "nasMessage.Epd5GSSessionManagementMessage"}[family]
				okEpd := false
				for _, e := range epds {
					if e == v+"="+wantEpd {
						okEpd = true
					}
				}
				c.Check(okHdr && okBody, R, key+":message-type", fd.Pos(), want, "%s builds a %s: header and body message type must both be %s (header %s, body %v)", fd.Name.Name, X, want, hdrType, bodyTypes)
				c.Check(okField, R, key+":stored-field", fd.Pos(), "m."+family+"Message."+X, "%s must store the %s it built in field %s, stores it in %s", fd.Name.Name, X, X, fieldName)
				c.Check(okEpd, R, key+":epd", fd.Pos(), wantEpd, "%s must set the EPD of the %s family (%s); sets %v", fd.Name.Name, family, wantEpd, epds)
			}
			// IEI constants
			ast.Inspect(fd.Body, func(n ast.Node) bool {
				as, ok := n.(*ast.AssignStmt)
				if ok && len(as.Lhs) == 1 && len(as.Rhs) == 1 {
					// v.F = nasType.NewT(nasMessage.C)
					if sel, ok := as.Lhs[0].(*ast.SelectorExpr); ok {
						if id, ok := sel.X.(*ast.Ident); ok && vars[id.Name] != "" {
							if call, ok := as.Rhs[0].(*ast.CallExpr); ok && strings.HasPrefix(exprStr(call.Fun), "nasType.New") && len(call.Args) == 1 {
								arg := exprStr(call.Args[0])
								if strings.HasPrefix(arg, "nasMessage.") {
									nIEI++
									want := "nasMessage." + vars[id.Name] + sel.Sel.Name + "Type"
									c.Check(arg == want, R, key+":iei:"+sel.Sel.Name, as.Pos(), want, "IE %s of %s is created with IEI constant %s, want %s", sel.Sel.Name, vars[id.Name], arg, want)
								}
							}
						}
					}
				}
				if call, ok := n.(*ast.CallExpr); ok && len(call.Args) == 1 {
					// v.F.SetIei(nasMessage.C)
					if sel, ok := call.Fun.(*ast.SelectorExpr); ok && sel.Sel.Name == "SetIei" {
						if in, ok := sel.X.(*ast.SelectorExpr); ok {
							if id, ok := in.X.(*ast.Ident); ok && vars[id.Name] != "" {
								arg := exprStr(call.Args[0])
								nIEI++
								want := "nasMessage." + vars[id.Name] + in.Sel.Name + "Type"
								c.Check(arg == want, R, key+":iei:"+in.Sel.Name, call.Pos(), want, "IE %s of %s gets IEI %s, want %s", in.Sel.Name, vars[id.Name], arg, want)
							}
						}
					}
				}
				return true
			})
			// SetLen(uintN(len(x))) followed by a setter/store of the same x
			var stmts []ast.Stmt
			ast.Inspect(fd.Body, func(n ast.Node) bool {
				if b, ok := n.(*ast.BlockStmt); ok {
					stmts = append(stmts, b.List...)
				}
				return true
			})
			for i, s := range stmts {
				es, ok := s.(*ast.ExprStmt)
				if !ok {
					continue
				}
				call, ok := es.X.(*ast.CallExpr)
				if !ok || len(call.Args) != 1 {
					continue
				}
				sel, ok := call.Fun.(*ast.SelectorExpr)
				if !ok || sel.Sel.Name != "SetLen" {
					continue
				}
				arg := exprStr(call.Args[0])
				x := ""
				for _, pre := range []string{"uint16(len(", "uint8(len("} {
					if strings.HasPrefix(arg, pre) && strings.HasSuffix(arg, "))") {
						x = arg[len(pre) : len(arg)-2]
					}
				}
				if x == "" {
					continue
				}
				recv := exprStr(sel.X)
				ok2 := false
				for j := i + 1; j < len(stmts) && j <= i+3; j++ {
					t := stmtStrAny(stmts[j])
					if strings.HasPrefix(t, recv+".") && strings.Contains(t, "("+x+")") {
						ok2 = true
					}
					if strings.HasPrefix(t, recv+".Buffer=") && strings.HasSuffix(t, "="+x) {
						ok2 = true
					}
					if strings.HasPrefix(t, "copy("+recv+".") && (strings.Contains(t, ", "+x+")") || strings.Contains(t, ", "+x+"[")) {
						ok2 = true
					}
				}
				c.Check(ok2, R, key+":len-of-stored:"+recv, call.Pos(), "SetLen(len("+x+")) then store "+x, "%s sets the length of %s from len(%s) but does not store %s next: length and contents can disagree", fd.Name.Name, recv, x, x)
			}
		}
	}
	if nFuncs < 20 {
		c.Undecided("R9.ctor recognised only %d message constructors in nasTestpacket (expected about 28)", nFuncs)
	}
	c.Note("R9.ctor: %d constructors, %d IEI constant uses", nFuncs, nIEI)
}
