package rules

import (
	"fmt"
	"go/constant"
	"go/token"
	"go/types"
	"sort"
	"strconv"
	"strings"

	"golang.org/x/tools/go/ssa"

	"stgverif/internal/core"
)

// package paths
const (
	pMain    = "stgutgmain"
	pStg     = "stgutg"
	pTglib   = "tglib"
	pBuild   = "tglib/ngapTestpacket"
	pAper    = "free5gclib/aper"
	pAperLog = "free5gclib/aper/logger"
	pNgap    = "free5gclib/ngap"
	pNgapT   = "free5gclib/ngap/ngapType"
	pNgapC   = "free5gclib/ngap/ngapConvert"
	pNas     = "free5gclib/nas"
	pNasM    = "free5gclib/nas/nasMessage"
	pNasT    = "free5gclib/nas/nasType"
	pNasTP   = "free5gclib/nas/nasTestpacket"
	pNasC    = "free5gclib/nas/nasConvert"
	pSec     = "free5gclib/nas/security"
	pSnow    = "free5gclib/nas/security/snow3g"
	pMil     = "free5gclib/milenage"
	pUeau    = "free5gclib/UeauCommon"
	pSctp    = "github.com/ishidawataru/sctp"
)

// mustFunc resolves an anchor function or aborts the run as undecided.
func mustFunc(c *core.Ctx, pkg, name string) *ssa.Function {
	fn := c.P.Func(pkg, name)
	if fn == nil || len(fn.Blocks) == 0 {
		c.Undecided("anchor function %s.%s not found in the loaded program", pkg, name)
	}
	c.Analysed(pkg + "." + name)
	return fn
}

// staticReach returns the set of functions reachable from the entries through
// statically resolved calls (including closures made in them).
func staticReach(entries ...*ssa.Function) map[*ssa.Function]bool {
	seen := map[*ssa.Function]bool{}
	var st []*ssa.Function
	for _, e := range entries {
		if e != nil {
			st = append(st, e)
		}
	}
	for len(st) > 0 {
		f := st[len(st)-1]
		st = st[:len(st)-1]
		if seen[f] {
			continue
		}
		seen[f] = true
		for _, b := range f.Blocks {
			for _, in := range b.Instrs {
				switch x := in.(type) {
				case ssa.CallInstruction:
					if g := x.Common().StaticCallee(); g != nil {
						st = append(st, g)
					}
					for _, a := range x.Common().Args {
						if mc, ok := a.(*ssa.MakeClosure); ok {
							if g, ok := mc.Fn.(*ssa.Function); ok {
								st = append(st, g)
							}
						}
						if g, ok := a.(*ssa.Function); ok {
							st = append(st, g)
						}
					}
				case *ssa.MakeClosure:
					if g, ok := x.Fn.(*ssa.Function); ok {
						st = append(st, g)
					}
				}
			}
		}
		for _, an := range f.AnonFuncs {
			st = append(st, an)
		}
	}
	return seen
}

func fnPkgPath(f *ssa.Function) string {
	if f.Pkg != nil {
		return f.Pkg.Pkg.Path()
	}
	if f.Object() != nil && f.Object().Pkg() != nil {
		return f.Object().Pkg().Path()
	}
	if f.Parent() != nil {
		return fnPkgPath(f.Parent())
	}
	return ""
}

func sortedFuncs(m map[*ssa.Function]bool) []*ssa.Function {
	var out []*ssa.Function
	for f := range m {
		out = append(out, f)
	}
	sort.Slice(out, func(i, j int) bool { return core.FuncName(out[i]) < core.FuncName(out[j]) })
	return out
}

// ordinal key helper: "callee#k" among calls of the same callee in source order.
type ordinals map[string]int

func (o ordinals) next(name string) string {
	o[name]++
	return fmt.Sprintf("%s#%d", shortName(name), o[name])
}

func shortName(full string) string {
	// "free5gclib/nas/security.NASEncrypt" -> "security.NASEncrypt"
	if i := strings.LastIndex(full, "/"); i >= 0 {
		return full[i+1:]
	}
	return full
}

// extractOf returns the Extract of tuple-valued call `call` with the given index.
func extractOf(call ssa.Value, idx int) *ssa.Extract {
	for _, r := range core.Referrers(call) {
		if e, ok := r.(*ssa.Extract); ok && e.Index == idx {
			return e
		}
	}
	return nil
}

// constOfObj returns the integer value of a named constant in a package.
func constOfObj(c *core.Ctx, pkg, name string) (int64, bool) {
	pk := c.P.Pkg(pkg)
	if pk == nil {
		return 0, false
	}
	o := pk.Types.Scope().Lookup(name)
	k, ok := o.(*types.Const)
	if !ok {
		return 0, false
	}
	v, ok2 := constInt64(k)
	return v, ok2
}

func mustConst(c *core.Ctx, pkg, name string) int64 {
	v, ok := constOfObj(c, pkg, name)
	if !ok {
		c.Undecided("anchor constant %s.%s not found", pkg, name)
	}
	return v
}

func posOf(in ssa.Instruction) token.Pos {
	if in == nil {
		return token.NoPos
	}
	if p := in.Pos(); p.IsValid() {
		return p
	}
	if v, ok := in.(ssa.Value); ok {
		for _, r := range core.Referrers(v) {
			if r.Pos().IsValid() {
				return r.Pos()
			}
		}
	}
	if in.Parent() != nil {
		return in.Parent().Pos()
	}
	return token.NoPos
}

func constInt64(k *types.Const) (int64, bool) {
	v := constant.ToInt(k.Val())
	if v.Kind() != constant.Int {
		return 0, false
	}
	return constant.Int64Val(v)
}

func itoa(n int) string { return strconv.Itoa(n) }

func ptrTo(t types.Type) types.Type { return types.NewPointer(t) }

func fieldNameOf(x *ssa.FieldAddr) string {
	t := x.X.Type()
	if pt, ok := t.Underlying().(*types.Pointer); ok {
		t = pt.Elem()
	}
	if st, ok := t.Underlying().(*types.Struct); ok && x.Field < st.NumFields() {
		return st.Field(x.Field).Name()
	}
	return ""
}

// derefNamed returns "pkgpath.Name" of a (pointer to) named type, or "".
func derefNamed(t types.Type) string {
	if pt, ok := t.Underlying().(*types.Pointer); ok {
		t = pt.Elem()
	}
	if pt, ok := t.(*types.Pointer); ok {
		t = pt.Elem()
	}
	if n, ok := t.(*types.Named); ok && n.Obj().Pkg() != nil {
		return n.Obj().Pkg().Path() + "." + n.Obj().Name()
	}
	return ""
}

// mainDelegates: main itself no longer runs the procedures (no ConnectToAmf call in its body) but
// functions of package main that it reaches do; returns their names ("" otherwise).
func mainDelegates(c *core.Ctx) string {
	mainFn := c.P.Func(pMain, "main")
	if mainFn == nil || len(core.CallsTo(mainFn, pTglib+".ConnectToAmf")) > 0 {
		return ""
	}
	var who []string
	for f := range staticReach(mainFn) {
		if f != mainFn && fnPkgPath(f) == pMain && len(core.CallsTo(f, pTglib+".ConnectToAmf")) > 0 {
			who = append(who, f.Name())
		}
	}
	sort.Strings(who)
	return strings.Join(who, ", ")
}
