package rules

import (
	"os"
	"go/constant"
	"go/token"
	"go/types"
	"reflect"
	"sort"
	"strconv"
	"strings"

	"stgverif/internal/core"
)

// A6: ASN.1 schema model of package ngapType, read from go/types exactly the way
// package aper reads it through reflection (struct tags, "Present" first field).

type aperTag struct {
	Raw       string
	Optional  bool
	SizeExt   bool
	ValueExt  bool
	SizeLB    *int64
	SizeUB    *int64
	ValueLB   *int64
	ValueUB   *int64
	Default   *int64
	OpenType  bool
	RefName   string
	RefValue  *int64
	BadParts  []string // parts outside the vocabulary or with unparsable numbers
}

func parseAperTag(raw string) aperTag {
	t := aperTag{Raw: raw}
	if raw == "" {
		return t
	}
	num := func(s string) (*int64, bool) {
		i, err := strconv.ParseInt(s, 10, 64)
		if err != nil {
			return nil, false
		}
		return &i, true
	}
	for _, part := range strings.Split(raw, ",") {
		ok := true
		switch {
		case part == "optional":
			t.Optional = true
		case part == "sizeExt":
			t.SizeExt = true
		case part == "valueExt":
			t.ValueExt = true
		case part == "openType":
			t.OpenType = true
		case strings.HasPrefix(part, "sizeLB:"):
			t.SizeLB, ok = num(part[7:])
		case strings.HasPrefix(part, "sizeUB:"):
			t.SizeUB, ok = num(part[7:])
		case strings.HasPrefix(part, "valueLB:"):
			t.ValueLB, ok = num(part[8:])
		case strings.HasPrefix(part, "valueUB:"):
			t.ValueUB, ok = num(part[8:])
		case strings.HasPrefix(part, "default:"):
			t.Default, ok = num(part[8:])
		case strings.HasPrefix(part, "referenceFieldName:"):
			t.RefName = part[19:]
		case strings.HasPrefix(part, "referenceFieldValue:"):
			t.RefValue, ok = num(part[20:])
		default:
			ok = false
		}
		if !ok {
			t.BadParts = append(t.BadParts, part)
		}
	}
	return t
}

type schemaField struct {
	Name     string
	Index    int
	Type     types.Type
	Tag      aperTag
	Exported bool
	Pos      token.Pos
}

type schemaType struct {
	Name     string
	Named    *types.Named
	Fields   []schemaField
	IsChoice bool // first field is "Present"
	Pos      token.Pos
}

type schema struct {
	pkg    *types.Package
	Types  map[string]*schemaType
	Consts map[string]int64
	Order  []string
}

func buildSchema(c *core.Ctx) *schema {
	pk := c.P.Pkg(pNgapT)
	s := &schema{pkg: pk.Types, Types: map[string]*schemaType{}, Consts: map[string]int64{}}
	for _, n := range pk.Types.Scope().Names() {
		obj := pk.Types.Scope().Lookup(n)
		switch o := obj.(type) {
		case *types.Const:
			if v, ok := constant.Int64Val(constant.ToInt(o.Val())); ok {
				s.Consts[n] = v
			}
		case *types.TypeName:
			named, ok := o.Type().(*types.Named)
			if !ok {
				continue
			}
			st, ok := named.Underlying().(*types.Struct)
			if !ok {
				continue
			}
			t := &schemaType{Name: n, Named: named, Pos: o.Pos()}
			for i := 0; i < st.NumFields(); i++ {
				f := st.Field(i)
				t.Fields = append(t.Fields, schemaField{Name: f.Name(), Index: i, Type: f.Type(), Exported: f.Exported(), Pos: f.Pos(),
					Tag: parseAperTag(reflect.StructTag(st.Tag(i)).Get("aper"))})
			}
			t.IsChoice = len(t.Fields) > 0 && t.Fields[0].Name == "Present"
			s.Types[n] = t
			s.Order = append(s.Order, n)
		}
	}
	sort.Strings(s.Order)
	return s
}

// elemStruct resolves a field type to the ngapType struct it (eventually) holds:
// through pointers and slices.
func (s *schema) elemStruct(t types.Type) *schemaType {
	for i := 0; i < 4; i++ {
		switch x := t.(type) {
		case *types.Pointer:
			t = x.Elem()
			continue
		case *types.Slice:
			t = x.Elem()
			continue
		case *types.Named:
			if x.Obj().Pkg() == s.pkg {
				return s.Types[x.Obj().Name()]
			}
			return nil
		}
		break
	}
	return nil
}

func isAperNamed(t types.Type, name string) bool {
	if p, ok := t.(*types.Pointer); ok {
		t = p.Elem()
	}
	n, ok := t.(*types.Named)
	return ok && n.Obj().Pkg() != nil && n.Obj().Pkg().Path() == pAper && n.Obj().Name() == name
}

func nilable(t types.Type) bool {
	switch t.Underlying().(type) {
	case *types.Pointer, *types.Slice, *types.Map, *types.Interface, *types.Chan, *types.Signature:
		return true
	}
	return false
}

// reachableFrom walks the type graph from a root type name.
func (s *schema) reachableFrom(root string) (map[string]bool, [][]string) {
	seen := map[string]bool{}
	var cycles [][]string
	onStack := map[string]bool{}
	var stack []string
	var walk func(n string)
	walk = func(n string) {
		if onStack[n] {
			// record the cycle
			for i, x := range stack {
				if x == n {
					cycles = append(cycles, append(append([]string{}, stack[i:]...), n))
					break
				}
			}
			return
		}
		if seen[n] {
			return
		}
		seen[n] = true
		onStack[n] = true
		stack = append(stack, n)
		if t := s.Types[n]; t != nil {
			for _, f := range t.Fields {
				if e := s.elemStruct(f.Type); e != nil {
					walk(e.Name)
				}
			}
		}
		stack = stack[:len(stack)-1]
		onStack[n] = false
	}
	walk(root)
	return seen, cycles
}

// canonTag renders the constraint content of an aper tag independent of the
// order of its parts.
func canonTag(raw string) string {
	if raw == "" {
		return ""
	}
	parts := strings.Split(raw, ",")
	sort.Strings(parts)
	return strings.Join(parts, ",")
}

func shortType(t types.Type) string {
	return types.TypeString(t, func(p *types.Package) string { return p.Name() })
}

// schemaRows: "Type.Field" -> "<canonical tag>|<Go type>" for every struct field of
// ngapType, "Type" -> "#fields" and "const:Name" -> value for every integer constant.
func schemaRows(s *schema) map[string]string {
	rows := map[string]string{}
	for _, n := range s.Order {
		t := s.Types[n]
		rows[n] = "#" + strconv.Itoa(len(t.Fields))
		for _, f := range t.Fields {
			rows[n+"."+f.Name] = strconv.Itoa(f.Index) + "|" + canonTag(f.Tag.Raw) + "|" + shortType(f.Type)
		}
	}
	for k, v := range s.Consts {
		rows["const:"+k] = strconv.FormatInt(v, 10)
	}
	return rows
}

// SchemaDump prints the Go source of the frozen schema table (developer aid).
func SchemaDump(c *core.Ctx) {
	rows := schemaRows(buildSchema(c))
	var keys []string
	for k := range rows {
		keys = append(keys, k)
	}
	sort.Strings(keys)
	println("rows", len(keys))
	var sb strings.Builder
	sb.WriteString("package rules\n\n// T-38413-SCHEMA: the ASN.1 constraint metadata of TS 38.413 (Rel-15) as the library's ASN.1\n// compiler transcribed it into ngapType: per struct the number of fields, per field its\n// position, constraint tag (canonical part order) and Go type, and every integer constant\n// (enumerators, Present indices, IE ids, procedure codes, criticalities). Frozen from the\n// pinned tree after R3.tag found all 1431 structs internally consistent and R3.types found the\n// emulator-path types equal to the standard. One row per line: key<TAB>value.\nconst frozenSchema = `\n")
	for _, k := range keys {
		sb.WriteString(k + "\t" + rows[k] + "\n")
	}
	sb.WriteString("`\n")
	os.Stdout.WriteString(sb.String())
}

// r3schema: the constraint metadata the codec consumes is the frozen TS 38.413 schema.
func r3schema(c *core.Ctx, s *schema) {
	if !c.Once("r3schema") {
		return
	}
	const R = "R3.schema"
	c.Rule(R, "every struct of ngapType has the fields, field order, constraint tags and Go types, and every constant the value, of the frozen TS 38.413 schema table (T-38413-SCHEMA)")
	want := map[string]string{}
	for _, line := range strings.Split(frozenSchema, "\n") {
		if i := strings.IndexByte(line, '\t'); i > 0 {
			want[line[:i]] = line[i+1:]
		}
	}
	got := schemaRows(s)
	var keys []string
	for k := range want {
		keys = append(keys, k)
	}
	sort.Strings(keys)
	bad, n := 0, 0
	posOf := func(k string) token.Pos {
		k = strings.TrimPrefix(k, "const:")
		tn, fn := k, ""
		if i := strings.IndexByte(k, '.'); i > 0 {
			tn, fn = k[:i], k[i+1:]
		}
		if t := s.Types[tn]; t != nil {
			for _, f := range t.Fields {
				if f.Name == fn {
					return f.Pos
				}
			}
			return t.Pos
		}
		if o := s.pkg.Scope().Lookup(tn); o != nil {
			return o.Pos()
		}
		return token.NoPos
	}
	for _, k := range keys {
		n++
		g, ok := got[k]
		switch {
		case !ok:
			bad++
			c.Fail(R, "ngapType."+k, posOf(k), "%s of the TS 38.413 schema is missing from ngapType", k)
		case g != want[k]:
			bad++
			c.Fail(R, "ngapType."+k, posOf(k), "%s is %q; the TS 38.413 schema has %q (position|constraints|type resp. value): the encoding of every value of this type changes", k, g, want[k])
		}
	}
	// a field added to an existing struct changes its SEQUENCE preamble / CHOICE index range
	var extra []string
	for k := range got {
		if _, ok := want[k]; !ok && !strings.HasPrefix(k, "const:") {
			if i := strings.IndexByte(k, '.'); i > 0 {
				if _, known := want[k[:i]]; known {
					extra = append(extra, k)
				}
			}
		}
	}
	sort.Strings(extra)
	for _, k := range extra {
		bad++
		c.Fail(R, "ngapType."+k, posOf(k), "field %s is not part of the TS 38.413 schema of its type", k)
	}
	if bad == 0 {
		c.Ok(R, "ngapType:all-rows", token.NoPos, strconv.Itoa(n)+" rows equal")
	}
	c.Floor(R, n, 5630)
}
