package rules

import (
	"go/constant"
	"go/token"
	"go/types"
	"reflect"
	"sort"
	"strconv"
	"strings"

	"stgverif/internal/core"
)

// A6: ASN.1 schema model of package ngapType, read from go/types exactly the way
// package aper reads it through reflection (struct tags, "Present" first field).

type aperTag struct {
	Raw       string
	Optional  bool
	SizeExt   bool
	ValueExt  bool
	SizeLB    *int64
	SizeUB    *int64
	ValueLB   *int64
	ValueUB   *int64
	Default   *int64
	OpenType  bool
	RefName   string
	RefValue  *int64
	BadParts  []string // parts outside the vocabulary or with unparsable numbers
}

func parseAperTag(raw string) aperTag {
	t := aperTag{Raw: raw}
	if raw == "" {
		return t
	}
	num := func(s string) (*int64, bool) {
		i, err := strconv.ParseInt(s, 10, 64)
		if err != nil {
			return nil, false
		}
		return &i, true
	}
	for _, part := range strings.Split(raw, ",") {
		ok := true
		switch {
		case part == "optional":
			t.Optional = true
		case part == "sizeExt":
			t.SizeExt = true
		case part == "valueExt":
			t.ValueExt = true
		case part == "openType":
			t.OpenType = true
		case strings.HasPrefix(part, "sizeLB:"):
			t.SizeLB, ok = num(part[7:])
		case strings.HasPrefix(part, "sizeUB:"):
			t.SizeUB, ok = num(part[7:])
		case strings.HasPrefix(part, "valueLB:"):
			t.ValueLB, ok = num(part[8:])
		case strings.HasPrefix(part, "valueUB:"):
			t.ValueUB, ok = num(part[8:])
		case strings.HasPrefix(part, "default:"):
			t.Default, ok = num(part[8:])
		case strings.HasPrefix(part, "referenceFieldName:"):
			t.RefName = part[19:]
		case strings.HasPrefix(part, "referenceFieldValue:"):
			t.RefValue, ok = num(part[20:])
		default:
			ok = false
		}
		if !ok {
			t.BadParts = append(t.BadParts, part)
		}
	}
	return t
}

type schemaField struct {
	Name     string
	Index    int
	Type     types.Type
	Tag      aperTag
	Exported bool
	Pos      token.Pos
}

type schemaType struct {
	Name     string
	Named    *types.Named
	Fields   []schemaField
	IsChoice bool // first field is "Present"
	Pos      token.Pos
}

type schema struct {
	pkg    *types.Package
	Types  map[string]*schemaType
	Consts map[string]int64
	Order  []string
}

func buildSchema(c *core.Ctx) *schema {
	pk := c.P.Pkg(pNgapT)
	s := &schema{pkg: pk.Types, Types: map[string]*schemaType{}, Consts: map[string]int64{}}
	for _, n := range pk.Types.Scope().Names() {
		obj := pk.Types.Scope().Lookup(n)
		switch o := obj.(type) {
		case *types.Const:
			if v, ok := constant.Int64Val(constant.ToInt(o.Val())); ok {
				s.Consts[n] = v
			}
		case *types.TypeName:
			named, ok := o.Type().(*types.Named)
			if !ok {
				continue
			}
			st, ok := named.Underlying().(*types.Struct)
			if !ok {
				continue
			}
			t := &schemaType{Name: n, Named: named, Pos: o.Pos()}
			for i := 0; i < st.NumFields(); i++ {
				f := st.Field(i)
				t.Fields = append(t.Fields, schemaField{Name: f.Name(), Index: i, Type: f.Type(), Exported: f.Exported(), Pos: f.Pos(),
					Tag: parseAperTag(reflect.StructTag(st.Tag(i)).Get("aper"))})
			}
			t.IsChoice = len(t.Fields) > 0 && t.Fields[0].Name == "Present"
			s.Types[n] = t
			s.Order = append(s.Order, n)
		}
	}
	sort.Strings(s.Order)
	return s
}

// elemStruct resolves a field type to the ngapType struct it (eventually) holds:
// through pointers and slices.
func (s *schema) elemStruct(t types.Type) *schemaType {
	for i := 0; i < 4; i++ {
		switch x := t.(type) {
		case *types.Pointer:
			t = x.Elem()
			continue
		case *types.Slice:
			t = x.Elem()
			continue
		case *types.Named:
			if x.Obj().Pkg() == s.pkg {
				return s.Types[x.Obj().Name()]
			}
			return nil
		}
		break
	}
	return nil
}

func isAperNamed(t types.Type, name string) bool {
	if p, ok := t.(*types.Pointer); ok {
		t = p.Elem()
	}
	n, ok := t.(*types.Named)
	return ok && n.Obj().Pkg() != nil && n.Obj().Pkg().Path() == pAper && n.Obj().Name() == name
}

func nilable(t types.Type) bool {
	switch t.Underlying().(type) {
	case *types.Pointer, *types.Slice, *types.Map, *types.Interface, *types.Chan, *types.Signature:
		return true
	}
	return false
}

// reachableFrom walks the type graph from a root type name.
func (s *schema) reachableFrom(root string) (map[string]bool, [][]string) {
	seen := map[string]bool{}
	var cycles [][]string
	onStack := map[string]bool{}
	var stack []string
	var walk func(n string)
	walk = func(n string) {
		if onStack[n] {
			// record the cycle
			for i, x := range stack {
				if x == n {
					cycles = append(cycles, append(append([]string{}, stack[i:]...), n))
					break
				}
			}
			return
		}
		if seen[n] {
			return
		}
		seen[n] = true
		onStack[n] = true
		stack = append(stack, n)
		if t := s.Types[n]; t != nil {
			for _, f := range t.Fields {
				if e := s.elemStruct(f.Type); e != nil {
					walk(e.Name)
				}
			}
		}
		stack = stack[:len(stack)-1]
		onStack[n] = false
	}
	walk(root)
	return seen, cycles
}
