package core

import (
	"fmt"
	"math"
	"go/constant"
	"go/token"
	"go/types"
	"sort"
	"strings"

	"golang.org/x/tools/go/ssa"
)

// Abstract evaluation of straight-line / constant-bounded code over the bit-provenance
// domain (DESIGN §11.1). Nothing is executed: the SSA form of a function is interpreted
// over abstract values — an integer is a BitVec (each bit a constant, a GF(2)-linear
// combination of named source bits, or Mix), a pointer is the canonical path of the cell
// it designates, a slice a (base path, offset, length) triple, an array or struct value
// the tuple of its parts. Memory is a map from cell paths to abstract values; a cell never
// written holds the source named by its own path (parameters, globals) or zero (objects
// allocated by the code under analysis). A branch whose condition folds to a constant is
// followed on that side only — that is what unrolls `for i := 0; i < 15; i++`; a branch
// that does not fold forks the abstract state and records the canonical condition. Static
// callees inside the repository are entered (their stores land in the same memory), so a
// computation keeps its meaning when it is moved into a helper, spelled with copy(), as an
// unrolled sequence or as a loop. Calls the rule names (OnCall) and calls outside the
// repository stay opaque sources; what they may write through pointer arguments is havoc.
// Hard caps (states, steps) turn anything unbounded into an error the rule reports as
// UNDECIDED; there is no solver and no concrete input.

type AKind uint8

const (
	AUnknown AKind = iota
	AInt
	APtr
	ASlice
	AStr
	AAgg
	ATuple
	ANil
)

type AVal struct {
	K     AKind
	Bits  BitVec // AInt (bool: width 1)
	Path  string // APtr: the cell pointed to; ASlice/AStr: base object; AUnknown: a name
	Lo    int    // ASlice/AStr: index of element 0 inside the base (-1: unknown)
	LoBits BitVec // ASlice with Lo == -1: the index of element 0 as an abstract integer (a symbolic offset), when it has one
	Len   int    // ASlice/AStr: length (-1: unknown)
	LenName string // ASlice of unknown length: canonical name of the length, when it has one
	Sym   bool   // APtr: the path contains a symbolic index
	Const string // AStr with IsConst
	IsConst bool
	NonNil  bool // AUnknown/APtr: known not to be nil (errors.New, fmt.Errorf, &x)
	Fn      *ssa.Function // AUnknown: the function this value is (a function value)
	Elems []AVal // AAgg, ATuple
}

func (v AVal) String() string {
	switch v.K {
	case AInt:
		return v.Bits.Describe()
	case APtr:
		return "&" + v.Path
	case ASlice:
		return fmt.Sprintf("%s[%d:+%d]", v.Path, v.Lo, v.Len)
	case AStr:
		if v.IsConst {
			return fmt.Sprintf("%q", v.Const)
		}
		return fmt.Sprintf("str:%s[%d:+%d]", v.Path, v.Lo, v.Len)
	case AAgg, ATuple:
		var s []string
		for _, e := range v.Elems {
			s = append(s, e.String())
		}
		return "{" + strings.Join(s, ", ") + "}"
	case ANil:
		return "nil"
	}
	return "?" + v.Path
}

// ConstVal returns the value of a fully constant integer.
func (v AVal) ConstVal() (uint64, bool) {
	if v.K != AInt {
		return 0, false
	}
	return constOfBits(v.Bits)
}

func constOfBits(b BitVec) (uint64, bool) {
	if b == nil {
		return 0, false
	}
	var u uint64
	for i, x := range b {
		switch x.Kind {
		case BOne:
			u |= 1 << uint(i)
		case BZero:
		default:
			return 0, false
		}
	}
	return u, true
}

type AEvent struct {
	Callee string
	Fn     *ssa.Function
	Args   []AVal
	Mem    *AMem // memory at the call (shared snapshot; do not modify)
	Site   *ssa.Call
	Conds  []string             // branch conditions assumed up to the call
	Facts  map[string][2]uint64 // value ranges of sources established by those branches
	SFacts map[string][2]int64  // the same for signed sources
	Index  int                  // position of this event in the trace of its path
	Stop   bool                 // set by OnCall: end this path here (the outcome is marked Stopped)
	Ret    AVal                 // what the call was replaced by
	Nils   map[string]bool      // named values the path has compared with nil so far: true = found nil (read only)
	Record bool                 // set by OnCall together with handled=false: keep the call in the path's trace although it is entered / left to the default
}

type AMem struct {
	cells map[string]AVal
	havoc map[string]bool // prefixes whose unwritten cells are unknown
	fresh map[string]bool // objects allocated by the analysed code (zero-initialised)
	from  map[string]int  // base -> first index whose cells are unknown (copy of unknown length)
	// Seqs: base -> what follows the known prefix base[0..from): a sequence of segments, each the
	// elements Src[SrcLo..] of another object (all of them, their number is not known) or a run of
	// known elements whose position is not known (copy/append of unknown length)
	Seqs map[string][]ASeg
	ver   map[string]int // object -> number of times (part of) it was written or forgotten
}

// ASeg is one segment of a sequence of unknown total length.
type ASeg struct {
	Src   string // all elements of object Src from SrcLo on (as they were at version Ver) …
	SrcLo int
	Ver   int
	Cells []AVal // … or these elements
}

type ATail struct {
	From  int
	Src   string
	SrcLo int
	Ver   int // version of Src (see AMem.Version) when the elements were taken
}

// NewMem returns an empty abstract memory (for rules that pre-populate it).
func NewMem() *AMem { return newMem() }

func newMem() *AMem {
	return &AMem{cells: map[string]AVal{}, havoc: map[string]bool{}, fresh: map[string]bool{}, from: map[string]int{}, Seqs: map[string][]ASeg{}, ver: map[string]int{}}
}

func (m *AMem) clone() *AMem {
	n := newMem()
	for k, v := range m.cells {
		n.cells[k] = v
	}
	for k := range m.havoc {
		n.havoc[k] = true
	}
	for k := range m.fresh {
		n.fresh[k] = true
	}
	for k, v := range m.from {
		n.from[k] = v
	}
	for k, v := range m.Seqs {
		n.Seqs[k] = v
	}
	for k, v := range m.ver {
		n.ver[k] = v
	}
	return n
}

// Version counts the writes to (and havocs of) the object base so far: two reads of an
// object of unknown content see the same content iff the version is the same.
func (m *AMem) Version(base string) int { return m.ver[base] }

func (m *AMem) bump(path string) {
	if b, _, ok := splitIndex(path); ok {
		m.ver[b]++
		return
	}
	if i := strings.IndexByte(path, '['); i > 0 {
		m.ver[path[:i]]++
		return
	}
	m.ver[strings.TrimSuffix(path, "[")]++
}

// IsFresh reports that the object was allocated by the analysed code on this path.
func (m *AMem) IsFresh(path string) bool { return m.isFresh(path) }

// Untouched reports that the analysed code never wrote below base (nor handed it to a callee that may).
func (m *AMem) Untouched(base string) bool {
	if _, ok := m.Seqs[base]; ok {
		return false
	}
	for h := range m.havoc {
		if strings.HasPrefix(h, base) {
			return false
		}
	}
	return m.untouched(base)
}

// Tail: when the unknown part of base is exactly "all of one other object", that object.
func (m *AMem) Tail(base string) (ATail, bool) {
	sq := m.Seqs[base]
	if len(sq) != 1 || sq[0].Cells != nil {
		return ATail{}, false
	}
	return ATail{From: m.from[base], Src: sq[0].Src, SrcLo: sq[0].SrcLo, Ver: sq[0].Ver}, true
}

// Seq returns the known prefix length and the segments that follow it.
func (m *AMem) Seq(base string) (int, []ASeg) { return m.from[base], m.Seqs[base] }

// describe splits the content of a slice value into known leading elements and the segments
// of unknown length that follow.
func (m *AMem) describe(v AVal, et types.Type) (prefix []AVal, segs []ASeg, ok bool) {
	switch v.K {
	case ANil:
		return nil, nil, true
	case AStr:
		if v.IsConst {
			for i := 0; i < len(v.Const); i++ {
				prefix = append(prefix, AVal{K: AInt, Bits: constBits(uint64(v.Const[i]), 8)})
			}
			return prefix, nil, true
		}
		if v.Lo < 0 {
			return nil, nil, false
		}
		if v.Len >= 0 {
			for i := 0; i < v.Len; i++ {
				prefix = append(prefix, m.Load(fmt.Sprintf("%s[%d]", v.Path, v.Lo+i), et))
			}
			return prefix, nil, true
		}
		return nil, []ASeg{{Src: v.Path, SrcLo: v.Lo, Ver: m.ver[v.Path]}}, true
	case ASlice:
		if v.Lo < 0 {
			return nil, nil, false
		}
		if v.Len >= 0 {
			for i := 0; i < v.Len; i++ {
				prefix = append(prefix, m.Load(fmt.Sprintf("%s[%d]", v.Path, v.Lo+i), et))
			}
			return prefix, nil, true
		}
		if k, has := m.from[v.Path]; has {
			sq, hasS := m.Seqs[v.Path]
			if hasS && v.Lo > k {
				return nil, nil, false
			}
			for i := v.Lo; i < k; i++ {
				prefix = append(prefix, m.Load(fmt.Sprintf("%s[%d]", v.Path, i), et))
			}
			if hasS {
				return prefix, append([]ASeg(nil), sq...), true
			}
			// unknown from k on (rewritten by a callee): the current content of the object itself
			lo := v.Lo
			if lo < k {
				lo = k
			}
			return prefix, []ASeg{{Src: v.Path, SrcLo: lo, Ver: m.ver[v.Path]}}, true
		}
		if m.isFresh(v.Path) || m.havoc[v.Path+"["] {
			return nil, nil, false
		}
		return nil, []ASeg{{Src: v.Path, SrcLo: v.Lo, Ver: m.ver[v.Path]}}, true
	}
	return nil, nil, false
}

// tailOf describes "the elements of src from its start" as a tail beginning at index from.
func (m *AMem) tailOf(from int, src AVal) ATail {
	return ATail{From: from, Src: src.Path, SrcLo: src.Lo, Ver: m.ver[src.Path]}
}

// untouched reports that nothing below base was ever written or forgotten.
func (m *AMem) untouched(base string) bool {
	if m.isFresh(base) || m.havoc[base+"["] {
		return false
	}
	if _, ok := m.from[base]; ok {
		return false
	}
	for k := range m.cells {
		if strings.HasPrefix(k, base+"[") {
			return false
		}
	}
	return true
}

// splitIndex splits "base[12]" (a constant last index) into base and 12.
func splitIndex(path string) (string, int, bool) {
	if !strings.HasSuffix(path, "]") {
		return "", 0, false
	}
	i := strings.LastIndexByte(path, '[')
	if i < 0 {
		return "", 0, false
	}
	n := 0
	for _, ch := range path[i+1 : len(path)-1] {
		if ch < '0' || ch > '9' {
			return "", 0, false
		}
		n = n*10 + int(ch-'0')
	}
	return path[:i], n, true
}

// HavocFrom forgets the elements base[lo], base[lo+1], … (a copy of unknown length).
func (m *AMem) HavocFrom(base string, lo int) {
	m.ver[base]++
	for k := range m.cells {
		if b, i, ok := splitIndex(k); ok && b == base && i >= lo {
			delete(m.cells, k)
		} else if strings.HasPrefix(k, base+"[") && !ok {
			delete(m.cells, k)
		}
	}
	if cur, ok := m.from[base]; !ok || lo < cur {
		m.from[base] = lo
	}
}

func baseOf(path string) string {
	for i := 0; i < len(path); i++ {
		if path[i] == '[' || (path[i] == '.' && !strings.HasPrefix(path, "global:") && !strings.HasPrefix(path, "call:")) {
			return path[:i]
		}
	}
	if strings.HasPrefix(path, "global:") {
		// global:pkg/path.name.field[3]: the object is pkg/path.name
		rest := path[len("global:"):]
		sl := strings.LastIndexByte(rest, '/')
		dot := strings.IndexByte(rest[sl+1:], '.')
		if dot < 0 {
			return path
		}
		name := rest[sl+1+dot+1:]
		for i := 0; i < len(name); i++ {
			if name[i] == '.' || name[i] == '[' {
				return "global:" + rest[:sl+1+dot+1+i]
			}
		}
	}
	return path
}

func (m *AMem) isHavoc(path string) bool {
	if b, i, ok := splitIndex(path); ok {
		if lo, ok := m.from[b]; ok && i >= lo {
			return true
		}
	}
	for h := range m.havoc {
		if strings.HasPrefix(path, h) {
			return true
		}
	}
	return false
}

func (m *AMem) isFresh(path string) bool {
	for f := range m.fresh {
		if path == f || strings.HasPrefix(path, f+"[") || strings.HasPrefix(path, f+".") {
			return true
		}
	}
	return false
}

// Havoc forgets everything known about the cells whose path starts with prefix.
func (m *AMem) Havoc(prefix string) {
	m.bump(prefix)
	for k := range m.cells {
		if strings.HasPrefix(k, prefix) {
			delete(m.cells, k)
		}
	}
	m.havoc[prefix] = true
}

// Load reads the value of type t held at path.
func (m *AMem) Load(path string, t types.Type) AVal {
	if t == nil {
		return m.cells[path]
	}
	switch u := t.Underlying().(type) {
	case *types.Array:
		if u.Len() > 4096 {
			return AVal{K: AUnknown, Path: path}
		}
		out := AVal{K: AAgg}
		for i := int64(0); i < u.Len(); i++ {
			out.Elems = append(out.Elems, m.Load(fmt.Sprintf("%s[%d]", path, i), u.Elem()))
		}
		return out
	case *types.Struct:
		out := AVal{K: AAgg}
		for i := 0; i < u.NumFields(); i++ {
			out.Elems = append(out.Elems, m.Load(path+"."+u.Field(i).Name(), u.Field(i).Type()))
		}
		return out
	}
	if v, ok := m.cells[path]; ok {
		return v
	}
	if m.isHavoc(path) {
		return unknownOf(path, t, true)
	}
	if m.isFresh(path) {
		return zeroOf(t)
	}
	return unknownOf(path, t, false)
}

// Store writes v (of type t) at path.
func (m *AMem) Store(path string, v AVal, t types.Type) {
	if t == nil {
		m.cells[path] = v
		return
	}
	switch u := t.Underlying().(type) {
	case *types.Array:
		if v.K == AAgg && int64(len(v.Elems)) == u.Len() {
			for i, e := range v.Elems {
				m.Store(fmt.Sprintf("%s[%d]", path, i), e, u.Elem())
			}
			return
		}
		m.Havoc(path + "[")
		return
	case *types.Struct:
		if v.K == AAgg && len(v.Elems) == u.NumFields() {
			for i, e := range v.Elems {
				m.Store(path+"."+u.Field(i).Name(), e, u.Field(i).Type())
			}
			return
		}
		m.Havoc(path + ".")
		return
	}
	m.cells[path] = v
	if strings.HasSuffix(path, "]") {
		m.bump(path)
	}
}

// Cells lists the written cells below prefix, sorted.
func (m *AMem) Cells(prefix string) []string {
	var out []string
	for k := range m.cells {
		if strings.HasPrefix(k, prefix) {
			out = append(out, k)
		}
	}
	sort.Strings(out)
	return out
}

func zeroOf(t types.Type) AVal {
	switch u := t.Underlying().(type) {
	case *types.Basic:
		if w := widthOf(t); w > 0 {
			return AVal{K: AInt, Bits: constBits(0, w)}
		}
		if u.Info()&types.IsString != 0 {
			return AVal{K: AStr, IsConst: true, Len: 0}
		}
	case *types.Pointer, *types.Slice, *types.Map, *types.Chan, *types.Signature, *types.Interface:
		return AVal{K: ANil}
	case *types.Array:
		out := AVal{K: AAgg}
		if u.Len() <= 4096 {
			for i := int64(0); i < u.Len(); i++ {
				out.Elems = append(out.Elems, zeroOf(u.Elem()))
			}
		}
		return out
	case *types.Struct:
		out := AVal{K: AAgg}
		for i := 0; i < u.NumFields(); i++ {
			out.Elems = append(out.Elems, zeroOf(u.Field(i).Type()))
		}
		return out
	}
	return AVal{K: AUnknown, Path: "zero"}
}

// unknownOf is the abstract value of something named path about which nothing is known
// beyond its type; mix says its bits are not even a nameable source (havoc memory).
func unknownOf(path string, t types.Type, mix bool) AVal {
	switch u := t.Underlying().(type) {
	case *types.Basic:
		if w := widthOf(t); w > 0 {
			if mix {
				return AVal{K: AInt, Bits: mixVec(w)}
			}
			return AVal{K: AInt, Bits: regSource(path, w)}
		}
		if u.Info()&types.IsString != 0 {
			return AVal{K: AStr, Path: path, Lo: 0, Len: -1}
		}
	case *types.Pointer:
		return AVal{K: APtr, Path: path}
	case *types.Slice:
		return AVal{K: ASlice, Path: path, Lo: 0, Len: -1}
	case *types.Array:
		out := AVal{K: AAgg}
		if u.Len() <= 4096 {
			for i := int64(0); i < u.Len(); i++ {
				out.Elems = append(out.Elems, unknownOf(fmt.Sprintf("%s[%d]", path, i), u.Elem(), mix))
			}
		}
		return out
	case *types.Struct:
		out := AVal{K: AAgg}
		for i := 0; i < u.NumFields(); i++ {
			out.Elems = append(out.Elems, unknownOf(path+"."+u.Field(i).Name(), u.Field(i).Type(), mix))
		}
		return out
	case *types.Tuple:
		out := AVal{K: ATuple}
		for i := 0; i < u.Len(); i++ {
			out.Elems = append(out.Elems, unknownOf(fmt.Sprintf("%s#%d", path, i), u.At(i).Type(), mix))
		}
		return out
	}
	return AVal{K: AUnknown, Path: path}
}

// NameBits renders an integer for use inside a path (index expression, call argument).
func NameBits(b BitVec) string {
	if u, ok := constOfBits(b); ok {
		return fmt.Sprintf("%d", u)
	}
	// zero-extended contiguous copy of one source
	n := 0
	for n < len(b) && b[n].Kind == BSrc && b[n].More == "" && !b[n].Neg && b[n].Src == b[0].Src && b[n].Idx == b[0].Idx+n {
		n++
	}
	if n > 0 {
		rest := true
		for i := n; i < len(b); i++ {
			if b[i].Kind != BZero {
				rest = false
			}
		}
		if rest {
			if b[0].Idx == 0 && srcIsWidth(b[0].Src, n) {
				return b[0].Src
			}
			return fmt.Sprintf("%s<%d:%d>", b[0].Src, b[0].Idx+n-1, b[0].Idx)
		}
	}
	// bitwise XOR of whole sources (optionally complemented): every bit i is the XOR of bit i of the same sources
	if len(b) > 0 && b[0].Kind == BSrc {
		var srcs []string
		ok := true
		for _, t := range b[0].terms() {
			k := strings.LastIndexByte(t, '.')
			if t[k+1:] != "0" {
				ok = false
			}
			srcs = append(srcs, t[:k])
		}
		for i := 1; i < len(b) && ok; i++ {
			if b[i].Kind != BSrc || b[i].Neg != b[0].Neg {
				ok = false
				break
			}
			ts := b[i].terms()
			if len(ts) != len(srcs) {
				ok = false
				break
			}
			want := map[string]bool{}
			for _, s := range srcs {
				want[fmt.Sprintf("%s.%d", s, i)] = true
			}
			for _, t := range ts {
				if !want[t] {
					ok = false
				}
			}
		}
		if ok {
			sort.Strings(srcs)
			n := "(" + strings.Join(srcs, "⊕") + ")"
			if b[0].Neg {
				n = "~" + n
			}
			return n
		}
	}
	return "{" + strings.ReplaceAll(b.Describe(), "^", "⊕") + "}"
}

// srcWidths records the width of every source an Exec created (so that a full-width copy
// can be named by the bare source).
var srcWidths = map[string]int{}

func srcIsWidth(src string, n int) bool { w, ok := srcWidths[src]; return ok && w == n }

func regSource(path string, w int) BitVec {
	srcWidths[path] = w
	return SourceVec(path, w)
}

// ---------------------------------------------------------------------------------------

type aframe struct {
	fn    *ssa.Function
	env   map[ssa.Value]AVal
	block *ssa.BasicBlock
	pred  *ssa.BasicBlock
	pc    int
	call  *ssa.Call // call instruction in the caller frame (nil for the entry frame)
	names []string  // how the parameters are spelled in condition labels
	// phiSrc: the operand each phi took when it was last evaluated on this path (copy on write)
	phiSrc map[*ssa.Phi]ssa.Value
	// backs: how often each loop header was reached over a back edge in this activation (copy on write)
	backs map[*ssa.BasicBlock]int
	// symbolic loop iteration (Exec.SymLoop): the header whose phis were replaced by names, what
	// replaced them, their values on entry, and where the iteration began in the path's record
	free      map[*ssa.FreeVar]AVal // captured values of a closure entered through its value
	symHeader *ssa.BasicBlock
	symPhi    map[*ssa.Phi]AVal
	symInit   map[string]AVal
	symTrace  int
	symConds  int
}

type astate struct {
	rels   []ARel
	frames []*aframe
	mem    *AMem
	conds  []string
	trace  []AEvent
	steps  int
	serial int
	facts  map[string][2]uint64
	sfacts map[string][2]int64 // ranges of signed sources
	excl   map[string][]int64  // values a signed source is known not to have (copy on write)
	// a sub-run of if-conversion ends when the frame at depth stopDepth reaches stopAt
	stopAt    *ssa.BasicBlock
	stopDepth int
	nils      map[string]bool // named values compared with nil on this path: true = was nil
	stopRet   bool   // join == function exit: the sub-run ends at the return of the frame at stopDepth
	retVals   []AVal // the values of that return
}

func (s *astate) clone() *astate {
	n := &astate{mem: s.mem.clone(), steps: s.steps, serial: s.serial, facts: map[string][2]uint64{}, sfacts: map[string][2]int64{}, excl: s.excl, stopAt: s.stopAt, stopDepth: s.stopDepth, stopRet: s.stopRet, nils: s.nils}
	for k, v := range s.facts {
		n.facts[k] = v
	}
	for k, v := range s.sfacts {
		n.sfacts[k] = v
	}
	n.conds = append([]string(nil), s.conds...)
	n.rels = append([]ARel(nil), s.rels...)
	n.trace = append([]AEvent(nil), s.trace...)
	for _, f := range s.frames {
		nf := *f
		nf.env = make(map[ssa.Value]AVal, len(f.env))
		for k, v := range f.env {
			nf.env[k] = v
		}
		n.frames = append(n.frames, &nf)
	}
	return n
}

// ALoopIter is one way through the body of a symbolically iterated loop, back to its header.
type ALoopIter struct {
	Fn     *ssa.Function
	Header *ssa.BasicBlock
	Init   map[string]AVal // loop variable -> value on entry to the loop (first time)
	Sym    map[string]AVal // loop variable -> the name it has during the iteration
	Next   map[string]AVal // loop variable -> value carried into the next iteration
	Conds  []string        // conditions assumed during the iteration
	Facts  map[string][2]uint64
	SFacts map[string][2]int64
	Nils   map[string]bool
	Trace  []AEvent // calls made during the iteration
	Mem    *AMem
}

// PhiVar names a loop variable: the source-level name when the phi has one.
func PhiVar(p *ssa.Phi) string {
	if p.Comment != "" {
		return p.Comment
	}
	return p.Name()
}

// AOutcome is one way through the analysed function.
type AOutcome struct {
	Conds    []string // canonical conditions assumed on the way ("cond=T" / "cond=F")
	Ret      []AVal
	Mem      *AMem
	Trace    []AEvent
	Panicked bool
	Stopped  bool
	Facts    map[string][2]uint64
	SFacts   map[string][2]int64 // ranges of signed sources
	Excl     map[string][]int64  // single values a signed source is known not to have
	Nils     map[string]bool // named values found nil (true) / non-nil (false) by the branches of this path
	Rels     []ARel          // comparisons of two non-constant values the path branched on
}

// ARel is a branch on a comparison of two values neither of which is a constant: L Op R was found
// Taken (true/false). L and R are the values' names in the bit-provenance vocabulary (NameBits),
// so the same comparison reads the same through locals and helpers.
type ARel struct {
	L, R   string
	Op     token.Token
	Signed bool
	Taken  bool
}

type Exec struct {
	// Enter decides whether a static callee with a body is entered (default: repository
	// packages — import paths without a dot in the first element that are not std).
	Enter func(fn *ssa.Function) bool
	// OnCall, when it returns handled, replaces the call by ret (the rule's summary) and the
	// call is recorded in the trace.
	OnCall func(ev *AEvent, st *AMem) (ret AVal, handled bool)
	// Observe sees every call (callee name, abstract arguments, memory before the call), whether
	// it is then entered, summarised or left opaque.
	Observe func(ev *AEvent)
	// OnStore sees every store of the analysed code (the cell path written).
	OnStore func(path string)
	// ReadOnly names opaque callees that do not write through their arguments.
	ReadOnly  func(name string) bool
	MaxStates int
	MaxSteps  int
	// NoInitTables: do not read package-level variables as what their initialiser left in them
	NoInitTables bool
	// Bounds: a constant index outside a slice of known length or an array ends the path in a panic
	// (off by default: lengths the rules leave unknown are not checked either way)
	Bounds bool
	MaxDepth  int
	// MaxRecursion is how many activations of one function may be on the abstract stack
	// beyond the first (0: a recursive call stays opaque).
	MaxRecursion int
	// ForkLen decides, by the name of the argument, whether a math/bits.Len* call is split into
	// one state per possible result (default: when there are at most 13 results).
	ForkLen func(argName string) bool
	// Merge turns a two-sided branch on an unknown single-bit condition whose sides rejoin
	// without calls the rule watches into data flow: every value that differs at the join
	// becomes cond ? a : b (if-conversion). Without it such a branch forks the state.
	Merge  bool
	ipdoms map[*ssa.Function]map[*ssa.BasicBlock]*ssa.BasicBlock
	// LoopBound > 0: a loop whose exit test does not fold is followed for at most LoopBound
	// iterations after the first; the state that would go round once more is dropped and counted
	// in Cut (an under-approximation the rule has to justify: later iterations repeat the last).
	LoopBound int
	Cut       int
	// SymLoop selects loops (by function and header block) to be analysed by ONE iteration in
	// which the loop-carried values (the header's phis) are fresh names φ<var>: every way through
	// the body that returns to the header is recorded in Iters with what it carries into the next
	// iteration, and is not followed further; ways out of the loop continue to the function's end
	// as ordinary outcomes. What is read off Iters therefore holds for every iteration, provided
	// the body keeps its loop-carried state in those values: a store inside the loop to memory
	// that outlives it is reported in Unsound.
	SymLoop func(fn *ssa.Function, header *ssa.BasicBlock) bool
	Iters   []ALoopIter
	// Unsound collects the places where the abstraction had to ignore an effect (store through
	// an unknown pointer, defer, go, …); a rule that needs exactness refuses when non-empty.
	Unsound []string
	// Assumed lists preconditions the evaluation took for granted (a caller's buffer is long enough).
	Assumed []string
}

func NewExec() *Exec {
	return &Exec{MaxStates: 256, MaxSteps: 400000, MaxDepth: 8}
}

var stdFirst = map[string]bool{"archive": true, "bufio": true, "bytes": true, "cmp": true, "compress": true, "container": true, "context": true, "crypto": true, "database": true, "debug": true, "embed": true, "encoding": true, "errors": true, "expvar": true, "flag": true, "fmt": true, "go": true, "hash": true, "html": true, "image": true, "index": true, "internal": true, "io": true, "iter": true, "log": true, "maps": true, "math": true, "mime": true, "net": true, "os": true, "path": true, "plugin": true, "reflect": true, "regexp": true, "runtime": true, "slices": true, "sort": true, "strconv": true, "strings": true, "structs": true, "sync": true, "syscall": true, "testing": true, "text": true, "time": true, "unicode": true, "unique": true, "unsafe": true, "vendor": true}

// RepoFunc reports whether fn belongs to the repository under analysis (not std, not a third-party module).
func RepoFunc(fn *ssa.Function) bool { return repoFunc(fn) }

func repoFunc(fn *ssa.Function) bool {
	if fn == nil {
		return false
	}
	if fn.Pkg == nil {
		// thunks, wrappers and bound-method closures only forward to the method they stand for
		return fn.Synthetic != "" && len(fn.Blocks) > 0 && (strings.Contains(fn.Synthetic, "thunk") || strings.Contains(fn.Synthetic, "wrapper") || strings.Contains(fn.Synthetic, "bound"))
	}
	return repoPkgPath(fn.Pkg.Pkg.Path())
}

func repoPkgPath(p string) bool {
	first := p
	if i := strings.IndexByte(p, '/'); i >= 0 {
		first = p[:i]
	}
	return !strings.Contains(first, ".") && !stdFirst[first]
}

var defaultReadOnly = []string{"fmt.", "encoding/hex.EncodeToString", "encoding/hex.DecodeString", "bytes.Equal", "bytes.Compare", "strings.", "strconv.", "log.", "errors.", "reflect.", "math/bits.", "os.Exit", "regexp.", "time."}

// OpaqueRet is the value an uninterpreted call has: a source named after the call and its arguments.
func OpaqueRet(ev *AEvent) AVal {
	var as []string
	for _, a := range ev.Args {
		as = append(as, argName(a))
	}
	r := unknownOf("call:"+ev.Callee+"("+strings.Join(as, ",")+")", ev.Site.Type(), false)
	registerSources(r)
	return r
}

// ArgBits is an integer input of width w of which only the low lim bits may be set (a
// precondition the rule establishes elsewhere).
func ArgBits(name string, w, lim int) AVal {
	srcWidths[name] = lim
	out := make(BitVec, w)
	for i := 0; i < lim && i < w; i++ {
		out[i] = Bit{Kind: BSrc, Src: name, Idx: i}
	}
	return AVal{K: AInt, Bits: out}
}

// XorVec is the bitwise XOR of two vectors of the same width.
func XorVec(a, b BitVec) BitVec {
	if len(a) != len(b) {
		return nil
	}
	out := make(BitVec, len(a))
	for i := range a {
		out[i] = xorBit(a[i], b[i])
	}
	return out
}

// SameVec reports whether two vectors are identical bit for bit (Mix is never identical).
func SameVec(a, b BitVec) bool {
	if len(a) != len(b) || a == nil {
		return false
	}
	for i := range a {
		if a[i] != b[i] || a[i].Kind == BMix {
			return false
		}
	}
	return true
}

// NonNilArg marks an argument (slice, pointer) as known not to be nil.
func NonNilArg(v AVal) AVal { v.NonNil = true; return v }

// NilArg is the nil slice / pointer.
func NilArg() AVal { return AVal{K: ANil} }

// ConstBits is the w-bit constant val.
func ConstBits(val uint64, w int) BitVec { return constBits(val, w) }

// ArgName renders an abstract value the way it appears inside call names and labels.
func ArgName(v AVal) string { return argName(v) }

// DefaultArgs builds the abstract arguments of fn: parameter i is the source "p<i>".
func DefaultArgs(fn *ssa.Function) []AVal {
	var out []AVal
	for i, p := range fn.Params {
		out = append(out, ArgNamed(fmt.Sprintf("p%d", i), p.Type()))
	}
	return out
}

// ArgNamed is the abstract value of an unknown input of type t called name.
func ArgNamed(name string, t types.Type) AVal {
	v := unknownOf(name, t, false)
	registerSources(v)
	return v
}

func registerSources(v AVal) {
	switch v.K {
	case AInt:
		if len(v.Bits) > 0 && v.Bits[0].Kind == BSrc {
			srcWidths[v.Bits[0].Src] = len(v.Bits)
		}
	case AAgg, ATuple:
		for _, e := range v.Elems {
			registerSources(e)
		}
	}
}

// Run interprets fn abstractly from the given arguments and memory (nil: empty).
func (ex *Exec) Run(fn *ssa.Function, args []AVal, mem *AMem) ([]AOutcome, error) {
	if fn == nil || len(fn.Blocks) == 0 {
		return nil, fmt.Errorf("no body")
	}
	if mem == nil {
		mem = newMem()
	} else {
		mem = mem.clone()
	}
	st := &astate{mem: mem, facts: map[string][2]uint64{}, sfacts: map[string][2]int64{}}
	fr := &aframe{fn: fn, env: map[ssa.Value]AVal{}, block: fn.Blocks[0]}
	for i, p := range fn.Params {
		if i < len(args) {
			fr.env[p] = args[i]
		} else {
			fr.env[p] = ArgNamed(fmt.Sprintf("p%d", i), p.Type())
		}
	}
	st.frames = []*aframe{fr}
	work := []*astate{st}
	var outs []AOutcome
	total := 0
	for len(work) > 0 {
		s := work[len(work)-1]
		work = work[:len(work)-1]
		total++
		if total > ex.MaxStates {
			return outs, fmt.Errorf("more than %d abstract states (a branch or loop bound does not fold)", ex.MaxStates)
		}
		forks, out, err := ex.run(s)
		if err != nil {
			return outs, err
		}
		if out != nil {
			outs = append(outs, *out)
		}
		work = append(work, forks...)
	}
	return outs, nil
}

// run advances s until it finishes (outcome) or forks.
func (ex *Exec) run(s *astate) ([]*astate, *AOutcome, error) {
	for {
		fr := s.frames[len(s.frames)-1]
		if s.stopAt != nil && len(s.frames) == s.stopDepth && fr.block == s.stopAt && fr.pc == 0 {
			return nil, nil, errArrived
		}
		if fr.pc >= len(fr.block.Instrs) {
			return nil, nil, fmt.Errorf("%s: fell off block %d", fr.fn.Name(), fr.block.Index)
		}
		in := fr.block.Instrs[fr.pc]
		s.steps++
		if s.steps > ex.MaxSteps {
			return nil, nil, fmt.Errorf("more than %d abstract steps on one path (a loop bound does not fold)", ex.MaxSteps)
		}
		switch x := in.(type) {
		case *ssa.If:
			cv := ex.val(s, fr, x.Cond)
			cond := x.Cond
			for i := 0; i < 4; i++ { // a condition that came through phis is the comparison it stands for on this path
				ph, isPhi := cond.(*ssa.Phi)
				if !isPhi || fr.phiSrc[ph] == nil {
					break
				}
				cond = fr.phiSrc[ph]
			}
			if _, ok := cv.ConstVal(); !ok {
				// a comparison computed earlier may be decided by what the path has learnt since
				if bo, isB := cond.(*ssa.BinOp); isB {
					cv = ex.binop(s, fr, bo)
				} else if u, isU := cond.(*ssa.UnOp); isU && u.Op == token.NOT {
					if bo, isB := u.X.(*ssa.BinOp); isB {
						if k, ok := ex.binop(s, fr, bo).ConstVal(); ok {
							cv = boolVal(k == 0)
						}
					}
				}
			}
			// a boolean the path has already branched on (directly or negated)
			if cv.K == AInt && len(cv.Bits) == 1 && cv.Bits[0].Kind == BSrc && cv.Bits[0].More == "" {
				if f, has := s.facts[cv.Bits[0].Src]; has && f[0] == f[1] && f[0] <= 1 {
					v := f[0]
					if cv.Bits[0].Neg {
						v ^= 1
					}
					cv = boolVal(v == 1)
				}
			}
			if k, ok := cv.ConstVal(); ok {
				if hb := x.Block(); ex.LoopBound > 0 && fr.backs[hb] > 0 {
					// the exit test of this loop folds: its iterations are not ones LoopBound rations
					nb := make(map[*ssa.BasicBlock]int, len(fr.backs))
					for kk, v := range fr.backs {
						nb[kk] = v
					}
					nb[hb]--
					fr.backs = nb
				}
				ex.jump(fr, k == 0)
				if ex.SymLoop != nil && ex.arrive(s, fr) {
					return []*astate{}, nil, nil
				}
				continue // (a loop whose test folds is unrolled whatever LoopBound says)
			}
			if ex.Merge && cv.K == AInt && len(cv.Bits) == 1 && cv.Bits[0].Kind == BSrc {
				if ex.tryMerge(s, fr, cv.Bits[0]) {
					continue
				}
			}
			if s.stopAt != nil || s.stopRet {
				return nil, nil, fmt.Errorf("fork inside an if-converted region")
			}
			label := ex.label(s, fr, x.Cond)
			t, f := s, s.clone()
			t.conds = append(t.conds, label+"=T")
			f.conds = append(f.conds, label+"=F")
			{
				rc, neg := cond, false
				if u, isU := rc.(*ssa.UnOp); isU && u.Op == token.NOT {
					rc, neg = u.X, true
				}
				if bo, isB := rc.(*ssa.BinOp); isB {
					switch bo.Op {
					case token.LSS, token.LEQ, token.GTR, token.GEQ, token.EQL, token.NEQ:
						l, r := ex.val(s, fr, bo.X), ex.val(s, fr, bo.Y)
						_, lk := l.ConstVal()
						_, rk := r.ConstVal()
						if l.K == AInt && r.K == AInt && !lk && !rk {
							rel := ARel{L: NameBits(l.Bits), R: NameBits(r.Bits), Op: bo.Op, Signed: isSigned(bo.X.Type())}
							rel.Taken = !neg
							t.rels = append(t.rels, rel)
							rel.Taken = neg
							f.rels = append(f.rels, rel)
						}
					}
				}
			}
			ex.refine(t, f, fr, cond)
			ex.jump(t.frames[len(t.frames)-1], false)
			ex.jump(f.frames[len(f.frames)-1], true)
			forks := []*astate{}
			if !ex.arrive(f, f.frames[len(f.frames)-1]) {
				forks = append(forks, f)
			}
			if !ex.arrive(t, t.frames[len(t.frames)-1]) {
				forks = append(forks, t)
			}
			return forks, nil, nil
		case *ssa.Jump:
			fr.pred, fr.block, fr.pc = fr.block, fr.block.Succs[0], 0
			if ex.arrive(s, fr) {
				return []*astate{}, nil, nil
			}
			continue
		case *ssa.Panic:
			return nil, &AOutcome{Conds: s.conds, Mem: s.mem, Trace: s.trace, Panicked: true, Facts: s.facts, SFacts: s.sfacts, Excl: s.excl, Nils: s.nils, Rels: s.rels}, nil
		case *ssa.Return:
			var rets []AVal
			if s.retVals != nil {
				rets, s.retVals = s.retVals, nil // merged by if-conversion
			} else {
				for _, r := range x.Results {
					rv := ex.val(s, fr, r)
					if len(s.frames) > 1 && rv.K == AInt && len(rv.Bits) == 1 && rv.Bits[0].Kind == BMix {
						rv = ex.nameComparison(s, fr, r, rv)
					}
					rets = append(rets, rv)
				}
				if s.stopRet && len(s.frames) == s.stopDepth {
					s.retVals = rets
					if s.retVals == nil {
						s.retVals = []AVal{}
					}
					return nil, nil, errArrived
				}
			}
			if len(s.frames) == 1 {
				return nil, &AOutcome{Conds: s.conds, Ret: rets, Mem: s.mem, Trace: s.trace, Facts: s.facts, SFacts: s.sfacts, Excl: s.excl, Nils: s.nils, Rels: s.rels}, nil
			}
			s.frames = s.frames[:len(s.frames)-1]
			caller := s.frames[len(s.frames)-1]
			var rv AVal
			switch len(rets) {
			case 0:
				rv = AVal{K: ATuple}
			case 1:
				rv = rets[0]
			default:
				rv = AVal{K: ATuple, Elems: rets}
			}
			caller.env[fr.call] = rv
			caller.pc++
			continue
		case *ssa.IndexAddr:
			if s.stopAt == nil && !s.stopRet {
				if fs := ex.forkTableIndex(s, fr, x); len(fs) > 0 {
					return fs, nil, nil
				}
			}
			if ex.Bounds {
				// a constant index outside a slice of known length (or an array) panics
				if k, isK := ex.val(s, fr, x.Index).ConstVal(); isK {
					n := -1
					switch b := ex.val(s, fr, x.X); {
					case b.K == ASlice && b.Len >= 0:
						n = b.Len
					case b.K == APtr:
						if pt, ok := x.X.Type().Underlying().(*types.Pointer); ok {
							if at, ok := pt.Elem().Underlying().(*types.Array); ok {
								n = int(at.Len())
							}
						}
					}
					ki := int64(k)
					if w := widthOf(x.Index.Type()); w > 0 && w < 64 && isSigned(x.Index.Type()) {
						ki = signExt(k, w)
					}
					if n >= 0 && (ki < 0 || ki >= int64(n)) {
						return nil, &AOutcome{Conds: append(s.conds, fmt.Sprintf("index %d out of range [0,%d) in %s", ki, n, fr.fn.Name())), Mem: s.mem, Trace: s.trace, Panicked: true, Facts: s.facts, SFacts: s.sfacts, Excl: s.excl, Nils: s.nils, Rels: s.rels}, nil
					}
				}
			}
			fr.env[x] = ex.eval(s, fr, x)
		case *ssa.Slice:
			if ex.Bounds {
				// constant slice bounds outside the operand: negative, low above high, or above what the
				// operand has (its length when no high bound is given; an array's size)
				cv := func(v ssa.Value) (int64, bool) {
					if v == nil {
						return 0, false
					}
					k, ok := ex.val(s, fr, v).ConstVal()
					if !ok {
						return 0, false
					}
					if w := widthOf(v.Type()); w > 0 && w < 64 && isSigned(v.Type()) {
						return signExt(k, w), true
					}
					return int64(k), true
				}
				lo, loK := cv(x.Low)
				hi, hiK := cv(x.High)
				n, capN := int64(-1), int64(-1)
				switch b := ex.val(s, fr, x.X); {
				case b.K == ASlice && b.Len >= 0:
					n = int64(b.Len)
				case b.K == APtr:
					if pt, ok := x.X.Type().Underlying().(*types.Pointer); ok {
						if at, ok := pt.Elem().Underlying().(*types.Array); ok {
							n, capN = at.Len(), at.Len()
						}
					}
				}
				bad := ""
				switch {
				case loK && lo < 0:
					bad = fmt.Sprintf("slice bounds out of range [%d:]", lo)
				case hiK && hi < 0:
					bad = fmt.Sprintf("slice bounds out of range [:%d]", hi)
				case loK && hiK && lo > hi:
					bad = fmt.Sprintf("slice bounds out of range [%d:%d]", lo, hi)
				case loK && !hiK && x.High == nil && n >= 0 && lo > n:
					bad = fmt.Sprintf("slice bounds out of range [%d:%d]", lo, n)
				case hiK && capN >= 0 && hi > capN:
					bad = fmt.Sprintf("slice bounds out of range [:%d] with capacity %d", hi, capN)
				}
				if bad != "" {
					return nil, &AOutcome{Conds: append(s.conds, bad+" in "+fr.fn.Name()), Mem: s.mem, Trace: s.trace, Panicked: true, Facts: s.facts, SFacts: s.sfacts, Excl: s.excl, Nils: s.nils, Rels: s.rels}, nil
				}
			}
			fr.env[x] = ex.eval(s, fr, x)
		case *ssa.Lookup:
			if s.stopAt == nil && !s.stopRet {
				if fs := ex.forkLookup(s, fr, x); fs != nil {
					if len(fs) == 1 && fs[0] == s {
						continue
					}
					return fs, nil, nil
				}
			}
			fr.env[x] = ex.eval(s, fr, x)
		case *ssa.Call:
			if s.stopAt == nil && !s.stopRet {
				if fs := ex.forkIntrinsic(s, fr, x); fs != nil {
					return fs, nil, nil
				}
			}
			entered, err := ex.call(s, fr, x)
			if err != nil {
				return nil, nil, err
			}
			if n := len(s.trace); n > 0 && s.trace[n-1].Stop && s.trace[n-1].Site == x {
				return nil, &AOutcome{Conds: s.conds, Mem: s.mem, Trace: s.trace, Stopped: true, Facts: s.facts, SFacts: s.sfacts, Excl: s.excl, Nils: s.nils, Rels: s.rels}, nil
			}
			if entered {
				continue
			}
			fr.pc++
			continue
		case *ssa.Store:
			p := ex.val(s, fr, x.Addr)
			v := ex.val(s, fr, x.Val)
			if p.K == APtr {
				if p.Sym {
					s.mem.Havoc(p.Path[:strings.LastIndexByte(p.Path, '[')+1])
				} else {
					if ex.OnStore != nil {
						ex.OnStore(p.Path)
					}
					s.mem.Store(p.Path, v, x.Val.Type())
				}
			} else {
				ex.Unsound = append(ex.Unsound, fmt.Sprintf("%s: store through an unknown pointer", fr.fn.Name()))
			}
		case *ssa.MapUpdate, *ssa.Send, *ssa.DebugRef:
		case *ssa.Go, *ssa.Defer, *ssa.RunDefers:
			if _, isRD := in.(*ssa.RunDefers); !isRD {
				ex.Unsound = append(ex.Unsound, fmt.Sprintf("%s: go/defer ignored", fr.fn.Name()))
			}
		default:
			if v, ok := in.(ssa.Value); ok {
				fr.env[v] = ex.eval(s, fr, v)
			}
		}
		fr.pc++
	}
}

// plainSource recognises the zero-extension of one whole source, or of a contiguous field of one
// (x & 63, x >> 4 of an 8-bit x, …): the field is then a source of its own, named "src<hi:lo>".
func plainSource(b BitVec) (string, bool) {
	n := 0
	for n < len(b) && b[n].Kind == BSrc && b[n].More == "" && !b[n].Neg && b[n].Src == b[0].Src && b[n].Idx == b[0].Idx+n {
		n++
	}
	if n == 0 {
		return "", false
	}
	for i := n; i < len(b); i++ {
		if b[i].Kind != BZero {
			return "", false
		}
	}
	if w, ok := srcWidths[b[0].Src]; ok && w == n && b[0].Idx == 0 {
		return b[0].Src, true
	}
	if strings.Contains(b[0].Src, "<") && strings.HasSuffix(b[0].Src, ">") {
		return "", false // no fields of fields
	}
	name := fmt.Sprintf("%s<%d:%d>", b[0].Src, b[0].Idx+n-1, b[0].Idx)
	srcWidths[name] = n
	return name, true
}

// refine records what a comparison of a whole source with a constant tells about the source
// on the two sides of the branch.
func (ex *Exec) refine(t, f *astate, fr *aframe, cond ssa.Value) {
	if u, isU := cond.(*ssa.UnOp); isU && u.Op == token.NOT {
		ex.refine(f, t, fr, u.X)
		return
	}
	bo, ok := cond.(*ssa.BinOp)
	if !ok {
		// a comparison made in a callee and returned as a boolean
		if cv := ex.val(t, t.frames[len(t.frames)-1], cond); cv.K == AInt && len(cv.Bits) == 1 && cv.Bits[0].Kind == BSrc && cv.Bits[0].More == "" {
			if ci, isCmp := cmpRegistry[cv.Bits[0].Src]; isCmp {
				if cv.Bits[0].Neg {
					ex.refineCmp(f, t, ci.l, ci.r, ci.op, ci.signed)
				} else {
					ex.refineCmp(t, f, ci.l, ci.r, ci.op, ci.signed)
				}
			}
		}
		// a boolean that is a source of its own (the result of a summarised predicate)
		if cv := ex.val(t, t.frames[len(t.frames)-1], cond); cv.K == AInt && len(cv.Bits) == 1 && cv.Bits[0].Kind == BSrc && cv.Bits[0].More == "" && srcWidths[cv.Bits[0].Src] == 1 {
			tv, fv := uint64(1), uint64(0)
			if cv.Bits[0].Neg {
				tv, fv = 0, 1
			}
			t.facts[cv.Bits[0].Src] = [2]uint64{tv, tv}
			f.facts[cv.Bits[0].Src] = [2]uint64{fv, fv}
		}
		return
	}
	tf, ff := t.frames[len(t.frames)-1], f.frames[len(f.frames)-1]
	l, r := ex.val(t, tf, bo.X), ex.val(t, tf, bo.Y)
	_ = ff
	if (bo.Op == token.EQL || bo.Op == token.NEQ) && (l.K == ANil) != (r.K == ANil) {
		// x == nil / x != nil for something with a name
		x := l
		if l.K == ANil {
			x = r
		}
		if x.Path != "" {
			t.nils, f.nils = cloneNils(t.nils), cloneNils(f.nils)
			t.nils[x.Path] = bo.Op == token.EQL
			f.nils[x.Path] = bo.Op != token.EQL
		}
		return
	}
	if (bo.Op == token.EQL || bo.Op == token.NEQ) && l.K == AStr && r.K == AStr && (l.IsConst != r.IsConst) {
		// s == "" / s != "" for a named string
		k, x := l, r
		if r.IsConst {
			k, x = r, l
		}
		if k.Const == "" && x.Path != "" {
			t.nils, f.nils = cloneNils(t.nils), cloneNils(f.nils)
			t.nils["empty:"+x.Path] = bo.Op == token.EQL
			f.nils["empty:"+x.Path] = bo.Op != token.EQL
		}
		return
	}
	if l.K != AInt || r.K != AInt {
		return
	}
	ex.refineCmp(t, f, l, r, bo.Op, isSigned(bo.X.Type()))
}

// cmpInfo: what a named comparison bit ("cmp:(L op R)") stands for - a comparison computed in a callee
// and handed back as a boolean; branching on the bit refines the path like branching on the comparison.
type cmpInfo struct {
	l, r   AVal
	op     token.Token
	signed bool
}

var cmpRegistry = map[string]cmpInfo{}

// refineCmp records on t (comparison true) and f (false) what l op r says about the sources.
func (ex *Exec) refineCmp(t, f *astate, l, r AVal, bop token.Token, signedType bool) {
	op := bop
	// (x & mask) == 0 / != 0 with a contiguous mask: the field src<hi:lo> is 0 / at least 1
	if op == token.EQL || op == token.NEQ {
		a, b := l.Bits, r.Bits
		if k0, ok := constOfBits(a); ok && k0 == 0 {
			a, b = b, a
		}
		if k0, ok := constOfBits(b); ok && k0 == 0 {
			lo := 0
			for lo < len(a) && a[lo].Kind == BZero {
				lo++
			}
			if lo > 0 && lo < len(a) && a[lo].Kind == BSrc && a[lo].More == "" && !a[lo].Neg {
				n := 0
				for lo+n < len(a) && a[lo+n].Kind == BSrc && a[lo+n].More == "" && !a[lo+n].Neg && a[lo+n].Src == a[lo].Src && a[lo+n].Idx == a[lo].Idx+n {
					n++
				}
				rest := true
				for i := lo + n; i < len(a); i++ {
					if a[i].Kind != BZero {
						rest = false
					}
				}
				if rest && n > 0 && n < 63 {
					if name, okN := plainSource(append(append(BitVec(nil), a[lo:lo+n]...), Bit{Kind: BZero})); okN {
						zero, nonzero := t, f
						if op == token.NEQ {
							zero, nonzero = f, t
						}
						zero.setRange(name, false, 0, 0)
						nonzero.setRange(name, false, 1, int64(1)<<uint(n)-1)
						return
					}
				}
			}
		}
	}
	// (src >> n) == 0  /  != 0: the bits of src from n up are zero on the "== 0" side
	if op == token.EQL || op == token.NEQ {
		a, b := l.Bits, r.Bits
		if k0, ok := constOfBits(a); ok && k0 == 0 {
			a, b = b, a
		}
		if k0, ok := constOfBits(b); ok && k0 == 0 && len(a) > 0 && a[0].Kind == BSrc && a[0].More == "" && !a[0].Neg {
			src, n := a[0].Src, a[0].Idx
			w := srcWidths[src]
			shape := w > 0 && n > 0 && n < w
			for j := 0; j < len(a) && shape; j++ {
				if j+n < w {
					if a[j].Kind != BSrc || a[j].More != "" || a[j].Neg || a[j].Src != src || a[j].Idx != j+n {
						shape = false
					}
				} else if a[j].Kind != BZero {
					shape = false
				}
			}
			if shape && n <= 63 {
				zero, nonzero := t, f
				if op == token.NEQ {
					zero, nonzero = f, t
				}
				whole := SourceVec(src, w)
				zero.narrow(whole, false, 0, int64(uint64(1)<<uint(n)-1))
				if n < 63 {
					nonzero.narrow(whole, false, int64(1)<<uint(n), math.MaxInt64)
				}
				return
			}
		}
	}
	// a value assembled from several sources (a big-endian word of two octets) compared with a
	// constant: on the equal side every part has its share of the constant
	if op == token.EQL || op == token.NEQ {
		val, kb := l.Bits, r.Bits
		if _, isK := constOfBits(val); isK {
			val, kb = kb, val
		}
		if kc, isK := constOfBits(kb); isK {
			if _, plain := plainSource(val); !plain && !hasMixBits(val) {
				eq := t
				if op == token.NEQ {
					eq = f
				}
				type part struct {
					name string
					v    uint64
				}
				var parts []part
				okAll := true
				for i := 0; i < len(val) && okAll; {
					x := val[i]
					switch x.Kind {
					case BZero, BOne:
						i++
					case BSrc:
						if x.More != "" || x.Neg {
							okAll = false
							break
						}
						n := 0
						for i+n < len(val) && val[i+n].Kind == BSrc && val[i+n].More == "" && !val[i+n].Neg && val[i+n].Src == x.Src && val[i+n].Idx == x.Idx+n {
							n++
						}
						name, okN := plainSource(append(append(BitVec(nil), val[i:i+n]...), Bit{Kind: BZero}))
						if !okN || n >= 63 {
							okAll = false
							break
						}
						parts = append(parts, part{name, (kc >> uint(i)) & (1<<uint(n) - 1)})
						i += n
					default:
						okAll = false
					}
				}
				if okAll && len(parts) >= 1 {
					for _, pt := range parts {
						eq.setRange(pt.name, false, int64(pt.v), int64(pt.v))
					}
					return
				}
			}
		}
	}
	src, okS := plainSource(l.Bits)
	k, okK := constOfBits(r.Bits)
	if !okS || !okK {
		src, okS = plainSource(r.Bits)
		k, okK = constOfBits(l.Bits)
		if !okS || !okK {
			return
		}
		switch op { // k op src  ==  src op' k
		case token.LSS:
			op = token.GTR
		case token.LEQ:
			op = token.GEQ
		case token.GTR:
			op = token.LSS
		case token.GEQ:
			op = token.LEQ
		}
	}
	w := srcWidths[src]
	if signedType && w == len(l.Bits) {
		// a signed whole source: signed ranges
		ex.refineSigned(t, f, bop, l.Bits, r.Bits)
		return
	}
	if signedType && signExt(k, len(l.Bits)) < 0 {
		return
	}
	full := uint64(1)<<uint(w) - 1
	if w >= 64 {
		full = ^uint64(0)
	}
	apply := func(st *astate, lo, hi uint64) {
		if lo <= math.MaxInt64 {
			h := int64(math.MaxInt64)
			if hi <= math.MaxInt64 {
				h = int64(hi)
			}
			if sf, has := st.sfacts[src]; !has || sf[0] >= 0 {
				// keep the signed and the unsigned view of the source (and of what it is derived from) in step
				st.narrow(SourceVec(src, w), false, int64(lo), h)
				return
			}
		}
		cur, ok := st.facts[src]
		if !ok {
			cur = [2]uint64{0, full}
		}
		if lo > cur[0] {
			cur[0] = lo
		}
		if hi < cur[1] {
			cur[1] = hi
		}
		st.facts[src] = cur
	}
	switch op {
	case token.LSS: // src < k
		if k > 0 {
			apply(t, 0, k-1)
		}
		apply(f, k, full)
	case token.LEQ:
		apply(t, 0, k)
		if k < full {
			apply(f, k+1, full)
		}
	case token.GTR:
		if k < full {
			apply(t, k+1, full)
		}
		apply(f, 0, k)
	case token.GEQ:
		apply(t, k, full)
		if k > 0 {
			apply(f, 0, k-1)
		}
	case token.EQL:
		apply(t, k, k)
		if k <= math.MaxInt64 {
			f.exclude(src, int64(k))
		}
	case token.NEQ:
		apply(f, k, k)
		if k <= math.MaxInt64 {
			t.exclude(src, int64(k))
		}
	}
}

func cloneNils(m map[string]bool) map[string]bool {
	n := make(map[string]bool, len(m)+1)
	for k, v := range m {
		n[k] = v
	}
	return n
}

var errArrived = fmt.Errorf("arrived")

// ipdom returns the immediate post-dominator of b (nil: the function exit).
func (ex *Exec) ipdom(b *ssa.BasicBlock) *ssa.BasicBlock {
	fn := b.Parent()
	if ex.ipdoms == nil {
		ex.ipdoms = map[*ssa.Function]map[*ssa.BasicBlock]*ssa.BasicBlock{}
	}
	if m, ok := ex.ipdoms[fn]; ok {
		return m[b]
	}
	n := len(fn.Blocks)
	// pd[i] = set of blocks post-dominating block i (bitset as []bool)
	pd := make([][]bool, n)
	for i := range pd {
		pd[i] = make([]bool, n)
		for j := range pd[i] {
			pd[i][j] = true
		}
	}
	for _, blk := range fn.Blocks {
		if len(blk.Succs) == 0 {
			for j := range pd[blk.Index] {
				pd[blk.Index][j] = j == blk.Index
			}
		}
	}
	for changed := true; changed; {
		changed = false
		for i := n - 1; i >= 0; i-- {
			blk := fn.Blocks[i]
			if len(blk.Succs) == 0 {
				continue
			}
			nw := make([]bool, n)
			for j := range nw {
				nw[j] = true
				for _, sc := range blk.Succs {
					if !pd[sc.Index][j] {
						nw[j] = false
						break
					}
				}
			}
			nw[i] = true
			for j := range nw {
				if nw[j] != pd[i][j] {
					changed = true
				}
			}
			pd[i] = nw
		}
	}
	count := func(v []bool) int {
		c := 0
		for _, x := range v {
			if x {
				c++
			}
		}
		return c
	}
	m := map[*ssa.BasicBlock]*ssa.BasicBlock{}
	for i, blk := range fn.Blocks {
		want := count(pd[i]) - 1
		for j := 0; j < n; j++ {
			if j != i && pd[i][j] && count(pd[j]) == want {
				m[blk] = fn.Blocks[j]
			}
		}
	}
	ex.ipdoms[fn] = m
	return m[b]
}

func sameAVal(a, b AVal) bool {
	if a.K != b.K || a.Path != b.Path || a.Lo != b.Lo || a.Len != b.Len || a.Sym != b.Sym || a.Const != b.Const || a.IsConst != b.IsConst || len(a.Elems) != len(b.Elems) || len(a.Bits) != len(b.Bits) {
		return false
	}
	for i := range a.Bits {
		if a.Bits[i] != b.Bits[i] {
			return false
		}
	}
	for i := range a.Elems {
		if !sameAVal(a.Elems[i], b.Elems[i]) {
			return false
		}
	}
	return true
}

// iteVal merges two values under a one-bit condition; ok is false when they cannot be merged.
func iteVal(c Bit, a, b AVal) (AVal, bool) {
	if sameAVal(a, b) {
		return a, true
	}
	if a.K == AInt && b.K == AInt && len(a.Bits) == len(b.Bits) {
		out := make(BitVec, len(a.Bits))
		for i := range out {
			out[i] = iteBit(c, a.Bits[i], b.Bits[i])
		}
		return AVal{K: AInt, Bits: out}, true
	}
	if (a.K == AAgg || a.K == ATuple) && a.K == b.K && len(a.Elems) == len(b.Elems) {
		out := AVal{K: a.K}
		for i := range a.Elems {
			e, ok := iteVal(c, a.Elems[i], b.Elems[i])
			if !ok {
				return AVal{}, false
			}
			out.Elems = append(out.Elems, e)
		}
		return out, true
	}
	return AVal{}, false
}

func sameKeys[V any](a, b map[string]V) bool {
	if len(a) != len(b) {
		return false
	}
	for k := range a {
		if _, ok := b[k]; !ok {
			return false
		}
	}
	return true
}

// tryMerge if-converts the branch at the end of fr.block (see Exec.Merge). On success s is
// positioned after the phis of the join block.
func (ex *Exec) tryMerge(s *astate, fr *aframe, c Bit) bool {
	join := ex.ipdom(fr.block)
	depth := len(s.frames)
	side := func(second bool) *astate {
		sub := s.clone()
		sub.stopAt, sub.stopDepth, sub.stopRet = join, depth, join == nil
		ex.jump(sub.frames[depth-1], second)
		budget := sub.steps + 20000
		_, _, err := ex.runBudget(sub, budget)
		if err != errArrived || len(sub.trace) != len(s.trace) || len(sub.frames) != depth {
			return nil
		}
		return sub
	}
	unsound := len(ex.Unsound)
	t := side(false)
	if t == nil {
		ex.Unsound = ex.Unsound[:unsound]
		return false
	}
	f := side(true)
	if f == nil {
		ex.Unsound = ex.Unsound[:unsound]
		return false
	}
	tf, ff := t.frames[depth-1], f.frames[depth-1]
	// memory
	if !sameKeys(t.mem.havoc, f.mem.havoc) || !sameKeys(t.mem.from, f.mem.from) || !sameKeys(t.mem.Seqs, f.mem.Seqs) {
		return false
	}
	merged := t.mem.clone()
	for k := range f.mem.fresh {
		merged.fresh[k] = true
	}
	keys := map[string]bool{}
	for k := range t.mem.cells {
		keys[k] = true
	}
	for k := range f.mem.cells {
		keys[k] = true
	}
	get := func(m *AMem, k string, like AVal) (AVal, bool) {
		if v, ok := m.cells[k]; ok {
			return v, true
		}
		if like.K == AInt {
			if m.isHavoc(k) {
				return AVal{K: AInt, Bits: mixVec(len(like.Bits))}, true
			}
			if m.isFresh(k) {
				return AVal{K: AInt, Bits: constBits(0, len(like.Bits))}, true
			}
			return AVal{K: AInt, Bits: regSource(k, len(like.Bits))}, true
		}
		return AVal{}, false
	}
	for k := range keys {
		vt, okT := t.mem.cells[k]
		vf, okF := f.mem.cells[k]
		if !okT {
			vt, okT = get(t.mem, k, vf)
		}
		if !okF {
			vf, okF = get(f.mem, k, vt)
		}
		if !okT || !okF {
			return false
		}
		mv, ok := iteVal(c, vt, vf)
		if !ok {
			return false
		}
		merged.cells[k] = mv
	}
	if join == nil {
		// both sides return: merge the returned values and let s perform the return
		if len(t.retVals) != len(f.retVals) {
			return false
		}
		rets := []AVal{}
		for i := range t.retVals {
			mv, ok := iteVal(c, t.retVals[i], f.retVals[i])
			if !ok {
				return false
			}
			rets = append(rets, mv)
		}
		// position s at a return instruction of this function (any: the values are given)
		for _, b := range fr.fn.Blocks {
			if len(b.Instrs) > 0 {
				if _, isRet := b.Instrs[len(b.Instrs)-1].(*ssa.Return); isRet {
					fr.block, fr.pc = b, len(b.Instrs)-1
					s.retVals = rets
					s.mem = merged
					return true
				}
			}
		}
		return false
	}
	// phis of the join block
	env := tf.env
	pc := 0
	for _, in := range join.Instrs {
		phi, ok := in.(*ssa.Phi)
		if !ok {
			break
		}
		var vt, vf AVal
		for i, p := range join.Preds {
			if p == tf.pred {
				vt = ex.val(t, tf, phi.Edges[i])
			}
			if p == ff.pred {
				vf = ex.val(f, ff, phi.Edges[i])
			}
		}
		mv, ok := iteVal(c, vt, vf)
		if !ok {
			return false
		}
		env[phi] = mv
		pc++
	}
	fr.env = env
	fr.pred, fr.block, fr.pc = tf.pred, join, pc
	s.mem = merged
	if t.steps > f.steps {
		s.steps = t.steps
	} else {
		s.steps = f.steps
	}
	if t.serial > f.serial {
		s.serial = t.serial
	} else {
		s.serial = f.serial
	}
	return true
}

// runBudget is run with a step budget for sub-runs.
func (ex *Exec) runBudget(s *astate, budget int) ([]*astate, *AOutcome, error) {
	save := ex.MaxSteps
	if budget < ex.MaxSteps {
		ex.MaxSteps = budget
	}
	defer func() { ex.MaxSteps = save }()
	forks, out, err := ex.run(s)
	if err == nil && (forks != nil || out != nil) {
		return forks, out, fmt.Errorf("left the region")
	}
	return forks, out, err
}

func (ex *Exec) jump(fr *aframe, second bool) {
	i := 0
	if second {
		i = 1
	}
	fr.pred, fr.block, fr.pc = fr.block, fr.block.Succs[i], 0
}

// arrive is called when fr has just moved to a new block; it reports whether the state is to be
// dropped because the block is a loop header reached over a back edge once too often.
func (ex *Exec) arrive(s *astate, fr *aframe) bool {
	if fr.pred == nil {
		return false
	}
	if ex.SymLoop != nil && ex.arriveSym(s, fr) {
		return true
	}
	if ex.LoopBound <= 0 {
		return false
	}
	b := fr.block
	if !b.Dominates(fr.pred) {
		if fr.backs[b] > 0 { // the loop is entered afresh
			nb := make(map[*ssa.BasicBlock]int, len(fr.backs))
			for k, v := range fr.backs {
				nb[k] = v
			}
			delete(nb, b)
			fr.backs = nb
		}
		return false
	}
	nb := make(map[*ssa.BasicBlock]int, len(fr.backs)+1)
	for k, v := range fr.backs {
		nb[k] = v
	}
	nb[b]++
	fr.backs = nb
	if nb[b] > ex.LoopBound {
		ex.Cut++
		return true
	}
	return false
}

func isLoopHeader(b *ssa.BasicBlock) bool {
	for _, p := range b.Preds {
		if b.Dominates(p) {
			return true
		}
	}
	return false
}

// arriveSym: entry to a selected loop replaces the header's phis by names; a return to that
// header records the iteration and ends the path.
func (ex *Exec) arriveSym(s *astate, fr *aframe) bool {
	b := fr.block
	back := b.Dominates(fr.pred)
	if fr.symHeader == b && back {
		it := ALoopIter{Fn: fr.fn, Header: b, Init: fr.symInit, Sym: map[string]AVal{}, Next: map[string]AVal{},
			Conds: append([]string(nil), s.conds[fr.symConds:]...), Facts: s.facts, SFacts: s.sfacts, Nils: s.nils,
			Trace: append([]AEvent(nil), s.trace[fr.symTrace:]...), Mem: s.mem}
		for i, p := range b.Preds {
			if p != fr.pred {
				continue
			}
			for _, in := range b.Instrs {
				ph, ok := in.(*ssa.Phi)
				if !ok {
					break
				}
				it.Sym[PhiVar(ph)] = fr.symPhi[ph]
				it.Next[PhiVar(ph)] = ex.val(s, fr, ph.Edges[i])
			}
		}
		ex.Iters = append(ex.Iters, it)
		return true
	}
	if fr.symHeader != nil || back || !isLoopHeader(b) {
		return false
	}
	for _, f := range s.frames {
		if f.symHeader != nil {
			return false // one symbolic loop per path: loops inside its body (also in callees) are unrolled
		}
	}
	if !ex.SymLoop(fr.fn, b) {
		return false
	}
	// first entry: remember what the loop starts from, then forget it
	fr.symHeader, fr.symPhi, fr.symInit = b, map[*ssa.Phi]AVal{}, map[string]AVal{}
	fr.symTrace, fr.symConds = len(s.trace), len(s.conds)
	for i, p := range b.Preds {
		if p != fr.pred {
			continue
		}
		for _, in := range b.Instrs {
			ph, ok := in.(*ssa.Phi)
			if !ok {
				break
			}
			fr.symInit[PhiVar(ph)] = ex.val(s, fr, ph.Edges[i])
			v := unknownOf("φ"+PhiVar(ph), ph.Type(), false)
			registerSources(v)
			fr.symPhi[ph] = v
		}
	}
	// memory the body writes is loop-carried state the names do not cover
	for _, lb := range fr.fn.Blocks {
		if !b.Dominates(lb) || !(lb == b || Reaches(lb, b)) {
			continue
		}
		for _, in := range lb.Instrs {
			if st, ok := in.(*ssa.Store); ok {
				if al, isAl := rootAlloc(st.Addr); isAl && b.Dominates(al.Block()) && al.Block() != b {
					continue // an object created inside the body
				}
				ex.Unsound = append(ex.Unsound, fmt.Sprintf("%s: the symbolically iterated loop stores to memory (%s)", fr.fn.Name(), st.Addr.Name()))
			}
		}
	}
	return false
}

func rootAlloc(v ssa.Value) (*ssa.Alloc, bool) {
	for i := 0; i < 8; i++ {
		switch x := v.(type) {
		case *ssa.Alloc:
			return x, true
		case *ssa.FieldAddr:
			v = x.X
		case *ssa.IndexAddr:
			v = x.X
		default:
			return nil, false
		}
	}
	return nil, false
}

// label renders a branch condition in the entry function's vocabulary where possible.
func (ex *Exec) label(s *astate, fr *aframe, cond ssa.Value) string {
	p := NewPather(fr.fn)
	if fr.names != nil {
		p.ParamNames = fr.names
	}
	return p.Path(cond)
}

func (ex *Exec) val(s *astate, fr *aframe, v ssa.Value) AVal {
	if r, ok := fr.env[v]; ok {
		return r
	}
	switch x := v.(type) {
	case *ssa.Const:
		return constVal(x)
	case *ssa.Global:
		if !ex.NoInitTables {
			ex.seedGlobal(s, x)
		}
		return AVal{K: APtr, Path: "global:" + x.Pkg.Pkg.Path() + "." + x.Name()}
	case *ssa.Function:
		return AVal{K: AUnknown, Path: "func:" + FuncName(x), Fn: x, NonNil: true}
	case *ssa.Builtin:
		return AVal{K: AUnknown, Path: "builtin." + x.Name()}
	case *ssa.FreeVar:
		if b, ok := fr.free[x]; ok {
			return b
		}
		return unknownOf("free:"+x.Name(), x.Type(), false)
	}
	// an instruction not yet executed on this path (should not happen: SSA dominance)
	return unknownOf("undef:"+v.Name(), v.Type(), true)
}

func constVal(x *ssa.Const) AVal {
	t := x.Type()
	if x.Value == nil {
		return zeroOf(t)
	}
	if w := widthOf(t); w > 0 {
		if x.Value.Kind() == constant.Bool {
			if constant.BoolVal(x.Value) {
				return AVal{K: AInt, Bits: constBits(1, 1)}
			}
			return AVal{K: AInt, Bits: constBits(0, 1)}
		}
		cv := constant.ToInt(x.Value)
		if cv.Kind() == constant.Int {
			if u, ok := constant.Uint64Val(cv); ok {
				return AVal{K: AInt, Bits: constBits(u, w)}
			}
			if i, ok := constant.Int64Val(cv); ok {
				return AVal{K: AInt, Bits: constBits(uint64(i), w)}
			}
		}
		return AVal{K: AInt, Bits: mixVec(w)}
	}
	if x.Value.Kind() == constant.String {
		s := constant.StringVal(x.Value)
		return AVal{K: AStr, IsConst: true, Const: s, Len: len(s)}
	}
	return AVal{K: AUnknown, Path: "const:" + x.Value.String()}
}

func signExt(u uint64, w int) int64 {
	if w >= 64 {
		return int64(u)
	}
	if u>>(uint(w)-1)&1 == 1 {
		return int64(u | ^uint64(0)<<uint(w))
	}
	return int64(u)
}

func truncTo(u uint64, w int) uint64 {
	if w >= 64 {
		return u
	}
	return u & (1<<uint(w) - 1)
}

func boolVal(b bool) AVal {
	if b {
		return AVal{K: AInt, Bits: constBits(1, 1)}
	}
	return AVal{K: AInt, Bits: constBits(0, 1)}
}

func (ex *Exec) eval(s *astate, fr *aframe, v ssa.Value) AVal {
	switch x := v.(type) {
	case *ssa.Alloc:
		s.serial++
		name := fmt.Sprintf("local:%s.%s#%d", fr.fn.Name(), x.Comment, s.serial)
		s.mem.fresh[name] = true
		return AVal{K: APtr, Path: name}
	case *ssa.Phi:
		if v, sym := fr.symPhi[x]; sym && fr.symHeader == fr.block {
			return v
		}
		for i, p := range fr.block.Preds {
			if p == fr.pred {
				np := make(map[*ssa.Phi]ssa.Value, len(fr.phiSrc)+1)
				for k, v := range fr.phiSrc {
					np[k] = v
				}
				np[x] = x.Edges[i]
				fr.phiSrc = np
				return ex.val(s, fr, x.Edges[i])
			}
		}
		return unknownOf("phi:"+x.Name(), x.Type(), true)
	case *ssa.FieldAddr:
		b := ex.val(s, fr, x.X)
		if b.K != APtr {
			return AVal{K: AUnknown, Path: "fieldaddr"}
		}
		st := derefStruct(x.X.Type())
		if st == nil {
			return AVal{K: AUnknown, Path: "fieldaddr"}
		}
		return AVal{K: APtr, Path: b.Path + "." + st.Field(x.Field).Name(), Sym: b.Sym}
	case *ssa.Field:
		b := ex.val(s, fr, x.X)
		if b.K == AAgg && x.Field < len(b.Elems) {
			return b.Elems[x.Field]
		}
		return unknownOf("field:"+x.Name(), x.Type(), true)
	case *ssa.IndexAddr:
		b := ex.val(s, fr, x.X)
		idx := ex.val(s, fr, x.Index)
		base, lo := "", 0
		switch b.K {
		case APtr:
			base = b.Path
		case ASlice:
			base, lo = b.Path, b.Lo
		default:
			return AVal{K: AUnknown, Path: "indexaddr"}
		}
		if k, ok := idx.ConstVal(); ok && lo >= 0 && !b.Sym {
			return AVal{K: APtr, Path: fmt.Sprintf("%s[%d]", base, lo+int(int64(k)))}
		}
		if idx.K == AInt && len(idx.Bits) > 0 && len(idx.Bits) <= 64 && !hasMixBits(idx.Bits) && (lo >= 0 || b.LoBits != nil) {
			idx = AVal{K: AInt, Bits: resize(idx.Bits, 64, isSigned(x.Index.Type()))}
			// a nameable position: offset of the slice + index, in affine normal form
			off := b.LoBits
			if lo >= 0 {
				off = constBits(uint64(lo), 64)
			}
			if sum := opaqueOp(token.ADD, off, idx.Bits, 64); !hasMixBits(sum.Bits) {
				if k, isK := constOfBits(sum.Bits); isK && !b.Sym {
					return AVal{K: APtr, Path: fmt.Sprintf("%s[%d]", base, int(int64(k)))}
				}
				return AVal{K: APtr, Path: fmt.Sprintf("%s[%s]", base, NameBits(sum.Bits)), Sym: true}
			}
		}
		name := "?"
		if idx.K == AInt {
			name = NameBits(idx.Bits)
		}
		if lo > 0 {
			name = fmt.Sprintf("%d+%s", lo, name)
		} else if lo < 0 {
			name = "?+" + name
		}
		return AVal{K: APtr, Path: fmt.Sprintf("%s[%s]", base, name), Sym: true}
	case *ssa.Index:
		b := ex.val(s, fr, x.X)
		idx := ex.val(s, fr, x.Index)
		if b.K == AStr {
			if v, ok := ex.strIndex(s, b, idx); ok {
				return v
			}
		}
		if k, ok := idx.ConstVal(); ok {
			if b.K == AAgg && int(k) < len(b.Elems) {
				return b.Elems[k]
			}
		}
		return unknownOf("index:"+x.Name(), x.Type(), true)
	case *ssa.Lookup:
		b := ex.val(s, fr, x.X)
		idx := ex.val(s, fr, x.Index)
		if b.K == AStr {
			if v, ok := ex.strIndex(s, b, idx); ok {
				return v
			}
		}
		return unknownOf("lookup:"+x.Name(), x.Type(), true)
	case *ssa.Slice:
		return ex.slice(s, fr, x)
	case *ssa.MakeClosure:
		// a function value with its captured variables (a bound method value is a closure over its receiver)
		if f, ok := x.Fn.(*ssa.Function); ok {
			v := AVal{K: AUnknown, Path: "func:" + FuncName(f), Fn: f, NonNil: true}
			for _, b := range x.Bindings {
				v.Elems = append(v.Elems, ex.val(s, fr, b))
			}
			return v
		}
		return unknownOf("closure:"+x.Name(), x.Type(), true)
	case *ssa.MakeSlice:
		s.serial++
		name := fmt.Sprintf("local:%s.makeslice#%d", fr.fn.Name(), s.serial)
		s.mem.fresh[name] = true
		n := -1
		lv := ex.val(s, fr, x.Len)
		ln := ""
		if k, ok := lv.ConstVal(); ok && k < 1<<20 {
			n = int(k)
		} else if lv.K == AInt {
			ln = NameBits(lv.Bits)
		}
		if n < 0 && lv.K == AInt && !hasMixBits(lv.Bits) {
			s.mem.cells[name+".$len"] = AVal{K: AInt, Bits: resize(lv.Bits, 64, false)}
		}
		return AVal{K: ASlice, Path: name, Lo: 0, Len: n, LenName: ln}
	case *ssa.UnOp:
		a := ex.val(s, fr, x.X)
		switch x.Op {
		case token.MUL:
			if g, isG := x.X.(*ssa.Global); isG {
				if st, isSl := x.Type().Underlying().(*types.Slice); isSl {
					if elems, ok := constSliceOf(g); ok {
						// a table: a slice variable that only ever holds its literal
						obj := a.Path + "$lit"
						if _, done := s.mem.cells[obj+"[0]"]; !done && len(elems) > 0 {
							for i, e := range elems {
								v := zeroOf(st.Elem())
								if e != nil {
									v = ex.val(s, fr, e)
								}
								s.mem.cells[fmt.Sprintf("%s[%d]", obj, i)] = v
							}
						}
						return AVal{K: ASlice, Path: obj, Lo: 0, Len: len(elems), NonNil: true}
					}
				}
			}
			if a.K == APtr {
				if a.Sym && strings.HasPrefix(a.Path, "global:") {
					// an element of a package-level table at an index the path does not know: a name of
					// its own (the table's zero default is for the cells its initialiser left alone)
					if v, has := s.mem.cells[a.Path]; has {
						return v
					}
					r := unknownOf(a.Path, x.Type(), false)
					registerSources(r)
					return r
				}
				r := s.mem.Load(a.Path, x.Type())
				registerSources(r)
				return r
			}
			return unknownOf("load:"+x.Name(), x.Type(), true)
		case token.NOT:
			if a.K == AInt && len(a.Bits) == 1 {
				return AVal{K: AInt, Bits: BitVec{notBit(a.Bits[0])}}
			}
		case token.XOR:
			if a.K == AInt {
				out := make(BitVec, len(a.Bits))
				for i := range out {
					out[i] = notBit(a.Bits[i])
				}
				return AVal{K: AInt, Bits: out}
			}
		case token.SUB:
			if a.K == AInt && len(a.Bits) > 1 {
				// -(0 or 1) is all zeroes or all ones: every bit is the low bit (a mask made from a flag)
				flag := true
				for _, bt := range a.Bits[1:] {
					if bt.Kind != BZero {
						flag = false
					}
				}
				if _, isK := a.ConstVal(); flag && !isK {
					out := make(BitVec, len(a.Bits))
					for i := range out {
						out[i] = a.Bits[0]
					}
					return AVal{K: AInt, Bits: out}
				}
			}
			if k, ok := a.ConstVal(); ok {
				w := len(a.Bits)
				return AVal{K: AInt, Bits: constBits(truncTo(-k, w), w)}
			}
		}
		return unknownOf("unop:"+x.Name(), x.Type(), true)
	case *ssa.BinOp:
		return ex.binop(s, fr, x)
	case *ssa.Convert:
		a := ex.val(s, fr, x.X)
		w := widthOf(x.Type())
		if a.K == AInt && w > 0 {
			return AVal{K: AInt, Bits: resize(a.Bits, w, isSigned(x.X.Type()))}
		}
		if _, isSl := x.Type().Underlying().(*types.Slice); isSl && a.K == AStr {
			if a.IsConst {
				s.serial++
				name := fmt.Sprintf("local:%s.bytes#%d", fr.fn.Name(), s.serial)
				s.mem.fresh[name] = true
				for i := 0; i < len(a.Const); i++ {
					s.mem.cells[fmt.Sprintf("%s[%d]", name, i)] = AVal{K: AInt, Bits: constBits(uint64(a.Const[i]), 8)}
				}
				return AVal{K: ASlice, Path: name, Lo: 0, Len: len(a.Const)}
			}
			return AVal{K: ASlice, Path: a.Path, Lo: a.Lo, Len: a.Len}
		}
		if b, isB := x.Type().Underlying().(*types.Basic); isB && b.Info()&types.IsString != 0 && a.K == AInt {
			// string(c) of one character
			if k, ok := a.ConstVal(); ok && k < 0x80 {
				return AVal{K: AStr, IsConst: true, Const: string(rune(k)), Len: 1}
			}
			return AVal{K: AStr, Path: "chr(" + NameBits(a.Bits) + ")", Lo: 0, Len: -1}
		}
		if b, isB := x.Type().Underlying().(*types.Basic); isB && b.Info()&types.IsString != 0 && a.K == ASlice {
			// string(bytes): a constant when every octet is
			if a.Len >= 0 && a.Lo >= 0 {
				buf := make([]byte, 0, a.Len)
				all := true
				for i := 0; i < a.Len && all; i++ {
					c := s.mem.Load(fmt.Sprintf("%s[%d]", a.Path, a.Lo+i), types.Typ[types.Uint8])
					if k, ok := c.ConstVal(); ok {
						buf = append(buf, byte(k))
					} else {
						all = false
					}
				}
				if all {
					return AVal{K: AStr, IsConst: true, Const: string(buf), Len: len(buf)}
				}
			}
			return AVal{K: AStr, Path: a.Path, Lo: a.Lo, Len: a.Len}
		}
		return unknownOf("convert:"+x.Name(), x.Type(), true)
	case *ssa.ChangeType:
		return ex.val(s, fr, x.X)
	case *ssa.ChangeInterface:
		return ex.val(s, fr, x.X)
	case *ssa.MakeInterface:
		return ex.val(s, fr, x.X)
	case *ssa.SliceToArrayPointer:
		a := ex.val(s, fr, x.X)
		if a.K == ASlice && a.Lo == 0 {
			return AVal{K: APtr, Path: a.Path}
		}
		return AVal{K: AUnknown, Path: "s2ap"}
	case *ssa.TypeAssert:
		a := ex.val(s, fr, x.X)
		if x.CommaOk {
			return AVal{K: ATuple, Elems: []AVal{a, {K: AInt, Bits: mixVec(1)}}}
		}
		return a
	case *ssa.Extract:
		t := ex.val(s, fr, x.Tuple)
		if t.K == ATuple && x.Index < len(t.Elems) {
			return t.Elems[x.Index]
		}
		return unknownOf("extract:"+x.Name(), x.Type(), true)
	}
	return unknownOf("instr:"+v.Name(), v.Type(), true)
}

// strIndex is s[i] for a string value.
func (ex *Exec) strIndex(s *astate, b, idx AVal) (AVal, bool) {
	if k, ok := idx.ConstVal(); ok {
		if b.IsConst {
			if int(k) < len(b.Const) {
				return AVal{K: AInt, Bits: constBits(uint64(b.Const[k]), 8)}, true
			}
			return AVal{}, false
		}
		if b.Lo >= 0 {
			r := s.mem.Load(fmt.Sprintf("%s[%d]", b.Path, b.Lo+int(k)), types.Typ[types.Uint8])
			registerSources(r)
			return r, true
		}
	}
	if !b.IsConst && idx.K == AInt {
		return AVal{K: AInt, Bits: regSource(fmt.Sprintf("%s[%s]", b.Path, NameBits(idx.Bits)), 8)}, true
	}
	return AVal{}, false
}

func derefStruct(t types.Type) *types.Struct {
	if p, ok := t.Underlying().(*types.Pointer); ok {
		if st, ok := p.Elem().Underlying().(*types.Struct); ok {
			return st
		}
	}
	return nil
}

func (ex *Exec) slice(s *astate, fr *aframe, x *ssa.Slice) AVal {
	b := ex.val(s, fr, x.X)
	lo, hi := 0, -1
	loK, hiK := true, false
	if x.Low != nil {
		if k, ok := ex.val(s, fr, x.Low).ConstVal(); ok {
			lo = int(k)
		} else {
			loK = false
		}
	}
	if x.High != nil {
		if k, ok := ex.val(s, fr, x.High).ConstVal(); ok {
			hi, hiK = int(k), true
		}
	}
	// symbolic offsets: element 0 of the result is element (offset of b) + low of the base
	var symLo BitVec
	var symLen = -1
	if bv := ex.val(s, fr, x.X); bv.K == ASlice || bv.K == APtr {
		var baseOff BitVec
		switch {
		case bv.K == APtr, bv.Lo >= 0:
			o := 0
			if bv.K == ASlice {
				o = bv.Lo
			}
			baseOff = constBits(uint64(o), 64)
		case bv.LoBits != nil:
			baseOff = bv.LoBits
		}
		lowBits := constBits(uint64(lo), 64)
		if x.Low != nil && !loK {
			if lv := ex.val(s, fr, x.Low); lv.K == AInt && len(lv.Bits) > 0 && len(lv.Bits) <= 64 {
				lowBits = resize(lv.Bits, 64, isSigned(x.Low.Type()))
			} else {
				lowBits = nil
			}
		}
		if baseOff != nil && lowBits != nil && (!loK || bv.Lo < 0) {
			if sum := opaqueOp(token.ADD, baseOff, lowBits, 64); !hasMixBits(sum.Bits) {
				symLo = sum.Bits
				if x.High != nil {
					if hv := ex.val(s, fr, x.High); hv.K == AInt && len(hv.Bits) > 0 && len(hv.Bits) <= 64 {
						if d := opaqueOp(token.SUB, resize(hv.Bits, 64, isSigned(x.High.Type())), lowBits, 64); d.K == AInt {
							if k, isK := constOfBits(d.Bits); isK && int64(k) >= 0 && k < 1<<31 {
								symLen = int(k)
							}
						}
					}
				}
			}
		}
	}
	mk := func(kind AKind, base string, off, length int) AVal {
		if symLo != nil && kind == ASlice {
			if k, isK := constOfBits(symLo); isK {
				return AVal{K: kind, Path: base, Lo: int(k), Len: symLen}
			}
			return AVal{K: kind, Path: base, Lo: -1, LoBits: symLo, Len: symLen}
		}
		nlo := -1
		if loK && off >= 0 {
			nlo = off + lo
		}
		n := -1
		if loK {
			if hiK {
				n = hi - lo
			} else if x.High == nil && length >= 0 {
				n = length - lo
			}
		}
		ln := ""
		if n < 0 && loK && lo == 0 && x.High != nil && !hiK && kind == ASlice {
			// x[:h] with a symbolic h: the length has h's name
			if hv := ex.val(s, fr, x.High); hv.K == AInt && len(hv.Bits) > 0 && !hasMixBits(hv.Bits) {
				ln = NameBits(hv.Bits)
			}
		}
		return AVal{K: kind, Path: base, Lo: nlo, Len: n, LenName: ln}
	}
	switch b.K {
	case APtr:
		n := -1
		if p, ok := x.X.Type().Underlying().(*types.Pointer); ok {
			if a, ok := p.Elem().Underlying().(*types.Array); ok {
				n = int(a.Len())
			}
		}
		return mk(ASlice, b.Path, 0, n)
	case ASlice:
		return mk(ASlice, b.Path, b.Lo, b.Len)
	case AStr:
		if b.IsConst {
			if loK && (hiK || x.High == nil) {
				h := len(b.Const)
				if hiK {
					h = hi
				}
				if lo <= h && h <= len(b.Const) {
					return AVal{K: AStr, IsConst: true, Const: b.Const[lo:h], Len: h - lo}
				}
			}
			return AVal{K: AStr, Path: "substr", Lo: -1, Len: -1}
		}
		return mk(AStr, b.Path, b.Lo, b.Len)
	case ANil:
		return b
	}
	return unknownOf("slice:"+x.Name(), x.Type(), true)
}

func (ex *Exec) binop(s *astate, fr *aframe, x *ssa.BinOp) AVal {
	l, r := ex.val(s, fr, x.X), ex.val(s, fr, x.Y)
	w := widthOf(x.Type())
	// strings
	if l.K == AStr || r.K == AStr {
		if l.K == AStr && r.K == AStr && l.IsConst && r.IsConst {
			switch x.Op {
			case token.ADD:
				return AVal{K: AStr, IsConst: true, Const: l.Const + r.Const, Len: len(l.Const) + len(r.Const)}
			case token.EQL:
				return boolVal(l.Const == r.Const)
			case token.NEQ:
				return boolVal(l.Const != r.Const)
			}
		}
		if x.Op == token.ADD {
			// a concatenation keeps its parts (Elems) and is named after them
			var parts []AVal
			for _, o := range []AVal{l, r} {
				if o.K == AStr && !o.IsConst && strings.HasPrefix(o.Path, "cat(") && len(o.Elems) > 0 {
					parts = append(parts, o.Elems...)
				} else if n := len(parts); n > 0 && o.K == AStr && o.IsConst && parts[n-1].K == AStr && parts[n-1].IsConst {
					parts[n-1] = AVal{K: AStr, IsConst: true, Const: parts[n-1].Const + o.Const, Len: parts[n-1].Len + o.Len}
				} else {
					parts = append(parts, o)
				}
			}
			var ns []string
			for _, o := range parts {
				ns = append(ns, argName(o))
			}
			return AVal{K: AStr, Path: "cat(" + strings.Join(ns, ",") + ")", Lo: -1, Len: -1, Elems: parts}
		}
		// s == "" / s != "" already decided on this path
		if (x.Op == token.EQL || x.Op == token.NEQ) && l.K == AStr && r.K == AStr && l.IsConst != r.IsConst {
			k, v := l, r
			if r.IsConst {
				k, v = r, l
			}
			if k.Const == "" && v.Path != "" {
				if empty, known := s.nils["empty:"+v.Path]; known {
					return boolVal(empty == (x.Op == token.EQL))
				}
			}
		}
		return AVal{K: AInt, Bits: mixVec(1)}
	}
	// nil comparisons
	if x.Op == token.EQL || x.Op == token.NEQ {
		isNil := func(v AVal) bool { return v.K == ANil }
		known := func(v AVal) bool {
			return v.NonNil || (v.K == APtr && (s.mem.isFresh(v.Path) || strings.HasPrefix(v.Path, "global:"))) || (v.K == ASlice && s.mem.isFresh(v.Path))
		}
		if isNil(l) && isNil(r) {
			return boolVal(x.Op == token.EQL)
		}
		if (isNil(l) && known(r)) || (isNil(r) && known(l)) {
			return boolVal(x.Op == token.NEQ)
		}
		if isNil(l) != isNil(r) {
			v := l
			if isNil(l) {
				v = r
			}
			if v.Path != "" {
				if wasNil, decided := s.nils[v.Path]; decided {
					return boolVal(wasNil == (x.Op == token.EQL))
				}
			}
		}
		if l.K != AInt || r.K != AInt {
			return AVal{K: AInt, Bits: mixVec(1)}
		}
	}
	if l.K != AInt || r.K != AInt {
		return unknownOf("binop:"+x.Name(), x.Type(), true)
	}
	lw := len(l.Bits)
	lk, lc := constOfBits(l.Bits)
	rk, rc := constOfBits(r.Bits)
	signed := isSigned(x.X.Type())
	if lc && rc {
		var u uint64
		ok := true
		switch x.Op {
		case token.ADD:
			u = lk + rk
		case token.SUB:
			u = lk - rk
		case token.MUL:
			u = lk * rk
		case token.QUO:
			if rk == 0 {
				ok = false
			} else if signed {
				u = uint64(signExt(lk, lw) / signExt(rk, lw))
			} else {
				u = lk / rk
			}
		case token.REM:
			if rk == 0 {
				ok = false
			} else if signed {
				u = uint64(signExt(lk, lw) % signExt(rk, lw))
			} else {
				u = lk % rk
			}
		case token.AND:
			u = lk & rk
		case token.OR:
			u = lk | rk
		case token.XOR:
			u = lk ^ rk
		case token.AND_NOT:
			u = lk &^ rk
		case token.SHL:
			if rk >= 64 {
				u = 0
			} else {
				u = lk << rk
			}
		case token.SHR:
			if signed {
				if rk >= 64 {
					rk = 63
				}
				u = uint64(signExt(lk, lw) >> rk)
			} else if rk >= 64 {
				u = 0
			} else {
				u = lk >> rk
			}
		case token.EQL:
			return boolVal(lk == rk)
		case token.NEQ:
			return boolVal(lk != rk)
		case token.LSS, token.LEQ, token.GTR, token.GEQ:
			var lt, eq bool
			if signed {
				a, b := signExt(lk, lw), signExt(rk, lw)
				lt, eq = a < b, a == b
			} else {
				lt, eq = lk < rk, lk == rk
			}
			switch x.Op {
			case token.LSS:
				return boolVal(lt)
			case token.LEQ:
				return boolVal(lt || eq)
			case token.GTR:
				return boolVal(!lt && !eq)
			default:
				return boolVal(!lt)
			}
		default:
			ok = false
		}
		if ok && w > 0 {
			return AVal{K: AInt, Bits: constBits(truncTo(u, w), w)}
		}
	}
	switch x.Op {
	case token.AND, token.OR, token.XOR, token.AND_NOT:
		if len(l.Bits) != w || len(r.Bits) != w {
			return AVal{K: AInt, Bits: mixVec(w)}
		}
		out := make(BitVec, w)
		for i := 0; i < w; i++ {
			switch x.Op {
			case token.AND:
				out[i] = andBitP(l.Bits[i], r.Bits[i])
			case token.OR:
				out[i] = orBit(l.Bits[i], r.Bits[i])
			case token.XOR:
				out[i] = xorBit(l.Bits[i], r.Bits[i])
			default:
				out[i] = andBitP(l.Bits[i], notBit(r.Bits[i]))
			}
		}
		return AVal{K: AInt, Bits: out}
	case token.SHL, token.SHR:
		if !rc {
			return opaqueOp(x.Op, l.Bits, r.Bits, w)
		}
		n := int(rk)
		if rk > 64 {
			n = 64
		}
		out := make(BitVec, w)
		for i := 0; i < w; i++ {
			j := i + n
			if x.Op == token.SHL {
				j = i - n
			}
			if j >= 0 && j < w {
				out[i] = l.Bits[j]
			} else if x.Op == token.SHR && signed && l.Bits[w-1].Kind != BZero {
				out[i] = l.Bits[w-1]
			} else {
				out[i] = Bit{Kind: BZero}
			}
		}
		return AVal{K: AInt, Bits: out}
	case token.ADD:
		out := make(BitVec, w)
		carry := false
		for i := 0; i < w; i++ {
			if l.Bits[i].Kind != BZero && r.Bits[i].Kind != BZero {
				carry = true
				break
			}
			out[i] = orBit(l.Bits[i], r.Bits[i])
		}
		if !carry {
			return AVal{K: AInt, Bits: out}
		}
		return opaqueOp(x.Op, l.Bits, r.Bits, w)
	case token.QUO, token.REM:
		// unsigned division by a power of two is a right shift, the remainder a mask
		if rc && !signed && rk != 0 && rk&(rk-1) == 0 && len(l.Bits) == w {
			n := 0
			for k := rk; k > 1; k >>= 1 {
				n++
			}
			out := make(BitVec, w)
			for i := 0; i < w; i++ {
				out[i] = Bit{Kind: BZero}
				if x.Op == token.QUO && i+n < w {
					out[i] = l.Bits[i+n]
				}
				if x.Op == token.REM && i < n {
					out[i] = l.Bits[i]
				}
			}
			return AVal{K: AInt, Bits: out}
		}
	case token.MUL:
		// multiplication by a power of two is a shift
		sh := func(a BitVec, k uint64) (AVal, bool) {
			if k != 0 && k&(k-1) == 0 {
				n := 0
				for k > 1 {
					k >>= 1
					n++
				}
				out := make(BitVec, w)
				for i := 0; i < w; i++ {
					if i-n >= 0 {
						out[i] = a[i-n]
					}
				}
				return AVal{K: AInt, Bits: out}, true
			}
			return AVal{}, false
		}
		if rc {
			if v, ok := sh(l.Bits, rk); ok {
				return v
			}
		}
		if lc {
			if v, ok := sh(r.Bits, lk); ok {
				return v
			}
		}
	case token.EQL, token.NEQ:
		// a value the source is known not to have
		for _, pr := range [][2]BitVec{{l.Bits, r.Bits}, {r.Bits, l.Bits}} {
			if src, okS := plainSource(pr[0]); okS {
				if k, okK := constOfBits(pr[1]); okK {
					for _, e := range s.excl[src] {
						if uint64(e) == k {
							return boolVal(x.Op == token.NEQ)
						}
					}
				}
			}
		}
		if lr, okL := s.rangeOf(l.Bits, signed); okL {
			if rr, okR := s.rangeOf(r.Bits, signed); okR {
				if lr.hi < rr.lo || rr.hi < lr.lo {
					return boolVal(x.Op == token.NEQ)
				}
				if lr.lo == lr.hi && rr.lo == rr.hi && lr.lo == rr.lo {
					return boolVal(x.Op == token.EQL)
				}
			}
		}
		same, differ := true, false
		for i := 0; i < lw && i < len(r.Bits); i++ {
			a, b := l.Bits[i], r.Bits[i]
			if a != b || a.Kind == BMix {
				same = false
			}
			if (a.Kind == BZero && b.Kind == BOne) || (a.Kind == BOne && b.Kind == BZero) {
				differ = true
			}
		}
		if same {
			return boolVal(x.Op == token.EQL)
		}
		if differ {
			return boolVal(x.Op == token.NEQ)
		}
		// all positions agree as constants except one, where a linear form meets a constant:
		// the comparison is that bit (or its complement)
		if lw == len(r.Bits) {
			pos, n := -1, 0
			for i := 0; i < lw; i++ {
				a, b := l.Bits[i], r.Bits[i]
				ac, bc := a.Kind == BZero || a.Kind == BOne, b.Kind == BZero || b.Kind == BOne
				if ac && bc {
					continue
				}
				n++
				pos = i
			}
			if n == 1 {
				a, b := l.Bits[pos], r.Bits[pos]
				if a.Kind == BZero || a.Kind == BOne {
					a, b = b, a
				}
				if a.Kind == BSrc && (b.Kind == BZero || b.Kind == BOne) {
					res := a // a == 1
					if b.Kind == BZero {
						res = notBit(a)
					}
					if x.Op == token.NEQ {
						res = notBit(res)
					}
					return AVal{K: AInt, Bits: BitVec{res}}
				}
			}
		}
		return AVal{K: AInt, Bits: mixVec(1)}
	case token.LSS, token.LEQ, token.GTR, token.GEQ:
		if signed {
			lr, okL := s.rangeOf(l.Bits, true)
			rr, okR := s.rangeOf(r.Bits, true)
			if okL && okR {
				switch x.Op {
				case token.LSS:
					if lr.hi < rr.lo {
						return boolVal(true)
					}
					if lr.lo >= rr.hi {
						return boolVal(false)
					}
				case token.LEQ:
					if lr.hi <= rr.lo {
						return boolVal(true)
					}
					if lr.lo > rr.hi {
						return boolVal(false)
					}
				case token.GTR:
					if lr.lo > rr.hi {
						return boolVal(true)
					}
					if lr.hi <= rr.lo {
						return boolVal(false)
					}
				case token.GEQ:
					if lr.lo >= rr.hi {
						return boolVal(true)
					}
					if lr.hi < rr.lo {
						return boolVal(false)
					}
				}
			}
		}
		// x >= 2^k (x < 2^k) when no bit of x above k can be set is bit k of x (its complement)
		if !signed || (l.Bits[lw-1].Kind == BZero && r.Bits[lw-1].Kind == BZero) {
			bitTest := func(xb BitVec, k uint64, geq bool) (AVal, bool) {
				if k == 0 || k&(k-1) != 0 {
					return AVal{}, false
				}
				pos := 0
				for v := k; v > 1; v >>= 1 {
					pos++
				}
				for i := pos + 1; i < len(xb); i++ {
					if xb[i].Kind != BZero {
						return AVal{}, false
					}
				}
				if pos >= len(xb) || xb[pos].Kind != BSrc {
					return AVal{}, false
				}
				b := xb[pos]
				if !geq {
					b = notBit(b)
				}
				return AVal{K: AInt, Bits: BitVec{b}}, true
			}
			if rc {
				switch x.Op {
				case token.GEQ:
					if v, ok := bitTest(l.Bits, rk, true); ok {
						return v
					}
				case token.LSS:
					if v, ok := bitTest(l.Bits, rk, false); ok {
						return v
					}
				case token.GTR:
					if v, ok := bitTest(l.Bits, rk+1, true); ok {
						return v
					}
				case token.LEQ:
					if v, ok := bitTest(l.Bits, rk+1, false); ok {
						return v
					}
				}
			}
		}
		// unsigned (or provably non-negative) value with known zero high bits against a constant
		if !signed || (l.Bits[lw-1].Kind == BZero && r.Bits[lw-1].Kind == BZero) {
			maxOf := func(b BitVec) uint64 {
				var u uint64
				for i, x := range b {
					if x.Kind != BZero {
						u |= 1 << uint(i)
					}
				}
				return u
			}
			minOf := func(b BitVec) uint64 {
				var u uint64
				for i, x := range b {
					if x.Kind == BOne {
						u |= 1 << uint(i)
					}
				}
				return u
			}
			lmin, lmax, rmin, rmax := minOf(l.Bits), maxOf(l.Bits), minOf(r.Bits), maxOf(r.Bits)
			if rg, ok := s.rangeOf(l.Bits, false); ok && rg.lo >= 0 {
				if uint64(rg.lo) > lmin {
					lmin = uint64(rg.lo)
				}
				if uint64(rg.hi) < lmax {
					lmax = uint64(rg.hi)
				}
			}
			if rg, ok := s.rangeOf(r.Bits, false); ok && rg.lo >= 0 {
				if uint64(rg.lo) > rmin {
					rmin = uint64(rg.lo)
				}
				if uint64(rg.hi) < rmax {
					rmax = uint64(rg.hi)
				}
			}
			switch x.Op {
			case token.LSS:
				if lmax < rmin {
					return boolVal(true)
				}
				if lmin >= rmax {
					return boolVal(false)
				}
			case token.LEQ:
				if lmax <= rmin {
					return boolVal(true)
				}
				if lmin > rmax {
					return boolVal(false)
				}
			case token.GTR:
				if lmin > rmax {
					return boolVal(true)
				}
				if lmax <= rmin {
					return boolVal(false)
				}
			case token.GEQ:
				if lmin >= rmax {
					return boolVal(true)
				}
				if lmax < rmin {
					return boolVal(false)
				}
			}
		}
		return AVal{K: AInt, Bits: mixVec(1)}
	}
	if w > 0 {
		return opaqueOp(x.Op, l.Bits, r.Bits, w)
	}
	return unknownOf("binop:"+x.Name(), x.Type(), true)
}

// andBitP is AND with products: the conjunction of two linear forms is the XOR of the
// pairwise conjunctions of their terms (a complemented form contributes the constant 1),
// each named as a source of its own, "and(x.i,y.j)".
func andBitP(a, b Bit) Bit {
	if r := andBit(a, b); r.Kind != BMix {
		return r
	}
	if a.Kind != BSrc || b.Kind != BSrc {
		return Bit{Kind: BMix}
	}
	ta, tb := a.terms(), b.terms()
	if a.Neg {
		ta = append(ta, "1")
	}
	if b.Neg {
		tb = append(tb, "1")
	}
	if len(ta)*len(tb) > 16 {
		return Bit{Kind: BMix}
	}
	acc := Bit{Kind: BZero}
	for _, x := range ta {
		for _, y := range tb {
			var t Bit
			switch {
			case x == "1" && y == "1":
				t = Bit{Kind: BOne}
			case x == "1":
				t = termBit(y)
			case y == "1":
				t = termBit(x)
			case x == y:
				t = termBit(x)
			default:
				if y < x {
					x, y = y, x
				}
				t = Bit{Kind: BSrc, Src: "and(" + x + "," + y + ")", Idx: 0}
			}
			acc = xorBit(acc, t)
		}
	}
	return acc
}

func termBit(t string) Bit {
	k := strings.LastIndexByte(t, '.')
	idx := 0
	fmt.Sscanf(t[k+1:], "%d", &idx)
	return Bit{Kind: BSrc, Src: t[:k], Idx: idx}
}

// IteBit is the exported form of the if-conversion merge c ? a : b.
func IteBit(c, a, b Bit) Bit { return iteBit(c, a, b) }

// iteBit is c ? a : b  =  b ^ c&(a^b).
func iteBit(c, a, b Bit) Bit {
	if a == b {
		return a
	}
	return xorBit(b, andBitP(c, xorBit(a, b)))
}

// opaqueOp names the result of an arithmetic operation the bit domain cannot express
// (a carry-propagating addition, a product, …) as a source of its own, so that two
// occurrences of the same operation on the same operands are the same value.
func opaqueOp(op token.Token, l, r BitVec, w int) AVal {
	for _, b := range append(append(BitVec(nil), l...), r...) {
		if b.Kind == BMix {
			return AVal{K: AInt, Bits: mixVec(w)}
		}
	}
	if (op == token.ADD || op == token.SUB) && len(l) == w && len(r) == w {
		if v, ok := affineOp(op, l, r, w); ok {
			return v
		}
	}
	ln, rn := NameBits(l), NameBits(r)
	if (op == token.ADD || op == token.MUL) && rn < ln {
		ln, rn = rn, ln
	}
	name := "(" + ln + op.String() + rn + ")"
	if len(name) > 600 || strings.ContainsAny(name, "^") {
		return AVal{K: AInt, Bits: mixVec(w)}
	}
	opaqueDefs[name] = opaqueDef{op: op, l: append(BitVec(nil), l...), r: append(BitVec(nil), r...)}
	return AVal{K: AInt, Bits: regSource(name, w)}
}

// argName renders an abstract value as a call argument.
func argName(v AVal) string {
	switch v.K {
	case AInt:
		return NameBits(v.Bits)
	case APtr:
		return v.Path
	case ASlice:
		if v.Lo < 0 && v.LoBits != nil {
			if v.Len >= 0 {
				return fmt.Sprintf("%s[%s:+%d]", v.Path, NameBits(v.LoBits), v.Len)
			}
			return fmt.Sprintf("%s[%s:]", v.Path, NameBits(v.LoBits))
		}
		if v.Lo == 0 && v.Len < 0 {
			return v.Path
		}
		if v.Lo == 0 {
			return fmt.Sprintf("%s[:%d]", v.Path, v.Len)
		}
		if v.Len < 0 {
			return fmt.Sprintf("%s[%d:]", v.Path, v.Lo)
		}
		return fmt.Sprintf("%s[%d:%d]", v.Path, v.Lo, v.Lo+v.Len)
	case AStr:
		if v.IsConst {
			return fmt.Sprintf("%q", v.Const)
		}
		return v.Path
	case ANil:
		return "nil"
	case AAgg, ATuple:
		var s []string
		for _, e := range v.Elems {
			s = append(s, argName(e))
		}
		return "{" + strings.Join(s, ",") + "}"
	}
	return v.Path
}

func (ex *Exec) readOnly(name string) bool {
	if ex.ReadOnly != nil && ex.ReadOnly(name) {
		return true
	}
	for _, p := range defaultReadOnly {
		if strings.HasPrefix(name, p) {
			return true
		}
	}
	return false
}

// call handles a call instruction; entered means a new frame was pushed.
func (ex *Exec) call(s *astate, fr *aframe, x *ssa.Call) (bool, error) {
	var args []AVal
	for _, a := range x.Call.Args {
		args = append(args, ex.val(s, fr, a))
	}
	name := CalleeName(&x.Call)
	callee := x.Call.StaticCallee()
	if callee == nil && !x.Call.IsInvoke() {
		// a call through a function value the path has pinned down (a table of handlers)
		if fv := ex.val(s, fr, x.Call.Value); fv.Fn != nil {
			callee = fv.Fn
			name = FuncName(callee)
		}
	}
	var bindings []AVal
	if callee != nil && !x.Call.IsInvoke() && x.Call.StaticCallee() == nil {
		if fv := ex.val(s, fr, x.Call.Value); fv.Fn == callee {
			bindings = fv.Elems
		}
	}
	if mc, ok := x.Call.Value.(*ssa.MakeClosure); ok {
		// a closure called where it is made: entered only when its captured values are all known here
		callee = nil
		if f, isF := mc.Fn.(*ssa.Function); isF && len(mc.Bindings) == len(f.FreeVars) {
			callee, name = f, FuncName(f)
			bindings = nil
			for _, b := range mc.Bindings {
				bindings = append(bindings, ex.val(s, fr, b))
			}
		}
	}
	if callee != nil && len(callee.FreeVars) != len(bindings) {
		callee = nil // a closure whose environment is not known: stays opaque
	}
	if b, ok := x.Call.Value.(*ssa.Builtin); ok {
		fr.env[x] = ex.builtin(s, fr, x, b.Name(), args)
		return false, nil
	}
	if ex.Observe != nil {
		ex.Observe(&AEvent{Callee: name, Fn: callee, Args: args, Mem: s.mem, Site: x, Index: len(s.trace)})
	}
	if ex.OnCall != nil {
		ev := &AEvent{Callee: name, Fn: callee, Args: args, Mem: s.mem.clone(), Site: x, Conds: append([]string(nil), s.conds...), Facts: map[string][2]uint64{}, Index: len(s.trace), Nils: s.nils}
		for k, v := range s.facts {
			ev.Facts[k] = v
		}
		ev.SFacts = map[string][2]int64{}
		for k, v := range s.sfacts {
			ev.SFacts[k] = v
		}
		if ret, handled := ex.OnCall(ev, s.mem); handled {
			ev.Ret = ret
			s.trace = append(s.trace, *ev)
			fr.env[x] = ret
			return false, nil
		}
		if ev.Record {
			s.trace = append(s.trace, *ev)
		}
	}
	if r, ok := ex.bufferIntrinsic(s, fr, name, args, x); ok {
		fr.env[x] = r
		return false, nil
	}
	if r, ok := ex.intrinsic(s, name, args, x); ok {
		fr.env[x] = r
		return false, nil
	}
	enter := callee != nil && len(callee.Blocks) > 0 && len(s.frames) < ex.MaxDepth
	if enter {
		if ex.Enter != nil {
			enter = ex.Enter(callee)
		} else {
			enter = repoFunc(callee)
		}
	}
	if enter {
		n := 0
		for _, f := range s.frames {
			if f.fn == callee {
				n++
			}
		}
		if n > ex.MaxRecursion {
			enter = false // (deeper) recursion stays opaque
		}
	}
	if enter {
		nf := &aframe{fn: callee, env: map[ssa.Value]AVal{}, block: callee.Blocks[0], call: x}
		if len(bindings) > 0 {
			nf.free = map[*ssa.FreeVar]AVal{}
			for i, fvr := range callee.FreeVars {
				nf.free[fvr] = bindings[i]
			}
		}
		for i, p := range callee.Params {
			if i < len(args) {
				nf.env[p] = args[i]
				nf.names = append(nf.names, argName(args[i]))
			}
		}
		s.frames = append(s.frames, nf)
		return true, nil
	}
	// opaque
	var as []string
	for _, a := range args {
		as = append(as, argName(a))
	}
	if name == "" {
		name = "dyn"
	}
	full := "call:" + name + "(" + strings.Join(as, ",") + ")"
	if !ex.readOnly(name) {
		for _, a := range args {
			switch a.K {
			case APtr:
				s.mem.Havoc(a.Path)
			case ASlice:
				s.mem.Havoc(a.Path + "[")
			}
		}
	}
	var rt types.Type = x.Type()
	r := unknownOf(full, rt, false)
	if name == "fmt.Errorf" || name == "errors.New" {
		r.NonNil = true
	}
	registerSources(r)
	fr.env[x] = r
	return false, nil
}

func (ex *Exec) builtin(s *astate, fr *aframe, x *ssa.Call, name string, args []AVal) AVal {
	switch name {
	case "len", "cap":
		if len(args) == 1 {
			a := args[0]
			switch a.K {
			case ASlice, AStr:
				if a.Len >= 0 {
					return AVal{K: AInt, Bits: constBits(uint64(a.Len), 64)}
				}
				src := regSource("len("+argName(a)+")", 63)
				return AVal{K: AInt, Bits: append(src, Bit{Kind: BZero})}
			case ANil:
				return AVal{K: AInt, Bits: constBits(0, 64)}
			case AAgg:
				return AVal{K: AInt, Bits: constBits(uint64(len(a.Elems)), 64)}
			case APtr:
				if p, ok := x.Call.Args[0].Type().Underlying().(*types.Pointer); ok {
					if arr, ok := p.Elem().Underlying().(*types.Array); ok {
						return AVal{K: AInt, Bits: constBits(uint64(arr.Len()), 64)}
					}
				}
			}
		}
		return AVal{K: AInt, Bits: append(mixVec(63), Bit{Kind: BZero})}
	case "copy":
		if len(args) == 2 {
			d, src := args[0], args[1]
			if d.K == ASlice {
				n := -1
				switch {
				case src.K == ASlice && src.Len >= 0 && d.Len >= 0:
					n = src.Len
					if d.Len < n {
						n = d.Len
					}
				case src.K == ASlice && src.Len < 0 && d.Len >= 0 && s.facts["len("+argName(src)+")"][0] >= uint64(d.Len):
					// the source is known (from a branch) to be at least as long as the destination
					n = d.Len
				case src.K == ASlice && src.Len >= 0 && d.Len < 0 && !s.mem.isFresh(d.Path):
					// a destination handed in by the caller: taken to be long enough
					n = src.Len
					ex.Assumed = append(ex.Assumed, fmt.Sprintf("len(%s) >= %d", argName(d), d.Lo+n))
				case src.K == AStr && src.Len >= 0 && d.Len >= 0:
					n = src.Len
					if d.Len < n {
						n = d.Len
					}
				case src.K == ANil:
					n = 0
				}
				if n >= 0 && d.Lo >= 0 && (src.K == ANil || src.IsConst || src.Lo >= 0) {
					tmp := make([]AVal, n)
					for i := 0; i < n; i++ {
						if src.K == AStr && src.IsConst {
							tmp[i] = AVal{K: AInt, Bits: constBits(uint64(src.Const[i]), 8)}
						} else {
							tmp[i] = s.mem.Load(fmt.Sprintf("%s[%d]", src.Path, src.Lo+i), elemType(x.Call.Args[0].Type()))
						}
					}
					for i := 0; i < n; i++ {
						s.mem.Store(fmt.Sprintf("%s[%d]", d.Path, d.Lo+i), tmp[i], elemType(x.Call.Args[0].Type()))
					}
					return AVal{K: AInt, Bits: constBits(uint64(n), 64)}
				}
				if n, ok := ex.copyAtFill(s, d, src, elemType(x.Call.Args[0].Type())); ok {
					return n
				}
				if d.Lo >= 0 {
					pre, segs, okD := s.mem.describe(src, elemType(x.Call.Args[0].Type()))
					s.mem.HavocFrom(d.Path, d.Lo)
					delete(s.mem.Seqs, d.Path)
					if okD {
						et := elemType(x.Call.Args[0].Type())
						for i, v := range pre {
							s.mem.Store(fmt.Sprintf("%s[%d]", d.Path, d.Lo+i), v, et)
						}
						s.mem.from[d.Path] = d.Lo + len(pre)
						s.mem.Seqs[d.Path] = segs
					}
				} else {
					s.mem.Havoc(d.Path + "[")
				}
			}
		}
		return AVal{K: AInt, Bits: append(mixVec(63), Bit{Kind: BZero})}
	case "append":
		if len(args) == 2 {
			a, b := args[0], args[1]
			et := elemType(x.Type())
			s.serial++
			nm := fmt.Sprintf("local:%s.append#%d", fr.fn.Name(), s.serial)
			pa, sa, okA := s.mem.describe(a, et)
			pb, sb, okB := s.mem.describe(b, et)
			if !okA || !okB || et == nil {
				s.mem.havoc[nm] = true
				return AVal{K: ASlice, Path: nm, Lo: 0, Len: -1}
			}
			s.mem.fresh[nm] = true
			prefix := pa
			var segs []ASeg
			if len(sa) == 0 {
				prefix = append(append([]AVal(nil), pa...), pb...)
				segs = sb
			} else {
				segs = append(segs, sa...)
				if len(pb) > 0 {
					segs = append(segs, ASeg{Cells: pb})
				}
				segs = append(segs, sb...)
			}
			for i, v := range prefix {
				s.mem.Store(fmt.Sprintf("%s[%d]", nm, i), v, et)
			}
			if len(segs) == 0 {
				return AVal{K: ASlice, Path: nm, Lo: 0, Len: len(prefix)}
			}
			s.mem.from[nm] = len(prefix)
			s.mem.Seqs[nm] = segs
			ln := ""
			if len(sa) == 0 && len(sb) == 1 && sb[0].Cells == nil {
				ln = fmt.Sprintf("(%d+len(%s))", len(pa), argName(b))
			}
			return AVal{K: ASlice, Path: nm, Lo: 0, Len: -1, LenName: ln}
		}
	case "min", "max":
		if len(args) == 2 {
			if a, ok := args[0].ConstVal(); ok {
				if b, ok := args[1].ConstVal(); ok {
					w := len(args[0].Bits)
					sa, sb := signExt(a, w), signExt(b, w)
					if (name == "min") == (sa < sb) {
						return args[0]
					}
					return args[1]
				}
			}
		}
	case "print", "println":
		return AVal{K: ATuple}
	}
	return unknownOf("builtin:"+name, x.Type(), true)
}

func elemType(t types.Type) types.Type {
	switch u := t.Underlying().(type) {
	case *types.Slice:
		return u.Elem()
	case *types.Array:
		return u.Elem()
	case *types.Pointer:
		return elemType(u.Elem())
	}
	return nil
}

// intrinsic gives the exact abstract meaning of a few library functions that only move
// octets: encoding/binary fixed-width accessors.
func (ex *Exec) intrinsic(s *astate, name string, args []AVal, x *ssa.Call) (AVal, bool) {
	const pre = "encoding/binary."
	if r, ok := ex.readerIntrinsic(s, name, args, x); ok {
		return r, true
	}
	if !strings.HasPrefix(name, pre) {
		return AVal{}, false
	}
	if name == pre+"Read" && len(args) == 3 && args[2].K == APtr && !args[2].Sym {
		// binary.Read(r, order, &x): x receives octets of the input — fresh named sources
		if mi, ok := x.Call.Args[2].(*ssa.MakeInterface); ok {
			if pt, ok := mi.X.Type().Underlying().(*types.Pointer); ok {
				s.serial++
				v := unknownOf(fmt.Sprintf("%s@read%d", args[2].Path, s.serial), pt.Elem(), false)
				registerSources(v)
				s.mem.Store(args[2].Path, v, pt.Elem())
				r := unknownOf(fmt.Sprintf("call:encoding/binary.Read#%d", s.serial), x.Type(), false)
				return r, true
			}
		}
		return AVal{}, false
	}
	rest := name[len(pre):]
	big := strings.HasPrefix(rest, "bigEndian.")
	little := strings.HasPrefix(rest, "littleEndian.")
	if !big && !little {
		return AVal{}, false
	}
	m := rest[strings.IndexByte(rest, '.')+1:]
	n := 0
	switch {
	case strings.HasSuffix(m, "16"):
		n = 2
	case strings.HasSuffix(m, "32"):
		n = 4
	case strings.HasSuffix(m, "64"):
		n = 8
	default:
		return AVal{}, false
	}
	u8 := types.Typ[types.Uint8]
	if strings.HasPrefix(m, "AppendUint") && len(args) == 3 && args[2].K == AInt && len(args[2].Bits) == 8*n {
		// AppendUintN(b, v) = append(b, the n octets of v)
		pa, sa, ok := s.mem.describe(args[1], u8)
		if !ok {
			return AVal{}, false
		}
		var oct []AVal
		for i := 0; i < n; i++ {
			pos := i
			if big {
				pos = n - 1 - i
			}
			oct = append(oct, AVal{K: AInt, Bits: append(BitVec(nil), args[2].Bits[8*pos:8*pos+8]...)})
		}
		s.serial++
		nm := fmt.Sprintf("local:appenduint#%d", s.serial)
		s.mem.fresh[nm] = true
		prefix := pa
		var segs []ASeg
		if len(sa) == 0 {
			prefix = append(append([]AVal(nil), pa...), oct...)
		} else {
			segs = append(append(segs, sa...), ASeg{Cells: oct})
		}
		for i, v := range prefix {
			s.mem.Store(fmt.Sprintf("%s[%d]", nm, i), v, u8)
		}
		if len(segs) == 0 {
			return AVal{K: ASlice, Path: nm, Lo: 0, Len: len(prefix), NonNil: true}, true
		}
		s.mem.from[nm] = len(prefix)
		s.mem.Seqs[nm] = segs
		return AVal{K: ASlice, Path: nm, Lo: 0, Len: -1, NonNil: true}, true
	}
	if strings.HasPrefix(m, "Uint") && len(args) == 2 && args[1].K == ASlice && (args[1].Lo >= 0 || args[1].LoBits != nil) {
		b := args[1]
		out := make(BitVec, 8*n)
		for i := 0; i < n; i++ {
			cell := fmt.Sprintf("%s[%d]", b.Path, b.Lo+i)
			if b.Lo < 0 {
				cell = fmt.Sprintf("%s[%s]", b.Path, NameBits(opaqueOp(token.ADD, b.LoBits, constBits(uint64(i), 64), 64).Bits))
			}
			c := s.mem.Load(cell, u8)
			registerSources(c)
			if c.K != AInt || len(c.Bits) != 8 {
				return AVal{}, false
			}
			pos := i // little endian: octet i is bits 8i..
			if big {
				pos = n - 1 - i
			}
			copy(out[8*pos:8*pos+8], c.Bits)
		}
		return AVal{K: AInt, Bits: out}, true
	}
	if strings.HasPrefix(m, "PutUint") && len(args) == 3 && args[1].K == ASlice && args[1].Lo >= 0 && args[2].K == AInt && len(args[2].Bits) == 8*n {
		b := args[1]
		for i := 0; i < n; i++ {
			pos := i
			if big {
				pos = n - 1 - i
			}
			s.mem.Store(fmt.Sprintf("%s[%d]", b.Path, b.Lo+i), AVal{K: AInt, Bits: append(BitVec(nil), args[2].Bits[8*pos:8*pos+8]...)}, u8)
		}
		return AVal{K: ATuple}, true
	}
	return AVal{}, false
}

// SameAVal reports whether two abstract values are structurally identical.
func SameAVal(a, b AVal) bool { return sameAVal(a, b) }

// ---- affine normal form of sums -------------------------------------------------------------
//
// x+4-1, 3+x and (x+1)+2 are one value. Sums and differences are kept in a canonical shape:
// the constants folded into one, the other operands sorted by name, so that the name of an
// opaque sum (which is what index expressions, cells and facts are keyed by) does not depend on
// how the source text associates it. Arithmetic is modulo 2^w throughout, so the rearrangement
// is exact.

type affTerm struct {
	name string
	bits BitVec
	coef int64
}

func affineOf(b BitVec, depth int) (c int64, terms []affTerm, ok bool) {
	if depth > 24 {
		return 0, nil, false
	}
	if k, isK := constOfBits(b); isK {
		return signExt(k, len(b)), nil, true
	}
	for _, x := range b {
		if x.Kind == BMix {
			return 0, nil, false
		}
	}
	name := NameBits(b)
	if d, has := opaqueDefs[name]; has && (d.op == token.ADD || d.op == token.SUB) && len(d.l) == len(b) && len(d.r) == len(b) {
		if src, plain := plainSource(b); plain && src == name {
			cl, tl, okL := affineOf(d.l, depth+1)
			cr, tr, okR := affineOf(d.r, depth+1)
			if okL && okR {
				sign := int64(1)
				if d.op == token.SUB {
					sign = -1
				}
				c = cl + sign*cr
				terms = append(terms, tl...)
				for _, t := range tr {
					t.coef *= sign
					terms = append(terms, t)
				}
				return c, terms, true
			}
		}
	}
	return 0, []affTerm{{name, b, 1}}, true
}

func affineOp(op token.Token, l, r BitVec, w int) (AVal, bool) {
	cl, tl, okL := affineOf(l, 0)
	cr, tr, okR := affineOf(r, 0)
	if !okL || !okR {
		return AVal{}, false
	}
	sign := int64(1)
	if op == token.SUB {
		sign = -1
	}
	c := cl + sign*cr
	merged := map[string]*affTerm{}
	var names []string
	add := func(t affTerm, s int64) {
		if m, has := merged[t.name]; has {
			m.coef += s * t.coef
			return
		}
		nt := t
		nt.coef = s * t.coef
		merged[t.name] = &nt
		names = append(names, t.name)
	}
	for _, t := range tl {
		add(t, 1)
	}
	for _, t := range tr {
		add(t, sign)
	}
	sort.Strings(names)
	var pos, neg []affTerm
	for _, n := range names {
		t := *merged[n]
		switch {
		case t.coef == 0:
		case t.coef > 0 && t.coef <= 3:
			for i := int64(0); i < t.coef; i++ {
				pos = append(pos, t)
			}
		case t.coef < 0 && t.coef >= -3:
			for i := int64(0); i < -t.coef; i++ {
				neg = append(neg, t)
			}
		default:
			return AVal{}, false
		}
	}
	// the constant, as a w-bit two's complement number
	if w < 64 {
		c = signExt(uint64(c)&(1<<uint(w)-1), w)
	}
	mk := func(o token.Token, a, b BitVec, name string) BitVec {
		if len(name) > 600 || strings.ContainsAny(name, "^") {
			return nil
		}
		opaqueDefs[name] = opaqueDef{op: o, l: append(BitVec(nil), a...), r: append(BitVec(nil), b...)}
		return regSource(name, w)
	}
	var acc BitVec
	accName := ""
	if len(pos) > 0 {
		acc, accName = pos[0].bits, pos[0].name
		pos = pos[1:]
	} else if len(neg) > 0 {
		// c - x …: start from the constant
		acc, accName = constBits(uint64(c), w), fmt.Sprintf("%d", uint64(c)&widthMask(w))
		c = 0
	} else {
		return AVal{K: AInt, Bits: constBits(uint64(c), w)}, true
	}
	for _, t := range pos {
		name := "(" + accName + "+" + t.name + ")"
		if acc = mk(token.ADD, acc, t.bits, name); acc == nil {
			return AVal{}, false
		}
		accName = name
	}
	for _, t := range neg {
		name := "(" + accName + "-" + t.name + ")"
		if acc = mk(token.SUB, acc, t.bits, name); acc == nil {
			return AVal{}, false
		}
		accName = name
	}
	switch {
	case c > 0:
		name := fmt.Sprintf("(%d+%s)", c, accName)
		if acc = mk(token.ADD, constBits(uint64(c), w), acc, name); acc == nil {
			return AVal{}, false
		}
	case c < 0:
		name := fmt.Sprintf("(%s-%d)", accName, -c)
		if acc = mk(token.SUB, acc, constBits(uint64(-c), w), name); acc == nil {
			return AVal{}, false
		}
	}
	if len(acc) != w {
		// a narrower leaf standing alone (x+0): widen by zero extension is what the caller had
		out := make(BitVec, w)
		copy(out, acc)
		for i := len(acc); i < w; i++ {
			out[i] = Bit{Kind: BZero}
		}
		acc = out
	}
	return AVal{K: AInt, Bits: acc}, true
}

func widthMask(w int) uint64 {
	if w >= 64 {
		return math.MaxUint64
	}
	return 1<<uint(w) - 1
}

// LinForm is the affine normal form of an abstract integer: value = C + Σ coef·leaf (mod 2^w).
func LinForm(b BitVec) (c int64, terms map[string]int64, ok bool) {
	cc, ts, ok := affineOf(b, 0)
	if !ok {
		return 0, nil, false
	}
	terms = map[string]int64{}
	for _, t := range ts {
		terms[t.name] += t.coef
		if terms[t.name] == 0 {
			delete(terms, t.name)
		}
	}
	return cc, terms, true
}

func hasMixBits(b BitVec) bool {
	for _, x := range b {
		if x.Kind == BMix {
			return true
		}
	}
	return len(b) == 0
}

// LinFormOfName is LinForm for a named w-bit source (e.g. an index expression taken from a cell path).
func LinFormOfName(name string, w int) (c int64, terms map[string]int64, ok bool) {
	if name == "" {
		return 0, nil, false
	}
	isNum := true
	for _, r := range name {
		if r < '0' || r > '9' {
			isNum = false
		}
	}
	if isNum {
		var k int64
		fmt.Sscanf(name, "%d", &k)
		return k, map[string]int64{}, true
	}
	return LinForm(srcBitsNoReg(name, w))
}

// LinTerm is one non-constant operand of an affine normal form, with its bits.
type LinTerm struct {
	Name string
	Bits BitVec
	Coef int64
}

// LinFormBits is LinForm with the operands' bit vectors (to look inside an operand such as a
// big-endian word of two cells).
func LinFormBits(b BitVec) (c int64, terms []LinTerm, ok bool) {
	cc, ts, ok := affineOf(b, 0)
	if !ok {
		return 0, nil, false
	}
	idx := map[string]int{}
	for _, t := range ts {
		if i, has := idx[t.name]; has {
			terms[i].Coef += t.coef
			continue
		}
		idx[t.name] = len(terms)
		terms = append(terms, LinTerm{t.name, t.bits, t.coef})
	}
	var out []LinTerm
	for _, t := range terms {
		if t.Coef != 0 {
			out = append(out, t)
		}
	}
	return cc, out, true
}

// lenBits: the length of a slice/string value as an abstract integer (what the builtin len gives).
func lenBits(v AVal) (BitVec, bool) {
	switch v.K {
	case ASlice, AStr:
		if v.Len >= 0 {
			return constBits(uint64(v.Len), 64), true
		}
		if v.K == ASlice && v.Lo < 0 {
			return nil, false
		}
		return append(regSource("len("+argName(v)+")", 63), Bit{Kind: BZero}), true
	case ANil:
		return constBits(0, 64), true
	}
	return nil, false
}

// copyAtFill: copy(dst[off:], src) into an object the analysed code made with a length that is
// only known as an expression (make([]byte, len(a)+len(b)+…)), where off is exactly the number of
// elements written so far: the object is being filled front to back, and src becomes its next
// segment. The copy is complete (returns len(src)) when the room left, (made length) - off -
// len(src), is provably non-negative: a sum of lengths with non-negative coefficients.
func (ex *Exec) copyAtFill(s *astate, d, src AVal, et types.Type) (AVal, bool) {
	if d.K != ASlice || d.Len >= 0 || !s.mem.isFresh(d.Path) || et == nil {
		return AVal{}, false
	}
	total, has := s.mem.cells[d.Path+".$len"]
	if !has || total.K != AInt {
		return AVal{}, false
	}
	off := d.LoBits
	if d.Lo >= 0 {
		off = constBits(uint64(d.Lo), 64)
	}
	if off == nil {
		return AVal{}, false
	}
	// how much of the object is filled: known prefix + the segments appended so far
	from := s.mem.from[d.Path]
	if _, hasFrom := s.mem.from[d.Path]; !hasFrom {
		// nothing but (possibly) individual cells written: filled up to the highest known cell
		for _, k := range s.mem.Cells(d.Path + "[") {
			if _, i, ok := splitIndex(k); ok && i+1 > from {
				from = i + 1
			}
		}
	}
	fill := constBits(uint64(from), 64)
	for _, sg := range s.mem.Seqs[d.Path] {
		var l BitVec
		if sg.Cells != nil {
			l = constBits(uint64(len(sg.Cells)), 64)
		} else {
			lb, ok := lenBits(AVal{K: ASlice, Path: sg.Src, Lo: sg.SrcLo, Len: -1})
			if !ok {
				return AVal{}, false
			}
			l = lb
		}
		fill = opaqueOp(token.ADD, fill, l, 64).Bits
	}
	if diff := opaqueOp(token.SUB, off, fill, 64); diff.K != AInt {
		return AVal{}, false
	} else if k, isK := constOfBits(diff.Bits); !isK || k != 0 {
		return AVal{}, false
	}
	n, okN := lenBits(src)
	if !okN {
		return AVal{}, false
	}
	room := opaqueOp(token.SUB, opaqueOp(token.SUB, total.Bits, fill, 64).Bits, n, 64)
	c, terms, okL := LinForm(room.Bits)
	if !okL || c < 0 {
		return AVal{}, false
	}
	for name, k := range terms {
		if k < 0 || !strings.HasPrefix(name, "len(") {
			return AVal{}, false
		}
	}
	pre, segs, okD := s.mem.describe(src, et)
	if !okD {
		return AVal{}, false
	}
	cur := append([]ASeg(nil), s.mem.Seqs[d.Path]...)
	if len(cur) == 0 {
		// still a plain prefix: extend it
		for i, v := range pre {
			s.mem.Store(fmt.Sprintf("%s[%d]", d.Path, from+i), v, et)
		}
		from += len(pre)
	} else if len(pre) > 0 {
		cur = append(cur, ASeg{Cells: pre})
	}
	cur = append(cur, segs...)
	s.mem.from[d.Path] = from
	if len(cur) > 0 {
		s.mem.Seqs[d.Path] = cur
	}
	s.mem.bump(d.Path + "[")
	return AVal{K: AInt, Bits: n}, true
}

// readerIntrinsic: a bytes.Reader over a slice of known length is a cursor into that slice:
// bytes.NewReader(b) makes one at position 0; binary.Read(r, order, &x) / binary.Read(r, order, sl)
// moves the next octets into x (big- or little-endian for 16/32/64-bit integers) resp. into the
// known-length slice sl and advances; with too few octets left it returns an error and moves
// nothing. Reader.Len is what is left. Readers over slices of unknown length stay opaque.
func (ex *Exec) readerIntrinsic(s *astate, name string, args []AVal, x *ssa.Call) (AVal, bool) {
	switch name {
	case "bytes.NewReader":
		if len(args) == 1 && args[0].K == ASlice && args[0].Lo >= 0 && args[0].Len >= 0 {
			s.serial++
			obj := fmt.Sprintf("reader#%d", s.serial)
			s.mem.cells[obj+".$src"] = args[0]
			s.mem.cells[obj+".$pos"] = AVal{K: AInt, Bits: constBits(0, 64)}
			return AVal{K: APtr, Path: obj, NonNil: true}, true
		}
	case "bytes.Reader.Len":
		if len(args) == 1 && args[0].K == APtr {
			if src, ok := s.mem.cells[args[0].Path+".$src"]; ok {
				pos, _ := s.mem.cells[args[0].Path+".$pos"].ConstVal()
				return AVal{K: AInt, Bits: constBits(uint64(src.Len-int(pos)), 64)}, true
			}
		}
	case "encoding/binary.Read":
		if len(args) != 3 || args[0].K != APtr {
			return AVal{}, false
		}
		src, ok := s.mem.cells[args[0].Path+".$src"]
		if !ok {
			return AVal{}, false
		}
		p64, _ := s.mem.cells[args[0].Path+".$pos"].ConstVal()
		pos := int(p64)
		big := true
		if oi, ok := x.Call.Args[1].(*ssa.MakeInterface); ok {
			if ld, ok := oi.X.(*ssa.UnOp); ok {
				if g, ok := ld.X.(*ssa.Global); ok && strings.Contains(g.Name(), "Little") {
					big = false
				}
			}
		}
		u8 := types.Typ[types.Uint8]
		octet := func(i int) AVal { return s.mem.Load(fmt.Sprintf("%s[%d]", src.Path, src.Lo+pos+i), u8) }
		eof := AVal{K: AUnknown, Path: "io.ErrUnexpectedEOF", NonNil: true}
		mi, isMI := x.Call.Args[2].(*ssa.MakeInterface)
		if !isMI {
			return AVal{}, false
		}
		switch dt := mi.X.Type().Underlying().(type) {
		case *types.Pointer:
			if args[2].K != APtr || args[2].Sym {
				return AVal{}, false
			}
			w := widthOf(dt.Elem())
			if w <= 0 || w%8 != 0 {
				return AVal{}, false
			}
			n := w / 8
			if pos+n > src.Len {
				return eof, true
			}
			bits := make(BitVec, w)
			for i := 0; i < n; i++ {
				o := octet(i)
				if o.K != AInt || len(o.Bits) != 8 {
					return AVal{}, false
				}
				at := i
				if big {
					at = n - 1 - i
				}
				copy(bits[8*at:8*at+8], o.Bits)
			}
			s.mem.Store(args[2].Path, AVal{K: AInt, Bits: bits}, dt.Elem())
			s.mem.cells[args[0].Path+".$pos"] = AVal{K: AInt, Bits: constBits(uint64(pos+n), 64)}
			return AVal{K: ANil}, true
		case *types.Slice:
			if args[2].K != ASlice || args[2].Lo < 0 || args[2].Len < 0 || widthOf(dt.Elem()) != 8 {
				return AVal{}, false
			}
			n := args[2].Len
			if pos+n > src.Len {
				return eof, true
			}
			for i := 0; i < n; i++ {
				s.mem.Store(fmt.Sprintf("%s[%d]", args[2].Path, args[2].Lo+i), octet(i), u8)
			}
			s.mem.cells[args[0].Path+".$pos"] = AVal{K: AInt, Bits: constBits(uint64(pos+n), 64)}
			return AVal{K: ANil}, true
		}
	}
	return AVal{}, false
}

// nameComparison: a boolean about to be returned to a caller that is an undecided comparison of
// nameable values becomes a named bit ("cmp:(L op R)"), so that the caller's branch on it can refine
// the path (a predicate helper `return t == 2 || t == 4` then forks like the inline test).
func (ex *Exec) nameComparison(s *astate, fr *aframe, v ssa.Value, dflt AVal) AVal {
	for i := 0; i < 4; i++ {
		ph, isPhi := v.(*ssa.Phi)
		if !isPhi {
			break
		}
		src, has := fr.phiSrc[ph]
		if !has {
			return dflt
		}
		v = src
	}
	neg := false
	if u, isU := v.(*ssa.UnOp); isU && u.Op == token.NOT {
		v, neg = u.X, true
	}
	bo, ok := v.(*ssa.BinOp)
	if !ok {
		return dflt
	}
	switch bo.Op {
	case token.EQL, token.NEQ, token.LSS, token.LEQ, token.GTR, token.GEQ:
	default:
		return dflt
	}
	l, r := ex.val(s, fr, bo.X), ex.val(s, fr, bo.Y)
	if l.K != AInt || r.K != AInt || hasMixBits(l.Bits) || hasMixBits(r.Bits) {
		return dflt
	}
	name := fmt.Sprintf("cmp:(%s%s%s)", NameBits(l.Bits), bo.Op, NameBits(r.Bits))
	cmpRegistry[name] = cmpInfo{l, r, bo.Op, isSigned(bo.X.Type())}
	srcWidths[name] = 1
	return AVal{K: AInt, Bits: BitVec{Bit{Kind: BSrc, Src: name, Idx: 0, Neg: neg}}}
}
