package rules

import (
	"fmt"
	"go/token"
	"go/types"
	"strings"

	"golang.org/x/tools/go/ssa"

	"stgverif/internal/core"
)

func init() { Registry["C02"] = c02 }

func c02(c *core.Ctx) map[string]interface{} {
	c.Explanation = "Static check of the session-lifecycle drivers and of main's test-mode loops (C02): the structural part of 'every UE's establish / service request / release / deregister history is accepted and no COUNT is reused'. Decided: (R0.nilglobal) as for C03; (R2.script) on every path of EstablishPDU, ServiceRequest, ReleasePDU and DeregisterUE the N2 sends are exactly the scripted messages in order, each protected with header type 1 or 2, securityContextAvailable=true and newSecurityContext=false (a second 'true' would restart COUNT at 0 under the same key), each outcome message sent only after a receive since the previous send; (R2.ids) every wrapper receives the ids of the driver's own UE in their roles, every NAS message is protected with that UE's context, and after a new InitialUEMessage (a new UE-associated NG connection) AmfUeNgapId is learned again from the AMF before it is used; (R2.pos) positional reads of a received IE list are justified by the mandatory leading IEs of TS 38.413 9.2; (R2.psi) inside one driver the PDU session identity of the NAS message and of the NGAP response derive from one definition, without a lossy narrowing, and fit PDUSessionID (0..255); (R2.report) EstablishPDU returns DecodePDUSessionNASPDU / DecodePDUSessionResourceSetupRequestTransfer of the setup item it received and main registers exactly these three values with the data plane; (R2.clamp) every ueList[i] / pduList[i] in main is inside a loop whose bound is provably <= the number of registrations (equal bound, len of a list filled once per registration, or stgutg.Min of such), service and release bounds are <= the establishment bound; (R2.min) stgutg.Min returns the smaller argument on every path; (R2.order) per mode: connect < NG setup < register* < establish* < service* < release* < deregister*, never backwards; (components) the rule sets of C06 (COUNT advanced once per protected message, single writer), C12 (extraction of UE IP / TEID / UPF IP), C13 (builders) and C16 (distinct UE identities) are part of this check. (R9.mt/R9.ctor/R9.acc) message-type constants, the emulator's NAS constructors and the bit layout of the IE accessors they use are checked as in C09. (R19.oneread) no procedure waits in a read loop whose end the received bytes decide (a procedure that can wait for ever does not complete the lifecycle). (how) R2.script, R2.ids, R2.report read the evaluator model of the drivers (see C01); (R2.psi across drivers) the PDU session identity each later driver hands to NGAP and NAS is the one EstablishPDU derives: compared by name after renaming the UE parameter, and when spelled differently folded on sample SUPI numbers inside the checker's own expression domain - only a sample that separates them (printed) makes a violation. NOT decided: acceptance by a real AMF/SMF for every runtime value; timing (the drivers pace themselves with sleeps); that the AMF's answers are of the expected type."
	c.Assumptions = []string{"ManageError terminates the process when its error argument is non-nil (C19)", "a conformant AMF sends the IEs of a message in the order of TS 38.413 9.2 (clause 10.3.6)"}
	r0nilglobal(c, ngapEntries(c)...)
	models := map[string]*drvModel{}
	for _, n := range []string{"EstablishPDU", "ServiceRequest", "ReleasePDU", "DeregisterUE", "ModifyPDU"} {
		models[n] = driverModel(c, mustFunc(c, pStg, n))
	}
	r2script(c, models)
	r2ids(c, models)
	r2psi(c, models)
	r2report(c, models["EstablishPDU"])
	r2min(c)
	r2main(c)
	r19oneread(c)
	include(c, "C06", "C12", "C13", "C16")
	// NAS messages of the exchange: message types, constructor discipline and IE accessor layout
	// (the part of C09 that concerns what the emulator sends; R9.tab with its listed findings on
	// messages this exchange does not use stays with C09)
	r9mt(c)
	r9ctor(c)
	r9acc(c)
	return nil
}

const protUL = "send:UplinkNASTransport[prot(1|2,T,F):"

var lifecycleScripts = map[string][]expectedSend{
	"EstablishPDU": {
		{protUL + "GetUlNasTransport_PduSessionEstablishmentRequest]", 0, "UL NAS TRANSPORT carrying the PDU Session Establishment Request under the current context"},
		{"send:PDUSessionResourceSetupResponse", 1, "successful outcome of PDUSessionResourceSetup: answers the AMF's request"},
	},
	"ServiceRequest": {
		{"send:InitialUEMessage[prot(1|2,T,F):GetServiceRequest]", 0, "Service Request is integrity protected with the current context (TS 24.501 5.6.1.2)"},
		{"send:InitialContextSetupResponseForServiceRequest", 1, "successful outcome of InitialContextSetup: answers the AMF's request"},
	},
	"ReleasePDU": {
		{protUL + "GetUlNasTransport_PduSessionReleaseRequest]", 0, "UL NAS TRANSPORT carrying the PDU Session Release Request"},
		{"send:PDUSessionResourceReleaseResponse", 1, "successful outcome of PDUSessionResourceRelease: answers the AMF's PDUSessionResourceReleaseCommand"},
		{protUL + "GetUlNasTransport_PduSessionReleaseComplete]", 0, "UL NAS TRANSPORT carrying the PDU Session Release Complete"},
	},
	"DeregisterUE": {
		{protUL + "GetDeregistrationRequest]", 0, "UE-initiated deregistration under the current context"},
		{"send:UEContextReleaseComplete", 1, "successful outcome of UEContextRelease: answers the AMF's UEContextReleaseCommand"},
	},
	"ModifyPDU": {
		{protUL + "GetUlNasTransport_PduSessionModificationRequest]", 0, "UL NAS TRANSPORT carrying the PDU Session Modification Request"},
	},
}

func r2script(c *core.Ctx, models map[string]*drvModel) {
	const R = "R2.script"
	c.Rule(R, "lifecycle drivers send exactly the scripted messages in order on every path; protected with header type 1|2, context available, never a new context; outcomes after a receive")
	for _, n := range []string{"EstablishPDU", "ServiceRequest", "ReleasePDU", "DeregisterUE", "ModifyPDU"} {
		if x := driverModelX(c, models[n].fn); xUsable(c, x) {
			checkScriptX(c, R, x, lifecycleScripts[n])
			continue
		}
		checkScript(c, R, models[n], lifecycleScripts[n])
	}
}

func r2ids(c *core.Ctx, models map[string]*drvModel) {
	const R = "R2.ids"
	c.Rule(R, "own ids in their roles, own security context; AMF-UE-NGAP-ID re-learned after a new InitialUEMessage; positional IE reads justified")
	nPos := 0
	for _, n := range []string{"EstablishPDU", "ServiceRequest", "ReleasePDU", "DeregisterUE", "ModifyPDU"} {
		m := models[n]
		nPos += checkPositional(c, "R2.pos", m)
		if x := driverModelX(c, m.fn); xUsable(c, x) {
			checkIDsX(c, R, x)
			r2relearnX(c, R, x, n)
			continue
		}
		checkIDs(c, R, m)
		// a new InitialUEMessage opens a new UE-associated logical NG-connection: the AMF
		// assigns the AMF-UE-NGAP-ID of that connection in its first answer
		for _, s := range m.sends {
			if s.Wrapper != "GetInitialUEMessage" {
				continue
			}
			for _, s2 := range m.sends {
				if s2.WCall == nil || s2 == s || !core.Dominates(s.Write, s2.Write) {
					continue
				}
				for i, r := range s2.Roles {
					if r != "amf" || i >= len(s2.WCall.Common().Args) {
						continue
					}
					relearned := false
					for _, b := range m.fn.Blocks {
						for _, in := range b.Instrs {
							if st, ok := in.(*ssa.Store); ok && isFieldOfUE(st.Addr, "AmfUeNgapId") && core.Dominates(s.Write, st) && core.MayPrecede(st, s2.WCall) &&
								(core.Dominates(st, s2.WCall) || guardedOnlyByShape(m.p, s.Write, st)) {
								vp := m.p.Path(st.Val)
								if strings.Contains(vp, pNgap+".Decoder(") && strings.HasSuffix(vp, ".Value.AMFUENGAPID.Value") {
									relearned = true
								}
							}
						}
					}
					c.Check(relearned, R, shortName(core.FuncName(m.fn))+":"+s2.Wrapper+":amf-id-of-new-connection", s2.WCall.Pos(), "AmfUeNgapId assigned from the AMF's answer between the InitialUEMessage and this use", "%s opens a new UE-associated NG connection with InitialUEMessage and then answers with the AMF-UE-NGAP-ID of the previous connection: the AMF assigns the id of the new connection in its first downlink message (TS 38.413 8.6.1), it must be read from there", n)
				}
			}
		}
	}
	c.Rule("R2.pos", "List[k] of a received message is read as alternative F only when the first k+1 IEs are mandatory and the k-th is F (TS 38.413 9.2, 10.3.6)")
	c.Sites(nPos)
}

// stripConvs returns the value underneath value conversions and the list of conversion
// target types from outermost to innermost.
func stripConvs(v ssa.Value) (ssa.Value, []types.Type) {
	var ts []types.Type
	for {
		switch x := v.(type) {
		case *ssa.Convert:
			ts = append(ts, x.Type())
			v = x.X
		case *ssa.ChangeType:
			v = x.X
		default:
			return v, ts
		}
	}
}

func intTypeRange(t types.Type) (lo, hi int64, ok bool) {
	b, isB := t.Underlying().(*types.Basic)
	if !isB {
		return 0, 0, false
	}
	switch b.Kind() {
	case types.Uint8:
		return 0, 255, true
	case types.Int8:
		return -128, 127, true
	case types.Uint16:
		return 0, 65535, true
	case types.Int16:
		return -32768, 32767, true
	case types.Uint32:
		return 0, 1<<32 - 1, true
	case types.Int32:
		return -1 << 31, 1<<31 - 1, true
	case types.Int, types.Int64:
		return -1 << 63, 1<<63 - 1, true
	case types.Uint, types.Uint64, types.Uintptr:
		return 0, 1<<63 - 1, true // upper half not representable here; treated as wide
	}
	return 0, 0, false
}

func r2psi(c *core.Ctx, models map[string]*drvModel) {
	const R = "R2.psi"
	c.Rule(R, "one PDU session identity per driver: NAS constructor and NGAP builder derive it from one definition, without lossy narrowing, within PDUSessionID 0..255")
	psiCtors := map[string]bool{"GetUlNasTransport_PduSessionEstablishmentRequest": true, "GetUlNasTransport_PduSessionReleaseRequest": true,
		"GetUlNasTransport_PduSessionReleaseComplete": true, "GetUlNasTransport_PduSessionModificationRequest": true}
	for _, n := range []string{"EstablishPDU", "ServiceRequest", "ReleasePDU", "ModifyPDU"} {
		m := models[n]
		ia := core.NewIntervalAnalyzer(m.fn)
		type use struct {
			what string
			v    ssa.Value
			at   *ssa.BasicBlock
			pos  token.Pos
		}
		var uses []use
		for _, s := range m.sends {
			if s.WCall != nil {
				for i, r := range s.Roles {
					if r == "pdu" && i < len(s.WCall.Common().Args) {
						uses = append(uses, use{"NGAP " + s.Wrapper, s.WCall.Common().Args[i], s.WCall.Block(), s.WCall.Pos()})
					}
				}
			}
			if s.NAS != nil && s.NAS.CtorCall != nil && psiCtors[s.NAS.Ctor] {
				uses = append(uses, use{"NAS " + s.NAS.Ctor, s.NAS.CtorCall.Common().Args[0], s.NAS.CtorCall.Block(), s.NAS.CtorCall.Pos()})
			}
		}
		if len(uses) == 0 {
			continue
		}
		key := shortName(core.FuncName(m.fn)) + ":pdu-session-id"
		var errDef, errNas, errNgap []string
		nNas, nNgap := 0, 0
		var base ssa.Value
		for _, u := range uses {
			b, convs := stripConvs(u.v)
			isNgap := strings.HasPrefix(u.what, "NGAP")
			if isNgap {
				nNgap++
			} else {
				nNas++
			}
			if base == nil {
				base = b
			} else if b != base {
				errDef = append(errDef, fmt.Sprintf("%s takes its PDU session id from %s, another use from %s", u.what, clip(m.p.Path(b)), clip(m.p.Path(base))))
				continue
			}
			iv := ia.At(b, u.at)
			rng := "unbounded"
			if iv.Known {
				rng = fmt.Sprintf("%d..%d", iv.Lo, iv.Hi)
			}
			// apply the conversions innermost first: each must contain the value range
			for i := len(convs) - 1; i >= 0; i-- {
				lo, hi, ok := intTypeRange(convs[i])
				if !ok || (lo == -1<<63 && hi == 1<<63-1) {
					continue // widening to a 64-bit signed type loses nothing
				}
				if !iv.Known || iv.Lo < lo || iv.Hi > hi {
					msg := fmt.Sprintf("%s narrows the id (derivable range %s) to %s: this layer names session (id mod %d) while the other layer names id", u.what, rng, convs[i].String(), hi+1)
					if isNgap {
						errNgap = append(errNgap, msg)
					} else {
						errNas = append(errNas, msg)
					}
					break
				}
			}
			if isNgap && (!iv.Known || iv.Lo < 0 || iv.Hi > 255) {
				errNgap = append(errNgap, fmt.Sprintf("%s receives an id with derivable range %s; PDUSessionID is 0..255 and the encoder refuses anything else (the emulator exits)", u.what, rng))
			}
		}
		c.Check(len(errDef) == 0, R, key+":one-definition", uses[0].pos, fmt.Sprintf("%d uses of one definition", len(uses)), "%s: %s", n, strings.Join(errDef, "; "))
		if nNas > 0 {
			c.Check(len(errNas) == 0, R, key+":nas-lossless", uses[0].pos, "no lossy narrowing on the way to the NAS constructor", "%s: %s", n, strings.Join(errNas, "; "))
		}
		if nNgap > 0 {
			c.Check(len(errNgap) == 0, R, key+":ngap-range", uses[0].pos, "within 0..255, no lossy narrowing", "%s: %s", n, strings.Join(errNgap, "; "))
		}
	}
	xs := map[string]*xModel{}
	for _, n := range []string{"EstablishPDU", "ServiceRequest", "ReleasePDU", "ModifyPDU"} {
		xs[n] = driverModelX(c, models[n].fn)
	}
	r2psiAcrossX(c, R, xs)
}

func r2report(c *core.Ctx, m *drvModel) {
	const R = "R2.report"
	c.Rule(R, "EstablishPDU returns the UE IP / TEID / UPF IP decoded from the setup item it received; main registers exactly these with the data plane")
	fn := m.fn
	p := m.p
	if x := driverModelX(c, fn); xUsable(c, x) {
		r2reportEstablishX(c, R, x)
		r2reportMain(c, R)
		return
	}
	var rets []*ssa.Return
	for _, b := range fn.Blocks {
		if r, ok := b.Instrs[len(b.Instrs)-1].(*ssa.Return); ok {
			rets = append(rets, r)
		}
	}
	okRet := len(rets) >= 1
	why := ""
	for _, r := range rets {
		if len(r.Results) != 3 {
			okRet = false
			continue
		}
		ip, teid, upf := p.Path(r.Results[0]), p.Path(r.Results[1]), p.Path(r.Results[2])
		dn := "call:" + pStg + ".DecodePDUSessionNASPDU("
		dt := "call:" + pStg + ".DecodePDUSessionResourceSetupRequestTransfer("
		item := ""
		if strings.HasPrefix(ip, dn) && strings.HasSuffix(ip, ".PDUSessionNASPDU.Value)") {
			item = strings.TrimSuffix(strings.TrimPrefix(ip, dn), ".PDUSessionNASPDU.Value)")
		}
		wantT := dt + item + ".PDUSessionResourceSetupRequestTransfer)"
		if item == "" || teid != wantT+"#0" || upf != wantT+"#1" {
			okRet = false
			why = fmt.Sprintf("returns (%s, %s, %s)", clip(ip), clip(teid), clip(upf))
		}
		if !strings.Contains(item, pNgap+".Decoder(") || !strings.Contains(item, "PDUSessionResourceSetupListSUReq.List[0]") {
			okRet = false
			if why == "" {
				why = "the setup item is not item 0 of the PDUSessionResourceSetupListSUReq of the decoded message: " + clip(item)
			}
		}
	}
	c.Check(okRet, R, "EstablishPDU:returns-decoded-values", fn.Pos(), "(DecodePDUSessionNASPDU(item.PDUSessionNASPDU), DecodePDUSessionResourceSetupRequestTransfer(item.Transfer)#0, #1)", "EstablishPDU must report the UE IP of the item's NAS PDU and the TEID and UPF address of the same item's transfer: %s", why)
	r2reportMain(c, R)
}

// r2reportMain: AddClient(clientip, teid, upfip) with the three results of one EstablishPDU call.
func r2reportMain(c *core.Ctx, R string) {
	if mainUnreadable(c, R) {
		return
	}
	mainFn := mustFunc(c, pMain, "main")
	n := 0
	for _, body := range mainBodies(c) {
		mp := body.p
		for _, ci := range core.Calls(body.fn) {
			name := core.CalleeName(ci.Common())
			if !strings.HasSuffix(name, "XDPGTP.AddClient") {
				continue
			}
			n++
			a := ci.Common().Args
			var got []string
			for _, x := range a[len(a)-3:] {
				got = append(got, mp.Path(x))
			}
			est := "call:" + pStg + ".EstablishPDU("
			okA := strings.HasPrefix(got[0], est) && strings.HasSuffix(got[0], "#0") && got[1] == strings.TrimSuffix(got[0], "#0")+"#1" && got[2] == strings.TrimSuffix(got[0], "#0")+"#2"
			c.Check(okA, R, "main:AddClient:args", ci.Pos(), "AddClient(clientip, teid, upfip) of one EstablishPDU call", "main must register the UE IP, TEID and UPF address returned by one EstablishPDU call, in this order")
		}
	}
	if n == 0 {
		c.Fail(R, "main:AddClient", mainFn.Pos(), "main never registers an established session with the data plane")
	}
}

func r2min(c *core.Ctx) {
	const R = "R2.min"
	c.Rule(R, "stgutg.Min returns one of its arguments and never the larger")
	fn := mustFunc(c, pStg, "Min")
	c.Analysed(core.FuncName(fn))
	if r2minX(c, R, fn) {
		return
	}
	p := core.NewPather(fn)
	// cond → (which param is known <= the other when the condition is true / false)
	type fact struct{ t, f string } // "p0<=p1", "p1<=p0", "" (nothing)
	facts := map[string]fact{
		"(p0>p1)": {"p1<=p0", "p0<=p1"}, "(p1<p0)": {"p1<=p0", "p0<=p1"},
		"(p0<p1)": {"p0<=p1", "p1<=p0"}, "(p1>p0)": {"p0<=p1", "p1<=p0"},
		"(p0>=p1)": {"p1<=p0", "p0<=p1"}, "(p1<=p0)": {"p1<=p0", "p0<=p1"},
		"(p0<=p1)": {"p0<=p1", "p1<=p0"}, "(p1>=p0)": {"p0<=p1", "p1<=p0"},
	}
	br := func(v ssa.Value) string {
		if _, ok := facts[p.Path(v)]; ok {
			return p.Path(v)
		}
		return ""
	}
	ev := func(in ssa.Instruction) string {
		if r, ok := in.(*ssa.Return); ok && len(r.Results) == 1 {
			return "ret:" + p.Path(r.Results[0])
		}
		return ""
	}
	paths, ok := core.EventPathsB(fn, ev, br, 1, 1000)
	if !ok || len(paths) == 0 {
		c.SoftUndecided("stgutg.Min: paths not enumerable")
		return
	}
	bad := ""
	for _, path := range paths {
		known := map[string]bool{}
		for _, e := range path {
			if strings.HasPrefix(e, "ret:") {
				r := strings.TrimPrefix(e, "ret:")
				switch r {
				case "p0":
					if !known["p0<=p1"] {
						bad = "a path returns x without having established x <= y"
					}
				case "p1":
					if !known["p1<=p0"] {
						bad = "a path returns y without having established y <= x"
					}
				default:
					bad = "a path returns " + r + ", not one of the arguments"
				}
				continue
			}
			i := strings.LastIndex(e, "=")
			if i < 0 {
				continue
			}
			f := facts[e[:i]]
			if e[i+1:] == "T" {
				known[f.t] = true
			} else {
				known[f.f] = true
			}
		}
	}
	c.Check(bad == "", R, "stgutg.Min:returns-the-smaller", fn.Pos(), fmt.Sprintf("%d paths, each returns the argument proven <= the other", len(paths)), "stgutg.Min is the clamp of the test-mode loops and must return min(x, y): %s", bad)
}

// ---------------------------------------------------------------- main loops

type listPhi struct {
	phi    *ssa.Phi
	count  string // path of the registration loop bound
	header *ssa.BasicBlock
}

type countedLoop struct {
	header *ssa.BasicBlock
	body   *ssa.BasicBlock
	iv     *ssa.Phi
	bound  ssa.Value
	rng    bool // range form: index is iv+1, init -1
}

// countedLoopOf recognises `for i := 0; i < B; i++` and `for i := range L` headers.
func countedLoopOf(b *ssa.BasicBlock) *countedLoop {
	if len(b.Instrs) == 0 {
		return nil
	}
	iff, ok := b.Instrs[len(b.Instrs)-1].(*ssa.If)
	if !ok {
		return nil
	}
	cmp, ok := iff.Cond.(*ssa.BinOp)
	if !ok || cmp.Op != token.LSS {
		return nil
	}
	for _, in := range b.Instrs {
		ph, ok := in.(*ssa.Phi)
		if !ok {
			break
		}
		if len(ph.Edges) != 2 {
			continue
		}
		for k := 0; k < 2; k++ {
			bo, isBo := ph.Edges[k].(*ssa.BinOp)
			if !isBo || bo.Op != token.ADD {
				continue
			}
			step, okS := core.ConstInt(bo.Y)
			init, okI := core.ConstInt(ph.Edges[1-k])
			if !okS || !okI || step != 1 {
				continue
			}
			if bo.X == ssa.Value(ph) && init == 0 && cmp.X == ssa.Value(ph) {
				return &countedLoop{header: b, body: b.Succs[0], iv: ph, bound: cmp.Y}
			}
			// range: phi = (-1, phi+1) and the test is (phi+1) < len
			if bo.X == ssa.Value(ph) && init == -1 && cmp.X == ssa.Value(bo) {
				return &countedLoop{header: b, body: b.Succs[0], iv: ph, bound: cmp.Y, rng: true}
			}
		}
	}
	return nil
}

func r2main(c *core.Ctx) {
	const RC, RO = "R2.clamp", "R2.order"
	c.Rule(RC, "every ueList[i]/pduList[i] in main sits in a loop whose bound is provably <= the number of registrations; service/release bounds <= establishment bound")
	c.Rule(RO, "per mode: connect < NG setup < register* < establish* < service* < release* < deregister*, never backwards")

	if mainUnreadable(c, RC+"/R2.order") {
		return
	}
	nIdxAll := 0
	for _, body := range modeBodies(c) {
		nIdxAll += r2mainBody(c, RC, RO, body)
	}
	c.Sites(nIdxAll)
	if nIdxAll < 6 {
		c.SoftUndecided("main: only %d list index sites recognised (confirmed by hand: 10)", nIdxAll)
	}
}

// r2mainBody: the clamp and order obligations of one body that runs modes; returns the number of
// list index sites it found.
func r2mainBody(c *core.Ctx, RC, RO string, body *mainBody) int {
	fn, p := body.fn, body.p
	c.Analysed(core.FuncName(fn))
	loops := map[*ssa.BasicBlock]*countedLoop{}
	for _, b := range fn.Blocks {
		if l := countedLoopOf(b); l != nil {
			loops[b] = l
		}
	}
	// list phis
	lists := map[*ssa.Phi]*listPhi{}
	for hb, l := range loops {
		if l.rng {
			continue
		}
		for _, in := range hb.Instrs {
			ph, ok := in.(*ssa.Phi)
			if !ok {
				break
			}
			if _, isSlice := ph.Type().Underlying().(*types.Slice); !isSlice || len(ph.Edges) != 2 {
				continue
			}
			for k := 0; k < 2; k++ {
				call, isCall := ph.Edges[k].(*ssa.Call)
				if !isCall {
					continue
				}
				bi, isB := call.Call.Value.(*ssa.Builtin)
				if !isB || bi.Name() != "append" || call.Call.Args[0] != ssa.Value(ph) {
					continue
				}
				// exactly one element appended
				one := false
				if sl, isSl := call.Call.Args[1].(*ssa.Slice); isSl {
					if al, isAl := sl.X.(*ssa.Alloc); isAl {
						if at, isArr := al.Type().Underlying().(*types.Pointer).Elem().Underlying().(*types.Array); isArr && at.Len() == 1 {
							one = true
						}
					}
				}
				// the list starts empty
				init := ph.Edges[1-k]
				empty := false
				if kc, isK := init.(*ssa.Const); isK && kc.IsNil() {
					empty = true
				}
				if one && empty {
					lists[ph] = &listPhi{phi: ph, count: p.Path(l.bound), header: hb}
				} else {
					c.SoftUndecided("main: list %s is not filled by exactly one append per registration from empty", ph.Name())
				}
			}
		}
	}
	// only the registration loop may grow a list: any other append to a list phi is a different value and is not a list phi use
	countOf := func(v ssa.Value) (string, bool) {
		// len(L) of a list phi
		if call, ok := v.(*ssa.Call); ok {
			if bi, isB := call.Call.Value.(*ssa.Builtin); isB && bi.Name() == "len" {
				if ph, isPh := call.Call.Args[0].(*ssa.Phi); isPh {
					if l := lists[ph]; l != nil {
						return l.count, true
					}
				}
				return "", false
			}
		}
		return p.Path(v), true
	}
	var le func(b ssa.Value, target string, depth int) bool
	le = func(b ssa.Value, target string, depth int) bool {
		if cnt, ok := countOf(b); ok && cnt == target {
			return true
		}
		if depth > 6 {
			return false
		}
		if call, ok := b.(*ssa.Call); ok && core.CalleeName(call.Common()) == pStg+".Min" {
			if len(call.Call.Args) == 2 && (le(call.Call.Args[0], target, depth+1) || le(call.Call.Args[1], target, depth+1)) {
				return true
			}
			// a minimum is <= a minimum over a subset of its operands (nested, reordered or variadic spelling)
			lb, lt := minLeaves(p.Path(b)), minLeaves(target)
			if len(lt) == 0 {
				return false
			}
			for _, t := range lt {
				found := false
				for _, x := range lb {
					if x == t {
						found = true
					}
				}
				if !found {
					return false
				}
			}
			return true
		}
		return false
	}
	// configuration is not written after it was read
	for _, b := range fn.Blocks {
		for _, in := range b.Instrs {
			if st, ok := in.(*ssa.Store); ok && strings.HasPrefix(p.Path(st.Addr), "local:*stgutg.Conf#0.Configuration.") {
				c.Fail(RC, "main:configuration-written", st.Pos(), "main overwrites a configuration field (%s); the loop bounds are compared as configuration reads", p.Path(st.Addr))
			}
		}
	}
	// index sites
	ord := ordinals{}
	nIdx := 0
	enclosing := func(blk *ssa.BasicBlock) *countedLoop {
		var best *countedLoop
		for _, l := range loops {
			if l.body.Dominates(blk) && core.Reaches(blk, l.header) {
				if best == nil || best.body.Dominates(l.body) {
					best = l
				}
			}
		}
		return best
	}
	for _, b := range fn.Blocks {
		for _, in := range b.Instrs {
			var x, idx ssa.Value
			switch v := in.(type) {
			case *ssa.IndexAddr:
				x, idx = v.X, v.Index
			case *ssa.Index:
				x, idx = v.X, v.Index
			default:
				continue
			}
			ph, isPh := x.(*ssa.Phi)
			if !isPh || lists[ph] == nil {
				continue
			}
			L := lists[ph]
			nIdx++
			key := ord.next("main:" + lastSegments(p.Path(x), 1) + "[" + p.Path(idx) + "]@" + procedureOfBlock(fn, b))
			l := enclosing(b)
			if l == nil {
				c.Fail(RC, key, in.Pos(), "a UE/PDU list is indexed outside a counted loop")
				continue
			}
			okIdx := false
			if l.rng {
				if bo, isBo := idx.(*ssa.BinOp); isBo && bo.Op == token.ADD && bo.X == ssa.Value(l.iv) {
					okIdx = true
				}
			} else {
				okIdx = idx == ssa.Value(l.iv)
			}
			if !okIdx {
				c.Fail(RC, key, in.Pos(), "the index %s is not the induction variable of the enclosing loop", p.Path(idx))
				continue
			}
			c.Check(le(l.bound, L.count, 0), RC, key, in.Pos(), "loop bound <= number of registrations ("+lastSegments(L.count, 1)+")", "the loop runs up to %s, which is not provably <= the number of registered UEs (%s): with more repetitions than registrations the index runs past the list", clip(p.Path(l.bound)), lastSegments(L.count, 1))
		}
	}
	// procedure calls, their loops, order and prerequisite bounds
	procs := []string{"RegisterUE", "EstablishPDU", "ServiceRequest", "ReleasePDU", "DeregisterUE"}
	conns := core.CallsTo(fn, pTglib+".ConnectToAmf")
	for mi, co := range conns {
		mode := fmt.Sprintf("mode%d", body.first+mi+1)
		var calls []ssa.CallInstruction
		var names []string
		bounds := map[string]*countedLoop{}
		for _, pn := range procs {
			for _, ci := range core.CallsTo(fn, pStg+"."+pn) {
				if core.Dominates(co.(*ssa.Call), ci.(*ssa.Call)) {
					calls = append(calls, ci)
					names = append(names, pn)
					bounds[pn] = enclosing(ci.Block())
				}
			}
		}
		okOrder := true
		why := ""
		for i := 0; i+1 < len(calls); i++ {
			a, b := calls[i].Block(), calls[i+1].Block()
			if !core.Reaches(a, b) || core.Reaches(b, a) {
				okOrder = false
				why = names[i] + " and " + names[i+1] + " are not strictly ordered"
			}
		}
		if bounds["RegisterUE"] == nil || bounds["DeregisterUE"] == nil || bounds["EstablishPDU"] == nil || bounds["ReleasePDU"] == nil {
			okOrder = false
			why = "a lifecycle procedure is missing or not inside a counted loop"
		}
		c.Check(okOrder, RO, "main:"+mode+":"+strings.Join(names, "<"), co.Pos(), "strict forward order", "main %s: %s", mode, why)
		if !okOrder {
			continue
		}
		est, _ := countOf(bounds["EstablishPDU"].bound)
		for _, pn := range []string{"ServiceRequest", "ReleasePDU"} {
			l := bounds[pn]
			if l == nil {
				continue
			}
			c.Check(le(l.bound, est, 0) || sameCount(le, l.bound, bounds["EstablishPDU"].bound, lists, p), RC, "main:"+mode+":"+pn+"<=EstablishPDU", l.header.Instrs[len(l.header.Instrs)-1].Pos(), "bound <= establishment bound", "%s runs for %s UEs, not provably <= the %s UEs whose PDU session was established: it would be attempted for a UE without its prerequisite", pn, clip(p.Path(l.bound)), clip(p.Path(bounds["EstablishPDU"].bound)))
		}
		// the UE handed to each procedure is the list element of the loop index
		for i, ci := range calls {
			if names[i] == "RegisterUE" {
				continue
			}
			ui := 0
			for k, prm := range ci.Common().StaticCallee().Params {
				if derefNamed(prm.Type()) == pTglib+".RanUeContext" {
					ui = k
				}
			}
			up := p.Path(ci.Common().Args[ui])
			okUE := false
			for ph := range lists {
				if strings.HasPrefix(up, p.Path(ph)+"[") && derefNamed(ph.Type().Underlying().(*types.Slice).Elem()) == pTglib+".RanUeContext" {
					okUE = true
				}
			}
			c.Check(okUE, RC, "main:"+mode+":"+names[i]+":ue-of-loop-index", ci.Pos(), "ueList[i]", "%s must act on the registered UE of the loop index, acts on %s", names[i], clip(up))
			if names[i] == "ServiceRequest" {
				a := ci.Common().Args
				c.Check(indexOfPath(p.Path(a[0])) == indexOfPath(p.Path(a[1])), RC, "main:"+mode+":ServiceRequest:same-index", ci.Pos(), "pduList[i], ueList[i]", "ServiceRequest must receive the PDU and the UE of the same index")
			}
		}
	}
	return nIdx
}

// sameCount: both bounds are lengths of lists filled in the same registration loop.
func sameCount(le func(ssa.Value, string, int) bool, a, b ssa.Value, lists map[*ssa.Phi]*listPhi, p *core.Pather) bool {
	lenOf := func(v ssa.Value) *listPhi {
		if call, ok := v.(*ssa.Call); ok {
			if bi, isB := call.Call.Value.(*ssa.Builtin); isB && bi.Name() == "len" {
				if ph, isPh := call.Call.Args[0].(*ssa.Phi); isPh {
					return lists[ph]
				}
			}
		}
		return nil
	}
	la, lb := lenOf(a), lenOf(b)
	return la != nil && lb != nil && la.header == lb.header && la.count == lb.count
}

func indexOfPath(s string) string {
	i := strings.Index(s, "[")
	if i < 0 {
		return s
	}
	return s[i:]
}

// procedureOfBlock names the lifecycle procedure called in the loop containing b (for keys).
func procedureOfBlock(fn *ssa.Function, b *ssa.BasicBlock) string {
	for _, in := range b.Instrs {
		if ci, ok := in.(ssa.CallInstruction); ok {
			n := core.CalleeName(ci.Common())
			if strings.HasPrefix(n, pStg+".") {
				switch strings.TrimPrefix(n, pStg+".") {
				case "EstablishPDU", "ServiceRequest", "ReleasePDU", "DeregisterUE":
					return strings.TrimPrefix(n, pStg+".")
				}
			}
		}
	}
	return "loop"
}
