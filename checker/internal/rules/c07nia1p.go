package rules

import (
	"fmt"
	"sort"
	"strings"

	"golang.org/x/tools/go/ssa"

	"stgverif/internal/core"
)

// NIA1 folded for concrete message lengths (a partition rule, DESIGN §11.18): with LENGTH and the
// number of message octets fixed every loop of NIA1 folds, whatever its form; the keystream
// generator is summarised (z1..z5 are names) and so is the GF(2^64) multiplication (R7.gf64
// decides it): its k-th call returns the name E<k> and its operands are recorded. What has to
// come out, for every case, is TS 35.215 4.3.2: ceil(LENGTH/64) multiplications by P = z1||z2,
// the k-th of (E<k-1> xor M_k) with M_k the message octets 8k..8k+7 most significant first and
// zeros where the message has ended; one multiplication of (E xor LENGTH) by Q = z3||z4; all
// modulo 0x1b; MAC-I the high half of the last product xor z5, most significant octet first.
// The message octets and the keystream stay symbolic, so each case stands for every message
// of that length.

type nia1Mul struct {
	a, b core.BitVec
	poly uint64
	ok   bool
}

type nia1Case struct{ n, L int }

func nia1Cases() []nia1Case {
	var cs []nia1Case
	for n := 1; n <= 17; n++ {
		cs = append(cs, nia1Case{n, 8 * n})
	}
	cs = append(cs, nia1Case{24, 192}, nia1Case{25, 200}, nia1Case{33, 264})
	for _, n := range []int{1, 5, 8, 9, 13, 16, 17, 24} {
		cs = append(cs, nia1Case{n, 8*n - 3}, nia1Case{n, 8*n - 7})
	}
	return cs
}

func nia1FoldCase(fn *ssa.Function, cs nia1Case) (muls []nia1Mul, mac []core.AVal, why string) {
	ex := core.NewExec()
	ex.MaxStates = 128
	ex.OnCall = func(ev *core.AEvent, m *core.AMem) (core.AVal, bool) {
		switch {
		case ev.Callee == pSnow+".InitSnow3g":
			return core.AVal{K: core.ATuple}, true
		case ev.Callee == pSnow+".GenerateKeystream":
			if len(ev.Args) == 2 && ev.Args[1].K == core.ASlice && ev.Args[1].Lo >= 0 {
				if n, isK := ev.Args[0].ConstVal(); isK && n <= 16 {
					for i := 0; i < int(n); i++ {
						m.Store(fmt.Sprintf("%s[%d]", ev.Args[1].Path, ev.Args[1].Lo+i), core.ArgBits(fmt.Sprintf("z[%d]", i), 32, 32), nil)
					}
				}
			}
			return core.AVal{K: core.ATuple}, true
		case ev.Callee == pSec+".mul":
			if len(ev.Args) != 3 || ev.Args[0].K != core.AInt || ev.Args[1].K != core.AInt {
				return core.AVal{}, false
			}
			p, isK := ev.Args[2].ConstVal()
			muls = append(muls, nia1Mul{a: ev.Args[0].Bits, b: ev.Args[1].Bits, poly: p, ok: isK})
			return core.ArgBits(fmt.Sprintf("E%d", len(muls)-1), 64, 64), true
		case strings.HasPrefix(ev.Callee, "fmt."), strings.HasPrefix(ev.Callee, "log."):
			return core.OpaqueRet(ev), true
		}
		return core.AVal{}, false
	}
	args := core.DefaultArgs(fn)
	if len(args) != 6 {
		return nil, nil, "NIA1 does not have the six parameters of the model"
	}
	args[4] = core.AVal{K: core.ASlice, Path: "p4", Lo: 0, Len: cs.n, NonNil: true}
	args[5] = core.AVal{K: core.AInt, Bits: core.ConstBits(uint64(cs.L), 64)}
	outs, err := ex.Run(fn, args, nil)
	if err != nil {
		return nil, nil, err.Error()
	}
	if len(ex.Unsound) > 0 {
		return nil, nil, fmt.Sprint(ex.Unsound)
	}
	var live []core.AOutcome
	for _, o := range outs {
		if !o.Panicked {
			live = append(live, o)
		}
	}
	if len(live) != 1 {
		return nil, nil, fmt.Sprintf("%d paths for a fixed length (a branch does not fold)", len(live))
	}
	o := live[0]
	if len(o.Ret) < 1 || o.Ret[0].K != core.ASlice || o.Ret[0].Lo < 0 || o.Ret[0].Len != 4 {
		return muls, nil, ""
	}
	for k := 0; k < 4; k++ {
		mac = append(mac, o.Mem.Load(fmt.Sprintf("%s[%d]", o.Ret[0].Path, o.Ret[0].Lo+k), nil))
	}
	return muls, mac, ""
}

func bitTermSet(b core.Bit) ([]string, bool) {
	switch b.Kind {
	case core.BZero:
		return nil, true
	case core.BSrc:
		ts := []string{fmt.Sprintf("%s.%d", b.Src, b.Idx)}
		if b.More != "" {
			ts = append(ts, strings.Split(b.More, "^")...)
		}
		sort.Strings(ts)
		return ts, true
	}
	return nil, false
}

func sameTerms(b core.Bit, neg bool, want ...string) bool {
	ts, ok := bitTermSet(b)
	if !ok {
		return false
	}
	if len(want) == 0 {
		// a constant: zero, or one when the inversion is expected
		if neg {
			return b.Kind == core.BOne
		}
		return b.Kind == core.BZero
	}
	if b.Kind != core.BSrc || b.Neg != neg {
		return false
	}
	sort.Strings(want)
	return strings.Join(ts, "^") == strings.Join(want, "^")
}

func zPair(hi, lo string) core.BitVec {
	v := make(core.BitVec, 64)
	for i := 0; i < 32; i++ {
		v[i] = core.Bit{Kind: core.BSrc, Src: lo, Idx: i}
		v[32+i] = core.Bit{Kind: core.BSrc, Src: hi, Idx: i}
	}
	return v
}

// nia1Partition: "" for an obligation that holds in every case, the first failing case otherwise;
// usable=false when some case could not be folded.
type nia1Verdict struct {
	usable             bool
	unusable           string
	blocks, pq, mac    string
	cases              int
}

func nia1Partition(fn *ssa.Function) nia1Verdict {
	v := nia1Verdict{usable: true}
	P, Q := zPair("z[0]", "z[1]"), zPair("z[2]", "z[3]")
	for _, cs := range nia1Cases() {
		muls, mac, why := nia1FoldCase(fn, cs)
		if why != "" {
			return nia1Verdict{usable: false, unusable: fmt.Sprintf("LENGTH %d over %d octets: %s", cs.L, cs.n, why)}
		}
		v.cases++
		tag := fmt.Sprintf("LENGTH %d (%d message octets)", cs.L, cs.n)
		nb := (cs.L + 63) / 64
		if len(muls) != nb+1 {
			if v.blocks == "" {
				v.blocks = fmt.Sprintf("%s: %d multiplications, want %d (one per 64-bit block, the last block zero-padded, and one for the length)", tag, len(muls), nb+1)
			}
			continue
		}
		for k, m := range muls {
			if !m.ok || m.poly != 0x1b {
				if v.pq == "" {
					v.pq = fmt.Sprintf("%s: multiplication %d is not modulo x^64+x^4+x^3+x+1 (0x1b)", tag, k)
				}
			}
			want, wn := P, "P = z1||z2"
			if k == nb {
				want, wn = Q, "Q = z3||z4"
			}
			if !core.SameVec(m.b, want) && v.pq == "" {
				v.pq = fmt.Sprintf("%s: multiplication %d of %d is not by %s", tag, k+1, nb+1, wn)
			}
			if len(m.a) != 64 {
				if v.blocks == "" {
					v.blocks = tag + ": the multiplicand is not a 64-bit value"
				}
				continue
			}
			for b := 0; b < 64; b++ {
				var want []string
				if k > 0 {
					want = append(want, fmt.Sprintf("E%d.%d", k-1, b))
				}
				if k < nb {
					if oct := 8*k + 7 - b/8; oct < cs.n {
						want = append(want, fmt.Sprintf("p4[%d].%d", oct, b%8))
					}
					if !sameTerms(m.a[b], false, want...) && v.blocks == "" {
						v.blocks = fmt.Sprintf("%s: bit %d of block %d is %s, want %s (message octets 8k..8k+7 most significant first, zero after the end of the message)", tag, b, k, m.a[b], wantStr(want))
					}
				} else {
					neg := (uint64(cs.L)>>uint(b))&1 == 1
					if !sameTerms(m.a[b], neg, want...) && v.pq == "" {
						v.pq = fmt.Sprintf("%s: bit %d of the value multiplied by Q is %s, want the evaluation value xor LENGTH", tag, b, m.a[b])
					}
				}
			}
		}
		if len(mac) != 4 {
			if v.mac == "" {
				v.mac = tag + ": no 4-octet MAC is returned"
			}
			continue
		}
		for k := 0; k < 4; k++ {
			if mac[k].K != core.AInt || len(mac[k].Bits) != 8 {
				if v.mac == "" {
					v.mac = fmt.Sprintf("%s: MAC octet %d is %s", tag, k, clip(nm(mac[k])))
				}
				continue
			}
			for j := 0; j < 8; j++ {
				pos := 8*(3-k) + j
				if !sameTerms(mac[k].Bits[j], false, fmt.Sprintf("z[4].%d", pos), fmt.Sprintf("E%d.%d", nb, 32+pos)) && v.mac == "" {
					v.mac = fmt.Sprintf("%s: bit %d of MAC octet %d is %s, want bit %d of the final product xor bit %d of z5", tag, j, k, mac[k].Bits[j], 32+pos, pos)
				}
			}
		}
	}
	return v
}

func wantStr(w []string) string {
	if len(w) == 0 {
		return "0"
	}
	return strings.Join(w, "^")
}

var nia1PartitionMemo = map[*ssa.Function]*nia1Verdict{}

func nia1PartitionOf(fn *ssa.Function) *nia1Verdict {
	if v, ok := nia1PartitionMemo[fn]; ok {
		return v
	}
	v := nia1Partition(fn)
	nia1PartitionMemo[fn] = &v
	return &v
}
