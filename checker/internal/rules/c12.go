package rules

import (
	"fmt"
	"go/ast"
	"go/constant"
	"go/token"
	"go/types"
	"sort"
	"strings"

	"golang.org/x/tools/go/ssa"

	"stgverif/internal/core"
)

func init() { Registry["C12"] = c12 }

// T-24501-8321: optional IEs of PDU SESSION ESTABLISHMENT ACCEPT that the library
// does not model (later releases), as the extractor must skip them:
// value = total octets incl. IEI for fixed-size IEs, -1 / -2 for one / two length octets.
var t24501Extra8321 = map[int64]int64{
	0x17: -1, // 5GSM network feature support, TLV
	0x18: 4,  // Serving PLMN rate control, TLV with fixed length 2 (4 octets in all)
	0x77: -2, // ATSSS container, TLV-E
	0x66: -1, // IP header compression configuration, TLV
	0x1f: 3,  // Ethernet header compression configuration, TLV with fixed length 1
}

func c12(c *core.Ctx) map[string]interface{} {
	c.Explanation = "Static table/offset/termination check of the hand-written extractors in stgutg/pdu.go (C12). Decided: (R12.tab) the optional-IE length table and the half-octet list of DecodePDUSessionNASPDU agree, row by row, with the library's own PDU SESSION ESTABLISHMENT ACCEPT codec (IEI, fixed size resp. one/two length octets - the writer's and the reader's tables agree) and with TS 24.501 table 8.3.2.1.1 for the five IEIs the library does not know; (R12.off) every fixed offset, expressed as a linear form so that regrouping constants does not matter, equals the layout computed from the library's message definitions: 7-octet security header, DL NAS TRANSPORT payload-container length at octet 4, QoS-rules length at octet 5 of the Accept, optional part starting 14 + QoS-rules length octets in, PDU address value at IEI+3..IEI+7 and matched by the library's IEI 0x29; in the transfer walk the IE id is compared with ProtocolIEIDULNGUUPTNLInformation at IE-aligned positions (start 3, stride id 2 + criticality 1 + length 1 + length), TEID = last 4 octets and address = the 4 octets before; (R12.term) on every path through both loops the index strictly increases or the loop is left (lower bounds from an interval analysis that models wrap-around of narrow integer arithmetic). (R12.tight) no extraction slice is guarded by a bound one octet stricter than it needs (directly or through an inclusive-position helper given the exclusive end); (R2.report) EstablishPDU hands the PDU Session NAS-PDU and the transfer of item 0 of the received setup list - and nothing else - to the two extractors and returns their results, which main registers with the data plane. (components) the rule set of C04 (with C03) is part of this check: the extractors read what ngap.Decoder makes of the request, and a well-formed request the decoder refuses or mis-reads is never extracted correctly. (how) the two walks are read off ONE symbolic iteration of their loops (cursor and every other loop-carried value replaced by names; affine normal form of the index arithmetic): R12.off per element identifier - the cursor advances by what that element's format asks for (fixed size / 2+length octet / 3+two length octets / 1 for a half-octet IE), a way back to the loop head that has not identified the element is a violation; the transfer walk starts at 3, advances by 4+transfer[cursor+3], stops at id 139 and takes TEID/address from cursor+4+length-4.. / -8..; R12.term: the constant part of every advance is >= 1 and no operand is negative. NOT decided: equality of the returned values for all network encodings (e.g. a length determinant above 127 in the transfer), behaviour on truncated input (a panic terminates); R12.pos (positional access List[2]) is informational."
	c.Assumptions = []string{"the Accept is carried in a protected DL NAS TRANSPORT as payload container (the emulator's use)", "APER encoding of the transfer: 1 preamble octet + 2-octet container length, each IE = id(2) criticality(1) length(1, < 128) value"}
	m := buildNasModel(c)
	r12tab(c, m)
	r12off(c, m)
	r12transfer(c)
	handled := map[string]bool{}
	if xferDone[c] {
		handled["DecodePDUSessionResourceSetupRequestTransfer"] = true
	}
	std, half, pduIEI, okStd := stdAcceptFormats(m)
	if okStd && r12walkX(c, std, half, pduIEI) {
		handled["DecodePDUSessionNASPDU"] = true
	} else {
		r12skip(c)
	}
	r12term(c, handled)
	r12tight(c)
	// the values reported are those of the setup item the request carries (R2.report, shared with C02)
	r2report(c, driverModel(c, mustFunc(c, pStg, "EstablishPDU")))
	// "every well-formed request": what the extractors read is what ngap.Decoder makes of the
	// request, so the decoder's agreement with the encoding rules (C04, with C03) is part of this check
	include(c, "C04")
	return nil
}

// mapLiteral reads a package-level map[byte]int literal.
func mapLiteral(c *core.Ctx, pkg, name string) (map[int64]int64, token.Pos) {
	pk := c.P.Pkg(pkg)
	for _, f := range pk.Syntax {
		for _, d := range f.Decls {
			gd, ok := d.(*ast.GenDecl)
			if !ok || gd.Tok != token.VAR {
				continue
			}
			for _, sp := range gd.Specs {
				vs := sp.(*ast.ValueSpec)
				for i, n := range vs.Names {
					if n.Name != name || i >= len(vs.Values) {
						continue
					}
					cl, ok := vs.Values[i].(*ast.CompositeLit)
					if !ok {
						return nil, n.Pos()
					}
					out := map[int64]int64{}
					for _, e := range cl.Elts {
						kv, ok := e.(*ast.KeyValueExpr)
						if !ok {
							return nil, n.Pos()
						}
						k, v := pk.TypesInfo.Types[kv.Key].Value, pk.TypesInfo.Types[kv.Value].Value
						if k == nil || v == nil {
							return nil, n.Pos()
						}
						ki, _ := constant.Int64Val(constant.ToInt(k))
						vi, _ := constant.Int64Val(constant.ToInt(v))
						if _, dup := out[ki]; dup {
							return nil, n.Pos()
						}
						out[ki] = vi
					}
					return out, n.Pos()
				}
			}
		}
	}
	return nil, token.NoPos
}

func r12tab(c *core.Ctx, m *nasModel) {
	const R = "R12.tab"
	c.Rule(R, "optional-IE length table / half-octet list of the extractor == the library's Establishment Accept codec (+ TS 24.501 8.3.2 for 5 later IEIs)")
	tab, pos := mapLiteral(c, pStg, "PDUSessionEstablishmentAcceptOptionalElementsLength")
	if tab == nil {
		c.SoftUndecided("PDUSessionEstablishmentAcceptOptionalElementsLength is not a map literal of constants with distinct keys")
		return
	}
	half, hpos := arrayLiteralBytes(c, pStg, "PDUSessionEstablishmentAcceptOptionalElementsHalfByte")
	if half == nil {
		c.SoftUndecided("PDUSessionEstablishmentAcceptOptionalElementsHalfByte is not an array literal of constants")
		return
	}
	msg := m.Msgs["PDUSessionEstablishmentAccept"]
	if msg == nil {
		c.Undecided("library message PDUSessionEstablishmentAccept not modelled")
	}
	halfSet := map[int64]bool{}
	for _, h := range half {
		halfSet[h] = true
	}
	seen := map[int64]bool{}
	for _, ie := range msg.IEs {
		if !ie.Optional {
			continue
		}
		key := fmt.Sprintf("stgutg.pdu:table[%#02x]=%s", ie.IEI, ie.Field)
		w := ie.wire(ie.Enc)
		if w == "TV-half" {
			c.Check(halfSet[ie.IEI<<4], R, key, hpos, fmt.Sprintf("half-octet %#x-", ie.IEI), "half-octet IE %s (IEI %#x-) must be listed as %#02x in the half-octet list", ie.Field, ie.IEI, ie.IEI<<4)
			seen[-(ie.IEI << 4)] = true
			continue
		}
		var want int64
		switch {
		case strings.HasPrefix(w, "TV"):
			want = ie.ValueSize + 1
		case w == "TLV":
			want = -1
		case w == "TLV-E":
			want = -2
		default:
			c.SoftUndecided("library codec of %s has a form (%s) the table rule does not know", ie.Field, w)
			continue
		}
		got, ok := tab[ie.IEI]
		seen[ie.IEI] = true
		if !ok {
			if ie.IEI == 0x29 {
				// the PDU address is matched explicitly before the table lookup; an entry is still required for messages where it is skipped? no: it always ends the walk
				c.Ok(R, key, pos, "PDU address ends the walk (matched before the table)")
				continue
			}
			c.Fail(R, key, pos, "IEI %#02x (%s, %s in the library) is missing from the extractor's table: the walk cannot skip it", ie.IEI, ie.Field, w)
			continue
		}
		c.Check(got == want, R, key, pos, fmt.Sprintf("%s → %d", w, want), "table entry for IEI %#02x (%s) is %d; the library codes it as %s, so the entry must be %d", ie.IEI, ie.Field, got, w, want)
	}
	var extra []int64
	for k := range tab {
		if !seen[k] {
			extra = append(extra, k)
		}
	}
	sort.Slice(extra, func(i, j int) bool { return extra[i] < extra[j] })
	for _, k := range extra {
		key := fmt.Sprintf("stgutg.pdu:table[%#02x]", k)
		want, ok := t24501Extra8321[k]
		if !ok {
			c.Fail(R, key, pos, "IEI %#02x is neither an optional IE of the library's PDU SESSION ESTABLISHMENT ACCEPT nor one of table 8.3.2.1.1's later IEs", k)
			continue
		}
		c.Check(tab[k] == want, R, key, pos, fmt.Sprintf("TS 24.501 8.3.2 → %d", want), "table entry for IEI %#02x is %d, TS 24.501 table 8.3.2.1.1 gives %d", k, tab[k], want)
	}
	for _, h := range half {
		if !seen[-h] && h != 0xc0 {
			c.Fail(R, fmt.Sprintf("stgutg.pdu:half[%#02x]", h), hpos, "half-octet entry %#02x is not a half-octet IE of the Accept (library: 8- always-on indication; standard: C- control plane only)", h)
		}
	}
	for _, v := range tab {
		if v == 0 || v < -2 {
			c.Fail(R, "stgutg.pdu:table:value-domain", pos, "table value %d is neither a positive total size nor -1/-2", v)
		}
	}
}

func u16(x string) string {
	return "call:encoding/binary.bigEndian.Uint16(global:encoding/binary.BigEndian," + x + ")"
}

// mandOffset: octets before the named mandatory IE of a library message (all earlier ones must be fixed-size).
func mandOffset(msg *nasMsg, field string) (int64, bool) {
	var off int64
	for _, ie := range msg.IEs {
		if ie.Optional {
			break
		}
		if ie.Field == field {
			return off, true
		}
		if ie.LenWidth != 0 || ie.ValueSize < 1 {
			return 0, false
		}
		off += ie.ValueSize
	}
	return 0, false
}

func r12off(c *core.Ctx, m *nasModel) {
	const R = "R12.off"
	c.Rule(R, "fixed offsets of the extractors, as linear forms, equal the layout computed from the library's message definitions")
	fn := mustFunc(c, pStg, "DecodePDUSessionNASPDU")
	p := core.NewPather(fn)
	dl, acc := m.Msgs["DLNASTransport"], m.Msgs["PDUSessionEstablishmentAccept"]
	if dl == nil || acc == nil {
		c.Undecided("library messages DLNASTransport / PDUSessionEstablishmentAccept not modelled")
	}
	a, okA := mandOffset(dl, "PayloadContainer")
	b, okB := mandOffset(acc, "AuthorizedQosRules")
	var ambr int64
	pduIEI := int64(-1)
	for _, ie := range acc.IEs {
		if ie.Field == "SessionAMBR" {
			ambr = int64(ie.LenWidth) + ie.ValueSize
		}
		if ie.Field == "PDUAddress" {
			pduIEI = ie.IEI
		}
	}
	if !okA || !okB || ambr <= 0 || pduIEI < 0 {
		c.Undecided("cannot compute the Accept layout from the library model (a=%v b=%v ambr=%d)", okA, okB, ambr)
	}
	const H = 7 // EPD, SHT, MAC(4), SQN
	// collect the slice expressions in definition order
	var slices []*ssa.Slice
	for _, blk := range fn.Blocks {
		for _, in := range blk.Instrs {
			if s, ok := in.(*ssa.Slice); ok {
				slices = append(slices, s)
			}
		}
	}
	lin := func(v ssa.Value) core.Lin {
		if v == nil {
			return core.Lin{T: map[string]int64{}}
		}
		return core.Linearize(p, v)
	}
	findSlice := func(base string, pred func(lo, hi core.Lin, s *ssa.Slice) bool) *ssa.Slice {
		for _, s := range slices {
			if p.Path(s.X) == base && pred(lin(s.Low), lin(s.High), s) {
				return s
			}
		}
		return nil
	}
	// 1. plain = param[7:]
	s1 := findSlice("p0", func(lo, hi core.Lin, s *ssa.Slice) bool { return s.High == nil })
	if s1 == nil {
		if !r12offX(c, R, H+a+2+b+2+ambr, H+a+2+b, pduIEI) {
			c.SoftUndecided("DecodePDUSessionNASPDU: the security-header skip param[k:] was not found")
		}
		return
	}
	c.Check(lin(s1.Low).Is(H), R, "stgutg.DecodePDUSessionNASPDU:security-header", s1.Pos(), "skip 7 octets", "the protected message starts after the 7-octet security header (EPD, type, MAC 4, SQN); the code skips %s", lin(s1.Low))
	plain := p.Path(s1)
	// 2. payload container length at [a:a+2]
	sLen := findSlice(plain, func(lo, hi core.Lin, s *ssa.Slice) bool { return s.High != nil && len(hi.T) == 0 && len(lo.T) == 0 })
	if sLen == nil {
		if !r12offX(c, R, H+a+2+b+2+ambr, H+a+2+b, pduIEI) {
			c.SoftUndecided("DecodePDUSessionNASPDU: payload container length read not found")
		}
		return
	}
	c.Check(lin(sLen.Low).Is(a) && lin(sLen.High).Is(a+2), R, "stgutg.DecodePDUSessionNASPDU:payload-length-offset", sLen.Pos(), fmt.Sprintf("[%d:%d]", a, a+2), "DL NAS TRANSPORT: the payload container length is at octets %d..%d; the code reads %s..%s", a, a+1, lin(sLen.Low), lin(sLen.High))
	L1 := u16(p.Path(sLen))
	// 3. container = plain[a+2 : a+2+L1]
	sCont := findSlice(plain, func(lo, hi core.Lin, s *ssa.Slice) bool { return s.High != nil && len(hi.T) > 0 })
	if sCont == nil {
		if !r12offX(c, R, H+a+2+b+2+ambr, H+a+2+b, pduIEI) {
			c.SoftUndecided("DecodePDUSessionNASPDU: payload container slice not found")
		}
		return
	}
	c.Check(lin(sCont.Low).Is(a+2) && lin(sCont.High).Is(a+2, L1), R, "stgutg.DecodePDUSessionNASPDU:payload-container", sCont.Pos(), fmt.Sprintf("[%d : %d+len]", a+2, a+2), "the payload container is octets %d..%d+length; the code takes %s..%s", a+2, a+2, lin(sCont.Low), lin(sCont.High))
	cont := p.Path(sCont)
	// 4. QoS rules length at cont[b:b+2]
	sQ := findSlice(cont, func(lo, hi core.Lin, s *ssa.Slice) bool { return s.High != nil && len(hi.T) == 0 })
	if sQ == nil {
		if !r12offX(c, R, H+a+2+b+2+ambr, H+a+2+b, pduIEI) {
			c.SoftUndecided("DecodePDUSessionNASPDU: QoS rules length read not found")
		}
		return
	}
	c.Check(lin(sQ.Low).Is(b) && lin(sQ.High).Is(b+2), R, "stgutg.DecodePDUSessionNASPDU:qos-length-offset", sQ.Pos(), fmt.Sprintf("[%d:%d]", b, b+2), "PDU SESSION ESTABLISHMENT ACCEPT: the authorized QoS rules length is at octets %d..%d; the code reads %s..%s", b, b+1, lin(sQ.Low), lin(sQ.High))
	L2 := u16(p.Path(sQ))
	// 5. optional part = cont[b+2+L2+ambr:]
	sOpt := findSlice(cont, func(lo, hi core.Lin, s *ssa.Slice) bool { return s.High == nil })
	if sOpt == nil {
		if !r12offX(c, R, H+a+2+b+2+ambr, H+a+2+b, pduIEI) {
			c.SoftUndecided("DecodePDUSessionNASPDU: start of the optional part not found")
		}
		return
	}
	c.Check(lin(sOpt.Low).Is(b+2+ambr, L2), R, "stgutg.DecodePDUSessionNASPDU:optional-part-start", sOpt.Pos(), fmt.Sprintf("%d + QoS rules length", b+2+ambr), "the optional IEs start after the QoS rules (%d + length) and the session AMBR (LV, %d octets): offset %d + length; the code uses %s", b+2, ambr, b+2+ambr, lin(sOpt.Low))
	opt := p.Path(sOpt)
	// 6. PDU address
	var matchConst int64 = -1
	for _, blk := range fn.Blocks {
		if iff, ok := blk.Instrs[len(blk.Instrs)-1].(*ssa.If); ok {
			if bo, isBo := iff.Cond.(*ssa.BinOp); isBo && bo.Op == token.EQL && strings.HasPrefix(p.Path(bo.X), opt+"[") {
				if k, isK := core.ConstInt(bo.Y); isK {
					matchConst = k
				}
			}
		}
	}
	c.Check(matchConst == pduIEI, R, "stgutg.DecodePDUSessionNASPDU:pdu-address-iei", fn.Pos(), fmt.Sprintf("%#02x", pduIEI), "the PDU address is IEI %#02x in the library; the extractor matches %#02x", pduIEI, matchConst)
	sAddr := findSlice(opt, func(lo, hi core.Lin, s *ssa.Slice) bool { return s.High != nil && len(lo.T) == 1 })
	if sAddr == nil {
		if !r12offX(c, R, H+a+2+b+2+ambr, H+a+2+b, pduIEI) {
			c.SoftUndecided("DecodePDUSessionNASPDU: PDU address value slice not found")
		}
		return
	}
	lo, hi := lin(sAddr.Low), lin(sAddr.High)
	okAddr := lo.C == 3 && hi.C == 7 && len(lo.T) == 1 && len(hi.T) == 1
	for k := range lo.T {
		if hi.T[k] != 1 || !isIvName(k) {
			okAddr = false
		}
	}
	c.Check(okAddr, R, "stgutg.DecodePDUSessionNASPDU:pdu-address-value", sAddr.Pos(), "[index+3 : index+7]", "the IPv4 address is the 4 octets after IEI, length and PDU session type octet: [index+3 : index+7]; the code takes [%s : %s]", lo, hi)
}

func r12transfer(c *core.Ctx) {
	const R = "R12.off"
	fn := mustFunc(c, pStg, "DecodePDUSessionResourceSetupRequestTransfer")
	p := core.NewPather(fn)
	// known-bad idiom: unaligned search
	for _, ci := range core.Calls(fn) {
		n := core.CalleeName(ci.Common())
		if n == "bytes.Index" || n == "bytes.Contains" || n == "bytes.LastIndex" {
			c.Fail(R, "stgutg.DecodePDUSessionResourceSetupRequestTransfer:unaligned-search", ci.Pos(), "%s searches the transfer for a byte pattern: matches are not aligned to IE boundaries, so values inside earlier IEs (e.g. a bit rate) can be taken for the IE id", shortName(n))
			return
		}
	}
	id := mustConst(c, pNgapT, "ProtocolIEIDULNGUUPTNLInformation")
	if r12transferX(c, R, fn, id) {
		return
	}
	// the IE walk may have been moved into a helper of the same package that is handed the transfer
	if len(allLoopPhis(fn)) == 0 {
		for _, ci := range core.Calls(fn) {
			callee := ci.Common().StaticCallee()
			if callee == nil || fnPkgPath(callee) != pStg || len(callee.Blocks) == 0 || len(ci.Common().Args) == 0 || p.Path(ci.Common().Args[0]) != "p0" {
				continue
			}
			hp := core.NewPather(callee)
			for _, l := range allLoopPhis(callee) {
				if !strings.HasPrefix(hp.Path(l.cond), "("+hp.Path(l.phi)+"<call:builtin.len(p0))") {
					continue
				}
				// a generic splitter: does it stop at the IE the caller wants?
				stops := false
				for _, blk := range callee.Blocks {
					if iff, ok := blk.Instrs[len(blk.Instrs)-1].(*ssa.If); ok && strings.Contains(hp.Path(iff.Cond), "Uint16(") {
						stops = true
					}
				}
				oneOctet := false
				for _, e := range l.backEdges {
					lf := core.Linearize(hp, e)
					for t := range lf.T {
						if strings.HasPrefix(t, "p0[") {
							oneOctet = true
						}
					}
				}
				c.Check(stops || !oneOctet, R, "stgutg.DecodePDUSessionResourceSetupRequestTransfer:stops-at-match", l.phi.Pos(), "walk ends at the wanted IE",
					"the transfer is split by %s, which walks every IE of the container with a one-octet length reader and no exit at id-UL-NGU-UP-TNLInformation: an IE of 128 octets or more after it (a QoS flow list with many flows) is misread, the walk loses IE alignment and the result is overwritten or the walk panics", shortName(core.FuncName(callee)))
				return
			}
		}
	}
	var loop *loopInfoX
	for _, l := range allLoopPhis(fn) {
		l := l
		if strings.HasPrefix(p.Path(l.cond), "("+p.Path(l.phi)+"<call:builtin.len(p0))") {
			loop = &l
			continue
		}
		// `offset + k <= len(transfer)` / `offset + k < len(transfer)`: a header of k octets must fit
		if bo, ok := l.cond.(*ssa.BinOp); ok && (bo.Op == token.LEQ || bo.Op == token.LSS) && p.Path(bo.Y) == "call:builtin.len(p0)" {
			lf := core.Linearize(p, bo.X)
			if lf.T[p.Path(l.phi)] == 1 && len(lf.T) == 1 && lf.C >= 0 && lf.C <= 4 {
				loop = &l
			}
		}
	}
	if loop == nil {
		c.SoftUndecided("DecodePDUSessionResourceSetupRequestTransfer: IE walk `for offset < len(transfer)` not found")
		return
	}
	iv := p.Path(loop.phi)
	init, okI := core.ConstInt(loop.init)
	c.Check(okI && init == 3, R, "stgutg.DecodePDUSessionResourceSetupRequestTransfer:start", loop.phi.Pos(), "first IE at octet 3", "the first IE of the transfer starts at octet 3 (preamble octet + 2-octet container length); the walk starts at %d", init)
	// the id test
	okId := false
	var matchBlk *ssa.BasicBlock
	for _, blk := range fn.Blocks {
		if iff, ok := blk.Instrs[len(blk.Instrs)-1].(*ssa.If); ok {
			cs := p.Path(iff.Cond)
			w := "call:encoding/binary.bigEndian.Uint16(global:encoding/binary.BigEndian,p0[" + iv + ":(" + iv + "+2)])"
			if cs == fmt.Sprintf("(%s!=%d)", w, id) {
				okId, matchBlk = true, blk.Succs[1]
			}
			if cs == fmt.Sprintf("(%s==%d)", w, id) {
				okId, matchBlk = true, blk.Succs[0]
			}
		}
	}
	c.Check(okId, R, "stgutg.DecodePDUSessionResourceSetupRequestTransfer:ie-id", fn.Pos(), fmt.Sprintf("id at [offset:offset+2] == %d", id), "the IE id (octets offset..offset+1) must be compared with id-UL-NGU-UP-TNLInformation = %d", id)
	// stride on the non-matching path
	okStride := false
	for _, e := range loop.backEdges {
		l := core.Linearize(p, e)
		if l.Is(4, iv, "p0[("+iv+"+3)]") {
			okStride = true
		}
	}
	c.Check(okStride, R, "stgutg.DecodePDUSessionResourceSetupRequestTransfer:stride", fn.Pos(), "offset += 2 + 1 + 1 + length", "a non-matching IE must be skipped as id(2) + criticality(1) + length(1) + value(length): offset + 4 + transfer[offset+3]")
	// after the wanted IE the walk ends: the IEs that may follow it (QosFlowSetupRequestList …) can be
	// longer than 127 octets, and this walker reads one-octet length determinants only
	if matchBlk != nil && okStride {
		again := matchBlk == loop.header || core.Reaches(matchBlk, loop.header)
		c.Check(!again, R, "stgutg.DecodePDUSessionResourceSetupRequestTransfer:stops-at-match", matchBlk.Instrs[0].Pos(), "walk ends at id-UL-NGU-UP-TNLInformation",
			"after id-UL-NGU-UP-TNLInformation was found the walk goes on over the following IEs with a one-octet length reader: an IE of 128 octets or more after it (a QoS flow list with many flows) is misread and its contents can be taken for IE ids, overwriting the TEID and address already found")
	}
	// TEID / address
	if matchBlk != nil {
		okT, okA := false, false
		for _, blk := range fn.Blocks {
			for _, in := range blk.Instrs {
				s, ok := in.(*ssa.Slice)
				if !ok || !matchBlk.Dominates(blk) && blk != matchBlk {
					continue
				}
				base := p.Path(s.X)
				lenP := "p0[(" + iv + "+3)]"
				if base == "p0" && s.High != nil {
					lo, hi := core.Linearize(p, s.Low), core.Linearize(p, s.High)
					if !(lo.Is(4, iv) && hi.Is(4, iv, lenP)) {
						c.Fail(R, "stgutg.DecodePDUSessionResourceSetupRequestTransfer:info-slice", s.Pos(), "the transport layer information is transfer[offset+4 : offset+4+length]; the code takes [%s : %s]", lo, hi)
					}
					continue
				}
				if strings.HasPrefix(base, "p0[") {
					lo := core.Linearize(p, s.Low)
					if s.High == nil && lo.Is(-4, lenP) {
						okT = true
					}
					if s.High != nil {
						hi := core.Linearize(p, s.High)
						if lo.Is(-8, lenP) && hi.Is(-4, lenP) {
							okA = true
						}
					}
				}
			}
		}
		c.Check(okT, R, "stgutg.DecodePDUSessionResourceSetupRequestTransfer:teid", fn.Pos(), "TEID = last 4 octets", "the GTP TEID is the last 4 octets of the UP transport layer information")
		c.Check(okA, R, "stgutg.DecodePDUSessionResourceSetupRequestTransfer:upf-address", fn.Pos(), "address = the 4 octets before the TEID", "the IPv4 transport layer address is the 4 octets before the TEID")
	}
}

type loopInfoX struct {
	phi       *ssa.Phi
	init      ssa.Value
	backEdges []ssa.Value
	cond      ssa.Value
	header    *ssa.BasicBlock
}

// allLoopPhis: loop-carried phis in blocks ending in an If (loop headers), with their
// initial value (edge from a block the header dominates not) and back-edge values.
func allLoopPhis(fn *ssa.Function) []loopInfoX {
	var out []loopInfoX
	for _, b := range fn.Blocks {
		iff, ok := b.Instrs[len(b.Instrs)-1].(*ssa.If)
		if !ok {
			continue
		}
		for _, in := range b.Instrs {
			ph, ok := in.(*ssa.Phi)
			if !ok {
				break
			}
			li := loopInfoX{phi: ph, cond: iff.Cond, header: b}
			for i, e := range ph.Edges {
				if b.Dominates(b.Preds[i]) {
					li.backEdges = append(li.backEdges, e)
				} else {
					li.init = e
				}
			}
			if len(li.backEdges) > 0 && li.init != nil {
				out = append(out, li)
			}
		}
	}
	return out
}

// ---------------------------------------------------------------- R12.term
// progressLB: lower bound of (v - phi) along the definitions inside the loop.
func progressLB(ia *core.IntervalAnalyzer, v ssa.Value, phi *ssa.Phi, ctx *ssa.BasicBlock, depth int) (int64, bool) {
	if depth > 16 {
		return 0, false
	}
	if v == ssa.Value(phi) {
		return 0, true
	}
	switch x := v.(type) {
	case *ssa.Phi:
		min := int64(1 << 40)
		for i, e := range x.Edges {
			lb, ok := progressLB(ia, e, phi, x.Block().Preds[i], depth+1)
			if !ok {
				return 0, false
			}
			if lb < min {
				min = lb
			}
		}
		return min, true
	case *ssa.BinOp:
		if x.Op == token.ADD {
			if lb, ok := progressLB(ia, x.X, phi, ctx, depth+1); ok {
				iv := ia.At(x.Y, x.Block())
				if iv.Known {
					return lb + iv.Lo, true
				}
				return 0, false
			}
			if lb, ok := progressLB(ia, x.Y, phi, ctx, depth+1); ok {
				iv := ia.At(x.X, x.Block())
				if iv.Known {
					return lb + iv.Lo, true
				}
				return 0, false
			}
		}
	case *ssa.Convert:
		return progressLB(ia, x.X, phi, ctx, depth+1)
	}
	return 0, false
}

// r12skip: every way back to the head of the optional-IE walk skips exactly one
// element: 1 octet (half-octet IE), the table's fixed size, 2 + one length octet,
// or 3 + two length octets.
func r12skip(c *core.Ctx) {
	const R = "R12.off"
	fn := mustFunc(c, pStg, "DecodePDUSessionNASPDU")
	p := core.NewPather(fn)
	tabName := "global:" + pStg + ".PDUSessionEstablishmentAcceptOptionalElementsLength"
	for _, l := range allLoopPhis(fn) {
		cs := p.Path(l.cond)
		iv := p.Path(l.phi)
		if !strings.HasPrefix(cs, "("+iv+"<call:builtin.len(") {
			continue
		}
		buf := strings.TrimSuffix(strings.TrimPrefix(cs, "("+iv+"<call:builtin.len("), "))")
		forms := map[string]int{}
		for i, e := range l.backEdges {
			lf := core.Linearize(p, e)
			kind := ""
			switch {
			case lf.Is(1, iv):
				kind = "half-octet: +1"
			case lf.Is(2, iv, buf+"[("+iv+"+1)]"):
				kind = "one length octet: +2+len"
			case lf.Is(3, iv, u16(buf+"[("+iv+"+1):(("+iv+"+1)+2)]")):
				kind = "two length octets: +3+len"
			case lf.C == 0 && len(lf.T) == 2 && lf.T[iv] == 1:
				for t := range lf.T {
					if strings.HasPrefix(t, tabName+"[") {
						kind = "fixed size: +table value"
					}
				}
			}
			key := fmt.Sprintf("stgutg.DecodePDUSessionNASPDU:skip#%d", i+1)
			if kind == "" {
				c.Fail(R, key, l.phi.Pos(), "an element is skipped by %s: not one of the four legal forms (+1 half-octet IE; +table value for a fixed-size IE whose table entry already counts the IEI; +2+length; +3+two-octet length)", lf)
				continue
			}
			forms[kind]++
			c.Ok(R, key, l.phi.Pos(), kind)
		}
		if len(forms) < 4 {
			c.SoftUndecided("DecodePDUSessionNASPDU: only %d of the 4 element-skip forms were recognised on the back edges of the walk", len(forms))
		}
		return
	}
	c.SoftUndecided("DecodePDUSessionNASPDU: optional-IE walk not found")
}

// xferDone: the transfer extractor's walk was decided on the symbolic-iteration model (with its progress).
var xferDone = map[*core.Ctx]bool{}

// stdAcceptFormats: how each optional element of PDU SESSION ESTABLISHMENT ACCEPT is coded: total
// size for fixed-size elements, -1 / -2 for one / two length octets (library codec, plus the later
// IEs of TS 24.501 table 8.3.2.1.1); the half-octet identifiers (high nibble); the PDU address IEI.
func stdAcceptFormats(m *nasModel) (map[int64]int64, map[int64]bool, int64, bool) {
	msg := m.Msgs["PDUSessionEstablishmentAccept"]
	if msg == nil {
		return nil, nil, 0, false
	}
	std, half := map[int64]int64{}, map[int64]bool{0xc0: true}
	pdu := int64(-1)
	for _, ie := range msg.IEs {
		if !ie.Optional {
			continue
		}
		if ie.Field == "PDUAddress" {
			pdu = ie.IEI
			continue
		}
		w := ie.wire(ie.Enc)
		switch {
		case w == "TV-half":
			half[ie.IEI<<4] = true
		case strings.HasPrefix(w, "TV"):
			std[ie.IEI] = ie.ValueSize + 1
		case w == "TLV":
			std[ie.IEI] = -1
		case w == "TLV-E":
			std[ie.IEI] = -2
		}
	}
	for k, v := range t24501Extra8321 {
		std[k] = v
	}
	return std, half, pdu, pdu >= 0
}

func r12term(c *core.Ctx, handled map[string]bool) {
	const R = "R12.term"
	c.Rule(R, "both extractor loops: on every back edge the index is provably larger than at the loop head (no input makes the walk spin)")
	for _, name := range []string{"DecodePDUSessionNASPDU", "DecodePDUSessionResourceSetupRequestTransfer"} {
		if handled[name] {
			continue
		}
		fn := mustFunc(c, pStg, name)
		p := core.NewPather(fn)
		ia := core.NewIntervalAnalyzer(fn)
		n := 0
		for _, l := range allLoopPhis(fn) {
			// only index variables compared against a length in the header
			cs := p.Path(l.cond)
			isIdx := strings.HasPrefix(cs, "("+p.Path(l.phi)+"<") || strings.HasPrefix(cs, "(("+p.Path(l.phi)+"+1)<")
			if bo, ok := l.cond.(*ssa.BinOp); ok && !isIdx && (bo.Op == token.LSS || bo.Op == token.LEQ) {
				// index + k compared against a length
				lf := core.Linearize(p, bo.X)
				isIdx = lf.T[p.Path(l.phi)] == 1 && len(lf.T) == 1 && strings.HasPrefix(p.Path(bo.Y), "call:builtin.len(")
			}
			if !isIdx {
				continue
			}
			for i, e := range l.phi.Edges {
				pred := l.header.Preds[i]
				if !l.header.Dominates(pred) {
					continue
				}
				n++
				key := fmt.Sprintf("stgutg.%s:loop(%s):back-edge#%d", name, p.Path(l.phi), n)
				lb, ok := progressLB(ia, e, l.phi, pred, 0)
				pos := l.phi.Pos()
				if len(pred.Instrs) > 0 {
					pos = posOf(pred.Instrs[0])
				}
				switch {
				case !ok:
					c.SoftUndecided("%s: cannot bound the index advance on a back edge (%s)", name, clip(p.Path(e)))
				case lb >= 1:
					c.Ok(R, key, pos, fmt.Sprintf("index advances by at least %d", lb))
				default:
					c.Fail(R, key, pos, "on this path back to the loop head the index advances by at least %d only — there are inputs for which it does not advance and the loop never terminates (e.g. an element whose length is unknown, or a length computed in a narrow integer type that wraps to 0)", lb)
				}
			}
		}
		if n == 0 {
			c.SoftUndecided("%s: no index loop found", name)
		}
	}
}

// ---------------------------------------------------------------- R12.tight
// A truncation guard in front of an extraction must ask for exactly what the
// extraction reads. S[lo:hi] needs hi <= len(S); a guard that demands hi < len(S)
// (directly, or through a helper with an inclusive "last readable position"
// contract that is handed the exclusive end) refuses the well-formed input whose
// element ends exactly at the end of the buffer — e.g. an Accept whose last IE is the
// PDU address — and the value is not reported.
func r12tight(c *core.Ctx) {
	const R = "R12.tight"
	c.Rule(R, "extractors: no slice S[lo:hi] is guarded by the stricter hi < len(S) (an element that ends the buffer must still be read)")
	// helpers of the form  h(buf, x) = [x >= 0 &&] x < len(buf)
	inclusive := map[string]bool{}
	if sp := c.P.SSAPkg(pStg); sp != nil {
		for _, f := range allFuncsOf(sp) {
			if len(f.Params) != 2 || f.Signature.Results().Len() != 1 {
				continue
			}
			if bt, ok := f.Signature.Results().At(0).Type().Underlying().(*types.Basic); !ok || bt.Kind() != types.Bool {
				continue
			}
			hp := core.NewPather(f)
			for _, b := range f.Blocks {
				for _, in := range b.Instrs {
					if bo, ok := in.(*ssa.BinOp); ok && bo.Op == token.LSS && hp.Path(bo.X) == "p1" && hp.Path(bo.Y) == "call:builtin.len(p0)" {
						inclusive[core.FuncName(f)] = true
					}
				}
			}
		}
	}
	n := 0
	// the extractors and the helpers of their package they reach (a phase moved into a helper takes its slices along)
	var fns []*ssa.Function
	for _, name := range []string{"DecodePDUSessionNASPDU", "DecodePDUSessionResourceSetupRequestTransfer"} {
		entry := mustFunc(c, pStg, name)
		fns = append(fns, entry)
		for _, g := range sortedFuncs(staticReach(entry)) {
			if g != entry && fnPkgPath(g) == pStg && len(g.Blocks) > 0 {
				dup := false
				for _, h := range fns {
					if h == g {
						dup = true
					}
				}
				if !dup {
					fns = append(fns, g)
				}
			}
		}
	}
	for _, fn := range fns {
		name := fn.Name()
		p := core.NewPather(fn)
		ord := ordinals{}
		for _, b := range fn.Blocks {
			for _, in := range b.Instrs {
				sl, ok := in.(*ssa.Slice)
				if !ok || sl.High == nil {
					continue
				}
				n++
				base, hi := p.Path(sl.X), core.Linearize(p, sl.High).String()
				key := "stgutg." + name + ":" + ord.next("slice") + ":" + clip(p.Path(sl))
				bad := ""
				for x := b; x != nil && bad == ""; x = x.Idom() {
					id := x.Idom()
					if id == nil {
						break
					}
					iff, isIf := id.Instrs[len(id.Instrs)-1].(*ssa.If)
					if !isIf || len(x.Preds) != 1 || x.Preds[0] != id {
						continue
					}
					taken := id.Succs[0] == x
					cond := iff.Cond
					if un, isNot := cond.(*ssa.UnOp); isNot && un.Op == token.NOT {
						cond, taken = un.X, !taken
					}
					if !taken {
						continue
					}
					switch y := cond.(type) {
					case *ssa.BinOp:
						if y.Op == token.LSS && p.Path(y.Y) == "call:builtin.len("+base+")" && core.Linearize(p, y.X).String() == hi {
							bad = "hi < len(S)"
						}
					case *ssa.Call:
						if inclusive[core.CalleeName(&y.Call)] && len(y.Call.Args) == 2 && p.Path(y.Call.Args[0]) == base && core.Linearize(p, y.Call.Args[1]).String() == hi {
							bad = shortName(core.CalleeName(&y.Call)) + "(S, hi), whose contract is \"hi itself is a readable position\""
						}
					}
				}
				c.Check(bad == "", R, key, sl.Pos(), "no stricter guard", "the slice %s is only taken when %s holds: the guard asks for one octet more than the slice reads, so an element that ends exactly at the end of the buffer (a well-formed message whose last IE this is) is skipped and its value is not reported", clip(p.Path(sl)), bad)
			}
		}
	}
	c.Floor(R, n, 8)
}
