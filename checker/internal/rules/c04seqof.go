package rules

import (
	"fmt"
	"go/types"
	"os"
	"strings"

	"stgverif/internal/core"
)

// Evaluator model of the decoder's parseSequenceOf (DESIGN §11.15), shared by R4.seqof (decode
// half) and R14.alloc: the function is interpreted up to reflect.MakeSlice with
// parseConstraintValue summarised as a named value cv#k (its range argument and the facts about
// the size bounds recorded), parseAlignBits as succeeding, and helpers of the package entered
// (a readByte helper is the same octet read). Each outcome is one branch of the count decoding.

type seqofCase struct {
	count    core.AVal
	cv       *core.AEvent // the parseConstraintValue call of this path (nil: none)
	aligned  bool
	lbKnown  bool // the path established sizeLowerBound != nil and < 65536
	ubCapped bool // … sizeUpperBound != nil and < 65536
	conds    []string
}

func seqofEval(c *core.Ctx) ([]seqofCase, string) {
	fn := mustFunc(c, pAper, "perBitData.parseSequenceOf")
	ex := core.NewExec()
	ex.MaxStates = 1024
	ex.OnCall = func(ev *core.AEvent, m *core.AMem) (core.AVal, bool) {
		n := ev.Callee
		switch {
		case n == "reflect.MakeSlice":
			ev.Stop = true
			return core.AVal{}, true
		case n == pAper+".perBitData.parseConstraintValue":
			return core.AVal{K: core.ATuple, Elems: []core.AVal{core.ArgBits(fmt.Sprintf("cv#%d", ev.Index), 64, 64), core.NilArg()}}, true
		case n == pAper+".perBitData.parseAlignBits":
			return core.NilArg(), true
		case strings.HasSuffix(n, ".perTrace"), strings.HasSuffix(n, ".perBitLog"), n == "fmt.Sprintf", strings.HasPrefix(n, "reflect."), strings.Contains(n, "logrus"), strings.Contains(n, "logger"):
			return core.OpaqueRet(ev), true
		}
		return core.AVal{}, false
	}
	args := core.DefaultArgs(fn)
	args[0] = core.NonNilArg(args[0])
	outs, err := ex.Run(fn, args, nil)
	if err != nil {
		return nil, err.Error()
	}
	if len(ex.Unsound) > 0 {
		return nil, strings.Join(ex.Unsound, "; ")
	}
	var cases []seqofCase
	for _, o := range outs {
		if !o.Stopped || len(o.Trace) == 0 {
			continue
		}
		last := o.Trace[len(o.Trace)-1]
		if last.Callee != "reflect.MakeSlice" || len(last.Args) < 3 {
			continue
		}
		sc := seqofCase{count: last.Args[1], conds: o.Conds}
		for i := range o.Trace {
			switch o.Trace[i].Callee {
			case pAper + ".perBitData.parseConstraintValue":
				sc.cv = &o.Trace[i]
			case pAper + ".perBitData.parseAlignBits":
				sc.aligned = true
			}
		}
		capped := func(name string) bool {
			if isNil, known := o.Nils[name]; !known || isNil {
				return false
			}
			f, has := o.SFacts[name]
			return has && f[1] < 65536
		}
		sc.lbKnown, sc.ubCapped = capped("p2.sizeLowerBound"), capped("p2.sizeUpperBound")
		cases = append(cases, sc)
	}
	return cases, ""
}

// octetWide: the value is the zero-extension of at most 8 unknown bits.
func octetWide(v core.AVal) bool {
	if v.K != core.AInt {
		return false
	}
	for i, b := range v.Bits {
		if i >= 8 && b.Kind != core.BZero {
			return false
		}
		if b.Kind == core.BMix {
			return false
		}
	}
	return true
}

// r4seqofDecX decides the decode half of R4.seqof; false: the model is not usable.
func r4seqofDecX(c *core.Ctx, R string) bool {
	cases, why := seqofEval(c)
	if why != "" || len(cases) == 0 {
		c.Note("R4.seqof: evaluator model of parseSequenceOf not used (%s, %d cases)", why, len(cases))
		return false
	}
	fn := mustFunc(c, pAper, "perBitData.parseSequenceOf")
	okRaw, okLB := true, true
	nRaw, nLB := 0, 0
	gotRaw, gotLB := "", ""
	for _, sc := range cases {
		name := nm(sc.count)
		switch {
		case sc.cv != nil:
			nLB++
			cv := fmt.Sprintf("cv#%d", sc.cv.Index)
			want := cv
			if sc.lbKnown {
				want = "(" + cv + "+p2.sizeLowerBound)"
			}
			alt := "(p2.sizeLowerBound+" + cv + ")"
			if name != want && !(sc.lbKnown && name == alt) {
				okLB, gotLB = false, name
			}
		case sc.aligned:
			nRaw++
			if !octetWide(sc.count) || !strings.HasPrefix(name, "p0.bytes[") {
				okRaw, gotRaw = false, name
			}
		}
	}
	c.Check(okRaw && nRaw > 0, R, "aper.parseSequenceOf(decode):semi-constrained-count", fn.Pos(), fmt.Sprintf("count = the length octet (%d evaluated branches)", nRaw), "on the semi-constrained branch the element count must be the octet read (the encoder writes the count itself there); count expression: %s", clip(gotRaw))
	okCapD := true
	for _, sc := range cases {
		if sc.cv != nil && !sc.ubCapped {
			okCapD = false
		}
	}
	c.Check(okCapD, R, "aper.parseSequenceOf(decode):constrained-below-64K", fn.Pos(), "the count is read as a constrained whole number only when the upper bound is below 65536 (X.691 10.9.4.1)", "X.691 10.9.4.1: with an upper bound of 64K or more the count is a general length determinant; the decoder reads a constrained whole number on a path where the upper bound is not known to be below 65536")
	c.Check(okLB && nLB > 0, R, "aper.parseSequenceOf(decode):constrained-count", fn.Pos(), fmt.Sprintf("count = value + lowerBound (%d evaluated branches)", nLB), "on the constrained branch the element count must be the decoded value plus the lower bound; count expression: %s", clip(gotLB))
	return true
}

// r14allocSeqX decides the MakeSlice obligations of R14.alloc; false: the model is not usable.
func r14allocSeqX(c *core.Ctx, R string) bool {
	cases, why := seqofEval(c)
	if why != "" || len(cases) == 0 {
		return false
	}
	fn := mustFunc(c, pAper, "perBitData.parseSequenceOf")
	ok, okCap := true, true
	got := ""
	for _, sc := range cases {
		name := nm(sc.count)
		switch {
		case octetWide(sc.count):
		case sc.cv != nil:
			// the constrained count: below the range handed to parseConstraintValue, which the
			// path's facts cap at 65536, plus a lower bound capped the same way
			if !sc.ubCapped {
				okCap = false
			}
			cv := fmt.Sprintf("cv#%d", sc.cv.Index)
			if name != cv && name != "("+cv+"+p2.sizeLowerBound)" && name != "(p2.sizeLowerBound+"+cv+")" {
				ok, got = false, name
			}
			if strings.Contains(name, "p2.sizeLowerBound") && !sc.lbKnown {
				okCap = false
			}
		case name == "p2.sizeLowerBound" && sc.lbKnown:
		default:
			if k, isK := sc.count.ConstVal(); isK && k < 65536 {
				continue
			}
			ok, got = false, name
		}
	}
	c.Check(ok, R, "aper.parseSequenceOf:MakeSlice", fn.Pos(), fmt.Sprintf("count = constrained value (<= 65535) + lower bound, or one octet (%d evaluated branches)", len(cases)), "the number of list elements allocated must be a constrained count (at most 16 bits, from parseConstraintValue) plus the lower bound, or a single octet; it is %s — an input could claim an arbitrary count and exhaust memory", clip(got))
	c.Check(okCap, R, "aper.parseSequenceOf:size-cap", fn.Pos(), "size bounds above 65535 are treated as unconstrained (one count octet)", "SEQUENCE OF size bounds must be capped at 65535 before they size an allocation")
	return true
}

// ---- encoder side ---------------------------------------------------------------------------

type seqofEncCase struct {
	cv       *core.AEvent // appendConstraintValue(range, value)
	aligned  bool
	octet    core.AVal // the count octet appended on the semi-constrained branch
	lbKnown  bool
	ubCapped bool
	ubKnown  bool // sizeUpperBound != nil on this path
	ubFact   [2]int64
}

func seqofEncEval(c *core.Ctx) ([]seqofEncCase, string) {
	fn := mustFunc(c, pAper, "perRawBitData.parseSequenceOf")
	ex := core.NewExec()
	ex.MaxStates = 2048
	nVal := core.ArgNamed("n", types.Typ[types.Int])
	ex.OnCall = func(ev *core.AEvent, m *core.AMem) (core.AVal, bool) {
		n := ev.Callee
		switch {
		case n == "reflect.Value.Type":
			ev.Stop = true
			return core.AVal{}, true
		case n == "reflect.Value.Len":
			return nVal, true
		case n == pAper+".perRawBitData.appendConstraintValue", n == pAper+".perRawBitData.putBitsValue":
			return core.NilArg(), true
		case n == pAper+".perRawBitData.appendAlignBits":
			return core.AVal{K: core.ATuple}, true
		case strings.HasSuffix(n, ".perTrace"), strings.HasSuffix(n, ".perRawBitLog"), n == "fmt.Sprintf", strings.HasPrefix(n, "reflect."), strings.Contains(n, "logrus"), strings.Contains(n, "logger"):
			return core.OpaqueRet(ev), true
		}
		return core.AVal{}, false
	}
	args := core.DefaultArgs(fn)
	args[0] = core.NonNilArg(args[0])
	outs, err := ex.Run(fn, args, nil)
	if err != nil {
		return nil, err.Error()
	}
	if len(ex.Unsound) > 0 {
		return nil, strings.Join(ex.Unsound, "; ")
	}
	var cases []seqofEncCase
	for _, o := range outs {
		if !o.Stopped {
			continue
		}
		sc := seqofEncCase{}
		for i := range o.Trace {
			switch o.Trace[i].Callee {
			case pAper + ".perRawBitData.appendConstraintValue":
				sc.cv = &o.Trace[i]
			case pAper + ".perRawBitData.appendAlignBits":
				sc.aligned = true
			}
		}
		if sc.aligned {
			// the octet appended to pd.bytes
			b := o.Mem.Load("p0.bytes", nil)
			if b.K == core.ASlice {
				if _, segs := o.Mem.Seq(b.Path); len(segs) > 0 && len(segs[len(segs)-1].Cells) >= 1 {
					cells := segs[len(segs)-1].Cells
					sc.octet = cells[len(cells)-1]
				} else if b.Len > 0 {
					sc.octet = o.Mem.Load(fmt.Sprintf("%s[%d]", b.Path, b.Lo+b.Len-1), types.Typ[types.Uint8])
				}
				if os.Getenv("VERIF_DEBUG") != "" {
					from, segs := o.Mem.Seq(b.Path)
					fmt.Printf("DEBUG seqofEnc bytes=%s from=%d segs=%d\n", nm(b), from, len(segs))
				}
			}
		}
		capped := func(name string) (bool, bool, [2]int64) {
			isNil, known := o.Nils[name]
			if !known || isNil {
				return false, false, [2]int64{}
			}
			f, has := o.SFacts[name]
			return has && f[1] < 65536, true, f
		}
		sc.lbKnown, _, _ = capped("p2.sizeLowerBound")
		sc.ubCapped, sc.ubKnown, sc.ubFact = capped("p2.sizeUpperBound")
		cases = append(cases, sc)
	}
	return cases, ""
}

// r4seqofEncX decides the encoder half of R4.seqof; false: the model is not usable.
func r4seqofEncX(c *core.Ctx, R string) bool {
	if !c.Once("seqof-enc") {
		return true // decided earlier in this run (C04 runs it as R4.seqof before it includes C03)
	}
	cases, why := seqofEncEval(c)
	if why != "" || len(cases) == 0 {
		c.Note("R4.seqof: evaluator model of the encoder's parseSequenceOf not used (%s, %d cases)", why, len(cases))
		return false
	}
	fn := mustFunc(c, pAper, "perRawBitData.parseSequenceOf")
	okSub, okRaw, okCap := true, true, true
	nSub, nRaw := 0, 0
	gotSub, gotRaw, gotCap := "", "", ""
	for _, sc := range cases {
		switch {
		case sc.cv != nil:
			nSub++
			val := nm(sc.cv.Args[2])
			want := "n"
			if sc.lbKnown {
				want = "(n-p2.sizeLowerBound)"
			}
			if val != want {
				okSub, gotSub = false, val
			}
			if !sc.ubCapped {
				okCap = false
				gotCap = fmt.Sprintf("the constrained form is used on a path where the upper bound is only known to lie in %v", sc.ubFact)
				if !sc.ubKnown {
					gotCap = "the constrained form is used on a path that has not established an upper bound"
				}
			}
		case sc.aligned:
			nRaw++
			if !(sc.octet.K == core.AInt && nm(sc.octet) == "n<7:0>") {
				okRaw, gotRaw = false, nm(sc.octet)
			}
		}
	}
	c.Check(okSub && okRaw && nSub > 0 && nRaw > 0, R, "aper.parseSequenceOf(encode):count", fn.Pos(), fmt.Sprintf("constrained: n-lowerBound (%d branches); semi-constrained: n (%d branches)", nSub, nRaw), "the encoder must write n-lowerBound in the constrained case and n in the semi-constrained case (constrained writes %s, semi-constrained writes %s)", clip(gotSub), clip(gotRaw))
	c.Check(okCap, R, "aper.parseSequenceOf(encode):constrained-below-64K", fn.Pos(), "the count is a constrained whole number only when the upper bound is below 65536 (X.691 10.9.4.1)", "X.691 10.9.4.1: with an upper bound of 64K or more the count is a general length determinant, not a constrained whole number: %s — a list type with SIZE(..65536) is then encoded differently from every other PER codec", gotCap)
	return true
}

// r3seqof: the encoder half on its own, for C03 (which form of count a SEQUENCE OF gets is part of
// "the canonical encoding").
func r3seqof(c *core.Ctx) {
	const R = "R3.seqof"
	c.Rule(R, "SEQUENCE OF count: n-lowerBound as a constrained whole number only below an upper bound of 64K, the count octet otherwise")
	if !r4seqofEncX(c, R) {
		c.SoftUndecided("%s: the encoder's parseSequenceOf could not be evaluated", R)
	}
}
