package rules

import (
	"fmt"
	"go/ast"
	"go/constant"
	"go/token"
	"go/types"
	"strings"

	"golang.org/x/tools/go/ssa"

	"stgverif/internal/core"
)

func init() { Registry["C07"] = c07 }

func c07(c *core.Ctx) map[string]interface{} {
	c.Explanation = "Static table/layout/coverage check of the NAS algorithms (C07). Decided: (R7.sbox) the 2x256 SNOW 3G S-box literals equal the tables the checker generates from their algebraic definitions (Rijndael S-box; Dickson polynomial box of TS 35.216 3.3.2); (R7.const) MULalpha/DIValpha exponents 23,245,48,239 / 16,39,6,64 over 0xA9 in byte positions 3..0, MULx semantics, S1/S2 byte recombination with 0x1B/0x69 as GF(2)-linear forms of the S-box outputs, LFSR feedback taps (s0<<8, MULa(s0>>24), s2, s11>>8, DIVa(s11&0xff) [,F]), FSM update, key/IV loading table of InitSnow3g (TS 35.216 3.4.1), 32 initialisation clocks and one discarded keystream clock; (R7.iv) IV/counter-block bit layouts of NEA1, NIA1, NEA2, NIA2 (TS 35.215, TS 33.401 B.1/B.2) under the BEARER<32/DIRECTION<2 guards, which are checked; dispatch of algorithm ids 0/1/2; NEA0 leaves the payload untouched; ciphertext copied back over the whole payload; CMAC truncated to 4 octets; (R7.shift) no shift in security/snow3g whose count can reach the operand width (keystream truncation covers every octet); (R7.fresh) every call starts from a fully re-initialised generator: InitSnow3g writes all 16 LFSR cells and all 3 FSM registers before anything reads them, and NEA1/NIA1 call it before GenerateKeystream. (R7.gf64) the GF(2^64) helpers of EIA1: MULx tests bit 63, MULxPOW is its i-fold application, MUL xors MULxPOW(V,i,c) for exactly the set bits i = 0..63 of P (indexed or iterative spelling); (R7.nia1-blocks / R7.nia1-horner) for every LENGTH mod 64 the block loop folds the right number of 64-bit blocks at the right offsets and never skips the Horner step Eval := (Eval xor M) * P; the block count is decided on NIA1 folded for 36 fixed (LENGTH, message octets) cases with symbolic octets and keystream, the GF(2^64) product summarised - ceil(LENGTH/64) products by P of (Eval xor the next eight octets, most significant first, zeros after the end of the message), one of (Eval xor LENGTH) by Q, all modulo 0x1b - whatever the form of the loops (the residue-class reading of the loop bounds is the fallback, and the same cases decide P-Q and MAC when the symbolic iteration does not finish). (R7.const, partition) where MULx, MULxPOW, MULalpha, DIValpha are not spelled in the recognised algebraic form (tables filled by an initialiser, branch-free masks) they are folded for all 256 arguments (and the constants in use) and compared with the definition; S1/S2 are decided bit by bit with MULx entered. (R7.iv, NEA1 application, partition) NEA1 is folded for every LENGTH of 1..160 bits and 16 larger ones with symbolic input and keystream (the generator modelled by its clock, every GenerateKeystream call discarding one word): output octet e is input octet e xor octet e mod 4 of keystream word e div 4 for the first LENGTH bits; the loop-form rule extends this to every LENGTH when the loops are of the recognised form. Package-level tables are read as what the package initialiser left in them when nothing can write them afterwards. NOT decided: bit-exact equality of the complete algorithms with the 3GPP specifications (GF(2^64) evaluation and message-block arithmetic of NIA1, keystream application loops are only checked for the listed structural facts); AES, CTR and CMAC come from crypto/aes, crypto/cipher and github.com/aead/cmac (trusted)."
	c.Assumptions = []string{"crypto/aes, crypto/cipher.NewCTR and github.com/aead/cmac implement AES-128, CTR mode and CMAC",
		"S-box definitions: SR = Rijndael S-box (inverse in GF(2^8) mod 0x11B + affine map); SQ(x) = x + x^9 + x^13 + x^15 + x^33 + x^41 + x^45 + x^47 + x^49 + 0x25 in GF(2^8) mod 0x169 (TS 35.216 3.3.2)"}
	r7sbox(c)
	r7const(c)
	r7lfsrfsm(c)
	r7init(c)
	r7iv(c)
	r7dispatch(c)
	r7gf64(c)
	r7nia1blocks(c)
	r7shift(c, []string{pSec, pSnow})
	return nil
}

// ---------------------------------------------------------------- S-boxes
func gfMul(a, b byte, poly uint16) byte {
	var r uint16
	aa := uint16(a)
	for i := 0; i < 8; i++ {
		if b>>uint(i)&1 == 1 {
			r ^= aa << uint(i)
		}
	}
	for i := 15; i >= 8; i-- {
		if r>>uint(i)&1 == 1 {
			r ^= poly << uint(i-8)
		}
	}
	return byte(r)
}

func gfPow(a byte, e int, poly uint16) byte {
	r := byte(1)
	for i := 0; i < e; i++ {
		r = gfMul(r, a, poly)
	}
	return r
}

func genSR() [256]byte {
	var t [256]byte
	for x := 0; x < 256; x++ {
		inv := byte(0)
		if x != 0 {
			inv = gfPow(byte(x), 254, 0x11b)
		}
		s := inv
		for i := 1; i <= 4; i++ {
			s ^= inv<<uint(i) | inv>>uint(8-i)
		}
		t[x] = s ^ 0x63
	}
	return t
}

func genSQ() [256]byte {
	var t [256]byte
	for x := 0; x < 256; x++ {
		v := byte(0x25)
		for _, e := range []int{1, 9, 13, 15, 33, 41, 45, 47, 49} {
			v ^= gfPow(byte(x), e, 0x169)
		}
		t[x] = v
	}
	return t
}

// arrayLiteralBytes reads the elements of a package-level byte-array literal.
func arrayLiteralBytes(c *core.Ctx, pkg, name string) ([]int64, token.Pos) {
	pk := c.P.Pkg(pkg)
	for _, f := range pk.Syntax {
		for _, d := range f.Decls {
			gd, ok := d.(*ast.GenDecl)
			if !ok || gd.Tok != token.VAR {
				continue
			}
			for _, sp := range gd.Specs {
				vs := sp.(*ast.ValueSpec)
				for i, n := range vs.Names {
					if n.Name != name || i >= len(vs.Values) {
						continue
					}
					cl, ok := vs.Values[i].(*ast.CompositeLit)
					if !ok {
						return nil, n.Pos()
					}
					var out []int64
					for _, e := range cl.Elts {
						if _, isKV := e.(*ast.KeyValueExpr); isKV {
							return nil, n.Pos()
						}
						tv := pk.TypesInfo.Types[e]
						if tv.Value == nil {
							return nil, n.Pos()
						}
						v, ok := constant.Int64Val(constant.ToInt(tv.Value))
						if !ok {
							return nil, n.Pos()
						}
						out = append(out, v)
					}
					return out, n.Pos()
				}
			}
		}
	}
	return nil, token.NoPos
}

func r7sbox(c *core.Ctx) {
	const R = "R7.sbox"
	c.Rule(R, "snow3g S-boxes SR/SQ: all 512 literal entries equal the algebraically generated tables; never written after initialisation")
	for _, tb := range []struct {
		name string
		gen  [256]byte
	}{{"sr", genSR()}, {"sq", genSQ()}} {
		vals, pos := arrayLiteralBytes(c, pSnow, tb.name)
		if vals == nil {
			c.Undecided("snow3g.%s is not a plain array literal of constants (S-box table not found in the recognised form)", tb.name)
		}
		bad := -1
		if len(vals) != 256 {
			c.Fail(R, "snow3g."+tb.name+":length", pos, "S-box has %d entries, want 256", len(vals))
			continue
		}
		nbad := 0
		for i, v := range vals {
			if byte(v) != tb.gen[i] || v > 255 {
				if bad < 0 {
					bad = i
				}
				nbad++
			}
		}
		if bad >= 0 {
			c.Fail(R, "snow3g."+tb.name+":entries", pos, "%d entries differ from the algebraic definition; first: [%#02x] = %#02x, want %#02x", nbad, bad, vals[bad], tb.gen[bad])
		} else {
			c.Ok(R, "snow3g."+tb.name+":entries", pos, "256/256 entries equal the generated table")
		}
		// no stores to the table anywhere
		g, _ := c.P.SSAPkg(pSnow).Members[tb.name].(*ssa.Global)
		if g == nil {
			c.Undecided("snow3g.%s is not a package-level variable", tb.name)
		}
		written := false
		for _, f := range allFuncsOf(c.P.SSAPkg(pSnow)) {
			if strings.HasPrefix(f.Synthetic, "package init") || f.Name() == "init" {
				continue
			}
			for _, b := range f.Blocks {
				for _, in := range b.Instrs {
					if st, ok := in.(*ssa.Store); ok && rootGlobal(st.Addr) == g {
						written = true
						c.Fail(R, "snow3g."+tb.name+":written:"+f.Name(), st.Pos(), "S-box table is written at run time")
					}
				}
			}
		}
		if !written {
			c.Ok(R, "snow3g."+tb.name+":read-only", pos, "no store outside initialisation")
		}
	}
}

func rootGlobal(v ssa.Value) *ssa.Global {
	for i := 0; i < 8; i++ {
		switch x := v.(type) {
		case *ssa.Global:
			return x
		case *ssa.FieldAddr:
			v = x.X
		case *ssa.IndexAddr:
			v = x.X
		case *ssa.Slice:
			v = x.X
		default:
			return nil
		}
	}
	return nil
}

// ---------------------------------------------------------------- constants
func r7const(c *core.Ctx) {
	const R = "R7.const"
	c.Rule(R, "snow3g: MULx, MULxPOW, MULalpha/DIValpha exponents and byte positions, S1/S2 recombination (TS 35.216 3.1-3.3)")
	r7mulx(c, R, pSnow, "snow3g.mulx", 8)
	r7mulxPowAt(c, R, pSnow, "snow3g.mulxPow", 8, []int{23, 245, 48, 239, 16, 39, 6, 64})
	r7constX(c)
}

func bitTermsRenamed(b core.Bit, names map[string]string) []string {
	if b.Kind != core.BSrc || b.Neg {
		return []string{b.String()}
	}
	var out []string
	ts := []string{fmt.Sprintf("%s.%d", b.Src, b.Idx)}
	if b.More != "" {
		ts = append(ts, strings.Split(b.More, "^")...)
	}
	for _, t := range ts {
		i := strings.LastIndexByte(t, '.')
		src, idx := t[:i], t[i+1:]
		if n, ok := names[src]; ok {
			out = append(out, n+"."+idx)
		} else {
			out = append(out, t)
		}
	}
	return out
}

func retPath(p *core.Pather, b *ssa.BasicBlock) string {
	for _, in := range b.Instrs {
		if r, ok := in.(*ssa.Return); ok && len(r.Results) == 1 {
			return p.Path(r.Results[0])
		}
	}
	return ""
}

// ---------------------------------------------------------------- LFSR / FSM
func r7lfsrfsm(c *core.Ctx) {
	const R = "R7.lfsr"
	c.Rule(R, "snow3g: LFSR feedback taps and shift, FSM update (TS 35.216 3.4.2-3.4.5), keystream = F xor s0 after one discarded clock")
	S := func(i int) string { return fmt.Sprintf("global:%s.lfsr.s[%d]", pSnow, i) }
	r7lfsrX(c)
	// GenerateKeystream
	{
		fn := mustFunc(c, pSnow, "GenerateKeystream")
		p := core.NewPather(fn)
		clk := "call:" + pSnow + ".clockFsm(" + S(15) + "," + S(5) + ")"
		var seq []string
		for _, b := range fn.Blocks {
			for _, in := range b.Instrs {
				switch x := in.(type) {
				case *ssa.Call:
					n := core.CalleeName(&x.Call)
					if n == pSnow+".clockFsm" {
						if p.Path(x) != clk {
							seq = append(seq, "clock?"+p.Path(x))
						} else {
							seq = append(seq, fmt.Sprintf("b%d:clock", b.Index))
						}
					}
					if ck := snowClockFns(c); ck.ks != nil && n == core.FuncName(ck.ks) && (ck.ks != ck.init || ck.ksZeroArg) {
						seq = append(seq, fmt.Sprintf("b%d:lfsr", b.Index))
					} else if ck.init != nil && n == core.FuncName(ck.init) {
						seq = append(seq, fmt.Sprintf("b%d:lfsrinit", b.Index))
					}
				case *ssa.Store:
					if strings.HasPrefix(p.Path(x.Addr), "p1[") {
						val := p.Path(x.Val)
						if commEq(val, "("+clk+"^"+S(0)+")") && p.Path(x.Addr) == "p1[iv1]" {
							seq = append(seq, fmt.Sprintf("b%d:ks", b.Index))
						} else {
							seq = append(seq, "ks?"+p.Path(x.Addr)+"="+val)
						}
					}
				}
			}
		}
		got := strings.Join(seq, " ")
		// entry block: clock, lfsr (discarded); loop body: clock, ks, lfsr
		ok := false
		if len(seq) == 5 {
			e0 := strings.SplitN(seq[0], ":", 2)
			b0 := strings.SplitN(seq[2], ":", 2)
			ok = strings.HasSuffix(seq[0], ":clock") && strings.HasSuffix(seq[1], ":lfsr") && strings.HasSuffix(seq[2], ":clock") &&
				strings.HasSuffix(seq[3], ":ks") && strings.HasSuffix(seq[4], ":lfsr") && e0[0] == "b0" && b0[0] != "b0"
		}
		lb := loopBounds(fn)
		okLoop := len(lb) == 1 && lb[0].init == 0 && lb[0].step == 1 && lb[0].op == token.LSS && lb[0].limitPath == "p0"
		c.Check(ok && okLoop, R, "snow3g.GenerateKeystream", fn.Pos(), "one discarded clock, then n times z = F ^ s0 followed by an LFSR clock",
			"GenerateKeystream must discard one clock and then output F^s0 before each LFSR clock for i=0..n-1; found %s", got)
	}
}

func loadOK(fn *ssa.Function, p *core.Pather, ld *ssa.UnOp) bool {
	// a load of a register is fine as long as no earlier store in the block wrote that register
	addr := p.Path(ld.X)
	for _, in := range ld.Block().Instrs {
		if in == ssa.Instruction(ld) {
			return true
		}
		if st, ok := in.(*ssa.Store); ok && p.Path(st.Addr) == addr {
			return false
		}
	}
	return true
}

// commEq compares two rendered expressions modulo commutativity of + ^ | & at every level.
func commEq(a, b string) bool { return canonExpr(a) == canonExpr(b) }

func canonExpr(s string) string {
	s = strings.TrimSpace(s)
	if len(s) < 2 || s[0] != '(' || matchParen(s, 0) != len(s)-1 {
		return s
	}
	inner := s[1 : len(s)-1]
	// find top-level binary operator
	depth := 0
	for i := 0; i < len(inner); i++ {
		ch := inner[i]
		switch ch {
		case '(', '[':
			depth++
		case ')', ']':
			depth--
		}
		if depth == 0 && i > 0 {
			for _, op := range []string{"&^", "<<", ">>", "==", "!=", "<=", ">=", "+", "^", "|", "&", "-", "*", "/", "%", "<", ">"} {
				if strings.HasPrefix(inner[i:], op) {
					l, r := canonExpr(inner[:i]), canonExpr(inner[i+len(op):])
					if op == "+" || op == "^" || op == "|" || op == "&" || op == "*" || op == "==" || op == "!=" {
						if l > r {
							l, r = r, l
						}
					}
					return "(" + l + op + r + ")"
				}
			}
		}
	}
	return s
}

func matchParen(s string, i int) int {
	depth := 0
	for j := i; j < len(s); j++ {
		switch s[j] {
		case '(':
			depth++
		case ')':
			depth--
			if depth == 0 {
				return j
			}
		}
	}
	return -1
}

type loopInfo struct {
	phi       *ssa.Phi
	init      int64
	initOK    bool
	step      int64
	op        token.Token
	limit     int64
	limitOK   bool
	limitPath string
	limitVal  ssa.Value
	header    *ssa.BasicBlock
}

// loopBounds recognises counted loops: phi(init const, phi+step const) tested
// against a limit in the header.
func loopBounds(fn *ssa.Function) []loopInfo {
	p := core.NewPather(fn)
	var out []loopInfo
	for _, b := range fn.Blocks {
		for _, in := range b.Instrs {
			ph, ok := in.(*ssa.Phi)
			if !ok {
				break
			}
			if len(ph.Edges) != 2 {
				continue
			}
			li := loopInfo{phi: ph, header: b}
			found := false
			for k := 0; k < 2; k++ {
				bo, isBo := ph.Edges[k].(*ssa.BinOp)
				if isBo && bo.Op == token.ADD && bo.X == ssa.Value(ph) {
					if st, okS := core.ConstInt(bo.Y); okS {
						li.step = st
						li.init, li.initOK = core.ConstInt(ph.Edges[1-k])
						found = true
					}
				}
			}
			if !found {
				continue
			}
			if iff, isIf := b.Instrs[len(b.Instrs)-1].(*ssa.If); isIf {
				if bo, isBo := iff.Cond.(*ssa.BinOp); isBo && bo.X == ssa.Value(ph) {
					li.op = bo.Op
					li.limit, li.limitOK = core.ConstInt(bo.Y)
					li.limitPath = p.Path(bo.Y)
					li.limitVal = bo.Y
				}
			}
			out = append(out, li)
		}
	}
	return out
}

func storeInLoopIs(fn *ssa.Function, p *core.Pather, addr, val string) bool {
	for _, b := range fn.Blocks {
		for _, in := range b.Instrs {
			if st, ok := in.(*ssa.Store); ok && p.Path(st.Addr) == addr && p.Path(st.Val) == val {
				return true
			}
		}
	}
	return false
}

// ---------------------------------------------------------------- InitSnow3g + freshness
func r7init(c *core.Ctx) {
	const R, RF = "R7.init", "R7.fresh"
	c.Rule(R, "snow3g.InitSnow3g: key/IV loading table of TS 35.216 3.4.1, FSM cleared, 32 initialisation clocks feeding F back")
	c.Rule(RF, "every NEA1/NIA1 call re-initialises all 16 LFSR cells and 3 FSM registers before any of them is read (result independent of earlier calls)")
	fn := mustFunc(c, pSnow, "InitSnow3g")
	_ = fn
	r7initX(c)
	// NEA1 / NIA1: InitSnow3g dominates GenerateKeystream
	for _, name := range []string{"NEA1", "NIA1"} {
		f := mustFunc(c, pSec, name)
		if u := snowUseX(f); u.ok {
			c.Check(u.initFirst, RF, "security."+name+":init-before-keystream", f.Pos(), "one InitSnow3g, before the first GenerateKeystream, on every path that uses the generator", "%s must call InitSnow3g (once) before every GenerateKeystream", name)
			continue
		}
		inits := core.CallsTo(f, pSnow+".InitSnow3g")
		gens := core.CallsTo(f, pSnow+".GenerateKeystream")
		ok := len(inits) == 1 && len(gens) >= 1
		for _, g := range gens {
			if len(inits) != 1 || !core.Dominates(inits[0], g) {
				ok = false
			}
		}
		c.Check(ok, RF, "security."+name+":init-before-keystream", f.Pos(), "InitSnow3g dominates GenerateKeystream", "%s must call InitSnow3g before every GenerateKeystream", name)
	}
	// nothing else in the repository writes the generator state between the two calls: writers of lfsr/fsm
	writers := map[string]bool{}
	for _, f := range allFuncsOf(c.P.SSAPkg(pSnow)) {
		for _, b := range f.Blocks {
			for _, in := range b.Instrs {
				if st, ok := in.(*ssa.Store); ok {
					if g := rootGlobal(st.Addr); g != nil && (g.Name() == "lfsr" || g.Name() == "fsm") {
						writers[f.Name()] = true
					}
				}
			}
		}
	}
	allowed := map[string]bool{"InitSnow3g": true, "clockFsm": true, "lfsrInitialisationMode": true, "lfsrKeystreamMode": true}
	if ck := snowClockFns(c); ck.init != nil && ck.ks != nil {
		allowed[ck.init.Name()], allowed[ck.ks.Name()] = true, true
	}
	// an unexported helper that only the init/clock functions call is part of them
	callers := map[string]map[string]bool{}
	for _, pp := range c.P.RepoPackages() {
		for _, f := range allFuncsOf(c.P.SSAPkg(pp.PkgPath)) {
			for _, ci := range core.Calls(f) {
				if cal := ci.Common().StaticCallee(); cal != nil && fnPkgPath(cal) == pSnow {
					if callers[cal.Name()] == nil {
						callers[cal.Name()] = map[string]bool{}
					}
					who := f.Name()
					if fnPkgPath(f) != pSnow {
						who = core.FuncName(f)
					}
					callers[cal.Name()][who] = true
				}
			}
		}
	}
	for changed := true; changed; {
		changed = false
		for w := range writers {
			if allowed[w] || len(callers[w]) == 0 || token.IsExported(w) {
				continue
			}
			all := true
			for cl := range callers[w] {
				if !allowed[cl] {
					all = false
				}
			}
			if all {
				allowed[w] = true
				changed = true
			}
		}
	}
	okW := true
	for w := range writers {
		if !allowed[w] {
			okW = false
			c.Fail(RF, "snow3g."+w+":writes-generator-state", token.NoPos, "unexpected writer of the generator state")
		}
	}
	if okW {
		c.Ok(RF, "snow3g:state-writers", token.NoPos, fmt.Sprintf("%d writers, all part of init/clock", len(writers)))
	}
}

// ---------------------------------------------------------------- IV layouts
func r7iv(c *core.Ctx) {
	const R = "R7.iv"
	c.Rule(R, "IV / counter block layouts of NEA1, NIA1, NEA2, NIA2; BEARER/DIRECTION range guards; key word order")
	r7guardsX(c, R)
	r7ivSnow(c, R)
	r7ivAes(c, R)
	// NEA1: keystream length and application
	{
		fn := mustFunc(c, pSec, "NEA1")
		p := core.NewPather(fn)
		var gk *ssa.Call
		if u := snowUseX(fn); u.ok && len(core.CallsTo(fn, pSnow+".GenerateKeystream")) != 1 {
			// the request is not a single call in NEA1's own body (a helper makes it, or there are several)
			key := "security.NEA1:snow3g.GenerateKeystream:count"
			if !u.oneGen {
				c.Fail(R, key, fn.Pos(), "expected exactly one call of snow3g.GenerateKeystream on every path, found %s", map[bool]string{true: "one per iteration of a loop", false: fmt.Sprintf("%d", u.minGen)}[u.genInLoop])
			} else {
				bad := ""
				for _, w := range u.nWords {
					for _, L := range []uint64{1, 7, 8, 9, 31, 32, 33, 63, 64, 65, 255, 256, 257, 1000, 4095, 4096, 4097, 65535, 65536, 1 << 20} {
						got, okE := core.EvalBits(w.Bits, func(src string) (uint64, bool) {
							if src == "p5" {
								return L, true
							}
							return 0, false
						})
						if !okE {
							bad = "the word count " + clip(core.ArgName(w)) + " does not depend on the bit length alone"
							break
						}
						if got != (L+31)/32 {
							bad = fmt.Sprintf("for LENGTH %d the request is %d words, want %d (%s)", L, got, (L+31)/32, clip(core.ArgName(w)))
							break
						}
					}
				}
				pos := fn.Pos()
				if u.genPos != nil {
					pos = u.genPos.Pos()
				}
				c.Check(bad == "", R, "security.NEA1:keystream-words", pos, "ceil(length/32) words (folded for 20 lengths)", "keystream word count is wrong: %s", bad)
			}
		} else {
			gk = onlyCall(c, R, fn, pSnow+".GenerateKeystream")
		}
		if gk != nil {
			n := p.Path(gk.Call.Args[0])
			c.Check(n == "((p5+31)/32)", R, "security.NEA1:keystream-words", gk.Pos(), n, "keystream word count is %s, want ceil(length/32)", n)
		}
		r7nea1apply(c, R, fn)
	}
	// NIA1
	{
		fn := mustFunc(c, pSec, "NIA1")
		p := core.NewPather(fn)
		var gk *ssa.Call
		if u := snowUseX(fn); u.ok && len(core.CallsTo(fn, pSnow+".GenerateKeystream")) != 1 {
			key := "security.NIA1:snow3g.GenerateKeystream:count"
			if !u.oneGen {
				c.Fail(R, key, fn.Pos(), "expected exactly one call of snow3g.GenerateKeystream on every path, found %s", map[bool]string{true: "one per iteration of a loop", false: fmt.Sprintf("%d", u.minGen)}[u.genInLoop])
			} else {
				okW := len(u.nWords) > 0
				got := ""
				for _, w := range u.nWords {
					if k, isK := w.ConstVal(); !isK || k != 5 {
						okW = false
						got = clip(core.ArgName(w))
					}
				}
				c.Check(okW, R, "security.NIA1:keystream-words", fn.Pos(), "5 words z1..z5", "EIA1 needs exactly 5 keystream words, requests %s", got)
			}
		} else {
			gk = onlyCall(c, R, fn, pSnow+".GenerateKeystream")
		}
		if gk != nil {
			n, okN := core.ConstInt(gk.Call.Args[0])
			c.Check(okN && n == 5, R, "security.NIA1:keystream-words", gk.Pos(), "5 words z1..z5", "EIA1 needs exactly 5 keystream words, requests %s", p.Path(gk.Call.Args[0]))
		}
		r7nia1eval(c, R, fn)
	}
	// NEA2: the keystream covers the whole message
	{
		fn := mustFunc(c, pSec, "NEA2")
		p := core.NewPather(fn)
		xor := false
		for _, ci := range core.Calls(fn) {
			if core.CalleeName(ci.Common()) == "invoke:(crypto/cipher.Stream).XORKeyStream" {
				a := ci.Common().Args
				if p.Path(a[1]) == "p4" && p.Path(a[0]) == "makeslice(call:builtin.len(p4))" && retIs(fn, p, p.Path(a[0])) {
					xor = true
				}
			}
		}
		c.Check(xor, R, "security.NEA2:whole-message", fn.Pos(), "XORKeyStream(obs[len(ibs)], ibs) and obs returned", "NEA2 must XOR the keystream over the whole input into an output of the same length and return it")
	}
}

func retIs(fn *ssa.Function, p *core.Pather, want string) bool {
	for _, b := range fn.Blocks {
		for _, in := range b.Instrs {
			if r, ok := in.(*ssa.Return); ok && len(r.Results) == 2 {
				if k, isK := r.Results[1].(*ssa.Const); isK && k.Value == nil && p.Path(r.Results[0]) == want {
					return true
				}
			}
		}
	}
	return false
}

func blockLen(v ssa.Value) int64 {
	for i := 0; i < 4; i++ {
		switch x := v.(type) {
		case *ssa.Slice:
			v = x.X
		case *ssa.Alloc:
			if pt, ok := x.Type().Underlying().(*types.Pointer); ok {
				if at, ok := pt.Elem().Underlying().(*types.Array); ok {
					return at.Len()
				}
			}
			return -1
		case *ssa.MakeSlice:
			n, _ := core.ConstInt(x.Len)
			return n
		default:
			return -1
		}
	}
	return -1
}

func blockReturnsError(b *ssa.BasicBlock) bool {
	for _, in := range b.Instrs {
		if r, ok := in.(*ssa.Return); ok && len(r.Results) >= 1 {
			last := r.Results[len(r.Results)-1]
			if k, isK := last.(*ssa.Const); isK && k.Value == nil {
				return false
			}
			return true
		}
	}
	return false
}

func dominatesAllCryptoCalls(fn *ssa.Function, b *ssa.BasicBlock) bool {
	n := 0
	for _, ci := range core.Calls(fn) {
		name := core.CalleeName(ci.Common())
		if strings.HasPrefix(name, pSec+".NEA") || strings.HasPrefix(name, pSec+".NIA") {
			n++
			if !b.Dominates(ci.Block()) {
				return false
			}
		}
	}
	return n > 0
}

func onlyCall(c *core.Ctx, R string, fn *ssa.Function, callee string) *ssa.Call {
	calls := core.CallsTo(fn, callee)
	if len(calls) != 1 {
		c.Fail(R, shortName(core.FuncName(fn))+":"+shortName(callee)+":count", fn.Pos(), "expected exactly one call of %s, found %d", shortName(callee), len(calls))
		return nil
	}
	call, _ := calls[0].(*ssa.Call)
	return call
}

// arrayArgElems returns the elements of an array-literal argument (value of type [N]T loaded from a literal alloc).
func arrayArgElems(v ssa.Value) []ssa.Value {
	if u, ok := v.(*ssa.UnOp); ok && u.Op == token.MUL {
		if a, ok := u.X.(*ssa.Alloc); ok {
			if e, ok := core.ArrayLitElems(a); ok {
				return e
			}
		}
	}
	return nil
}

// key words: k[i] = BigEndian.Uint32(ck[4*(3-i):...]) for i = 0..3
func r7keywords(c *core.Ctx, R string, fn *ssa.Function, name string, initCall *ssa.Call) {
	p := core.NewPather(fn)
	ok := false
	kArg := p.Path(initCall.Call.Args[0])
	// the key words may be loaded by a helper of the package that is handed the key: analyse it instead
	if hc, isCall := initCall.Call.Args[0].(*ssa.Call); isCall {
		if callee := hc.Call.StaticCallee(); callee != nil && fnPkgPath(callee) == pSec && len(callee.Blocks) > 0 && len(hc.Call.Args) == 1 && p.Path(hc.Call.Args[0]) == "p0" {
			if rv := singleReturnAny(callee); rv != nil {
				fn = callee
				p = core.NewPather(fn)
				kArg = p.Path(rv)
				if ld, isLd := rv.(*ssa.UnOp); isLd && ld.Op == token.MUL {
					kArg = p.Path(ld.X)
				}
			}
		}
	}
	for _, l := range loopBounds(fn) {
		if !(l.initOK && l.init == 0 && l.step == 1 && l.op == token.LSS && l.limitOK && l.limit == 4) {
			continue
		}
		iv := p.Path(l.phi)
		for _, b := range fn.Blocks {
			for _, in := range b.Instrs {
				st, isSt := in.(*ssa.Store)
				if !isSt {
					continue
				}
				ap := p.Path(st.Addr)
				if ap != kArg+"["+iv+"]" {
					continue
				}
				val := p.Path(st.Val)
				w1 := fmt.Sprintf("call:encoding/binary.bigEndian.Uint32(global:encoding/binary.BigEndian,p0[(4*(3-%s)):(4*((3-%s)+1))])", iv, iv)
				if val == w1 {
					ok = true
				}
			}
		}
	}
	c.Check(ok, R, "security."+name+":key-words", fn.Pos(), "k[i] = big-endian word 3-i of the key (k3 = first four octets)", "%s must load k[i] from key octets 4*(3-i)..4*(3-i)+3 big-endian (TS 35.215: k3 = CK[0..31])", name)
}

// NEA1 keystream application. Semantically: output octet e is input octet e xor octet
// (e mod 4, most significant first) of keystream word e div 4, for e = 0 .. ceil(LENGTH/8)-1.
// Two spellings are decided: (A) words i with an inner octet loop j, e = 4i+j, plus a tail
// of ceil(r/8) octets of word LENGTH/32; (B) one octet loop e with word e/4 and shift
// 8*(3 - e%4). The octet range is checked for every residue of LENGTH mod 32.
// r7nea1apply: the semantic, bounded decision first (c07nea1x.go); then the loop forms, which - when
// they are of the recognised kind - extend it to every LENGTH.
func r7nea1apply(c *core.Ctx, R string, fn *ssa.Function) {
	decided, okX, whyX := r7nea1applyX(c, R, fn)
	if decided && !okX {
		c.Fail(R, "security.NEA1:keystream-application", fn.Pos(), "NEA1 must XOR octet e mod 4 (most significant first) of keystream word e div 4 onto octet e, for every e below ceil(LENGTH/8): %s", whyX)
		return
	}
	status, detail := r7nea1applyForm(c, R, fn)
	switch {
	case status == 0:
		c.Ok(R, "security.NEA1:keystream-application", fn.Pos(), "obs[e] = ibs[e] ^ octet (e mod 4) of ks[e div 4] for e < ceil(LENGTH/8)"+map[bool]string{true: fmt.Sprintf("; also folded for %d bit lengths", len(nea1Lengths)), false: ""}[decided])
	case decided:
		c.Ok(R, "security.NEA1:keystream-application", fn.Pos(), fmt.Sprintf("obs[e] = ibs[e] ^ octet (e mod 4) of ks[e div 4], folded for %d bit lengths (1..160 and %d larger ones)", len(nea1Lengths), len(nea1Lengths)-160))
		c.Note("R7.iv: NEA1's keystream application is decided for the listed lengths only; its loops are not of the form that extends it to every LENGTH (%s)", clip(detail))
	case status == 1:
		c.SoftUndecided("NEA1: %s (%s)", detail, whyX)
	default:
		c.Fail(R, "security.NEA1:keystream-application", fn.Pos(), "NEA1 must XOR octet e mod 4 (most significant first) of keystream word e div 4 onto octet e, for every e below ceil(LENGTH/8): %s", detail)
	}
}

// r7nea1applyForm: 0 recognised and right for every LENGTH, 1 not of a recognised form, 2 recognised and wrong.
func r7nea1applyForm(c *core.Ctx, R string, fn *ssa.Function) (int, string) {
	p := core.NewPather(fn)
	type app struct {
		st         *ssa.Store
		e, e2, w   ssa.Value
		shift      ssa.Value
		recognised bool
	}
	var apps []app
	isObs := func(v ssa.Value) bool { return strings.HasPrefix(p.Path(v), "makeslice(call:builtin.len(p4))") }
	for _, b := range fn.Blocks {
		for _, in := range b.Instrs {
			st, ok := in.(*ssa.Store)
			if !ok {
				continue
			}
			ia, isIA := st.Addr.(*ssa.IndexAddr)
			if !isIA || !isObs(ia.X) {
				continue
			}
			a := app{st: st, e: ia.Index}
			// value: ibs[e2] ^ byte(ks[w] >> shift [& 0xff])
			if x, isX := st.Val.(*ssa.BinOp); isX && x.Op == token.XOR {
				for _, pair := range [][2]ssa.Value{{x.X, x.Y}, {x.Y, x.X}} {
					ld, isLd := pair[0].(*ssa.UnOp)
					if !isLd || ld.Op != token.MUL {
						continue
					}
					ia2, isIA2 := ld.X.(*ssa.IndexAddr)
					if !isIA2 || p.Path(ia2.X) != "p4" {
						continue
					}
					ks := stripConv(pair[1])
					if and, isAnd := ks.(*ssa.BinOp); isAnd && and.Op == token.AND {
						if k, isK := core.ConstInt(and.Y); isK && k == 255 {
							ks = stripConv(and.X)
						}
					}
					shr, isShr := ks.(*ssa.BinOp)
					if !isShr || shr.Op != token.SHR {
						continue
					}
					wl, isWl := stripConv(shr.X).(*ssa.UnOp)
					if !isWl || wl.Op != token.MUL {
						continue
					}
					wia, isWia := wl.X.(*ssa.IndexAddr)
					if !isWia || !strings.HasPrefix(p.Path(wia.X), "makeslice(((p5+31)/32))") {
						continue
					}
					a.e2, a.w, a.shift, a.recognised = ia2.Index, wia.Index, shr.Y, true
				}
			}
			apps = append(apps, a)
		}
	}
	loops := loopBounds(fn)
	loopOf := func(v ssa.Value) *loopInfo {
		for i := range loops {
			if ssa.Value(loops[i].phi) == stripConv(v) {
				return &loops[i]
			}
		}
		return nil
	}
	formA, formB := 0, 0
	bad := ""
	var bLimit ssa.Value
	for _, a := range apps {
		if !a.recognised {
			// input octet xor something read back from a local buffer: the keystream octet is staged in a
			// form this rule cannot follow (not a wrong construct)
			if x, isX := a.st.Val.(*ssa.BinOp); isX && x.Op == token.XOR {
				staged := false
				for _, pair := range [][2]ssa.Value{{x.X, x.Y}, {x.Y, x.X}} {
					ld, isLd := pair[0].(*ssa.UnOp)
					if !isLd || ld.Op != token.MUL || !strings.HasPrefix(p.Path(ld.X), "p4[") {
						continue
					}
					if o, isO := stripConv(pair[1]).(*ssa.UnOp); isO && o.Op == token.MUL && strings.HasPrefix(p.Path(o.X), "local:") {
						staged = true
					}
				}
				if staged {
					return 1, fmt.Sprintf("the keystream octet xored onto %s is staged in a local buffer (%s)", clip(p.Path(a.e)), clip(p.Path(a.st.Val)))
				}
			}
			bad = "an output octet is not input octet xor keystream octet: " + clip(p.Path(a.st.Val))
			continue
		}
		if p.Path(a.e) != p.Path(a.e2) {
			bad = fmt.Sprintf("output octet %s is computed from input octet %s", clip(p.Path(a.e)), clip(p.Path(a.e2)))
			continue
		}
		e, w, sh := p.Path(a.e), p.Path(a.w), p.Path(a.shift)
		lf := core.Linearize(p, a.e)
		switch {
		case lf.C == 0 && len(lf.T) == 2 && lf.T[w] == 4:
			// form A: e = 4*w + j
			j := ""
			for t, k := range lf.T {
				if t != w && k == 1 {
					j = t
				}
			}
			if j != "" && sh == "(8*(3-"+j+"))" {
				formA++
			} else {
				bad = fmt.Sprintf("octet %s of word %s is shifted by %s, want 8*(3-j) with e = 4*word + j", e, w, sh)
			}
		case w == "("+e+"/4)" && (sh == "(8*(3-("+e+"%4)))" || sh == "(8*(3-("+e+"&3)))" || sh == "(24-(8*("+e+"%4)))"):
			formB++
			if l := loopOf(a.e); l != nil && l.initOK && l.init == 0 && l.step == 1 && l.op == token.LSS {
				if iff, ok := l.header.Instrs[len(l.header.Instrs)-1].(*ssa.If); ok {
					if bo, ok := iff.Cond.(*ssa.BinOp); ok {
						bLimit = bo.Y
					}
				}
			}
		default:
			bad = fmt.Sprintf("output octet %s takes keystream word %s shifted by %s: want word e/4, shift 8*(3 - e mod 4)", clip(e), clip(w), clip(sh))
		}
	}
	okCover := false
	coverWhy := ""
	switch {
	case formA >= 2 && formB == 0:
		full, tail := false, false
		for _, l := range loops {
			if l.limitPath == "(p5/32)" && l.initOK && l.init == 0 && l.step == 1 && l.op == token.LSS {
				full = true
			}
			if l.limitPath == "(((p5%32)+7)/8)" && l.initOK && l.init == 0 && l.step == 1 && l.op == token.LSS {
				tail = true
			}
		}
		okCover = full && tail
		coverWhy = fmt.Sprintf("full-word loop %v, tail loop %v", full, tail)
	case formB >= 1 && formA == 0 && bLimit != nil:
		okCover = true
		for r := int64(0); r < 32 && okCover; r++ {
			lfm := evalResidue(p, bLimit, "p5", 32, r, 0)
			if !lfm.ok || lfm.a != 4 || lfm.b != (r+7)/8 {
				okCover = false
				coverWhy = fmt.Sprintf("LENGTH = 32q+%d: the loop covers %dq%+d octets (%s), want 4q%+d", r, lfm.a, lfm.b, clip(p.Path(bLimit)), (r+7)/8)
			}
		}
	default:
		coverWhy = fmt.Sprintf("%d word/octet-loop stores, %d single-loop stores", formA, formB)
	}
	if len(apps) == 0 {
		return 1, "no store into the output buffer found (keystream application moved elsewhere)"
	}
	if bad == "" && okCover {
		return 0, ""
	}
	return 2, bad + " " + coverWhy
}

// NIA1: P, Q from z1..z4, message blocks, length block, MAC = top half ^ z5
func r7nia1eval(c *core.Ctx, R string, fn *ssa.Function) {
	if r7nia1X(c, R, fn) {
		return
	}
	if v := nia1PartitionOf(fn); v.usable {
		// the symbolic iteration did not finish, the fixed-length cases do (c07nia1p.go)
		c.Check(v.pq == "", R, "security.NIA1:P-Q", fn.Pos(), fmt.Sprintf("%d fixed-length cases: every block multiplied by P, (Eval xor LENGTH) by Q, polynomial 0x1B", v.cases),
			"EIA1 must multiply by P=z1||z2 (message blocks) and by Q=z3||z4 (after adding LENGTH) modulo x^64+x^4+x^3+x+1: %s", v.pq)
		c.Check(v.mac == "", R, "security.NIA1:mac", fn.Pos(), "MAC-I = high 32 bits of ((EVAL ^ LENGTH) * Q) ^ z5, most significant octet first", "EIA1 MAC must be the high half of ((EVAL^LENGTH)*Q) xor z5: %s", v.mac)
		return
	}
	p := core.NewPather(fn)
	z := "local:*[5]uint32#0[:5]"
	P := "((" + z + "[0]<<32)|" + z + "[1])"
	Q := "((" + z + "[2]<<32)|" + z + "[3])"
	muls := core.CallsTo(fn, pSec+".mul")
	nP, nQ := 0, 0
	polyOK := true
	for _, m := range muls {
		a := m.Common().Args
		if pv, ok := core.ConstInt(a[2]); !ok || pv != 0x1b {
			polyOK = false
		}
		switch p.Path(a[1]) {
		case P:
			nP++
		case Q:
			nQ++
		}
	}
	// two multiplications by P (block loop + final block) or one (a single loop over all blocks,
	// judged by R7.nia1-blocks), then exactly one by Q
	c.Check((len(muls) == 3 && nP == 2 || len(muls) == 2 && nP == 1) && nQ == 1 && polyOK, R, "security.NIA1:P-Q", fn.Pos(), "P = z1||z2 for the message blocks, Q = z3||z4 for the final multiplication, polynomial 0x1B",
		"EIA1 must multiply by P=z1||z2 (message blocks) and by Q=z3||z4 (after adding LENGTH) modulo x^64+x^4+x^3+x+1; found %d multiplications (%d by P, %d by Q, polynomial ok=%v)", len(muls), nP, nQ, polyOK)
	// final: MAC = uint32(Eval>>32) ^ z[4], Eval = mul(Eval ^ length, Q)
	put := onlyCall(c, R, fn, "encoding/binary.bigEndian.PutUint32")
	if put != nil {
		v := p.Path(put.Call.Args[2])
		ok := strings.HasSuffix(v, ">>32)^"+z+"[4])") && strings.Contains(v, "^p5),"+Q+",27)")
		c.Check(ok, R, "security.NIA1:mac", put.Pos(), "MAC-I = high 32 bits of ((EVAL ^ LENGTH) * Q) ^ z5", "EIA1 MAC must be the high half of ((EVAL^LENGTH)*Q) xor z5; is %s", v)
	}
}

// ---------------------------------------------------------------- dispatch
func r7dispatch(c *core.Ctx) {
	const R = "R7.dispatch"
	c.Rule(R, "NASEncrypt/NASMacCalculate: algorithm ids 0/1/2 select NEA0/1/2 and NIA0/1/2; NEA0 leaves the payload unchanged; results cover the whole payload")
	for _, kv := range [][2]string{{"AlgCiphering128NEA0", "0"}, {"AlgCiphering128NEA1", "1"}, {"AlgCiphering128NEA2", "2"}, {"AlgIntegrity128NIA0", "0"}, {"AlgIntegrity128NIA1", "1"}, {"AlgIntegrity128NIA2", "2"}} {
		v := mustConst(c, pSec, kv[0])
		c.Check(fmt.Sprint(v) == kv[1], R, "security."+kv[0], token.NoPos, "="+kv[1], "%s must be %s (TS 33.501 5.11.1), is %d", kv[0], kv[1], v)
	}
	r7dispatchX(c, R)
}

// guardingEq returns the constants k such that block b is only reachable through
// "v == k" true edges (switch lowering): collected along the dominator chain.
func guardingEq(p *core.Pather, b *ssa.BasicBlock, v string) []int64 {
	var out []int64
	// a block with several predecessors (merged cases) collects each
	var visit func(blk *ssa.BasicBlock, depth int)
	seen := map[*ssa.BasicBlock]bool{}
	visit = func(blk *ssa.BasicBlock, depth int) {
		if seen[blk] || depth > 6 {
			return
		}
		seen[blk] = true
		for _, pr := range blk.Preds {
			iff, ok := pr.Instrs[len(pr.Instrs)-1].(*ssa.If)
			if ok {
				if bo, isBo := iff.Cond.(*ssa.BinOp); isBo && bo.Op == token.EQL && p.Path(bo.X) == v && pr.Succs[0] == blk {
					if k, isK := core.ConstInt(bo.Y); isK {
						out = append(out, k)
						continue
					}
				}
			}
			if len(pr.Succs) == 1 {
				visit(pr, depth+1)
			} else {
				out = append(out, -1) // reachable through some other edge
			}
		}
	}
	visit(b, 0)
	return out
}

// ---------------------------------------------------------------- R7.shift
// r7shift: for every shift with a non-constant count in the given packages whose
// count interval is derivable, the count must stay below the operand width
// (a Go shift by >= width yields 0 / sign fill: keystream or mask bits are lost).
func r7shift(c *core.Ctx, pkgs []string) {
	const R = "R7.shift"
	c.Rule(R, "no variable shift whose derivable count range reaches the operand width (e.g. keystream truncation mask 1<<(32-r) needs r != 0)")
	n, derivable := 0, 0
	for _, pp := range pkgs {
		for _, f := range allFuncsOf(c.P.SSAPkg(pp)) {
			ia := core.NewIntervalAnalyzer(f)
			ord := 0
			for _, b := range f.Blocks {
				for _, in := range b.Instrs {
					bo, ok := in.(*ssa.BinOp)
					if !ok || (bo.Op != token.SHL && bo.Op != token.SHR) {
						continue
					}
					if _, isC := core.ConstInt(bo.Y); isC {
						continue
					}
					n++
					ord++
					key := fmt.Sprintf("%s:shift#%d", shortName(core.FuncName(f)), ord)
					w := int64(bitWidth(bo.X.Type()))
					iv := ia.At(bo.Y, b)
					if !iv.Known || w == 0 {
						c.Note("%s: shift count not derivable (%s) — no verdict for this shift", key, c.P.Pos(bo.Pos()))
						continue
					}
					derivable++
					if iv.Hi >= w || iv.Lo < 0 {
						c.Fail(R, key, bo.Pos(), "shift count ranges over [%d,%d] on a %d-bit operand: for count %d the result is 0 (bits that should be kept are lost)", iv.Lo, iv.Hi, w, w)
					} else {
						c.Ok(R, key, bo.Pos(), fmt.Sprintf("count in [%d,%d] < %d", iv.Lo, iv.Hi, w))
					}
				}
			}
		}
	}
	c.Sites(n)
	if derivable == 0 {
		c.Undecided("R7.shift found no variable shift with a derivable count in %v (expected several)", pkgs)
	}
}

func bitWidth(t types.Type) int {
	if b, ok := t.Underlying().(*types.Basic); ok {
		switch b.Kind() {
		case types.Int8, types.Uint8:
			return 8
		case types.Int16, types.Uint16:
			return 16
		case types.Int32, types.Uint32:
			return 32
		case types.Int64, types.Uint64, types.Int, types.Uint, types.Uintptr:
			return 64
		}
	}
	return 0
}

// ---------------------------------------------------------------- residue-class evaluation
// linForm is a*q + b where the analysed variable is m*q + r (q >= 1 arbitrary).
type linForm struct {
	a, b int64
	ok   bool
}

// evalResidue evaluates an integer expression over one variable (path `varPath`)
// under the abstraction var = m*q + r: exact for +, -, * by constants and for
// / and % by constants dividing m. Anything else is "unknown".
func evalResidue(p *core.Pather, v ssa.Value, varPath string, m, r int64, depth int) linForm {
	if depth > 16 {
		return linForm{}
	}
	if k, ok := core.ConstInt(v); ok {
		if _, isC := v.(*ssa.Const); isC {
			return linForm{0, k, true}
		}
	}
	if p.Path(v) == varPath {
		return linForm{m, r, true}
	}
	switch x := v.(type) {
	case *ssa.Convert:
		return evalResidue(p, x.X, varPath, m, r, depth+1)
	case *ssa.ChangeType:
		return evalResidue(p, x.X, varPath, m, r, depth+1)
	case *ssa.BinOp:
		l := evalResidue(p, x.X, varPath, m, r, depth+1)
		rr := evalResidue(p, x.Y, varPath, m, r, depth+1)
		if !l.ok || !rr.ok {
			return linForm{}
		}
		switch x.Op {
		case token.ADD:
			return linForm{l.a + rr.a, l.b + rr.b, true}
		case token.SUB:
			return linForm{l.a - rr.a, l.b - rr.b, true}
		case token.MUL:
			if rr.a == 0 {
				return linForm{l.a * rr.b, l.b * rr.b, true}
			}
			if l.a == 0 {
				return linForm{rr.a * l.b, rr.b * l.b, true}
			}
		case token.QUO:
			if rr.a == 0 && rr.b > 0 && l.a%rr.b == 0 && l.b >= 0 {
				return linForm{l.a / rr.b, l.b / rr.b, true}
			}
		case token.REM:
			if rr.a == 0 && rr.b > 0 && l.a%rr.b == 0 && l.b >= 0 {
				return linForm{0, l.b % rr.b, true}
			}
		case token.SHR:
			if rr.a == 0 && rr.b >= 0 && rr.b < 32 && l.a%(1<<uint(rr.b)) == 0 && l.b >= 0 {
				return linForm{l.a >> uint(rr.b), l.b >> uint(rr.b), true}
			}
		case token.SHL:
			if rr.a == 0 && rr.b >= 0 && rr.b < 32 {
				return linForm{l.a << uint(rr.b), l.b << uint(rr.b), true}
			}
		}
	}
	return linForm{}
}

// r7nia1blocks: the number of full 64-bit message blocks folded in the loop must be
// ceil(LENGTH/64)-1 and the last (zero-padded) block must start at octet 8*(ceil(LENGTH/64)-1),
// for every residue of LENGTH modulo 64.
func r7nia1blocks(c *core.Ctx) {
	const R = "R7.nia1-blocks"
	c.Rule(R, "NIA1: for every LENGTH mod 64 the loop folds ceil(LENGTH/64)-1 full blocks and the final block starts at octet 8*(ceil(LENGTH/64)-1)")
	fn := mustFunc(c, pSec, "NIA1")
	p := core.NewPather(fn)
	top := fn
	// the block loop may live in a helper of the package that NIA1 hands the message and its bit
	// length to: the rule then reads the helper, with the two parameters found through the call
	msgP, lenP := "p4", "p5"
	if len(loopBounds(fn)) == 0 {
		for _, ci := range core.Calls(fn) {
			g := ci.Common().StaticCallee()
			if g == nil || fnPkgPath(g) != pSec || len(g.Blocks) == 0 || len(loopBounds(g)) == 0 || len(core.CallsTo(g, pSec+".mul")) == 0 {
				continue
			}
			mi, li := -1, -1
			for i, a := range ci.Common().Args {
				switch p.Path(a) {
				case "p4":
					mi = i
				case "p5":
					li = i
				}
			}
			if mi >= 0 && li >= 0 {
				fn, p = g, core.NewPather(g)
				msgP, lenP = fmt.Sprintf("p%d", mi), fmt.Sprintf("p%d", li)
				c.Note("%s: the block loop of NIA1 is read in its helper %s (message %s, LENGTH %s)", R, g.Name(), msgP, lenP)
				break
			}
		}
	}
	var limit ssa.Value
	var idxLoop, idxTail ssa.Value
	for _, l := range loopBounds(fn) {
		if l.initOK && l.init == 0 && l.step == 1 && l.op == token.LSS && !l.limitOK && strings.Contains(l.limitPath, lenP) {
			iff := l.header.Instrs[len(l.header.Instrs)-1].(*ssa.If)
			limit = iff.Cond.(*ssa.BinOp).Y
		}
	}
	// offsets: Uint64(msg[8*i:]) in the loop, copy(tmp, msg[8*(D-2):]) after it
	for _, b := range fn.Blocks {
		for _, in := range b.Instrs {
			sl, ok := in.(*ssa.Slice)
			if !ok || p.Path(sl.X) != msgP || sl.Low == nil {
				continue
			}
			if strings.Contains(p.Path(sl.Low), "iv") {
				idxLoop = sl.Low
			} else {
				idxTail = sl.Low
			}
		}
	}
	r7nia1horner(c, fn, p)
	if v := nia1PartitionOf(top); v.usable {
		// decided on the folded function, whatever the form of its loops (c07nia1p.go)
		c.Check(v.blocks == "", R, "security.NIA1:block-count", top.Pos(), fmt.Sprintf("%d (LENGTH, message octets) cases folded: ceil(LENGTH/64) blocks of 8 octets, most significant first, the last one zero-padded", v.cases),
			"EIA1 message splitting is wrong: %s", v.blocks)
		return
	} else {
		c.Note("%s: fixed-length model of NIA1 not used (%s)", R, v.unusable)
	}
	if limit != nil && idxLoop != nil && idxTail == nil {
		// unified form: one loop over all ceil(LENGTH/64) blocks, the block read being zero-padded
		// when fewer than 8 octets remain (a copy into a fresh 8-octet buffer)
		padded := false
		for _, ci := range core.CallsTo(fn, "builtin.copy") {
			a := ci.Common().Args
			dst := p.Path(a[0])
			fresh8 := strings.HasPrefix(dst, "makeslice(8)") || strings.HasPrefix(dst, "local:*[8]byte#") || strings.HasPrefix(dst, "local:*[8]uint8#")
			if fresh8 && strings.Contains(p.Path(a[1]), msgP+"[") {
				padded = true
			}
		}
		okIdx := commEq(p.Path(idxLoop), "(8*"+p.Path(loopPhiOf(fn, limit))+")")
		bad := ""
		for r := int64(0); r < 64 && bad == ""; r++ {
			wb := int64(0) // ceil((64q+r)/64) = q + (r>0 ? 1 : 0)
			if r > 0 {
				wb = 1
			}
			lf := evalResidue(p, limit, lenP, 64, r, 0)
			if !lf.ok {
				c.Undecided("NIA1: block-count expression %s is outside the residue-class evaluator", p.Path(limit))
			}
			if lf.a != 1 || lf.b != wb {
				bad = fmt.Sprintf("LENGTH = 64q+%d: the loop folds %dq%+d blocks, want q%+d (expression %s)", r, lf.a, lf.b, wb, p.Path(limit))
			}
		}
		c.Check(bad == "" && okIdx && padded, R, "security.NIA1:block-count", fn.Pos(), "64/64 residues of LENGTH mod 64: ceil(LENGTH/64) blocks at 8*i, the last one zero-padded",
			"EIA1 message splitting is wrong: %s (block index 8*i: %v, short last block zero-padded: %v)", bad, okIdx, padded)
		return
	}
	if limit == nil || idxLoop == nil || idxTail == nil {
		c.Undecided("NIA1: message-block loop not in the recognised form (counted loop over msg[8*i:] followed by a tail block msg[k:])")
	}
	okLoopIdx := commEq(p.Path(idxLoop), "(8*"+p.Path(loopPhiOf(fn, limit))+")")
	bad := ""
	for r := int64(0); r < 64 && bad == ""; r++ {
		want := int64(1) // ceil((64q+r)/64) - 1 = q + (r>0 ? 1 : 0) - 1, as a*q+b with a=1
		wb := int64(-1)
		if r > 0 {
			wb = 0
		}
		lf := evalResidue(p, limit, lenP, 64, r, 0)
		if !lf.ok {
			c.Undecided("NIA1: block-count expression %s is outside the residue-class evaluator", p.Path(limit))
		}
		if lf.a != want || lf.b != wb {
			bad = fmt.Sprintf("LENGTH = 64q+%d: loop folds %dq%+d full blocks, want q%+d (expression %s)", r, lf.a, lf.b, wb, p.Path(limit))
		}
		tf := evalResidue(p, idxTail, lenP, 64, r, 0)
		if !tf.ok {
			c.Undecided("NIA1: tail offset expression %s is outside the residue-class evaluator", p.Path(idxTail))
		}
		if bad == "" && (tf.a != 8 || tf.b != 8*wb) {
			bad = fmt.Sprintf("LENGTH = 64q+%d: final block starts at octet %dq%+d, want 8q%+d (expression %s)", r, tf.a, tf.b, 8*wb, p.Path(idxTail))
		}
	}
	c.Check(bad == "" && okLoopIdx, R, "security.NIA1:block-count", fn.Pos(), "64/64 residues of LENGTH mod 64: ceil(LENGTH/64)-1 full blocks, tail at 8*(ceil(LENGTH/64)-1)",
		"EIA1 message splitting is wrong: %s (loop index ok=%v)", bad, okLoopIdx)
}

func loopPhiOf(fn *ssa.Function, limit ssa.Value) ssa.Value {
	for _, l := range loopBounds(fn) {
		iff, ok := l.header.Instrs[len(l.header.Instrs)-1].(*ssa.If)
		if ok {
			if bo, isBo := iff.Cond.(*ssa.BinOp); isBo && bo.Y == limit {
				return l.phi
			}
		}
	}
	return nil
}

// r7nia1horner: EIA1 evaluates the message polynomial by Horner's rule: for every
// block, without exception, Eval := (Eval xor M_i) * P in GF(2^64). The loop-carried
// Eval must therefore come back to the loop head only as mul(Eval ^ M, P, 0x1b): a
// path on which it comes back unchanged (a skipped block) or changed otherwise drops
// one multiplication by P, and the MAC is no longer the EIA1 MAC.
func r7nia1horner(c *core.Ctx, fn *ssa.Function, p *core.Pather) {
	const R = "R7.nia1-horner"
	c.Rule(R, "NIA1: on every way round the block loop Eval becomes mul(Eval ^ M, P, 0x1b) (Horner step never skipped)")
	n := 0
	for _, l := range allLoopPhis(fn) {
		bt, isBasic := l.phi.Type().Underlying().(*types.Basic)
		if !isBasic || bt.Kind() != types.Uint64 {
			continue
		}
		// the accumulator: some alternative of its back edge is a mul call
		var alts []ssa.Value
		var flat func(v ssa.Value, d int)
		flat = func(v ssa.Value, d int) {
			if ph, isPhi := v.(*ssa.Phi); isPhi && ph != l.phi && d < 5 {
				for _, e := range ph.Edges {
					flat(e, d+1)
				}
				return
			}
			alts = append(alts, v)
		}
		for _, e := range l.backEdges {
			flat(e, 0)
		}
		isAcc := false
		for _, a := range alts {
			if call, ok := a.(*ssa.Call); ok && core.CalleeName(&call.Call) == pSec+".mul" {
				isAcc = true
			}
		}
		if !isAcc {
			continue
		}
		acc := p.Path(l.phi)
		for k, a := range alts {
			n++
			key := fmt.Sprintf("security.NIA1:%s:back-edge#%d", acc, k)
			okStep := false
			if call, isCall := a.(*ssa.Call); isCall && core.CalleeName(&call.Call) == pSec+".mul" && len(call.Call.Args) == 3 {
				x, isXor := call.Call.Args[0].(*ssa.BinOp)
				k1b, _ := core.ConstInt(call.Call.Args[2])
				if isXor && x.Op == token.XOR && (p.Path(x.X) == acc || p.Path(x.Y) == acc) && k1b == 0x1b {
					okStep = true
				}
			}
			c.Check(okStep, R, key, l.phi.Pos(), "mul(Eval ^ M, P, 0x1b)", "Eval returns to the head of the block loop as %s: every block, including an all-zero one, must be folded as mul(Eval ^ M, P, 0x1b) — a skipped or different step loses a multiplication by P", clip(p.Path(a)))
		}
	}
	if n == 0 {
		c.SoftUndecided("NIA1: no loop-carried accumulator updated by security.mul found")
	}
}

// ---------------------------------------------------------------- R7.gf64
// GF(2^64) arithmetic of EIA1 (TS 35.215 4.3): MULx(V,c) = (V<<1) xor c when the
// leftmost bit of V is set, V<<1 otherwise; MUL(V,P,c) = XOR over the set bits i of
// P of MULxPOW(V,i,c). Two spellings of MUL are recognised: indexed (for i < 64:
// bit i of P selects MULxPOW(V,i,c)) and iterative (while P != 0: bit 0 of P selects
// the running V, then V = MULx(V,c), P >>= 1).
func r7gf64(c *core.Ctx) {
	const R = "R7.gf64"
	c.Rule(R, "security.mulx / mulxPow / mul: MULx tests bit 63, MUL xors MULxPOW(V,i,c) for exactly the set bits i = 0..63 of P")
	r7mulx(c, R, pSec, "security.mulx", 64)
	if powFn := c.P.Func(pSec, "mulxPow"); powFn != nil && len(powFn.Blocks) > 0 {
		var exps []int
		for i := 0; i < 64; i++ {
			exps = append(exps, i)
		}
		r7mulxPowAt(c, R, pSec, "security.mulxPow", 64, exps)
	}
	r7mul64(c, R)
}
