#!/bin/bash
# sweep.sh <tier> : run every property's check at the given tier, print one line each
cd "$(dirname "$0")/.."
for i in $(seq -w 1 20); do
  out=$(./check C$i ${1:-quick} 2>&1); rc=$?
  echo "C$i rc=$rc $(echo "$out" | grep '^selftest:' | head -1) $(echo "$out" | grep -c '^KNOWN-FINDING') known"
  echo "$out" | grep 'selftest \(MISSED\|FALSE-ALARM\|ERROR\)\|^UNDECIDED\|^VIOLATION' | cut -c1-300
done
