package nas

import (
	"free5gclib/nas/nasMessage"
	"testing"
)

// F13: Last visited registered TAI (IEI 0x52) is a 7-octet TV IE in TS 24.501 (9.11.3.8);
// the library reads 7 value octets and swallows the IEI of the next IE.
func TestF13(t *testing.T) {
	// Registration Request: EPD, SHT, MT, ngKSI|type, mobile identity LV-E (SUCI, 13 octets),
	// 52 <MCC/MNC 3> <TAC 3>, 2B 01 01 (UE status)
	b := []byte{0x7e, 0x00, 0x41, 0x79, 0x00, 0x0d, 0x01, 0x00, 0xf1, 0x10, 0xf0, 0xff, 0x00, 0x00, 0x00, 0x00, 0x00, 0x00, 0x10,
		0x52, 0x00, 0xf1, 0x10, 0x00, 0x00, 0x01,
		0x2b, 0x01, 0x01}
	m := NewMessage()
	if err := m.PlainNasDecode(&b); err != nil {
		t.Fatal(err)
	}
	r := m.GmmMessage.RegistrationRequest
	if r.LastVisitedRegisteredTAI == nil {
		t.Fatal("TAI not decoded")
	}
	if r.UEStatus == nil || r.UEStatus.Octet != 0x01 {
		t.Fatalf("the IE after the 7-octet TAI is lost (UE status = %+v)", r.UEStatus)
	}
}

// F14: Requested QoS rules (IEI 0x7A) is a TLV-E IE (two length octets) in TS 24.501 8.3.7;
// the library writes/reads one length octet.
func TestF14(t *testing.T) {
	// PDU SESSION MODIFICATION REQUEST: EPD, PSI, PTI, MT, 7A 00 03 <3 octets>, 59 1a (5GSM cause)
	b := []byte{0x2e, 0x05, 0x01, 0xc9, 0x7a, 0x00, 0x03, 0xaa, 0xbb, 0xcc, 0x59, 0x1a}
	m := NewMessage()
	if err := m.PlainNasDecode(&b); err != nil {
		t.Fatal(err)
	}
	r := m.GsmMessage.PDUSessionModificationRequest
	if r.RequestedQosRules == nil || len(r.RequestedQosRules.Buffer) != 3 {
		t.Fatalf("requested QoS rules of 3 octets decoded as %+v", r.RequestedQosRules)
	}
	if r.Cause5GSM == nil || r.Cause5GSM.Octet != 0x1a {
		t.Fatalf("5GSM cause after the QoS rules lost: %+v", r.Cause5GSM)
	}
	_ = nasMessage.PDUSessionModificationRequestRequestedQosRulesType
}
