package rules

import (
	"fmt"
	"go/token"
	"go/types"
	"sort"
	"strings"

	"golang.org/x/tools/go/ssa"

	"stgverif/internal/core"
)

func init() { Registry["C20"] = c20 }

// entry points the property lists: codecs, NAS protection, key derivation.
func c20entries(c *core.Ctx) []*ssa.Function {
	var out []*ssa.Function
	for _, e := range [][2]string{
		{pNgap, "Encoder"}, {pNgap, "Decoder"},
		{pAper, "Marshal"}, {pAper, "MarshalWithParams"}, {pAper, "Unmarshal"}, {pAper, "UnmarshalWithParams"},
		{pNas, "Message.PlainNasEncode"}, {pNas, "Message.PlainNasDecode"},
		{pTglib, "NASEncode"}, {pTglib, "NASDecode"}, {pTglib, "EncodeNasPduWithSecurity"}, {pTglib, "GetNasPdu"},
		{pTglib, "RanUeContext.DeriveRESstarAndSetKey"}, {pTglib, "RanUeContext.DerivateKamf"}, {pTglib, "RanUeContext.DerivateAlgKey"},
		{pSec, "NASEncrypt"}, {pSec, "NASMacCalculate"},
		{pUeau, "GetKDFValue"},
	} {
		out = append(out, mustFunc(c, e[0], e[1]))
	}
	// the per-UE context's own methods (capability IEs, key derivation, counters): called for different UEs side by side
	seen := map[*ssa.Function]bool{}
	for _, f := range out {
		seen[f] = true
	}
	if sp := c.P.SSAPkg(pTglib); sp != nil {
		var ms []*ssa.Function
		for _, f := range allFuncsOf(sp) {
			if f.Signature.Recv() != nil && strings.HasSuffix(f.Signature.Recv().Type().String(), "tglib.RanUeContext") && len(f.Blocks) > 0 && !seen[f] {
				ms = append(ms, f)
			}
		}
		sort.Slice(ms, func(i, j int) bool { return ms[i].Name() < ms[j].Name() })
		out = append(out, ms...)
	}
	return out
}

func isInitFunc(f *ssa.Function) bool {
	for x := f; x != nil; x = x.Parent() {
		if x.Name() == "init" || strings.HasPrefix(x.Name(), "init#") || strings.HasPrefix(x.Synthetic, "package init") {
			return true
		}
	}
	return false
}

// globalUse classifies one use of a package-level variable.
type globalUse struct {
	fn   *ssa.Function
	pos  token.Pos
	kind string // "read", "write", "escape:<callee>", "mapwrite"
}

// usesOfGlobal walks every instruction of f that touches g (through field/element addresses).
func usesOfGlobal(f *ssa.Function, collect func(g *ssa.Global, u globalUse)) {
	for _, b := range f.Blocks {
		for _, in := range b.Instrs {
			switch x := in.(type) {
			case *ssa.Store:
				if g := rootGlobal(x.Addr); g != nil {
					collect(g, globalUse{f, x.Pos(), "write"})
				}
				// storing the address of a global somewhere lets it escape
				if g := rootGlobal(x.Val); g != nil {
					collect(g, globalUse{f, x.Pos(), "escape:stored"})
				}
			case *ssa.UnOp:
				if x.Op == token.MUL {
					if g := rootGlobal(x.X); g != nil {
						collect(g, globalUse{f, x.Pos(), "read"})
						// a loaded slice / map / pointer (or a struct carrying one) still refers to the
						// variable's storage: what is done with the reference decides whether the
						// contents can change
						if carriesRef(x.Type()) {
							if how, pos := refMutation(x, 0, map[ssa.Value]bool{}); how != "" {
								if !pos.IsValid() {
									pos = x.Pos()
								}
								collect(g, globalUse{f, pos, "escape:ref:" + how})
							}
						}
					}
				}
			case *ssa.MapUpdate:
				if u, ok := x.Map.(*ssa.UnOp); ok {
					if g := rootGlobal(u.X); g != nil {
						collect(g, globalUse{f, x.Pos(), "mapwrite"})
					}
				}
			case ssa.CallInstruction:
				for _, a := range x.Common().Args {
					if g := rootGlobal(a); g != nil {
						// the address of (part of) the variable is handed to a callee: one of the repository
						// that only reads through it is a read
						if how, _, decided := addrIntoCallee(x, a, 0, map[ssa.Value]bool{}); decided && how == "" {
							collect(g, globalUse{f, x.Pos(), "read"})
							continue
						}
						collect(g, globalUse{f, x.Pos(), "escape:" + shortName(core.CalleeName(x.Common()))})
					}
				}
			case *ssa.MakeInterface:
				if g := rootGlobal(x.X); g != nil {
					collect(g, globalUse{f, x.Pos(), "escape:interface"})
				}
			}
		}
	}
}

func c20(c *core.Ctx) map[string]interface{} {
	c.Explanation = "Static shared-state analysis for concurrent use of the codecs and security functions (C20). Decided: (R20.state) over the VTA whole-program call graph, every package-level variable of the repository's own packages that any function reachable from the listed entry points (NGAP/APER/NAS encode+decode, NASEncode/NASDecode, key derivation, NASEncrypt/NASMacCalculate, and every method of the per-UE context tglib.RanUeContext) touches is classified; a variable is accepted only if it is immutable after initialisation: written only by package initialisers, never address-escaping to a callee, and of a kind whose loaded value cannot be mutated through (scalars, arrays/slices of scalars that are only indexed, reflect.Type descriptors, logrus entries which are internally locked). Any other reachable package-level variable - including synchronised caches such as sync.Map or hand-rolled one-entry caches - is shared mutable state and is reported with its writers/escapes; (R20.go) the repository's own packages start no goroutine, use no channel and no sync primitive (so there is no internal ordering to argue about); (R20.arg) informational: callee-side writes to caller-owned buffers. For code without goroutines and locks, absence of shared mutable state reachable from the entry points is the whole content of 'race-free and schedule-independent for different UEs'. (R13.pure) message construction shares no buffer between messages except the announced PLMN octets (which the encoder only reads): the encoder masks the padding bits of a BIT STRING in the caller's buffer, so a BIT STRING buffer shared between the messages of two UEs would be written concurrently inside the codec. (R20.msg) no function of tglib stores through a *nas.Message parameter (callers of different UEs may hand the same UE-independent message to the protection at once). NOT decided: races inside third-party dependencies (logrus, standard library)."
	c.Assumptions = []string{"logrus.Entry/Logger are safe for concurrent use (internal mutex)", "reflect.Type values are immutable", "distinct UEs use distinct RanUeContext values and distinct message buffers (the property's own hypothesis)"}
	r20state(c)
	r20go(c)
	r13pure(c)
	r20msg(c)
	return nil
}

// r20msg: the uplink protection reads the NAS message it is given and writes only into the UE
// context and into buffers of its own. A message that does not depend on the UE (Registration
// Complete, Service Request) may be shared by the callers of different UEs; a store through the
// message parameter makes their encodes interfere.
func r20msg(c *core.Ctx) {
	const R = "R20.msg"
	c.Rule(R, "the NAS protection functions of tglib do not store through their *nas.Message parameter (an input that callers of different UEs may share)")
	sp := c.P.SSAPkg(pTglib)
	n := 0
	for _, f := range allFuncsOf(sp) {
		var idx []int
		for i, p := range f.Params {
			if derefNamed(p.Type()) == pNas+".Message" {
				if _, isPtr := p.Type().Underlying().(*types.Pointer); isPtr {
					idx = append(idx, i)
				}
			}
		}
		if len(idx) == 0 || len(f.Blocks) == 0 {
			continue
		}
		c.Analysed(core.FuncName(f))
		p := core.NewPather(f)
		for _, i := range idx {
			n++
			pre := fmt.Sprintf("p%d.", i)
			bad := ""
			var pos = f.Pos()
			for _, b := range f.Blocks {
				for _, in := range b.Instrs {
					if st, ok := in.(*ssa.Store); ok {
						if ap := p.Path(st.Addr); strings.HasPrefix(ap, pre) || ap == strings.TrimSuffix(pre, ".") {
							bad, pos = ap, st.Pos()
						}
					}
				}
			}
			c.Check(bad == "", R, shortFn(f)+":"+f.Params[i].Name(), pos, "read only", "%s stores into %s of the message it was given: two UEs protecting the same (UE-independent) message at once overwrite each other's header fields, and the caller's message changes under it", shortFn(f), bad)
		}
	}
	c.Sites(n)
	c.Floor(R, n, 1)
}

// trustedImmutableGlobal: trustedImmutableKind, and tables of functions: an array or slice whose
// elements are functions without captured variables, set once by the initialiser (a function value
// has no contents to change; what could change is the table, and nothing writes it).
func trustedImmutableGlobal(g *ssa.Global, t types.Type) (bool, string) {
	if ok, why := trustedImmutableKind(t); ok {
		return ok, why
	}
	var et types.Type
	switch u := t.Underlying().(type) {
	case *types.Array:
		et = u.Elem()
	case *types.Slice:
		et = u.Elem()
	}
	if et != nil {
		if _, isSig := et.Underlying().(*types.Signature); isSig && core.ConstTable(g) {
			return true, "table of plain functions, written by its initialiser only"
		}
	}
	return false, ""
}

func trustedImmutableKind(t types.Type) (bool, string) {
	if p, ok := t.(*types.Pointer); ok {
		if n, ok := p.Elem().(*types.Named); ok && n.Obj().Pkg() != nil && n.Obj().Pkg().Path() == "github.com/sirupsen/logrus" {
			return true, "logrus handle (internally locked)"
		}
		if ok, why := trustedHandle(t); ok {
			return true, why
		}
		return false, ""
	}
	if n, ok := t.(*types.Named); ok && n.Obj().Pkg() != nil && n.Obj().Pkg().Path() == "reflect" && n.Obj().Name() == "Type" {
		return true, "reflect.Type descriptor"
	}
	switch u := t.Underlying().(type) {
	case *types.Basic:
		return true, "scalar"
	case *types.Array:
		if _, ok := u.Elem().Underlying().(*types.Basic); ok {
			return true, "array of scalars"
		}
		if _, isArr := u.Elem().Underlying().(*types.Array); isArr {
			if ok, _ := trustedImmutableKind(u.Elem()); ok {
				return true, "array of arrays of scalars"
			}
		}
		if st, isSt := u.Elem().Underlying().(*types.Struct); isSt {
			// an array of structs of scalars is a value like an array of scalars (no references inside)
			all := true
			for i := 0; i < st.NumFields(); i++ {
				if _, isB := st.Field(i).Type().Underlying().(*types.Basic); !isB {
					all = false
				}
			}
			if all {
				return true, "array of structs of scalars"
			}
		}
	case *types.Slice:
		if _, ok := u.Elem().Underlying().(*types.Basic); ok {
			return true, "slice of scalars (only read)"
		}
	case *types.Map:
		return true, "map (only looked up)"
	case *types.Struct:
		all := true
		for i := 0; i < u.NumFields(); i++ {
			if ok, _ := trustedImmutableKind(u.Field(i).Type()); !ok {
				all = false
			}
		}
		if all {
			return true, "struct of immutable kinds"
		}
	}
	return false, ""
}

func r20state(c *core.Ctx) {
	const R = "R20.state"
	c.Rule(R, "no package-level variable of the repository reachable from the codec/security entry points is mutable after initialisation")
	entries := c20entries(c)
	reach := c.P.Reachable(entries...)
	// collect uses in reachable repo functions, and writers anywhere in the program
	type info struct {
		g       *ssa.Global
		reach   []globalUse
		writers map[string]token.Pos // non-init writers/escapes anywhere
	}
	infos := map[*ssa.Global]*info{}
	get := func(g *ssa.Global) *info {
		if infos[g] == nil {
			infos[g] = &info{g: g, writers: map[string]token.Pos{}}
		}
		return infos[g]
	}
	nReach := 0
	for f := range reach {
		if f.Pkg == nil || !core.IsRepoPath(fnPkgPath(f)) || isInitFunc(f) {
			continue
		}
		nReach++
		c.Analysed(core.FuncName(f))
		usesOfGlobal(f, func(g *ssa.Global, u globalUse) {
			if g.Pkg == nil || !core.IsRepoPath(g.Pkg.Pkg.Path()) {
				return
			}
			get(g).reach = append(get(g).reach, u)
		})
	}
	// writers anywhere (repo packages), outside init
	for _, pk := range c.P.RepoPackages() {
		sp := c.P.SSAPkg(pk.PkgPath)
		if sp == nil {
			continue
		}
		for _, f := range allFuncsOf(sp) {
			if isInitFunc(f) {
				continue
			}
			usesOfGlobal(f, func(g *ssa.Global, u globalUse) {
				if infos[g] == nil || u.kind == "read" {
					return
				}
				infos[g].writers[core.FuncName(f)+":"+u.kind] = u.pos
			})
		}
	}
	var gs []*info
	for _, i := range infos {
		gs = append(gs, i)
	}
	sort.Slice(gs, func(i, j int) bool { return gs[i].g.Pkg.Pkg.Path()+"."+gs[i].g.Name() < gs[j].g.Pkg.Pkg.Path()+"."+gs[j].g.Name() })
	c.Sites(len(gs))
	for _, i := range gs {
		name := shortName(i.g.Pkg.Pkg.Path() + "." + i.g.Name())
		key := "global:" + name
		elem := i.g.Type().(*types.Pointer).Elem()
		var ws []string
		var pos token.Pos = i.g.Pos()
		for w, p := range i.writers {
			ws = append(ws, shortName(w))
			pos = p
		}
		sort.Strings(ws)
		okKind, kind := trustedImmutableGlobal(i.g, elem)
		// reachable escapes (address handed to callee) also count even if found only in reachable functions
		switch {
		case len(ws) > 0:
			c.Fail(R, key, pos, "package-level %s (%s) is shared mutable state reachable from the codec/security entry points: written or handed out by %v — concurrent calls for different UEs interfere", name, elem.String(), ws)
		case !okKind:
			c.Fail(R, key, pos, "package-level %s has type %s, whose contents can be mutated through the loaded value; it is reachable from the codec/security entry points and not provably immutable", name, elem.String())
		default:
			c.Ok(R, key, i.g.Pos(), fmt.Sprintf("immutable after init (%s), %d reachable reads", kind, len(i.reach)))
		}
	}
	if nReach < 100 {
		c.Undecided("R20.state: only %d repository functions reachable from the entry points (expected several hundred) — call graph vacuous", nReach)
	}
	c.Note("R20.state: %d repository functions reachable from %d entry points (VTA call graph, %d functions in total); %d package-level variables touched", nReach, len(entries), len(reach), len(gs))
}

func r20go(c *core.Ctx) {
	const R = "R20.go"
	c.Rule(R, "no goroutine or channel operation in the codec/security packages of the repository (sync primitives are noted; their state is judged by R20.state)")
	n := 0
	bad := 0
	for _, pp := range []string{pAper, pNgap, pNas, pNasM, pNasT, pSec, pSnow, pUeau, pTglib, pNasC, pNgapC} {
		sp := c.P.SSAPkg(pp)
		if sp == nil {
			continue
		}
		for _, f := range allFuncsOf(sp) {
			if isInitFunc(f) {
				continue
			}
			n++
			for _, b := range f.Blocks {
				for _, in := range b.Instrs {
					switch x := in.(type) {
					case *ssa.Go:
						bad++
						c.Fail(R, core.FuncName(f)+":go", x.Pos(), "goroutine started inside a codec/security package")
					case *ssa.Send, *ssa.Select:
						bad++
						c.Fail(R, core.FuncName(f)+":chan", in.Pos(), "channel operation inside a codec/security package")
					case ssa.CallInstruction:
						cn := core.CalleeName(x.Common())
						if strings.HasPrefix(cn, "sync.") || strings.HasPrefix(cn, "sync/atomic.") {
							c.Note("R20.go: %s uses %s at %s (the guarded state is judged by R20.state)", shortName(core.FuncName(f)), cn, c.P.Pos(x.Pos()))
						}
					}
				}
			}
		}
	}
	if bad == 0 {
		c.Ok(R, "codec+security packages:no-concurrency-primitives", token.NoPos, fmt.Sprintf("%d functions scanned", n))
	}
}

// ---------------------------------------------------------------- R0 (shared precondition)

// r0nilglobal: no function reachable from the given entries uses a package-level
// pointer/map/func/chan/interface variable that is never assigned anywhere in the
// program in a way that must dereference it.
func r0nilglobal(c *core.Ctx, entries ...*ssa.Function) {
	if !c.Once("r0nilglobal") {
		return
	}
	const R = "R0.nilglobal"
	c.Rule(R, "no never-initialised package-level pointer/map/func/interface variable is dereferenced on the way through the NGAP codec")
	// all stores to globals in the whole program (including init)
	assigned := map[*ssa.Global]bool{}
	for _, pk := range c.P.RepoPackages() {
		sp := c.P.SSAPkg(pk.PkgPath)
		if sp == nil {
			continue
		}
		fs := allFuncsOf(sp)
		if ini := sp.Func("init"); ini != nil {
			fs = append(fs, ini)
		}
		for _, f := range fs {
			for _, b := range f.Blocks {
				for _, in := range b.Instrs {
					switch x := in.(type) {
					case *ssa.Store:
						if g, ok := x.Addr.(*ssa.Global); ok {
							assigned[g] = true
						} else if g := rootGlobal(x.Addr); g != nil {
							assigned[g] = true
						}
					case ssa.CallInstruction:
						for _, a := range x.Common().Args {
							if g, ok := a.(*ssa.Global); ok {
								assigned[g] = true // address escapes: could be assigned elsewhere
							}
						}
					}
				}
			}
		}
	}
	reach := staticReach(entries...)
	nGlob, nUse := 0, 0
	for _, pk := range c.P.RepoPackages() {
		sp := c.P.SSAPkg(pk.PkgPath)
		if sp == nil {
			continue
		}
		var names []string
		for n := range sp.Members {
			names = append(names, n)
		}
		sort.Strings(names)
		for _, n := range names {
			g, ok := sp.Members[n].(*ssa.Global)
			if !ok {
				continue
			}
			elem := g.Type().(*types.Pointer).Elem()
			switch elem.Underlying().(type) {
			case *types.Pointer, *types.Map, *types.Signature, *types.Chan, *types.Interface:
			default:
				continue
			}
			nGlob++
			if assigned[g] {
				continue
			}
			// never assigned: any reachable dereferencing use is a definite nil dereference
			for f := range reach {
				for _, b := range f.Blocks {
					for _, in := range b.Instrs {
						ld, ok := in.(*ssa.UnOp)
						if !ok || ld.Op != token.MUL || ld.X != ssa.Value(g) {
							continue
						}
						for _, r := range core.Referrers(ld) {
							deref := ""
							switch u := r.(type) {
							case *ssa.FieldAddr:
								deref = "field access"
							case *ssa.Call:
								if len(u.Call.Args) > 0 && u.Call.Args[0] == ssa.Value(ld) {
									if callee := u.Call.StaticCallee(); callee != nil && mustDerefReceiver(callee, 0) {
										deref = "method " + shortName(core.FuncName(callee)) + " dereferences its receiver unconditionally"
									}
								} else if u.Call.Value == ssa.Value(ld) {
									deref = "call through nil func"
								}
							case *ssa.Lookup, *ssa.MapUpdate:
								if _, isMap := elem.Underlying().(*types.Map); isMap {
									if _, isUpd := r.(*ssa.MapUpdate); isUpd {
										deref = "write to nil map"
									}
								}
							}
							if deref != "" {
								nUse++
								c.Fail(R, shortName(g.Pkg.Pkg.Path()+"."+g.Name())+":"+shortName(core.FuncName(f)), r.Pos(),
									"%s.%s is never assigned anywhere in the program (nil at every use); %s reached from the NGAP codec: %s — every encode/decode panics",
									g.Pkg.Pkg.Path(), g.Name(), shortName(core.FuncName(f)), deref)
							}
						}
					}
				}
			}
		}
	}
	if nGlob == 0 {
		c.Undecided("R0.nilglobal found no nil-able package-level variable in the repository (expected about 9)")
	}
	if nUse == 0 {
		c.Ok(R, "repository:nilable-globals", token.NoPos, fmt.Sprintf("%d nil-able package-level variables, each assigned somewhere (init or later)", nGlob))
	}
}

// mustDerefReceiver: the callee dereferences parameter idx on every path (a load/store
// through it, or a call that does, in a block dominating all returns), depth <= 3.
func mustDerefReceiver(f *ssa.Function, idx int) bool { return mustDeref(f, idx, 0) }

func mustDeref(f *ssa.Function, idx int, depth int) bool {
	if depth > 3 || len(f.Blocks) == 0 || idx >= len(f.Params) {
		return false
	}
	p := f.Params[idx]
	var rets []*ssa.BasicBlock
	for _, b := range f.Blocks {
		for _, in := range b.Instrs {
			if _, ok := in.(*ssa.Return); ok {
				rets = append(rets, b)
			}
		}
	}
	for _, b := range f.Blocks {
		domAll := true
		for _, r := range rets {
			if b != r && !b.Dominates(r) {
				domAll = false
			}
		}
		if !domAll {
			continue
		}
		for _, in := range b.Instrs {
			switch x := in.(type) {
			case *ssa.FieldAddr:
				if x.X == ssa.Value(p) {
					for _, r := range core.Referrers(x) {
						if u, ok := r.(*ssa.UnOp); ok && u.Op == token.MUL && u.Block() == b {
							return true
						}
						if _, ok := r.(*ssa.Store); ok {
							return true
						}
					}
				}
			case *ssa.Call:
				if callee := x.Call.StaticCallee(); callee != nil {
					for i, a := range x.Call.Args {
						if a == ssa.Value(p) && mustDeref(callee, i, depth+1) {
							return true
						}
					}
				}
			}
		}
	}
	return false
}

// ---------------------------------------------------------------- history independence
// pureState: the functions reachable from the entries compute from their arguments
// (and from the package-level variables named in allow, each with its one permitted
// writer) only: no other package-level variable of the repository that is written,
// or whose address escapes, outside package initialisation is touched by them. A
// cache, pool, skeleton or scratch buffer at package level makes the result of a
// call depend on the calls made before it, which is what the properties that
// quantify over "every input" (and not over "every input given this history") exclude.
func pureState(c *core.Ctx, R, what string, entries []*ssa.Function, allow map[string]string) {
	c.Rule(R, what+": no package-level cache, pool, skeleton or scratch state (results depend on the arguments only)")
	reach := c.P.Reachable(entries...)
	type info struct {
		g       *ssa.Global
		readers map[string]bool
		writers map[string]token.Pos
	}
	infos := map[*ssa.Global]*info{}
	nReach := 0
	for f := range reach {
		if f.Pkg == nil || !core.IsRepoPath(fnPkgPath(f)) || isInitFunc(f) {
			continue
		}
		nReach++
		usesOfGlobal(f, func(g *ssa.Global, u globalUse) {
			if g.Pkg == nil || !core.IsRepoPath(g.Pkg.Pkg.Path()) {
				return
			}
			if infos[g] == nil {
				infos[g] = &info{g: g, readers: map[string]bool{}, writers: map[string]token.Pos{}}
			}
			infos[g].readers[shortName(core.FuncName(f))] = true
		})
	}
	for _, pk := range c.P.RepoPackages() {
		sp := c.P.SSAPkg(pk.PkgPath)
		if sp == nil {
			continue
		}
		for _, f := range allFuncsOf(sp) {
			if isInitFunc(f) {
				continue
			}
			usesOfGlobal(f, func(g *ssa.Global, u globalUse) {
				if infos[g] == nil || u.kind == "read" {
					return
				}
				infos[g].writers[shortName(core.FuncName(f))+":"+u.kind] = u.pos
			})
		}
	}
	var gs []*info
	for _, i := range infos {
		gs = append(gs, i)
	}
	sort.Slice(gs, func(i, j int) bool { return gs[i].g.Pkg.Pkg.Path()+"."+gs[i].g.Name() < gs[j].g.Pkg.Pkg.Path()+"."+gs[j].g.Name() })
	for _, i := range gs {
		name := shortName(i.g.Pkg.Pkg.Path() + "." + i.g.Name())
		key := "global:" + name
		elem := i.g.Type().(*types.Pointer).Elem()
		var ws []string
		pos := i.g.Pos()
		for w, p := range i.writers {
			ws = append(ws, w)
			pos = p
		}
		sort.Strings(ws)
		var rs []string
		for r := range i.readers {
			rs = append(rs, r)
		}
		sort.Strings(rs)
		if len(rs) > 4 {
			rs = append(rs[:4], fmt.Sprintf("… %d more", len(rs)-4))
		}
		okKind, kind := trustedImmutableGlobal(i.g, elem)
		if w, allowed := allow[name]; allowed {
			bad := ""
			for _, x := range ws {
				// the documented variable is read by design (its value is copied into messages);
				// only stores to it and hand-outs of its address count
				if !strings.HasPrefix(x, w+":") && !strings.Contains(x, ":escape:ref:") {
					bad = x
				}
			}
			c.Check(bad == "", R, key, pos, "documented state, written only by "+w, "%s may be written by %s only; it is also written by %s", name, w, bad)
			continue
		}
		switch {
		case len(ws) > 0:
			c.Fail(R, key, pos, "package-level %s (%s) is written or handed out by %v and used by %v: the result of %s depends on earlier calls, not on the arguments alone", name, elem.String(), ws, rs, what)
		case !okKind:
			c.Fail(R, key, pos, "package-level %s has type %s, whose contents can be changed through the loaded value; it is used by %v", name, elem.String(), rs)
		default:
			c.Ok(R, key, i.g.Pos(), fmt.Sprintf("immutable after init (%s)", kind))
		}
	}
	if nReach < len(entries) {
		c.Undecided("%s: only %d repository functions reachable from %d entry points — call graph vacuous", R, nReach, len(entries))
	}
	c.Ok(R, "reachable-functions", token.NoPos, fmt.Sprintf("%d repository functions reachable from %d entry points; %d package-level variables touched", nReach, len(entries), len(gs)))
}

// exportedFuncs returns the package-level functions and methods of a package whose
// name satisfies keep.
func exportedFuncs(c *core.Ctx, pkg string, keep func(string) bool) []*ssa.Function {
	sp := c.P.SSAPkg(pkg)
	if sp == nil {
		c.Undecided("package %s not loaded", pkg)
	}
	var out []*ssa.Function
	for _, f := range allFuncsOf(sp) {
		if f.Parent() == nil && !isInitFunc(f) && keep(f.Name()) && len(f.Blocks) > 0 {
			out = append(out, f)
		}
	}
	sort.Slice(out, func(i, j int) bool { return core.FuncName(out[i]) < core.FuncName(out[j]) })
	return out
}

// carriesRef: values of this type share storage with where they were loaded from
// (slices, maps, pointers, or aggregates containing them), trusted handles excepted.
func carriesRef(t types.Type) bool {
	if ok, _ := trustedHandle(t); ok {
		return false
	}
	switch u := t.Underlying().(type) {
	case *types.Slice, *types.Map, *types.Pointer, *types.Chan:
		return true
	case *types.Struct:
		for i := 0; i < u.NumFields(); i++ {
			if carriesRef(u.Field(i).Type()) {
				return true
			}
		}
	case *types.Array:
		return carriesRef(u.Elem())
	}
	return false
}

func trustedHandle(t types.Type) (bool, string) {
	if p, ok := t.(*types.Pointer); ok {
		if n, ok := p.Elem().(*types.Named); ok && n.Obj().Pkg() != nil && n.Obj().Pkg().Path() == "github.com/sirupsen/logrus" {
			return true, "logrus handle (internally locked)"
		}
		if n, ok := p.Elem().(*types.Named); ok && n.Obj().Pkg() != nil && n.Obj().Pkg().Path() == "regexp" && n.Obj().Name() == "Regexp" {
			return true, "compiled regular expression (immutable after compilation; safe for concurrent use, package regexp)"
		}
	}
	if n, ok := t.(*types.Named); ok && n.Obj().Pkg() != nil && n.Obj().Pkg().Path() == "reflect" && n.Obj().Name() == "Type" {
		return true, "reflect.Type descriptor"
	}
	return false, ""
}

// refMutation follows a reference loaded from a package-level variable and reports
// the first use through which the shared contents can be written or the reference
// can leave the function ("" when every use only reads).
func refMutation(v ssa.Value, depth int, seen map[ssa.Value]bool) (string, token.Pos) {
	if seen[v] || depth > 8 {
		return "", token.NoPos
	}
	seen[v] = true
	addrUses := func(addr ssa.Value) (string, token.Pos) {
		for _, r := range core.Referrers(addr) {
			switch y := r.(type) {
			case *ssa.Store:
				if y.Addr == addr {
					return "element written through the loaded reference", y.Pos()
				}
				return "address of shared element stored", y.Pos()
			case *ssa.UnOp:
				if y.Op == token.MUL && carriesRef(y.Type()) {
					if how, p := refMutation(y, depth+1, seen); how != "" {
						return how, p
					}
				}
			case *ssa.FieldAddr, *ssa.IndexAddr:
				// nested addressing: treat like the address itself
				if how, p := refMutationAddr(r.(ssa.Value), depth+1, seen); how != "" {
					return how, p
				}
			case *ssa.DebugRef:
			case ssa.CallInstruction:
				return "address of shared element handed to " + shortName(core.CalleeName(y.Common())), y.Pos()
			default:
				return "address of shared element escapes", r.Pos()
			}
		}
		return "", token.NoPos
	}
	for _, r := range core.Referrers(v) {
		switch y := r.(type) {
		case *ssa.DebugRef:
		case *ssa.Field:
			if carriesRef(y.Type()) {
				if how, p := refMutation(y, depth+1, seen); how != "" {
					return how, p
				}
			}
		case *ssa.Index:
			if carriesRef(y.Type()) {
				if how, p := refMutation(y, depth+1, seen); how != "" {
					return how, p
				}
			}
		case *ssa.IndexAddr:
			if y.X == v {
				if how, p := addrUses(y); how != "" {
					return how, p
				}
			}
		case *ssa.FieldAddr:
			if y.X == v {
				if how, p := addrUses(y); how != "" {
					return how, p
				}
			}
		case *ssa.Slice:
			if how, p := refMutation(y, depth+1, seen); how != "" {
				return how, p
			}
		case *ssa.Lookup:
			if tup, isTuple := y.Type().(*types.Tuple); isTuple && y.X == v && tup.Len() > 0 && carriesRef(tup.At(0).Type()) {
				// v, ok := m[k]
				if how, p := refMutation(y, depth+1, seen); how != "" {
					return how, p
				}
				continue
			}
			if y.X == v && carriesRef(y.Type()) {
				if how, p := refMutation(y, depth+1, seen); how != "" {
					return how, p
				}
			}
		case *ssa.MapUpdate:
			if y.Map == v {
				return "map written through the loaded reference", y.Pos()
			}
		case *ssa.Range, *ssa.BinOp, *ssa.If:
		case *ssa.UnOp:
			if y.Op == token.MUL && carriesRef(y.Type()) {
				if how, p := refMutation(y, depth+1, seen); how != "" {
					return how, p
				}
			}
		case *ssa.ChangeType, *ssa.Convert, *ssa.Phi, *ssa.TypeAssert, *ssa.Extract:
			if how, p := refMutation(r.(ssa.Value), depth+1, seen); how != "" {
				return how, p
			}
		case *ssa.Store:
			if y.Val == v {
				return "loaded reference copied into another object", y.Pos()
			}
		case *ssa.MakeInterface:
			if ok, _ := trustedHandle(v.Type()); !ok {
				return "loaded reference boxed into an interface", y.Pos()
			}
		case *ssa.Return:
			return "loaded reference returned", y.Pos()
		case ssa.CallInstruction:
			name := core.CalleeName(y.Common())
			args := y.Common().Args
			switch name {
			case "builtin.len", "builtin.cap":
				continue
			case "builtin.copy":
				if len(args) == 2 && args[1] == v && args[0] != v {
					continue
				}
				return "copy into the shared storage", y.Pos()
			case "builtin.append":
				if len(args) == 2 && args[1] == v && args[0] != v {
					continue
				}
				return "append to the shared slice", y.Pos()
			}
			if strings.HasPrefix(name, "reflect.") || strings.HasPrefix(name, "fmt.") || strings.HasPrefix(name, "bytes.Equal") || strings.HasPrefix(name, "strings.") {
				continue // read-only library calls
			}
			return "loaded reference handed to " + shortName(name), y.Pos()
		default:
			return fmt.Sprintf("loaded reference used by %T", r), r.Pos()
		}
	}
	return "", token.NoPos
}

func refMutationAddr(addr ssa.Value, depth int, seen map[ssa.Value]bool) (string, token.Pos) {
	if seen[addr] || depth > 8 {
		return "", token.NoPos
	}
	seen[addr] = true
	for _, r := range core.Referrers(addr) {
		switch y := r.(type) {
		case *ssa.Store:
			if y.Addr == addr {
				return "element written through the loaded reference", y.Pos()
			}
			return "address of shared element stored", y.Pos()
		case *ssa.UnOp:
			if y.Op == token.MUL && carriesRef(y.Type()) {
				if how, p := refMutation(y, depth+1, seen); how != "" {
					return how, p
				}
			}
		case *ssa.FieldAddr, *ssa.IndexAddr:
			if how, p := refMutationAddr(r.(ssa.Value), depth+1, seen); how != "" {
				return how, p
			}
		case *ssa.DebugRef:
		case ssa.CallInstruction:
			if b, isB := y.Common().Value.(*ssa.Builtin); isB && (b.Name() == "len" || b.Name() == "cap") {
				continue // asks for the size only
			}
			if how, p, decided := addrIntoCallee(y, addr, depth, seen); decided {
				if how != "" {
					return how, p
				}
				continue
			}
			return "address of shared element handed to " + shortName(core.CalleeName(y.Common())), y.Pos()
		default:
			return "address of shared element escapes", r.Pos()
		}
	}
	return "", token.NoPos
}

// addrIntoCallee follows an address handed to a function of the repository whose body is
// known: what the callee does with the corresponding parameter decides. decided is false
// for any other callee.
func addrIntoCallee(call ssa.CallInstruction, addr ssa.Value, depth int, seen map[ssa.Value]bool) (string, token.Pos, bool) {
	callee := call.Common().StaticCallee()
	if callee == nil || len(callee.Blocks) == 0 || !core.RepoFunc(callee) {
		return "", token.NoPos, false
	}
	for i, a := range call.Common().Args {
		if a != addr || i >= len(callee.Params) {
			continue
		}
		if how, p := refMutationAddr(callee.Params[i], depth+1, seen); how != "" {
			return how + " (in " + callee.Name() + ")", p, true
		}
	}
	return "", token.NoPos, true
}
