package rules

import (
	"fmt"
	"go/types"
	"sort"
	"strings"

	"golang.org/x/tools/go/ssa"

	"stgverif/internal/core"
)

// The builder model read from the heap the builder leaves behind.
//
// buildBuilderModel reads a builder as a sequence of stores through locals of type <Message>IEs
// followed by append - the form of every builder in the tree. A builder written declaratively
// (nested composite literals, the IE list as one slice literal) has no such segments. For those
// the builder is folded by the abstract evaluator and the message is read from the value it
// returns: the PDU's Present, the outcome allocated, its procedure code, criticality and
// Value.Present, the message allocated, and the elements of its ProtocolIEs.List with their id,
// criticality, Present and allocated alternative. The same rules (R13.class, R13.triple, R13.ie)
// then read this model; it does not depend on the statements' form.

type heapNav struct {
	mem *core.AMem
}

// fieldOf: the value and type of field name of the struct value v of type t.
func (h heapNav) fieldOf(v core.AVal, t types.Type, name string) (core.AVal, types.Type, bool) {
	st, ok := t.Underlying().(*types.Struct)
	if !ok || v.K != core.AAgg || len(v.Elems) != st.NumFields() {
		return core.AVal{}, nil, false
	}
	for i := 0; i < st.NumFields(); i++ {
		if st.Field(i).Name() == name {
			return v.Elems[i], st.Field(i).Type(), true
		}
	}
	return core.AVal{}, nil, false
}

// pathOf: follows a dotted path of fields, dereferencing pointers on the way.
func (h heapNav) pathOf(v core.AVal, t types.Type, path string) (core.AVal, types.Type, bool) {
	for _, name := range strings.Split(path, ".") {
		var ok bool
		if v, t, ok = h.deref(v, t); !ok {
			return v, t, false
		}
		if v, t, ok = h.fieldOf(v, t, name); !ok {
			return v, t, false
		}
	}
	return v, t, true
}

// deref: a pointer to a struct becomes the struct it points to (as the memory holds it).
func (h heapNav) deref(v core.AVal, t types.Type) (core.AVal, types.Type, bool) {
	pt, ok := t.Underlying().(*types.Pointer)
	if !ok {
		return v, t, true
	}
	if v.K != core.APtr || v.Sym || v.Path == "" {
		return v, t, false
	}
	return h.mem.Load(v.Path, pt.Elem()), pt.Elem(), true
}

// onlyAlternative: the one non-nil pointer field of a CHOICE-like struct (fields other than
// Present), "" when none is set; ok=false when several are or one cannot be read.
func (h heapNav) onlyAlternative(v core.AVal, t types.Type) (name string, alt core.AVal, at types.Type, ok bool) {
	st, isSt := t.Underlying().(*types.Struct)
	if !isSt || v.K != core.AAgg || len(v.Elems) != st.NumFields() {
		return "", core.AVal{}, nil, false
	}
	for i := 0; i < st.NumFields(); i++ {
		if _, isPtr := st.Field(i).Type().Underlying().(*types.Pointer); !isPtr {
			continue
		}
		e := v.Elems[i]
		switch e.K {
		case core.ANil:
			continue
		case core.APtr:
			if name != "" {
				return "", core.AVal{}, nil, false
			}
			name, alt, at = st.Field(i).Name(), e, st.Field(i).Type()
		default:
			return "", core.AVal{}, nil, false
		}
	}
	return name, alt, at, true
}

func typeShortName(t types.Type) string {
	if pt, ok := t.Underlying().(*types.Pointer); ok {
		t = pt.Elem()
	}
	if n, ok := t.(*types.Named); ok {
		return n.Obj().Name()
	}
	return ""
}

// leafName: how a stored value reads in the vocabulary the segment rules use.
func leafName(v core.AVal) string {
	switch v.K {
	case core.AInt:
		if k, ok := v.ConstVal(); ok {
			return fmt.Sprintf("%d", k)
		}
		return core.NameBits(v.Bits)
	case core.ASlice, core.AStr:
		if v.IsConst {
			return fmt.Sprintf("%q", v.Const)
		}
		return v.Path
	case core.APtr, core.AUnknown:
		return v.Path
	case core.ANil:
		return "nil"
	}
	return "?"
}

// flatten: the leaves below a value, by dotted path.
func (h heapNav) flatten(prefix string, v core.AVal, t types.Type, depth int, out map[string]string) {
	if depth > 8 {
		return
	}
	switch u := t.Underlying().(type) {
	case *types.Pointer:
		if v.K != core.APtr {
			return
		}
		if _, isSt := u.Elem().Underlying().(*types.Struct); !isSt {
			out[prefix] = leafName(v)
			return
		}
		if d, dt, ok := h.deref(v, t); ok {
			h.flatten(prefix, d, dt, depth+1, out)
		}
	case *types.Struct:
		if v.K != core.AAgg || len(v.Elems) != u.NumFields() {
			return
		}
		for i := 0; i < u.NumFields(); i++ {
			p := u.Field(i).Name()
			if prefix != "" {
				p = prefix + "." + p
			}
			h.flatten(p, v.Elems[i], u.Field(i).Type(), depth+1, out)
		}
	case *types.Slice:
		if _, isSt := u.Elem().Underlying().(*types.Struct); isSt && v.K == core.ASlice && v.Lo >= 0 && v.Len >= 0 && v.Len <= 16 {
			for i := 0; i < v.Len; i++ {
				e := h.mem.Load(fmt.Sprintf("%s[%d]", v.Path, v.Lo+i), u.Elem())
				h.flatten(fmt.Sprintf("%s.List[%d]", strings.TrimSuffix(prefix, ".List"), i), e, u.Elem(), depth+1, out)
			}
			return
		}
		if v.K == core.ANil {
			return
		}
		out[prefix] = leafName(v)
	default:
		if v.K == core.ANil {
			return
		}
		out[prefix] = leafName(v)
	}
}

// heapRoleStores: the builder folded with its parameters as names; for every path that returns a
// message, the leaves of the message (IE value paths) with what they hold. nil: not foldable.
func heapRoleStores(fn *ssa.Function) (paths []map[string]string) {
	defer func() {
		if recover() != nil {
			paths = nil
		}
	}()
	ex := core.NewExec()
	ex.LoopBound = 2
	ex.Enter = func(f *ssa.Function) bool { return fnPkgPath(f) == pBuild } // transfers are encoded by aper: opaque octets here
	outs, err := ex.Run(fn, core.DefaultArgs(fn), core.NewMem())
	if err != nil || len(outs) == 0 || len(outs) > 64 || len(ex.Unsound) > 0 {
		return nil
	}
	for _, o := range outs {
		if o.Panicked {
			continue
		}
		hm := readHeapMsg(fn, o)
		if hm == nil {
			return nil
		}
		cells := map[string]string{}
		for _, seg := range hm.segs {
			for k, v := range seg.stores {
				cells["Value."+k] = v
			}
		}
		paths = append(paths, cells)
	}
	return paths
}

type heapMsg struct {
	pduPres            int64
	class, message     string
	procCode, msgCrit  int64
	hasCode, hasMCrit  bool
	valuePres          int64
	segs               []*ieSegment
}

func (a *heapMsg) sameHead(b *heapMsg) bool {
	return a.pduPres == b.pduPres && a.class == b.class && a.message == b.message && a.procCode == b.procCode &&
		a.hasCode == b.hasCode && a.msgCrit == b.msgCrit && a.hasMCrit == b.hasMCrit && a.valuePres == b.valuePres
}

func segSig(s *ieSegment) string {
	return fmt.Sprintf("%s/%d/%d/%d/%s", s.ieType, s.id, s.crit, s.present, s.alloc)
}

// subsequence: every segment of a appears in b, in order.
func subsequence(a, b []*ieSegment) bool {
	j := 0
	for _, s := range a {
		for j < len(b) && segSig(b[j]) != segSig(s) {
			j++
		}
		if j == len(b) {
			return false
		}
		j++
	}
	return true
}

func readHeapMsg(fn *ssa.Function, out core.AOutcome) *heapMsg {
	if out.Panicked || len(out.Ret) != 1 || out.Mem == nil {
		return nil
	}
	h := heapNav{mem: out.Mem}
	rt := fn.Signature.Results().At(0).Type()
	ret := out.Ret[0]
	hm := &heapMsg{}
	pres, _, ok := h.fieldOf(ret, rt, "Present")
	if !ok {
		return nil
	}
	k, isK := pres.ConstVal()
	if !isK {
		return nil
	}
	hm.pduPres = int64(k)
	cls, cv, ct, ok := h.onlyAlternative(ret, rt)
	if !ok || cls == "" {
		return nil
	}
	hm.class = cls
	cobj, cot, ok := h.deref(cv, ct)
	if !ok {
		return nil
	}
	if v, _, ok := h.pathOf(cobj, cot, "ProcedureCode.Value"); ok {
		if k, isK := v.ConstVal(); isK {
			hm.procCode, hm.hasCode = int64(k), true
		}
	}
	if v, _, ok := h.pathOf(cobj, cot, "Criticality.Value"); ok {
		if k, isK := v.ConstVal(); isK {
			hm.msgCrit, hm.hasMCrit = int64(k), true
		}
	}
	val, vt, ok := h.fieldOf(cobj, cot, "Value")
	if !ok {
		return nil
	}
	if v, _, ok := h.fieldOf(val, vt, "Present"); ok {
		if k, isK := v.ConstVal(); isK {
			hm.valuePres = int64(k)
		}
	}
	msg, mv, mt, ok := h.onlyAlternative(val, vt)
	if !ok || msg == "" {
		return nil
	}
	hm.message = msg
	mobj, mot, ok := h.deref(mv, mt)
	if !ok {
		return nil
	}
	list, lt, ok := h.pathOf(mobj, mot, "ProtocolIEs.List")
	if !ok {
		return nil
	}
	sl, isSl := lt.Underlying().(*types.Slice)
	if !isSl {
		return nil
	}
	if list.K == core.ANil {
		return hm
	}
	if list.K != core.ASlice || list.Lo < 0 || list.Len < 0 || list.Len > 64 {
		return nil
	}
	et := sl.Elem()
	for i := 0; i < list.Len; i++ {
		e := h.mem.Load(fmt.Sprintf("%s[%d]", list.Path, list.Lo+i), et)
		seg := &ieSegment{ieType: typeShortName(et), stores: map[string]string{}, appended: true, pos: fn.Pos(), order: i + 1}
		if v, _, ok := h.pathOf(e, et, "Id.Value"); ok {
			if k, isK := v.ConstVal(); isK {
				seg.id, seg.hasID = int64(k), true
			}
		}
		if v, _, ok := h.pathOf(e, et, "Criticality.Value"); ok {
			if k, isK := v.ConstVal(); isK {
				seg.crit, seg.hasCrit = int64(k), true
			}
		}
		ev, evt, ok := h.fieldOf(e, et, "Value")
		if !ok {
			return nil
		}
		if v, _, ok := h.fieldOf(ev, evt, "Present"); ok {
			if k, isK := v.ConstVal(); isK {
				seg.present, seg.hasPres = int64(k), true
			}
		}
		alt, av, at, ok := h.onlyAlternative(ev, evt)
		if !ok {
			return nil
		}
		seg.alloc = alt
		if alt != "" {
			h.flatten(alt, av, at, 0, seg.stores)
		}
		hm.segs = append(hm.segs, seg)
	}
	return hm
}

// heapBuilderModel fills the message-level part and the IE segments of m from the value the
// builder returns on each of its paths. The paths have to agree on the message; the IE list is
// that of the path with the most IEs, the others' lists being sub-sequences of it (IEs added
// under a condition). false: the heap could not be read as a message.
func heapBuilderModel(fn *ssa.Function, m *builderModel) (ok bool) {
	defer func() {
		if recover() != nil {
			ok = false
		}
	}()
	if fn.Signature.Results().Len() != 1 {
		return false
	}
	ex := core.NewExec()
	ex.LoopBound = 2
	ex.Enter = func(f *ssa.Function) bool { return fnPkgPath(f) == pBuild } // transfers are encoded by aper: opaque octets here
	outs, err := ex.Run(fn, core.DefaultArgs(fn), core.NewMem())
	if err != nil || len(outs) == 0 || len(outs) > 64 {
		return false
	}
	var msgs []*heapMsg
	for _, o := range outs {
		if o.Panicked {
			continue
		}
		hm := readHeapMsg(fn, o)
		if hm == nil {
			return false
		}
		msgs = append(msgs, hm)
	}
	if len(msgs) == 0 {
		return false
	}
	sort.SliceStable(msgs, func(i, j int) bool { return len(msgs[i].segs) > len(msgs[j].segs) })
	best := msgs[0]
	for _, o := range msgs[1:] {
		if !best.sameHead(o) || !subsequence(o.segs, best.segs) {
			return false
		}
	}
	m.pduPres, m.class, m.message = best.pduPres, best.class, best.message
	m.procCode, m.hasCode, m.msgCrit, m.hasMCrit, m.valuePres = best.procCode, best.hasCode, best.msgCrit, best.hasMCrit, best.valuePres
	m.segs = best.segs
	m.fromHeap = true
	return true
}

// heapRoleCheck: on every path of the builder the parameter pi is found, as it came in, in the
// IE of its role, and in no other place of the message.
func heapRoleCheck(fn *ssa.Function, pi, role string) (ok bool, detail string, usable bool) {
	paths := heapRoleStores(fn)
	if len(paths) == 0 {
		return false, "", false
	}
	suffix := map[string]string{"amf": "Value.AMFUENGAPID.Value", "ran": "Value.RANUENGAPID.Value", "nas": "Value.NASPDU.Value", "pdu": ".PDUSessionID.Value", "pdulist": ".PDUSessionID.Value"}[role]
	if suffix == "" {
		return false, "", false
	}
	for _, cells := range paths {
		var keys []string
		for k := range cells {
			keys = append(keys, k)
		}
		sort.Strings(keys)
		hits := 0
		roleCells := 0
		for _, k := range keys {
			v := cells[k]
			inRole := strings.HasSuffix(k, suffix)
			if inRole {
				roleCells++
			}
			if !mentionsParam(v, pi) {
				continue
			}
			whole := v == pi
			if role == "pdulist" {
				whole = strings.HasPrefix(v, pi+"[") && strings.HasSuffix(v, "]") && !strings.ContainsAny(v[len(pi)+1:len(v)-1], "+-*&|^%() ")
			}
			if inRole && whole {
				hits++
				continue
			}
			return false, fmt.Sprintf("on a path of the builder %s holds %s", k, clip(v)), true
		}
		if hits == 0 && !(role == "pdulist" && roleCells == 0) {
			return false, fmt.Sprintf("on a path of the builder no IE of that role holds the parameter (%d cells of the role, none is %s)", roleCells, pi), true
		}
	}
	return true, "", true
}
