package rules

import (
	"fmt"
	"go/token"
	"regexp"
	"strings"

	"golang.org/x/tools/go/ssa"

	"stgverif/internal/core"
)

func init() { Registry["C16"] = c16 }

func dependsOnParam(path string, i int) bool {
	for _, m := range paramTokRe.FindAllStringSubmatch(path, -1) {
		if m[2] == fmt.Sprint(i) {
			return true
		}
	}
	return false
}

var paramTokRe = regexp.MustCompile(`(^|[^A-Za-z0-9_#])p(\d+)\b`)

func c16(c *core.Ctx) map[string]interface{} {
	c.Explanation = "Static dependence/flow check of UE identity creation (C16). Decided: (R16.dep) the SUPI given to NewRanUeContext is \"imsi-\" followed by a zero-padded decimal of (IMSI + index) whose width is the configured IMSI's own digit count (so the digit count, and with it MCC/MNC, is kept while the MSIN does not overflow), hence depends on both the IMSI and the index; RAN-UE-NGAP-ID is (f(IMSI)+index) mod M with constant M >= 10000 (injective in the index for populations up to 10000); main passes the 0-based loop index as the index in both modes; (R16.ctx) NewRanUeContext stores its four arguments unmodified in Supi / RanUeNgapId / CipheringAlg / IntegrityAlg and nothing else in main/stgutg/tglib writes those fields; (R16.cred) K → PermanentKeyValue, OPc → OpcValue, OP → Milenage.Op.OpValue and CreateUE hands K, OPC, OP over in that order; (R16.cap) GetUESecurityCapability advertises exactly the algorithm the context holds: case n of the ciphering/integrity switch calls the setter of 5G-EAn/5G-IAn and each setter writes exactly bit (7-n) of octet 0 resp. 1 (TS 24.501 9.11.3.54), and the algorithms NASEncode uses are those same context fields (C06). (R16.pure) UE creation and the capability/credential getters use no package-level cache or skeleton (an IE handed out earlier cannot change, one UE's algorithm bits cannot leak into another's); (R18.load) the configuration values (K, OP, OPc, IMSI) are the ones parsed from the file, not rewritten after parsing. NOT decided: behaviour when IMSI+index overflows the MSIN digits (outside the property), numeric parsing of non-decimal IMSIs."
	c.Assumptions = []string{"fmt.Sprintf(\"%0*d\", w, n) renders n in decimal left-padded with zeros to w digits", "strconv.Atoi parses the decimal IMSI (15 digits fit a 64-bit int)"}
	r0swap(c)
	r16dep(c)
	r16ctx(c)
	r16cred(c)
	r16cap(c)
	r16pure(c)
	r18load(c)
	return nil
}

func r16dep(c *core.Ctx) {
	const R = "R16.dep"
	c.Rule(R, "CreateUE: SUPI = imsi- + zero-padded(IMSI+index, width = digits of IMSI); RAN-UE-NGAP-ID = (f(IMSI)+index) mod M, M >= 10000; main passes the loop index")
	fn := mustFunc(c, pStg, "CreateUE")
	p := core.NewPather(fn)
	nc := core.CallsTo(fn, pTglib+".NewRanUeContext")
	if len(nc) != 1 {
		c.Fail(R, "stgutg.CreateUE:NewRanUeContext", fn.Pos(), "expected one NewRanUeContext call, found %d", len(nc))
		return
	}
	call := nc[0].(*ssa.Call)
	supi := p.Path(call.Call.Args[0])
	ran := p.Path(call.Call.Args[1])
	c.Sites(1)
	okDep := dependsOnParam(supi, 0) && dependsOnParam(supi, 1)
	c.Check(okDep, R, "stgutg.CreateUE:supi-depends-on-imsi-and-index", call.Pos(), clip(supi), "the SUPI (%s) does not depend on both the initial IMSI and the UE index: all UEs would share one identity", clip(supi))
	// recognised form: Sprintf("imsi-%0*d", len(imsi), atoi(imsi)+index)
	num := "call:strconv.Atoi(p0)#0"
	forms := []string{
		"call:fmt.Sprintf(\"imsi-%0*d\",[call:builtin.len(p0),(" + num + "+p1)])",
		"call:fmt.Sprintf(\"imsi-%0*d\",[call:builtin.len(p0),(p1+" + num + ")])",
	}
	if okDep {
		recognised := false
		for _, f := range forms {
			if supi == f {
				recognised = true
			}
		}
		if recognised {
			c.Ok(R, "stgutg.CreateUE:supi-format", call.Pos(), "imsi-%0*d with width len(imsi) of IMSI+index")
		} else if strings.HasPrefix(supi, "call:fmt.Sprintf(") {
			// a Sprintf whose width is not the IMSI's own length loses or adds digits
			c.Fail(R, "stgutg.CreateUE:supi-format", call.Pos(), "SUPI is built as %s: it must be \"imsi-\" + decimal(IMSI+index) zero-padded to the number of digits of the configured IMSI (width len(imsi)), otherwise leading zeros / the digit count, and with them MCC and MNC, are not preserved", clip(supi))
		} else if es, _, okE := r16depEval(c); okE && es == "sprintf(\"imsi-%0*d\"|len(p0),(atoi(p0)+p1))" {
			// the same value reached through helpers: read off the abstract argument of NewRanUeContext
			c.Ok(R, "stgutg.CreateUE:supi-format", call.Pos(), "imsi-%0*d with width len(imsi) of IMSI+index (through helpers)")
		} else {
			c.SoftUndecided("CreateUE builds the SUPI in a form the rule does not recognise: %s", clip(supi))
		}
	}
	// RAN-UE-NGAP-ID
	var m int64
	okRan := false
	if bo := stripConv(call.Call.Args[1]); bo != nil {
		if b, isBo := bo.(*ssa.BinOp); isBo && b.Op == token.REM {
			if k, isK := core.ConstInt(b.Y); isK {
				m = k
				if add, isAdd := stripConv(b.X).(*ssa.BinOp); isAdd && add.Op == token.ADD {
					x, y := p.Path(add.X), p.Path(add.Y)
					if (y == "p1" && dependsOnParam(x, 0) && !dependsOnParam(x, 1)) || (x == "p1" && dependsOnParam(y, 0) && !dependsOnParam(y, 1)) {
						okRan = true
					}
				}
			}
		}
	}
	if !okRan {
		if _, er, okE := r16depEval(c); okE && strings.HasPrefix(er, "((atoi(p0)+p1)%") && strings.HasSuffix(er, ")") {
			var k int64
			if n, _ := fmt.Sscanf(er, "((atoi(p0)+p1)%%%d)", &k); n == 1 {
				okRan, m = true, k
			}
		}
	}
	c.Check(okRan && m >= 10000, R, "stgutg.CreateUE:ran-ue-ngap-id", call.Pos(), fmt.Sprintf("(f(imsi)+index) %% %d", m), "RAN-UE-NGAP-ID is %s: it must be (f(IMSI) + index) mod M with a constant M >= 10000 so that up to 10000 UEs get distinct ids", clip(ran))
	// main passes the loop index (0-based, step 1)
	if mainUnreadable(c, R) {
		return
	}
	i := 0

	for _, mc := range mainCallsTo(c, pStg+".CreateUE") {
		arg := mc.ci.Common().Args[1]
		ok := false
		for _, l := range loopBounds(mc.b.fn) {
			if ssa.Value(l.phi) == arg && l.initOK && l.init == 0 && l.step == 1 {
				ok = true
			}
		}
		i++
		c.Check(ok, R, fmt.Sprintf("main:CreateUE#%d:index", i), mc.ci.Pos(), "loop index (from 0, step 1)", "CreateUE must receive the UE loop index, receives %s", mc.b.p.Path(arg))
	}
}

func stripConv(v ssa.Value) ssa.Value {
	for {
		switch x := v.(type) {
		case *ssa.Convert:
			v = x.X
		case *ssa.ChangeType:
			v = x.X
		default:
			return v
		}
	}
}

func r16ctx(c *core.Ctx) {
	const R = "R16.ctx"
	c.Rule(R, "NewRanUeContext stores its arguments unmodified; identity/algorithm fields are written nowhere else")
	fn := mustFunc(c, pTglib, "NewRanUeContext")
	p := core.NewPather(fn)
	got := map[string]string{}
	for _, b := range fn.Blocks {
		for _, in := range b.Instrs {
			if st, ok := in.(*ssa.Store); ok {
				ap := p.Path(st.Addr)
				if i := strings.LastIndex(ap, "."); i >= 0 {
					got[ap[i+1:]] = p.Path(st.Val)
				}
			}
		}
	}
	for _, t := range []struct{ field, want string }{{"Supi", "p0"}, {"RanUeNgapId", "p1"}, {"CipheringAlg", "p2"}, {"IntegrityAlg", "p3"}} {
		c.Check(got[t.field] == t.want, R, "tglib.NewRanUeContext:"+t.field, fn.Pos(), t.field+" = argument", "%s must be the caller's argument unchanged, is %s", t.field, got[t.field])
	}
	c.Check(len(fn.Blocks) == 1, R, "tglib.NewRanUeContext:unconditional", fn.Pos(), "straight-line", "NewRanUeContext treats some argument values specially (%d blocks): an identifier could be replaced by another UE's", len(fn.Blocks))
	// other writers
	nf := 0
	bad := 0
	for _, pp := range []string{pMain, pStg, pTglib} {
		for _, f := range allFuncsOf(c.P.SSAPkg(pp)) {
			nf++
			if core.FuncName(f) == pTglib+".NewRanUeContext" {
				continue
			}
			fp := core.NewPather(f)
			for _, b := range f.Blocks {
				for _, in := range b.Instrs {
					if st, ok := in.(*ssa.Store); ok && isFieldOfUE(st.Addr, "Supi", "RanUeNgapId", "CipheringAlg", "IntegrityAlg") {
						bad++
						c.Fail(R, core.FuncName(f)+":store("+fp.Path(st.Addr)+")", st.Pos(), "UE identity/algorithm field written outside NewRanUeContext")
					}
				}
			}
		}
	}
	if bad == 0 {
		c.Ok(R, "main+stgutg+tglib:identity-writers", token.NoPos, fmt.Sprintf("%d functions scanned, only NewRanUeContext writes Supi/RanUeNgapId/CipheringAlg/IntegrityAlg", nf))
	}
}

func r16cred(c *core.Ctx) {
	if !c.Once("r16cred") {
		return
	}
	const R = "R16.cred"
	c.Rule(R, "credentials: K → PermanentKeyValue, OPc → OpcValue, OP → Milenage.Op.OpValue; CreateUE passes (K, OPC, OP)")
	fn := mustFunc(c, pTglib, "GetAuthSubscription")
	p := core.NewPather(fn)
	got := map[string]string{}
	for _, b := range fn.Blocks {
		for _, in := range b.Instrs {
			if st, ok := in.(*ssa.Store); ok {
				ap := p.Path(st.Addr)
				for _, f := range []string{"PermanentKeyValue", "OpcValue", "OpValue"} {
					if strings.HasSuffix(ap, "."+f) {
						got[f] = p.Path(st.Val)
					}
				}
			}
		}
	}
	for _, t := range []struct{ field, want, what string }{{"PermanentKeyValue", "p0", "K"}, {"OpcValue", "p1", "OPc"}, {"OpValue", "p2", "OP"}} {
		c.Check(got[t.field] == t.want, R, "tglib.GetAuthSubscription:"+t.field, fn.Pos(), t.what+" → "+t.field, "%s must hold the %s argument (%s), holds %s", t.field, t.what, t.want, got[t.field])
	}
	cu := mustFunc(c, pStg, "CreateUE")
	cp := core.NewPather(cu)
	ga := core.CallsTo(cu, pTglib+".GetAuthSubscription")
	ok := false
	if len(ga) == 1 {
		a := ga[0].Common().Args
		ok = cp.Path(a[0]) == "p2" && cp.Path(a[1]) == "p3" && cp.Path(a[2]) == "p4"
		// stored into the created UE
		stored := false
		for _, b := range cu.Blocks {
			for _, in := range b.Instrs {
				if st, isSt := in.(*ssa.Store); isSt && strings.HasSuffix(cp.Path(st.Addr), ".AuthenticationSubs") && cp.Path(st.Val) == cp.Path(ga[0].(*ssa.Call)) {
					stored = true
				}
			}
		}
		ok = ok && stored
	}
	c.Check(ok, R, "stgutg.CreateUE:credentials", cu.Pos(), "ue.AuthenticationSubs = GetAuthSubscription(K, OPC, OP)", "CreateUE must install GetAuthSubscription(K, OPC, OP) with its own K, OPC, OP parameters in that order")
}

func r16cap(c *core.Ctx) {
	const R = "R16.cap"
	c.Rule(R, "GetUESecurityCapability: algorithm n ⇒ setter of 5G-EAn / 5G-IAn with value 1; each setter writes exactly its bit (octet 0/1, bit 7-n)")
	fn := mustFunc(c, pTglib, "RanUeContext.GetUESecurityCapability")
	p := core.NewPather(fn)
	setters := map[string][2]int{ // name -> (octet, bit)
		"SetEA0_5G": {0, 7}, "SetEA1_128_5G": {0, 6}, "SetEA2_128_5G": {0, 5}, "SetEA3_128_5G": {0, 4},
		"SetIA0_5G": {1, 7}, "SetIA1_128_5G": {1, 6}, "SetIA2_128_5G": {1, 5}, "SetIA3_128_5G": {1, 4},
	}
	want := map[string]struct {
		field string
		id    int64
	}{"SetEA0_5G": {"p0.CipheringAlg", 0}, "SetEA1_128_5G": {"p0.CipheringAlg", 1}, "SetEA2_128_5G": {"p0.CipheringAlg", 2}, "SetEA3_128_5G": {"p0.CipheringAlg", 3},
		"SetIA0_5G": {"p0.IntegrityAlg", 0}, "SetIA1_128_5G": {"p0.IntegrityAlg", 1}, "SetIA2_128_5G": {"p0.IntegrityAlg", 2}, "SetIA3_128_5G": {"p0.IntegrityAlg", 3}}
	_, _ = p, want
	r16capX(c, R)
	// the capability buffer starts as two zero octets, IEI is the Registration Request's
	iei := mustConst(c, pNasM, "RegistrationRequestUESecurityCapabilityType")
	c.Check(iei == 0x2e, R, "nasMessage.RegistrationRequestUESecurityCapabilityType", token.NoPos, "=0x2E", "UE security capability IEI must be 0x2E (TS 24.501 8.2.6), is %#x", iei)
	for name, ob := range setters {
		f := c.P.Func(pNasT, "UESecurityCapability."+name)
		if f == nil {
			c.Fail(R, "nasType.UESecurityCapability."+name, token.NoPos, "setter not found")
			continue
		}
		c.Analysed(pNasT + ".UESecurityCapability." + name)
		fp := core.NewPather(f)
		ba := core.NewBitAnalyzer(f)
		addr := fmt.Sprintf("p0.Buffer[%d]", ob[0])
		var val ssa.Value
		n := 0
		for _, b := range f.Blocks {
			for _, in := range b.Instrs {
				if st, ok := in.(*ssa.Store); ok {
					n++
					if fp.Path(st.Addr) == addr {
						val = st.Val
					}
				}
			}
		}
		ok := false
		desc := "no store to " + addr
		if val != nil && n == 1 {
			b := ba.Bits(val)
			desc = b.Describe()
			ok = b != nil && len(b) == 8 && b.IsCopy(ob[1], ob[1], "p1", 0)
			if ob[1] < 7 {
				ok = ok && b.IsCopy(7, ob[1]+1, addr, ob[1]+1)
			}
			if ob[1] > 0 {
				ok = ok && b.IsCopy(ob[1]-1, 0, addr, 0)
			}
		}
		c.Check(ok, R, "nasType.UESecurityCapability."+name, f.Pos(), fmt.Sprintf("writes bit %d of octet %d only", ob[1], ob[0]), "%s must write exactly bit %d of octet %d (TS 24.501 9.11.3.54); new octet value: %s", name, ob[1], ob[0], desc)
	}
}

// r16pure: UE creation and the capability/credential getters are history-free.
func r16pure(c *core.Ctx) {
	if !c.Once("r16pure") {
		return
	}
	entries := []*ssa.Function{mustFunc(c, pStg, "CreateUE"), mustFunc(c, pTglib, "NewRanUeContext"),
		mustFunc(c, pTglib, "RanUeContext.GetUESecurityCapability"), mustFunc(c, pTglib, "GetAuthSubscription")}
	pureState(c, "R16.pure", "UE creation (CreateUE, NewRanUeContext, GetAuthSubscription, GetUESecurityCapability)", entries, nil)
}
