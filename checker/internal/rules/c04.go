package rules

import (
	"fmt"
	"go/token"
	"go/types"
	"regexp"
	"sort"
	"strings"

	"golang.org/x/tools/go/ssa"

	"stgverif/internal/core"
)

func c04(c *core.Ctx) map[string]interface{} {
	c.Explanation = "Static check of the structural preconditions of decode(encode(x)) = x for the aligned-PER codec (C04). Decided: (R0.nilglobal) as for C03; (R4.parser) both directions obtain every field's constraints from the one tag parser applied to the `aper` tag (no second parser, no hand-built constraint record), and ngap.Encoder/ngap.Decoder pass the same top-level constraint string; (R4.dispatch = R3.tag) open-type alternatives are selected by a referenceFieldValue that is unique within its type and equal to the IE id / procedure code, reference fields precede the open type, Present constants equal positions, CHOICE bounds are the same tag on both sides by construction; (R4.acyclic) the type graph reachable from NGAPPDU has no cycle (decoding recursion is bounded by the schema); (R3.clone) mirrored primitives agree where they are clones: constrained-whole-number guard chains, octets-of-range and bit-width loops of INTEGER, length-range guards, SEQUENCE OF size guards, CHOICE index range; (R4.len) the length determinant decoder accepts exactly the X.691 10.9 forms the encoder emits (bit provenance of both octets, fragment counts 1..4); (R4.align) parseAlignBits, evaluated for every bit offset 0..7, accepts only when all remaining bits of the octet were compared with zero and leaves the cursor on the next octet boundary (offset 0: consumes nothing); (R4.seqof) SEQUENCE OF: the lower bound is added to the decoded count exactly on the constrained branches where the encoder subtracted it. (R4.frag) in the fragment loops of parseOctetString/parseBitString the string collected so far is only ever extended, so a string sent in several fragments (16K units or more) comes back whole. (R4.bits) GetBitString and GetBitsValue select the bits the bit stream defines: for every bit offset 0..7 and every length of 1..33 resp. 1..64 bits, with symbolic source octets, the result is the source's bits offset..offset+length-1 in order (left-aligned resp. as a big-endian number) and nothing else; a source one octet short is refused without an out-of-range index; widths up to 2040 bits (a length octet of 255) do not panic (index and slice-bound checks of the evaluator on). (R4.len) the value parseLength returns is folded for every first and second octet a path admits. NOT decided: value equality after a round trip for every value (arithmetic of the primitives), acceptance of encodings produced by other encoders beyond these structural facts. (components) the rule set of C03 is run as part of this check: decode(encode(x)) = x needs a correct encoder."
	c.Assumptions = []string{"reflect.StructTag.Get returns the tag text the schema model reads"}
	r0nilglobal(c, ngapEntries(c)...)
	s := buildSchema(c)
	r3tag(c, s)
	r4parser(c)
	r4acyclic(c, s)
	r3clone(c)
	r4lenX(c)
	r4align(c)
	r4seqof(c)
	r4frag(c)
	r4entry(c)
	r4bits(c)
	include(c, "C03")
	return map[string]interface{}{"ngap_types": len(s.Types)}
}

// ---------------------------------------------------------------- R4.parser
func r4parser(c *core.Ctx) {
	const R = "R4.parser"
	c.Rule(R, "one tag parser for both directions; same `aper` tag key; same top-level constraint string in ngap.Encoder and ngap.Decoder")
	sp := c.P.SSAPkg(pAper)
	pf := pAper + ".parseFieldParameters"
	// every fieldParameters value that is not a parameter/copy comes from parseFieldParameters
	producers := map[string]int{}
	tagKeys := map[string]map[string]bool{}
	for _, f := range allFuncsOf(sp) {
		fname := core.FuncName(f)
		for _, b := range f.Blocks {
			for _, in := range b.Instrs {
				switch x := in.(type) {
				case *ssa.Call:
					n := core.CalleeName(&x.Call)
					if n == pf {
						producers[fname]++
					}
					if n == "reflect.StructTag.Get" {
						if k, ok := core.ConstString(x.Call.Args[1]); ok {
							if tagKeys[fname] == nil {
								tagKeys[fname] = map[string]bool{}
							}
							tagKeys[fname][k] = true
						}
					}
				case *ssa.Alloc:
					// a local fieldParameters that is filled field by field would be a second parser
					if derefNamed(x.Type()) == pAper+".fieldParameters" && fname != pf {
						for _, r := range core.Referrers(x) {
							if fa, ok := r.(*ssa.FieldAddr); ok {
								for _, r2 := range core.Referrers(fa) {
									if st, isSt := r2.(*ssa.Store); isSt && st.Addr == ssa.Value(fa) {
										name := fieldNameOf(fa)
										// the codec legitimately clears the size bounds for list elements and sets the open-type reference value
										if name == "sizeExtensible" || name == "sizeUpperBound" || name == "sizeLowerBound" || name == "referenceFieldValue" {
											continue
										}
										c.Fail(R, shortName(fname)+":writes-constraint:"+name, st.Pos(), "constraint field %s is written outside the tag parser: encoder and decoder could see different constraints", name)
									}
								}
							}
						}
					}
				}
			}
		}
	}
	for _, fn := range []string{pAper + ".perRawBitData.makeField", pAper + ".parseField"} {
		// the direction's walker and the helpers of the package it reaches (a SEQUENCE walker moved
		// into a function of its own reads the tags there)
		k := map[string]bool{}
		nProd := 0
		short := strings.TrimPrefix(fn, pAper+".")
		if entry := c.P.Func(pAper, short); entry != nil {
			for g := range staticReach(entry) {
				if fnPkgPath(g) != pAper {
					continue
				}
				gn := core.FuncName(g)
				nProd += producers[gn]
				for key := range tagKeys[gn] {
					k[key] = true
				}
			}
		} else {
			k, nProd = tagKeys[fn], producers[fn]
		}
		c.Check(nProd >= 1 && len(k) == 1 && k["aper"], R, shortName(fn)+":tag-source", token.NoPos, "parseFieldParameters(Tag.Get(\"aper\"))", "%s must read the constraints of every struct field with parseFieldParameters(field.Tag.Get(\"aper\")); tag keys used: %v", shortName(fn), k)
	}
	for _, fn := range []string{pAper + ".MarshalWithParams", pAper + ".UnmarshalWithParams"} {
		c.Check(producers[fn] == 1, R, shortName(fn)+":top-level", token.NoPos, "top-level params through the same parser", "%s must parse its top-level parameter string with parseFieldParameters", shortName(fn))
	}
	// top-level strings equal
	enc, dec := mustFunc(c, pNgap, "Encoder"), mustFunc(c, pNgap, "Decoder")
	se, sd := "", ""
	for _, ci := range core.CallsTo(enc, pAper+".MarshalWithParams") {
		se, _ = core.ConstString(ci.Common().Args[1])
	}
	for _, ci := range core.CallsTo(dec, pAper+".UnmarshalWithParams") {
		sd, _ = core.ConstString(ci.Common().Args[2])
	}
	c.Check(se != "" && se == sd, R, "ngap.Encoder/Decoder:top-level-params", enc.Pos(), se, "ngap.Encoder uses %q and ngap.Decoder %q as the NGAP-PDU constraints: they must be the same string", se, sd)
	want := "valueExt,valueLB:0,valueUB:2"
	c.Check(se == want, R, "ngap.Encoder:ngap-pdu-choice", enc.Pos(), want, "NGAP-PDU is an extensible CHOICE of 3 alternatives: the constraint string must be %q, is %q", want, se)
}

// ---------------------------------------------------------------- R4.acyclic
func r4acyclic(c *core.Ctx, s *schema) {
	const R = "R4.acyclic"
	c.Rule(R, "the type graph reachable from NGAPPDU is acyclic")
	seen, cycles := s.reachableFrom("NGAPPDU")
	if len(seen) < 900 {
		c.Undecided("only %d types reachable from NGAPPDU (expected about 1072)", len(seen))
	}
	if len(cycles) > 0 {
		sort.Slice(cycles, func(i, j int) bool { return len(cycles[i]) < len(cycles[j]) })
		c.Fail(R, "ngapType:cycle:"+cycles[0][0], token.NoPos, "recursive type: %s", strings.Join(cycles[0], " → "))
	} else {
		c.Ok(R, "ngapType:NGAPPDU-type-graph", token.NoPos, fmt.Sprintf("%d types reachable, 0 cycles", len(seen)))
	}
}

// ---------------------------------------------------------------- R3.clone
var ivRe = regexp.MustCompile(`iv\d+`)

// condFamily lists the canonical If conditions of fn (loop variables anonymised) that match re.
func condFamily(fn *ssa.Function, re *regexp.Regexp) []string {
	p := core.NewPather(fn)
	var out []string
	for _, b := range fn.Blocks {
		if iff, ok := b.Instrs[len(b.Instrs)-1].(*ssa.If); ok {
			s := ivRe.ReplaceAllString(p.Path(iff.Cond), "iv")
			if re.MatchString(s) {
				out = append(out, s)
			}
		}
	}
	sort.Strings(out)
	return out
}

// sigSet reduces conditions to the part the regexp captures (or the whole match) and dedupes.
func sigSet(conds []string, re *regexp.Regexp) []string {
	set := map[string]bool{}
	for _, s := range conds {
		m := re.FindStringSubmatch(s)
		if m == nil {
			continue
		}
		if len(m) > 1 {
			set[m[1]] = true
		} else {
			set[m[0]] = true
		}
	}
	var out []string
	for k := range set {
		out = append(out, k)
	}
	sort.Strings(out)
	return out
}

func r3clone(c *core.Ctx) {
	cvDecided, intDecided := r3agree(c)
	const R = "R3.clone"
	c.Rule(R, "encoder/decoder sibling primitives agree in their cloned guard chains and loops")
	// encRef: when the encoder's side of a pair was decided semantically by another rule and no longer
	// contains the construct, the decoder is compared with this reference set instead
	var encRef []string
	pair := func(key, encName, decName string, re *regexp.Regexp, what string, minN int) {
		enc, dec := mustFunc(c, pAper, encName), mustFunc(c, pAper, decName)
		e, d := sigSet(condFamily(enc, re), re), sigSet(condFamily(dec, re), re)
		c.Sites(2)
		if ref := encRef; ref != nil && len(e) == 0 && len(d) > 0 {
			c.Check(strings.Join(d, " ") == strings.Join(ref, " "), R, key, dec.Pos(), strings.Join(d, " ")+" (the encoder's side decided on the evaluator)", "%s: the decoder (%s) uses %v, the encoding rules (and the encoder, as evaluated) use %v — a value encoded on one side is decoded differently on the other", what, decName, d, ref)
			return
		}
		if len(e) < minN && len(d) < minN {
			c.SoftUndecided("%s: neither %s nor %s contains the expected %s (clone not recognised)", key, encName, decName, what)
			return
		}
		if (len(e) < minN || len(d) < minN) && (len(e) == 0 || len(d) == 0) {
			// one side was restructured (helper, closed form): the two can no longer be compared as clones
			c.SoftUndecided("%s: only one of %s (%v) and %s (%v) still contains the expected %s — the other computes it in a form the rule cannot compare", key, encName, e, decName, d, what)
			return
		}
		c.Check(strings.Join(e, " ") == strings.Join(d, " "), R, key, enc.Pos(), strings.Join(e, " "), "%s: the encoder (%s) uses %v but the decoder (%s) uses %v — a value encoded on one side is decoded differently on the other", what, encName, e, decName, d)
	}
	// the clones of the constrained whole number are compared textually only where R3.agree could not
	// decide them semantically (it compares the complete case tables range -> first wire operation of
	// both sides with each other and with X.691, which includes every threshold)
	if !cvDecided {
		pair("aper:constraint-value-guards", "perRawBitData.appendConstraintValue", "perBitData.parseConstraintValue", regexp.MustCompile(`^(\(p1[<>=!]+-?\d+\))$`), "constrained whole number range guards", 3)
	}
	if !cvDecided {
		pair("aper:constraint-value-bit-width", "perRawBitData.appendConstraintValue", "perBitData.parseConstraintValue", regexp.MustCompile(`^(\(iv<=8\)|\(\(1<<iv\)>=p1\))$`), "bit-field width loop (1..8 bits, 2^i >= range)", 2)
	}
	if !intDecided {
		pair("aper:integer-octets-of-range", "perRawBitData.appendInteger", "perBitData.parseInteger", regexp.MustCompile(`^(\(\(iv>>8\).*)$`), "octets-of-range loop exit test", 1)
	}
	if !intDecided {
		pair("aper:integer-length-bits", "perRawBitData.appendInteger", "perBitData.parseInteger", regexp.MustCompile(`^(\(\(1<<iv\)>=iv\))$`), "bit width of the length field", 1)
	}
	pair("aper:integer-range-classes", "perRawBitData.appendInteger", "perBitData.parseInteger", regexp.MustCompile(`^\(phi\(.*\)(<=65536|<=0|<0|==1)\)$`), "value-range classes (1, <=0, <0, <=65536)", 2)
	pair("aper:length-range-guards", "perRawBitData.appendLength", "perBitData.parseLength", regexp.MustCompile(`^(\(p1[<>=]+-?\d+\))$`), "constrained-length range guards", 2)
	// SEQUENCE OF: the evaluator models of both sides (R4.seqof / R3.seqof) decide which count form is used
	// under which bounds; the textual comparison of the guards is the fallback
	if _, why := seqofEval(c); why != "" {
		pair("aper:sequence-of-size-guards", "perRawBitData.parseSequenceOf", "perBitData.parseSequenceOf", regexp.MustCompile(`(p2\.size(?:Lower|Upper)Bound<65536)`), "SEQUENCE OF size-bound guards", 2)
	} else if _, why2 := seqofEncEval(c); why2 != "" {
		pair("aper:sequence-of-size-guards", "perRawBitData.parseSequenceOf", "perBitData.parseSequenceOf", regexp.MustCompile(`(p2\.size(?:Lower|Upper)Bound<65536)`), "SEQUENCE OF size-bound guards", 2)
	}
	// BIT/OCTET STRING size classes: R3.strlen decides on the evaluator under which bounds the encoder uses
	// the constrained form; the textual comparison with the decoder is the fallback
	r3strlen(c)
	if strlenEncDecided[c]["perRawBitData.appendBitString"] {
		encRef = []string{"==1", ">65535"}
	}
	if strlenEncDecided[c]["perRawBitData.appendBitString"] && strlenEncDecided[c]["perBitData.parseBitString"] {
		c.Note("R3.clone: BIT STRING size classes are decided on both sides by R3.strlen on the evaluator; no textual comparison")
	} else {
		pair("aper:bitstring-size-classes", "perRawBitData.appendBitString", "perBitData.parseBitString", regexp.MustCompile(`^\(phi\(.*\)(>65535|==1)\)$`), "BIT STRING size classes", 2)
	}
	encRef = nil
	if strlenEncDecided[c]["perRawBitData.appendOctetString"] {
		encRef = []string{"==1", ">65535"}
	}
	if strlenEncDecided[c]["perRawBitData.appendOctetString"] && strlenEncDecided[c]["perBitData.parseOctetString"] {
		c.Note("R3.clone: OCTET STRING size classes are decided on both sides by R3.strlen on the evaluator; no textual comparison")
	} else {
		pair("aper:octetstring-size-classes", "perRawBitData.appendOctetString", "perBitData.parseOctetString", regexp.MustCompile(`^\(phi\(.*\)(>65535|==1)\)$`), "OCTET STRING size classes", 2)
	}
	encRef = nil
	// CHOICE index: both sides use range ub+1
	encC, decC := mustFunc(c, pAper, "perRawBitData.appendChoiceIndex"), mustFunc(c, pAper, "perBitData.getChoiceIndex")
	pe, pd := core.NewPather(encC), core.NewPather(decC)
	okE, okD := false, false
	for _, ci := range core.CallsTo(encC, pAper+".perRawBitData.appendConstraintValue") {
		a := ci.Common().Args
		if pe.Path(a[1]) == "(p3+1)" && pe.Path(a[2]) == "(p1-1)" {
			okE = true
		}
	}
	for _, ci := range core.CallsTo(decC, pAper+".perBitData.parseConstraintValue") {
		if pd.Path(ci.Common().Args[1]) == "(p2+1)" {
			okD = true
		}
	}
	// decoder: present = rawChoice + 1
	okP := false
	for _, b := range decC.Blocks {
		for _, in := range b.Instrs {
			if r, ok := in.(*ssa.Return); ok && len(r.Results) == 2 && strings.Contains(pd.Path(r.Results[0]), "#0+1)") {
				okP = true
			}
		}
	}
	c.Check(okE && okD && okP, R, "aper:choice-index", encC.Pos(), "index = present-1 in range ub+1 on both sides", "CHOICE index: the encoder must write present-1 with range ub+1 and the decoder read range ub+1 and add 1 (encoder ok %v, decoder range ok %v, decoder +1 ok %v)", okE, okD, okP)
}

// ---------------------------------------------------------------- R3.len / R4.len
// emitted: the octets a block puts on the wire, as one MSB-first bit vector.
func emittedBits(fn *ssa.Function, b *ssa.BasicBlock, ia *core.IntervalAnalyzer) (core.BitVec, token.Pos) {
	p := core.NewPather(fn)
	ba := core.NewBitAnalyzer(fn)
	ba.IA, ba.Ctx = ia, b
	for _, in := range b.Instrs {
		switch x := in.(type) {
		case *ssa.Call:
			if core.CalleeName(&x.Call) == pAper+".perRawBitData.putBitsValue" {
				n, ok := core.ConstInt(x.Call.Args[2])
				if !ok {
					return nil, x.Pos()
				}
				v := ba.Bits(x.Call.Args[1])
				if v == nil || int(n) > len(v) {
					return nil, x.Pos()
				}
				return v[:n], x.Pos()
			}
		case *ssa.Store:
			if p.Path(x.Addr) == "p0.bytes" {
				if call, ok := x.Val.(*ssa.Call); ok && core.CalleeName(&call.Call) == "builtin.append" && len(call.Call.Args) == 2 {
					if sl, isSl := call.Call.Args[1].(*ssa.Slice); isSl {
						if a, isA := sl.X.(*ssa.Alloc); isA {
							if elems, okE := core.ArrayLitElems(a); okE {
								var out core.BitVec
								for i := len(elems) - 1; i >= 0; i-- {
									if elems[i] == nil {
										return nil, x.Pos()
									}
									eb := ba.Bits(elems[i])
									if len(eb) != 8 {
										return nil, x.Pos()
									}
									out = append(out, eb...)
								}
								return out, x.Pos()
							}
						}
					}
				}
			}
		}
	}
	return nil, token.NoPos
}

func r3len(c *core.Ctx) {
	const R = "R3.len"
	c.Rule(R, "appendLength emits the X.691 10.9 length determinant: 0xxxxxxx up to 127, 10xxxxxx xxxxxxxx up to 16383, 11000nnn fragments above")
	fn := mustFunc(c, pAper, "perRawBitData.appendLength")
	ia := core.NewIntervalAnalyzer(fn)
	val := fn.Params[2]
	type form struct {
		hi   int64
		bits core.BitVec
		pos  token.Pos
	}
	var forms []form
	for _, b := range fn.Blocks {
		// unconstrained part only: blocks after the sizeRange test, i.e. not the appendConstraintValue block
		v, pos := emittedBits(fn, b, ia)
		if v == nil {
			continue
		}
		iv := ia.At(val, b)
		hi := int64(1 << 62)
		if iv.Known {
			hi = iv.Hi
		}
		forms = append(forms, form{hi, v, pos})
	}
	sort.Slice(forms, func(i, j int) bool { return forms[i].hi < forms[j].hi })
	if len(forms) != 3 {
		c.SoftUndecided("appendLength: expected three emission forms (short, long, fragment), recognised %d", len(forms))
		return
	}
	f1, f2, f3 := forms[0], forms[1], forms[2]
	ok1 := f1.hi == 127 && len(f1.bits) == 8 && f1.bits.IsConst(7, 7, 0) && f1.bits.IsCopy(6, 0, "p2", 0)
	c.Check(ok1, R, "aper.appendLength:short-form", f1.pos, "n <= 127 → 0nnnnnnn", "lengths up to 127 (and only those) are one octet 0nnnnnnn; the code uses this form up to %d and emits %s", f1.hi, f1.bits.Describe())
	ok2 := f2.hi == 16383 && len(f2.bits) == 16 && f2.bits.IsConst(15, 14, 2) && f2.bits.IsCopy(13, 0, "p2", 0)
	c.Check(ok2, R, "aper.appendLength:long-form", f2.pos, "n <= 16383 → 10nnnnnn nnnnnnnn", "lengths 128..16383 are two octets 10nnnnnn nnnnnnnn (big-endian 14-bit value); the code uses this form up to %d and emits %s", f2.hi, f2.bits.Describe())
	ok3 := len(f3.bits) == 8 && f3.bits.IsConst(7, 6, 3) && f3.bits.IsCopy(5, 0, "p2", 14)
	c.Check(ok3, R, "aper.appendLength:fragment-form", f3.pos, "11mmmmmm with m = n/16384", "fragmented lengths are announced by 11mmmmmm with m = n >> 14; the code emits %s", f3.bits.Describe())
}

func r4len(c *core.Ctx) {
	const R = "R4.len"
	c.Rule(R, "parseLength accepts the X.691 10.9 forms: bit 8 clear → 7-bit value; bits 10 → 14-bit big-endian value over two octets; 11 → 1..4 fragments of 16384")
	fn := mustFunc(c, pAper, "perBitData.parseLength")
	p := core.NewPather(fn)
	p.DistinctCalls = true
	ba := core.NewBitAnalyzer(fn)
	ba.P = p
	ba.AssumeFn = func(src string) (int, bool) {
		// getBitsValue(n) yields an n-bit value
		if strings.HasPrefix(src, "call:"+pAper+".perBitData.getBitsValue(p0,8)") {
			return 8, true
		}
		return 0, false
	}
	first := "call:" + pAper + ".perBitData.getBitsValue(p0,8)#0"
	second := "call:" + pAper + ".perBitData.getBitsValue(p0,8)@2#0"
	okShort, okLong, okFrag, okRange := false, false, false, false
	for _, b := range fn.Blocks {
		// under which tests on the first octet is this block?
		var conds []string
		for x := b; x != nil; x = x.Idom() {
			id := x.Idom()
			if id == nil {
				break
			}
			if iff, ok := id.Instrs[len(id.Instrs)-1].(*ssa.If); ok && len(x.Preds) == 1 {
				s := p.Path(iff.Cond)
				if id.Succs[0] == x {
					conds = append(conds, s+"=T")
				} else {
					conds = append(conds, s+"=F")
				}
			}
		}
		cs := strings.Join(conds, " ")
		for _, in := range b.Instrs {
			r, ok := in.(*ssa.Return)
			if !ok || len(r.Results) != 2 {
				continue
			}
			if k, isK := r.Results[1].(*ssa.Const); !isK || k.Value != nil {
				if !strings.Contains(p.Path(r.Results[1]), "#1") {
					continue
				}
			}
			v := ba.Bits(r.Results[0])
			if v == nil {
				continue
			}

			switch {
			case strings.Contains(cs, "(("+first+"&128)==0)=T"):
				if v.IsCopy(6, 0, first, 0) && v.IsConst(63, 7, 0) {
					okShort = true
				}
			case strings.Contains(cs, "(("+first+"&64)==0)=T") && strings.Contains(cs, "(("+first+"&128)==0)=F"):
				if v.IsCopy(13, 8, first, 0) && v.IsCopy(7, 0, second, 0) {
					okLong = true
				}
			case strings.Contains(cs, "(("+first+"&64)==0)=F"):
				if p.Path(r.Results[0]) == "(16384*("+first+"&63))" {
					okFrag = true
				}
			}
		}
	}
	lo, hi := false, false
	for _, b := range fn.Blocks {
		iff, ok := b.Instrs[len(b.Instrs)-1].(*ssa.If)
		if !ok {
			continue
		}
		hasErr := false
		for _, in := range b.Succs[0].Instrs {
			if call, isC := in.(*ssa.Call); isC && core.CalleeName(&call.Call) == "fmt.Errorf" {
				hasErr = true
			}
		}
		switch p.Path(iff.Cond) {
		case "((" + first + "&63)<1)":
			lo = hasErr
		case "((" + first + "&63)>4)":
			hi = hasErr
		}
	}
	okRange = lo && hi
	c.Check(okShort, R, "aper.parseLength:short-form", fn.Pos(), "0nnnnnnn → n", "a first octet with bit 8 clear must yield its low 7 bits")
	c.Check(okLong, R, "aper.parseLength:long-form", fn.Pos(), "10nnnnnn nnnnnnnn → 14-bit value", "a first octet 10nnnnnn must combine its low 6 bits (high part) with the next octet (low part)")
	c.Check(okFrag && okRange, R, "aper.parseLength:fragment-form", fn.Pos(), "11mmmmmm → m*16384, m in 1..4", "a first octet 11mmmmmm must yield m*16384 fragments and reject m outside 1..4 (value ok %v, range check ok %v)", okFrag, okRange)
}

// ---------------------------------------------------------------- R3.int
func r3int(c *core.Ctx) {
	const R = "R3.int"
	c.Rule(R, "appendInteger: octets are counted on value>>7 (two's complement, sign bit) for unconstrained/extended values and on value>>8 (non-negative) for constrained ranges above 64K")
	fn := mustFunc(c, pAper, "perRawBitData.appendInteger")
	decidedX := r3intX(c, R)
	p := core.NewPather(fn)
	found := false
	for _, b := range fn.Blocks {
		for _, in := range b.Instrs {
			ph, ok := in.(*ssa.Phi)
			if !ok {
				break
			}
			shifts := map[int64]*ssa.BasicBlock{}
			type edgeShift struct {
				k    int64
				pred *ssa.BasicBlock
			}
			var allShifts []edgeShift
			other := false
			for i, e := range ph.Edges {
				bo, isBo := e.(*ssa.BinOp)
				if isBo && bo.Op == token.SHR && bo.X == ssa.Value(ph) {
					other = true // loop-carried shift, not the class-dependent pre-shift
					continue
				}
				if isBo && bo.Op == token.SHR {
					if k, isK := core.ConstInt(bo.Y); isK {
						shifts[k] = b.Preds[i]
						allShifts = append(allShifts, edgeShift{k, b.Preds[i]})
						continue
					}
				}
				other = true
			}
			if other || len(shifts) == 0 || len(ph.Edges) < 2 {
				continue
			}
			// classify each incoming edge by the range class that leads to it
			class := func(blk *ssa.BasicBlock) string {
				for x := blk; x != nil; x = x.Idom() {
					id := x.Idom()
					if id == nil {
						break
					}
					if iff, isIf := id.Instrs[len(id.Instrs)-1].(*ssa.If); isIf && len(x.Preds) == 1 {
						s := p.Path(iff.Cond)
						t := id.Succs[0] == x
						switch {
						case strings.HasSuffix(s, "<=0)") && t:
							return "unconstrained"
						case strings.HasSuffix(s, "<=65536)") && !t:
							return "constrained>64K"
						case strings.HasSuffix(s, "<=0)") && !t:
							continue
						}
					}
				}
				return "?"
			}
			found = true
			for ei, es := range allShifts {
				k, pred := es.k, es.pred
				cl := class(pred)
				if ei > 0 {
					// a second way into the same class keeps the class's key; a differing one is a new obligation
				}
				want := map[string]int64{"unconstrained": 7, "constrained>64K": 8}[cl]
				key := fmt.Sprintf("aper.appendInteger:octet-count-shift(%s)", cl)
				if cl == "?" {
					c.SoftUndecided("appendInteger: cannot attribute the pre-shift by %d to a range class", k)
					continue
				}
				c.Check(k == want, R, key, ph.Pos(), fmt.Sprintf(">>%d", want), "for %s integers the octet count must start from value>>%d (X.691 10.5.7 / 10.8: %s); the code shifts by %d", cl, want, map[int64]string{7: "two's-complement needs room for the sign bit", 8: "non-negative-binary-integer in the minimum number of octets"}[want], k)
			}
			if len(shifts) < 2 {
				c.Fail(R, "aper.appendInteger:octet-count-shift(single)", ph.Pos(), "both range classes count octets with the same pre-shift (%v): constrained values get a spurious leading octet or unconstrained ones lose their sign bit", keysInt(shifts))
			}
		}
	}
	if !found {
		// is there an octet-count loop (x >>= 8 until 0) at all? Then it is entered without
		// the class-dependent pre-shift.
		for _, l := range allLoopPhis(fn) {
			for _, e := range l.backEdges {
				if bo, ok := e.(*ssa.BinOp); ok && bo.Op == token.SHR && bo.X == ssa.Value(l.phi) {
					if k, isK := core.ConstInt(bo.Y); isK && k == 8 {
						c.Fail(R, "aper.appendInteger:octet-count-shift(single)", l.phi.Pos(), "the octet-count loop is entered with %s for every range class: unconstrained/extended values need value>>7 (room for the sign bit) and constrained ranges above 64K value>>8 — one class gets a wrong octet count", clip(p.Path(l.init)))
						return
					}
				}
			}
		}
		if decidedX {
			c.Note("R3.int: the octet count of appendInteger is not a class-dependent pre-shift followed by a shift loop; it is decided by the value classes of the evaluator (non-negative values; constrained ranges 2^32 and 2^40, unconstrained)")
			return
		}
		c.SoftUndecided("appendInteger: the octet-count pre-shift (value>>7 / value>>8) was not found in the recognised form")
	}
}

func keysInt(m map[int64]*ssa.BasicBlock) []int64 {
	var out []int64
	for k := range m {
		out = append(out, k)
	}
	sort.Slice(out, func(i, j int) bool { return out[i] < out[j] })
	return out
}

// ---------------------------------------------------------------- R3.mask
func r3mask(c *core.Ctx) {
	const R = "R3.mask"
	c.Rule(R, "appendBitString clears the unused bits of the last octet before any octet is emitted")
	fn := mustFunc(c, pAper, "perRawBitData.appendBitString")
	p := core.NewPather(fn)
	var mask *ssa.Store
	for _, b := range fn.Blocks {
		for _, in := range b.Instrs {
			if st, ok := in.(*ssa.Store); ok {
				ap, vp := p.Path(st.Addr), p.Path(st.Val)
				if strings.HasPrefix(ap, "p1[") && strings.HasPrefix(vp, "("+ap+"&(255<<") {
					mask = st
				}
			}
		}
	}
	if mask == nil {
		c.Fail(R, "aper.appendBitString:padding-mask", fn.Pos(), "the bits of the last octet beyond BitLength are not cleared: stray bits of the caller's buffer reach the wire and are OR-ed into the following field")
		return
	}
	ap := p.Path(mask.Addr)
	okIdx := ap == "p1[(((p2+7)>>3)-1)]"
	okShift := strings.Contains(p.Path(mask.Val), "(255<<(8-(p2&7)))")
	// guarded by shift != 8, and the guard dominates every emission
	guard := mask.Block().Idom()
	okDom := guard != nil
	if okDom {
		for _, ci := range core.Calls(fn) {
			n := core.CalleeName(ci.Common())
			if n == pAper+".perRawBitData.putBitString" || (n == "builtin.append" && strings.HasPrefix(p.Path(ci.Common().Args[0]), "p0.bytes")) {
				if !guard.Dominates(ci.Block()) {
					okDom = false
				}
			}
		}
	}
	c.Check(okIdx && okShift && okDom, R, "aper.appendBitString:padding-mask", mask.Pos(), "bytes[last] &= 0xff << (8 - bitLength%8) before emission", "the padding mask must clear bits (8 - bitLength%%8) of octet (bitLength+7)/8 - 1 before anything is emitted (index ok %v, shift ok %v, precedes emission %v)", okIdx, okShift, okDom)
}

// ---------------------------------------------------------------- R4.seqof
func r4seqof(c *core.Ctx) {
	const R = "R4.seqof"
	c.Rule(R, "SEQUENCE OF: count = decoded value + lowerBound on the constrained branches only; raw count octet on the semi-constrained branch (mirror of the encoder)")
	dec := mustFunc(c, pAper, "perBitData.parseSequenceOf")
	if r4seqofDecX(c, R) {
		r4seqofEnc(c, R)
		return
	}
	p := core.NewPather(dec)
	var n string
	for _, ci := range core.CallsTo(dec, "reflect.MakeSlice") {
		n = p.Path(ci.Common().Args[1])
	}
	if n == "" {
		c.SoftUndecided("decoder parseSequenceOf: reflect.MakeSlice not found")
		return
	}
	// the element count: phi alternatives
	alts := splitPhi(n)
	raw := "p0.bytes[p0.byteOffset]"
	okRaw, okLB := false, false
	for _, a := range alts {
		if a == raw {
			okRaw = true
		}
		if strings.Contains(a, "parseConstraintValue") && strings.HasSuffix(a, "+phi(0|p2.sizeLowerBound))") || strings.Contains(a, "#0|0)+phi(0|p2.sizeLowerBound))") {
			okLB = true
		}
	}
	c.Check(okRaw, R, "aper.parseSequenceOf(decode):semi-constrained-count", dec.Pos(), "count = the length octet", "on the semi-constrained branch the element count must be the octet read (the encoder writes the count itself there); count expression: %s", clip(n))
	c.Check(okLB, R, "aper.parseSequenceOf(decode):constrained-count", dec.Pos(), "count = value + lowerBound", "on the constrained branch the element count must be the decoded value plus the lower bound; count expression: %s", clip(n))
	r4seqofEnc(c, R)
}

// r4seqofEnc: the encoder mirror of R4.seqof.
func r4seqofEnc(c *core.Ctx, R string) {
	if r4seqofEncX(c, R) {
		return
	}
	enc := mustFunc(c, pAper, "perRawBitData.parseSequenceOf")
	pe := core.NewPather(enc)
	okSub, okRawE := false, false
	for _, ci := range core.CallsTo(enc, pAper+".perRawBitData.appendConstraintValue") {
		if strings.Contains(pe.Path(ci.Common().Args[2]), "(call:reflect.Value.Len(p1)-phi(") {
			okSub = true
		}
	}
	for _, b := range enc.Blocks {
		for _, in := range b.Instrs {
			if st, ok := in.(*ssa.Store); ok && pe.Path(st.Addr) == "p0.bytes" && strings.Contains(pe.Path(st.Val), "[(call:reflect.Value.Len(p1)&255)]") {
				okRawE = true
			}
		}
	}
	c.Check(okSub && okRawE, R, "aper.parseSequenceOf(encode):count", enc.Pos(), "constrained: n-lowerBound; semi-constrained: n", "the encoder must write n-lowerBound in the constrained case and n in the semi-constrained case (constrained ok %v, semi-constrained ok %v)", okSub, okRawE)
}

// splitPhi returns the top-level alternatives of "phi(a|b|c)" or the string itself.
func splitPhi(s string) []string {
	if !strings.HasPrefix(s, "phi(") || !strings.HasSuffix(s, ")") {
		return []string{s}
	}
	in := s[4 : len(s)-1]
	var out []string
	depth, start := 0, 0
	for i := 0; i < len(in); i++ {
		switch in[i] {
		case '(', '[':
			depth++
		case ')', ']':
			depth--
		case '|':
			if depth == 0 {
				out = append(out, in[start:i])
				start = i + 1
			}
		}
	}
	return append(out, in[start:])
}

// ---------------------------------------------------------------- R4.frag
// Fragmented strings (X.691 10.9.3.8): a string of 16K units or more arrives as a
// sequence of fragments, each with its own length determinant. The decoder's
// fragment loop must therefore *extend* what it has collected on every iteration:
// the loop-carried string is only ever replaced by append(itself, fragment...),
// and the bit count by itself + fragment length. An assignment inside the loop that
// does not contain the previous value drops the fragments read so far.
func r4frag(c *core.Ctx) {
	const R = "R4.frag"
	c.Rule(R, "parseOctetString / parseBitString: inside the fragment loop the collected string is only extended (append(acc, …), count += n), never replaced")
	for _, name := range []string{"perBitData.parseOctetString", "perBitData.parseBitString"} {
		fn := mustFunc(c, pAper, name)
		p := core.NewPather(fn)
		calls := core.CallsTo(fn, pAper+".perBitData.parseLength")
		if len(calls) != 1 {
			c.SoftUndecided("%s: expected one parseLength call (the fragment loop), found %d", name, len(calls))
			continue
		}
		lb := calls[0].Block()
		// the loop: blocks that reach the parseLength block again
		inLoop := func(b *ssa.BasicBlock) bool {
			return b == lb && core.Reaches(lb, lb) || (core.Reaches(lb, b) && core.Reaches(b, lb))
		}
		if !core.Reaches(lb, lb) {
			c.Fail(R, "aper."+name+":loop", calls[0].Pos(), "the length determinant is read once only: a fragmented string (16K units or more) is cut after its first fragment")
			continue
		}
		n := 0
		check := func(key string, pos token.Pos, acc string, val ssa.Value) {
			n++
			v := val
			ok := false
			desc := p.Path(v)
			switch x := v.(type) {
			case *ssa.Call:
				if core.CalleeName(&x.Call) == "builtin.append" && p.Path(x.Call.Args[0]) == acc {
					ok = true
				}
			case *ssa.BinOp:
				if x.Op == token.ADD && (p.Path(x.X) == acc || p.Path(x.Y) == acc) {
					ok = true
				}
			}
			c.Check(ok, R, key, pos, "extends "+acc, "inside the fragment loop %s is replaced by %s, which does not contain what was collected from earlier fragments", acc, clip(desc))
		}
		for _, b := range fn.Blocks {
			if !inLoop(b) {
				continue
			}
			for _, in := range b.Instrs {
				switch x := in.(type) {
				case *ssa.Phi:
					// loop-carried accumulator of string type at the loop head
					if _, isSlice := x.Type().Underlying().(*types.Slice); !isSlice {
						continue
					}
					header := false
					for _, pr := range b.Preds {
						if !inLoop(pr) {
							header = true
						}
					}
					if !header {
						continue // an inner merge, reached through the header phi's back edge
					}
					for i, e := range x.Edges {
						pred := b.Preds[i]
						if !inLoop(pred) {
							continue // entry edge
						}
						var alts []ssa.Value
						var flat func(v ssa.Value, d int)
						flat = func(v ssa.Value, d int) {
							if ph, isPhi := v.(*ssa.Phi); isPhi && ph != x && d < 4 {
								for _, e2 := range ph.Edges {
									flat(e2, d+1)
								}
								return
							}
							alts = append(alts, v)
						}
						flat(e, 0)
						for k, a := range alts {
							if a == ssa.Value(x) {
								continue // unchanged on that path
							}
							check(fmt.Sprintf("aper.%s:%s:back-edge#%d.%d", name, p.Path(x), i, k), x.Pos(), p.Path(x), a)
						}
					}
				case *ssa.Store:
					fa, isFA := x.Addr.(*ssa.FieldAddr)
					if !isFA {
						continue
					}
					if _, isLocal := fa.X.(*ssa.Alloc); !isLocal {
						continue
					}
					acc := p.Path(fa)
					switch fa.Type().(*types.Pointer).Elem().Underlying().(type) {
					case *types.Slice, *types.Basic:
						check(fmt.Sprintf("aper.%s:%s", name, acc), x.Pos(), acc, x.Val)
					}
				}
			}
		}
		if n == 0 {
			c.SoftUndecided("%s: no accumulator found in the fragment loop", name)
		}
	}
}

// ---------------------------------------------------------------- R4.entry
// ngap.Decoder / ngap.Encoder hand the bytes / the PDU to the codec and return its
// verdict. A test of the input in front of the codec (a framing or length pre-check)
// can refuse input the codec would decode; whether it refuses conformant encodings is
// not something this analysis can establish for an arbitrary pre-check, so such an
// entry point is reported as undecided, never as passing.
func r4entry(c *core.Ctx) {
	const R = "R4.entry"
	c.Rule(R, "ngap.Decoder and ngap.Encoder pass their argument to the codec unconditionally and return the codec's result")
	for _, t := range []struct{ fn, callee string }{{"Decoder", pAper + ".UnmarshalWithParams"}, {"Encoder", pAper + ".MarshalWithParams"}} {
		fn := mustFunc(c, pNgap, t.fn)
		p := core.NewPather(fn)
		calls := core.CallsTo(fn, t.callee)
		key := "ngap." + t.fn
		if len(calls) != 1 {
			c.Fail(R, key+":codec-call", fn.Pos(), "expected exactly one call of %s, found %d", shortName(t.callee), len(calls))
			continue
		}
		arg := p.Path(calls[0].Common().Args[0])
		okArg := arg == "p0"
		branches := 0
		for _, b := range fn.Blocks {
			if _, isIf := b.Instrs[len(b.Instrs)-1].(*ssa.If); isIf && !calls[0].Block().Dominates(b) {
				branches++
			}
		}
		switch {
		case !okArg:
			c.Fail(R, key+":argument", calls[0].Pos(), "the codec is given %s, not the function's own argument", clip(arg))
		case branches > 0:
			c.SoftUndecided("ngap.%s tests its input before handing it to the codec (%d branch(es) in front of %s): whether the pre-check refuses only malformed input cannot be established statically", t.fn, branches, shortName(t.callee))
		default:
			c.Ok(R, key, fn.Pos(), "argument handed to the codec unconditionally")
		}
	}
}
