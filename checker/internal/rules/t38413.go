package rules

// T-38413-PROC: elementary procedures of TS 38.413 clause 9.4.4 / 9.4.7:
// procedure code, initiating message, successful and unsuccessful outcome
// (message type names as in the ASN.1 module, without hyphens), criticality of
// the initiating message (0 reject, 1 ignore).
type ngapProc struct {
	Code        int64
	Name        string // ProcedureCode<Name> constant
	Initiating  string
	Successful  string
	Unsuccess   string
	Criticality int64
}

var t38413Proc = []ngapProc{
	{0, "AMFConfigurationUpdate", "AMFConfigurationUpdate", "AMFConfigurationUpdateAcknowledge", "AMFConfigurationUpdateFailure", 0},
	{1, "AMFStatusIndication", "AMFStatusIndication", "", "", 1},
	{2, "CellTrafficTrace", "CellTrafficTrace", "", "", 1},
	{3, "DeactivateTrace", "DeactivateTrace", "", "", 1},
	{4, "DownlinkNASTransport", "DownlinkNASTransport", "", "", 1},
	{5, "DownlinkNonUEAssociatedNRPPaTransport", "DownlinkNonUEAssociatedNRPPaTransport", "", "", 1},
	{6, "DownlinkRANConfigurationTransfer", "DownlinkRANConfigurationTransfer", "", "", 1},
	{7, "DownlinkRANStatusTransfer", "DownlinkRANStatusTransfer", "", "", 1},
	{8, "DownlinkUEAssociatedNRPPaTransport", "DownlinkUEAssociatedNRPPaTransport", "", "", 1},
	{9, "ErrorIndication", "ErrorIndication", "", "", 1},
	{10, "HandoverCancel", "HandoverCancel", "HandoverCancelAcknowledge", "", 0},
	{11, "HandoverNotification", "HandoverNotify", "", "", 1},
	{12, "HandoverPreparation", "HandoverRequired", "HandoverCommand", "HandoverPreparationFailure", 0},
	{13, "HandoverResourceAllocation", "HandoverRequest", "HandoverRequestAcknowledge", "HandoverFailure", 0},
	{14, "InitialContextSetup", "InitialContextSetupRequest", "InitialContextSetupResponse", "InitialContextSetupFailure", 0},
	{15, "InitialUEMessage", "InitialUEMessage", "", "", 1},
	{16, "LocationReportingControl", "LocationReportingControl", "", "", 1},
	{17, "LocationReportingFailureIndication", "LocationReportingFailureIndication", "", "", 1},
	{18, "LocationReport", "LocationReport", "", "", 1},
	{19, "NASNonDeliveryIndication", "NASNonDeliveryIndication", "", "", 1},
	{20, "NGReset", "NGReset", "NGResetAcknowledge", "", 0},
	{21, "NGSetup", "NGSetupRequest", "NGSetupResponse", "NGSetupFailure", 0},
	{22, "OverloadStart", "OverloadStart", "", "", 1},
	{23, "OverloadStop", "OverloadStop", "", "", 0},
	{24, "Paging", "Paging", "", "", 1},
	{25, "PathSwitchRequest", "PathSwitchRequest", "PathSwitchRequestAcknowledge", "PathSwitchRequestFailure", 0},
	{26, "PDUSessionResourceModify", "PDUSessionResourceModifyRequest", "PDUSessionResourceModifyResponse", "", 0},
	{27, "PDUSessionResourceModifyIndication", "PDUSessionResourceModifyIndication", "PDUSessionResourceModifyConfirm", "", 0},
	{28, "PDUSessionResourceRelease", "PDUSessionResourceReleaseCommand", "PDUSessionResourceReleaseResponse", "", 0},
	{29, "PDUSessionResourceSetup", "PDUSessionResourceSetupRequest", "PDUSessionResourceSetupResponse", "", 0},
	{30, "PDUSessionResourceNotify", "PDUSessionResourceNotify", "", "", 1},
	{31, "PrivateMessage", "PrivateMessage", "", "", 1},
	{32, "PWSCancel", "PWSCancelRequest", "PWSCancelResponse", "", 0},
	{33, "PWSFailureIndication", "PWSFailureIndication", "", "", 1},
	{34, "PWSRestartIndication", "PWSRestartIndication", "", "", 1},
	{35, "RANConfigurationUpdate", "RANConfigurationUpdate", "RANConfigurationUpdateAcknowledge", "RANConfigurationUpdateFailure", 0},
	{36, "RerouteNASRequest", "RerouteNASRequest", "", "", 0},
	{37, "RRCInactiveTransitionReport", "RRCInactiveTransitionReport", "", "", 1},
	{38, "TraceFailureIndication", "TraceFailureIndication", "", "", 1},
	{39, "TraceStart", "TraceStart", "", "", 1},
	{40, "UEContextModification", "UEContextModificationRequest", "UEContextModificationResponse", "UEContextModificationFailure", 0},
	{41, "UEContextRelease", "UEContextReleaseCommand", "UEContextReleaseComplete", "", 0},
	{42, "UEContextReleaseRequest", "UEContextReleaseRequest", "", "", 1},
	{43, "UERadioCapabilityCheck", "UERadioCapabilityCheckRequest", "UERadioCapabilityCheckResponse", "", 0},
	{44, "UERadioCapabilityInfoIndication", "UERadioCapabilityInfoIndication", "", "", 1},
	{45, "UETNLABindingRelease", "UETNLABindingReleaseRequest", "", "", 1},
	{46, "UplinkNASTransport", "UplinkNASTransport", "", "", 1},
	{47, "UplinkNonUEAssociatedNRPPaTransport", "UplinkNonUEAssociatedNRPPaTransport", "", "", 1},
	{48, "UplinkRANConfigurationTransfer", "UplinkRANConfigurationTransfer", "", "", 1},
	{49, "UplinkRANStatusTransfer", "UplinkRANStatusTransfer", "", "", 1},
	{50, "UplinkUEAssociatedNRPPaTransport", "UplinkUEAssociatedNRPPaTransport", "", "", 1},
	{51, "WriteReplaceWarning", "WriteReplaceWarningRequest", "WriteReplaceWarningResponse", "", 0},
}

// T-38413-TYPES: ASN.1 constraints of the leaf types on the emulator's path
// (TS 38.413 clause 9.4.5), as the aper tag of the type's Value field must state them.
// kind: "int" (valueLB/valueUB[/ext]), "octets"/"bits"/"string" (sizeLB/sizeUB[/ext], -1 = unconstrained),
// "enum" (0..ub[/ext]).
type ngapLeaf struct {
	Type   string
	Kind   string
	LB, UB int64
	Ext    bool
}

var t38413Types = []ngapLeaf{
	{"AMFUENGAPID", "int", 0, 1099511627775, false},
	{"RANUENGAPID", "int", 0, 4294967295, false},
	{"PDUSessionID", "int", 0, 255, false},
	{"ProcedureCode", "int", 0, 255, false},
	{"ProtocolIEID", "int", 0, 65535, false},
	{"RelativeAMFCapacity", "int", 0, 255, false},
	{"BitRate", "int", 0, 4000000000000, true},
	{"QosFlowIdentifier", "int", 0, 63, true},
	{"FiveQI", "int", 0, 255, true},
	{"PriorityLevelARP", "int", 1, 15, false},
	{"PLMNIdentity", "octets", 3, 3, false},
	{"TAC", "octets", 3, 3, false},
	{"SST", "octets", 1, 1, false},
	{"SD", "octets", 3, 3, false},
	{"GTPTEID", "octets", 4, 4, false},
	{"FiveGTMSI", "octets", 4, 4, false},
	{"NASPDU", "octets", -1, -1, false},
	{"SecurityKey", "bits", 256, 256, false},
	{"AMFSetID", "bits", 10, 10, false},
	{"AMFPointer", "bits", 6, 6, false},
	{"AMFRegionID", "bits", 8, 8, false},
	{"NRCellIdentity", "bits", 36, 36, false},
	{"EUTRACellIdentity", "bits", 28, 28, false},
	{"TransportLayerAddress", "bits", 1, 160, true},
	{"RANNodeName", "string", 1, 150, true},
	{"AMFName", "string", 1, 150, true},
	{"Criticality", "enum", 0, 2, false},
	{"PagingDRX", "enum", 0, 3, true},
	{"RRCEstablishmentCause", "enum", 0, 9, true},
	{"UEContextRequest", "enum", 0, 0, true},
	{"PDUSessionType", "enum", 0, 4, true},
	{"TriggeringMessage", "enum", 0, 2, false},
	{"TypeOfError", "enum", 0, 1, true},
}
