package rules

import (
	"go/types"
	"fmt"
	"go/constant"
	"go/token"
	"sort"
	"strings"

	"golang.org/x/tools/go/ssa"

	"stgverif/internal/core"
)

func init() { Registry["C11"] = c11 }

func c11(c *core.Ctx) map[string]interface{} {
	c.Explanation = "Static digit-placement check of the SUCI / PLMN encodings (C11). Decided: (R11.hex) hexCharToByte maps '0'..'9' to 0..9 and never yields more than a nibble; (R11.hexconst) every constant that can reach hexCharToByte (traced backwards through slices, appends, merges and package-local helper parameters) is a hexadecimal digit character, so no filler or literal digit is silently turned into 0; (R11.nib) in EncodeSuci, for both MNC lengths, the nibble provenance of octets 1..3 is (MCC2|MCC1),(MNC3 or F|MCC3),(MNC2|MNC1) (TS 24.501 9.11.3.4 / TS 38.413 PLMNIdentity), the MSIN starts after 5 resp. 6 digits, the MSIN loop packs digit pairs (i+1|i) from i=0 in steps of 2 with filler F for a final odd digit, and the decision between the two layouts is mncLen > 2; (R11.hdr) octet 0 is SUPI format IMSI<<4 | type SUCI, routing indicator F0 FF, protection scheme 0, key id 0, Len is the final buffer length; (R11.sib) the library's own PlmnIDToNas places the digits identically (sibling agreement), with filler F exactly when the MNC has not 3 digits; (R11.plmn) ManageNGSetup announces octets 1..3 of EncodeSuci(IMSI, len(mnc)), BuildNGSetupRequest stores that value in TestPlmn and in the PLMN fields of the request, and every builder behind a wrapper that main uses takes its PLMN identities from TestPlmn. (R13.pure) message construction keeps no package-level state besides TestPlmn, so a user-location IE built later cannot repeat an older PLMN from a cached IE. NOT decided: digit values for non-decimal characters; PLMNs of builders the emulator never calls (listed under C13)."
	c.Assumptions = []string{"IMSI digits arrive as ASCII decimal characters, MCC has 3 digits (TS 23.003)"}
	r11hex(c)
	r11hexconst(c)
	r11suciX(c)
	r11sibX(c)
	r11plmn(c)
	r13pure(c)
	// the identity the messages carry is the SUCI of the SUPI CreateUE builds: its digits must be the
	// configured IMSI's (same digit count), or MCC/MNC/MSIN shift
	r16dep(c)
	return nil
}

func r11hex(c *core.Ctx) {
	const R = "R11.hex"
	c.Rule(R, "hexCharToByte: '0'..'9' → c-'0'; every result fits a nibble")
	fn := mustFunc(c, pStg, "hexCharToByte")
	if r11hexTable(c, R, fn) {
		return
	}
	p := core.NewPather(fn)
	ia := core.NewIntervalAnalyzer(fn)
	digitOK := false
	n := 0
	for _, b := range fn.Blocks {
		for _, in := range b.Instrs {
			r, ok := in.(*ssa.Return)
			if !ok || len(r.Results) != 1 {
				continue
			}
			n++
			iv := ia.At(r.Results[0], b)
			s := p.Path(r.Results[0])
			key := fmt.Sprintf("stgutg.hexCharToByte:return#%d", n)
			if !iv.Known || iv.Lo < 0 || iv.Hi > 15 {
				c.Fail(R, key, r.Pos(), "a result (%s) is not provably within 0..15 (interval [%d,%d] known=%v): it would spill into the neighbouring nibble", s, iv.Lo, iv.Hi, iv.Known)
			} else {
				c.Ok(R, key, r.Pos(), fmt.Sprintf("%s in [%d,%d]", s, iv.Lo, iv.Hi))
			}
			if s == "(p0-48)" {
				pi := ia.At(fn.Params[0], b)
				if pi.Known && pi.Lo == 48 && pi.Hi == 57 {
					digitOK = true
				}
			}
		}
	}
	c.Check(digitOK, R, "stgutg.hexCharToByte:decimal-digits", fn.Pos(), "'0'..'9' → c-'0'", "decimal digit characters must map to their value (c - '0' exactly for '0' <= c <= '9')")
}

// r11hexTable: hexCharToByte as a lookup in a 256-entry package-level table. The table's contents
// are obtained by folding the package initialiser (a composite literal, or a builder function with
// constant loops - no input is involved), and its rows are compared with the specification.
func r11hexTable(c *core.Ctx, R string, fn *ssa.Function) bool {
	// the function returns tab[c] for a package-level array/slice tab and its own parameter c
	var g *ssa.Global
	for _, b := range fn.Blocks {
		r, ok := b.Instrs[len(b.Instrs)-1].(*ssa.Return)
		if !ok {
			continue
		}
		if len(r.Results) != 1 {
			return false
		}
		v := r.Results[0]
		if ld, isLd := v.(*ssa.UnOp); isLd && ld.Op == token.MUL {
			v = ld.X
		}
		var base, idx ssa.Value
		switch x := v.(type) {
		case *ssa.IndexAddr:
			base, idx = x.X, x.Index
		case *ssa.Index:
			base, idx = x.X, x.Index
		default:
			return false
		}
		if cv, isC := idx.(*ssa.Convert); isC {
			idx = cv.X
		}
		if idx != ssa.Value(fn.Params[0]) {
			return false
		}
		if ld, isLd := base.(*ssa.UnOp); isLd && ld.Op == token.MUL {
			base = ld.X
		}
		gg, isG := base.(*ssa.Global)
		if !isG || (g != nil && g != gg) {
			return false
		}
		g = gg
	}
	if g == nil || len(fn.Blocks) != 1 {
		return false
	}
	initFn := g.Pkg.Func("init")
	if initFn == nil {
		return false
	}
	ex := core.NewExec()
	ex.MaxStates = 64
	ex.Enter = func(f *ssa.Function) bool { return f.Pkg == g.Pkg }
	ex.OnCall = func(ev *core.AEvent, m *core.AMem) (core.AVal, bool) {
		if ev.Fn != nil && ev.Fn.Pkg == g.Pkg {
			return core.AVal{}, false
		}
		return core.OpaqueRet(ev), true // initialisers of other packages' values: irrelevant here
	}
	mem := core.NewMem()
	mem.Store("global:"+g.Pkg.Pkg.Path()+".init$guard", core.AVal{K: core.AInt, Bits: core.ConstBits(0, 1)}, types.Typ[types.Bool])
	outs, err := ex.Run(initFn, nil, mem)
	if err != nil || len(outs) != 1 {
		c.SoftUndecided("%s: the initialiser of %s could not be folded (%v, %d outcomes)", R, g.Name(), err, len(outs))
		return true
	}
	base := "global:" + g.Pkg.Pkg.Path() + "." + g.Name()
	// a package-level array starts zeroed; the initialiser stores only the rows its literal names.
	// Nothing outside init may write the table (else its contents are not a property of the source).
	for _, f := range allFuncsOf(g.Pkg) {
		if f == initFn {
			continue
		}
		for _, b := range f.Blocks {
			for _, in := range b.Instrs {
				if st, isSt := in.(*ssa.Store); isSt {
					a := st.Addr
					if ia, isIA := a.(*ssa.IndexAddr); isIA {
						a = ia.X
					}
					if a == ssa.Value(g) {
						c.SoftUndecided("%s: %s is written outside the package initialiser (%s)", R, g.Name(), f.Name())
						return true
					}
				}
			}
		}
	}
	written := map[string]bool{}
	for _, k := range outs[0].Mem.Cells(base + "[") {
		written[k] = true
	}
	row := func(i int) (uint64, bool) {
		cell := fmt.Sprintf("%s[%d]", base, i)
		if !written[cell] && len(written) > 0 {
			return 0, true
		}
		v := outs[0].Mem.Load(cell, types.Typ[types.Uint8])
		return v.ConstVal()
	}
	okDigits, okNibble, okHex := true, true, true
	bad := ""
	for i := 0; i < 256; i++ {
		v, isK := row(i)
		if !isK {
			c.SoftUndecided("%s: row %d of %s is not a constant after folding the initialiser", R, i, g.Name())
			return true
		}
		if v > 15 {
			okNibble, bad = false, fmt.Sprintf("%s[%d] = %d", g.Name(), i, v)
		}
		switch {
		case i >= '0' && i <= '9':
			if v != uint64(i-'0') {
				okDigits, bad = false, fmt.Sprintf("%s[%q] = %d", g.Name(), rune(i), v)
			}
		case i >= 'a' && i <= 'f':
			if v != uint64(i-'a'+10) {
				okHex, bad = false, fmt.Sprintf("%s[%q] = %d", g.Name(), rune(i), v)
			}
		case i >= 'A' && i <= 'F':
			if v != uint64(i-'A'+10) {
				okHex, bad = false, fmt.Sprintf("%s[%q] = %d", g.Name(), rune(i), v)
			}
		}
	}
	c.Analysed(core.FuncName(fn))
	c.Check(okNibble, R, "stgutg.hexCharToByte:return#1", fn.Pos(), "every row of the table is within 0..15", "a result (%s) is not within 0..15: it would spill into the neighbouring nibble", bad)
	c.Check(okDigits, R, "stgutg.hexCharToByte:decimal-digits", fn.Pos(), "'0'..'9' → c-'0' (table rows)", "decimal digit characters must map to their value (c - '0' exactly for '0' <= c <= '9'): %s", bad)
	c.Check(okHex, R, "stgutg.hexCharToByte:hex-letters", fn.Pos(), "'a'..'f' / 'A'..'F' → 10..15 (table rows)", "hex letters must map to 10..15: %s", bad)
	return true
}

func isHexCall(src string) (int, bool) {
	if strings.HasPrefix(src, "call:"+pStg+".hexCharToByte(") {
		return 4, true
	}
	return 0, false
}

func hexOf(s string) string { return "call:" + pStg + ".hexCharToByte(" + s + ")" }

func r11suci(c *core.Ctx) {
	const R, RH = "R11.nib", "R11.hdr"
	c.Rule(R, "EncodeSuci: nibble provenance of PLMN octets (both MNC lengths) and of the MSIN loop equals TS 24.501 9.11.3.4")
	c.Rule(RH, "EncodeSuci: header octets (SUPI format/type, routing indicator F0FF, scheme 0, key id 0) and Len = len(Buffer)")
	fn := mustFunc(c, pStg, "EncodeSuci")
	p := core.NewPather(fn)
	ba := core.NewBitAnalyzer(fn)
	ba.AssumeFn = isHexCall
	// header literal
	var bufPrefix string
	for _, b := range fn.Blocks {
		for _, in := range b.Instrs {
			st, ok := in.(*ssa.Store)
			if !ok {
				continue
			}
			ap := p.Path(st.Addr)
			if strings.HasSuffix(ap, ".Buffer") && strings.HasPrefix(p.Path(st.Val), "[") && bufPrefix == "" {
				bufPrefix = ap
				lit := p.Path(st.Val)
				fmtSupi := mustConst(c, pNasM, "SupiFormatImsi")
				typ := mustConst(c, pNasM, "MobileIdentity5GSTypeSuci")
				c.Check(fmtSupi == 0 && typ == 1, RH, "nasMessage.SupiFormatImsi/TypeSuci", token.NoPos, "0 / 1", "SUPI format IMSI must be 0 and identity type SUCI 1 (TS 24.501 9.11.3.4), are %d / %d", fmtSupi, typ)
				want := fmt.Sprintf("[%d,0,0,0,240,255,0,0]", fmtSupi<<4|typ)
				c.Check(lit == want, RH, "stgutg.EncodeSuci:header", st.Pos(), lit, "the SUCI header must be %s (format|type, 3 PLMN octets, routing indicator F0 FF, scheme 0, key id 0), is %s", want, lit)
			}
		}
	}
	if bufPrefix == "" {
		c.Undecided("EncodeSuci: the initial Buffer literal was not found")
	}
	// locate the mncLen branch
	var t3, t2, mncIf *ssa.BasicBlock // 3-digit and 2-digit sides
	for _, b := range fn.Blocks {
		iff, ok := b.Instrs[len(b.Instrs)-1].(*ssa.If)
		if !ok {
			continue
		}
		switch p.Path(iff.Cond) {
		case "(p1>2)", "(p1>=3)", "(p1==3)":
			t3, t2, mncIf = b.Succs[0], b.Succs[1], b
		case "(p1<=2)", "(p1<3)", "(p1==2)", "(p1!=3)":
			t3, t2, mncIf = b.Succs[1], b.Succs[0], b
		}
	}
	if t3 == nil {
		c.Fail(R, "stgutg.EncodeSuci:mnc-length-branch", fn.Pos(), "no branch on the MNC length (mncLen > 2) selects between the 2- and 3-digit layouts")
		return
	}
	c.Ok(R, "stgutg.EncodeSuci:mnc-length-branch", t3.Instrs[0].Pos(), "3-digit layout iff mncLen > 2")
	type octet struct{ hi, lo string } // "" hi with filler
	wantCommon := map[int]octet{1: {"p0[1]", "p0[0]"}}
	want3 := map[int]octet{2: {"p0[5]", "p0[2]"}, 3: {"p0[4]", "p0[3]"}}
	want2 := map[int]octet{2: {"F", "p0[2]"}, 3: {"p0[4]", "p0[3]"}}
	check := func(b core.BitVec, w octet) bool {
		if b == nil || len(b) != 8 || !b.IsCopy(3, 0, hexOf(w.lo), 0) {
			return false
		}
		if w.hi == "F" {
			return b.IsConst(7, 4, 15)
		}
		return b.IsCopy(7, 4, hexOf(w.hi), 0)
	}
	found := map[string]bool{}
	for _, b := range fn.Blocks {
		for _, in := range b.Instrs {
			st, ok := in.(*ssa.Store)
			if !ok {
				continue
			}
			ap := p.Path(st.Addr)
			var k int
			if n, _ := fmt.Sscanf(ap, bufPrefix+"[%d]", &k); n != 1 || k < 1 || k > 3 {
				continue
			}
			bits := ba.Bits(st.Val)
			side := "common"
			var w octet
			var okW bool
			switch {
			case t3.Dominates(b) && len(t3.Preds) == 1:
				side = "mnc3"
				w, okW = want3[k]
			case t2.Dominates(b) && len(t2.Preds) == 1:
				side = "mnc2"
				w, okW = want2[k]
			default:
				w, okW = wantCommon[k]
			}
			key := fmt.Sprintf("stgutg.EncodeSuci:%s:octet%d", side, k)
			found[fmt.Sprintf("%s:%d", side, k)] = true
			if !okW {
				c.Fail(R, key, st.Pos(), "unexpected store to PLMN octet %d on the %s path", k, side)
				continue
			}
			c.Check(check(bits, w), R, key, st.Pos(), fmt.Sprintf("hi=%s lo=%s", w.hi, w.lo), "octet %d (%s) must be digit %s in bits 7..4 and digit %s in bits 3..0; is %s", k, side, w.hi, w.lo, bits.Describe())
		}
	}
	// loop form: Buffer[a*i+b] = hex(S[..])<<4 | hex(S[..]) inside a counted loop with
	// constant bounds, where S may be a merge of per-MNC-length digit sequences. The
	// loop is unrolled and the merge resolved per MNC length (Pather.Bind); every
	// (length, iteration) pair is one octet obligation, exactly as for the
	// constant-index form.
	sideOfPred := func(ph *ssa.Phi, i int) string {
		pred := ph.Block().Preds[i]
		switch {
		case pred == mncIf && ph.Block() == t3:
			return "mnc3"
		case pred == mncIf && ph.Block() == t2:
			return "mnc2"
		case len(t3.Preds) == 1 && t3.Dominates(pred):
			return "mnc3"
		case len(t2.Preds) == 1 && t2.Dominates(pred):
			return "mnc2"
		}
		return ""
	}
	for _, l := range loopBounds(fn) {
		if !l.initOK || !l.limitOK || l.step <= 0 || (l.op != token.LSS && l.op != token.LEQ) {
			continue
		}
		hi := l.limit
		if l.op == token.LEQ {
			hi++
		}
		if (hi-l.init)/l.step > 16 || hi <= l.init {
			continue
		}
		for _, b := range fn.Blocks {
			if b == l.header || !l.header.Dominates(b) || !core.Reaches(b, l.header) {
				continue
			}
			for _, in := range b.Instrs {
				st, ok := in.(*ssa.Store)
				if !ok {
					continue
				}
				ia, isIA := st.Addr.(*ssa.IndexAddr)
				if !isIA || p.Path(ia.X) != bufPrefix {
					continue
				}
				if _, isConst := core.ConstInt(ia.Index); isConst {
					continue
				}
				for _, side := range []string{"mnc3", "mnc2"} {
					for iv := l.init; iv < hi; iv += l.step {
						bind := map[ssa.Value]ssa.Value{l.phi: ssa.NewConst(constant.MakeInt64(iv), l.phi.Type())}
						for _, pb := range fn.Blocks {
							for _, pin := range pb.Instrs {
								ph, isPhi := pin.(*ssa.Phi)
								if !isPhi {
									break
								}
								for i := range ph.Edges {
									if sideOfPred(ph, i) == side {
										bind[ph] = ph.Edges[i]
									}
								}
							}
						}
						ba2 := core.NewBitAnalyzer(fn)
						ba2.AssumeFn = isHexCall
						ba2.P.Bind = bind
						var k int
						if n, _ := fmt.Sscanf(ba2.P.Path(st.Addr), bufPrefix+"[%d]", &k); n != 1 {
							c.SoftUndecided("EncodeSuci: index of a Buffer store inside a counted loop does not fold to a constant (%s)", ba2.P.Path(st.Addr))
							continue
						}
						if k < 1 || k > 3 {
							continue
						}
						w, okW := map[string]map[int]octet{"mnc3": want3, "mnc2": want2}[side][k]
						if k == 1 {
							w, okW = wantCommon[1], true
						}
						key := fmt.Sprintf("stgutg.EncodeSuci:%s:octet%d", side, k)
						if found[fmt.Sprintf("%s:%d", side, k)] {
							c.Fail(R, key, st.Pos(), "PLMN octet %d is written more than once for a %s-digit MNC", k, side[3:])
							continue
						}
						found[fmt.Sprintf("%s:%d", side, k)] = true
						if !okW {
							c.Fail(R, key, st.Pos(), "unexpected store to PLMN octet %d on the %s path", k, side)
							continue
						}
						bits := ba2.Bits(st.Val)
						c.Check(check(bits, w), R, key, st.Pos(), fmt.Sprintf("hi=%s lo=%s", w.hi, w.lo), "octet %d (%s, loop iteration %d) must be digit %s in bits 7..4 and digit %s in bits 3..0; is %s", k, side, iv, w.hi, w.lo, bits.Describe())
					}
				}
			}
		}
	}
	for _, need := range []string{"common:1", "mnc3:2", "mnc3:3", "mnc2:2", "mnc2:3"} {
		if !found[need] {
			// octet 1 may also be written on both sides
			if need == "common:1" && found["mnc3:1"] && found["mnc2:1"] {
				continue
			}
			c.SoftUndecided("EncodeSuci: no constant-index store for PLMN octet %s in the recognised form (Buffer[k] = hex(d)<<4 | hex(d'))", need)
		}
	}
	// MSIN start
	var msin *ssa.Phi
	for _, b := range fn.Blocks {
		for _, in := range b.Instrs {
			if ph, ok := in.(*ssa.Phi); ok && strings.HasPrefix(p.Path(ph), "phi(p0[") {
				msin = ph
			}
		}
	}
	r11len(c, fn, p, bufPrefix)
	if msin == nil {
		// both branches using the same start collapses the merge: find the slice through the loop limit
		for _, l := range loopBounds(fn) {
			if l.step == 2 && strings.HasPrefix(l.limitPath, "call:builtin.len(p0[") {
				c.Fail(R, "stgutg.EncodeSuci:msin-start", l.phi.Pos(), "the MSIN is %s for both MNC lengths: it must start at digit 5 for a 2-digit and at digit 6 for a 3-digit MNC", strings.TrimSuffix(strings.TrimPrefix(l.limitPath, "call:builtin.len("), ")"))
				return
			}
		}
		c.SoftUndecided("EncodeSuci: MSIN slice (imsi[5:] / imsi[6:]) not found as a merge of the two branches")
		return
	}
	okM := true
	for i, e := range msin.Edges {
		pred := msin.Block().Preds[i]
		w := ""
		switch {
		case pred == mncIf && msin.Block() == t3:
			w = "p0[6:]" // fall-through edge of the 3-digit side
		case pred == mncIf && msin.Block() == t2:
			w = "p0[5:]"
		case len(t3.Preds) == 1 && t3.Dominates(pred):
			w = "p0[6:]"
		case len(t2.Preds) == 1 && t2.Dominates(pred):
			w = "p0[5:]"
		}
		if w == "" {
			c.SoftUndecided("EncodeSuci: cannot attribute the MSIN alternative %s to an MNC length", p.Path(e))
			continue
		}
		if p.Path(e) != w {
			okM = false
		}
	}
	c.Check(okM, R, "stgutg.EncodeSuci:msin-start", msin.Pos(), "MSIN = imsi[5:] (2-digit MNC) / imsi[6:] (3-digit MNC)", "the MSIN must start after MCC+MNC: imsi[5:] for a 2-digit and imsi[6:] for a 3-digit MNC; is %s", p.Path(msin))
	// MSIN loop
	ms := p.Path(msin)
	var loop *loopInfo
	for _, l := range loopBounds(fn) {
		l := l
		if l.limitPath == "call:builtin.len("+ms+")" {
			loop = &l
		}
	}
	if loop == nil {
		c.SoftUndecided("EncodeSuci: MSIN loop `for i := 0; i < len(msin); i += 2` not found")
		return
	}
	c.Check(loop.initOK && loop.init == 0 && loop.step == 2 && loop.op == token.LSS, R, "stgutg.EncodeSuci:msin-loop", loop.phi.Pos(), "i from 0 step 2 while i < len(msin)", "the MSIN loop must visit digit pairs: i from 0 in steps of 2 while i < len(msin)")
	iv := p.Path(loop.phi)
	last := bufPrefix + "[(call:builtin.len(" + bufPrefix + ")-1)]"
	nOdd, nEven := 0, 0
	for _, b := range fn.Blocks {
		for _, in := range b.Instrs {
			st, ok := in.(*ssa.Store)
			if !ok || p.Path(st.Addr) != last {
				continue
			}
			bits := ba.Bits(st.Val)
			// which side of the "last digit" test?
			odd := false
			for x := b; x != nil; x = x.Idom() {
				id := x.Idom()
				if id == nil {
					break
				}
				if iff, isIf := id.Instrs[len(id.Instrs)-1].(*ssa.If); isIf && len(x.Preds) == 1 {
					cs := p.Path(iff.Cond)
					if cs == "(("+iv+"+1)==call:builtin.len("+ms+"))" {
						odd = id.Succs[0] == x
					}
				}
			}
			if odd {
				nOdd++
				ok := bits != nil && bits.IsConst(7, 4, 15) && bits.IsCopy(3, 0, hexOf(ms+"["+iv+"]"), 0)
				c.Check(ok, R, "stgutg.EncodeSuci:msin-last-odd-digit", st.Pos(), "F | digit i", "a final unpaired MSIN digit must be packed as 0xF0 | digit; is %s", bits.Describe())
			} else {
				nEven++
				ok := bits != nil && bits.IsCopy(7, 4, hexOf(ms+"[("+iv+"+1)]"), 0) && bits.IsCopy(3, 0, hexOf(ms+"["+iv+"]"), 0)
				c.Check(ok, R, "stgutg.EncodeSuci:msin-digit-pair", st.Pos(), "digit i+1 | digit i", "MSIN digit pairs must be packed as digit(i+1)<<4 | digit(i); is %s", bits.Describe())
			}
		}
	}
	if nOdd != 1 || nEven != 1 {
		c.SoftUndecided("EncodeSuci: MSIN packing stores not in the recognised form (found %d odd-tail and %d pair stores to the last buffer octet)", nOdd, nEven)
	}
}

// r11len: Len is the final length of Buffer: the one store to .Len has the value
// len(Buffer) and no append to Buffer can follow it.
func r11len(c *core.Ctx, fn *ssa.Function, p *core.Pather, bufPrefix string) {
	const RH = "R11.hdr"
	var stores []*ssa.Store
	for _, b := range fn.Blocks {
		for _, in := range b.Instrs {
			if st, ok := in.(*ssa.Store); ok && strings.HasSuffix(p.Path(st.Addr), ".Len") {
				stores = append(stores, st)
			}
		}
	}
	if len(stores) != 1 {
		c.Fail(RH, "stgutg.EncodeSuci:len", fn.Pos(), "expected exactly one assignment of the identity's Len, found %d", len(stores))
		return
	}
	st := stores[0]
	val := p.Path(st.Val)
	later := false
	forwardWalk(st, func(in ssa.Instruction) bool {
		if s2, ok := in.(*ssa.Store); ok && p.Path(s2.Addr) == bufPrefix {
			later = true
		}
		return true
	})
	c.Check(val == "call:builtin.len("+bufPrefix+")" && !later, RH, "stgutg.EncodeSuci:len", st.Pos(), "Len = len(Buffer) after the last append",
		"the identity's Len must be len(Buffer) taken after all MSIN octets were appended; it is %s%s", val, map[bool]string{true: " and Buffer still grows afterwards", false: ""}[later])
}

// digitLeaf unwraps conversions and "value or default" phis.
func digitLeaf(p *core.Pather, v ssa.Value) (src string, consts []int64) {
	v = stripConv(v)
	if ph, ok := v.(*ssa.Phi); ok {
		for _, e := range ph.Edges {
			if k, isK := core.ConstInt(e); isK {
				consts = append(consts, k)
				continue
			}
			s, cs := digitLeaf(p, e)
			consts = append(consts, cs...)
			if src == "" || src == s {
				src = s
			} else {
				src = src + "|" + s
			}
		}
		return
	}
	return p.Path(v), nil
}

func r11sib(c *core.Ctx) {
	const R = "R11.sib"
	c.Rule(R, "nasConvert.PlmnIDToNas places MCC/MNC digits like TS 24.501 (and hence like EncodeSuci): (MCC2|MCC1),(MNC3 or F|MCC3),(MNC2|MNC1)")
	fn := mustFunc(c, pNasC, "PlmnIDToNas")
	p := core.NewPather(fn)
	// the returned literal(s): one literal, or a merge of one literal per branch
	type lit struct {
		elems []ssa.Value
		side  string // "", "mnc3", "mnc2"
	}
	var lits []lit
	litOf := func(v ssa.Value) []ssa.Value {
		if sl, isSl := v.(*ssa.Slice); isSl {
			if a, isA := sl.X.(*ssa.Alloc); isA {
				e, _ := core.ArrayLitElems(a)
				return e
			}
		}
		return nil
	}
	sideOf := func(b *ssa.BasicBlock) string {
		for x := b; x != nil; x = x.Idom() {
			id := x.Idom()
			if id == nil {
				break
			}
			if iff, ok := id.Instrs[len(id.Instrs)-1].(*ssa.If); ok && len(x.Preds) == 1 {
				switch p.Path(iff.Cond) {
				case "(call:builtin.len(p0.Mnc)==3)":
					if id.Succs[0] == x {
						return "mnc3"
					}
					return "mnc2"
				case "(call:builtin.len(p0.Mnc)!=3)", "(call:builtin.len(p0.Mnc)==2)":
					if id.Succs[0] == x {
						return "mnc2"
					}
					return "mnc3"
				}
			}
		}
		return ""
	}
	for _, b := range fn.Blocks {
		for _, in := range b.Instrs {
			r, ok := in.(*ssa.Return)
			if !ok || len(r.Results) != 1 {
				continue
			}
			if e := litOf(r.Results[0]); e != nil {
				lits = append(lits, lit{e, ""})
			} else if ph, isPhi := r.Results[0].(*ssa.Phi); isPhi {
				for i, e := range ph.Edges {
					if el := litOf(e); el != nil {
						lits = append(lits, lit{el, sideOf(ph.Block().Preds[i])})
					}
				}
			}
		}
	}
	if len(lits) == 0 {
		c.SoftUndecided("PlmnIDToNas: the returned 3-octet literal was not found")
		return
	}
	atoi := func(f string, i int) string { return fmt.Sprintf("call:strconv.Atoi(p0.%s[%d])#0", f, i) }
	for _, l := range lits {
		if len(l.elems) != 3 {
			c.Fail(R, "nasConvert.PlmnIDToNas:"+l.side+":length", fn.Pos(), "the PLMN encoding must have 3 octets, a literal has %d", len(l.elems))
			continue
		}
		want := [3][2]string{{atoi("Mcc", 1), atoi("Mcc", 0)}, {atoi("Mnc", 2), atoi("Mcc", 2)}, {atoi("Mnc", 1), atoi("Mnc", 0)}}
		if l.side == "mnc2" {
			want[1][0] = "F"
		}
		for i, e := range l.elems {
			key := fmt.Sprintf("nasConvert.PlmnIDToNas:%soctet%d", map[bool]string{true: l.side + ":", false: ""}[l.side != ""], i)
			or, ok := stripConv(e).(*ssa.BinOp)
			if !ok || or.Op != token.OR {
				c.SoftUndecided("PlmnIDToNas: octet %d is not of the form (hi<<4)|lo", i)
				continue
			}
			hiV, loV := or.X, or.Y
			hiConst, hiIsConst := core.ConstInt(hiV)
			shl, isShl := stripConv(hiV).(*ssa.BinOp)
			if !hiIsConst && (!isShl || shl.Op != token.SHL) {
				hiV, loV = or.Y, or.X
				hiConst, hiIsConst = core.ConstInt(hiV)
				shl, isShl = stripConv(hiV).(*ssa.BinOp)
			}
			var hs string
			var hc []int64
			n := int64(4)
			if hiIsConst {
				if hiConst == 0xf0 {
					hs = "F"
				} else {
					hs = fmt.Sprintf("const %#x", hiConst)
				}
			} else if isShl && shl.Op == token.SHL {
				n, _ = core.ConstInt(shl.Y)
				hs, hc = digitLeaf(p, shl.X)
			} else {
				c.SoftUndecided("PlmnIDToNas: octet %d is not of the form (hi<<4)|lo", i)
				continue
			}
			ls, _ := digitLeaf(p, loV)
			okO := n == 4 && hs == want[i][0] && ls == want[i][1]
			if i == 1 && l.side == "" {
				hasF := false
				for _, k := range hc {
					if k == 15 {
						hasF = true
					}
				}
				okO = okO && hasF
			}
			c.Check(okO, R, key, e.Pos(), fmt.Sprintf("hi=%s lo=%s", shortDigit(want[i][0]), shortDigit(want[i][1])), "octet %d must be %s<<4 | %s; is %s<<%d | %s", i, shortDigit(want[i][0]), shortDigit(want[i][1]), shortDigit(hs), n, shortDigit(ls))
		}
	}
	// third digit only read when len(Mnc) == 3
	okLen := false
	for _, b := range fn.Blocks {
		if iff, ok := b.Instrs[len(b.Instrs)-1].(*ssa.If); ok && p.Path(iff.Cond) == "(call:builtin.len(p0.Mnc)==3)" {
			for _, ci := range core.CallsTo(fn, "strconv.Atoi") {
				if p.Path(ci.Common().Args[0]) == "p0.Mnc[2]" && b.Succs[0].Dominates(ci.Block()) {
					okLen = true
				}
			}
		}
	}
	c.Check(okLen, R, "nasConvert.PlmnIDToNas:mnc3-guard", fn.Pos(), "MNC digit 3 used iff len(Mnc) == 3", "the third MNC digit must be used exactly when the MNC has three digits (filler F otherwise)")
}

func shortDigit(s string) string {
	s = strings.TrimPrefix(s, "call:strconv.Atoi(p0.")
	return strings.TrimSuffix(s, ")#0")
}

func r11plmn(c *core.Ctx) {
	if !c.Once("r11plmn") {
		return
	}
	const R = "R11.plmn"
	c.Rule(R, "announced PLMN = octets 1..3 of EncodeSuci(IMSI, len(mnc)); stored in TestPlmn and the NG Setup PLMN fields; emulator-path builders read TestPlmn")
	fn := mustFunc(c, pStg, "ManageNGSetup")
	if x := driverModelX(c, fn); xUsable(c, x) {
		r11plmnNGX(c, R, x)
	} else {
		p := core.NewPather(fn)
		gs := core.CallsTo(fn, pTglib+".GetNGSetupRequest")
		if len(gs) != 1 {
			c.Fail(R, "stgutg.ManageNGSetup:GetNGSetupRequest", fn.Pos(), "expected one GetNGSetupRequest call")
			return
		}
		plmn := p.Path(gs[0].Common().Args[1])
		pre := "call:" + pStg + ".EncodeSuci("
		ok := strings.HasPrefix(plmn, pre) && strings.HasSuffix(plmn, ",call:builtin.len(p3)).Buffer[1:4]") && strings.Contains(plmn, "p2")
		c.Check(ok, R, "stgutg.ManageNGSetup:plmn-from-suci", gs[0].Pos(), "EncodeSuci(imsi, len(mnc)).Buffer[1:4]", "the announced PLMN must be octets 1..3 of EncodeSuci(IMSI, len(mnc)); is %s", clip(plmn))
	}
	// RegisterUE / DeregisterUE use the same encoder with len(mnc)
	for _, name := range []string{"RegisterUE", "DeregisterUE"} {
		f := mustFunc(c, pStg, name)
		if x := driverModelX(c, f); xUsable(c, x) {
			r11plmnUEX(c, R, x, name)
			continue
		}
		fp := core.NewPather(f)
		es := core.CallsTo(f, pStg+".EncodeSuci")
		okE := len(es) == 1
		if okE {
			a := es[0].Common().Args
			okE = strings.Contains(fp.Path(a[0]), "p0.Supi") && fp.Path(a[1]) == "call:builtin.len(p1)"
		}
		c.Check(okE, R, "stgutg."+name+":suci-of-own-supi", f.Pos(), "EncodeSuci(digits of ue.Supi, len(mnc))", "%s must build the SUCI from the UE's own SUPI digits and the configured MNC length", name)
	}
	// BuildNGSetupRequest: TestPlmn.Value = param; PLMN fields = TestPlmn.Value
	b := mustFunc(c, pBuild, "BuildNGSetupRequest")
	bp := core.NewPather(b)
	tp := "global:" + pBuild + ".TestPlmn.Value"
	setOK := false
	nPlmn, nFromTest := 0, 0
	for _, blk := range b.Blocks {
		for _, in := range blk.Instrs {
			st, isSt := in.(*ssa.Store)
			if !isSt {
				continue
			}
			ap := bp.Path(st.Addr)
			if ap == tp && bp.Path(st.Val) == "p0" {
				setOK = true
			}
			if strings.HasSuffix(ap, ".PLMNIdentity") || strings.HasSuffix(ap, "PLMNIdentity.Value") {
				nPlmn++
				v := bp.Path(st.Val)
				if v == "global:"+pBuild+".TestPlmn" || v == tp {
					nFromTest++
				}
			}
		}
	}
	c.Check(setOK, R, "ngapTestpacket.BuildNGSetupRequest:TestPlmn", b.Pos(), "TestPlmn.Value = caller's PLMN", "BuildNGSetupRequest must remember the caller's PLMN in TestPlmn")
	c.Check(nPlmn >= 2 && nPlmn == nFromTest, R, "ngapTestpacket.BuildNGSetupRequest:plmn-fields", b.Pos(), fmt.Sprintf("%d PLMN fields, all = TestPlmn", nPlmn), "%d of %d PLMN fields of the NG Setup Request are not the announced PLMN", nPlmn-nFromTest, nPlmn)
}

// r11hexconst: hexCharToByte maps every octet that is not a hexadecimal digit
// character to 0 without complaint. A constant that can reach its argument —
// directly, as an element of a digit slice literal, or appended to a digit slice as
// a filler — must therefore be such a character ('f' for the filler nibble, not the
// value 0x0f, which comes out as digit 0). The origins of every argument are traced
// backwards through slices, appends, merges and the parameters of package-local
// helpers.
func r11hexconst(c *core.Ctx) {
	const R = "R11.hexconst"
	c.Rule(R, "every constant that can reach hexCharToByte is a hexadecimal digit character (a filler is the character 'f', not the value 0x0f)")
	hex := mustFunc(c, pStg, "hexCharToByte")
	sp := c.P.SSAPkg(pStg)
	var callers []*ssa.Function
	for _, f := range allFuncsOf(sp) {
		if len(core.CallsTo(f, pStg+".hexCharToByte")) > 0 {
			callers = append(callers, f)
		}
	}
	sort.Slice(callers, func(i, j int) bool { return core.FuncName(callers[i]) < core.FuncName(callers[j]) })
	type konst struct {
		v   int64
		pos token.Pos
		fn  *ssa.Function
	}
	var found []konst
	seen := map[ssa.Value]bool{}
	nOrigins := 0
	var trace func(v ssa.Value, fn *ssa.Function, d int)
	// elements of a slice/array value
	var traceElems func(v ssa.Value, fn *ssa.Function, d int)
	trace = func(v ssa.Value, fn *ssa.Function, d int) {
		if v == nil || seen[v] || d > 12 {
			return
		}
		seen[v] = true
		switch x := v.(type) {
		case *ssa.Const:
			if k, ok := core.ConstInt(x); ok {
				found = append(found, konst{k, token.NoPos, fn})
			}
		case *ssa.Convert:
			trace(x.X, fn, d+1)
		case *ssa.ChangeType:
			trace(x.X, fn, d+1)
		case *ssa.Phi:
			for _, e := range x.Edges {
				trace(e, fn, d+1)
			}
		case *ssa.UnOp:
			if x.Op != token.MUL {
				return
			}
			switch a := x.X.(type) {
			case *ssa.IndexAddr:
				traceElems(a.X, fn, d+1)
			case *ssa.Alloc:
				for _, r := range core.Referrers(a) {
					if st, ok := r.(*ssa.Store); ok && st.Addr == ssa.Value(a) {
						trace(st.Val, fn, d+1)
					}
				}
			default:
				nOrigins++
			}
		case *ssa.Index:
			traceElems(x.X, fn, d+1)
		case *ssa.Parameter:
			// callers inside the package
			idx := -1
			for i, q := range fn.Params {
				if q == x {
					idx = i
				}
			}
			n := 0
			for _, g := range allFuncsOf(sp) {
				for _, ci := range core.CallsTo(g, core.FuncName(fn)) {
					if idx >= 0 && idx < len(ci.Common().Args) {
						n++
						trace(ci.Common().Args[idx], g, d+1)
					}
				}
			}
			if n == 0 {
				nOrigins++
			}
		default:
			nOrigins++
		}
	}
	traceElems = func(v ssa.Value, fn *ssa.Function, d int) {
		if v == nil || d > 12 {
			return
		}
		key := v
		if seen[key] {
			return
		}
		seen[key] = true
		switch x := v.(type) {
		case *ssa.Slice:
			traceElems(x.X, fn, d+1)
		case *ssa.Phi:
			for _, e := range x.Edges {
				traceElems(e, fn, d+1)
			}
		case *ssa.Alloc:
			// array literal or local array: every element store
			for _, r := range core.Referrers(x) {
				switch y := r.(type) {
				case *ssa.IndexAddr:
					for _, r2 := range core.Referrers(y) {
						if st, ok := r2.(*ssa.Store); ok && st.Addr == ssa.Value(y) {
							trace(st.Val, fn, d+1)
						}
					}
				case *ssa.Store:
					if y.Addr == ssa.Value(x) {
						traceElems(y.Val, fn, d+1)
					}
				case *ssa.Slice:
					// element stores through a re-slice of the same array (plmn[3] = …)
					for _, r2 := range core.Referrers(y) {
						if ia, ok := r2.(*ssa.IndexAddr); ok {
							for _, r3 := range core.Referrers(ia) {
								if st, ok := r3.(*ssa.Store); ok && st.Addr == ssa.Value(ia) {
									trace(st.Val, fn, d+1)
								}
							}
						}
					}
				}
			}
		case *ssa.UnOp:
			if x.Op == token.MUL {
				if a, ok := x.X.(*ssa.Alloc); ok {
					traceElems(a, fn, d+1)
					return
				}
			}
			nOrigins++
		case *ssa.Call:
			if core.CalleeName(&x.Call) == "builtin.append" {
				for _, a := range x.Call.Args {
					traceElems(a, fn, d+1)
				}
				return
			}
			nOrigins++
		case *ssa.MakeSlice:
			// zero-filled: the value 0 can reach the helper only if never overwritten; element stores:
			for _, r := range core.Referrers(x) {
				if ia, ok := r.(*ssa.IndexAddr); ok {
					for _, r2 := range core.Referrers(ia) {
						if st, ok := r2.(*ssa.Store); ok && st.Addr == ssa.Value(ia) {
							trace(st.Val, fn, d+1)
						}
					}
				}
			}
		case *ssa.Parameter:
			idx := -1
			for i, q := range fn.Params {
				if q == x {
					idx = i
				}
			}
			n := 0
			for _, g := range allFuncsOf(sp) {
				for _, ci := range core.CallsTo(g, core.FuncName(fn)) {
					if idx >= 0 && idx < len(ci.Common().Args) {
						n++
						traceElems(ci.Common().Args[idx], g, d+1)
					}
				}
			}
			if n == 0 {
				nOrigins++ // exported entry: digits supplied by the caller of the package
			}
		case *ssa.Const:
			// string constant converted to []byte etc.: not modelled
			nOrigins++
		default:
			nOrigins++
		}
	}
	nCalls := 0
	for _, f := range callers {
		for _, ci := range core.CallsTo(f, pStg+".hexCharToByte") {
			nCalls++
			trace(ci.Common().Args[0], f, 0)
		}
	}
	bad := 0
	for _, k := range found {
		r, ok := core.FoldCall(hex, []int64{k.v})
		isHexChar := (k.v >= '0' && k.v <= '9') || (k.v >= 'a' && k.v <= 'f') || (k.v >= 'A' && k.v <= 'F')
		key := fmt.Sprintf("stgutg.%s:const:%d", k.fn.Name(), k.v)
		if isHexChar && ok {
			c.Ok(R, key, k.fn.Pos(), fmt.Sprintf("%q → %d", rune(k.v), r))
			continue
		}
		bad++
		c.Fail(R, key, k.fn.Pos(), "the constant %#x can reach hexCharToByte in %s; it is not a hexadecimal digit character and is silently mapped to %d: a filler nibble has to be given as the character 'f' (0x66), the value 0x0f comes out as digit 0", k.v, k.fn.Name(), r)
	}
	if nCalls < 1 {
		c.Undecided("R11.hexconst: no hexCharToByte call site found (%d)", nCalls)
	}
	if bad == 0 {
		c.Ok(R, "stgutg.hexCharToByte:arguments", hex.Pos(), fmt.Sprintf("%d call sites traced to %d non-constant origins and %d constants, all hexadecimal digit characters", nCalls, nOrigins, len(found)))
	}
}
