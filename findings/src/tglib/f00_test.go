package tglib

import "testing"

func TestF00(t *testing.T) {
	b, err := GetNGSetupRequest([]byte{0, 1, 2}, []byte{0x00, 0xf1, 0x10}, 24, "gnb")
	t.Logf("%x %v", b, err)
	if err != nil {
		t.Fatal(err)
	}
}
