package rules

import (
	"fmt"
	"os"
	"strings"

	"stgverif/internal/core"
)

// R3.strlen, encoder side, on the evaluator (DESIGN §11.17): appendBitString / appendOctetString
// are interpreted up to their first length determinant, helpers of the package entered (the SIZE
// constraint preamble may live in one). Each outcome says, under its facts about the bounds, which
// range and which value are handed to appendLength: the constrained form (range ub-lb+1, value
// n-lb) exactly when both bounds exist and ub <= 65535 and n is inside the root; the general form
// (range -1, value n) otherwise.
func r3strlenEncX(c *core.Ctx, R, fnName string, lbPar int, countName string) bool {
	fn := mustFunc(c, pAper, fnName)
	ex := core.NewExec()
	ex.MaxStates = 2048
	ex.OnCall = func(ev *core.AEvent, m *core.AMem) (core.AVal, bool) {
		n := ev.Callee
		switch {
		case n == pAper+".perRawBitData.appendLength":
			ev.Stop = true
			return core.AVal{}, true
		case n == pAper+".perRawBitData.putBitsValue", n == pAper+".perRawBitData.putBitString":
			return core.NilArg(), true
		case n == pAper+".perRawBitData.appendAlignBits":
			return core.AVal{K: core.ATuple}, true
		case strings.HasSuffix(n, ".perTrace"), strings.HasSuffix(n, ".perRawBitLog"), n == "fmt.Sprintf", strings.HasPrefix(n, "log."), strings.Contains(n, "logrus"), strings.Contains(n, "logger"):
			return core.OpaqueRet(ev), true
		}
		return core.AVal{}, false
	}
	args := core.DefaultArgs(fn)
	args[0] = core.NonNilArg(args[0])
	outs, err := ex.Run(fn, args, nil)
	if err != nil || len(ex.Unsound) > 0 {
		c.Note("R3.strlen: evaluator model of %s not used (%v %v)", fnName, err, ex.Unsound)
		return false
	}
	lb, ub := fmt.Sprintf("p%d", lbPar), fmt.Sprintf("p%d", lbPar+1)
	nProbe := 0
	ok, why := true, ""
	sawCon, sawGen := false, false
	for _, o := range outs {
		if !o.Stopped || len(o.Trace) == 0 {
			continue
		}
		last := o.Trace[len(o.Trace)-1]
		if last.Callee != pAper+".perRawBitData.appendLength" || len(last.Args) != 3 {
			continue
		}
		rng, val := last.Args[1], last.Args[2]
		vn := nm(val)
		if k, isK := val.ConstVal(); isK && k >= 16384 {
			continue // a fragment of a long string: R3.len's business
		}
		if val.K == core.AInt && len(val.Bits) >= 14 {
			lowZero := true
			for _, b := range val.Bits[:14] {
				if b.Kind != core.BZero {
					lowZero = false
				}
			}
			if lowZero {
				continue // a multiple of 16K: the size of a fragment (n & 0xc000), R3.len's business
			}
		}
		nProbe++
		lbNil, lbKnown := o.Nils[lb]
		ubNil, ubKnown := o.Nils[ub]
		hasBoth := lbKnown && !lbNil && ubKnown && !ubNil
		ubSmall := false
		if f, has := o.SFacts[ub]; has && f[1] <= 65535 {
			ubSmall = true
		}
		if k, isK := rng.ConstVal(); isK && int64(k) == -1 {
			sawGen = true
			// general determinant: the count itself
			if vn == "("+countName+"-"+lb+")" && ubKnown && ubNil {
				// semi-constrained size (lower bound, no upper bound): the code sends n - lb where X.691 10.9.3.5 sends n
				if c.Once("strlen-semi:" + fnName) {
					c.Except(R, "aper."+fnName+":semi-constrained", fn.Pos(), "semi-constrained size (lower bound without upper bound): n - lb is sent where X.691 10.9.3.5 sends n; no NGAP type has such a constraint (R3.schema), so no encoding is affected")
				}
				continue
			}
			if vn != countName && os.Getenv("VERIF_DEBUG") != "" {
				fmt.Printf("DEBUG strlen %s general vn=%s nils=%v conds=%v\n", fnName, vn, o.Nils, o.Conds)
			}
			if vn != countName {
				ok, why = false, fmt.Sprintf("with the general length determinant the value is %s, want the count itself (%s)", clip(vn), countName)
			}
			continue
		}
		wantR := "(1+(" + ub + "-" + lb + "))"
		// sizeLB <= sizeUB (R3.tag), so ub-lb+1 >= 1: a path on which the code found that very range to
		// be -1 (or anything below 1) does not exist
		if f, has := core.FactOf(o.SFacts, o.Facts, wantR, 64); has && f[1] < 1 {
			continue
		}
		sawCon = true
		wantV := "(" + countName + "-" + lb + ")"
		if (nm(rng) != wantR || vn != wantV) && os.Getenv("VERIF_DEBUG") != "" {
			fmt.Printf("DEBUG strlen %s constrained rng=%s vn=%s conds=%v\n", fnName, nm(rng), vn, o.Conds)
		}
		if nm(rng) != wantR || vn != wantV {
			ok, why = false, fmt.Sprintf("with a constrained size the length goes out as range %s, value %s; want range ub-lb+1 and value count-lb", clip(nm(rng)), clip(vn))
		}
		if !hasBoth || !ubSmall {
			ok, why = false, fmt.Sprintf("the constrained form (range %s) is used on a path that has not established both bounds with ub <= 65535", clip(nm(rng)))
		}
	}
	if nProbe == 0 || !sawCon || !sawGen {
		c.Note("R3.strlen: evaluator model of %s not used (%d probes, constrained seen %v, general seen %v)", fnName, nProbe, sawCon, sawGen)
		return false
	}
	if strlenEncDecided[c] == nil {
		strlenEncDecided[c] = map[string]bool{}
	}
	strlenEncDecided[c][fnName] = true
	c.Check(ok, R, "aper."+fnName+":length-offset", fn.Pos(), fmt.Sprintf("constrained: range ub-lb+1, value n-lb (both bounds, ub <= 65535); otherwise range -1, value n (%d evaluated outcomes)", nProbe),
		"%s: %s (X.691 10.9.3.3 / 10.9.3.5)", fnName, why)
	return true
}

// strlenEncDecided: the encoder primitives whose size-constraint handling was decided on the evaluator.
var strlenEncDecided = map[*core.Ctx]map[string]bool{}
